PROPERTY = "C19"
LEVEL = "model_checking"
FUNCTIONS = [
    "sqfs_copy", "sqfs_grab", "sqfs_drop",
    "array_init_copy", "array_init", "array_cleanup",
    "frag_table_copy", "frag_table_destroy", "id_table_copy", "id_table_destroy",
    "meta_reader_copy", "meta_reader_destroy", "data_reader_copy", "data_reader_destroy",
    "dir_reader_copy", "dir_reader_destroy", "xattr_reader_copy", "xattr_reader_destroy",
    "xattr_writer_copy", "xattr_writer_destroy", "block_compare", "stdio_copy", "stdio_destroy",
    "gzip_create_copy", "gzip_destroy", "xz_create_copy", "xz_destroy", "lz4_create_copy",
    "lz4_destroy", "zstd_create_copy", "zstd_destroy", "lzma_create_copy", "lzma_destroy",
    "rbtree_copy", "copy_node", "rbtree_cleanup", "destroy_nodes_dfs", "rbtree_lookup",
    "str_table_copy", "str_table_cleanup", "hash_table_clone", "hash_table_next_entry",
    "hash_table_destroy",
]
TRUSTED = [
    "malloc/calloc/free: NULL or a fresh object of the requested size (CBMC memory model); every allocation of the code under test may fail, the choice is on the tape (c19_env.h)",
    "abstract sqfs object contract for sub-objects a composite copies or shares (c19_env.h): copy = NULL or fresh object with the same hooks, destroy frees a live object; each concrete type is verified against the same contract in its own harness",
    "alloc_flex/alloc_array (lib/util/src/alloc.c): NULL or a fresh zeroed object of base+item*n bytes (c19_alloc.h; real body used nowhere in C19)",
    "mem_pool_create/allocate/destroy (mmap pool, c19_mempool.h) for the default rbtree configuration",
    "zlib deflateInit2_/inflateInit_/deflateEnd/inflateEnd, libzstd ZSTD_createCCtx/ZSTD_freeCCtx: state attached on success, none on failure, End/free release a live state of the matching kind",
    "sqfs_native_file_duplicate / sqfs_native_file_close (lib/sqfs/src/io/unix.c): ghost descriptor table",
    "strlen on strings the harness built: ghost length (str_table.c, stdio_file.c); memcmp in block_compare: readable operands, arbitrary result (xattr_writer.c)",
    "str_table_copy/str_table_cleanup as contract inside xattr_writer.c, hash_table_clone as contract inside str_table.c - both contracts are verified against the real bodies by str_table.c and ht_clone.c",
]
ASSUMPTIONS = [
    "'the copy answers every subsequent operation exactly as the original' is reduced to state equality (every scalar field, every owned byte by witness index, shape of owned trees/lists) plus C10's result that answers are functions of reader state; no operation sequence is executed on the copies",
    "heap shapes are concrete and bounded: arrays <= 4 elements, rbtree <= 3 nodes (all 9 shapes in the thorough tier), str_table 1..2 strings of 7 bytes in a 5-slot hash table (the empty table runs cbmc out of memory), xattr writer 0..1 recorded blocks (2 blocks exceed 8 GB), data reader block size 32, file name length <= 12, dir reader cache <= 2 nodes; field values and buffer bytes are symbolic",
    "frame conditions are checked by snapshot comparison in the harness (every field and a witness byte of every buffer of the original before/after); only array_init_copy is additionally checked with a dfcc assigns clause",
    "dir_reader and xattr_writer use the -DNO_CUSTOM_ALLOC rbtree configuration; the pool configuration differs only inside rbtree_copy and is covered by the rbtree harness",
    "interleavings of operations on original and copy by different threads are not modelled (sequential independence only)",
    "Windows code paths are preprocessed away",
]
EXPLANATION = ("one harness per copy/destroy hook pair: the original is built on the heap with a concrete shape and "
               "symbolic contents, sqfs_copy runs with every allocation allowed to fail (tape-driven), then header / fresh / "
               "frame / independent obligations are asserted, both release orders are executed under pointer and leak checks "
               "with a ghost live-allocation counter; flat objects (sqfs_copy/grab/drop, meta reader, compressors, "
               "hash_table_clone) are loop-free and fully symbolic, hence proved")

LEAK = ["--memory-leak-check"]

def _n(lo, hi, tier="quick", **kw):
    return [dict(id="n%d" % n, defines=dict({"N": n}, **kw), tier=tier) for n in range(lo, hi + 1)]

def _arr(tier, ns, eszs):
    return [dict(id="n%d_esz%d" % (n, e), defines={"N": n, "ESZ": e}, tier=tier)
            for n in ns for e in eszs]

HARNESSES = [
    dict(name="array", file="array.c", label="bounded(elements<=4)",
         flags=LEAK, timeout=900, unwind=70,
         cases=_arr("quick", (0, 1, 3), (4, 8)) + _arr("thorough", (2, 4), (1, 4, 8, 16))),
    dict(name="array_frame", file="array_frame.c", label="bounded(elements<=4)",
         mode="dfcc", enforce="array_init_copy", malloc_fail=True, native=False,
         timeout=900, unwind=70,
         cases=_arr("quick", (1, 3), (8,)) + _arr("thorough", (2, 4), (4, 16))),
    dict(name="predef", file="predef.c", label="proved",
         fp={"destroy": ["hook_destroy", "c19_obj_destroy"], "copy": ["hook_copy"]},
         flags=LEAK, timeout=900),
    dict(name="frag_table", file="frag_table.c", label="bounded(entries<=4)",
         fp={"destroy": ["frag_table_destroy"], "copy": ["frag_table_copy"]},
         flags=LEAK, timeout=900, unwind=70,
         cases=_n(0, 2) + _n(3, 4, "thorough")),
    dict(name="id_table", file="id_table.c", label="bounded(entries<=4)",
         fp={"destroy": ["id_table_destroy"], "copy": ["id_table_copy"]},
         flags=LEAK, timeout=900, unwind=20,
         cases=_n(0, 2) + _n(3, 4, "thorough")),
    dict(name="meta_reader", file="meta_reader.c", label="proved",
         fp={"destroy": ["meta_reader_destroy", "c19_obj_destroy"],
             "copy": ["meta_reader_copy"], "read_at": "c19_unreachable_read_at", "do_block": "c19_unreachable_do_block"},
         flags=LEAK, timeout=900, unwind=2, weight=10),
    dict(name="data_reader", file="data_reader.c", label="bounded(block_size<=32)", weight=6,
         fp={"destroy": ["data_reader_destroy", "c19_obj_destroy"],
             "copy": ["data_reader_copy", "c19_obj_copy"],
             "read_at": "c19_unreachable_read_at", "do_block": "c19_unreachable_do_block"},
         flags=LEAK, timeout=600, unwind=2,
         cases=[dict(id="db%d_fb%d" % (d, f), defines={"HAVE_DB": d, "HAVE_FB": f}, tier="quick")
                for d in (0, 1) for f in (0, 1)] +
               [dict(id="bs256_db1_fb1", tier="thorough", label="bounded(block_size<=256)", timeout=1500,
                     defines={"BS": 256, "HAVE_DB": 1, "HAVE_FB": 1, "DBS": 256, "FBS": 100})]),
    dict(name="xattr_reader", file="xattr_reader.c", label="bounded(id_blocks<=4)",
         fp={"destroy": ["xattr_reader_destroy", "c19_obj_destroy"],
             "copy": ["xattr_reader_copy", "c19_obj_copy"],
             "read_at": "c19_unreachable_read_at", "do_block": "c19_unreachable_do_block"},
         flags=LEAK, timeout=600, unwind=2,
         cases=[dict(id="kv%d_id%d_nb%d" % (k, i, nb),
                     defines={"HAVE_KV": k, "HAVE_ID": i, "NB": nb}, tier=t)
                for (k, i, nb, t) in ((1, 1, 2, "quick"), (0, 0, 0, "quick"), (1, 1, 0, "quick"),
                                      (1, 0, 1, "quick"), (0, 1, 1, "thorough"),
                                      (1, 1, 4, "thorough"), (1, 1, 1, "thorough"))]),
    dict(name="rbtree", file="rbtree.c", label="bounded(nodes<=3)", weight=4,
         fp={"key_compare": "cmp_stub"},
         flags=LEAK, timeout=600, unwind=5,
         cases=[dict(id="shape%d_%s" % (sh, cfg), tier=t,
                     defines=dict({"SHAPE": sh}, **({"NO_CUSTOM_ALLOC": None} if cfg == "calloc" else {})))
                for cfg in ("pool", "calloc")
                for (sh, t) in ((0, "quick"), (1, "quick"), (2, "quick"), (3, "thorough"), (4, "quick"),
                                (5, "thorough"), (6, "thorough"), (7, "thorough"), (8, "thorough"))]),
    dict(name="str_table", file="str_table.c", label="bounded(strings<=2,len=7)", weight=7,
         fp={"key_equals_function": "eq_stub", "key_hash_function": "hash_stub",
             "delete_function": "del_stub"},
         flags=LEAK, timeout=900, unwind=6,
         cases=[dict(id="n%d" % n, defines={"N": n}, tier="quick",
                     # strcpy / strlen bounds: an implementation that copies the 7 byte
                     # strings with libc calls must reach the obligations (seed C19-8 was
                     # first reported as an unwinding assertion of strcpy only)
                     unwindset=["str_table_copy.0:%d" % (n + 2), "str_table_cleanup.0:%d" % (n + 2),
                                "strcpy.0:10", "strlen.0:10", "memcpy.0:10"])
                for n in (1, 2)]),
    dict(name="comp_xz", file="comp_flat.c", label="proved", defines={"COMP": 1},
         fp={"destroy": "xz_destroy", "copy": "xz_create_copy", "*": "c19_unreachable_read_at"},
         flags=LEAK, timeout=600, unwind=2),
    dict(name="comp_lz4", file="comp_flat.c", label="proved", defines={"COMP": 2},
         fp={"destroy": "lz4_destroy", "copy": "lz4_create_copy", "*": "c19_unreachable_read_at"},
         flags=LEAK, timeout=600, unwind=2),
    dict(name="comp_lzma", file="comp_flat.c", label="proved", defines={"COMP": 3},
         fp={"destroy": "lzma_destroy", "copy": "lzma_create_copy", "*": "c19_unreachable_read_at"},
         flags=LEAK, timeout=600, unwind=2),
    dict(name="comp_gzip", file="comp_gzip.c", label="proved",
         fp={"destroy": "gzip_destroy", "copy": "gzip_create_copy", "*": "c19_unreachable_read_at"},
         flags=LEAK, timeout=600, unwind=2,
         cases=[dict(id="compress", defines={"COMPRESS": 1}, tier="quick"),
                dict(id="uncompress", defines={"COMPRESS": 0}, tier="quick")]),
    dict(name="comp_zstd", file="comp_zstd.c", label="proved",
         fp={"destroy": "zstd_destroy", "copy": "zstd_create_copy", "*": "c19_unreachable_read_at"},
         flags=LEAK, timeout=600, unwind=2),
    dict(name="stdio_file", file="stdio_file.c", label="bounded(name_len<=12)",
         fp={"destroy": "stdio_destroy", "copy": "stdio_copy", "*": "c19_unreachable_read_at"},
         flags=LEAK, timeout=600, unwind=9,
         cases=[dict(id="nl%d" % n, defines={"NL": n}, tier=t)
                for n, t in ((1, "quick"), (5, "quick"), (12, "thorough"))]),
    dict(name="dir_reader", file="dir_reader.c", label="bounded(dcache_nodes<=2)", weight=9,
         fp={"destroy": ["dir_reader_destroy", "c19_obj_destroy"],
             "copy": ["dir_reader_copy", "c19_obj_copy"],
             "key_compare": "dcache_key_compare", "*": "c19_unreachable_read_at"},
         flags=LEAK, timeout=9000, unwind=2,
         unwindset=["copy_node:4", "destroy_nodes_dfs:4"] + ["harness.%d:4" % i for i in range(5)],
         cases=[dict(id="dot%d_nn%d" % (d, n), defines={"DOT": d, "NN": n}, tier=t)
                # dot1_nn1 (a non-empty cache, ~4 min) is in the quick tier since seed C19-5:
                # a copy that starts with an EMPTY cache is only visible with >= 1 node
                for d, n, t in ((1, 0, "quick"), (0, 0, "thorough"), (1, 1, "quick"), (1, 2, "thorough"))]),
    dict(name="xattr_writer", file="xattr_writer.c", label="bounded(blocks<=1,pairs=3)", weight=6,
         fp={"destroy": "xattr_writer_destroy", "copy": "xattr_writer_copy",
             "key_compare": "block_compare"},
         flags=LEAK, timeout=900, unwind=4,
         cases=[dict(id="nb%d_first%d" % (n, f), defines={"NB": n, "FIRST": f}, tier=t,
                     unwindset=["xattr_writer_copy.0:%d" % (n + 2), "rbtree_lookup.0:%d" % (n + 1),
                                "copy_node:%d" % (n + 1), "destroy_nodes_dfs:%d" % (n + 2)])
                for n, f, t in ((0, 0, "quick"), (1, 0, "quick"))]),
    dict(name="ht_clone", file="ht_clone.c", label="proved",
         fp={"key_equals_function": "eq_stub", "key_hash_function": "hash_stub",
             "delete_function": "del_stub"},
         flags=LEAK, timeout=600, unwind=7),
]
