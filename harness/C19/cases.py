PROPERTY = "C19"
LEVEL = "model_checking"
FUNCTIONS = ["frag_table_copy", "frag_table_destroy"]
TRUSTED = []
ASSUMPTIONS = []
EXPLANATION = ""

LEAK = ["--memory-leak-check"]

def _n(lo, hi, tier="quick", **kw):
    return [dict(id="n%d" % n, defines=dict({"N": n}, **kw), tier=tier) for n in range(lo, hi + 1)]

HARNESSES = [
    dict(name="predef", file="predef.c", label="proved",
         fp={"destroy": ["hook_destroy", "c19_obj_destroy"], "copy": ["hook_copy"]},
         flags=LEAK, timeout=300),
    dict(name="frag_table", file="frag_table.c", label="bounded(entries<=4)",
         fp={"destroy": ["frag_table_destroy"], "copy": ["frag_table_copy"]},
         flags=LEAK, timeout=300, unwind=70,
         cases=_n(0, 2) + _n(3, 4, "thorough")),
    dict(name="id_table", file="id_table.c", label="bounded(entries<=4)",
         fp={"destroy": ["id_table_destroy"], "copy": ["id_table_copy"]},
         flags=LEAK, timeout=300, unwind=20,
         cases=_n(0, 2) + _n(3, 4, "thorough")),
]
