PROPERTY = "C19"
LEVEL = "model_checking"
FUNCTIONS = ["frag_table_copy", "frag_table_destroy"]
TRUSTED = []
ASSUMPTIONS = []
EXPLANATION = ""

LEAK = ["--memory-leak-check"]

def _n(lo, hi, tier="quick", **kw):
    return [dict(id="n%d" % n, defines=dict({"N": n}, **kw), tier=tier) for n in range(lo, hi + 1)]

def _arr(tier, ns, eszs):
    return [dict(id="n%d_esz%d" % (n, e), defines={"N": n, "ESZ": e}, tier=tier)
            for n in ns for e in eszs]

HARNESSES = [
    dict(name="array", file="array.c", label="bounded(elements<=4)",
         flags=LEAK, timeout=300, unwind=70,
         cases=_arr("quick", (0, 1, 3), (4, 8)) + _arr("thorough", (2, 4), (1, 4, 8, 16))),
    dict(name="array_frame", file="array_frame.c", label="bounded(elements<=4)",
         mode="dfcc", enforce="array_init_copy", malloc_fail=True, native=False, cover=False,
         timeout=300, unwind=70,
         cases=_arr("quick", (1, 3), (8,)) + _arr("thorough", (2, 4), (4, 16))),
    dict(name="predef", file="predef.c", label="proved",
         fp={"destroy": ["hook_destroy", "c19_obj_destroy"], "copy": ["hook_copy"]},
         flags=LEAK, timeout=300),
    dict(name="frag_table", file="frag_table.c", label="bounded(entries<=4)",
         fp={"destroy": ["frag_table_destroy"], "copy": ["frag_table_copy"]},
         flags=LEAK, timeout=300, unwind=70,
         cases=_n(0, 2) + _n(3, 4, "thorough")),
    dict(name="id_table", file="id_table.c", label="bounded(entries<=4)",
         fp={"destroy": ["id_table_destroy"], "copy": ["id_table_copy"]},
         flags=LEAK, timeout=300, unwind=20,
         cases=_n(0, 2) + _n(3, 4, "thorough")),
    dict(name="meta_reader", file="meta_reader.c", label="proved",
         fp={"destroy": ["meta_reader_destroy", "c19_obj_destroy"],
             "copy": ["meta_reader_copy"], "read_at": "c19_unreachable_read_at", "do_block": "c19_unreachable_do_block"},
         flags=LEAK, timeout=300, unwind=2, weight=5),
    dict(name="data_reader", file="data_reader.c", label="bounded(block_size<=32)",
         fp={"destroy": ["data_reader_destroy", "c19_obj_destroy"],
             "copy": ["data_reader_copy", "c19_obj_copy"],
             "read_at": "c19_unreachable_read_at", "do_block": "c19_unreachable_do_block"},
         flags=LEAK, timeout=200, unwind=2,
         cases=[dict(id="db%d_fb%d" % (d, f), defines={"HAVE_DB": d, "HAVE_FB": f}, tier="quick")
                for d in (0, 1) for f in (0, 1)]),
    dict(name="xattr_reader", file="xattr_reader.c", label="bounded(id_blocks<=4)",
         fp={"destroy": ["xattr_reader_destroy", "c19_obj_destroy"],
             "copy": ["xattr_reader_copy", "c19_obj_copy"],
             "read_at": "c19_unreachable_read_at", "do_block": "c19_unreachable_do_block"},
         flags=LEAK, timeout=200, unwind=2,
         cases=[dict(id="kv%d_id%d_nb%d" % (k, i, nb),
                     defines={"HAVE_KV": k, "HAVE_ID": i, "NB": nb}, tier=t)
                for (k, i, nb, t) in ((1, 1, 2, "quick"), (0, 0, 0, "quick"), (1, 1, 0, "quick"),
                                      (1, 0, 1, "quick"), (0, 1, 1, "thorough"),
                                      (1, 1, 4, "thorough"), (1, 1, 1, "thorough"))]),
    dict(name="rbtree", file="rbtree.c", label="bounded(nodes<=3)",
         fp={"key_compare": "cmp_stub"},
         flags=LEAK, timeout=200, unwind=5,
         cases=[dict(id="shape%d_%s" % (sh, cfg), tier=t,
                     defines=dict({"SHAPE": sh}, **({"NO_CUSTOM_ALLOC": None} if cfg == "calloc" else {})))
                for cfg in ("pool", "calloc")
                for (sh, t) in ((0, "quick"), (1, "quick"), (2, "quick"), (3, "thorough"), (4, "quick"),
                                (5, "thorough"), (6, "thorough"), (7, "thorough"), (8, "thorough"))]),
    dict(name="str_table", file="str_table.c", label="bounded(strings<=2,len=7)",
         fp={"key_equals_function": "eq_stub", "key_hash_function": "hash_stub",
             "delete_function": "del_stub"},
         flags=LEAK, timeout=300, unwind=6,
         cases=[dict(id="n%d" % n, defines={"N": n}, tier="quick",
                     unwindset=["str_table_copy.0:%d" % (n + 2), "str_table_cleanup.0:%d" % (n + 2)])
                for n in (1, 2)]),
    dict(name="comp_xz", file="comp_flat.c", label="proved", defines={"COMP": 1},
         fp={"destroy": "xz_destroy", "copy": "xz_create_copy", "*": "c19_unreachable_read_at"},
         flags=LEAK, timeout=200, unwind=2),
    dict(name="comp_lz4", file="comp_flat.c", label="proved", defines={"COMP": 2},
         fp={"destroy": "lz4_destroy", "copy": "lz4_create_copy", "*": "c19_unreachable_read_at"},
         flags=LEAK, timeout=200, unwind=2),
    dict(name="comp_lzma", file="comp_flat.c", label="proved", defines={"COMP": 3},
         fp={"destroy": "lzma_destroy", "copy": "lzma_create_copy", "*": "c19_unreachable_read_at"},
         flags=LEAK, timeout=200, unwind=2),
    dict(name="comp_gzip", file="comp_gzip.c", label="proved",
         fp={"destroy": "gzip_destroy", "copy": "gzip_create_copy", "*": "c19_unreachable_read_at"},
         flags=LEAK, timeout=200, unwind=2,
         cases=[dict(id="compress", defines={"COMPRESS": 1}, tier="quick"),
                dict(id="uncompress", defines={"COMPRESS": 0}, tier="quick")]),
    dict(name="comp_zstd", file="comp_zstd.c", label="proved",
         fp={"destroy": "zstd_destroy", "copy": "zstd_create_copy", "*": "c19_unreachable_read_at"},
         flags=LEAK, timeout=200, unwind=2),
    dict(name="stdio_file", file="stdio_file.c", label="bounded(name_len<=12)",
         fp={"destroy": "stdio_destroy", "copy": "stdio_copy", "*": "c19_unreachable_read_at"},
         flags=LEAK, timeout=200, unwind=9,
         cases=[dict(id="nl%d" % n, defines={"NL": n}, tier=t)
                for n, t in ((1, "quick"), (5, "quick"), (12, "thorough"))]),
    dict(name="dir_reader", file="dir_reader.c", label="bounded(dcache_nodes<=2)",
         fp={"destroy": ["dir_reader_destroy", "c19_obj_destroy"],
             "copy": ["dir_reader_copy", "c19_obj_copy"],
             "key_compare": "dcache_key_compare", "*": "c19_unreachable_read_at"},
         flags=LEAK, timeout=300, unwind=2,
         unwindset=["copy_node:4", "destroy_nodes_dfs:4"] + ["harness.%d:4" % i for i in range(5)],
         cases=[dict(id="dot%d_nn%d" % (d, n), defines={"DOT": d, "NN": n}, tier=t)
                for d, n, t in ((0, 0, "quick"), (1, 0, "quick"), (1, 1, "thorough"), (1, 2, "thorough"))]),
    dict(name="xattr_writer", file="xattr_writer.c", label="bounded(blocks<=1,pairs=3)",
         fp={"destroy": "xattr_writer_destroy", "copy": "xattr_writer_copy",
             "key_compare": "block_compare"},
         flags=LEAK, timeout=300, unwind=4,
         cases=[dict(id="nb%d_first%d" % (n, f), defines={"NB": n, "FIRST": f}, tier=t,
                     unwindset=["xattr_writer_copy.0:%d" % (n + 2), "rbtree_lookup.0:%d" % (n + 1),
                                "copy_node:%d" % (n + 1), "destroy_nodes_dfs:%d" % (n + 2)])
                for n, f, t in ((0, 0, "quick"), (1, 0, "quick"))]),
    dict(name="ht_clone", file="ht_clone.c", label="proved",
         fp={"key_equals_function": "eq_stub", "key_hash_function": "hash_stub",
             "delete_function": "del_stub"},
         flags=LEAK, timeout=200, unwind=7),
]
