/* Shared body of the frag_table / id_table harnesses: an sqfs object whose
 * only owned state is one array_t. Parameters: TBL_T (object type), TBL_ARR
 * (name of the array_t member), TBL_DESTROY / TBL_COPY (the type's hooks),
 * ESZ (element size), N (entries, concrete), SLACK (spare capacity). */
#ifndef N
#define N 2
#endif
#ifndef SLACK
#define SLACK 1
#endif

void harness(void)
{
	TBL_T *o, *c;
	size_t rc0 = verif_nd_size("refcount");
	size_t k = verif_nd_size("witness");
	sqfs_u8 *odata = NULL, v = 0;
	unsigned calls0;
	long live0;
	bool order;

	VERIF_ASSUME(rc0 >= 1);
	VERIF_ASSUME(N == 0 || k < N * ESZ);

	/* the original, as the type's create + N appends / a table read leave it */
	o = malloc(sizeof(*o));
	o->base.refcount = rc0;
	o->base.destroy = TBL_DESTROY;
	o->base.copy = TBL_COPY;
	o->TBL_ARR.size = ESZ;
	o->TBL_ARR.used = N;
	o->TBL_ARR.count = N + SLACK;
	o->TBL_ARR.data = NULL;
	if (N + SLACK > 0) {
		odata = malloc((N + SLACK) * ESZ);
		verif_nd_bytes(odata, N * ESZ, "entry");
		o->TBL_ARR.data = odata;
	}
	if (N > 0)
		v = odata[k];
	live0 = g_live;
	calls0 = g_alloc_calls;

	g_oom_enabled = 1;
	c = sqfs_copy(o);
	g_oom_enabled = 0;

	/* frame: the original is exactly as before, success or not */
	VERIF_ASSERT(o->base.refcount == rc0 &&
		     o->base.destroy == TBL_DESTROY &&
		     o->base.copy == TBL_COPY &&
		     o->TBL_ARR.size == ESZ && o->TBL_ARR.used == N &&
		     o->TBL_ARR.count == N + SLACK && o->TBL_ARR.data == odata,
		     C19_OB("frame"));
	if (N > 0)
		VERIF_ASSERT(odata[k] == v, C19_OB("frame"));

	if (c == NULL) {
		VERIF_ASSERT(g_alloc_failed > 0, C19_OB("succeeds"));
		VERIF_ASSERT(g_live == live0, C19_OB("oom.no_leak"));
		VERIF_COVER(g_alloc_failed == 1 && g_alloc_calls - calls0 == 1);
#if N > 0
		VERIF_COVER(g_alloc_failed == 1 && g_alloc_calls - calls0 == 2);
#endif
	} else {
		VERIF_COVER(g_alloc_failed == 0);
		VERIF_ASSERT(c->base.destroy == TBL_DESTROY &&
			     c->base.copy == TBL_COPY,
			     C19_OB("header"));
		VERIF_ASSERT(c->base.refcount == 1, C19_OB("header"));
		/* the remaining obligations are checked independently of the
		 * header one: continue with the header the property demands */
		c->base.destroy = TBL_DESTROY;
		c->base.copy = TBL_COPY;
		c->base.refcount = 1;

		VERIF_ASSERT(c != o, C19_OB("fresh"));
		VERIF_ASSERT(c->TBL_ARR.size == ESZ && c->TBL_ARR.used == N &&
			     c->TBL_ARR.count >= N, C19_OB("fresh"));
		if (N > 0) {
			sqfs_u8 *cdata = c->TBL_ARR.data;

			VERIF_ASSERT(cdata != NULL &&
				     C19_DISTINCT(cdata, odata),
				     C19_OB("fresh"));
			VERIF_ASSERT(VERIF_R_OK(cdata, N * ESZ) &&
				     cdata[k] == v, C19_OB("fresh"));

		}
#ifdef TBL_ANSWERS_EQ
		/* every query of the public read API, for every index, answers
		 * the same on the copy as on the original */
		VERIF_ASSERT(TBL_ANSWERS_EQ(o, c, verif_nd_u32("query_index")),
			     C19_OB("answers_equal"));
#endif
		if (N > 0) {
			sqfs_u8 *cdata = c->TBL_ARR.data;

			/* independence: write through one, read the other */
			cdata[k] = v ^ 0xFF;
			VERIF_ASSERT(odata[k] == v, C19_OB("independent"));
			odata[k] = v ^ 0x01;
			VERIF_ASSERT(cdata[k] == (v ^ 0xFF),
				     C19_OB("independent"));
		}
	}

	/* release: both orders; an original with other holders just loses one
	 * reference */
	order = verif_nd_bool("order");
	if (order) {
		sqfs_drop(o);
		if (c != NULL)
			sqfs_drop(c);
	} else {
		if (c != NULL)
			sqfs_drop(c);
		sqfs_drop(o);
	}
	if (rc0 == 1) {
		if (c != NULL)
			VERIF_ASSERT(g_live == 0, C19_OB("release.no_leak"));
		else
			VERIF_ASSERT(g_live == 0, C19_OB("oom.original_releasable"));
	} else {
		VERIF_ASSERT(o->base.refcount == rc0 - 1 &&
			     g_live == live0, C19_OB("release.no_leak"));
		/* last holder lets go */
		o->base.refcount = 1;
		sqfs_drop(o);
		VERIF_ASSERT(g_live == 0, C19_OB("release.no_leak"));
	}
	VERIF_COVER(c != NULL && order && rc0 == 1);
	VERIF_COVER(c != NULL && !order && rc0 > 1);
}
