/* C19: array_init_copy / array_cleanup (lib/util/src/array.c).
 *
 * Source array: N used elements of ESZ bytes (both concrete per case),
 * capacity N+SLACK, every byte symbolic; destination descriptor arbitrary
 * (uninitialised memory).
 *
 *   C19.array.succeeds        non-zero result only if the allocation failed
 *   C19.array.fresh           dst buffer is a new object, size/used equal,
 *                             capacity covers used, every byte equal
 *   C19.array.frame           src descriptor and bytes unchanged
 *                             (array_frame.c proves the same as a dfcc
 *                             assigns clause)
 *   C19.array.independent     writes through one are invisible in the other
 *   C19.array.release         cleanup of both in either order frees everything
 *                             exactly once and leaves zeroed descriptors
 *   C19.array.oom             failure: nothing allocated is kept, dst holds
 *                             no buffer
 *   C19.array.memcpy_args_nonnull
 */
#define C19_T "array"
#include "c19_env.h"
#include "lib/util/src/array.c"

#ifndef N
#define N 2
#endif
#ifndef SLACK
#define SLACK 1
#endif
#ifndef ESZ
#define ESZ 8
#endif

void harness(void)
{
	array_t src, dst;
	size_t k = verif_nd_size("witness");
	sqfs_u8 *sdata = NULL, *ddata, v = 0;
	bool order = verif_nd_bool("order");
	long live0;
	int ret;

	VERIF_ASSUME(N == 0 || k < N * ESZ);
	src.size = ESZ;
	src.used = N;
	src.count = N + SLACK;
	src.data = NULL;
	if (N + SLACK > 0) {
		sdata = malloc((N + SLACK) * ESZ);
		verif_nd_bytes(sdata, N * ESZ, "elem");
		src.data = sdata;
	}
	if (N > 0)
		v = sdata[k];
	dst.size = verif_nd_size("junk");
	dst.used = verif_nd_size("junk");
	dst.count = verif_nd_size("junk");
	dst.data = (void *)(uintptr_t)verif_nd_size("junk");
	live0 = g_live;

	g_oom_enabled = 1;
	ret = array_init_copy(&dst, &src);
	g_oom_enabled = 0;

	VERIF_ASSERT(src.size == ESZ && src.used == N && src.count == N + SLACK &&
		     src.data == sdata, C19_OB("frame"));
	if (N > 0)
		VERIF_ASSERT(sdata[k] == v, C19_OB("frame"));

	if (ret != 0) {
		VERIF_ASSERT(g_alloc_failed > 0, C19_OB("succeeds"));
		VERIF_ASSERT(g_live == live0 && dst.data == NULL, C19_OB("oom"));
#if N > 0
		VERIF_COVER(1);
#endif
	} else {
		ddata = dst.data;
		VERIF_ASSERT(g_alloc_failed == 0, C19_OB("succeeds"));
		VERIF_ASSERT(dst.size == ESZ && dst.used == N && dst.count >= N,
			     C19_OB("fresh"));
		if (N > 0) {
			VERIF_ASSERT(ddata != NULL && C19_DISTINCT(ddata, sdata) &&
				     VERIF_RW_OK(ddata, N * ESZ) && ddata[k] == v,
				     C19_OB("fresh"));
			ddata[k] = v ^ 0xFF;
			VERIF_ASSERT(sdata[k] == v, C19_OB("independent"));
			sdata[k] = v ^ 0x01;
			VERIF_ASSERT(ddata[k] == (v ^ 0xFF), C19_OB("independent"));
		}
		if (order)
			array_cleanup(&src);
		array_cleanup(&dst);
		VERIF_ASSERT(dst.data == NULL && dst.used == 0 && dst.count == 0,
			     C19_OB("release"));
		VERIF_COVER(order);
		VERIF_COVER(!order);
	}
	if (ret != 0 || !order)
		array_cleanup(&src);
	VERIF_ASSERT(g_live == 0 && src.data == NULL, C19_OB("release"));
}
