/* C19: xattr_reader_copy / xattr_reader_destroy
 * (lib/sqfs/src/xattr/xattr_reader.c). The two meta readers are abstract
 * objects that are copied through their own hooks (their real hooks are
 * verified in meta_reader.c); alloc_array is its contract (c19_alloc.h).
 * Shape (concrete per case): HAVE_KV / HAVE_ID (reader loaded or not),
 * NB = number of id block start entries (0 = no table).
 *
 *   C19.xattr_reader.succeeds / header / fresh / frame / independent
 *   C19.xattr_reader.release.*
 *   C19.xattr_reader.oom.no_leak
 *   C19.xattr_reader.oom.original_intact   a failed copy leaves the
 *        original's meta readers alive with unchanged reference counts
 *   C19.xattr_reader.oom.original_releasable
 */
#define C19_T "xattr_reader"
#include "c19_env.h"
#include "lib/sqfs/src/xattr/xattr_reader.c"
#ifndef NB
#define NB 2
#endif
#define C19_ALLOC_SIZES NB * sizeof(sqfs_u64)
#include "c19_alloc.h"

#ifndef HAVE_KV
#define HAVE_KV 1
#endif
#ifndef HAVE_ID
#define HAVE_ID 1
#endif

void harness(void)
{
	sqfs_xattr_reader_t *o, *c;
	size_t kb = verif_nd_size("w_blocks");
	c19_obj_t *idrd = NULL, *kvrd = NULL;
	unsigned iid = 0, kid = 0, nobj0, calls0;
	sqfs_u64 *starts = NULL, vb = 0;
	sqfs_u64 xs = verif_nd_u64("xattr_start"), xe = verif_nd_u64("xattr_end");
	size_t num_ids = verif_nd_size("num_ids");
	bool order = verif_nd_bool("order");
	long live0;

	VERIF_ASSUME(NB == 0 || kb < NB);
	if (HAVE_ID) {
		idrd = c19_obj_new(1);
		iid = idrd->id;
	}
	if (HAVE_KV) {
		kvrd = c19_obj_new(1);
		kid = kvrd->id;
	}
	o = malloc(sizeof(*o));
	o->base.refcount = 1;
	o->base.destroy = xattr_reader_destroy;
	o->base.copy = xattr_reader_copy;
	o->xattr_start = xs;
	o->xattr_end = xe;
	o->num_id_blocks = NB;
	o->num_ids = num_ids;
	o->id_block_starts = NULL;
	o->idrd = (sqfs_meta_reader_t *)idrd;
	o->kvrd = (sqfs_meta_reader_t *)kvrd;
	if (NB > 0) {
		starts = malloc(NB * sizeof(sqfs_u64));
		vb = verif_nd_u64("start");
		starts[kb] = vb;
		o->id_block_starts = starts;
	}
	live0 = g_live;
	nobj0 = g_obj_n;
	calls0 = g_alloc_calls;

	g_oom_enabled = 1;
	c = sqfs_copy(o);
	g_oom_enabled = 0;

	VERIF_ASSERT(o->base.refcount == 1 && o->base.destroy == xattr_reader_destroy &&
		     o->base.copy == xattr_reader_copy && o->xattr_start == xs &&
		     o->xattr_end == xe && o->num_id_blocks == NB &&
		     o->num_ids == num_ids && o->id_block_starts == starts &&
		     o->idrd == (sqfs_meta_reader_t *)idrd &&
		     o->kvrd == (sqfs_meta_reader_t *)kvrd, C19_OB("frame"));
	if (NB > 0)
		VERIF_ASSERT(starts[kb] == vb, C19_OB("frame"));

	if (c == NULL) {
		VERIF_ASSERT(g_alloc_failed > 0, C19_OB("succeeds"));
		VERIF_ASSERT((!HAVE_ID || !g_obj_destroyed[iid]) &&
			     (!HAVE_KV || !g_obj_destroyed[kid]),
			     C19_OB("oom.original_intact"));
#ifndef VERIF_REPLAY
		/* continue only where the original still exists */
		__CPROVER_assume((!HAVE_ID || !g_obj_destroyed[iid]) &&
				 (!HAVE_KV || !g_obj_destroyed[kid]));
#endif
		VERIF_ASSERT((!HAVE_ID || idrd->base.refcount == 1) &&
			     (!HAVE_KV || kvrd->base.refcount == 1),
			     C19_OB("oom.original_intact"));
		VERIF_ASSERT(g_live == live0, C19_OB("oom.no_leak"));
		VERIF_COVER(g_alloc_calls - calls0 == 1);
		VERIF_COVER(g_alloc_calls - calls0 == 1 + HAVE_KV + HAVE_ID + (NB > 0));
	} else {
		VERIF_ASSERT(g_alloc_failed == 0, C19_OB("succeeds"));
		VERIF_ASSERT(c->base.destroy == xattr_reader_destroy &&
			     c->base.copy == xattr_reader_copy && c->base.refcount == 1,
			     C19_OB("header"));
		c->base.destroy = xattr_reader_destroy;
		c->base.copy = xattr_reader_copy;
		c->base.refcount = 1;

		VERIF_ASSERT(C19_DISTINCT(c, o), C19_OB("fresh"));
		VERIF_ASSERT(c->xattr_start == xs && c->xattr_end == xe &&
			     c->num_id_blocks == NB && c->num_ids == num_ids,
			     C19_OB("fresh"));
		VERIF_ASSERT(g_obj_n == nobj0 + HAVE_KV + HAVE_ID, C19_OB("fresh"));
		if (HAVE_KV) {
			c19_obj_t *ck = (c19_obj_t *)c->kvrd;
			VERIF_ASSERT(ck != NULL && ck != kvrd && ck->id >= nobj0 &&
				     g_obj_copy_of[ck->id] == 1 + kid &&
				     ck->base.refcount == 1, C19_OB("fresh"));
		} else {
			VERIF_ASSERT(c->kvrd == NULL, C19_OB("fresh"));
		}
		if (HAVE_ID) {
			c19_obj_t *ci = (c19_obj_t *)c->idrd;
			VERIF_ASSERT(ci != NULL && ci != idrd && ci->id >= nobj0 &&
				     g_obj_copy_of[ci->id] == 1 + iid &&
				     ci->base.refcount == 1, C19_OB("fresh"));
		} else {
			VERIF_ASSERT(c->idrd == NULL, C19_OB("fresh"));
		}
		if (NB > 0) {
			VERIF_ASSERT(c->id_block_starts != NULL &&
				     C19_DISTINCT(c->id_block_starts, starts) &&
				     VERIF_RW_OK(c->id_block_starts, NB * sizeof(sqfs_u64)) &&
				     c->id_block_starts[kb] == vb, C19_OB("fresh"));
			c->id_block_starts[kb] = ~vb;
			VERIF_ASSERT(starts[kb] == vb, C19_OB("independent"));
			starts[kb] = vb ^ 1;
			VERIF_ASSERT(c->id_block_starts[kb] == ~vb, C19_OB("independent"));
		} else {
			VERIF_ASSERT(c->id_block_starts == NULL, C19_OB("fresh"));
		}
	}

	if (c != NULL && order) {
		sqfs_drop(o);
		sqfs_drop(c);
	} else {
		if (c != NULL) {
			sqfs_drop(c);
			VERIF_ASSERT((!HAVE_ID || !g_obj_destroyed[iid]) &&
				     (!HAVE_KV || !g_obj_destroyed[kid]),
				     C19_OB("release.original_alive"));
		}
		sqfs_drop(o);
	}
	VERIF_ASSERT(g_obj_double_destroy == 0, C19_OB("release.destroy_once"));
	if (c != NULL)
		VERIF_ASSERT(g_live == 0, C19_OB("release.no_leak"));
	else
		VERIF_ASSERT(g_live == 0, C19_OB("oom.original_releasable"));
	VERIF_COVER(c != NULL && order);
	VERIF_COVER(c != NULL && !order);
}
