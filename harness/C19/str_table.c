/* C19: str_table_copy / str_table_cleanup (lib/util/src/str_table.c) with the
 * real hash_table_clone / hash_table_next_entry / hash_table_destroy and
 * array_init_copy underneath; alloc_flex is its contract (c19_alloc.h).
 *
 * Source table: N strings (N concrete 1..2; N = 0 makes cbmc run out of
 * memory: the unreachable loop body then writes through a NULL array with a
 * symbolic index) of L non-NUL symbolic bytes each,
 * typed bucket wrappers {str_bucket_t; char s[L+1]}, a 5-slot hash table
 * (the size hash_table_create starts with) whose occupied slots are concrete
 * (SLOT0, SLOT1), symbolic hashes and reference counts. strlen is a contract
 * with a ghost length table (the harness knows every string it built); a call
 * on anything else is reported.
 *
 *   C19.str_table.succeeds
 *   C19.str_table.fresh            array, hash table, slot table and every
 *                                  bucket are new objects; index, refcount and
 *                                  every string byte equal; key and the
 *                                  index->bucket array point into the copy
 *   C19.str_table.fresh.next_index the id counter of the copy equals the
 *                                  original's
 *   C19.str_table.frame            descriptor, slots and buckets of src unchanged
 *   C19.str_table.independent
 *   C19.str_table.release          cleanup of both, either order
 *   C19.str_table.oom.original_intact  a failed copy frees nothing that
 *                                  belongs to the source
 *   C19.str_table.oom.no_leak
 */
#define C19_T "str_table"
#include "c19_env.h"

#ifndef N
#define N 2
#endif
#ifndef L
#define L 7
#endif
#define SLOT0 1
#define SLOT1 3
#define NA (N > 0 ? N : 1)

static const char *g_str[NA];
static size_t c19_strlen(const char *s)
{
	size_t i;

	for (i = 0; i < N; ++i) {
		if (s == g_str[i]) {
			VERIF_ASSERT(s[L] == '\0', C19_OB("env.strlen.pre"));
			return L;
		}
	}
	/* a string of the copy: same bytes, same length - decided by content */
	VERIF_ASSERT(VERIF_R_OK(s, L + 1) && s[L] == '\0', C19_OB("env.strlen.pre"));
	return L;
}
#define strlen(s) c19_strlen(s)

#include "lib/util/src/array.c"
/* hash_table_clone is replaced by its contract (verified against the real
 * body in ht_clone.c): NULL, or a fresh table descriptor with a fresh slot
 * array holding the same entries. The real one builds the slot array with
 * calloc + memcpy of raw bytes, after which cbmc can no longer tell which
 * slots are occupied and the copy loop does not finish. next_entry and
 * destroy stay real. */
#define hash_table_clone real_hash_table_clone
#include "lib/util/src/hash_table.c"
#undef hash_table_clone
#define HT_SIZE 5
typedef struct { struct hash_entry e[HT_SIZE]; } c19_slots_t;
struct hash_table *hash_table_clone(struct hash_table *src)
{
	struct hash_table *ht;
	c19_slots_t *tab;
	int i;

	VERIF_ASSERT(src != NULL && src->size == HT_SIZE, C19_OB("env.hash_table_clone.pre"));
	if (g_oom_enabled && verif_nd_bool("oom")) {
		g_alloc_calls++;
		g_alloc_failed++;
		return NULL;
	}
	g_oom_enabled = 0;
	ht = malloc(sizeof(struct hash_table));
	tab = malloc(sizeof(c19_slots_t));
	g_oom_enabled = 1;
	*ht = *src;
	for (i = 0; i < HT_SIZE; ++i)
		tab->e[i] = src->table[i];
	ht->table = tab->e;
	return ht;
}
#include "lib/util/src/str_table.c"
#define C19_ALLOC_SIZES sizeof(str_bucket_t) + L + 1
#include "c19_alloc.h"

typedef struct {
	str_bucket_t b;
	char s[L + 1];
} bucket_wrap_t;

bool eq_stub(void *user, const void *a, const void *b)
{
	(void)user; (void)a; (void)b;
	VERIF_ASSERT(0, C19_OB("env.no_lookup_during_copy"));
	return false;
}

sqfs_u32 hash_stub(void *user, const void *key)
{
	(void)user; (void)key;
	VERIF_ASSERT(0, C19_OB("env.no_lookup_during_copy"));
	return 0;
}

void del_stub(struct hash_entry *e)
{
	(void)e;
	VERIF_ASSERT(0, C19_OB("env.no_lookup_during_copy"));
}

static const int g_slot[2] = { SLOT0, SLOT1 };

void harness(void)
{
	str_table_t src, dst;
	bucket_wrap_t *ob[NA];
	struct hash_table *oht;
	struct hash_entry *otab;
	str_bucket_t **oarr = NULL;
	size_t orc[NA], k = verif_nd_size("witness"), next_index = verif_nd_size("next_index");
	sqfs_u32 ohash[NA];
	char v[NA];
	bool order = verif_nd_bool("order");
	long live0;
	int i, ret;

	VERIF_ASSUME(k < L);
	VERIF_ASSUME(next_index >= N);
	VERIF_ASSERT(offsetof(bucket_wrap_t, s) == offsetof(str_bucket_t, string) &&
		     sizeof(bucket_wrap_t) == sizeof(str_bucket_t) + L + 1,
		     C19_OB("env.wrapper_layout"));

	src.bucket_ptrs.size = sizeof(str_bucket_t *);
	src.bucket_ptrs.used = N;
	src.bucket_ptrs.count = N + 1;
	oarr = malloc((N + 1) * sizeof(str_bucket_t *));
	src.bucket_ptrs.data = oarr;
	src.next_index = next_index;
	oht = malloc(sizeof(*oht));
	otab = malloc(HT_SIZE * sizeof(struct hash_entry));
	src.ht = oht;
	oht->table = otab;
	oht->key_hash_function = NULL;
	oht->key_equals_function = eq_stub;
	oht->deleted_key = &deleted_key_value;
	oht->user = NULL;
	oht->size = HT_SIZE;
	oht->rehash = 3;
	oht->size_magic = verif_nd_u64("magic");
	oht->rehash_magic = verif_nd_u64("magic");
	oht->max_entries = 2;
	oht->size_index = 0;
	oht->entries = N;
	oht->deleted_entries = 0;
	for (i = 0; i < HT_SIZE; ++i) {
		otab[i].hash = 0;
		otab[i].key = NULL;
		otab[i].data = NULL;
	}
	for (i = 0; i < N; ++i) {
		ob[i] = malloc(sizeof(bucket_wrap_t));
		ob[i]->b.index = i;
		orc[i] = verif_nd_size("refcount");
		ob[i]->b.refcount = orc[i];
		(memset)(ob[i]->s, 'a', L);
		v[i] = (char)(verif_nd_u8("char") & 0x7F);
		VERIF_ASSUME(v[i] != 0);
		ob[i]->s[k] = v[i];
		ob[i]->s[L] = '\0';
		g_str[i] = ob[i]->s;
		oarr[i] = &ob[i]->b;
		ohash[i] = verif_nd_u32("hash");
		otab[g_slot[i]].hash = ohash[i];
		otab[g_slot[i]].key = ob[i]->s;
		otab[g_slot[i]].data = ob[i];
	}
	live0 = g_live;

	/* dst: whatever memory the caller hands in */
	dst.next_index = verif_nd_size("junk");
	dst.ht = NULL;
	dst.bucket_ptrs.data = NULL;

	c19_protect(oarr);
	c19_protect(oht);
	c19_protect(otab);
	for (i = 0; i < N; ++i)
		c19_protect(ob[i]);

	g_oom_enabled = 1;
	g_prot_armed = 1;
	ret = str_table_copy(&dst, &src);
	g_prot_armed = 0;
	g_oom_enabled = 0;

	if (ret != 0) {
		VERIF_ASSERT(g_alloc_failed > 0, C19_OB("succeeds"));
		VERIF_ASSERT(g_prot_freed == 0, C19_OB("oom.original_intact"));
	} else {
		VERIF_ASSERT(g_prot_freed == 0, C19_OB("frame"));
	}
#ifndef VERIF_REPLAY
	/* nothing below is meaningful once a buffer of the source is gone */
	__CPROVER_assume(g_prot_freed == 0);
#endif

	/* frame */
	VERIF_ASSERT(src.bucket_ptrs.size == sizeof(str_bucket_t *) &&
		     src.bucket_ptrs.used == N && src.bucket_ptrs.count == N + 1 &&
		     src.bucket_ptrs.data == oarr && src.next_index == next_index &&
		     src.ht == oht && oht->table == otab && oht->size == HT_SIZE &&
		     oht->entries == N && oht->key_equals_function == eq_stub,
		     C19_OB("frame"));
	for (i = 0; i < N; ++i) {
		VERIF_ASSERT(oarr[i] == &ob[i]->b && ob[i]->b.index == (size_t)i &&
			     ob[i]->b.refcount == orc[i] && ob[i]->s[k] == v[i] &&
			     ob[i]->s[L] == '\0' &&
			     otab[g_slot[i]].hash == ohash[i] &&
			     otab[g_slot[i]].key == ob[i]->s &&
			     otab[g_slot[i]].data == ob[i], C19_OB("frame"));
	}

	if (ret != 0) {
		if (g_live != live0) {
			VERIF_ASSERT(0, C19_OB("oom.no_leak"));
			g_live = live0;
		}
		VERIF_COVER(g_alloc_failed == 1);
	} else {
		str_bucket_t **carr = dst.bucket_ptrs.data;

		VERIF_ASSERT(g_alloc_failed == 0, C19_OB("succeeds"));
		VERIF_ASSERT(dst.next_index == next_index, C19_OB("fresh.next_index"));
		dst.next_index = next_index;
		VERIF_ASSERT(dst.bucket_ptrs.size == sizeof(str_bucket_t *) &&
			     dst.bucket_ptrs.used == N && dst.bucket_ptrs.count >= N,
			     C19_OB("fresh"));
		VERIF_ASSERT(dst.ht != NULL && dst.ht != oht &&
			     dst.ht->table != NULL &&
			     C19_DISTINCT(dst.ht->table, otab) &&
			     dst.ht->size == HT_SIZE && dst.ht->entries == N &&
			     dst.ht->key_equals_function == eq_stub &&
			     dst.ht->deleted_key == oht->deleted_key &&
			     dst.ht->rehash == 3 && dst.ht->max_entries == 2 &&
			     dst.ht->size_magic == oht->size_magic &&
			     dst.ht->rehash_magic == oht->rehash_magic,
			     C19_OB("fresh"));
		if (N > 0)
			VERIF_ASSERT(carr != NULL && C19_DISTINCT(carr, oarr),
				     C19_OB("fresh"));
		for (i = 0; i < HT_SIZE; ++i) {
			if (N > 0 && i == SLOT0)
				continue;
			if (N > 1 && i == SLOT1)
				continue;
			VERIF_ASSERT(dst.ht->table[i].key == NULL, C19_OB("fresh"));
		}
		for (i = 0; i < N; ++i) {
			struct hash_entry *e = &dst.ht->table[g_slot[i]];
			str_bucket_t *cb = carr[i];
			int j;

			VERIF_ASSERT(cb != NULL && VERIF_RW_OK(cb, sizeof(bucket_wrap_t)),
				     C19_OB("fresh"));
			for (j = 0; j < N; ++j)
				VERIF_ASSERT(C19_DISTINCT(cb, ob[j]), C19_OB("fresh"));
			VERIF_ASSERT(e->data == cb && e->key == cb->string &&
				     e->hash == ohash[i], C19_OB("fresh"));
			VERIF_ASSERT(cb->index == (size_t)i && cb->refcount == orc[i] &&
				     cb->string[k] == v[i] && cb->string[L] == '\0',
				     C19_OB("fresh"));
			cb->refcount = orc[i] ^ 1;
			cb->string[k] = v[i] ^ 0x40;
			VERIF_ASSERT(ob[i]->b.refcount == orc[i] && ob[i]->s[k] == v[i],
				     C19_OB("independent"));
		}
		if (order)
			str_table_cleanup(&src);
		str_table_cleanup(&dst);
		VERIF_ASSERT(dst.ht == NULL && dst.bucket_ptrs.data == NULL,
			     C19_OB("release"));
		VERIF_COVER(order);
		VERIF_COVER(!order);
	}
	if (ret != 0 || !order)
		str_table_cleanup(&src);
	VERIF_ASSERT(g_live == 0, C19_OB("release"));
}
