/* C19: meta_reader_copy / meta_reader_destroy (lib/sqfs/src/meta_reader.c).
 * Flat object (two 8 KiB block buffers inside the struct) that shares its
 * file and compressor by reference. File and compressor are abstract objects
 * (c19_env.h) with symbolic reference counts.
 *
 *   C19.meta_reader.succeeds   NULL only if the allocation failed
 *   C19.meta_reader.header     own hooks, refcount 1
 *   C19.meta_reader.fresh      new object, every scalar equal, every byte of
 *                              both block buffers equal (witness index),
 *                              file/compressor are the *same* shared objects
 *   C19.meta_reader.frame      original unchanged except: the refcounts of
 *                              file and compressor grew by exactly one on
 *                              success, and not at all on failure
 *   C19.meta_reader.independent  cursor/buffer writes in one invisible in the other
 *   C19.meta_reader.release.*  both drop orders; shared objects are destroyed
 *                              exactly when their last holder lets go
 *   C19.meta_reader.oom.*
 */
#define C19_T "meta_reader"
#include "c19_env.h"
#include "lib/sqfs/src/meta_reader.c"

void harness(void)
{
	sqfs_meta_reader_t *o, *c;
	size_t rc0 = verif_nd_size("refcount");
	size_t frc = verif_nd_size("file_rc"), crc = verif_nd_size("cmp_rc");
	size_t k = verif_nd_size("witness");
	c19_obj_t *file, *cmp;
	sqfs_u8 vd, vs;
	bool order = verif_nd_bool("order");
	unsigned fid, cid;
	long live0;

	VERIF_ASSUME(rc0 == 1);
	VERIF_ASSUME(frc >= 1 && frc < 1000 && crc >= 1 && crc < 1000);
	VERIF_ASSUME(k < SQFS_META_BLOCK_SIZE);

	file = c19_obj_new(frc);
	cmp = c19_obj_new(crc);
	fid = file->id;
	cid = cmp->id;
	o = malloc(sizeof(*o));
	o->base.refcount = rc0;
	o->base.destroy = meta_reader_destroy;
	o->base.copy = meta_reader_copy;
	o->start = verif_nd_u64("start");
	o->limit = verif_nd_u64("limit");
	o->data_used = verif_nd_size("data_used");
	o->block_offset = verif_nd_u64("block_offset");
	o->next_block = verif_nd_u64("next_block");
	o->offset = verif_nd_size("offset");
	o->file = (sqfs_file_t *)file;
	o->cmp = (sqfs_compressor_t *)cmp;
	vd = verif_nd_u8("data");
	vs = verif_nd_u8("scratch");
	o->data[k] = vd;
	o->scratch[k] = vs;
	live0 = g_live;

	g_oom_enabled = 1;
	c = sqfs_copy(o);
	g_oom_enabled = 0;

	VERIF_ASSERT(o->base.refcount == rc0 && o->base.destroy == meta_reader_destroy &&
		     o->base.copy == meta_reader_copy && o->file == (sqfs_file_t *)file &&
		     o->cmp == (sqfs_compressor_t *)cmp && o->data[k] == vd &&
		     o->scratch[k] == vs, C19_OB("frame"));
	VERIF_ASSERT(!g_obj_destroyed[fid] && !g_obj_destroyed[cid],
		     C19_OB("frame"));

	if (c == NULL) {
		VERIF_ASSERT(g_alloc_failed > 0, C19_OB("succeeds"));
		VERIF_ASSERT(g_live == live0, C19_OB("oom.no_leak"));
		VERIF_ASSERT(file->base.refcount == frc && cmp->base.refcount == crc,
			     C19_OB("oom.original_intact"));
		VERIF_COVER(1);
	} else {
		VERIF_ASSERT(g_alloc_failed == 0, C19_OB("succeeds"));
		VERIF_ASSERT(c->base.destroy == meta_reader_destroy &&
			     c->base.copy == meta_reader_copy &&
			     c->base.refcount == 1, C19_OB("header"));
		c->base.destroy = meta_reader_destroy;
		c->base.copy = meta_reader_copy;
		c->base.refcount = 1;

		VERIF_ASSERT(c != o && C19_DISTINCT(c, o), C19_OB("fresh"));
		VERIF_ASSERT(c->start == o->start && c->limit == o->limit &&
			     c->data_used == o->data_used &&
			     c->block_offset == o->block_offset &&
			     c->next_block == o->next_block && c->offset == o->offset,
			     C19_OB("fresh"));
		VERIF_ASSERT(c->data[k] == vd && c->scratch[k] == vs, C19_OB("fresh"));
		VERIF_ASSERT(c->file == o->file && c->cmp == o->cmp, C19_OB("fresh"));
		VERIF_ASSERT(file->base.refcount == frc + 1 &&
			     cmp->base.refcount == crc + 1, C19_OB("frame.shared_grabbed"));

		c->data[k] = vd ^ 0xFF;
		c->offset = o->offset ^ 1;
		VERIF_ASSERT(o->data[k] == vd, C19_OB("independent"));
		o->scratch[k] = vs ^ 0xFF;
		VERIF_ASSERT(c->scratch[k] == vs && c->offset == (o->offset ^ 1),
			     C19_OB("independent"));
	}

	if (c != NULL && order) {
		sqfs_drop(o);
		VERIF_ASSERT(!g_obj_destroyed[fid] && !g_obj_destroyed[cid],
			     C19_OB("release.shared_alive"));
		sqfs_drop(c);
	} else {
		if (c != NULL) {
			sqfs_drop(c);
			VERIF_ASSERT(!g_obj_destroyed[fid] &&
				     !g_obj_destroyed[cid],
				     C19_OB("release.shared_alive"));
		}
		sqfs_drop(o);
	}
	/* all readers gone: the shared objects lost exactly the reader's
	 * reference(s) and die iff that was the last one */
	VERIF_ASSERT(g_obj_destroyed[fid] == (frc == 1) &&
		     g_obj_destroyed[cid] == (crc == 1) &&
		     g_obj_double_destroy == 0, C19_OB("release.shared_balance"));
	if (frc > 1) {
		VERIF_ASSERT(file->base.refcount == frc - 1, C19_OB("release.shared_balance"));
		file->base.refcount = 1;
		sqfs_drop(file);
	}
	if (crc > 1) {
		VERIF_ASSERT(cmp->base.refcount == crc - 1, C19_OB("release.shared_balance"));
		cmp->base.refcount = 1;
		sqfs_drop(cmp);
	}
	if (c != NULL)
		VERIF_ASSERT(g_live == 0, C19_OB("release.no_leak"));
	else
		VERIF_ASSERT(g_live == 0, C19_OB("oom.original_releasable"));
	VERIF_COVER(c != NULL && order && frc == 1 && crc > 1);
	VERIF_COVER(c != NULL && !order && frc > 1 && crc == 1);
}
