/* C19: stdio_copy / stdio_destroy (lib/sqfs/src/io/file.c) - read-only files.
 * OS layer contract (trusted): sqfs_native_file_duplicate(in, out) requires
 * an open descriptor, returns 0 with a descriptor that was not open before,
 * or SQFS_ERROR_IO with errno set; sqfs_native_file_close requires an open
 * descriptor and closes it. Ghost table g_fd_open[] records what is open.
 * The object is the byte block sqfs_file_open_handle allocates:
 * sizeof(sqfs_file_stdio_t) + strlen(name) + 1, name length NL concrete,
 * name bytes symbolic non-NUL; strlen is a ghost-length contract.
 *
 *   C19.stdio.readonly_only      writable files are not copied (NULL, no fd)
 *   C19.stdio.succeeds           otherwise NULL only after calloc/dup failure
 *   C19.stdio.header / fresh     own hooks, refcount 1, new object, same
 *                                method table, size, name bytes; own, open,
 *                                different descriptor (fresh.owned_fd)
 *   C19.stdio.frame              original (incl. its descriptor) untouched
 *   C19.stdio.release.*          both orders: each descriptor closed exactly
 *                                once, by its owner
 *   C19.stdio.oom.*              calloc failure / dup failure: no leak of
 *                                memory or descriptors
 */
#define C19_T "stdio"
#include "c19_env.h"
#ifndef NL
#define NL 5
#endif
static const char *g_name;
static size_t c19_strlen(const char *s)
{
	VERIF_ASSERT(s == g_name && s[NL] == '\0', C19_OB("env.strlen.pre"));
	return NL;
}
#define strlen(s) c19_strlen(s)
#include "lib/sqfs/src/io/file.c"

#define MAXFD 8
static unsigned char g_fd_open[MAXFD];
static unsigned g_fd_bad, g_dup_failed;

int sqfs_native_file_duplicate(sqfs_file_handle_t in, sqfs_file_handle_t *out)
{
	int fd;

	if (in < 0 || in >= MAXFD || !g_fd_open[in])
		g_fd_bad++;
	if (verif_nd_bool("dup_fails")) {
		g_dup_failed++;
		*out = -1;
		errno = EMFILE;
		return SQFS_ERROR_IO;
	}
	fd = (int)(verif_nd_u8("newfd") % MAXFD);
	VERIF_ASSUME(!g_fd_open[fd]);
	g_fd_open[fd] = 1;
	*out = fd;
	return 0;
}

void sqfs_native_file_close(sqfs_file_handle_t fd)
{
	if (fd < 0 || fd >= MAXFD || !g_fd_open[fd])
		g_fd_bad++;
	else
		g_fd_open[fd] = 0;
}

#define OBJ_SIZE (sizeof(sqfs_file_stdio_t) + NL + 1)

void harness(void)
{
	sqfs_file_stdio_t *o, *c;
	bool readonly = verif_nd_bool("readonly");
	sqfs_u64 size = verif_nd_u64("size");
	size_t k = verif_nd_size("witness");
	char v = (char)(verif_nd_u8("char") & 0x7F);
	int ofd = (int)(verif_nd_u8("fd") % MAXFD), cfd = -1;
	bool order = verif_nd_bool("order");
	unsigned calls0, nopen = 0, i;
	long live0;

	VERIF_ASSUME(k < NL && v != 0);
	o = calloc(1, OBJ_SIZE);
	o->base.base.refcount = 1;
	o->base.base.destroy = stdio_destroy;
	o->base.base.copy = stdio_copy;
	o->base.read_at = stdio_read_at;
	o->base.write_at = stdio_write_at;
	o->base.get_size = stdio_get_size;
	o->base.truncate = stdio_truncate;
	o->base.get_filename = stdio_get_filename;
	o->readonly = readonly;
	o->size = size;
	o->fd = ofd;
	g_fd_open[ofd] = 1;
	(memset)(o->name, 'x', NL);
	o->name[k] = v;
	o->name[NL] = '\0';
	g_name = o->name;
	live0 = g_live;
	calls0 = g_alloc_calls;

	g_oom_enabled = 1;
	c = sqfs_copy(o);
	g_oom_enabled = 0;

	VERIF_ASSERT(o->base.base.refcount == 1 && o->base.base.destroy == stdio_destroy &&
		     o->base.base.copy == stdio_copy && o->base.read_at == stdio_read_at &&
		     o->readonly == readonly && o->size == size && o->fd == ofd &&
		     o->name[k] == v && o->name[NL] == '\0' && g_fd_open[ofd] &&
		     g_fd_bad == 0, C19_OB("frame"));

	if (!readonly) {
		VERIF_ASSERT(c == NULL && g_alloc_calls == calls0 &&
			     g_dup_failed == 0, C19_OB("readonly_only"));
	}
	if (c == NULL) {
		VERIF_ASSERT(!readonly || g_alloc_failed > 0 || g_dup_failed > 0,
			     C19_OB("succeeds"));
		VERIF_ASSERT(g_live == live0, C19_OB("oom.no_leak"));
		for (i = 0; i < MAXFD; ++i)
			nopen += g_fd_open[i];
		VERIF_ASSERT(nopen == 1, C19_OB("oom.no_fd_leak"));
		VERIF_COVER(readonly && g_alloc_failed == 1);
		VERIF_COVER(readonly && g_dup_failed == 1);
		VERIF_COVER(!readonly);
	} else {
		VERIF_ASSERT(g_alloc_failed == 0 && g_dup_failed == 0, C19_OB("succeeds"));
		VERIF_ASSERT(c->base.base.destroy == stdio_destroy &&
			     c->base.base.copy == stdio_copy &&
			     c->base.base.refcount == 1, C19_OB("header"));
		c->base.base.destroy = stdio_destroy;
		c->base.base.copy = stdio_copy;
		c->base.base.refcount = 1;
		VERIF_ASSERT(C19_DISTINCT(c, o) && VERIF_RW_OK(c, OBJ_SIZE),
			     C19_OB("fresh"));
		VERIF_ASSERT(c->base.read_at == stdio_read_at &&
			     c->base.write_at == stdio_write_at &&
			     c->base.get_size == stdio_get_size &&
			     c->base.truncate == stdio_truncate &&
			     c->base.get_filename == stdio_get_filename &&
			     c->readonly && c->size == size &&
			     c->name[k] == v && c->name[NL] == '\0', C19_OB("fresh"));
		cfd = c->fd;
		VERIF_ASSERT(cfd != ofd && cfd >= 0 && cfd < MAXFD && g_fd_open[cfd],
			     C19_OB("fresh.owned_fd"));
		c->name[k] = v ^ 0x20;
		VERIF_ASSERT(o->name[k] == v, C19_OB("independent"));
	}

	if (c != NULL && order) {
		sqfs_drop(o);
		VERIF_ASSERT(!g_fd_open[ofd] && g_fd_open[cfd], C19_OB("release.own_fd_only"));
		sqfs_drop(c);
	} else {
		if (c != NULL) {
			sqfs_drop(c);
			VERIF_ASSERT(g_fd_open[ofd] && !g_fd_open[cfd],
				     C19_OB("release.own_fd_only"));
		}
		sqfs_drop(o);
	}
	nopen = 0;
	for (i = 0; i < MAXFD; ++i)
		nopen += g_fd_open[i];
	VERIF_ASSERT(nopen == 0 && g_fd_bad == 0, C19_OB("release.fds_closed_once"));
	if (c != NULL)
		VERIF_ASSERT(g_live == 0, C19_OB("release.no_leak"));
	else
		VERIF_ASSERT(g_live == 0, C19_OB("oom.original_releasable"));
	VERIF_COVER(c != NULL && order);
	VERIF_COVER(c != NULL && !order);
}
