/* C19: xattr_writer_copy / xattr_writer_destroy
 * (lib/sqfs/src/xattr/xattr_writer.c) with the real array_init_copy,
 * rbtree_copy / rbtree_lookup / rbtree_cleanup (-DNO_CUSTOM_ALLOC
 * configuration) and the real block_compare underneath.
 * str_table_copy / str_table_cleanup are replaced by their contract
 * (verified against the real bodies in str_table.c): copy fails and leaves
 * dst without resources, or gives dst a fresh hash table + bucket array
 * (modelled as two fresh allocations); cleanup releases them.
 *
 * Shape (concrete): NB blocks (0..2) recorded so far. Block i describes
 * kv_pairs[start_i, start_i+count_i): block 0 = {0, 2} is the tree root,
 * block 1 = {2, 1} its left child (smaller count sorts first); the block list
 * runs in recording order FIRST -> other. Pair values, start_ref, size_bytes,
 * kv_start: symbolic.
 *
 *   C19.xattr_writer.succeeds / header
 *   C19.xattr_writer.fresh             new object, equal scalars, own string
 *                                      tables, own pair buffer with equal pairs
 *   C19.xattr_writer.fresh.tree        own tree nodes with equal descriptors
 *   C19.xattr_writer.fresh.block_list  first/last/next of the copy run through
 *                                      the copy's *own* nodes in the same
 *                                      order, NULL terminated
 *   C19.xattr_writer.fresh.key_context the copy's tree compares blocks against
 *                                      the copy's own pairs (context = copy)
 *   C19.xattr_writer.frame             nothing of the original changed - in
 *                                      particular no block descriptor's next
 *   C19.xattr_writer.independent
 *   C19.xattr_writer.release.* / oom.*
 */
#define C19_T "xattr_writer"
#ifndef NO_CUSTOM_ALLOC
#define NO_CUSTOM_ALLOC
#endif
#define C19_SIZES 24 + 40 + 4, 3 * 8 /* rbtree node + kv_block_desc_t key + u32 value; NPAIRS pairs */
#include "c19_env.h"
#include "util/str_table.h"

/* ---- str_table contract (trusted here, verified in str_table.c) */
static unsigned g_st_live;
int str_table_copy(str_table_t *dst, const str_table_t *src)
{
	void *ht, *arr;

	VERIF_ASSERT(dst != NULL && src != NULL && src->ht != NULL, C19_OB("env.str_table_copy.pre"));
	ht = malloc(8);
	if (ht == NULL) {
		(memset)(&dst->bucket_ptrs, 0, sizeof(dst->bucket_ptrs));
		return SQFS_ERROR_ALLOC;
	}
	arr = malloc(8);
	if (arr == NULL) {
		free(ht);
		(memset)(&dst->bucket_ptrs, 0, sizeof(dst->bucket_ptrs));
		return SQFS_ERROR_ALLOC;
	}
	dst->ht = ht;
	dst->bucket_ptrs = src->bucket_ptrs;
	dst->bucket_ptrs.data = arr;
	dst->next_index = src->next_index;
	g_st_live++;
	return 0;
}

void str_table_cleanup(str_table_t *t)
{
	VERIF_ASSERT(t != NULL && t->ht != NULL, C19_OB("env.str_table_cleanup.pre"));
	free(t->ht);
	free(t->bucket_ptrs.data);
	(memset)(t, 0, sizeof(*t));
	g_st_live--;
}

/* memcmp (block_compare, equal counts / different start only - which the
 * concrete shapes never produce) as a contract: readable operands, any result */
static int c19_memcmp(const void *a, const void *b, size_t n)
{
	VERIF_ASSERT(VERIF_R_OK(a, n) && VERIF_R_OK(b, n), C19_OB("env.memcmp.pre"));
	return verif_nd_int("memcmp");
}
#define memcmp(a, b, n) c19_memcmp(a, b, n)

#include "lib/util/src/array.c"
#include "lib/util/src/rbtree.c"
#include "lib/sqfs/src/xattr/xattr_writer.c"

#ifndef NB
#define NB 2
#endif
#ifndef FIRST
#define FIRST 0
#endif
#define NA (NB > 0 ? NB : 1)
#define NPAIRS 3
#define KP sizeof(kv_block_desc_t)

/* a tree node is the 68-byte block mknode() allocates: header, key, value.
 * (A typed wrapper struct would be 72 bytes with tail padding; copying 68 of
 * those into a 68-byte object makes cbmc 6.11 abort in bv_to_array_expr.) */
#define NODE_SIZE (sizeof(rbtree_node_t) + sizeof(kv_block_desc_t) + sizeof(sqfs_u32))
#define NODE_KEY(n) ((kv_block_desc_t *)(n)->data)
#define NODE_VAL(n) (*(sqfs_u32 *)((n)->data + KP))

static void node_set_red(rbtree_node_t *n, unsigned red)
{
	*(sqfs_u32 *)((char *)n + offsetof(rbtree_node_t, value_offset) + 4) = red;
}

static unsigned node_get_red(const rbtree_node_t *n)
{
	return *(const sqfs_u32 *)((const char *)n + offsetof(rbtree_node_t, value_offset) + 4) & 1;
}

static void mk_table(str_table_t *t)
{
	t->ht = malloc(8);
	t->bucket_ptrs.size = sizeof(void *);
	t->bucket_ptrs.used = verif_nd_size("st_used");
	t->bucket_ptrs.count = t->bucket_ptrs.used;
	t->bucket_ptrs.data = malloc(8);
	t->next_index = verif_nd_size("st_next");
	g_st_live++;
}

static const size_t g_start[2] = { 0, 2 }, g_count[2] = { 2, 1 };

void harness(void)
{
	sqfs_xattr_writer_t *o, *c;
	rbtree_node_t *on[NA];
	kv_block_desc_t *od[NA];
	sqfs_u64 *opairs, pair[NPAIRS], sref[NA];
	size_t sbytes[NA], kv_start = verif_nd_size("kv_start");
	sqfs_u32 val[NA];
	void *okht, *ovht, *okarr, *ovarr;
	bool order = verif_nd_bool("order");
	unsigned calls0;
	long live0;
	int i;

	VERIF_ASSERT(NODE_SIZE == 24 + 40 + 4, C19_OB("env.wrapper_layout"));

	o = malloc(sizeof(*o));
	o->base.refcount = 1;
	o->base.destroy = xattr_writer_destroy;
	o->base.copy = xattr_writer_copy;
	mk_table(&o->keys);
	mk_table(&o->values);
	okht = o->keys.ht;
	ovht = o->values.ht;
	okarr = o->keys.bucket_ptrs.data;
	ovarr = o->values.bucket_ptrs.data;
	opairs = malloc(4 * sizeof(sqfs_u64));
	for (i = 0; i < NPAIRS; ++i) {
		pair[i] = verif_nd_u64("pair");
		opairs[i] = pair[i];
	}
	o->kv_pairs.size = sizeof(sqfs_u64);
	o->kv_pairs.used = NPAIRS;
	o->kv_pairs.count = 4;
	o->kv_pairs.data = opairs;
	o->kv_start = kv_start;
	o->num_blocks = NB;
	(memset)(&o->kv_block_tree, 0, sizeof(o->kv_block_tree));
	o->kv_block_tree.key_compare = block_compare;
	o->kv_block_tree.key_size = sizeof(kv_block_desc_t);
	o->kv_block_tree.key_size_padded = KP;
	o->kv_block_tree.value_size = sizeof(sqfs_u32);
	o->kv_block_tree.key_context = o;
	for (i = 0; i < NB; ++i) {
		on[i] = malloc(NODE_SIZE);
		od[i] = NODE_KEY(on[i]);
	}
	for (i = 0; i < NB; ++i) {
		on[i]->left = (i == 0 && NB > 1) ? on[1] : NULL;
		on[i]->right = NULL;
		on[i]->value_offset = KP;
		node_set_red(on[i], i);
		od[i]->start = g_start[i];
		od[i]->count = g_count[i];
		sref[i] = verif_nd_u64("start_ref");
		sbytes[i] = verif_nd_size("size_bytes");
		val[i] = verif_nd_u32("index");
		od[i]->start_ref = sref[i];
		od[i]->size_bytes = sbytes[i];
		od[i]->next = NULL;
		NODE_VAL(on[i]) = val[i];
	}
	o->kv_block_tree.root = NB > 0 ? on[0] : NULL;
	o->kv_block_first = NULL;
	o->kv_block_last = NULL;
	if (NB == 1) {
		o->kv_block_first = od[0];
		o->kv_block_last = od[0];
	} else if (NB == 2) {
		o->kv_block_first = od[FIRST];
		od[FIRST]->next = od[1 - FIRST];
		o->kv_block_last = od[1 - FIRST];
	}
	live0 = g_live;
	calls0 = g_alloc_calls;

	g_oom_enabled = 1;
	c = sqfs_copy(o);
	g_oom_enabled = 0;

	/* frame */
	VERIF_ASSERT(o->base.refcount == 1 && o->base.destroy == xattr_writer_destroy &&
		     o->base.copy == xattr_writer_copy && o->keys.ht == okht &&
		     o->values.ht == ovht && o->keys.bucket_ptrs.data == okarr &&
		     o->values.bucket_ptrs.data == ovarr && o->kv_pairs.data == opairs &&
		     o->kv_pairs.used == NPAIRS && o->kv_pairs.count == 4 &&
		     o->kv_start == kv_start && o->num_blocks == NB &&
		     o->kv_block_tree.root == (NB > 0 ? on[0] : NULL) &&
		     o->kv_block_tree.key_context == o &&
		     o->kv_block_tree.key_compare == block_compare, C19_OB("frame"));
	for (i = 0; i < NPAIRS; ++i)
		VERIF_ASSERT(opairs[i] == pair[i], C19_OB("frame"));
	for (i = 0; i < NB; ++i)
		VERIF_ASSERT(on[i]->left == ((i == 0 && NB > 1) ? on[1] : NULL) &&
			     on[i]->right == NULL && od[i]->start == g_start[i] &&
			     od[i]->count == g_count[i] && od[i]->start_ref == sref[i] &&
			     od[i]->size_bytes == sbytes[i] && NODE_VAL(on[i]) == val[i],
			     C19_OB("frame"));
	if (NB == 0)
		VERIF_ASSERT(o->kv_block_first == NULL && o->kv_block_last == NULL,
			     C19_OB("frame.block_list"));
	if (NB == 1)
		VERIF_ASSERT(o->kv_block_first == od[0] && o->kv_block_last == od[0] &&
			     od[0]->next == NULL, C19_OB("frame.block_list"));
	if (NB == 2)
		VERIF_ASSERT(o->kv_block_first == od[FIRST] &&
			     od[FIRST]->next == od[1 - FIRST] &&
			     o->kv_block_last == od[1 - FIRST] &&
			     od[1 - FIRST]->next == NULL, C19_OB("frame.block_list"));
	/* continue with the original as the property demands it */
	if (NB >= 1)
		o->kv_block_last->next = NULL;

	if (c == NULL) {
		VERIF_ASSERT(g_alloc_failed > 0, C19_OB("succeeds"));
		VERIF_ASSERT(g_live == live0 && g_st_live == 2, C19_OB("oom.no_leak"));
		VERIF_COVER(g_alloc_calls - calls0 == 1);
		VERIF_COVER(g_alloc_calls - calls0 == 6 + NB);
	} else {
		rbtree_node_t *cn[NA];
		kv_block_desc_t *cd[NA];
		sqfs_u64 *cpairs = c->kv_pairs.data;

		VERIF_ASSERT(g_alloc_failed == 0, C19_OB("succeeds"));
		VERIF_ASSERT(c->base.destroy == xattr_writer_destroy &&
			     c->base.copy == xattr_writer_copy && c->base.refcount == 1,
			     C19_OB("header"));
		c->base.destroy = xattr_writer_destroy;
		c->base.copy = xattr_writer_copy;
		c->base.refcount = 1;

		VERIF_ASSERT(C19_DISTINCT(c, o) && c->kv_start == kv_start &&
			     c->num_blocks == NB, C19_OB("fresh"));
		VERIF_ASSERT(g_st_live == 4 && c->keys.ht != NULL && c->keys.ht != okht &&
			     c->values.ht != NULL && c->values.ht != ovht &&
			     c->keys.ht != c->values.ht &&
			     c->keys.next_index == o->keys.next_index &&
			     c->values.next_index == o->values.next_index &&
			     c->keys.bucket_ptrs.used == o->keys.bucket_ptrs.used &&
			     c->values.bucket_ptrs.used == o->values.bucket_ptrs.used,
			     C19_OB("fresh"));
		VERIF_ASSERT(cpairs != NULL && C19_DISTINCT(cpairs, opairs) &&
			     c->kv_pairs.size == sizeof(sqfs_u64) &&
			     c->kv_pairs.used == NPAIRS && c->kv_pairs.count >= NPAIRS &&
			     VERIF_RW_OK(cpairs, NPAIRS * sizeof(sqfs_u64)), C19_OB("fresh"));
		for (i = 0; i < NPAIRS; ++i)
			VERIF_ASSERT(cpairs[i] == pair[i], C19_OB("fresh"));

		VERIF_ASSERT(c->kv_block_tree.key_compare == block_compare &&
			     c->kv_block_tree.key_size == sizeof(kv_block_desc_t) &&
			     c->kv_block_tree.key_size_padded == KP &&
			     c->kv_block_tree.value_size == sizeof(sqfs_u32) &&
			     (c->kv_block_tree.root != NULL) == (NB > 0), C19_OB("fresh.tree"));
		VERIF_ASSERT(c->kv_block_tree.key_context == c, C19_OB("fresh.key_context"));
		c->kv_block_tree.key_context = c;
		if (NB > 0)
			cn[0] = c->kv_block_tree.root;
		if (NB > 1) {
			VERIF_ASSERT(cn[0]->left != NULL, C19_OB("fresh.tree"));
			cn[1] = cn[0]->left;
		}
		for (i = 0; i < NB; ++i) {
			int j;

			VERIF_ASSERT(cn[i] != NULL && VERIF_RW_OK(cn[i], 24 + 40 + 4),
				     C19_OB("fresh.tree"));
			for (j = 0; j < NB; ++j)
				VERIF_ASSERT(C19_DISTINCT(cn[i], on[j]),
					     C19_OB("fresh.tree"));
			cd[i] = (kv_block_desc_t *)cn[i]->data;
			VERIF_ASSERT((cn[i]->left != NULL) == (i == 0 && NB > 1) &&
				     cn[i]->right == NULL && cn[i]->value_offset == KP &&
				     node_get_red(cn[i]) == (unsigned)i &&
				     cd[i]->start == g_start[i] && cd[i]->count == g_count[i] &&
				     cd[i]->start_ref == sref[i] &&
				     cd[i]->size_bytes == sbytes[i] &&
				     *(sqfs_u32 *)(cn[i]->data + KP) == val[i],
				     C19_OB("fresh.tree"));
		}
		if (NB == 0)
			VERIF_ASSERT(c->kv_block_first == NULL && c->kv_block_last == NULL,
				     C19_OB("fresh.block_list"));
		if (NB == 1)
			VERIF_ASSERT(c->kv_block_first == cd[0] && c->kv_block_last == cd[0] &&
				     cd[0]->next == NULL, C19_OB("fresh.block_list"));
		if (NB == 2)
			VERIF_ASSERT(c->kv_block_first == cd[FIRST] &&
				     cd[FIRST]->next == cd[1 - FIRST] &&
				     c->kv_block_last == cd[1 - FIRST] &&
				     cd[1 - FIRST]->next == NULL, C19_OB("fresh.block_list"));

		cpairs[0] = ~pair[0];
		c->kv_start = ~kv_start;
		VERIF_ASSERT(opairs[0] == pair[0] && o->kv_start == kv_start,
			     C19_OB("independent"));
		if (NB > 0) {
			cd[0]->start_ref = ~sref[0];
			VERIF_ASSERT(od[0]->start_ref == sref[0], C19_OB("independent"));
		}
	}

	if (c != NULL && order) {
		sqfs_drop(o);
		sqfs_drop(c);
	} else {
		if (c != NULL)
			sqfs_drop(c);
		sqfs_drop(o);
	}
	if (c != NULL)
		VERIF_ASSERT(g_live == 0 && g_st_live == 0, C19_OB("release.no_leak"));
	else
		VERIF_ASSERT(g_live == 0 && g_st_live == 0, C19_OB("oom.original_releasable"));
	VERIF_COVER(c != NULL && order);
	VERIF_COVER(c != NULL && !order);
}
