/* C19: xz_create_copy / lz4_create_copy / lzma_create_copy and their destroy
 * hooks (lib/sqfs/src/comp/{xz,lz4,lzma}.c): flat configuration objects.
 * -DCOMP=1 xz, 2 lz4, 3 lzma. Obligations C19.<comp>.succeeds / header /
 * fresh / frame / independent / release.* / oom.* (see comp.inc.h).
 * No loop, every byte symbolic: proved.
 */
#ifndef COMP
#define COMP 1
#endif
#if COMP == 1
#define C19_T "xz"
#include "c19_env.h"
#include "lib/sqfs/src/comp/xz.c"
#define COMP_T xz_compressor_t
#define COMP_DESTROY xz_destroy
#define COMP_COPY xz_create_copy
#elif COMP == 2
#define C19_T "lz4"
#include "c19_env.h"
#include "lib/sqfs/src/comp/lz4.c"
#define COMP_T lz4_compressor_t
#define COMP_DESTROY lz4_destroy
#define COMP_COPY lz4_create_copy
#else
#define C19_T "lzma"
#include "c19_env.h"
#include "lib/sqfs/src/comp/lzma.c"
#define COMP_T lzma_compressor_t
#define COMP_DESTROY lzma_destroy
#define COMP_COPY lzma_create_copy
#endif
#define COMP_SKIP_OFF 0
#define COMP_SKIP_LEN 0
#define COMP_INIT(o) ((void)0)
#define COMP_OWNED_FRESH(o, c) (1)
#define COMP_OWNED_INTACT(o) (1)
#define COMP_OWNED_ALLOCS 0
static unsigned g_lib_bad;
#include "comp.inc.h"
