/* C19: sqfs_copy / sqfs_grab / sqfs_drop (include/sqfs/predef.h) against an
 * arbitrary object that obeys the abstract object contract of c19_env.h.
 * No loop, every scalar symbolic: proved.
 *
 *   C19.sqfs_copy.refcount_one     non-NULL result has refcount 1 whatever the
 *                                  hook left there
 *   C19.sqfs_copy.null_hook        object without copy hook: NULL, no call
 *   C19.sqfs_copy.is_hook_result   the result is what the object's own hook
 *                                  produced (exactly one hook call)
 *   C19.sqfs_copy.frame            the original header is untouched
 *   C19.sqfs_grab.increments       refcount + 1, returns its argument, NULL ok
 *   C19.sqfs_drop.decrements       refcount > 1: refcount - 1, no destroy
 *   C19.sqfs_drop.last_destroys    refcount <= 1: destroy called exactly once
 *   C19.sqfs_drop.returns_null
 */
#define C19_T "predef"
#include "c19_env.h"

static unsigned g_copy_calls, g_destroy_calls;
static const sqfs_object_t *g_copy_arg;
static sqfs_object_t *g_copy_ret, *g_destroy_arg;

static sqfs_object_t *hook_copy(const sqfs_object_t *o)
{
	g_copy_calls++;
	g_copy_arg = o;
	g_copy_ret = c19_obj_copy(o);
	return g_copy_ret;
}

static void hook_destroy(sqfs_object_t *o)
{
	g_destroy_calls++;
	g_destroy_arg = o;
	c19_obj_destroy(o);
}

void harness(void)
{
	size_t rc0 = verif_nd_size("refcount");
	bool has_copy = verif_nd_bool("has_copy");
	c19_obj_t *o = c19_obj_new(rc0), *c;
	void *r;

	o->base.copy = has_copy ? hook_copy : NULL;
	o->base.destroy = hook_destroy;

	/* --- sqfs_copy */
	g_oom_enabled = 1;
	c = sqfs_copy(o);
	g_oom_enabled = 0;
	VERIF_ASSERT(o->base.refcount == rc0 && o->base.destroy == hook_destroy &&
		     o->base.copy == (has_copy ? hook_copy : NULL),
		     "C19.sqfs_copy.frame");
	if (!has_copy) {
		VERIF_ASSERT(c == NULL && g_copy_calls == 0, "C19.sqfs_copy.null_hook");
	} else {
		VERIF_ASSERT(g_copy_calls == 1 && g_copy_arg == &o->base &&
			     (sqfs_object_t *)c == g_copy_ret,
			     "C19.sqfs_copy.is_hook_result");
	}
	if (c != NULL) {
		VERIF_ASSERT(c->base.refcount == 1, "C19.sqfs_copy.refcount_one");
		VERIF_ASSERT(c->state == o->state && c != o, "C19.sqfs_copy.is_hook_result");
		c->base.destroy = hook_destroy;
	}
	VERIF_COVER(c != NULL);
	VERIF_COVER(has_copy && c == NULL);
	VERIF_COVER(!has_copy);

	/* --- sqfs_grab */
	VERIF_ASSERT(sqfs_grab(NULL) == NULL, "C19.sqfs_grab.increments");
	if (rc0 < SIZE_MAX) {
		r = sqfs_grab(o);
		VERIF_ASSERT(r == o && o->base.refcount == rc0 + 1,
			     "C19.sqfs_grab.increments");
		o->base.refcount = rc0;
	}

	/* --- sqfs_drop */
	VERIF_ASSERT(sqfs_drop(NULL) == NULL && g_destroy_calls == 0,
		     "C19.sqfs_drop.returns_null");
	r = sqfs_drop(o);
	VERIF_ASSERT(r == NULL, "C19.sqfs_drop.returns_null");
	if (rc0 > 1) {
		VERIF_ASSERT(g_destroy_calls == 0 && o->base.refcount == rc0 - 1,
			     "C19.sqfs_drop.decrements");
		o->base.refcount = 1;
		sqfs_drop(o);
	}
	VERIF_ASSERT(g_destroy_calls == 1 && g_destroy_arg == &o->base,
		     "C19.sqfs_drop.last_destroys");
	VERIF_COVER(rc0 > 1);
	VERIF_COVER(rc0 == 0);

	if (c != NULL) {
		sqfs_drop(c);
		VERIF_ASSERT(g_destroy_calls == 2, "C19.sqfs_drop.last_destroys");
	}
	VERIF_ASSERT(g_live == 0 && g_obj_double_destroy == 0,
		     "C19.sqfs_drop.last_destroys");
}
