/* C19: frag_table_copy / frag_table_destroy (lib/sqfs/src/frag_table.c) with
 * the real array_init_copy / array_init / array_cleanup underneath.
 *
 * Original: heap object, N fragment entries (N concrete, -DN=0..4), table
 * capacity N+SLACK, every entry byte symbolic, refcount symbolic >= 1.
 *
 *   C19.frag_table.succeeds          NULL only if an allocation failed
 *   C19.frag_table.header            copy carries the type's own destroy and
 *                                    copy hooks, refcount 1 after sqfs_copy
 *   C19.frag_table.fresh             copy and its entry buffer are new
 *                                    objects; used/size equal; capacity
 *                                    covers used; every entry byte equal
 *                                    (witness byte)
 *   C19.frag_table.frame             nothing of the original changed (header,
 *                                    array descriptor, entry bytes)
 *   C19.frag_table.independent       a write through the copy is not seen by
 *                                    the original and vice versa
 *   C19.frag_table.release.*         drop both in either order: hooks
 *                                    callable, everything freed exactly once
 *   C19.frag_table.oom.*             failed copy: nothing leaked, original
 *                                    intact and still releasable
 */
#define C19_T "frag_table"
#include "c19_env.h"
#include "lib/util/src/array.c"
#include "lib/sqfs/src/frag_table.c"

#define TBL_T sqfs_frag_table_t
#define TBL_ARR table
#define TBL_DESTROY frag_table_destroy
#define TBL_COPY frag_table_copy
#define ESZ sizeof(sqfs_fragment_t)
#include "array_table.inc.h"
