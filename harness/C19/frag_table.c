/* C19: frag_table_copy / frag_table_destroy (lib/sqfs/src/frag_table.c) with
 * the real array_init_copy / array_init / array_cleanup underneath.
 *
 * Original: heap object, N fragment entries (N concrete, -DN=0..4), table
 * capacity N+SLACK, every entry byte symbolic, refcount symbolic >= 1.
 *
 *   C19.frag_table.succeeds          NULL only if an allocation failed
 *   C19.frag_table.header            copy carries the type's own destroy and
 *                                    copy hooks, refcount 1 after sqfs_copy
 *   C19.frag_table.fresh             copy and its entry buffer are new
 *                                    objects; used/size equal; capacity
 *                                    covers used; every entry byte equal
 *                                    (witness byte)
 *   C19.frag_table.frame             nothing of the original changed (header,
 *                                    array descriptor, entry bytes)
 *   C19.frag_table.answers_equal     sqfs_frag_table_get_size / _lookup give
 *                                    the same answer on copy and original for
 *                                    every index (symbolic)
 *   C19.frag_table.independent       a write through the copy is not seen by
 *                                    the original and vice versa
 *   C19.frag_table.release.*         drop both in either order: hooks
 *                                    callable, everything freed exactly once
 *   C19.frag_table.oom.*             failed copy: nothing leaked, original
 *                                    intact and still releasable
 */
#define C19_T "frag_table"
#include "c19_env.h"
#include "lib/util/src/array.c"
#include "lib/sqfs/src/frag_table.c"

#define TBL_T sqfs_frag_table_t
#define TBL_ARR table
#define TBL_DESTROY frag_table_destroy
#define TBL_COPY frag_table_copy
#define ESZ sizeof(sqfs_fragment_t)
static bool frag_answers_eq(sqfs_frag_table_t *a, sqfs_frag_table_t *b, sqfs_u32 idx)
{
	sqfs_fragment_t x, y;
	int ra, rb;

	if (sqfs_frag_table_get_size(a) != sqfs_frag_table_get_size(b))
		return false;
	ra = sqfs_frag_table_lookup(a, idx, &x);
	rb = sqfs_frag_table_lookup(b, idx, &y);
	if (ra != rb)
		return false;
	return ra != 0 || (x.start_offset == y.start_offset && x.size == y.size &&
			   x.pad0 == y.pad0);
}
#define TBL_ANSWERS_EQ(o, c, i) frag_answers_eq(o, c, i)
#include "array_table.inc.h"
