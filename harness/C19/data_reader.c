/* C19: data_reader_copy / data_reader_destroy (lib/sqfs/src/data_reader.c),
 * real alloc_flex underneath. The reader is a typed wrapper
 * { sqfs_data_reader_t; scratch[BS] } (flexible array member at
 * offsetof(scratch)), BS concrete. Shape parameters (concrete per case):
 * HAVE_DB / HAVE_FB (a cached data / fragment block exists), DBS / FBS their
 * sizes. Fragment table, file, compressor: abstract objects (c19_env.h); the
 * fragment table is *copied* through its own hook, file and compressor are
 * shared.
 *
 *   C19.data_reader.succeeds     NULL only after a failed allocation / failed
 *                                fragment table copy
 *   C19.data_reader.header       own hooks, refcount 1
 *   C19.data_reader.fresh        reader, scratch, data block, fragment block
 *                                and fragment table of the copy are new
 *                                objects with equal contents (witness bytes)
 *                                and equal scalars; file/cmp shared
 *   C19.data_reader.frame        original unchanged; file/cmp refcount +1 on
 *                                success (frame.shared_grabbed), +0 on failure
 *   C19.data_reader.independent
 *   C19.data_reader.release.*    both orders, everything freed exactly once
 *   C19.data_reader.oom.*        every allocation (4 sites) may fail
 */
#define C19_T "data_reader"
#ifndef BS
#define BS 32
#endif
#include "c19_env.h"
#include "lib/sqfs/src/data_reader.c"
#define C19_ALLOC_SIZES sizeof(sqfs_data_reader_t) + BS
#include "c19_alloc.h"

#ifndef BS
#define BS 32
#endif
#ifndef HAVE_DB
#define HAVE_DB 1
#endif
#ifndef HAVE_FB
#define HAVE_FB 1
#endif
#ifndef DBS
#define DBS 24
#endif
#ifndef FBS
#define FBS 16
#endif

typedef struct {
	sqfs_data_reader_t rd;
	sqfs_u8 scratch[BS];
} dr_wrap_t;

void harness(void)
{
	dr_wrap_t *w;
	sqfs_data_reader_t *o, *c;
	size_t frc = verif_nd_size("file_rc"), crc = verif_nd_size("cmp_rc");
	size_t ks = verif_nd_size("w_scratch"), kd = verif_nd_size("w_db"),
	       kf = verif_nd_size("w_fb");
	c19_obj_t *file, *cmp, *ftbl;
	unsigned fid, cid, tid, nobj0;
	sqfs_u8 *odb = NULL, *ofb = NULL, vs, vd = 0, vf = 0;
	sqfs_u64 cur_block = verif_nd_u64("current_block");
	sqfs_u32 cur_frag = verif_nd_u32("current_frag_index");
	sqfs_u32 cur_word = verif_nd_u32("current_block_word");
	bool order = verif_nd_bool("order");
	unsigned calls0;
	long live0;

	VERIF_ASSUME(frc >= 1 && frc < 1000 && crc >= 1 && crc < 1000);
	VERIF_ASSUME(ks < BS && kd < DBS && kf < FBS);
	VERIF_ASSERT(offsetof(dr_wrap_t, scratch) == offsetof(sqfs_data_reader_t, scratch) &&
		     sizeof(dr_wrap_t) == sizeof(sqfs_data_reader_t) + BS,
		     C19_OB("env.wrapper_layout"));

	file = c19_obj_new(frc);
	cmp = c19_obj_new(crc);
	ftbl = c19_obj_new(1);
	fid = file->id;
	cid = cmp->id;
	tid = ftbl->id;
	w = malloc(sizeof(*w));
	o = &w->rd;
	o->obj.refcount = 1;
	o->obj.destroy = data_reader_destroy;
	o->obj.copy = data_reader_copy;
	o->frag_tbl = (sqfs_frag_table_t *)ftbl;
	o->cmp = (sqfs_compressor_t *)cmp;
	o->file = (sqfs_file_t *)file;
	o->block_size = BS;
	o->current_block = cur_block;
	o->current_frag_index = cur_frag;
	o->current_block_word = cur_word;
	o->data_block = NULL;
	o->data_blk_size = HAVE_DB ? DBS : verif_nd_size("stale_size");
	o->frag_block = NULL;
	o->frag_blk_size = HAVE_FB ? FBS : verif_nd_size("stale_size");
	/* buffers: arbitrary (unconstrained fresh memory); the witness byte
	 * is pinned so that the replay sees the same value */
	vs = verif_nd_u8("scratch");
	w->scratch[ks] = vs;
	if (HAVE_DB) {
		odb = malloc(DBS);
		o->data_block = odb;
		vd = verif_nd_u8("db");
		odb[kd] = vd;
	}
	if (HAVE_FB) {
		ofb = malloc(FBS);
		o->frag_block = ofb;
		vf = verif_nd_u8("fb");
		ofb[kf] = vf;
	}
	live0 = g_live;
	nobj0 = g_obj_n;
	calls0 = g_alloc_calls;

	g_oom_enabled = 1;
	c = sqfs_copy(o);
	g_oom_enabled = 0;

	VERIF_ASSERT(o->obj.refcount == 1 && o->obj.destroy == data_reader_destroy &&
		     o->obj.copy == data_reader_copy &&
		     o->frag_tbl == (sqfs_frag_table_t *)ftbl &&
		     o->cmp == (sqfs_compressor_t *)cmp && o->file == (sqfs_file_t *)file &&
		     o->block_size == BS && o->current_block == cur_block &&
		     o->current_frag_index == cur_frag &&
		     o->current_block_word == cur_word && o->data_block == odb &&
		     o->frag_block == ofb && w->scratch[ks] == vs, C19_OB("frame"));
	if (HAVE_DB)
		VERIF_ASSERT(o->data_blk_size == DBS && odb[kd] == vd, C19_OB("frame"));
	if (HAVE_FB)
		VERIF_ASSERT(o->frag_blk_size == FBS && ofb[kf] == vf, C19_OB("frame"));
	VERIF_ASSERT(!g_obj_destroyed[fid] && !g_obj_destroyed[cid] &&
		     !g_obj_destroyed[tid] && ftbl->base.refcount == 1, C19_OB("frame"));

	if (c == NULL) {
		VERIF_ASSERT(g_alloc_failed > 0, C19_OB("succeeds"));
		VERIF_ASSERT(g_live == live0, C19_OB("oom.no_leak"));
		VERIF_ASSERT(file->base.refcount == frc && cmp->base.refcount == crc,
			     C19_OB("oom.original_intact"));
		VERIF_COVER(g_alloc_calls - calls0 == 1);
		VERIF_COVER(g_alloc_calls - calls0 == 2);
		VERIF_COVER(g_alloc_calls - calls0 == 2 + HAVE_DB);
		VERIF_COVER(g_alloc_calls - calls0 == 2 + HAVE_DB + HAVE_FB);
	} else {
		sqfs_u8 *cs = (sqfs_u8 *)c + offsetof(sqfs_data_reader_t, scratch);

		VERIF_ASSERT(g_alloc_failed == 0, C19_OB("succeeds"));
		VERIF_ASSERT(c->obj.destroy == data_reader_destroy &&
			     c->obj.copy == data_reader_copy && c->obj.refcount == 1,
			     C19_OB("header"));
		c->obj.destroy = data_reader_destroy;
		c->obj.copy = data_reader_copy;
		c->obj.refcount = 1;

		VERIF_ASSERT(C19_DISTINCT(c, o) &&
			     VERIF_RW_OK(c, sizeof(sqfs_data_reader_t) + BS),
			     C19_OB("fresh"));
		VERIF_ASSERT(c->block_size == BS && c->current_block == cur_block &&
			     c->current_frag_index == cur_frag &&
			     c->current_block_word == cur_word && cs[ks] == vs,
			     C19_OB("fresh"));
		VERIF_ASSERT(c->file == o->file && c->cmp == o->cmp, C19_OB("fresh"));
		VERIF_ASSERT(file->base.refcount == frc + 1 &&
			     cmp->base.refcount == crc + 1, C19_OB("frame.shared_grabbed"));
		/* fragment table: a copy made by the table's own hook */
		VERIF_ASSERT(c->frag_tbl != NULL && c->frag_tbl != o->frag_tbl &&
			     g_obj_n == nobj0 + 1 &&
			     ((c19_obj_t *)c->frag_tbl)->id == nobj0 &&
			     g_obj_copy_of[nobj0] == 1 + tid &&
			     ((c19_obj_t *)c->frag_tbl)->base.refcount == 1,
			     C19_OB("fresh"));
		if (HAVE_DB) {
			VERIF_ASSERT(c->data_block != NULL &&
				     C19_DISTINCT(c->data_block, odb) &&
				     c->data_blk_size == DBS &&
				     VERIF_RW_OK(c->data_block, DBS) &&
				     c->data_block[kd] == vd, C19_OB("fresh"));
			c->data_block[kd] = vd ^ 0xFF;
			VERIF_ASSERT(odb[kd] == vd, C19_OB("independent"));
		} else {
			VERIF_ASSERT(c->data_block == NULL, C19_OB("fresh"));
		}
		if (HAVE_FB) {
			VERIF_ASSERT(c->frag_block != NULL &&
				     C19_DISTINCT(c->frag_block, ofb) &&
				     c->frag_blk_size == FBS &&
				     VERIF_RW_OK(c->frag_block, FBS) &&
				     c->frag_block[kf] == vf, C19_OB("fresh"));
			ofb[kf] = vf ^ 0xFF;
			VERIF_ASSERT(c->frag_block[kf] == vf, C19_OB("independent"));
		} else {
			VERIF_ASSERT(c->frag_block == NULL, C19_OB("fresh"));
		}
		cs[ks] = vs ^ 0xFF;
		VERIF_ASSERT(w->scratch[ks] == vs, C19_OB("independent"));
	}

	if (c != NULL && order) {
		sqfs_drop(o);
		VERIF_ASSERT(!g_obj_destroyed[fid] && !g_obj_destroyed[cid],
			     C19_OB("release.shared_alive"));
		sqfs_drop(c);
	} else {
		if (c != NULL) {
			sqfs_drop(c);
			VERIF_ASSERT(!g_obj_destroyed[fid] && !g_obj_destroyed[cid] &&
				     !g_obj_destroyed[tid],
				     C19_OB("release.shared_alive"));
		}
		sqfs_drop(o);
	}
	VERIF_ASSERT(g_obj_destroyed[fid] == (frc == 1) &&
		     g_obj_destroyed[cid] == (crc == 1) && g_obj_destroyed[tid] &&
		     g_obj_double_destroy == 0, C19_OB("release.shared_balance"));
	if (frc > 1) {
		VERIF_ASSERT(file->base.refcount == frc - 1, C19_OB("release.shared_balance"));
		file->base.refcount = 1;
		sqfs_drop(file);
	}
	if (crc > 1) {
		VERIF_ASSERT(cmp->base.refcount == crc - 1, C19_OB("release.shared_balance"));
		cmp->base.refcount = 1;
		sqfs_drop(cmp);
	}
	if (c != NULL)
		VERIF_ASSERT(g_live == 0, C19_OB("release.no_leak"));
	else
		VERIF_ASSERT(g_live == 0, C19_OB("oom.original_releasable"));
	VERIF_COVER(c != NULL && order && frc == 1 && crc > 1);
	VERIF_COVER(c != NULL && !order && frc > 1 && crc == 1);
}
