/* C19: dir_reader_copy / dir_reader_destroy (lib/sqfs/src/dir_reader.c).
 * The two meta readers are abstract objects copied through their own hooks;
 * the directory cache uses the real rbtree_copy / rbtree_cleanup
 * (lib/util/src/rbtree.c) in the -DNO_CUSTOM_ALLOC configuration (the pool
 * configuration differs only inside rbtree_copy and is covered by rbtree.c).
 * Shape (concrete): DOT (SQFS_DIR_READER_DOT_ENTRIES set or not), NN cache
 * nodes (0..2, node 1 is the left child of node 0).
 *
 *   C19.dir_reader.succeeds / header / fresh / frame / independent
 *   C19.dir_reader.release.* / oom.*
 */
#define C19_T "dir_reader"
#ifndef NO_CUSTOM_ALLOC
#define NO_CUSTOM_ALLOC
#endif
#define C19_SIZES 24 + 16 /* sizeof(rbtree_node_t) + KP + VS, asserted in the harness */
#include "c19_env.h"
#include "lib/util/src/rbtree.c"
#include "lib/sqfs/src/dir_reader.c"

#ifndef DOT
#define DOT 1
#endif
#ifndef NN
#define NN 2
#endif
#define KP 8
#define VS 8
#define PAY (KP + VS)
#define NA (NN > 0 ? NN : 1)

#define SUPER_FIELDS(X) X(magic) X(inode_count) X(modification_time) X(block_size) \
	X(fragment_entry_count) X(compression_id) X(block_log) X(flags) X(id_count) \
	X(version_major) X(version_minor) X(root_inode_ref) X(bytes_used) \
	X(id_table_start) X(xattr_id_table_start) X(inode_table_start) \
	X(directory_table_start) X(fragment_table_start) X(export_table_start)

static bool super_eq(const sqfs_super_t *a, const sqfs_super_t *b)
{
#define X(f) if (a->f != b->f) return false;
	SUPER_FIELDS(X)
#undef X
	return true;
}

typedef struct {
	rbtree_node_t n;
	sqfs_u8 payload[PAY];
} node_wrap_t;

static void node_set_red(rbtree_node_t *n, unsigned red)
{
	*(sqfs_u32 *)((char *)n + offsetof(rbtree_node_t, value_offset) + 4) = red;
}

void harness(void)
{
	sqfs_dir_reader_t *o, *c;
	c19_obj_t *mdir, *mino;
	unsigned did, iid, nobj0, calls0;
	node_wrap_t *on[NA];
	sqfs_u8 v[NA];
	sqfs_super_t super;
	size_t k = verif_nd_size("witness");
	bool order = verif_nd_bool("order");
	long live0;
	int i;

	VERIF_ASSUME(k < PAY);
	VERIF_ASSERT(sizeof(node_wrap_t) == 24 + 16 &&
		     offsetof(node_wrap_t, payload) == offsetof(rbtree_node_t, data),
		     C19_OB("env.wrapper_layout"));
	mdir = c19_obj_new(1);
	mino = c19_obj_new(1);
	did = mdir->id;
	iid = mino->id;
	o = malloc(sizeof(*o));
	o->base.refcount = 1;
	o->base.destroy = dir_reader_destroy;
	o->base.copy = dir_reader_copy;
	o->meta_dir = (sqfs_meta_reader_t *)mdir;
	o->meta_inode = (sqfs_meta_reader_t *)mino;
#define X(f) super.f = (__typeof__(super.f))(verif_nd_u64("super") & \
		(sizeof(super.f) == 8 ? ~0ULL : ((1ULL << (8 * (sizeof(super.f) & 7))) - 1)));
	SUPER_FIELDS(X)
#undef X
	o->super = super;
	o->flags = DOT ? SQFS_DIR_READER_DOT_ENTRIES : 0;
	(memset)(&o->dcache, 0, sizeof(o->dcache));
	if (DOT) {
		o->dcache.key_compare = dcache_key_compare;
		o->dcache.key_size = sizeof(sqfs_u32);
		o->dcache.key_size_padded = KP;
		o->dcache.value_size = VS;
		for (i = 0; i < NN; ++i)
			on[i] = malloc(sizeof(node_wrap_t));
		for (i = 0; i < NN; ++i) {
			on[i]->n.left = (i == 0 && NN > 1) ? &on[1]->n : NULL;
			on[i]->n.right = NULL;
			on[i]->n.value_offset = KP;
			node_set_red(&on[i]->n, i);
			v[i] = verif_nd_u8("payload");
			on[i]->payload[k] = v[i];
		}
		o->dcache.root = NN > 0 ? &on[0]->n : NULL;
	}
	live0 = g_live;
	nobj0 = g_obj_n;
	calls0 = g_alloc_calls;

	g_oom_enabled = 1;
	c = sqfs_copy(o);
	g_oom_enabled = 0;

	VERIF_ASSERT(o->base.refcount == 1 && o->base.destroy == dir_reader_destroy &&
		     o->base.copy == dir_reader_copy &&
		     o->meta_dir == (sqfs_meta_reader_t *)mdir &&
		     o->meta_inode == (sqfs_meta_reader_t *)mino &&
		     super_eq(&o->super, &super) &&
		     o->flags == (DOT ? SQFS_DIR_READER_DOT_ENTRIES : 0) &&
		     !g_obj_destroyed[did] && !g_obj_destroyed[iid] &&
		     mdir->base.refcount == 1 && mino->base.refcount == 1,
		     C19_OB("frame"));
	if (DOT) {
		VERIF_ASSERT(o->dcache.root == (NN > 0 ? &on[0]->n : NULL) &&
			     o->dcache.key_compare == dcache_key_compare &&
			     o->dcache.key_size == sizeof(sqfs_u32) &&
			     o->dcache.key_size_padded == KP && o->dcache.value_size == VS,
			     C19_OB("frame"));
		for (i = 0; i < NN; ++i)
			VERIF_ASSERT(on[i]->n.left == ((i == 0 && NN > 1) ? &on[1]->n : NULL) &&
				     on[i]->n.right == NULL && on[i]->payload[k] == v[i] &&
				     on[i]->n.is_red == (unsigned)i, C19_OB("frame"));
	}

	if (c == NULL) {
		VERIF_ASSERT(g_alloc_failed > 0, C19_OB("succeeds"));
		VERIF_ASSERT(g_live == live0, C19_OB("oom.no_leak"));
		VERIF_COVER(g_alloc_calls - calls0 == 1);
		VERIF_COVER(g_alloc_calls - calls0 == 1 + (DOT ? NN : 0) + 2);
	} else {
		VERIF_ASSERT(g_alloc_failed == 0, C19_OB("succeeds"));
		VERIF_ASSERT(c->base.destroy == dir_reader_destroy &&
			     c->base.copy == dir_reader_copy && c->base.refcount == 1,
			     C19_OB("header"));
		c->base.destroy = dir_reader_destroy;
		c->base.copy = dir_reader_copy;
		c->base.refcount = 1;
		VERIF_ASSERT(C19_DISTINCT(c, o), C19_OB("fresh"));
		VERIF_ASSERT(super_eq(&c->super, &super) && c->flags == o->flags,
			     C19_OB("fresh"));
		VERIF_ASSERT(g_obj_n == nobj0 + 2 && c->meta_dir != NULL &&
			     c->meta_inode != NULL && c->meta_dir != c->meta_inode &&
			     c->meta_dir != o->meta_dir && c->meta_inode != o->meta_inode &&
			     g_obj_copy_of[((c19_obj_t *)c->meta_dir)->id] == 1 + did &&
			     g_obj_copy_of[((c19_obj_t *)c->meta_inode)->id] == 1 + iid &&
			     ((c19_obj_t *)c->meta_dir)->base.refcount == 1 &&
			     ((c19_obj_t *)c->meta_inode)->base.refcount == 1,
			     C19_OB("fresh"));
		if (DOT) {
			rbtree_node_t *cn[NA];

			VERIF_ASSERT(c->dcache.key_compare == dcache_key_compare &&
				     c->dcache.key_size == sizeof(sqfs_u32) &&
				     c->dcache.key_size_padded == KP &&
				     c->dcache.value_size == VS &&
				     (c->dcache.root != NULL) == (NN > 0), C19_OB("fresh"));
			if (NN > 0)
				cn[0] = c->dcache.root;
			if (NN > 1) {
				VERIF_ASSERT(cn[0]->left != NULL, C19_OB("fresh"));
				cn[1] = cn[0]->left;
			}
			for (i = 0; i < NN; ++i) {
				int j;

				VERIF_ASSERT(cn[i] != NULL &&
					     VERIF_RW_OK(cn[i], sizeof(node_wrap_t)),
					     C19_OB("fresh"));
				for (j = 0; j < NN; ++j)
					VERIF_ASSERT(C19_DISTINCT(cn[i], on[j]),
						     C19_OB("fresh"));
				VERIF_ASSERT((cn[i]->left != NULL) == (i == 0 && NN > 1) &&
					     cn[i]->right == NULL &&
					     cn[i]->value_offset == KP &&
					     cn[i]->is_red == (unsigned)i &&
					     cn[i]->data[k] == v[i], C19_OB("fresh"));
				cn[i]->data[k] = v[i] ^ 0xFF;
				VERIF_ASSERT(on[i]->payload[k] == v[i], C19_OB("independent"));
			}
		} else {
			VERIF_ASSERT(c->dcache.root == NULL, C19_OB("fresh"));
		}
		c->super.bytes_used = ~super.bytes_used;
		VERIF_ASSERT(super_eq(&o->super, &super), C19_OB("independent"));
	}

	if (c != NULL && order) {
		sqfs_drop(o);
		sqfs_drop(c);
	} else {
		if (c != NULL) {
			sqfs_drop(c);
			VERIF_ASSERT(!g_obj_destroyed[did] && !g_obj_destroyed[iid],
				     C19_OB("release.original_alive"));
		}
		sqfs_drop(o);
	}
	VERIF_ASSERT(g_obj_double_destroy == 0 && g_obj_destroyed[did] &&
		     g_obj_destroyed[iid], C19_OB("release.destroy_once"));
	if (c != NULL)
		VERIF_ASSERT(g_live == 0, C19_OB("release.no_leak"));
	else
		VERIF_ASSERT(g_live == 0, C19_OB("oom.original_releasable"));
	VERIF_COVER(c != NULL && order);
	VERIF_COVER(c != NULL && !order);
}
