/* mem_pool_* (lib/util/src/mempool.c, mmap based) as a contract - trusted:
 *   create(sz)    NULL, or a fresh pool for objects of sz bytes (rounded up
 *                 to 8 like the real one)
 *   allocate(p)   NULL (mmap of a new slab failed), or a fresh zeroed object of
 *                 the pool's object size that lives until the pool dies
 *   destroy(p)    requires a live pool; releases the pool and all its objects
 * The model keeps every object as its own allocation so that cbmc's / ASan's
 * use-after-free and leak detection see them individually. At most
 * C19_POOL_MAX objects per pool (the harness shapes need <= 3).
 */
#ifndef C19_MEMPOOL_H
#define C19_MEMPOOL_H
#include "util/mempool.h"

#define C19_POOL_MAX 4
struct mem_pool_t {
	size_t obj_size;
	unsigned n;
	void *objs[C19_POOL_MAX];
};

mem_pool_t *mem_pool_create(size_t obj_size)
{
	mem_pool_t *mem = c19_calloc(1, sizeof(*mem));

	if (mem == NULL)
		return NULL;
	if (obj_size % 8)
		obj_size += 8 - obj_size % 8;
	mem->obj_size = obj_size;
	return mem;
}

void mem_pool_destroy(mem_pool_t *mem)
{
	unsigned i;

	VERIF_ASSERT(mem != NULL, C19_OB("env.mem_pool_destroy.pre"));
	for (i = 0; i < C19_POOL_MAX; ++i) {
		if (i < mem->n)
			c19_free(mem->objs[i]);
	}
	c19_free(mem);
}

void *mem_pool_allocate(mem_pool_t *mem)
{
	void *p;

	VERIF_ASSERT(mem != NULL, C19_OB("env.mem_pool_allocate.pre"));
	if (mem->n >= C19_POOL_MAX)
		return NULL;
	if (mem->obj_size == C19_POOL_OBJ_SIZE)
		p = c19_calloc(1, C19_POOL_OBJ_SIZE);
	else {
		VERIF_ASSERT(0, C19_OB("env.mem_pool_obj_size"));
		return NULL;
	}
	if (p != NULL)
		mem->objs[mem->n++] = p;
	return p;
}

/* harness helper: hand an object built by the harness to the pool (it then
 * lives and dies with the pool like an allocated one) */
static void c19_pool_adopt(mem_pool_t *mem, void *p)
{
	mem->objs[mem->n++] = p;
}
#endif
