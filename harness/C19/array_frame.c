/* C19.array.frame as a dfcc frame condition: array_init_copy may assign the
 * destination descriptor and objects it allocates itself - nothing else, in
 * particular nothing reachable from src. Checked by
 * goto-instrument --dfcc --enforce-contract array_init_copy on the real body
 * (the assigns clause instruments every write of array_init_copy and of the
 * array_init it calls). The ensures repeat fresh/oom in contract form.
 */
#define C19_T "array"
#include <stdlib.h>
#include <string.h>
#include "verif.h"
#include "util/array.h"

#ifndef N
#define N 2
#endif
#ifndef ESZ
#define ESZ 8
#endif

int array_init_copy(array_t *array, const array_t *src)
__CPROVER_requires(__CPROVER_is_fresh(array, sizeof(*array)))
__CPROVER_requires(__CPROVER_is_fresh(src, sizeof(*src)))
__CPROVER_requires(src->size == ESZ && src->used == N && src->count >= N)
__CPROVER_requires(__CPROVER_is_fresh(src->data, N * ESZ))
__CPROVER_assigns(*array)
__CPROVER_ensures(__CPROVER_return_value == 0 || __CPROVER_return_value == SQFS_ERROR_ALLOC)
__CPROVER_ensures(__CPROVER_return_value == 0 ==>
	array->size == ESZ && array->used == N && array->count >= N &&
	__CPROVER_is_fresh(array->data, N * ESZ))
__CPROVER_ensures(__CPROVER_return_value != 0 ==> array->data == NULL)
;

#include "lib/util/src/array.c"

void harness(void)
{
	array_t *dst = NULL;
	const array_t *src = NULL;
	int ret = array_init_copy(dst, src);

	VERIF_COVER(ret == 0);
	VERIF_COVER(ret != 0);
}
