#ifndef C19_ALLOC_H
#define C19_ALLOC_H
/* alloc_flex / alloc_array (lib/util/src/alloc.c) as a contract, for the
 * harnesses that include this file (after the repository file, with
 * C19_ALLOC_SIZES defined - so the list can use sizeof of file-local types): NULL or a fresh zeroed object of
 * exactly base + item * n bytes. The harness lists the sizes it expects; the
 * request is matched against them so that every object cbmc creates has a
 * compile-time size (symbolic-size objects do not finish). A request outside
 * the list is reported, never rounded. */
static void *c19_alloc_exact(size_t total)
{
	static const size_t sizes[] = { C19_ALLOC_SIZES };
	size_t i;

	for (i = 0; i < sizeof(sizes) / sizeof(sizes[0]); ++i) {
		if (total == sizes[i])
			return c19_calloc(1, sizes[i]);
	}
	VERIF_ASSERT(0, C19_OB("env.alloc_size_listed"));
	return NULL;
}

void *alloc_flex(size_t base_size, size_t item_size, size_t nmemb)
{
	VERIF_ASSERT(item_size == 0 || nmemb <= (SIZE_MAX - base_size) / item_size,
		     C19_OB("env.alloc_no_overflow"));
	return c19_alloc_exact(base_size + item_size * nmemb);
}

void *alloc_array(size_t item_size, size_t nmemb)
{
	VERIF_ASSERT(item_size == 0 || nmemb <= SIZE_MAX / item_size,
		     C19_OB("env.alloc_no_overflow"));
	return c19_alloc_exact(item_size * nmemb);
}

#endif /* C19_ALLOC_H */
