/* C19 (support): the real hash_table_clone (lib/util/src/hash_table.c)
 * against the contract that str_table.c links in its place:
 *   NULL only after a failed allocation, nothing kept (C19.hash_table.oom);
 *   otherwise a fresh descriptor with equal scalars and a fresh slot array
 *   holding the same entries (C19.hash_table.fresh); source untouched
 *   (C19.hash_table.frame); hash_table_destroy releases both
 *   (C19.hash_table.release).
 * 5 slots (the size hash_table_create starts with), every slot symbolic
 * (hash arbitrary, key/data NULL or not).
 */
#define C19_T "hash_table"
#define C19_SIZES 5 * 24 /* HT_SIZE * sizeof(struct hash_entry), asserted below */
#include "c19_env.h"
#include "lib/util/src/hash_table.c"
#define HT_SIZE 5

bool eq_stub(void *user, const void *a, const void *b)
{
	(void)user; (void)a; (void)b;
	return false;
}
sqfs_u32 hash_stub(void *user, const void *key) { (void)user; (void)key; return 0; }
void del_stub(struct hash_entry *e) { (void)e; }

void harness(void)
{
	struct hash_table *o, *c;
	struct hash_entry *otab;
	sqfs_u32 h[HT_SIZE], entries = verif_nd_u32("entries");
	const void *key[HT_SIZE];
	void *data[HT_SIZE];
	int i;
	sqfs_u64 magic = verif_nd_u64("magic");
	static char keyobj[2];
	long live0;

	VERIF_ASSERT(sizeof(struct hash_entry) == 24, "C19.hash_table.env.layout");
	o = malloc(sizeof(*o));
	otab = malloc(HT_SIZE * sizeof(struct hash_entry));
	o->table = otab;
	o->key_hash_function = NULL;
	o->key_equals_function = eq_stub;
	o->deleted_key = &deleted_key_value;
	o->user = NULL;
	o->size = HT_SIZE;
	o->rehash = 3;
	o->size_magic = magic;
	o->rehash_magic = ~magic;
	o->max_entries = 2;
	o->size_index = 0;
	o->entries = entries;
	o->deleted_entries = 0;
	for (i = 0; i < HT_SIZE; ++i) {
		h[i] = verif_nd_u32("hash");
		key[i] = verif_nd_bool("key") ? &keyobj[0] : NULL;
		data[i] = verif_nd_bool("data") ? &keyobj[1] : NULL;
		otab[i].hash = h[i];
		otab[i].key = key[i];
		otab[i].data = data[i];
	}
	live0 = g_live;

	g_oom_enabled = 1;
	c = hash_table_clone(o);
	g_oom_enabled = 0;

	VERIF_ASSERT(o->table == otab && o->key_equals_function == eq_stub &&
		     o->size == HT_SIZE && o->rehash == 3 && o->size_magic == magic &&
		     o->entries == entries, "C19.hash_table.frame");
	for (i = 0; i < HT_SIZE; ++i)
		VERIF_ASSERT(otab[i].hash == h[i] && otab[i].key == key[i] &&
			     otab[i].data == data[i], "C19.hash_table.frame");
	if (c == NULL) {
		VERIF_ASSERT(g_alloc_failed > 0 && g_live == live0, "C19.hash_table.oom");
		VERIF_COVER(1);
	} else {
		VERIF_ASSERT(g_alloc_failed == 0 && c != o && c->table != NULL &&
			     C19_DISTINCT(c->table, otab) &&
			     VERIF_RW_OK(c->table, HT_SIZE * sizeof(struct hash_entry)),
			     "C19.hash_table.fresh");
		VERIF_ASSERT(c->key_equals_function == eq_stub &&
			     c->key_hash_function == NULL &&
			     c->deleted_key == &deleted_key_value && c->user == NULL &&
			     c->size == HT_SIZE && c->rehash == 3 && c->size_magic == magic &&
			     c->rehash_magic == ~magic && c->max_entries == 2 &&
			     c->size_index == 0 && c->entries == entries &&
			     c->deleted_entries == 0, "C19.hash_table.fresh.scalars");
		for (i = 0; i < HT_SIZE; ++i)
		{
			VERIF_ASSERT(c->table[i].hash == h[i], "C19.hash_table.fresh.slots.hash");
			VERIF_ASSERT(c->table[i].key == key[i], "C19.hash_table.fresh.slots.key");
			VERIF_ASSERT(c->table[i].data == data[i], "C19.hash_table.fresh.slots.data");
		}
		hash_table_destroy(c, NULL);
		VERIF_ASSERT(g_live == live0, "C19.hash_table.release");
		VERIF_COVER(1);
	}
	hash_table_destroy(o, NULL);
	VERIF_ASSERT(g_live == 0, "C19.hash_table.release");
}
