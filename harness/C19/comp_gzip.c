/* C19: gzip_create_copy / gzip_destroy (lib/sqfs/src/comp/gzip.c).
 * zlib is a contract (trusted): deflateInit2_/inflateInit_ return Z_OK and
 * attach a fresh internal state to the stream, or fail (Z_MEM_ERROR) leaving
 * none; deflateEnd/inflateEnd require a live state of the matching kind and
 * release it. -DCOMPRESS=0/1 selects the direction (concrete).
 *   C19.gzip.fresh.owned_state   the copy's z_stream has its own, live zlib
 *                                state of the same kind - never the original's
 *   other obligations as in comp.inc.h
 */
#define C19_T "gzip"
#include "c19_env.h"
#include "lib/sqfs/src/comp/gzip.c"
#ifndef COMPRESS
#define COMPRESS 1
#endif

struct internal_state { int kind; }; /* 1 deflate, 2 inflate */
static unsigned g_lib_bad;

static int zlib_init(z_streamp strm, int kind, const char *version, int stream_size)
{
	struct internal_state *st;

	VERIF_ASSERT(strm != NULL && version != NULL && version[0] == ZLIB_VERSION[0] &&
		     stream_size == (int)sizeof(z_stream) &&
		     strm->zalloc == Z_NULL && strm->zfree == Z_NULL &&
		     strm->opaque == Z_NULL, C19_OB("env.zlib_init.pre"));
	st = malloc(sizeof(*st));
	if (st == NULL) {
		strm->state = Z_NULL;
		return Z_MEM_ERROR;
	}
	st->kind = kind;
	strm->state = st;
	return Z_OK;
}

int deflateInit2_(z_streamp strm, int level, int method, int windowBits,
		  int memLevel, int strategy, const char *version, int stream_size)
{
	(void)level; (void)method; (void)windowBits; (void)memLevel; (void)strategy;
	return zlib_init(strm, 1, version, stream_size);
}

int inflateInit_(z_streamp strm, const char *version, int stream_size)
{
	return zlib_init(strm, 2, version, stream_size);
}

static int zlib_end(z_streamp strm, int kind)
{
	if (strm == NULL || strm->state == Z_NULL || strm->state->kind != kind) {
		g_lib_bad++;
		return Z_STREAM_ERROR;
	}
	free(strm->state);
	strm->state = Z_NULL;
	return Z_OK;
}

int deflateEnd(z_streamp strm) { return zlib_end(strm, 1); }
int inflateEnd(z_streamp strm) { return zlib_end(strm, 2); }

#define COMP_T gzip_compressor_t
#define COMP_DESTROY gzip_destroy
#define COMP_COPY gzip_create_copy
#define COMP_SKIP_OFF offsetof(gzip_compressor_t, strm)
#define COMP_SKIP_LEN sizeof(z_stream)
static struct internal_state *g_ost;
static void gzip_init(gzip_compressor_t *o)
{
	int save = g_oom_enabled;

	g_oom_enabled = 0;
	o->compress = COMPRESS;
	/* invariant established by gzip_compressor_create */
	o->opt.level = verif_nd_u32("level");
	o->opt.window = verif_nd_u16("window");
	VERIF_ASSUME(o->opt.level >= SQFS_GZIP_MIN_LEVEL && o->opt.level <= SQFS_GZIP_MAX_LEVEL);
	VERIF_ASSUME(o->opt.window >= SQFS_GZIP_MIN_WINDOW && o->opt.window <= SQFS_GZIP_MAX_WINDOW);
	(memset)(&o->strm, 0, sizeof(o->strm));
	if (COMPRESS)
		deflateInit2_(&o->strm, 9, Z_DEFLATED, 15, 8, 0, ZLIB_VERSION, sizeof(z_stream));
	else
		inflateInit_(&o->strm, ZLIB_VERSION, sizeof(z_stream));
	g_ost = o->strm.state;
	g_oom_enabled = save;
}
#define COMP_INIT(o) gzip_init(o)
#define COMP_OWNED_INTACT(o) ((o)->strm.state != NULL && (o)->strm.state->kind == (COMPRESS ? 1 : 2))
#define COMP_OWNED_FRESH(o, c) ((c)->strm.state != NULL && (c)->strm.state != (o)->strm.state && \
	(c)->strm.state->kind == (COMPRESS ? 1 : 2) && (o)->strm.state == g_ost)
#define COMP_OWNED_ALLOCS 1
#include "comp.inc.h"
