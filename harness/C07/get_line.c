/* C07: istream_get_line, ltrim, rtrim, trim (lib/util/src/get_line.c).
 * The stream is its contract: every call of get_buffered_data returns an
 * error, end of file, or a window of 1..WIN arbitrary bytes (the same window
 * again if nothing was consumed, as the API promises); at most CHUNKS windows
 * are delivered (bound of this harness). Flags fully symbolic, every
 * allocation may fail.
 *
 *  ensures  C07.getline.status_domain   < 0, 0 or 1
 *           C07.getline.line            ret == 0 => *out is a NUL-terminated
 *                                       heap string without '\n', not longer
 *                                       than the bytes consumed
 *           C07.getline.fail_null       ret != 0 => *out == NULL (nothing
 *                                       dangling), no leak (leak check)
 *           C07.getline.advance         advance_buffer(n) is only called
 *                                       with n <= bytes offered
 *           C07.getline.trimmed         LTRIM/RTRIM: no leading / trailing
 *                                       white space left; SKIP_EMPTY: the
 *                                       line is not empty
 *           C07.getline.linenum         line_num only grows, by at most the
 *                                       number of '\n' consumed
 */
#include <string.h>
#include <ctype.h>
#include "verif.h"
#include "lib/util/src/get_line.c"

#ifndef WIN
#define WIN 3
#endif
#ifndef CHUNKS
#define CHUNKS 2
#endif

#define CAP (WIN * CHUNKS + 1)

#ifndef VERIF_REPLAY
/* realloc contract with the requested size made concrete (one typed object
 * per possible size 1..CAP - symbolic-size reallocation in a loop exhausts
 * the solver): NULL, or a fresh block of exactly n bytes holding the old
 * contents; the old block is released. */
static size_t g_blk_size;	/* size of the one live line buffer */
void *realloc(void *old, size_t n)
{
	char *q = NULL;
	size_t k, i;

	VERIF_ASSERT(n >= 1 && n <= CAP, "C07.getline.alloc_size");
	VERIF_ASSUME(n >= 1 && n <= CAP);
	if (verif_nd_bool("realloc.fail"))
		return NULL;
	for (k = 1; k <= CAP; ++k) {
		if (n == k) {
			q = malloc(k);
			break;
		}
	}
	VERIF_ASSUME(q != NULL);
	if (old != NULL) {
		for (i = 0; i < CAP; ++i) {
			if (i < n && i < g_blk_size)
				q[i] = ((char *)old)[i];
		}
		free(old);
	}
	g_blk_size = n;
	return q;
}
#endif

static uint8_t g_win[WIN];
static size_t g_avail, g_consumed, g_newlines;
static unsigned int g_chunks;
static int g_have;

static int env_get_buffered_data(sqfs_istream_t *strm, const sqfs_u8 **out,
				 size_t *size, size_t want)
{
	int r;

	(void)strm; (void)want;
	if (!g_have) {
		r = verif_nd_int("gbd.ret");
		if (r != 0)
			return r;
		/* bound of this harness */
		VERIF_ASSUME(g_chunks < CHUNKS);
		++g_chunks;
		g_avail = verif_nd_size("gbd.avail");
		VERIF_ASSUME(g_avail >= 1 && g_avail <= WIN);
		verif_nd_bytes(g_win, WIN, "gbd.byte");
		g_have = 1;
	}
	*out = g_win;
	*size = g_avail;
	return 0;
}

static void env_advance_buffer(sqfs_istream_t *strm, size_t count)
{
	size_t i;

	(void)strm;
	VERIF_ASSERT(g_have && count <= g_avail, "C07.getline.advance");
	for (i = 0; i < WIN && i < count; ++i) {
		if (g_win[i] == '\n')
			++g_newlines;
	}
	g_consumed += count;
	/* whatever is left of the window is re-offered shifted */
	for (i = 0; i + count < WIN && i < WIN; ++i)
		g_win[i] = g_win[i + count];
	g_avail -= count;
	if (g_avail == 0)
		g_have = 0;
}

void harness(void)
{
	sqfs_istream_t strm;
	size_t line_num = verif_nd_size("line_num"), ln0, len, i;
	int flags = verif_nd_int("flags");
	char *out = (char *)&strm;	/* stale */
	int ret;

	VERIF_ASSUME(line_num < 1000);
	ln0 = line_num;
	memset(&strm, 0, sizeof(strm));
	strm.get_buffered_data = env_get_buffered_data;
	strm.advance_buffer = env_advance_buffer;

	ret = istream_get_line(&strm, &out, &line_num, flags);

	VERIF_ASSERT(ret <= 1, "C07.getline.status_domain");
	VERIF_ASSERT(line_num >= ln0 && line_num - ln0 <= g_newlines,
		     "C07.getline.linenum");
	if (ret == 0) {
		VERIF_ASSERT(out != NULL, "C07.getline.line");
		len = strlen(out);
		VERIF_ASSERT(len <= g_consumed, "C07.getline.line");
		for (i = 0; i < WIN * CHUNKS && i < len; ++i)
			VERIF_ASSERT(out[i] != '\n', "C07.getline.line");
		if (flags & ISTREAM_LINE_LTRIM)
			VERIF_ASSERT(!isspace(out[0]), "C07.getline.trimmed");
		if ((flags & ISTREAM_LINE_RTRIM) && len > 0)
			VERIF_ASSERT(!isspace(out[len - 1]),
				     "C07.getline.trimmed");
		if (flags & ISTREAM_LINE_SKIP_EMPTY)
			VERIF_ASSERT(len > 0, "C07.getline.trimmed");
		VERIF_COVER(len == WIN * CHUNKS - 1);
		VERIF_COVER(len == 0);
		VERIF_COVER(line_num > ln0);
		free(out);
	} else {
		VERIF_ASSERT(out == NULL, "C07.getline.fail_null");
		VERIF_COVER(ret == 1 && g_consumed > 0);
		VERIF_COVER(ret < 0 && g_consumed > 0);
	}
}
