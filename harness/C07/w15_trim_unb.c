/* C07 (w15): ltrim / rtrim / trim (lib/util/src/get_line.c), UNBOUNDED:
 * every NUL-terminated string in an object of n <= TRIM_MAX (4096) bytes,
 * symbolic size and contents. Both scan loops are closed by the loop
 * contracts of contracts/loops/C07_w15.tbl; nothing is unwound.
 *   PART 0: ltrim    PART 1: rtrim    PART 2: trim (= ltrim; rtrim)
 *
 * libc callees are their contracts (checking stubs, DESIGN 2.4):
 *   strlen(s)       requires s inside the object; returns the index of *a*
 *                   NUL at or after s inside the object (a superset of the
 *                   real result, the first one) - C07.trim_unb.strlen_pre
 *   memmove(d,s,n)  requires r_ok(s,n), w_ok(d,n) - C07.trim_unb.memmove_pre;
 *                   transfers one arbitrary witness byte
 *
 *  requires  buffer points to n bytes, buffer[L] == 0 for a ghost L < n
 *  C07.trim_unb.never_grows   a NUL remains at an index <= L: ltrim moves the
 *                             tail down (the byte moved to min(k, L-i) is a
 *                             NUL; checked for the witness byte), rtrim only
 *                             writes a NUL at or below the old end
 *  C07.trim_unb.moves_down    ltrim: memmove destination is the buffer start,
 *                             source is buffer+i inside the string, and the
 *                             length ends at a NUL inside the object
 *  C07.trim_unb.rtrim_store   rtrim: strlen is consulted exactly once; the
 *                             terminator is stored at an index <= the length
 *                             it returned (loop invariant i <= entry value)
 *                             inside the object (pointer check)
 *  memory safety (pointer checks), termination (decreases)
 */
#include <stdlib.h>
#include <string.h>
#include <ctype.h>
#include "verif.h"
#include "w15_loops.h"

#ifndef TRIM_MAX
#define TRIM_MAX 4096
#endif
#ifndef PART
#define PART 0
#endif

size_t g_trim_L;	/* ghost: index of a NUL byte on entry */
static char *g_trim_p;	/* the object */
static size_t g_trim_n;	/* its size */
static size_t g_mm_calls, g_mm_i, g_mm_k, g_mm_w;
static size_t g_sl_calls, g_sl_last;

static size_t w15_strlen(const char *s)
{
	size_t off, k;

	VERIF_ASSERT(VERIF_SAME_OBJECT(s, g_trim_p) &&
		     VERIF_POINTER_OFFSET(s) < g_trim_n, "C07.trim_unb.strlen_pre");
	off = VERIF_POINTER_OFFSET(s);
	k = verif_nd_size("strlen");
	VERIF_ASSUME(off < g_trim_n && k < g_trim_n - off && g_trim_p[off + k] == 0);
	g_sl_calls += 1;
	g_sl_last = k;
	return k;
}

static void *w15_memmove(void *dst, const void *src, size_t n)
{
	size_t w;

	VERIF_ASSERT(VERIF_R_OK(src, n) && VERIF_W_OK(dst, n), "C07.trim_unb.memmove_pre");
	VERIF_ASSERT(dst == (void *)g_trim_p && VERIF_SAME_OBJECT(src, g_trim_p) &&
		     VERIF_POINTER_OFFSET(src) >= 1 && n >= 1 &&
		     VERIF_POINTER_OFFSET(src) + n <= g_trim_n &&
		     ((const char *)src)[n - 1] == 0, "C07.trim_unb.moves_down");
	w = verif_nd_size("memmove.w");
	g_mm_calls += 1;
	g_mm_i = VERIF_POINTER_OFFSET(src);
	g_mm_k = n - 1;
	g_mm_w = w;
	if (w < n)
		((char *)dst)[w] = ((const char *)src)[w];
	return dst;
}

#define strlen(s) w15_strlen(s)
#define memmove(d, s, n) w15_memmove(d, s, n)
#include "lib/util/src/get_line.c"
#undef strlen
#undef memmove

void harness(void)
{
	size_t n = verif_nd_size("n");
	char *p;

	g_mm_calls = 0; g_mm_i = 0; g_mm_k = 0; g_mm_w = 0;
	g_sl_calls = 0; g_sl_last = 0;

	VERIF_ASSUME(n >= 1 && n <= TRIM_MAX);
	p = malloc(n);
	VERIF_ASSUME(p != NULL);
	g_trim_L = verif_nd_size("L");
	VERIF_ASSUME(g_trim_L < n && p[g_trim_L] == 0);
	g_trim_p = p;
	g_trim_n = n;

#if PART == 0
	ltrim(p);
	if (g_mm_calls == 0) {
		VERIF_ASSERT(p[g_trim_L] == 0, "C07.trim_unb.never_grows");
	} else {
		/* the tail [i, i+k] moved to [0, k]; both L-i and k index a NUL
		 * of the result - checked for the byte the witness transferred */
		size_t j = (g_trim_L - g_mm_i <= g_mm_k) ? g_trim_L - g_mm_i : g_mm_k;
		VERIF_ASSERT(g_mm_calls == 1 && g_mm_i <= g_trim_L, "C07.trim_unb.moves_down");
		VERIF_ASSERT(j <= g_trim_L, "C07.trim_unb.never_grows");
		if (g_mm_w == j)
			VERIF_ASSERT(p[j] == 0, "C07.trim_unb.never_grows");
	}
	VERIF_COVER(g_mm_calls == 1 && g_mm_i > 3 && g_mm_k > 3);
	VERIF_COVER(g_mm_calls == 0 && g_trim_L > 3 && p[0] != 0);
#elif PART == 1
	rtrim(p);
	VERIF_ASSERT(p[g_trim_L] == 0, "C07.trim_unb.never_grows");
	VERIF_ASSERT(g_sl_calls == 1, "C07.trim_unb.rtrim_store");
	VERIF_COVER(g_sl_last > 5 && p[2] == 0);
	VERIF_COVER(g_sl_last > 5 && p[g_sl_last - 1] != 0);
	VERIF_COVER(p[0] == 0);
#else
	trim(p);
	VERIF_COVER(g_mm_calls == 1 && g_sl_calls == 2);
	VERIF_COVER(g_mm_calls == 0 && g_sl_calls == 1);
#endif
}
