/* C07: tar_probe (lib/tar/src/iterator.c) on a buffer of symbolic size
 * (0..1100 bytes, object ends with the buffer) and symbolic contents; the
 * zero-record scan runs over TAR_RECORD_SIZE = 512 bytes (constant, unwound
 * completely).
 *  C07.probe.domain   returns 0 or 1
 *  C07.probe.ustar    1 => the five bytes at offset 257 (of the first
 *                     record, or of the second one when the first is all
 *                     zero) are "ustar" and inside the buffer
 */
#include "verif.h"
#include "lib/tar/src/iterator.c"
#define ITER_MAXHDR 1
#include "iter_env.h"

void harness(void)
{
	size_t size = verif_nd_size("size");
	sqfs_u8 *p;
	int ret;

	VERIF_ASSUME(size <= 1100);
	p = malloc(size);
	VERIF_ASSUME(p != NULL);

	ret = tar_probe(p, size);

	VERIF_ASSERT(ret == 0 || ret == 1, "C07.probe.domain");
	if (ret == 1) {
		VERIF_ASSERT((size >= 262 && p[257] == 'u' && p[261] == 'r') ||
			     (size >= 512 + 262 && p[0] == 0 && p[511] == 0 &&
			      p[512 + 257] == 'u' && p[512 + 261] == 'r'),
			     "C07.probe.ustar");
	}
	VERIF_COVER(ret == 1 && size < 512);
	VERIF_COVER(ret == 1 && size > 1000 && p[0] == 0);
	VERIF_COVER(ret == 0 && size > 1000 && p[0] == 0 && p[300] == 0);
}
