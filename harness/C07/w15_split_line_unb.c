/* C07 (w15): split_line (lib/util/src/split_line.c), UNBOUNDED: every line of
 * `len` bytes, len symbolic in [0, SPLIT_MAX], fully symbolic contents
 * (embedded NULs, quotes, backslashes), both separator sets used in the tree
 * (" \t" and ","). All five input-driven loops of split_line are closed by
 * the loop contracts of contracts/loops/C07_w15.tbl (assigns / invariant /
 * decreases), nothing is unwound except strchr() over the 1- or 2-byte
 * separator literal (complete, unwinding assertion).
 *
 * Cap (tool limit, see cases_extra_w15.py): the invariants are cap-free, but
 * the SAT problem (array theory over the line object, havocked by three
 * nested loop contracts) is decided in reasonable time only for SPLIT_MAX <=
 * 63 with the exact object; with the fixed object 1023 takes 5-8 min and the
 * full cap 4095 (a 4096-byte object) 38 min.
 *
 * Two object models:
 *  default    the line object has exactly len+1 bytes: [0,len) the text and
 *             [len] the byte the callers guarantee to exist (the NUL of the
 *             string, or ']' for the flag list of the sort file). Any access
 *             outside is a pointer-check failure.
 *  SL_FIXED   an object of SPLIT_MAX+1 bytes with the line right-aligned in
 *             it: line[len] is the last byte of the object, so an overrun
 *             at the top is a pointer-check failure; the bottom is guarded by
 *             the invariants (src, dst >= line).
 *
 * Token list: realloc makes the stored pointers opaque to the tool, so the
 * list is ONE typed object g_sl (the split_line_t header; natively with
 * SL_CAP pointer slots): calloc returns NULL or that object zeroed, and
 * append_arg (4 lines, realloc + store; exercised for real by the bounded
 * harness split_line) is replaced by its contract stub_append_arg, which
 * carries the obligations on EVERY appended token:
 *  C07.split_unb.capacity      count + 1 <= (len+1)/2 - the list never needs
 *                              more than (len+1)/2 slots, for every len
 *  C07.split_unb.args_in_line  the token pointer lies in line[0..len), at or
 *                              above the previous token's terminator
 * and either fails (frees the list, returns NULL) or bumps count.
 *
 *  C07.split_unb.status_domain  one of the four SPLIT_LINE_* codes
 *  C07.split_unb.in_place       (loop invariants) dst <= src at the head of
 *                               every token, dst <= src + 1 <= line + len + 1
 *                               at the end: the decoder never grows the text
 *  C07.split_unb.count          on success count <= (len+1)/2
 *  C07.split_unb.fail_null      on failure *out is not set
 *  C07.split_unb.no_leak        on failure the list is freed exactly once, on
 *                               success it is live and is what *out holds
 *  C07.split_unb.free_valid / realloc_valid   allocator preconditions
 *  memory safety (pointer checks) and termination (decreases) of every loop
 */
#include <stdlib.h>
#include <string.h>
#include <ctype.h>
#include "verif.h"
#include "util/parse.h"
#include "w15_loops.h"

#ifndef SPLIT_MAX
#define SPLIT_MAX 4095
#endif
#define SL_CAP ((SPLIT_MAX + 1) / 2)

#ifdef VERIF_REPLAY
struct w15_sl { split_line_t s; char *args[SL_CAP]; };
#else
struct w15_sl { split_line_t s; };
#endif
struct w15_sl g_sl;
char *g_sl_line;     /* ghost: the line */
size_t g_sl_prev;    /* ghost: offset of the previous token + 1 (0: none) */
int g_sl_live;       /* 1 while the token list is allocated */
int g_sl_frees;      /* number of frees */
size_t g_sl_len0;    /* ghost: len on entry */
char g_sep0, g_sep1; /* ghost: the separator characters */

static void *w15_calloc(size_t n, size_t sz)
{
	VERIF_ASSERT(n == 1 && sz == sizeof(split_line_t), "C07.split_unb.calloc_size");
	if (verif_nd_bool("calloc_fails"))
		return NULL;
	g_sl.s.count = 0;
	g_sl_live = 1;
	return &g_sl.s;
}

static void *w15_realloc(void *p, size_t sz)
{
	VERIF_ASSERT(p == (void *)&g_sl.s && g_sl_live == 1, "C07.split_unb.realloc_valid");
	VERIF_ASSERT(sz <= sizeof(split_line_t) + ((g_sl_len0 + 1) / 2) * sizeof(char *),
		     "C07.split_unb.capacity");
#ifdef VERIF_REPLAY
	if (sz > sizeof(g_sl))
		abort();
#endif
	if (verif_nd_bool("realloc_fails"))
		return NULL;
	return p;
}

static void w15_free(void *p)
{
	if (p == NULL)
		return;
	VERIF_ASSERT(p == (void *)&g_sl.s && g_sl_live == 1, "C07.split_unb.free_valid");
	g_sl_live = 0;
	g_sl_frees += 1;
}

/* contract of append_arg (goto-instrument --replace-calls) */
split_line_t *stub_append_arg(split_line_t *in, char *arg)
{
	VERIF_ASSERT(in == &g_sl.s && g_sl_live == 1, "C07.split_unb.realloc_valid");
	VERIF_ASSERT(in->count + 1 <= (g_sl_len0 + 1) / 2, "C07.split_unb.capacity");
	VERIF_ASSERT(VERIF_SAME_OBJECT(arg, g_sl_line) &&
		     VERIF_POINTER_OFFSET(arg) >= VERIF_POINTER_OFFSET(g_sl_line) &&
		     VERIF_POINTER_OFFSET(arg) - VERIF_POINTER_OFFSET(g_sl_line) < g_sl_len0 &&
		     VERIF_POINTER_OFFSET(arg) - VERIF_POINTER_OFFSET(g_sl_line) >= g_sl_prev,
		     "C07.split_unb.args_in_line");
	if (verif_nd_bool("append_fails")) {
		g_sl_live = 0;
		g_sl_frees += 1;
		return NULL;
	}
	g_sl_prev = VERIF_POINTER_OFFSET(arg) - VERIF_POINTER_OFFSET(g_sl_line) + 1;
	in->count += 1;
	return in;
}

#define calloc(n, s) w15_calloc(n, s)
#define realloc(p, s) w15_realloc(p, s)
#define free(p) w15_free(p)
#include "lib/util/src/split_line.c"
#undef calloc
#undef realloc
#undef free

void harness(void)
{
	size_t len = verif_nd_size("len");
	split_line_t *out = NULL;
	bool ws = verif_nd_bool("sep");
	const char *sep = ws ? " \t" : ",";
	char *line;
	int ret;

	g_sl_live = 0;
	g_sl_frees = 0;
	g_sl.s.count = 0;
	g_sep0 = ws ? ' ' : ',';
	g_sep1 = ws ? '\t' : ',';

	VERIF_ASSUME(len <= SPLIT_MAX);
#ifdef SL_FIXED
	/* fixed-size object, the line right-aligned in it: line[len] is the
	 * last byte of the object */
	{
		char *obj = malloc(SPLIT_MAX + 1);
		VERIF_ASSUME(obj != NULL);
		line = obj + (SPLIT_MAX - len);
	}
#else
	line = malloc(len + 1);
	VERIF_ASSUME(line != NULL);
#endif
	g_sl_len0 = len;
	g_sl_line = line;
	g_sl_prev = 0;

	ret = split_line(line, len, sep, &out);

	VERIF_ASSERT(ret == SPLIT_LINE_OK || ret == SPLIT_LINE_ALLOC ||
		     ret == SPLIT_LINE_UNMATCHED_QUOTE ||
		     ret == SPLIT_LINE_ESCAPE, "C07.split_unb.status_domain");

	if (ret == SPLIT_LINE_OK) {
		VERIF_ASSERT(out == &g_sl.s && g_sl_live == 1 && g_sl_frees == 0,
			     "C07.split_unb.no_leak");
		VERIF_ASSERT(out->count <= (len + 1) / 2, "C07.split_unb.count");
		VERIF_COVER(out->count == 0);
		VERIF_COVER(out->count == 1);
		VERIF_COVER(out->count > 2 && len > 8);
	} else {
		VERIF_ASSERT(out == NULL, "C07.split_unb.fail_null");
		VERIF_ASSERT(g_sl_live == 0 && g_sl_frees <= 1, "C07.split_unb.no_leak");
		VERIF_COVER(ret == SPLIT_LINE_ALLOC && g_sl_frees == 0);
		VERIF_COVER(ret == SPLIT_LINE_ALLOC && g_sl_frees == 1);
		VERIF_COVER(ret == SPLIT_LINE_UNMATCHED_QUOTE);
		VERIF_COVER(ret == SPLIT_LINE_ESCAPE);
	}
}
