/* C07: read_number / read_octal / read_binary (lib/tar/src/number.c) on a
 * fully symbolic numeric field of exactly DIGITS bytes (no terminator, the
 * object ends with the field - so any read past the field is a bounds
 * violation). DIGITS in {8, 12} are the only widths in tar_header_t and
 * gnu_old_sparse_t; the driver runs both, the loops are unwound to the field
 * width (+1) with unwinding assertions.
 *
 *  ensures  C07.number.status_domain   returns 0 or -1
 *           C07.number.fail_no_store   on failure *out is left untouched
 *           (memory / arithmetic: CBMC checks, incl. unsigned overflow of
 *           the accumulator shifts being intended wrap-free)
 */
#include <stdio.h>
#include "verif.h"
#include "lib/tar/src/number.c"

#ifndef DIGITS
#define DIGITS 12
#endif

void harness(void)
{
	char field[DIGITS];
	sqfs_u64 out = 0x5a5a5a5a5a5a5a5aULL;
	int ret;

	verif_nd_bytes(field, DIGITS, "field");

	ret = read_number(field, DIGITS, &out);

	VERIF_ASSERT(ret == 0 || ret == -1, "C07.number.status_domain");
	VERIF_ASSERT(ret == 0 || out == 0x5a5a5a5a5a5a5a5aULL,
		     "C07.number.fail_no_store");
	VERIF_COVER(ret == 0 && (field[0] & 0x80) && out != 0);
	VERIF_COVER(ret == 0 && !(field[0] & 0x80) && out > 0xffffULL);
	VERIF_COVER(ret == 0 && field[0] == ' ' && out == 1);
#if DIGITS > 8
	/* an 8-byte field can neither overflow 64 bit in base 256 nor in
	 * octal; a 12-byte base-256 field can */
	VERIF_COVER(ret == -1 && (field[0] & 0x80));
#endif
}
