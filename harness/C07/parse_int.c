/* C07: parse / parse_uint / parse_uint_oct / parse_int
 * (lib/util/src/parse_int.c), unbounded: the digit loop is closed by its loop
 * contract. String object of symbolic size n <= 4096, fully symbolic
 * contents; `len` is either within the object or arbitrary (the callers pass
 * (size_t)-1) with a NUL somewhere in the object.
 *
 *  ensures  C07.parse.status_domain   0 or one of the three error codes
 *           C07.parse.diff_in_string  on success *diff <= len and the byte
 *                                     in[*diff] is still inside the string
 *                                     (callers index line[diff])
 *           C07.parse.range           on success vmin <= *out <= vmax when a
 *                                     range was given
 *           C07.termination           decreases clause
 */
#include <stdlib.h>
#include "verif.h"
size_t g_pi_n, g_pi_L, g_pi_diff;
const char *g_pi_base;
#include "lib/util/src/parse_int.c"

#ifndef PI_MAX
#define PI_MAX 4096
#endif

void harness(void)
{
	size_t n = verif_nd_size("n"), L = verif_nd_size("L");
	size_t len = verif_nd_size("len"), start = verif_nd_size("start");
	size_t *dp;
	uint8_t api = verif_nd_u8("api");
	sqfs_u64 umin = verif_nd_u64("vmin"), umax = verif_nd_u64("vmax");
	sqfs_s64 smin = verif_nd_i64("smin"), smax = verif_nd_i64("smax");
	sqfs_u64 uval = 0;
	sqfs_s64 sval = 0;
	char *p;
	int ret;

	VERIF_ASSUME(n >= 1 && n <= PI_MAX && start < n);
	p = malloc(n);
	VERIF_ASSUME(p != NULL);
	g_pi_base = p;
	g_pi_n = n;
	g_pi_L = L;
	/* precondition of the API: in[0..len) readable, or NUL-terminated */
	VERIF_ASSUME(len <= n - start || (L >= start && L < n && p[L] == 0));
	dp = verif_nd_bool("want_diff") ? &g_pi_diff : NULL;

	if (api == 0) {
		ret = parse_uint(p + start, len, dp, umin, umax, &uval);
	} else if (api == 1) {
		ret = parse_uint_oct(p + start, len, dp, umin, umax, &uval);
	} else {
		ret = parse_int(p + start, len, dp, smin, smax, &sval);
	}

	VERIF_ASSERT(ret == 0 || ret == SQFS_ERROR_CORRUPTED ||
		     ret == SQFS_ERROR_OVERFLOW ||
		     ret == SQFS_ERROR_OUT_OF_BOUNDS,
		     "C07.parse.status_domain");
	if (ret == 0) {
		if (dp != NULL) {
			/* parse_uint_oct stops at '8'/'9' having consumed nothing */
			VERIF_ASSERT((g_pi_diff >= 1 || api == 1) &&
				     g_pi_diff <= len &&
				     start + g_pi_diff <= n &&
				     (len <= n - start ||
				      start + g_pi_diff <= L),
				     "C07.parse.diff_in_string");
		}
		if (api <= 1 && umin < umax)
			VERIF_ASSERT(uval >= umin && uval <= umax,
				     "C07.parse.range");
		if (api > 1 && smin < smax)
			VERIF_ASSERT(sval >= smin && sval <= smax,
				     "C07.parse.range");
		VERIF_COVER(api == 0 && uval > 0xffffffffULL);
		VERIF_COVER(api == 1 && uval == 0777);
		VERIF_COVER(api == 2 && sval < -5);
		VERIF_COVER(dp != NULL && g_pi_diff > 25);
	} else {
		VERIF_COVER(ret == SQFS_ERROR_OVERFLOW);
		VERIF_COVER(ret == SQFS_ERROR_OUT_OF_BOUNDS);
		VERIF_COVER(ret == SQFS_ERROR_CORRUPTED && dp == NULL);
	}
}
