/* C07 (w15): decode_flags (static, bin/gensquashfs/src/sort_by_file.c) - the
 * "[flag,flag,...] <rest>" prefix of a sort-file line - UNBOUNDED: every
 * NUL-terminated line in an object of n <= FLAGS_MAX (4096) bytes, symbolic
 * size and contents, ANY number of flag tokens. Both loops (white-space skip
 * after the list, the loop over the tokens) are closed by the loop contracts
 * of contracts/loops/C07_w15.tbl; nothing is unwound.
 *
 * Callees are their contracts:
 *   strchr(s, ']')   s inside the string; NULL or a pointer to a ']' before
 *                    the terminator
 *   split_line       (proved in split_line_unb / split_line): in place on
 *                    line[0..len], error codes, or a token list of count <=
 *                    (len+1)/2 tokens, each token a NUL-terminated string
 *                    inside line[0..len]. The list is a heap block of exactly
 *                    count pointer slots (reading slot >= count is a
 *                    pointer-check failure); the universally quantified
 *                    postcondition "every args[i] points into line[0..len]" is
 *                    instantiated where the token is used (trim).
 *   trim(tok)        (proved in trim_unb) in place inside the token
 *   strcmp(tok, "literal")   the token just trimmed; any result
 *   strlen / memmove as in trim_unb (a NUL inside the object; bounds-checking
 *                    witness-byte move)
 *
 *  requires  line points to n bytes, line[L] == 0 for a ghost L < n
 *  C07.sort_flags_unb.status_domain  0 or -1
 *  C07.sort_flags_unb.flags_domain   (loop invariant + post) only the four
 *                                    SQFS_BLK_* bits a sort file may set;
 *                                    path_glob implies do_glob
 *  C07.sort_flags_unb.split_pre      split_line gets the bytes between '['
 *                                    and the ']' found, separator ","
 *  C07.sort_flags_unb.token          trim / strcmp get a token of the list
 *  C07.sort_flags_unb.list_freed     the token list is freed exactly once on
 *                                    every path after a successful split
 *  C07.sort_flags_unb.moves_down     success: the rest is moved to the line
 *                                    start from behind the ']' - in place,
 *                                    never grows
 *  C07.sort_flags_unb.untouched      no '[': line untouched, flags 0
 *  memory safety, termination (decreases on both loops)
 */
#include <stdlib.h>
#include <string.h>
#include <ctype.h>
#include "verif.h"
#include "w15_loops.h"
#include "mkfs.h"

#ifndef FLAGS_MAX
#define FLAGS_MAX 4096
#endif

size_t g_fl_L;		/* ghost: index of a NUL byte on entry */
char *g_fl_p;		/* the line object */
static size_t g_fl_n;	/* its size */
size_t g_fl_close;	/* index of the ']' split_line was given (list end) */
split_line_t *g_fl_list;	/* the token list handed out */
size_t g_fl_count;
int g_fl_frees;
char *g_fl_tok;		/* token last trimmed */
int g_fl_mm_calls;
size_t g_fl_mm_src;

static char nd_char(const char *tag)
{
	uint8_t v = verif_nd_u8(tag);

	return v < 128 ? (char)v : (char)((int)v - 256);
}

static size_t w15_strlen(const char *s)
{
	size_t off, k;

	VERIF_ASSERT(VERIF_SAME_OBJECT(s, g_fl_p) &&
		     VERIF_POINTER_OFFSET(s) < g_fl_n, "C07.sort_flags_unb.strlen_pre");
	off = VERIF_POINTER_OFFSET(s);
	k = verif_nd_size("strlen");
	VERIF_ASSUME(off < g_fl_n && k < g_fl_n - off && g_fl_p[off + k] == 0);
	return k;
}

static void *w15_memmove(void *dst, const void *src, size_t n)
{
	size_t w;

	VERIF_ASSERT(VERIF_R_OK(src, n) && VERIF_W_OK(dst, n), "C07.sort_flags_unb.memmove_pre");
	VERIF_ASSERT(dst == (void *)g_fl_p && VERIF_SAME_OBJECT(src, g_fl_p) &&
		     VERIF_POINTER_OFFSET(src) >= g_fl_close + 1 &&
		     VERIF_POINTER_OFFSET(src) <= g_fl_L && n >= 1 &&
		     ((const char *)src)[n - 1] == 0, "C07.sort_flags_unb.moves_down");
	g_fl_mm_calls += 1;
	g_fl_mm_src = VERIF_POINTER_OFFSET(src);
	w = verif_nd_size("memmove.w");
	if (w < n)
		((char *)dst)[w] = ((const char *)src)[w];
	return dst;
}

static char *w15_strchr(const char *s, int c)
{
	size_t off, k;

	VERIF_ASSERT(VERIF_SAME_OBJECT(s, g_fl_p) && VERIF_POINTER_OFFSET(s) <= g_fl_L &&
		     c == ']', "C07.sort_flags_unb.strchr_pre");
	off = VERIF_POINTER_OFFSET(s);
	VERIF_ASSUME(off <= g_fl_L);
	if (verif_nd_bool("strchr.none"))
		return NULL;
	k = verif_nd_size("strchr.k");
	VERIF_ASSUME(k < g_fl_L - off && g_fl_p[off + k] == ']');
	return (char *)s + k;
}

static int w15_strcmp(const char *a, const char *b)
{
	VERIF_ASSERT(a == g_fl_tok && a != NULL && b != NULL && !VERIF_SAME_OBJECT(b, g_fl_p),
		     "C07.sort_flags_unb.token");
	return verif_nd_int("strcmp");
}

static void w15_free(void *p)
{
	VERIF_ASSERT(p == (void *)g_fl_list && p != NULL && g_fl_frees == 0,
		     "C07.sort_flags_unb.list_freed");
	g_fl_frees += 1;
}

#define strlen(s) w15_strlen(s)
#define memmove(d, s, n) w15_memmove(d, s, n)
#define strchr(s, c) w15_strchr(s, c)
#define strcmp(a, b) w15_strcmp(a, b)
#define free(p) w15_free(p)
#include "bin/gensquashfs/src/sort_by_file.c"
#undef strlen
#undef memmove
#undef strchr
#undef strcmp
#undef free

int split_line(char *line, size_t len, const char *sep, split_line_t **out)
{
	size_t off = VERIF_POINTER_OFFSET(line), c, w;

	VERIF_ASSERT(VERIF_SAME_OBJECT(line, g_fl_p) && off == 1 && len < g_fl_L &&
		     off + len < g_fl_L && g_fl_p[off + len] == ']' &&
		     sep[0] == ',' && sep[1] == '\0' && out != NULL,
		     "C07.sort_flags_unb.split_pre");
	VERIF_ASSUME(off == 1 && off + len < g_fl_L);
	g_fl_close = off + len;
	/* in place on line[0..len]: one arbitrary witness byte */
	w = verif_nd_size("split.w");
	if (w <= len)
		line[w] = nd_char("split.v");
	if (verif_nd_bool("split.fail"))
		return verif_nd_bool("split.alloc") ? SPLIT_LINE_ALLOC :
			verif_nd_bool("split.esc") ? SPLIT_LINE_ESCAPE :
			SPLIT_LINE_UNMATCHED_QUOTE;
	c = verif_nd_size("split.count");
	VERIF_ASSUME(c <= len + 1 && 2 * c <= len + 1);
	g_fl_list = malloc(sizeof(split_line_t) + c * sizeof(char *));
	VERIF_ASSUME(g_fl_list != NULL);
	g_fl_list->count = c;
	g_fl_count = c;
	*out = g_fl_list;
	return SPLIT_LINE_OK;
}

void trim(char *buffer)
{
	size_t off, w;

	/* split_line's postcondition, instantiated for the token in use:
	 * it lies inside line[0..len] and is NUL-terminated there */
	VERIF_ASSERT(g_fl_list != NULL && g_fl_frees == 0, "C07.sort_flags_unb.token");
	VERIF_ASSUME(VERIF_SAME_OBJECT(buffer, g_fl_p) &&
		     VERIF_POINTER_OFFSET(buffer) >= 1 &&
		     VERIF_POINTER_OFFSET(buffer) <= g_fl_close);
	off = VERIF_POINTER_OFFSET(buffer);
	g_fl_tok = buffer;
	w = verif_nd_size("trim.w");
	if (w >= off && w <= g_fl_close)
		g_fl_p[w] = nd_char("trim.v");
}

/* reached from the rest of sort_by_file.c only */
int parse_int(const char *in, size_t len, size_t *diff, sqfs_s64 vmin, sqfs_s64 vmax, sqfs_s64 *out) { (void)in; (void)len; (void)diff; (void)vmin; (void)vmax; (void)out; VERIF_ASSERT(0, "C07.sort_flags_unb.unexpected_callee"); return -1; }
int parse_uint(const char *in, size_t len, size_t *diff, sqfs_u64 vmin, sqfs_u64 vmax, sqfs_u64 *out) { (void)in; (void)len; (void)diff; (void)vmin; (void)vmax; (void)out; VERIF_ASSERT(0, "C07.sort_flags_unb.unexpected_callee"); return -1; }
int canonicalize_name(char *filename) { (void)filename; VERIF_ASSERT(0, "C07.sort_flags_unb.unexpected_callee"); return -1; }
int istream_get_line(sqfs_istream_t *strm, char **out, size_t *line_num, int flags) { (void)strm; (void)out; (void)line_num; (void)flags; VERIF_ASSERT(0, "C07.sort_flags_unb.unexpected_callee"); return -1; }
char *fstree_get_path(tree_node_t *node) { (void)node; VERIF_ASSERT(0, "C07.sort_flags_unb.unexpected_callee"); return NULL; }
int fnmatch(const char *pattern, const char *string, int flags) { (void)pattern; (void)string; (void)flags; VERIF_ASSERT(0, "C07.sort_flags_unb.unexpected_callee"); return 1; }

#define FLAG_MASK (SQFS_BLK_DONT_FRAGMENT | SQFS_BLK_DONT_COMPRESS | \
		   SQFS_BLK_DONT_DEDUPLICATE | SQFS_BLK_IGNORE_SPARSE)

void harness(void)
{
	size_t n = verif_nd_size("n");
	bool do_glob = verif_nd_bool("g0"), path_glob = verif_nd_bool("g1");
	int flags = verif_nd_int("flags0"), ret;
	char first;
	char *p;

	g_fl_close = 0; g_fl_list = NULL; g_fl_count = 0; g_fl_frees = 0;
	g_fl_tok = NULL; g_fl_mm_calls = 0; g_fl_mm_src = 0;
	VERIF_ASSUME(n >= 1 && n <= FLAGS_MAX);
	p = malloc(n);
	VERIF_ASSUME(p != NULL);
	g_fl_L = verif_nd_size("L");
	VERIF_ASSUME(g_fl_L < n && p[g_fl_L] == 0);
	g_fl_p = p;
	g_fl_n = n;
	first = p[0];

	ret = decode_flags("sortfile", 3, &do_glob, &path_glob, &flags, p);

	VERIF_ASSERT(ret == 0 || ret == -1, "C07.sort_flags_unb.status_domain");
	VERIF_ASSERT((flags & ~FLAG_MASK) == 0 && (do_glob || !path_glob),
		     "C07.sort_flags_unb.flags_domain");
	VERIF_ASSERT(g_fl_frees == (g_fl_list != NULL ? 1 : 0), "C07.sort_flags_unb.list_freed");
	VERIF_ASSERT(p[g_fl_L] == 0 || (g_fl_mm_calls == 1 && ret == 0), "C07.sort_flags_unb.moves_down");
	if (first != '[')
		VERIF_ASSERT(ret == 0 && flags == 0 && !do_glob && !path_glob &&
			     g_fl_mm_calls == 0 && g_fl_list == NULL, "C07.sort_flags_unb.untouched");
	else
		VERIF_ASSERT((ret == 0) == (g_fl_mm_calls == 1), "C07.sort_flags_unb.moves_down");
	VERIF_COVER(ret == 0 && first != '[');
	VERIF_COVER(ret == 0 && g_fl_count > 3 && flags != 0 && do_glob);
	VERIF_COVER(ret == 0 && g_fl_count == 0 && first == '[');
	VERIF_COVER(ret == -1 && g_fl_list != NULL);
	VERIF_COVER(ret == -1 && g_fl_list == NULL);
}
