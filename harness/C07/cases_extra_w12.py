# worker w12: the `--xattr-file` parser (bin/gensquashfs/src/filemap_xattr.c),
# the xattr application pass (apply_xattr.c) - C07 side: memory safety,
# termination, fail-stop on every line content.
FUNCTIONS = [
    "decode (filemap_xattr.c)", "parse_file_name", "parse_xattr",
]
TRUSTED = [
    "w12: hex_decode / base64_decode contracts as stubs in w12_xattr_decode (discharged by this property's harnesses hex_decode, base64): "
    "they read in[0..in_sz) and write out[0..capacity) only, result length <= capacity and <= 3/4 in_len + 2",
    "w12: canonicalize_name contract in w12_xattr_file_name (C18: 0 / -1, in place, never grows); "
    "sqfs_xattr_create in w12_xattr_kv: NULL or a fresh entry (libsquashfs copies key and value)",
    "w12: decode() is replaced by its contract in w12_xattr_kv (NULL, or a fresh buffer and a length <= the text length; "
    "proved by w12_xattr_decode, its meaning by C01 w12_xattr_value)",
]
ASSUMPTIONS = [
    "w12: xattr_open_map_file's guard-less for(;;) line loop, xattr_close_map_file and the line dispatch (\"# file: \" prefix / first '=' / "
    "comment) have no harness; istream_get_line is this property's get_line harness. The use-after-free that the loop runs into "
    "after a refused `# file:` line is caught one level lower as C07.xattr_file.name_fail_unchanged",
    "w12: w12_xattr_decode runs without --conversion-check: `*d++ = *v++` (char -> sqfs_u8 for bytes >= 0x80) is the intended copy; "
    "observation: an octal escape \\400..\\777 is silently narrowed to its low 8 bits",
    "w12: bounded: w12_xattr_file_name path text <= 3 (quick) / 4 bytes, w12_xattr_kv key <= 2 and value text <= 3 bytes "
    "(both functions are loop-free; the bound only limits the strdup/strlen library loops)",
]

CT = {"__NO_CTYPE": None}
GSRC = ["bin/gensquashfs/src"]

HARNESSES = [
    dict(name="w12_xattr_decode", file="w12_xattr_decode.c", label="proved", defines=CT,
         include_dirs=GSRC, loops=["decode"], loop_tables=["C07_w12"],
         malloc_fail=True, flags=["--memory-leak-check"], timeout=900,
         # `*d++ = *v++` (char -> sqfs_u8 of bytes >= 0x80) is the intended byte copy; `*d++ = c` narrows an
         # octal escape \400..\777 to its low 8 bits - recorded as an observation, not a memory-safety matter
         nochecks=["--conversion-check"],
         cases=[dict(id="max4096", tier="quick")]),
    dict(name="w12_xattr_file_name", file="w12_xattr_parse.c", label="bounded(path text <= 4 bytes)", defines=CT,
         include_dirs=GSRC, malloc_fail=True, flags=["--memory-leak-check"], timeout=600, unwind=16,
         nochecks=["--conversion-check"],
         cases=[dict(id="pre%d_len%d" % (p, n), defines={"PART": 0, "PRE": p, "NLEN": n, "__NO_CTYPE": None},
                     tier="quick") for p, n in ((0, 2), (1, 3))] +
               [dict(id="pre1_len4", defines={"PART": 0, "PRE": 1, "NLEN": 4, "__NO_CTYPE": None}, tier="thorough")]),
    dict(name="w12_xattr_kv", file="w12_xattr_parse.c", label="bounded(key <= 2, value text <= 3 bytes)", defines=CT,
         include_dirs=GSRC, malloc_fail=True, flags=["--memory-leak-check"], timeout=600, unwind=16,
         nochecks=["--conversion-check"], native=False,
         pre_instrument_flags=["--replace-calls", "decode:stub_decode"],
         cases=[dict(id="pre%d" % p, defines={"PART": 1, "PRE": p, "__NO_CTYPE": None}, tier="quick")
                for p in (0, 1)]),
]
