# worker w12: the `--xattr-file` parser (bin/gensquashfs/src/filemap_xattr.c),
# the xattr application pass (apply_xattr.c) - C07 side: memory safety,
# termination, fail-stop on every line content.
FUNCTIONS = [
    "decode (filemap_xattr.c)", "parse_file_name", "parse_xattr",
]
TRUSTED = []
ASSUMPTIONS = []

CT = {"__NO_CTYPE": None}
GSRC = ["bin/gensquashfs/src"]

HARNESSES = [
    dict(name="w12_xattr_decode", file="w12_xattr_decode.c", label="proved", defines=CT,
         include_dirs=GSRC, loops=["decode"], loop_tables=["C07_w12"],
         malloc_fail=True, flags=["--memory-leak-check"], timeout=900,
         # `*d++ = *v++` (char -> sqfs_u8 of bytes >= 0x80) is the intended byte copy; `*d++ = c` narrows an
         # octal escape \400..\777 to its low 8 bits - recorded as an observation, not a memory-safety matter
         nochecks=["--conversion-check"],
         cases=[dict(id="max4096", tier="quick")]),
    dict(name="w12_xattr_file_name", file="w12_xattr_parse.c", label="bounded(path text <= 4 bytes)", defines=CT,
         include_dirs=GSRC, malloc_fail=True, flags=["--memory-leak-check"], timeout=600, unwind=16,
         nochecks=["--conversion-check"],
         cases=[dict(id="pre%d_len%d" % (p, n), defines={"PART": 0, "PRE": p, "NLEN": n, "__NO_CTYPE": None},
                     tier="quick") for p, n in ((0, 2), (1, 3))] +
               [dict(id="pre1_len4", defines={"PART": 0, "PRE": 1, "NLEN": 4, "__NO_CTYPE": None}, tier="thorough")]),
    dict(name="w12_xattr_kv", file="w12_xattr_parse.c", label="bounded(key <= 2, value text <= 3 bytes)", defines=CT,
         include_dirs=GSRC, malloc_fail=True, flags=["--memory-leak-check"], timeout=600, unwind=16,
         nochecks=["--conversion-check"], native=False,
         pre_instrument_flags=["--replace-calls", "decode:stub_decode"],
         cases=[dict(id="pre%d" % p, defines={"PART": 1, "PRE": p, "__NO_CTYPE": None}, tier="quick")
                for p in (0, 1)]),
]
