/* C07: tar_compute_checksum (lib/tar/src/checksum.c) on a fully symbolic
 * 512-byte header; the three loops run over compile-time constant ranges
 * (148 + 8 + 356 bytes) and are unwound completely.
 *
 *  ensures  C07.chksum.in_header   (CBMC bounds/pointer checks: every byte
 *                                  read lies inside *hdr)
 *           C07.chksum.range       result <= 504*255 + 8*32, so the sum
 *                                  cannot wrap and fits the 8-digit field
 */
#include "verif.h"
#include "lib/tar/src/checksum.c"

void harness(void)
{
	tar_header_t hdr;
	unsigned int sum;

	verif_nd_bytes(&hdr, sizeof(hdr), "hdr");

	sum = tar_compute_checksum(&hdr);

	VERIF_ASSERT(sizeof(hdr) == 512, "C07.chksum.range");
	VERIF_ASSERT(sum <= 504u * 255u + 8u * 32u, "C07.chksum.range");
	VERIF_ASSERT(sum >= 8u * 32u, "C07.chksum.range");
	VERIF_COVER(sum == 8u * 32u);
	VERIF_COVER(sum == 504u * 255u + 8u * 32u);
}
