/* C07: it_next (lib/tar/src/iterator.c) - the per-entry driver of the tar
 * reader - against the contracts of read_header, the stream, clear_header,
 * canonicalize_name, fnmatch and sqfs_dir_entry_create (iter_env.h).
 * Bounded: at most ITER_MAXHDR headers are read in one call (unknown
 * records and excluded names make it loop), NEX exclude patterns.
 *
 *  C07.tar.name_canon       the name that reaches fnmatch and
 *                           sqfs_dir_entry_create went through a successful
 *                           canonicalize_name; a failing one makes the
 *                           iterator fail for good (SQFS_ERROR_CORRUPTED)
 *  C07.it_next.header_cleared_first   read_header always gets a cleared
 *                           header (no stale pointer is ever freed twice)
 *  C07.it_next.sticky       a failure is recorded in tar->state and *out is
 *                           NULL; success => *out != NULL and state == 0
 *  C07.it_next.skip         before the next header exactly record_size and
 *                           the padding to 512 are skipped:
 *                           (record_size + padding) % 512 == 0, padding < 512
 *  C07.it_next.fields       mode/size/flags of the entry follow the decoded
 *                           header (hard link => S_IFLNK|0777 + flag)
 */
#include "verif.h"
#include "lib/tar/src/iterator.c"

#ifndef ITER_MAXHDR
#define ITER_MAXHDR 2
#endif
#ifndef NEX
#define NEX 1
#endif
#include "iter_env.h"

void harness(void)
{
	tar_iterator_t tar;
	sqfs_dir_entry_t *ent = (sqfs_dir_entry_t *)&tar;	/* stale */
	char pat0[2] = "x", *pats[1] = { pat0 };
	sqfs_u64 rs0, pad0;
	int ret;

	memset(&tar, 0, sizeof(tar));
	tar.stream = &g_src;
	tar.excludedirs = pats;
	tar.num_excludedirs = NEX;
	tar.locked = verif_nd_bool("locked");
	tar.state = verif_nd_int("state");
	tar.record_size = verif_nd_u64("record_size");
	tar.padding = verif_nd_size("padding");
	/* representation invariant kept by it_next itself (asserted below) */
	VERIF_ASSUME(tar.padding < 512 &&
		     (tar.record_size + tar.padding) % 512 == 0);
	rs0 = tar.record_size;
	pad0 = tar.padding;

	ret = it_next((sqfs_dir_iterator_t *)&tar, &ent);

	if (ret != 0) {
		VERIF_ASSERT(ent == NULL, "C07.it_next.sticky");
		VERIF_ASSERT(tar.locked || tar.state == ret,
			     "C07.it_next.sticky");
		VERIF_COVER(ret == SQFS_ERROR_CORRUPTED && g_rh_calls == 1);
		VERIF_COVER(ret == SQFS_ERROR_SEQUENCE);
		VERIF_COVER(ret == 1);
		VERIF_COVER(ret == SQFS_ERROR_ALLOC);
	} else {
		VERIF_ASSERT(ent != NULL && tar.state == 0 && !tar.locked,
			     "C07.it_next.sticky");
		VERIF_ASSERT(g_canon_ok && g_canon_arg == tar.current.name,
			     "C07.tar.name_canon");
		VERIF_ASSERT(tar.padding < 512 &&
			     (tar.record_size + tar.padding) % 512 == 0 &&
			     tar.record_size == tar.current.record_size,
			     "C07.it_next.skip");
		/* the first skips are the rest of the previous record, then
		 * its padding */
		if (rs0 > 0)
			VERIF_ASSERT(g_skip_calls >= 1 && g_skip_sz[0] == rs0,
				     "C07.it_next.skip");
		if (pad0 > 0)
			VERIF_ASSERT(g_skip_calls >= (rs0 > 0 ? 2 : 1) &&
				     g_skip_sz[rs0 > 0 ? 1 : 0] == pad0,
				     "C07.it_next.skip");
		if (tar.current.is_hard_link) {
			VERIF_ASSERT(ent->mode == (S_IFLNK | 0777) &&
				     (ent->flags &
				      SQFS_DIR_ENTRY_FLAG_HARD_LINK),
				     "C07.it_next.fields");
		} else {
			VERIF_ASSERT(ent->mode == tar.current.mode &&
				     ent->flags == 0, "C07.it_next.fields");
		}
		VERIF_ASSERT(!S_ISREG(ent->mode) ||
			     ent->size == tar.current.actual_size,
			     "C07.it_next.fields");
		VERIF_ASSERT(ent->uid == tar.current.uid &&
			     ent->gid == tar.current.gid &&
			     ent->mtime == tar.current.mtime &&
			     ent->rdev == tar.current.devno,
			     "C07.it_next.fields");
		VERIF_COVER(g_rh_calls == ITER_MAXHDR);
		VERIF_COVER(g_rh_calls == 1 && tar.current.is_hard_link);
		free(ent);
	}
	free(tar.current.name);
}
