/* C07: read_gnu_old_sparse / parse (lib/tar/src/read_sparse_map_old.c) on a
 * fully symbolic header and fully symbolic extension records. parse's loop
 * runs over 4 / 21 table slots (constants of the format, unwound
 * completely); the chain of extension records is BOUNDED to EXT records
 * (the path ends by assumption in the stream contract after that).
 * read_number is its contract (harness number), every allocation may fail.
 *
 *  C07.read_number.pre       every slot is parsed with width 12 inside the
 *                            header / the extension record
 *  C07.old_sparse.list       result NULL, or a NULL-terminated list of
 *                            1..4+21*EXT fresh nodes
 *  C07.old_sparse.fail_stop  a stream error or a short extension record
 *                            yields NULL, and every node is freed (leak
 *                            check)
 */
#include "verif.h"
#include "lib/tar/src/read_sparse_map_old.c"

#ifndef EXT
#define EXT 1
#endif
#define ENV_MAX_READS EXT
#define ENV_LIST_MAX (4 + 21 * EXT)
#include "tar_env.h"

void harness(void)
{
	tar_header_t hdr;
	sparse_map_t *list, *it;
	unsigned int n = 0;

	g_strm.get_filename = env_get_filename;
	verif_nd_bytes(&hdr, sizeof(hdr), "hdr");

	list = read_gnu_old_sparse(&g_strm, &hdr);

	if (list != NULL) {
		for (it = list; it != NULL && n <= ENV_LIST_MAX; it = it->next)
			++n;
		VERIF_ASSERT(it == NULL && n >= 1 && n <= ENV_LIST_MAX,
			     "C07.old_sparse.list");
		VERIF_ASSERT(!g_stream_failed, "C07.old_sparse.fail_stop");
		VERIF_COVER(n == 4 && g_full_reads == 0);
		VERIF_COVER(n == 2);
		VERIF_COVER(n == ENV_LIST_MAX);
		free_sparse_list(list);
	} else {
		VERIF_COVER(g_stream_failed);
		VERIF_COVER(!g_stream_failed && g_full_reads == 0);
	}
}
