/* C07: decode_header, check_version, is_checksum_valid
 * (lib/tar/src/read_header.c) on a fully symbolic 512-byte header, any
 * set_by_pax mask, any version tag, every allocation may fail.
 * read_number / tar_compute_checksum are replaced by their contracts
 * (proved in harnesses `number` and `checksum`).
 *
 *  requires  *out as read_header leaves it: name / link_target are heap
 *            strings when the corresponding PAX bit is set, else NULL
 *  ensures   C07.decode.status_domain    0 or -1
 *            C07.decode.name_terminated  on success name is a NUL-terminated
 *                                        heap string of at most 256 bytes
 *                                        (100 + '/' + 155) unless PAX set it
 *            C07.decode.link_terminated  same for link/symlink targets
 *                                        (<= 100 bytes)
 *            C07.decode.mode_domain      mode is a permission set plus at
 *                                        most one known file type
 *            C07.version.domain          check_version returns a known tag
 *            C07.read_number.pre         every numeric field is parsed with
 *                                        its own width, inside the header
 *            (CBMC checks: every memcpy/strnlen stays inside the header
 *            fields and inside the allocation)
 */
#include "verif.h"
#include "lib/tar/src/read_header.c"
#define ENV_MEMCPY_STUB
#include "tar_env.h"

/* not reached from the functions under test; named so that a change that
 * makes them reachable shows up */
char *record_to_memory(sqfs_istream_t *fp, size_t size)
{
	(void)fp; (void)size;
	VERIF_ASSERT(0, "C07.decode.unexpected_callee");
	return NULL;
}
int read_pax_header(sqfs_istream_t *fp, sqfs_u64 entsize,
		    unsigned int *set_by_pax, tar_header_decoded_t *out)
{
	(void)fp; (void)entsize; (void)set_by_pax; (void)out;
	VERIF_ASSERT(0, "C07.decode.unexpected_callee");
	return -1;
}
sparse_map_t *read_gnu_old_sparse(sqfs_istream_t *fp, tar_header_t *hdr)
{
	(void)fp; (void)hdr;
	VERIF_ASSERT(0, "C07.decode.unexpected_callee");
	return NULL;
}
sparse_map_t *read_gnu_new_sparse(sqfs_istream_t *fp,
				  tar_header_decoded_t *out)
{
	(void)fp; (void)out;
	VERIF_ASSERT(0, "C07.decode.unexpected_callee");
	return NULL;
}
void clear_header(tar_header_decoded_t *hdr)
{
	(void)hdr;
	VERIF_ASSERT(0, "C07.decode.unexpected_callee");
}

static char *some_string(void)
{
	char *p = malloc(4);

	VERIF_ASSUME(p != NULL);
	verif_nd_bytes(p, 3, "str");
	p[3] = '\0';
	return p;
}

void harness(void)
{
	tar_header_decoded_t out;
	unsigned int set_by_pax;
	tar_header_t hdr;
	int version, ret, v2;
	bool cv;

	verif_nd_bytes(&hdr, sizeof(hdr), "hdr");
	set_by_pax = verif_nd_u32("set_by_pax");
	version = verif_nd_int("version");

	memset(&out, 0, sizeof(out));
	out.uid = verif_nd_u64("uid");
	out.gid = verif_nd_u64("gid");
	out.devno = verif_nd_u64("devno");
	out.mtime = verif_nd_i64("mtime");
	out.record_size = verif_nd_u64("record_size");
	out.is_hard_link = false;
	if (set_by_pax & PAX_NAME)
		out.name = some_string();
	if (set_by_pax & PAX_SLINK_TARGET)
		out.link_target = some_string();

	/* the two small validators first: both are pure */
	v2 = check_version(&hdr);
	VERIF_ASSERT(v2 == ETV_UNKNOWN || v2 == ETV_V7_UNIX ||
		     v2 == ETV_PRE_POSIX || v2 == ETV_POSIX,
		     "C07.version.domain");
	VERIF_COVER(v2 == ETV_V7_UNIX);
	VERIF_COVER(v2 == ETV_PRE_POSIX);
	VERIF_COVER(v2 == ETV_POSIX);
	cv = is_checksum_valid(&hdr);
	VERIF_COVER(cv);
	VERIF_COVER(!cv);

	ret = decode_header(&hdr, set_by_pax, &out, version);

	VERIF_ASSERT(ret == 0 || ret == -1, "C07.decode.status_domain");
	if (ret == 0) {
		unsigned int fmt = out.mode & S_IFMT;

		VERIF_ASSERT(out.name != NULL, "C07.decode.name_terminated");
		if (!(set_by_pax & PAX_NAME)) {
			VERIF_ASSERT(strnlen(out.name, 257) <= 256,
				     "C07.decode.name_terminated");
		}
		if (hdr.typeflag == TAR_TYPE_LINK ||
		    hdr.typeflag == TAR_TYPE_SLINK) {
			VERIF_ASSERT(out.link_target != NULL,
				     "C07.decode.link_terminated");
			if (!(set_by_pax & PAX_SLINK_TARGET)) {
				VERIF_ASSERT(strnlen(out.link_target, 101)
					     <= 100,
					     "C07.decode.link_terminated");
			}
		}
		VERIF_ASSERT(fmt == 0 || fmt == S_IFREG || fmt == S_IFLNK ||
			     fmt == S_IFCHR || fmt == S_IFBLK ||
			     fmt == S_IFDIR || fmt == S_IFIFO,
			     "C07.decode.mode_domain");
		VERIF_ASSERT(fmt != 0 || out.unknown_record ||
			     out.is_hard_link, "C07.decode.mode_domain");
		VERIF_COVER(!(set_by_pax & PAX_NAME) &&
			    version == ETV_POSIX &&
			    hdr.tail.posix.prefix[0] != '\0' &&
			    hdr.name[99] != '\0' &&
			    hdr.tail.posix.prefix[154] != '\0');
		VERIF_COVER(!(set_by_pax & PAX_NAME) && out.name[0] == '\0');
		VERIF_COVER(out.unknown_record);
		VERIF_COVER(hdr.typeflag == TAR_TYPE_SLINK &&
			    !(set_by_pax & PAX_SLINK_TARGET) &&
			    hdr.linkname[99] != '\0');
		VERIF_COVER(out.mtime < 0 && !(set_by_pax & PAX_MTIME));
	} else {
		VERIF_COVER(out.name == NULL);
		VERIF_COVER(out.name != NULL);
	}
}
