/* C07: pax_sparse_map (lib/tar/src/pax_header.c), reached the way the tool
 * reaches it - apply_handler on the "GNU.sparse.map" row - on a value of
 * LLEN fully symbolic bytes followed by the NUL read_pax_header wrote.
 * parse_uint is its contract (harness parse_int): consumes 1..strlen bytes
 * of the string it is given or fails. Every allocation may fail.
 *
 *  C07.pax.map_cursor   every string handed to parse_uint starts inside
 *                       value[0..LLEN] (so `line` never passes the NUL)
 *  C07.pax.map_list     success => out->sparse is a NULL-terminated list of
 *                       1..LLEN/2+1 fresh nodes; failure => every node
 *                       allocated so far is freed (leak check) and
 *                       out->sparse is NULL, the old list is freed either way
 *  C07.pax.apply_domain 0 or -1
 */
#include <stdlib.h>
#include <string.h>
#include "verif.h"
#include "lib/tar/src/pax_header.c"

#ifndef LLEN
#define LLEN 6
#endif
#define MAXNODES (LLEN / 2 + 2)

static char g_val[LLEN + 1];

int parse_uint(const char *in, size_t len, size_t *diff,
	       sqfs_u64 vmin, sqfs_u64 vmax, sqfs_u64 *out)
{
	size_t off, slen = 0, d, i;

	VERIF_ASSERT(VERIF_SAME_OBJECT(in, g_val) &&
		     VERIF_POINTER_OFFSET(in) <= LLEN, "C07.pax.map_cursor");
	VERIF_ASSERT(len == (size_t)-1 && diff != NULL && vmin == 0 &&
		     vmax == 0, "C07.pax.apply_args");
	off = VERIF_POINTER_OFFSET(in);
	VERIF_ASSUME(off <= LLEN);
	for (i = 0; i <= LLEN; ++i) {
		if (i >= off && g_val[i] == '\0')
			break;
		if (i >= off)
			++slen;
	}
	*diff = 0;
	*out = 0;
	if (slen == 0 || verif_nd_bool("parse.fail"))
		return SQFS_ERROR_CORRUPTED;
	d = verif_nd_size("parse.diff");
	VERIF_ASSUME(d >= 1 && d <= slen);
	*diff = d;
	*out = verif_nd_u64("parse.value");
	return 0;
}

void free_sparse_list(sparse_map_t *sparse)
{
	unsigned int guard = 0;

	while (sparse != NULL) {
		sparse_map_t *old = sparse;

		VERIF_ASSERT(guard < MAXNODES, "C07.pax.map_list");
		VERIF_ASSUME(guard < MAXNODES);
		++guard;
		sparse = sparse->next;
		free(old);
	}
}

int parse_int(const char *in, size_t len, size_t *diff,
	      sqfs_s64 vmin, sqfs_s64 vmax, sqfs_s64 *out)
{
	(void)in; (void)len; (void)diff; (void)vmin; (void)vmax; (void)out;
	VERIF_ASSERT(0, "C07.pax.unexpected_callee");
	return -1;
}
sqfs_xattr_t *sqfs_xattr_create(const char *key, const sqfs_u8 *value,
				size_t value_len)
{
	(void)key; (void)value; (void)value_len;
	VERIF_ASSERT(0, "C07.pax.unexpected_callee");
	return NULL;
}
int base64_decode(const char *in, size_t in_len, sqfs_u8 *out,
		  size_t *out_len)
{
	(void)in; (void)in_len; (void)out; (void)out_len;
	VERIF_ASSERT(0, "C07.pax.unexpected_callee");
	return -1;
}
int hex_decode(const char *in, size_t in_sz, sqfs_u8 *out, size_t out_sz)
{
	(void)in; (void)in_sz; (void)out; (void)out_sz;
	VERIF_ASSERT(0, "C07.pax.unexpected_callee");
	return -1;
}
char *record_to_memory(sqfs_istream_t *fp, size_t size)
{
	(void)fp; (void)size;
	VERIF_ASSERT(0, "C07.pax.unexpected_callee");
	return NULL;
}

void harness(void)
{
	tar_header_decoded_t out;
	sparse_map_t *it;
	unsigned int n = 0;
	int ret;

	verif_nd_bytes(g_val, LLEN, "value");
	g_val[LLEN] = '\0';
	memset(&out, 0, sizeof(out));
	if (verif_nd_bool("old_list")) {
		out.sparse = calloc(1, sizeof(*out.sparse));
		VERIF_ASSUME(out.sparse != NULL);
	}

	ret = apply_handler(&out, pax_fields + 13, "GNU.sparse.map", g_val,
			    LLEN);

	VERIF_ASSERT(pax_fields[13].type == PAX_TYPE_CONST_STRING,
		     "C07.pax.find_row");
	VERIF_ASSERT(ret == 0 || ret == -1, "C07.pax.apply_domain");
	if (ret == 0) {
		for (it = out.sparse; it != NULL && n < MAXNODES; it = it->next)
			++n;
		VERIF_ASSERT(it == NULL && n >= 1 && n <= LLEN / 2 + 1,
			     "C07.pax.map_list");
		VERIF_COVER(n == (LLEN + 1) / 4);
		VERIF_COVER(n == 1);
	} else {
		VERIF_ASSERT(out.sparse == NULL, "C07.pax.map_list");
	}
	VERIF_COVER(ret == -1);
	free_sparse_list(out.sparse);
}
