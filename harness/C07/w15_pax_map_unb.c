/* C07 (w15): pax_sparse_map (static, lib/tar/src/pax_header.c) - the
 * "GNU.sparse.map" value parser "off,count[,off,count]..." - UNBOUNDED: every
 * NUL-terminated value string in an object of n <= MAP_MAX (4096) bytes,
 * symbolic size and contents, any number of pairs. The do-while loop is
 * closed by the loop contract of contracts/loops/C07_w15.tbl.
 *
 * parse_uint is its contract (proved unbounded in harness parse_int): called
 * with len == -1 it requires a NUL-terminated string, and on success has
 * consumed 1 <= diff digits - non-NUL bytes, so in + diff is at most the
 * position of the terminator. The list is abstracted by ONE summary node
 * g_map_node (calloc returns NULL or that node); the parser never reads a
 * node field. List shape / leak freedom: bounded harness pax_sparse_map.
 *
 * Case `via_apply` (-DVIA_APPLY) reaches the parser through the dispatcher:
 * apply_handler(out, row 13 "GNU.sparse.map", key, value, valuelen) - so
 * the dispatch of that row is covered for every value length as well.
 *
 *  requires  line points at offset o of an n-byte object, obj[L] == 0 for a
 *            ghost L with o <= L < n
 *  C07.pax_map_unb.cursor         (loop invariant) line stays inside
 *                                 [obj, obj + L]: every parse_uint call and
 *                                 every separator test reads inside the string
 *  C07.pax_map_unb.parse_pre      parse_uint(line, -1, &diff, 0, 0, &field of
 *                                 the node) with line inside the string
 *  C07.pax_map_unb.status_domain  0 or -1
 *  C07.pax_map_unb.result         0: out->sparse is the new list; -1: the
 *                                 old list is gone, out->sparse == NULL and
 *                                 the partial list was handed to
 *                                 free_sparse_list / free
 *  memory safety, termination (decreases: distance to the terminator)
 */
#include <stdlib.h>
#include <string.h>
#include <ctype.h>
#include "verif.h"
#include "w15_loops.h"
#include "tar/tar.h"
#include "tar/format.h"

#ifndef MAP_MAX
#define MAP_MAX 4096
#endif

const char *g_map_base;	/* the object holding the value string */
size_t g_map_L;		/* ghost: index of a NUL byte */
sparse_map_t g_map_node;	/* summary node */
sparse_map_t g_map_old;	/* the list the header held before */
int g_map_old_freed, g_map_list_freed, g_map_ent_freed;

static void *w15_calloc(size_t n, size_t sz)
{
	VERIF_ASSERT(n == 1 && sz == sizeof(sparse_map_t), "C07.pax_map_unb.calloc_size");
	if (verif_nd_bool("calloc.fail"))
		return NULL;
	g_map_node.next = NULL;
	g_map_node.offset = 0;
	g_map_node.count = 0;
	return &g_map_node;
}

static void w15_free(void *p)
{
	VERIF_ASSERT(p == NULL || p == (void *)&g_map_node, "C07.pax_map_unb.free_valid");
	if (p != NULL)
		g_map_ent_freed += 1;
}

#define calloc(n, s) w15_calloc(n, s)
#define free(p) w15_free(p)
#include "lib/tar/src/pax_header.c"
#undef calloc
#undef free

int parse_uint(const char *in, size_t len, size_t *diff,
	       sqfs_u64 vmin, sqfs_u64 vmax, sqfs_u64 *out)
{
	size_t off, d;

	VERIF_ASSERT(VERIF_SAME_OBJECT(in, g_map_base) &&
		     VERIF_POINTER_OFFSET(in) <= g_map_L, "C07.pax_map_unb.cursor");
	VERIF_ASSERT(len == (size_t)-1 && diff != NULL && vmin == 0 && vmax == 0 &&
		     (out == &g_map_node.offset || out == &g_map_node.count),
		     "C07.pax_map_unb.parse_pre");
	off = VERIF_POINTER_OFFSET(in);
	VERIF_ASSUME(off <= g_map_L);
	*diff = 0;
	if (verif_nd_bool("parse.fail"))
		return verif_nd_bool("parse.ov") ? SQFS_ERROR_OVERFLOW :
			SQFS_ERROR_CORRUPTED;
	d = verif_nd_size("parse.diff");
	/* 1 <= d digits were consumed; digits are not NUL */
	VERIF_ASSUME(d >= 1 && d <= g_map_L - off);
	*diff = d;
	*out = verif_nd_u64("parse.value");
	return 0;
}

void free_sparse_list(sparse_map_t *sparse)
{
	if (sparse == &g_map_old)
		g_map_old_freed += 1;
	else if (sparse == &g_map_node)
		g_map_list_freed += 1;
	else
		VERIF_ASSERT(sparse == NULL, "C07.pax_map_unb.free_list_pre");
}

/* other callees of pax_header.c: not reachable from pax_sparse_map */
char *record_to_memory(sqfs_istream_t *fp, size_t size) { (void)fp; (void)size; VERIF_ASSERT(0, "C07.pax_map_unb.unexpected_callee"); return NULL; }
int parse_int(const char *in, size_t len, size_t *diff, sqfs_s64 vmin, sqfs_s64 vmax, sqfs_s64 *out) { (void)in; (void)len; (void)diff; (void)vmin; (void)vmax; (void)out; VERIF_ASSERT(0, "C07.pax_map_unb.unexpected_callee"); return -1; }
sqfs_xattr_t *sqfs_xattr_create(const char *key, const sqfs_u8 *value, size_t value_len) { (void)key; (void)value; (void)value_len; VERIF_ASSERT(0, "C07.pax_map_unb.unexpected_callee"); return NULL; }
int base64_decode(const char *in, size_t in_len, sqfs_u8 *out, size_t *out_len) { (void)in; (void)in_len; (void)out; (void)out_len; VERIF_ASSERT(0, "C07.pax_map_unb.unexpected_callee"); return -1; }
int hex_decode(const char *in, size_t in_sz, sqfs_u8 *out, size_t out_sz) { (void)in; (void)in_sz; (void)out; (void)out_sz; VERIF_ASSERT(0, "C07.pax_map_unb.unexpected_callee"); return -1; }

void harness(void)
{
	tar_header_decoded_t out;
	size_t n = verif_nd_size("n"), o = verif_nd_size("o");
	bool had_list = verif_nd_bool("had_list");
	char *p;
	int ret;

	memset(&out, 0, sizeof(out));
	g_map_old_freed = 0; g_map_list_freed = 0; g_map_ent_freed = 0;
	g_map_node.next = NULL;
	g_map_old.next = NULL;
	out.sparse = had_list ? &g_map_old : NULL;

	VERIF_ASSUME(n >= 1 && n <= MAP_MAX);
	p = malloc(n);
	VERIF_ASSUME(p != NULL);
	g_map_L = verif_nd_size("L");
	VERIF_ASSUME(o <= g_map_L && g_map_L < n && p[g_map_L] == 0);
	g_map_base = p;

#ifdef VIA_APPLY
	/* through the dispatcher: row 13 "GNU.sparse.map" (CONST_STRING) hands
	 * the value to cb.cstr == pax_sparse_map */
	VERIF_ASSERT(pax_fields[13].type == PAX_TYPE_CONST_STRING &&
		     pax_fields[13].cb.cstr == pax_sparse_map, "C07.pax_map_unb.row13");
	ret = apply_handler(&out, pax_fields + 13, "GNU.sparse.map", p + o, g_map_L - o);
#else
	ret = pax_sparse_map(&out, p + o);
#endif

	VERIF_ASSERT(ret == 0 || ret == -1, "C07.pax_map_unb.status_domain");
	VERIF_ASSERT(g_map_old_freed == (had_list ? 1 : 0), "C07.pax_map_unb.result");
	if (ret == 0) {
		VERIF_ASSERT(out.sparse == &g_map_node && g_map_list_freed == 0 &&
			     g_map_ent_freed == 0, "C07.pax_map_unb.result");
	} else {
		VERIF_ASSERT(out.sparse == NULL, "C07.pax_map_unb.result");
	}
	VERIF_COVER(ret == 0);
	VERIF_COVER(ret == 0 && g_map_L - o > 12);
	VERIF_COVER(ret == -1 && g_map_list_freed == 1);
	VERIF_COVER(ret == -1 && g_map_ent_freed == 0);
}
