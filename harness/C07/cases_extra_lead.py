# C07 also names the stream decompressor adapters (lib/xfrm/src/{gzip,xz,zstd,
# bzip2}.c) and the xfrm input stream: "corrupted compressed streams never
# cause ... an endless loop". Their harnesses live under harness/C15 (same
# functions, obligations C15.adapter.* / C15.in.*); they are run here as well
# so that C07's own check decides that clause. Obligation names keep the C15
# prefix.
import importlib.util as _u, os as _os, copy as _copy

_p = _os.path.join(_os.path.dirname(_os.path.abspath(__file__)), "..", "C15", "cases.py")
_s = _u.spec_from_file_location("cases_C15_for_C07", _p)
_m = _u.module_from_spec(_s)
_s.loader.exec_module(_m)

HARNESSES = []
for _h in _m.HARNESSES:
    if _h["name"].startswith("adapter_") or _h["name"] in ("in_precache", "in_get"):
        _c = _copy.deepcopy(_h)
        _c["file"] = "../C15/" + _h["file"]
        _c["name"] = "xfrm_" + _h["name"]
        _c.setdefault("loop_tables", []).append("C15") if isinstance(_c.get("loop_tables", []), list) else None
        HARNESSES.append(_c)

FUNCTIONS = ["process_data (xfrm gzip/xz/zstd/bzip2 adapters, via harness/C15)",
             "xfrm istream precache / xfrm_get_buffered_data (via harness/C15)"]
TRUSTED = ["codec library contracts of harness/C15/c15_env.h (zlib, liblzma, libzstd, libbz2: documented interface only)"]
ASSUMPTIONS = []

# mixed sparse dialects in one PAX header (lead, round 4; found by a seeding
# sub-agent on the unchanged tree: dangling sparse_last after GNU.sparse.map)
HARNESSES.append(dict(name="pax_sparse_mix", file="pax_sparse_mix.c",
                      label="bounded(4 concrete record sequences of <= 5 lines)",
                      timeout=2400, unwind=28, solver="cadical",
                      flags=["--memory-leak-check", "--no-malloc-may-fail"], defines={"__NO_CTYPE": None},
                      nochecks=["--conversion-check"],
                      cases=[dict(id="seq%d" % i, defines={"CASE": i, "__NO_CTYPE": None}, tier="quick")
                             for i in range(4)]))
FUNCTIONS.append("read_pax_header with the real sparse handlers (mixed 0.0 / 0.1 records)")
