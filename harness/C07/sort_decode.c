/* C07: decode_priority, decode_filename, decode_flags
 * (bin/gensquashfs/src/sort_by_file.c) - the sort-file line parser - on
 * every line of LEN bytes (fully symbolic, NUL-terminated at [LEN] as
 * istream_get_line delivers it, sentinel behind it). PART selects the
 * function. parse_int, canonicalize_name and split_line (harness split_line)
 * are their contracts - chaining the real split_line into decode_flags does
 * not finish -; trim is the real one (lib/util/src/get_line.c).
 *
 *  C07.sort.status_domain   0 or -1
 *  C07.sort.in_place        the line is still NUL-terminated inside its
 *                           LEN+1 bytes, the sentinel behind it is untouched
 *                           (all edits are in place and never grow)
 *  C07.sort.priority_rest   decode_priority success: what is left is a
 *                           non-empty suffix of the input without leading
 *                           white space
 *  C07.sort.flags_domain    decode_flags: only the four SQFS_BLK_* bits a
 *                           sort file may set
 *  C07.sort.flag_bit        (cases kw0..kw5: the concrete line
 *                           "[<keyword>] f") exactly that keyword's bit /
 *                           glob mode is set and the line becomes "f"
 */
#include "verif.h"
#include "bin/gensquashfs/src/sort_by_file.c"
#include "lib/util/src/get_line.c"

#ifndef LEN
#define LEN 4
#endif
#ifndef PART
#define PART 0
#endif

#ifdef KW
/* decode_flags on the concrete line "[<keyword KW>] f" */
#if KW == 0
#define KWSTR "glob_no_path"
#elif KW == 1
#define KWSTR "glob"
#elif KW == 2
#define KWSTR "dont_fragment"
#elif KW == 3
#define KWSTR "dont_compress"
#elif KW == 4
#define KWSTR "dont_deduplicate"
#else
#define KWSTR "nosparse"
#endif
#define LINE_INIT "[" KWSTR "] f"
#undef LEN
#define LEN (sizeof(LINE_INIT) - 1)
#endif
static char g_line[LEN + 2];
static size_t g_kwlen;

int parse_int(const char *in, size_t len, size_t *diff,
	      sqfs_s64 vmin, sqfs_s64 vmax, sqfs_s64 *out)
{
	size_t d;

	VERIF_ASSERT(in == g_line && len == strlen(g_line) && diff != NULL &&
		     vmin == 0 && vmax == 0, "C07.sort.parse_pre");
	*diff = 0;
	if (verif_nd_bool("parse.fail"))
		return verif_nd_bool("parse.ov") ? SQFS_ERROR_OVERFLOW :
			SQFS_ERROR_CORRUPTED;
	d = verif_nd_size("parse.diff");
	VERIF_ASSUME(d >= 1 && d <= len);
	*diff = d;
	*out = verif_nd_i64("parse.value");
	return 0;
}

int canonicalize_name(char *filename)
{
	VERIF_ASSERT(filename == g_line, "C07.sort.canon_pre");
	if (verif_nd_bool("canon.fail"))
		return -1;
	if (verif_nd_bool("canon.shrink"))
		filename[0] = '\0';
	return 0;
}

/* contract of split_line (harness split_line): in place, touches at most
 * line[0..len], tokens are NUL-terminated inside line[0..len]; here at most
 * two tokens */
typedef struct {
	split_line_t s;
	char *slots[2];
} split_box_t;

int split_line(char *line, size_t len, const char *sep, split_line_t **out)
{
	size_t off = VERIF_POINTER_OFFSET(line), o, e, c, i;
	split_box_t *b;

	VERIF_ASSERT(VERIF_SAME_OBJECT(line, g_line) && off + len <= LEN &&
		     sep[0] == ',' && sep[1] == '\0', "C07.sort.split_pre");
	VERIF_ASSUME(off + len <= LEN);
#ifdef KW
	/* the line is concrete: exactly what split_line yields for it - the
	 * one token between '[' and ']', terminated over the ']' */
	VERIF_ASSERT(off == 1 && len == g_kwlen, "C07.sort.split_pre");
	b = malloc(sizeof(*b));
	if (b == NULL)
		return SPLIT_LINE_ALLOC;
	b->s.count = 1;
	b->s.args[0] = line;
	line[len] = '\0';
	*out = &b->s;
	return SPLIT_LINE_OK;
#endif
	if (verif_nd_bool("split.fail"))
		return verif_nd_bool("split.esc") ? SPLIT_LINE_ESCAPE :
			SPLIT_LINE_UNMATCHED_QUOTE;
	b = malloc(sizeof(*b));
	if (b == NULL)
		return SPLIT_LINE_ALLOC;
	c = verif_nd_size("split.count");
	VERIF_ASSUME(c <= 2 && 2 * c <= len + 1);
	b->s.count = c;
	o = 0;
	for (i = 0; i < 2 && i < c; ++i) {
		o = o + verif_nd_size("split.tok");
		VERIF_ASSUME(o <= len);
		e = verif_nd_size("split.end");
		VERIF_ASSUME(e >= o && e <= len);
		line[e] = '\0';
		b->s.args[i] = line + o;
		o = e;
	}
	*out = &b->s;
	return SPLIT_LINE_OK;
}

/* reached from the rest of sort_by_file.c only */
int parse_uint(const char *in, size_t len, size_t *diff,
	       sqfs_u64 vmin, sqfs_u64 vmax, sqfs_u64 *out)
{
	(void)in; (void)len; (void)diff; (void)vmin; (void)vmax; (void)out;
	VERIF_ASSERT(0, "C07.sort.unexpected_callee");
	return -1;
}

void harness(void)
{
	sqfs_s64 prio = 0;
	bool do_glob, path_glob, nul = false;
	int flags = 0, ret;
	size_t i;

#ifdef KW
	for (i = 0; i <= LEN; ++i)
		g_line[i] = LINE_INIT[i];
	g_kwlen = sizeof(KWSTR) - 1;
#else
	verif_nd_bytes(g_line, LEN, "line");
	g_line[LEN] = '\0';
#endif
	g_line[LEN + 1] = 0x5a;

#if PART == 0
	ret = decode_priority("sortfile", 3, g_line, &prio);
	if (ret == 0) {
		VERIF_ASSERT(g_line[0] != '\0' && !isspace(g_line[0]),
			     "C07.sort.priority_rest");
	}
#elif PART == 1
	ret = decode_filename("sortfile", 3, g_line);
#else
	ret = decode_flags("sortfile", 3, &do_glob, &path_glob, &flags,
			   g_line);
	VERIF_ASSERT((flags & ~(SQFS_BLK_DONT_FRAGMENT |
				SQFS_BLK_DONT_COMPRESS |
				SQFS_BLK_DONT_DEDUPLICATE |
				SQFS_BLK_IGNORE_SPARSE)) == 0,
		     "C07.sort.flags_domain");
	VERIF_ASSERT(do_glob || !path_glob, "C07.sort.flags_domain");
#ifdef KW
	if (ret == 0) {
		int want = KW == 2 ? SQFS_BLK_DONT_FRAGMENT :
			KW == 3 ? SQFS_BLK_DONT_COMPRESS :
			KW == 4 ? SQFS_BLK_DONT_DEDUPLICATE :
			KW == 5 ? SQFS_BLK_IGNORE_SPARSE : 0;

		VERIF_ASSERT(flags == want && do_glob == (KW <= 1) &&
			     path_glob == (KW == 1), "C07.sort.flag_bit");
		VERIF_ASSERT(g_line[0] == 'f' && g_line[1] == '\0',
			     "C07.sort.flag_bit");
	}
#endif
#endif
	VERIF_ASSERT(ret == 0 || ret == -1, "C07.sort.status_domain");
	for (i = 0; i <= LEN; ++i) {
		if (g_line[i] == '\0')
			nul = true;
	}
	VERIF_ASSERT(nul && g_line[LEN + 1] == 0x5a, "C07.sort.in_place");
	VERIF_COVER(ret == 0);
	VERIF_COVER(ret == -1);
#if PART == 2
#ifndef KW
#if LEN >= 4
	VERIF_COVER(ret == 0 && g_line[0] != '[' && g_line[1] == '\0');
#endif
#endif
#endif
}
