/* C07 (w15): pax_xattr_libarchive (static, lib/tar/src/pax_header.c) for
 * EVERY key length and value length (symbolic, klen + 1 + vlen + 1 <= XCAP =
 * 4096 bytes of block payload) - the bounded harness pax_xattr had key <= 4 /
 * value <= 4 bytes. The function itself is loop-free; its two string-walking
 * callees are their contracts, both proved unbounded elsewhere:
 *   base64_decode  (harness base64, in-place case): result length n <= the
 *                  capacity passed in, writes only out[0..n)
 *   urldecode      (harness urldecode_unb; redirected with goto-instrument
 *                  --replace-calls): in place, the string stays NUL-terminated
 *                  inside its original extent
 * The xattr block is a typed wrapper (sqfs_xattr_t + XCAP payload bytes) laid
 * out as sqfs_xattr_create does: key, NUL, value, NUL.
 *
 * Case `via_apply` (-DVIA_APPLY) reaches the function through the dispatcher:
 * apply_handler(out, row 12 "LIBARCHIVE.xattr", key, value, valuelen) with
 * sqfs_xattr_create as its contract (NULL, or the block) - the dispatch of
 * that row (key suffix = key + 17, block freed on failure) for every length.
 *
 *  C07.pax_xattr_unb.b64_pre        base64_decode is called in place on
 *                                   exactly the value bytes, capacity =
 *                                   value_len
 *  C07.pax_xattr_unb.urldecode_pre  urldecode gets the key at the block
 *                                   start, NUL-terminated at [klen]
 *  C07.pax_xattr_unb.block          afterwards value_len <= the old length,
 *                                   the value is NUL-terminated at
 *                                   value[value_len] inside the block, key
 *                                   still terminated at or before [klen],
 *                                   the entry is linked first
 *  C07.pax_xattr_unb.status_domain  0 or -1; on -1 the header is untouched
 */
#include <stdlib.h>
#include <string.h>
#include <ctype.h>
#include <stddef.h>
#include "verif.h"
#ifdef VIA_APPLY
static void w15_free(void *p);
#define free(p) w15_free(p)
#endif
#include "lib/tar/src/pax_header.c"
#ifdef VIA_APPLY
#undef free
#endif

#ifndef XCAP
#define XCAP 4096
#endif

typedef struct {
	sqfs_xattr_t x;
	sqfs_u8 data[XCAP];
} xattr_box_t;

static xattr_box_t g_box_static;
#ifdef XEXACT
#define g_box (*g_boxp)
static xattr_box_t *g_boxp;
#else
#define g_box g_box_static
#endif
static size_t g_klen, g_vlen;
static int g_b64_calls, g_url_calls;

#ifdef VIA_APPLY
static int g_block_frees;
static void w15_free(void *p)
{
	VERIF_ASSERT(p == (void *)&g_box.x && g_block_frees == 0, "C07.pax_xattr_unb.block_freed");
	g_block_frees += 1;
}
#endif

int base64_decode(const char *in, size_t in_len, sqfs_u8 *out, size_t *out_len)
{
	size_t n, k;

	VERIF_ASSERT(in == (const char *)g_box.x.data + g_klen + 1 &&
		     out == g_box.x.data + g_klen + 1 && in_len == g_vlen &&
		     out_len == &g_box.x.value_len && *out_len == g_vlen,
		     "C07.pax_xattr_unb.b64_pre");
	g_b64_calls += 1;
	if (verif_nd_bool("b64.fail")) {
		*out_len = 0;
		return -1;
	}
	n = verif_nd_size("b64.n");
	VERIF_ASSUME(n <= g_vlen && 4 * n <= 3 * g_vlen + 3);
	k = verif_nd_size("b64.k");
	if (k < n)
		out[k] = verif_nd_u8("b64.v");
	*out_len = n;
	return 0;
}

/* contract of urldecode (goto-instrument --replace-calls) */
void stub_urldecode(char *str)
{
	size_t k;

	VERIF_ASSERT(str == (char *)g_box.x.data && g_box.x.data[g_klen] == 0,
		     "C07.pax_xattr_unb.urldecode_pre");
	g_url_calls += 1;
	k = verif_nd_size("url.newlen");
	if (k <= g_klen) {
		uint8_t v = verif_nd_u8("url.v");
		size_t w = verif_nd_size("url.w");

		if (w < k)
			str[w] = (char)v;
		str[k] = 0;
	}
}

int hex_decode(const char *in, size_t in_sz, sqfs_u8 *out, size_t out_sz) { (void)in; (void)in_sz; (void)out; (void)out_sz; VERIF_ASSERT(0, "C07.pax_xattr_unb.unexpected_callee"); return -1; }
int parse_uint(const char *in, size_t len, size_t *diff, sqfs_u64 vmin, sqfs_u64 vmax, sqfs_u64 *out) { (void)in; (void)len; (void)diff; (void)vmin; (void)vmax; (void)out; VERIF_ASSERT(0, "C07.pax_xattr_unb.unexpected_callee"); return -1; }
int parse_int(const char *in, size_t len, size_t *diff, sqfs_s64 vmin, sqfs_s64 vmax, sqfs_s64 *out) { (void)in; (void)len; (void)diff; (void)vmin; (void)vmax; (void)out; VERIF_ASSERT(0, "C07.pax_xattr_unb.unexpected_callee"); return -1; }
#ifdef VIA_APPLY
static char *g_line_key;	/* "LIBARCHIVE.xattr.<suffix>" */
static sqfs_u8 *g_line_value;
static int g_creates;
/* contract of sqfs_xattr_create: NULL, or the block laid out key NUL value
 * NUL (prepared by the harness with the same symbolic lengths) */
sqfs_xattr_t *sqfs_xattr_create(const char *key, const sqfs_u8 *value, size_t value_len)
{
	VERIF_ASSERT(VERIF_SAME_OBJECT(key, g_line_key) && VERIF_POINTER_OFFSET(key) == 17 &&
		     value == g_line_value && value_len == g_vlen, "C07.pax_xattr_unb.create_args");
	if (verif_nd_bool("create.fail"))
		return NULL;
	g_creates += 1;
	return &g_box.x;
}
#else
sqfs_xattr_t *sqfs_xattr_create(const char *key, const sqfs_u8 *value, size_t value_len) { (void)key; (void)value; (void)value_len; VERIF_ASSERT(0, "C07.pax_xattr_unb.unexpected_callee"); return NULL; }
#endif
void free_sparse_list(sparse_map_t *sparse) { (void)sparse; VERIF_ASSERT(0, "C07.pax_xattr_unb.unexpected_callee"); }
char *record_to_memory(sqfs_istream_t *fp, size_t size) { (void)fp; (void)size; VERIF_ASSERT(0, "C07.pax_xattr_unb.unexpected_callee"); return NULL; }

void harness(void)
{
	tar_header_decoded_t out;
	sqfs_xattr_t old;
	size_t kl = verif_nd_size("klen"), vl = verif_nd_size("vlen");
	size_t w;
	int ret;

	VERIF_ASSERT(offsetof(xattr_box_t, data) == offsetof(sqfs_xattr_t, data),
		     "C07.pax_xattr_unb.layout");
	VERIF_ASSUME(kl <= XCAP && vl <= XCAP && kl + 1 + vl + 1 <= XCAP);
#ifdef XEXACT
	/* the block has exactly the size sqfs_xattr_create allocates */
	g_boxp = malloc(sizeof(sqfs_xattr_t) + kl + 1 + vl + 1);
	VERIF_ASSUME(g_boxp != NULL);
#endif
	g_klen = kl;
	g_vlen = vl;
	g_b64_calls = 0;
	g_url_calls = 0;

	/* sqfs_xattr_create layout; key and value bytes are arbitrary (one
	 * witness byte each, the rest of the static object is zero) */
	w = verif_nd_size("key.w");
	if (w < kl)
		g_box.x.data[w] = verif_nd_u8("key.v");
	g_box.x.data[kl] = 0;
	w = verif_nd_size("value.w");
	if (w < vl)
		g_box.x.data[kl + 1 + w] = verif_nd_u8("value.v");
	g_box.x.data[kl + 1 + vl] = 0;
	g_box.x.next = NULL;
	g_box.x.key = (const char *)g_box.x.data;
	g_box.x.value = g_box.x.data + kl + 1;
	g_box.x.value_len = vl;

	memset(&out, 0, sizeof(out));
	old.next = NULL;
	out.xattr = verif_nd_bool("have_old") ? &old : NULL;
	{
		sqfs_xattr_t *before = out.xattr;

#ifdef VIA_APPLY
		/* through the dispatcher: row 12 "LIBARCHIVE.xattr" creates the
		 * block from (key suffix, value, valuelen) and hands it to
		 * cb.xattr == pax_xattr_libarchive; on failure it frees it */
		g_creates = 0;
		g_block_frees = 0;
		g_line_key = malloc(17 + kl + 1);
		g_line_value = malloc(vl + 1);
		VERIF_ASSUME(g_line_key != NULL && g_line_value != NULL);
		VERIF_ASSERT(pax_fields[12].type == PAX_TYPE_PREFIXED_XATTR &&
			     pax_fields[12].cb.xattr == pax_xattr_libarchive &&
			     strlen(pax_fields[12].name) == 16, "C07.pax_xattr_unb.row12");
		ret = apply_handler(&out, pax_fields + 12, g_line_key,
				    (const char *)g_line_value, vl);
		if (g_creates == 0) {
			/* allocation failed: nothing happened */
			VERIF_ASSERT(ret == -1 && g_b64_calls == 0 && out.xattr == before,
				     "C07.pax_xattr_unb.status_domain");
			VERIF_COVER(ret == -1);
			return;
		}
		VERIF_ASSERT((ret == -1) == (g_block_frees == 1) && g_block_frees <= 1,
			     "C07.pax_xattr_unb.block_freed");
#else
		ret = pax_xattr_libarchive(&out, &g_box.x);
#endif

		VERIF_ASSERT(ret == 0 || ret == -1, "C07.pax_xattr_unb.status_domain");
		VERIF_ASSERT(g_b64_calls == 1, "C07.pax_xattr_unb.b64_pre");
		if (ret == 0) {
			VERIF_ASSERT(g_url_calls == 1, "C07.pax_xattr_unb.urldecode_pre");
			VERIF_ASSERT(out.xattr == &g_box.x && g_box.x.next == before &&
				     g_box.x.value_len <= vl &&
				     g_box.x.data[kl + 1 + g_box.x.value_len] == 0 &&
				     g_box.x.value == g_box.x.data + kl + 1 &&
				     g_box.x.key == (const char *)g_box.x.data,
				     "C07.pax_xattr_unb.block");
		} else {
			VERIF_ASSERT(out.xattr == before && g_url_calls == 0,
				     "C07.pax_xattr_unb.status_domain");
		}
	}
	VERIF_COVER(ret == 0 && kl > 100 && vl > 100 && g_box.x.value_len > 50);
	VERIF_COVER(ret == 0 && vl == 0);
	VERIF_COVER(ret == -1);
}
