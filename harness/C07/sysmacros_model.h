/* sys/sysmacros.h: glibc's encoding of dev_t (CBMC has no body for these). */
#ifndef C07_SYSMACROS_MODEL_H
#define C07_SYSMACROS_MODEL_H
#ifndef VERIF_REPLAY
unsigned int gnu_dev_major(unsigned long dev)
{
	return (unsigned int)(((dev >> 8) & 0xfffu) |
			      ((dev >> 32) & 0xfffff000u));
}

unsigned int gnu_dev_minor(unsigned long dev)
{
	return (unsigned int)((dev & 0xffu) | ((dev >> 12) & 0xffffff00u));
}

unsigned long gnu_dev_makedev(unsigned int maj, unsigned int min)
{
	return (((unsigned long)(maj & 0x00000fffu)) << 8) |
	       (((unsigned long)(maj & 0xfffff000u)) << 32) |
	       (((unsigned long)(min & 0x000000ffu)) << 0) |
	       (((unsigned long)(min & 0xffffff00u)) << 12);
}
#endif
#endif
