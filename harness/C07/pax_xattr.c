/* C07: pax_xattr_libarchive + urldecode (lib/tar/src/pax_header.c), reached
 * through apply_handler on the "LIBARCHIVE.xattr" row. Key suffix of KLEN and
 * value of VLEN fully symbolic bytes. sqfs_xattr_create is modelled with the
 * libsquashfs block layout (key, NUL, value, NUL in one block of exactly
 * that size); base64_decode is its contract (harness base64: in-place call
 * allowed, result not longer than the capacity passed in), hex_decode its
 * contract (harness hex_decode).
 *
 *  C07.pax.b64_pre      base64_decode is called in place on exactly the
 *                       value bytes of the block, capacity = value_len
 *  C07.pax.hex_pre      hex_decode(in, 2, &x, 1) only when two more key
 *                       bytes exist
 *  C07.pax.xattr_block  afterwards key and value are NUL-terminated inside
 *                       the block (CBMC bounds checks on the block of exact
 *                       size), value_len <= VLEN, the entry is linked first
 *  C07.pax.apply_domain 0 or -1; on failure the block is freed (leak check)
 */
#include <stdlib.h>
#include <string.h>
#include "verif.h"
#include "lib/tar/src/pax_header.c"

#ifndef KLEN
#define KLEN 4
#endif
#ifndef VLEN
#define VLEN 4
#endif
#define PFX "LIBARCHIVE.xattr."
#define PFXLEN 17

typedef struct {
	sqfs_xattr_t x;
	sqfs_u8 data[KLEN + 1 + VLEN + 1];
} xattr_box_t;

static char g_line[PFXLEN + KLEN + 1 + VLEN + 1];
static xattr_box_t *g_box;
static size_t g_klen;

sqfs_xattr_t *sqfs_xattr_create(const char *key, const sqfs_u8 *value,
				size_t value_len)
{
	size_t i;

	VERIF_ASSERT(key == g_line + PFXLEN &&
		     value == (const sqfs_u8 *)g_line + PFXLEN + KLEN + 1 &&
		     value_len == VLEN, "C07.pax.apply_args");
	g_box = malloc(sizeof(*g_box));
	if (g_box == NULL)
		return NULL;
	memset(g_box, 0, sizeof(*g_box));
	g_klen = strlen(key);
	VERIF_ASSUME(g_klen <= KLEN);
	/* the real block is exactly klen+1+vlen+1 bytes: when the key is
	 * shorter than KLEN the tail of data[] must never be touched */
	g_box->x.key = (const char *)g_box->x.data;
	g_box->x.value = g_box->x.data + g_klen + 1;
	g_box->x.value_len = VLEN;
	for (i = 0; i < KLEN; ++i) {
		if (i < g_klen)
			g_box->x.data[i] = (sqfs_u8)key[i];
	}
	for (i = 0; i < VLEN; ++i)
		g_box->x.data[g_klen + 1 + i] = value[i];
	return &g_box->x;
}

int base64_decode(const char *in, size_t in_len, sqfs_u8 *out,
		  size_t *out_len)
{
	size_t n, k;

	VERIF_ASSERT(g_box != NULL &&
		     in == (const char *)g_box->x.data + g_klen + 1 &&
		     out == g_box->x.data + g_klen + 1 && in_len == VLEN &&
		     *out_len == VLEN, "C07.pax.b64_pre");
	if (verif_nd_bool("b64.fail")) {
		*out_len = 0;
		return -1;
	}
	n = verif_nd_size("b64.n");
	VERIF_ASSUME(n <= VLEN && 4 * n <= 3 * VLEN + 3);
	k = verif_nd_size("b64.k");
	if (k < n)
		out[k] = verif_nd_u8("b64.v");
	*out_len = n;
	return 0;
}

int hex_decode(const char *in, size_t in_sz, sqfs_u8 *out, size_t out_sz)
{
	VERIF_ASSERT(in_sz == 2 && out_sz == 1 && g_box != NULL &&
		     VERIF_SAME_OBJECT(in, g_box) &&
		     in + 2 <= (const char *)g_box->x.data + g_klen &&
		     VERIF_W_OK(out, 1), "C07.pax.hex_pre");
	*out = verif_nd_u8("hex.v");
	return 0;
}

int parse_uint(const char *in, size_t len, size_t *diff,
	       sqfs_u64 vmin, sqfs_u64 vmax, sqfs_u64 *out)
{
	(void)in; (void)len; (void)diff; (void)vmin; (void)vmax; (void)out;
	VERIF_ASSERT(0, "C07.pax.unexpected_callee");
	return -1;
}
int parse_int(const char *in, size_t len, size_t *diff,
	      sqfs_s64 vmin, sqfs_s64 vmax, sqfs_s64 *out)
{
	(void)in; (void)len; (void)diff; (void)vmin; (void)vmax; (void)out;
	VERIF_ASSERT(0, "C07.pax.unexpected_callee");
	return -1;
}
void free_sparse_list(sparse_map_t *sparse)
{
	(void)sparse;
	VERIF_ASSERT(0, "C07.pax.unexpected_callee");
}
char *record_to_memory(sqfs_istream_t *fp, size_t size)
{
	(void)fp; (void)size;
	VERIF_ASSERT(0, "C07.pax.unexpected_callee");
	return NULL;
}

void harness(void)
{
	tar_header_decoded_t out;
	sqfs_xattr_t old;
	size_t i, kl;
	int ret;

	memcpy(g_line, PFX, PFXLEN);
	verif_nd_bytes(g_line + PFXLEN, KLEN, "key");
	g_line[PFXLEN + KLEN] = '\0';
	verif_nd_bytes(g_line + PFXLEN + KLEN + 1, VLEN, "value");
	g_line[PFXLEN + KLEN + 1 + VLEN] = '\0';

	memset(&out, 0, sizeof(out));
	memset(&old, 0, sizeof(old));
	if (verif_nd_bool("have_old"))
		out.xattr = &old;

	VERIF_ASSERT(find_handler(g_line) == pax_fields + 12,
		     "C07.pax.find_row");

	ret = apply_handler(&out, pax_fields + 12, g_line,
			    g_line + PFXLEN + KLEN + 1, VLEN);

	VERIF_ASSERT(ret == 0 || ret == -1, "C07.pax.apply_domain");
	if (ret == 0) {
		VERIF_ASSERT(out.xattr == &g_box->x &&
			     (g_box->x.next == NULL || g_box->x.next == &old),
			     "C07.pax.xattr_block");
		VERIF_ASSERT(g_box->x.value_len <= VLEN &&
			     g_box->x.value[g_box->x.value_len] == '\0',
			     "C07.pax.xattr_block");
		kl = 0;
		for (i = 0; i <= KLEN; ++i) {
			if (g_box->x.data[i] == '\0')
				break;
			++kl;
		}
		VERIF_ASSERT(kl <= g_klen, "C07.pax.xattr_block");
		VERIF_COVER(kl + 2 == g_klen && g_klen == KLEN);
		VERIF_COVER(g_box->x.value_len == 3);
		free(g_box);
	} else {
		VERIF_COVER(g_box != NULL);
	}
}
