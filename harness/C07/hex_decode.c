/* C07: hex_decode (lib/util/src/hex_decode.c), unbounded (loop contract):
 * input of in_sz bytes, output of out_sz bytes, both of symbolic size
 * <= 4096 and ending with the stated size.
 *  ensures  C07.hex.status_domain  0 or -1
 *           (bounds of every in[0], in[1], *out access: CBMC checks under
 *           the cursor invariant 2 * bytes written == bytes consumed)
 *           C07.termination        decreases clause
 */
#include <stdlib.h>
#include "verif.h"
#include "lib/util/src/hex_decode.c"

void harness(void)
{
	size_t in_sz = verif_nd_size("in_sz"), out_sz = verif_nd_size("out_sz");
	char *in;
	sqfs_u8 *out;
	int ret;

	VERIF_ASSUME(in_sz <= 4096 && out_sz <= 4096);
	in = malloc(in_sz);
	out = malloc(out_sz);
	VERIF_ASSUME(in != NULL && out != NULL);

	ret = hex_decode(in, in_sz, out, out_sz);

	VERIF_ASSERT(ret == 0 || ret == -1, "C07.hex.status_domain");
	VERIF_COVER(ret == 0 && in_sz > 6);
	VERIF_COVER(ret == -1 && in_sz > 6 && out_sz > 3);
}
