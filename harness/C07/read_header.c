/* C07: read_header (lib/tar/src/read_header.c): the extension-record loop
 * and the implementation limits. The stream is the istream contract of
 * tar_env.h - arbitrary bytes, arbitrary errors, arbitrary end of file at
 * every read. Callees in other translation units are replaced by their
 * contracts (each proved or bounded-checked in its own harness):
 * read_number, tar_compute_checksum, is_memory_zero, record_to_memory,
 * read_pax_header, read_gnu_old_sparse, read_gnu_new_sparse. clear_header
 * and free_sparse_list are the real ones (lib/tar/src/cleanup.c).
 *
 * Bounded: at most MAXREC header records are read in one call (the loop is
 * unwound; more extension records in a row end the path by assumption).
 *
 *  ensures  C07.limits.symlink / .path / .pax
 *                     a GNU 'K' / 'L' / PAX 'x' record whose size is 0 or
 *                     exceeds TAR_MAX_SYMLINK_LEN / _PATH_LEN / _PAX_LEN is
 *                     refused *before* any allocation or payload read (the
 *                     precondition of the callee contracts)
 *           C07.limits.unexpected_record
 *                     payload is pulled into memory for K, L, x only
 *           C07.read_header.status_domain   -1, 0 or 1
 *           C07.read_header.fail_cleared    on failure / EOF *out holds no
 *                     pointer any more (the caller calls clear_header again)
 *           C07.read_header.name_set        success => name != NULL
 *           C07.read_header.actual_size     no sparse map => actual_size ==
 *                                           record_size
 *           C07.read_header.stream_error    an I/O error or short read on
 *                     the header path is never reported as success
 */
#include "verif.h"
#include "lib/tar/src/read_header.c"
#ifndef MAXREC
#define MAXREC 2
#endif
#define ENV_MAX_READS MAXREC
#define REAL_free_sparse_list
#define ENV_MEMCPY_STUB
#include "tar_env.h"
#include "lib/tar/src/cleanup.c"

void sqfs_xattr_list_free(sqfs_xattr_t *list)
{
	/* the only xattr lists in this harness are the one-element lists made
	 * by the read_pax_header contract below */
	if (list != NULL) {
		VERIF_ASSERT(list->next == NULL, "C07.env.list_wellformed");
		free(list);
	}
}

/* a fresh NUL-terminated heap string: 7 arbitrary bytes (so any shorter
 * string too). Callers in this harness treat such buffers as opaque; the
 * fixed size keeps the object typed and small - a smaller object than the
 * real one can only cause spurious bounds failures, never hide one
 * (symbolic sizes up to 64 KiB exhaust the solver: 13-18 GB). */
static char *env_string(void)
{
	char *p = malloc(8);

	if (p == NULL)
		return NULL;
	verif_nd_bytes(p, 7, "string");
	p[7] = '\0';
	return p;
}

/* contract of record_to_memory (proved in harness `record_to_memory`):
 * requires 1 <= size <= limit of the record kind; returns NULL or a fresh
 * NUL-terminated buffer of size+1 bytes */
char *record_to_memory(sqfs_istream_t *fp, size_t size)
{
	VERIF_ASSERT(fp == &g_strm, "C07.env.stream");
	if (g_last_typeflag == TAR_TYPE_GNU_SLINK) {
		VERIF_ASSERT(size >= 1 && size <= TAR_MAX_SYMLINK_LEN,
			     "C07.limits.symlink");
	} else if (g_last_typeflag == TAR_TYPE_GNU_PATH) {
		VERIF_ASSERT(size >= 1 && size <= TAR_MAX_PATH_LEN,
			     "C07.limits.path");
	} else {
		VERIF_ASSERT(0, "C07.limits.unexpected_record");
	}
	if (verif_nd_bool("rtm.fail"))
		return NULL;
	return env_string();
}

static sparse_map_t *env_sparse(void)
{
	sparse_map_t *n;

	if (verif_nd_bool("sparse.fail"))
		return NULL;
	n = calloc(1, sizeof(*n));
	if (n == NULL)
		return NULL;
	n->offset = verif_nd_u64("sparse.offset");
	n->count = verif_nd_u64("sparse.count");
	return n;
}

/* contract of read_pax_header (bounded-checked in harness `pax_header`):
 * requires 1 <= entsize <= TAR_MAX_PAX_LEN; may replace any decoded field,
 * sets the matching set_by_pax bits; 0 or -1 */
int read_pax_header(sqfs_istream_t *fp, sqfs_u64 entsize,
		    unsigned int *set_by_pax, tar_header_decoded_t *out)
{
	unsigned int bits;

	VERIF_ASSERT(fp == &g_strm, "C07.env.stream");
	VERIF_ASSERT(g_last_typeflag == TAR_TYPE_PAX,
		     "C07.limits.unexpected_record");
	VERIF_ASSERT(entsize >= 1 && entsize <= TAR_MAX_PAX_LEN,
		     "C07.limits.pax");
	/* What the records in front of this one set stays valid (a GNU long
	 * name followed by a PAX record with only numbers keeps the long name:
	 * C04.hdr.ext_records_accumulate, fix in read_header): the obligation
	 * is the coherence of flags and fields - "flag set <=> field present" -
	 * so that decode_header never skips a field that is not there (the
	 * NULL name of seed C07-1) and never overwrites one that is. */
	VERIF_ASSERT(((*set_by_pax & PAX_NAME) != 0) == (out->name != NULL) &&
		     ((*set_by_pax & PAX_SLINK_TARGET) != 0) ==
		     (out->link_target != NULL),
		     "C07.read_header.pax_flags_coherent");

	bits = verif_nd_u32("pax.bits");
	/* the real handlers release what they replace (pax_header.c) */
	if (bits & PAX_NAME) {
		free(out->name);
		out->name = env_string();
		if (out->name == NULL) {
			*set_by_pax &= ~(unsigned int)PAX_NAME;
			return -1;
		}
	}
	if (bits & PAX_SLINK_TARGET) {
		free(out->link_target);
		out->link_target = env_string();
		if (out->link_target == NULL) {
			*set_by_pax &= ~(unsigned int)PAX_SLINK_TARGET;
			return -1;
		}
	}
	if (verif_nd_bool("pax.sparse")) {
		free_sparse_list(out->sparse);
		out->sparse = env_sparse();
	}
	if (verif_nd_bool("pax.xattr")) {
		sqfs_xattr_list_free(out->xattr);
		out->xattr = calloc(1, sizeof(sqfs_xattr_t));
	}
	out->record_size = verif_nd_u64("pax.size");
	out->actual_size = verif_nd_u64("pax.rsize");
	out->uid = verif_nd_u64("pax.uid");
	out->gid = verif_nd_u64("pax.gid");
	out->mtime = verif_nd_i64("pax.mtime");
	*set_by_pax |= bits;
	return verif_nd_bool("pax.fail") ? -1 : 0;
}

sparse_map_t *read_gnu_old_sparse(sqfs_istream_t *fp, tar_header_t *hdr)
{
	VERIF_ASSERT(fp == &g_strm && VERIF_R_OK(hdr, sizeof(*hdr)),
		     "C07.read_header.old_sparse_pre");
	return env_sparse();
}

sparse_map_t *read_gnu_new_sparse(sqfs_istream_t *fp,
				  tar_header_decoded_t *out)
{
	VERIF_ASSERT(fp == &g_strm && out->name != NULL,
		     "C07.read_header.new_sparse_pre");
	if (out->record_size >= 512 && verif_nd_bool("ns.shrink"))
		out->record_size -= 512;
	return env_sparse();
}

void harness(void)
{
	tar_header_decoded_t out;
	int ret;

	/* the caller passes uninitialised / stale memory: read_header must
	 * not look at it */
	verif_nd_bytes(&out, sizeof(out), "stale");

	ret = read_header(&g_strm, &out);

	VERIF_ASSERT(ret == 0 || ret == 1 || ret == -1,
		     "C07.read_header.status_domain");
	if (ret != 0) {
		VERIF_ASSERT(out.name == NULL && out.link_target == NULL &&
			     out.sparse == NULL && out.xattr == NULL,
			     "C07.read_header.fail_cleared");
		VERIF_COVER(ret == 1);
		VERIF_COVER(ret == -1 && g_full_reads == 2);
	} else {
		VERIF_ASSERT(out.name != NULL, "C07.read_header.name_set");
		VERIF_ASSERT(out.sparse != NULL ||
			     out.actual_size == out.record_size,
			     "C07.read_header.actual_size");
		VERIF_ASSERT(!g_stream_failed,
			     "C07.read_header.stream_error");
		VERIF_COVER(g_full_reads == 1);
		VERIF_COVER(g_full_reads == MAXREC);
		VERIF_COVER(out.sparse != NULL);
		VERIF_COVER(out.link_target != NULL);
	}
}
