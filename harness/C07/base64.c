/* C07: base64_decode (lib/util/src/base64_decode.c), unbounded (loop
 * contract). Input of in_len bytes (symbolic, <= 4096), output buffer of
 * exactly *out_len bytes (symbolic, <= 4096) - a store past the capacity is a
 * bounds violation. Variant INPLACE: out == in and *out_len == in_len, the
 * way pax_xattr_libarchive calls it.
 *
 *  ensures  C07.b64.bounds   (CBMC bounds checks on every out[count++]
 *                            under the invariant count <= capacity)
 *                            ret == 0  => *out_len <= capacity and
 *                                         4 * *out_len <= 3 * in_len + 3
 *                                         (i.e. <= 3/4 in_len + 2)
 *                            ret == -1 => *out_len == 0
 *           C07.b64.status_domain   0 or -1
 *           C07.termination         decreases clause
 */
#include <stdlib.h>
#include "verif.h"
size_t g_b64_cap;
#include "lib/util/src/base64_decode.c"

void harness(void)
{
	size_t in_len = verif_nd_size("in_len"), cap = verif_nd_size("cap");
	size_t out_len;
	sqfs_u8 *out;
	char *in;
	int ret;

	VERIF_ASSUME(in_len <= 4096 && cap <= 4096);
	in = malloc(in_len);
	VERIF_ASSUME(in != NULL);
#ifdef INPLACE
	VERIF_ASSUME(cap == in_len);
	out = (sqfs_u8 *)in;
#else
	out = malloc(cap);
	VERIF_ASSUME(out != NULL);
#endif
	g_b64_cap = cap;
	out_len = cap;

	ret = base64_decode(in, in_len, out, &out_len);

	VERIF_ASSERT(ret == 0 || ret == -1, "C07.b64.status_domain");
	if (ret == 0) {
		VERIF_ASSERT(out_len <= cap && 4 * out_len <= 3 * in_len + 3,
			     "C07.b64.bounds");
		VERIF_COVER(out_len > 7 && in_len % 4 == 0);
		VERIF_COVER(in_len % 4 == 3 && out_len > 2);
		VERIF_COVER(in_len % 4 == 2);
	} else {
		VERIF_ASSERT(out_len == 0, "C07.b64.bounds");
		VERIF_COVER(in_len > 9);
	}
}
