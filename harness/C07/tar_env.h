/* Environment contracts for the lib/tar harnesses of C07/C04.
 *
 * Include AFTER the real translation unit (types and prototypes come from
 * the repository headers). Every stub *is* the contract of the callee it
 * stands for: it asserts the callee's precondition at the call site
 * (VERIF_ASSERT, named) and returns every outcome the contract permits.
 * A harness that contains the real definition of one of these functions
 * defines REAL_<name> before including this file.
 */
#ifndef C07_TAR_ENV_H
#define C07_TAR_ENV_H

#include <stdlib.h>
#include <string.h>
#include "verif.h"

#ifndef ENV_FILL_MAX
#define ENV_FILL_MAX 512
#endif
#ifndef ENV_LIST_MAX
#define ENV_LIST_MAX 64
#endif

/* ------------------------------------------------------------ libc models */
#ifndef VERIF_REPLAY
/* CBMC 6.11 ships no body for these two; the models are their definitions. */
size_t strnlen(const char *s, size_t n)
{
	size_t i = 0;

	while (i < n && s[i] != '\0')
		++i;
	return i;
}

char *strndup(const char *s, size_t n)
{
	size_t l = strnlen(s, n);
	char *p = malloc(l + 1);

	if (p == NULL)
		return NULL;
	memcpy(p, s, l);
	p[l] = '\0';
	return p;
}

#ifdef ENV_MEMCPY_STUB
/* checking memcpy (DESIGN 2.4): proves the bounds of every call site, then
 * transfers one arbitrary witness byte; the rest of the destination keeps
 * whatever it held (unconstrained for a fresh allocation) */
void *memcpy(void *dst, const void *src, size_t n)
{
	size_t k;

	VERIF_ASSERT(VERIF_R_OK(src, n) && VERIF_W_OK(dst, n),
		     "C07.memcpy.bounds");
	k = verif_nd_size("memcpy.k");
	if (k < n)
		((char *)dst)[k] = ((const char *)src)[k];
	return dst;
}
#endif

#include "sysmacros_model.h"
#endif

/* diagnostics: no effect on the state we reason about */
#ifndef REAL_sqfs_perror
void sqfs_perror(const char *file, const char *action, int error_code)
{
	(void)file; (void)action; (void)error_code;
}
#endif

/* ----------------------------------------------------------- input stream */
static const char *env_get_filename(sqfs_istream_t *strm)
{
	(void)strm;
	return "stdin";
}

static sqfs_istream_t g_strm = { .get_filename = env_get_filename };
static unsigned int g_full_reads;	/* complete transfers delivered */
static unsigned char g_last_typeflag;	/* of the last 512-byte record */
static int g_stream_failed;		/* an error / short count was returned */
static unsigned int g_read_calls;

/* fill n bytes with environment-chosen values: all of them when the buffer
 * is small, one arbitrary witness byte otherwise (the rest of a fresh
 * allocation is unconstrained under CBMC anyway) */
static void env_fill(void *dst, size_t n)
{
	if (n <= ENV_FILL_MAX) {
		verif_nd_bytes(dst, n, "stream.byte");
	} else {
		size_t k = verif_nd_size("stream.k");
		uint8_t v = verif_nd_u8("stream.v");

		if (k < n)
			((uint8_t *)dst)[k] = v;
	}
}

#ifndef REAL_sqfs_istream_read
/* sqfs_istream_read: requires a writable destination of `size` bytes;
 * returns a negative error code, or the number of bytes stored - `size`, or
 * fewer at end of stream. */
sqfs_s32 sqfs_istream_read(sqfs_istream_t *strm, void *data, size_t size)
{
	int r;

	VERIF_ASSERT(strm == &g_strm, "C07.env.stream");
	VERIF_ASSERT(size <= 0x7FFFFFFF && VERIF_W_OK(data, size),
		     "C07.istream_read.pre");

#ifdef ENV_MAX_READS
	/* bound of a `bounded` harness: the path ends after ENV_MAX_READS
	 * read calls (unwinding assertion of the caller's loop holds) */
	++g_read_calls;
	VERIF_ASSUME(g_read_calls <= ENV_MAX_READS);
#endif
	r = verif_nd_int("read.ret");
	if (r < 0) {
		g_stream_failed = 1;
		return r;
	}
	VERIF_ASSUME((size_t)r <= size);
	if ((size_t)r == size) {
		/* `size` is a constant at the header call sites: the fill
		 * loop has concrete bounds */
		env_fill(data, size);
		++g_full_reads;
		if (size == 512)
			g_last_typeflag = ((const unsigned char *)data)[156];
	} else {
		/* short transfer: one arbitrary witness byte of the prefix */
		size_t k = verif_nd_size("read.k");
		uint8_t v = verif_nd_u8("read.v");

		if (k < (size_t)r)
			((uint8_t *)data)[k] = v;
		g_stream_failed = 1;
	}
	return r;
}
#endif

#ifndef REAL_sqfs_istream_skip
static sqfs_u64 g_skipped_last;
int sqfs_istream_skip(sqfs_istream_t *strm, sqfs_u64 size)
{
	int r;

	VERIF_ASSERT(strm == &g_strm, "C07.env.stream");
	g_skipped_last = size;
	r = verif_nd_int("skip.ret");
	if (r != 0)
		g_stream_failed = 1;
	return r;
}
#endif

/* ------------------------------------------------------- lib/tar callees */
#ifndef REAL_read_number
/* contract proved in harness `number`: reads only str[0..digits), digits is
 * a header field width, returns 0 (any value) or -1 (*out untouched) */
int read_number(const char *str, int digits, sqfs_u64 *out)
{
	VERIF_ASSERT((digits == 8 || digits == 12) &&
		     VERIF_R_OK(str, (size_t)digits) &&
		     VERIF_W_OK(out, sizeof(*out)), "C07.read_number.pre");
	if (verif_nd_bool("read_number.fail"))
		return -1;
	*out = verif_nd_u64("read_number.value");
	return 0;
}
#endif

#ifndef REAL_tar_compute_checksum
/* contract proved in harness `checksum` */
unsigned int tar_compute_checksum(const tar_header_t *hdr)
{
	unsigned int s;

	VERIF_ASSERT(VERIF_R_OK(hdr, sizeof(*hdr)), "C07.chksum.pre");
	s = verif_nd_u32("chksum");
	VERIF_ASSUME(s >= 8u * 32u && s <= 504u * 255u + 8u * 32u);
	return s;
}
#endif

#ifndef REAL_is_memory_zero
/* over-approximation: any answer (the zero test itself is C12/C05 ground) */
bool is_memory_zero(const void *blob, size_t size)
{
	VERIF_ASSERT(VERIF_R_OK(blob, size), "C07.is_memory_zero.pre");
	return verif_nd_bool("is_zero");
}
#endif

#ifndef REAL_free_sparse_list
/* contract: releases a NULL-terminated list of heap nodes */
void free_sparse_list(sparse_map_t *sparse)
{
	unsigned int guard = 0;

	while (sparse != NULL) {
		sparse_map_t *old = sparse;

		VERIF_ASSERT(guard < ENV_LIST_MAX, "C07.env.list_wellformed");
		VERIF_ASSUME(guard < ENV_LIST_MAX);
		++guard;
		sparse = sparse->next;
		free(old);
	}
}
#endif

#endif /* C07_TAR_ENV_H */
