/* C07: read_pax_header (lib/tar/src/pax_header.c) on PAX records that MIX the
 * sparse dialects in one header: GNU.sparse.offset / GNU.sparse.numbytes pairs
 * (format 0.0) and a GNU.sparse.map line (format 0.1) in any order. The list
 * node that the 0.0 code remembers across lines (`sparse_last`) points into
 * out->sparse, which the 0.1 handler releases and rebuilds - an archive only
 * has to contain both kinds in one header for the next numbytes line to write
 * through a dangling pointer.
 *
 * Everything is real here: read_pax_header, find_handler, apply_handler,
 * pax_sparse_map, free_sparse_list (cleanup.c), parse_uint (lib/util). Only
 * record_to_memory is its contract (the text of the case, in a fresh buffer).
 * The record text is concrete per case (key sequence, short numbers); what is
 * decided is memory safety (cbmc pointer checks: no access to a released
 * node), the leak check, and:
 *
 *   C07.pax.sparse_mix.list_wf   on success out->sparse is a NULL-terminated
 *                                list of live nodes (walked, <= 4 nodes)
 *   C07.pax.sparse_mix.status    0 or -1
 *   C07.pax.sparse_mix.last_wins the list describes the records of the
 *                                dialect that came last in the header
 */
#include <stdlib.h>
#include <string.h>
#include <ctype.h>
#include "verif.h"
#include "lib/tar/src/pax_header.c"
#include "lib/tar/src/cleanup.c"
#include "lib/util/src/parse_int.c"

#ifndef CASE
#define CASE 0
#endif

#if CASE == 0	/* 0.0 pair, then a 0.1 map, then a 0.0 pair again */
#define TEXT "23 GNU.sparse.offset=0\n25 GNU.sparse.numbytes=1\n22 GNU.sparse.map=0,1\n" \
	     "23 GNU.sparse.offset=5\n25 GNU.sparse.numbytes=1\n"
#define WANT_N 1
#define WANT_OFF 5
#define WANT_CNT 1
#elif CASE == 1	/* map first, then a 0.0 pair */
#define TEXT "22 GNU.sparse.map=0,1\n23 GNU.sparse.offset=5\n25 GNU.sparse.numbytes=1\n"
#define WANT_N 1
#define WANT_OFF 5
#define WANT_CNT 1
#elif CASE == 2	/* a 0.0 pair, then a map with two entries */
#define TEXT "23 GNU.sparse.offset=0\n25 GNU.sparse.numbytes=1\n26 GNU.sparse.map=0,1,4,2\n"
#define WANT_N 2
#define WANT_OFF 4
#define WANT_CNT 2
#else		/* control: two 0.0 pairs */
#define TEXT "23 GNU.sparse.offset=0\n25 GNU.sparse.numbytes=1\n23 GNU.sparse.offset=5\n" \
	     "25 GNU.sparse.numbytes=1\n"
#define WANT_N 2
#define WANT_OFF 5
#define WANT_CNT 1
#endif
static const char g_text[] = TEXT;
#define TEXT_LEN (sizeof(g_text) - 1)

static sqfs_istream_t g_strm;

char *record_to_memory(sqfs_istream_t *fp, size_t size)
{
	char *buf;

	VERIF_ASSERT(fp == &g_strm && size == TEXT_LEN,
		     "C07.pax.rtm_pre");
	buf = malloc(size + 1);
	if (buf == NULL)
		return NULL;
	memcpy(buf, g_text, TEXT_LEN + 1);
	return buf;
}

void sqfs_xattr_list_free(sqfs_xattr_t *list) { (void)list; }
void perror(const char *s) { (void)s; }
int fputs(const char *s, FILE *f) { (void)s; (void)f; return 0; }

void harness(void)
{
	tar_header_decoded_t out;
	unsigned int set_by_pax = 0;
	sparse_map_t *it;
	unsigned n = 0;
	int ret;

	memset(&out, 0, sizeof(out));
	ret = read_pax_header(&g_strm, TEXT_LEN, &set_by_pax, &out);

	VERIF_ASSERT(ret == 0 || ret == -1, "C07.pax.sparse_mix.status");
	VERIF_COVER(ret == 0);
	if (ret == 0) {
		sparse_map_t *last = NULL;

		for (it = out.sparse; it != NULL && n < 5; it = it->next) {
			VERIF_ASSERT(VERIF_R_OK(it, sizeof(*it)),
				     "C07.pax.sparse_mix.list_wf");
			last = it;
			++n;
		}
		VERIF_ASSERT(it == NULL && n == WANT_N,
			     "C07.pax.sparse_mix.last_wins");
		VERIF_ASSERT(last != NULL &&
			     last->offset == WANT_OFF && last->count == WANT_CNT,
			     "C07.pax.sparse_mix.last_wins");
	}
	free_sparse_list(out.sparse);
	free(out.name);
	free(out.link_target);
}
