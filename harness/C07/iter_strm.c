/* C07: strm_get_buffered_data, strm_advance_buffer, is_sparse_region,
 * drop_parent (lib/tar/src/iterator.c) - the per-file stream of the tar
 * reader - for a sparse map of NSPARSE entries (list shape concrete, every
 * offset / count / file size / position symbolic, including overlapping,
 * unsorted and wrapping entries) against the contract of the archive stream
 * (error, EOF, or a window of any size).
 *
 *  C07.strm.window    ret == 0 => the window handed out is readable:
 *                     a hole is served from the 4 KiB zero buffer with
 *                     1 <= size <= min(want, 4096); data is served from the
 *                     archive stream's own window, never more than it
 *                     offered, never more than `want`
 *  C07.strm.in_file   nothing is served at or after the file size. (A map
 *                     entry that extends past the declared size IS served in
 *                     full - the file simply gets longer; noted, harmless
 *                     for memory safety.)
 *  C07.strm.sticky    ret != 0 => the parent is released and unlocked, the
 *                     result repeats; an archive error is recorded in the
 *                     parent as well, an unexpected archive EOF is an error
 *  C07.strm.advance   advance_buffer(n) moves the file position by n and
 *                     passes exactly n on to the archive stream iff the
 *                     window was data
 */
#include "verif.h"
#include "lib/tar/src/iterator.c"
#define ITER_MAXHDR 1
#include "iter_env.h"

#ifndef NSPARSE
#define NSPARSE 1
#endif

static sqfs_u8 g_srcwin[1];
static size_t g_src_size, g_src_want, g_adv_count;
static int g_src_calls, g_src_ret, g_adv_calls;

static int env_get_buffered_data(sqfs_istream_t *strm, const sqfs_u8 **out,
				 size_t *size, size_t want)
{
	VERIF_ASSERT(strm == &g_src && want >= 1, "C07.strm.src_pre");
	++g_src_calls;
	g_src_want = want;
	g_src_ret = verif_nd_int("src.ret");
	if (g_src_ret != 0)
		return g_src_ret;
	g_src_size = verif_nd_size("src.size");
	VERIF_ASSUME(g_src_size >= 1);
	*out = g_srcwin;
	*size = g_src_size;
	return 0;
}

static void env_advance_buffer(sqfs_istream_t *strm, size_t count)
{
	VERIF_ASSERT(strm == &g_src, "C07.strm.src_pre");
	++g_adv_calls;
	g_adv_count = count;
}

void harness(void)
{
	static sparse_map_t map[NSPARSE + 1];
	static tar_iterator_t par;
	static tar_istream_t strm;
	const sqfs_u8 *out = NULL;
	size_t size = 0, want = verif_nd_size("want"), n;
	sqfs_u64 off0, rs0;
	bool sparse;
	int ret, ret2, i;

	g_src.get_buffered_data = env_get_buffered_data;
	g_src.advance_buffer = env_advance_buffer;

	for (i = 0; i < NSPARSE; ++i) {
		map[i].offset = verif_nd_u64("map.offset");
		map[i].count = verif_nd_u64("map.count");
		map[i].next = (i + 1 < NSPARSE) ? &map[i + 1] : NULL;
	}
	memset(&par, 0, sizeof(par));
	((sqfs_object_t *)&par)->refcount = 2;
	((sqfs_object_t *)&par)->destroy = it_destroy;
	par.stream = &g_src;
	par.locked = true;
	par.state = 0;
	par.current.sparse = NSPARSE > 0 ? &map[0] : NULL;
	par.file_size = verif_nd_u64("file_size");
	par.offset = verif_nd_u64("offset");
	par.record_size = verif_nd_u64("record_size");
	memset(&strm, 0, sizeof(strm));
	strm.parent = &par;
	VERIF_ASSUME(want >= 1);
	off0 = par.offset;
	rs0 = par.record_size;

	ret = strm_get_buffered_data((sqfs_istream_t *)&strm, &out, &size,
				     want);

	if (ret == 0) {
		sparse = par.last_sparse;
		VERIF_ASSERT(strm.parent == &par && size <= want,
			     "C07.strm.window");
		if (sparse) {
			VERIF_ASSERT(out == strm.buffer && size >= 1 &&
				     size <= sizeof(strm.buffer) &&
				     g_src_calls == 0, "C07.strm.window");
		} else {
			VERIF_ASSERT(out == g_srcwin && size <= g_src_size &&
				     g_src_calls == 1 && g_src_want <= want,
				     "C07.strm.window");
		}
		VERIF_ASSERT(off0 < par.file_size, "C07.strm.in_file");

		n = verif_nd_size("consume");
		VERIF_ASSUME(n <= size);
		strm_advance_buffer((sqfs_istream_t *)&strm, n);
		VERIF_ASSERT(par.offset == off0 + n, "C07.strm.advance");
		if (sparse) {
			VERIF_ASSERT(g_adv_calls == 0 &&
				     par.record_size == rs0,
				     "C07.strm.advance");
		} else {
			VERIF_ASSERT(g_adv_calls == 1 && g_adv_count == n &&
				     par.record_size == rs0 - n,
				     "C07.strm.advance");
		}
#if NSPARSE > 0
		VERIF_COVER(sparse && size == 4096);
#endif
		VERIF_COVER(!sparse && size == want && want > 5000);
#if NSPARSE > 0
		VERIF_COVER(sparse && size < 10 && want > 100);
		VERIF_COVER(!sparse && off0 > map[0].offset);
#endif
	} else {
		VERIF_ASSERT(strm.parent == NULL && !par.locked &&
			     ((sqfs_object_t *)&par)->refcount == 1 && strm.state == ret,
			     "C07.strm.sticky");
		VERIF_ASSERT(ret == 1 || (ret < 0 && par.state == ret),
			     "C07.strm.sticky");
		VERIF_ASSERT(!(g_src_calls == 1 && g_src_ret > 0) ||
			     ret == SQFS_ERROR_CORRUPTED, "C07.strm.sticky");
		ret2 = strm_get_buffered_data((sqfs_istream_t *)&strm, &out,
					      &size, want);
		VERIF_ASSERT(ret2 == ret, "C07.strm.sticky");
		/* a zero-length region never occurs before the file size */
		VERIF_ASSERT(!(ret == 1 && off0 < par.file_size),
			     "C07.strm.in_file");
		VERIF_COVER(ret == 1 && off0 >= par.file_size);
		VERIF_COVER(ret == SQFS_ERROR_CORRUPTED);
		VERIF_COVER(ret < 0 && ret != SQFS_ERROR_CORRUPTED);
	}
}
