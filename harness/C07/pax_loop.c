/* C07: read_pax_header (lib/tar/src/pax_header.c) - the record / line
 * scanner - on a PAX record of ENTSIZE fully symbolic bytes. Bounded:
 * ENTSIZE is a case parameter.
 *
 * Modular: the static helpers find_handler and apply_handler are redirected
 * (goto-instrument --replace-calls, own pass) to their contracts below;
 * they are verified in harnesses pax_find / pax_apply / pax_sparse_map /
 * pax_xattr. Callees in other translation units are their contracts too:
 * record_to_memory (fresh buffer of ENTSIZE+1 bytes, NUL at [ENTSIZE]),
 * strtol (consumes any prefix of the string, any value), parse_uint (proved
 * in harness parse_int), free_sparse_list.
 *
 *  C07.pax.line_in_record   every string handed to strtol, parse_uint,
 *        find_handler and apply_handler starts inside
 *        [buffer, buffer+ENTSIZE] (NUL-terminated there by buffer[ENTSIZE]);
 *        key < value, both inside the current line, and a value of valuelen
 *        bytes ends before the last byte of the record - so every accepted
 *        `len` satisfied line + len <= end
 *  C07.pax.status_domain    0 or -1
 *  C07.pax.flags            set_by_pax only gains the flag of the handler
 *                           that was applied successfully
 *  no leak of the record buffer on any path (--memory-leak-check)
 */
#include <stdlib.h>
#include <string.h>
#include "verif.h"
#include "lib/tar/src/pax_header.c"

#ifndef ENTSIZE
#define ENTSIZE 12
#endif
#define MAXNODES (ENTSIZE / 4 + 2)

static char *g_buf;		/* the record */
static sqfs_istream_t g_strm;
static unsigned int g_flags_applied;
/* p points into the record; returns the distance to *a* NUL at or after p
 * inside the record (there always is one: buffer[ENTSIZE]). Not necessarily
 * the first one - the callee contracts below then permit a superset of what
 * the real functions do, which is sound and loop-free. */
static size_t in_record(const char *p)
{
	size_t off, len;

	VERIF_ASSERT(g_buf != NULL && VERIF_SAME_OBJECT(p, g_buf) &&
		     VERIF_POINTER_OFFSET(p) <= ENTSIZE,
		     "C07.pax.line_in_record");
	off = VERIF_POINTER_OFFSET(p);
	VERIF_ASSUME(off <= ENTSIZE);
	len = verif_nd_size("strlen");
	VERIF_ASSUME(len <= ENTSIZE - off && g_buf[off + len] == '\0');
	return len;
}

char *record_to_memory(sqfs_istream_t *fp, size_t size)
{
	VERIF_ASSERT(fp == &g_strm && size == ENTSIZE, "C07.pax.rtm_pre");
	if (verif_nd_bool("rtm.fail"))
		return NULL;
	g_buf = malloc(ENTSIZE + 1);
	VERIF_ASSUME(g_buf != NULL);
	verif_nd_bytes(g_buf, ENTSIZE, "record");
	g_buf[ENTSIZE] = '\0';
	return g_buf;
}

long strtol(const char *nptr, char **endptr, int base)
{
	size_t len = in_record(nptr), k = verif_nd_size("strtol.k");

	VERIF_ASSERT(base == 10 && endptr != NULL, "C07.pax.strtol_pre");
	VERIF_ASSUME(k <= len);
	*endptr = (char *)nptr + k;
	return (long)verif_nd_i64("strtol.value");
}

int parse_uint(const char *in, size_t len, size_t *diff,
	       sqfs_u64 vmin, sqfs_u64 vmax, sqfs_u64 *out)
{
	size_t slen = in_record(in), d = verif_nd_size("parse.diff");

	(void)vmin; (void)vmax;
	VERIF_ASSERT(len == (size_t)-1 && diff != NULL, "C07.pax.parse_pre");
	*diff = 0;
	*out = 0;
	if (verif_nd_bool("parse.fail"))
		return verif_nd_bool("parse.ov") ? SQFS_ERROR_OVERFLOW :
			SQFS_ERROR_CORRUPTED;
	VERIF_ASSUME(d >= 1 && d <= slen);
	*diff = d;
	*out = verif_nd_u64("parse.value");
	return 0;
}


/* ------------------------------- contracts of the two static helpers */
const struct pax_handler_t *stub_find_handler(const char *key)
{
	uint8_t idx = verif_nd_u8("handler");

	(void)in_record(key);
	if (idx >= sizeof(pax_fields) / sizeof(pax_fields[0]))
		return NULL;
	return pax_fields + idx;
}

int stub_apply_handler(tar_header_decoded_t *out,
		       const struct pax_handler_t *field, const char *key,
		       const char *value, size_t valuelen)
{
	VERIF_ASSERT(out != NULL && field >= pax_fields &&
		     field < pax_fields + sizeof(pax_fields) /
		     sizeof(pax_fields[0]), "C07.pax.apply_pre");
	(void)in_record(key);
	(void)in_record(value);
	VERIF_ASSERT(VERIF_POINTER_OFFSET(key) < VERIF_POINTER_OFFSET(value) &&
		     VERIF_POINTER_OFFSET(value) + valuelen <= ENTSIZE - 1 &&
		     g_buf[VERIF_POINTER_OFFSET(value) + valuelen] == '\0' &&
		     g_buf[VERIF_POINTER_OFFSET(value) - 1] == '\0',
		     "C07.pax.line_in_record");
	if (verif_nd_bool("apply.fail"))
		return -1;
	g_flags_applied |= (unsigned int)field->flag;
	return 0;
}

/* not reached once the helpers are replaced */
int parse_int(const char *in, size_t len, size_t *diff,
	      sqfs_s64 vmin, sqfs_s64 vmax, sqfs_s64 *out)
{
	(void)in; (void)len; (void)diff; (void)vmin; (void)vmax; (void)out;
	VERIF_ASSERT(0, "C07.pax.unexpected_callee");
	return -1;
}
sqfs_xattr_t *sqfs_xattr_create(const char *key, const sqfs_u8 *value,
				size_t value_len)
{
	(void)key; (void)value; (void)value_len;
	VERIF_ASSERT(0, "C07.pax.unexpected_callee");
	return NULL;
}
int base64_decode(const char *in, size_t in_len, sqfs_u8 *out,
		  size_t *out_len)
{
	(void)in; (void)in_len; (void)out; (void)out_len;
	VERIF_ASSERT(0, "C07.pax.unexpected_callee");
	return -1;
}
int hex_decode(const char *in, size_t in_sz, sqfs_u8 *out, size_t out_sz)
{
	(void)in; (void)in_sz; (void)out; (void)out_sz;
	VERIF_ASSERT(0, "C07.pax.unexpected_callee");
	return -1;
}
void free_sparse_list(sparse_map_t *sparse)
{
	unsigned int guard = 0;

	while (sparse != NULL) {
		sparse_map_t *old = sparse;

		VERIF_ASSERT(guard < MAXNODES, "C07.pax.list_wellformed");
		VERIF_ASSUME(guard < MAXNODES);
		++guard;
		sparse = sparse->next;
		free(old);
	}
}

void harness(void)
{
	tar_header_decoded_t out;
	unsigned int set_by_pax = 0;
	int ret;

	memset(&out, 0, sizeof(out));

	ret = read_pax_header(&g_strm, ENTSIZE, &set_by_pax, &out);

	VERIF_ASSERT(ret == 0 || ret == -1, "C07.pax.status_domain");
	VERIF_ASSERT((set_by_pax & ~g_flags_applied) == 0, "C07.pax.flags");
	VERIF_ASSERT(ret != 0 || set_by_pax == g_flags_applied,
		     "C07.pax.flags");

	VERIF_COVER(ret == 0 && set_by_pax == 0);
	VERIF_COVER(ret == 0 && set_by_pax != 0);
	VERIF_COVER(ret == -1 && g_buf != NULL);
#if ENTSIZE >= 24
	VERIF_COVER(ret == 0 && out.sparse != NULL);
#endif
	free_sparse_list(out.sparse);
}
