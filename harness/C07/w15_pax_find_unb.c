/* C07 (w15): find_handler (static, lib/tar/src/pax_header.c) for EVERY
 * NUL-terminated key in an object of n <= KEY_MAX (4096) bytes (symbolic size
 * and contents) - the bounded harness pax_apply had key suffix <= 2 bytes.
 * Its loop runs over the 14 rows of the handler table and strcmp / strncmp /
 * strlen walk at most to the end of a row name (<= 19 bytes): constants of
 * the code, unwound completely (unwinding assertions) - for a key of any
 * length.
 *
 *  C07.pax_find_unb.row     NULL, or a row of pax_fields whose name the key
 *                           carries: plain rows - key == name; the two
 *                           PREFIXED_XATTR rows - key starts with name and
 *                           '.', so key + strlen(name) + 1 (what
 *                           apply_handler hands to sqfs_xattr_create) still
 *                           lies inside the key string. Name bytes are
 *                           compared for an arbitrary witness position.
 *  memory safety: every read of the key is inside the n-byte object
 */
#include <stdlib.h>
#include <string.h>
#include <ctype.h>
#include "verif.h"
#include "lib/tar/src/pax_header.c"

#ifndef KEY_MAX
#define KEY_MAX 4096
#endif
#define NROWS (sizeof(pax_fields) / sizeof(pax_fields[0]))

char *record_to_memory(sqfs_istream_t *fp, size_t size) { (void)fp; (void)size; VERIF_ASSERT(0, "C07.pax_find_unb.unexpected_callee"); return NULL; }
int parse_uint(const char *in, size_t len, size_t *diff, sqfs_u64 vmin, sqfs_u64 vmax, sqfs_u64 *out) { (void)in; (void)len; (void)diff; (void)vmin; (void)vmax; (void)out; VERIF_ASSERT(0, "C07.pax_find_unb.unexpected_callee"); return -1; }
int parse_int(const char *in, size_t len, size_t *diff, sqfs_s64 vmin, sqfs_s64 vmax, sqfs_s64 *out) { (void)in; (void)len; (void)diff; (void)vmin; (void)vmax; (void)out; VERIF_ASSERT(0, "C07.pax_find_unb.unexpected_callee"); return -1; }
sqfs_xattr_t *sqfs_xattr_create(const char *key, const sqfs_u8 *value, size_t value_len) { (void)key; (void)value; (void)value_len; VERIF_ASSERT(0, "C07.pax_find_unb.unexpected_callee"); return NULL; }
int base64_decode(const char *in, size_t in_len, sqfs_u8 *out, size_t *out_len) { (void)in; (void)in_len; (void)out; (void)out_len; VERIF_ASSERT(0, "C07.pax_find_unb.unexpected_callee"); return -1; }
int hex_decode(const char *in, size_t in_sz, sqfs_u8 *out, size_t out_sz) { (void)in; (void)in_sz; (void)out; (void)out_sz; VERIF_ASSERT(0, "C07.pax_find_unb.unexpected_callee"); return -1; }
void free_sparse_list(sparse_map_t *sparse) { (void)sparse; VERIF_ASSERT(0, "C07.pax_find_unb.unexpected_callee"); }

void harness(void)
{
	size_t n = verif_nd_size("n"), L = verif_nd_size("L"), w = verif_nd_size("w");
	const struct pax_handler_t *found;
	char *key;

	VERIF_ASSUME(n >= 1 && n <= KEY_MAX);
	key = malloc(n);
	VERIF_ASSUME(key != NULL);
	VERIF_ASSUME(L < n && key[L] == 0);

	found = find_handler(key);

	if (found != NULL) {
		size_t idx, nl;

		VERIF_ASSERT(found >= pax_fields && found < pax_fields + NROWS,
			     "C07.pax_find_unb.row");
		idx = (size_t)(found - pax_fields);
		VERIF_ASSUME(idx < NROWS);
		nl = strlen(pax_fields[idx].name);
		VERIF_ASSERT(nl <= L, "C07.pax_find_unb.row");
		if (pax_fields[idx].type == PAX_TYPE_PREFIXED_XATTR)
			VERIF_ASSERT(nl + 1 <= L && key[nl] == '.', "C07.pax_find_unb.row");
		else
			VERIF_ASSERT(key[nl] == 0, "C07.pax_find_unb.row");
		if (w < nl)
			VERIF_ASSERT(key[w] == pax_fields[idx].name[w], "C07.pax_find_unb.row");
		VERIF_COVER(idx == 0);
		VERIF_COVER(idx == 11 && L > 40);
		VERIF_COVER(idx == 12 && L > 40);
		VERIF_COVER(idx == 13);
	} else {
		VERIF_COVER(L > 40);
		VERIF_COVER(L == 0);
	}
}
