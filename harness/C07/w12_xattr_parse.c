/* C07 / C01: parse_file_name and parse_xattr of
 * bin/gensquashfs/src/filemap_xattr.c - the two line handlers of the
 * `--xattr-file` parser. One real function per case:
 *
 * PART 0  parse_file_name on the line "# file: " + NLEN fully symbolic bytes
 *         (NUL-terminated), a map that already holds PRE (0/1) patterns.
 *         canonicalize_name is its contract (C18: 0 / -1, in place, never
 *         grows, may shrink); every allocation may fail.
 * PART 1  parse_xattr on key (KLEN symbolic bytes) and value text (VLEN
 *         symbolic bytes), a map with PRE (0/1) patterns, the current
 *         pattern holding 0/1 entries. decode() is replaced by its contract
 *         (stub_decode: NULL, or a fresh buffer with a length <= the text
 *         length - harnesses w12_xattr_decode / C01 w12_xattr_value),
 *         sqfs_xattr_create is a contract stub recording its arguments.
 *
 *  C07.xattr_file.status_domain   0 or -1
 *  C07.xattr_file.fail_unchanged  on -1 the map is exactly what it was: same
 *                                 pattern list head, same entry list - a
 *                                 refused line is never half-applied and
 *                                 never leaves a dangling node behind
 *  C07.xattr_file.name_fail_unchanged  the same for a refused `# file:` line:
 *                                 the pattern list head is the old one (not
 *                                 a pointer to a node that was just freed)
 *  C07.xattr_file.no_file_refused a key=value line in front of any
 *                                 `# file:` line is refused, nothing decoded
 *  C01.xattr_file.name_canon      success: the new pattern is first in the
 *                                 list, the old list behind it, no entries,
 *                                 and its path is the buffer canonicalize_name
 *                                 accepted, which held exactly the bytes
 *                                 behind "# file: "
 *  C01.xattr_file.kv_exact        sqfs_xattr_create gets the key text, and
 *                                 exactly the buffer and the length decode
 *                                 delivered (readable for that length);
 *                                 success: that entry is first in the
 *                                 current pattern's list, the older entries
 *                                 behind it, the pattern list untouched
 *  nothing leaks, the decoded buffer is released on every path
 *  (--memory-leak-check)
 */
#include <stdlib.h>
#include <string.h>
#include "verif.h"
#include "bin/gensquashfs/src/filemap_xattr.c"

#ifndef PART
#define PART 0
#endif
#ifndef PRE
#define PRE 1
#endif
#ifndef NLEN
#define NLEN 3
#endif
#ifndef KLEN
#define KLEN 2
#endif
#ifndef VLEN
#define VLEN 3
#endif
#define PFXLEN 8

static char g_line[PFXLEN + NLEN + 1];
static char g_key[KLEN + 1], g_value[VLEN + 1];
static struct XattrMap g_map;
static struct XattrMapPattern g_pat0;
static sqfs_xattr_t g_ent0;
static char g_path0[2];

static char *g_canon_arg;
static int g_canon_calls, g_canon_ret, g_canon_copy_ok;
static sqfs_u8 *g_dec;
static size_t g_dec_len;
static int g_dec_calls, g_create_calls, g_create_ok;
static sqfs_xattr_t *g_created;

int canonicalize_name(char *filename)
{
	size_t i, cut;

	++g_canon_calls;
	g_canon_arg = filename;
	g_canon_copy_ok = !VERIF_SAME_OBJECT(filename, g_line);
	for (i = 0; i <= NLEN; ++i) {
		if (filename[i] != g_line[PFXLEN + i])
			g_canon_copy_ok = 0;
		if (g_line[PFXLEN + i] == '\0')
			break;
	}
	/* in place, never grows */
	cut = verif_nd_size("canon.cut");
	if (cut <= NLEN && cut <= strlen(filename))
		filename[cut] = '\0';
	g_canon_ret = verif_nd_bool("canon.fail") ? -1 : 0;
	return g_canon_ret;
}

/* contract of decode() (replaces the static function in PART 1) */
sqfs_u8 *stub_decode(const char *filename, size_t line_num,
		     const char *value, size_t *size)
{
	size_t n;

	(void)filename; (void)line_num;
	++g_dec_calls;
	VERIF_ASSERT(value == g_value && *size == strlen(g_value),
		     "C07.xattr_file.decode_pre");
	if (verif_nd_bool("decode.refuse"))
		return NULL;
	n = verif_nd_size("decode.len");
	VERIF_ASSUME(n <= *size);
	g_dec = malloc(VLEN + 1);
	if (g_dec == NULL)
		return NULL;
	verif_nd_bytes(g_dec, VLEN + 1, "decode.bytes");
	g_dec_len = n;
	*size = n;
	return g_dec;
}

sqfs_xattr_t *sqfs_xattr_create(const char *key, const sqfs_u8 *value,
				size_t value_len)
{
	++g_create_calls;
	g_create_ok = (key == g_key && g_dec != NULL && value == g_dec &&
		       value_len == g_dec_len && VERIF_R_OK(value, value_len));
	g_created = malloc(sizeof(*g_created));
	if (g_created == NULL)
		return NULL;
	memset(g_created, 0, sizeof(*g_created));
	g_created->key = key;
	g_created->value_len = value_len;
	return g_created;
}

int hex_decode(const char *in, size_t in_sz, sqfs_u8 *out, size_t out_sz)
{
	(void)in; (void)in_sz; (void)out; (void)out_sz;
	VERIF_ASSERT(0, "C07.xattr_file.unexpected_callee");
	return -1;
}

int base64_decode(const char *in, size_t in_len, sqfs_u8 *out,
		  size_t *out_len)
{
	(void)in; (void)in_len; (void)out; (void)out_len;
	VERIF_ASSERT(0, "C07.xattr_file.unexpected_callee");
	return -1;
}

void harness(void)
{
	struct XattrMapPattern *old_head = NULL, *np;
	sqfs_xattr_t *old_ent = NULL;
	int ret;

	g_canon_arg = NULL;
	g_canon_calls = 0;
	g_canon_ret = 0;
	g_canon_copy_ok = 0;
	g_dec = NULL;
	g_dec_len = 0;
	g_dec_calls = 0;
	g_create_calls = 0;
	g_create_ok = 0;
	g_created = NULL;

	memset(&g_map, 0, sizeof(g_map));
	memset(&g_pat0, 0, sizeof(g_pat0));
	memset(&g_ent0, 0, sizeof(g_ent0));
	g_path0[0] = 'p';
	g_path0[1] = '\0';
#if PRE
	g_pat0.path = g_path0;
	if (verif_nd_bool("pre.has_entry")) {
		g_pat0.entries = &g_ent0;
		old_ent = &g_ent0;
	}
	g_map.patterns = &g_pat0;
	old_head = &g_pat0;
#endif

#if PART == 0
	memcpy(g_line, NEW_FILE_START, PFXLEN);
	verif_nd_bytes(g_line + PFXLEN, NLEN, "name");
	g_line[PFXLEN + NLEN] = '\0';

	ret = parse_file_name("xattrs", 3, g_line, &g_map);

	VERIF_ASSERT(ret == 0 || ret == -1, "C07.xattr_file.status_domain");
	if (ret == 0) {
		np = g_map.patterns;
		VERIF_ASSERT(np != NULL && np != old_head &&
			     np->next == old_head && np->entries == NULL,
			     "C01.xattr_file.name_canon");
		VERIF_ASSERT(g_canon_calls == 1 && g_canon_ret == 0 &&
			     g_canon_copy_ok && np->path == g_canon_arg,
			     "C01.xattr_file.name_canon");
		VERIF_COVER(strlen(np->path) == NLEN);
		VERIF_COVER(strlen(np->path) == 0);
		free(np->path);
		free(np);
	} else {
		VERIF_ASSERT(g_map.patterns == old_head,
			     "C07.xattr_file.name_fail_unchanged");
		VERIF_COVER(g_canon_calls == 1);
		VERIF_COVER(g_canon_calls == 0);
	}
#if PRE
	VERIF_ASSERT(g_pat0.entries == old_ent && g_pat0.next == NULL &&
		     g_pat0.path == g_path0, "C07.xattr_file.fail_unchanged");
#endif
#else
	verif_nd_bytes(g_key, KLEN, "key");
	g_key[KLEN] = '\0';
	verif_nd_bytes(g_value, VLEN, "value");
	g_value[VLEN] = '\0';

	ret = parse_xattr("xattrs", 3, g_key, g_value, &g_map);

	VERIF_ASSERT(ret == 0 || ret == -1, "C07.xattr_file.status_domain");
	VERIF_ASSERT(g_map.patterns == old_head,
		     "C07.xattr_file.fail_unchanged");
#if PRE
	VERIF_ASSERT(g_pat0.next == NULL && g_pat0.path == g_path0,
		     "C07.xattr_file.fail_unchanged");
	VERIF_ASSERT(g_create_calls == 0 || g_create_ok,
		     "C01.xattr_file.kv_exact");
	if (ret == 0) {
		VERIF_ASSERT(g_dec_calls == 1 && g_create_calls == 1 &&
			     g_created != NULL &&
			     g_pat0.entries == g_created &&
			     g_created->next == old_ent,
			     "C01.xattr_file.kv_exact");
		VERIF_COVER(old_ent != NULL && g_dec_len == VLEN);
		VERIF_COVER(g_dec_len == 0);
		free(g_created);
	} else {
		VERIF_ASSERT(g_pat0.entries == old_ent,
			     "C07.xattr_file.fail_unchanged");
		VERIF_COVER(g_dec_calls == 1 && g_dec == NULL);
		VERIF_COVER(g_create_calls == 1);
		free(g_created);
	}
#else
	VERIF_ASSERT(ret == -1 && g_dec_calls == 0 && g_create_calls == 0,
		     "C07.xattr_file.no_file_refused");
	VERIF_COVER(ret == -1);
#endif
#endif
}
