/* Contracts of what lib/tar/src/iterator.c calls outside its own file.
 * Include after the real file. */
#ifndef C07_ITER_ENV_H
#define C07_ITER_ENV_H
#include <stdlib.h>
#include <string.h>
#include "verif.h"

static sqfs_istream_t g_src;		/* the archive stream */
static int g_rh_calls, g_skip_calls;
static sqfs_u64 g_skip_sz[2];
static char *g_canon_arg;		/* last name canonicalised */
static int g_canon_ok;

int sqfs_istream_skip(sqfs_istream_t *strm, sqfs_u64 size)
{
	int r;

	VERIF_ASSERT(strm == &g_src, "C07.env.stream");
	if (g_skip_calls < 2)
		g_skip_sz[g_skip_calls] = size;
	++g_skip_calls;
	r = verif_nd_int("skip.ret");
	return r;
}

void clear_header(tar_header_decoded_t *hdr)
{
	free(hdr->name);
	free(hdr->link_target);
	VERIF_ASSERT(hdr->sparse == NULL && hdr->xattr == NULL,
		     "C07.env.clear_header_lists");
	memset(hdr, 0, sizeof(*hdr));
}

#ifndef ITER_NAMELEN
#define ITER_NAMELEN 3
#endif

/* contract of read_header (harness read_header): < 0, 1 (EOF, *out
 * cleared), or 0 with name != NULL and arbitrary decoded fields */
int read_header(sqfs_istream_t *fp, tar_header_decoded_t *out)
{
	int r;

	VERIF_ASSERT(fp == &g_src, "C07.env.stream");
	VERIF_ASSERT(out->name == NULL && out->link_target == NULL &&
		     out->sparse == NULL && out->xattr == NULL,
		     "C07.it_next.header_cleared_first");
	++g_rh_calls;
	/* bound of the harness */
	VERIF_ASSUME(g_rh_calls <= ITER_MAXHDR);
	r = verif_nd_int("rh.ret");
	memset(out, 0, sizeof(*out));
	if (r != 0) {
		VERIF_ASSUME(r < 0 || r == 1);
		return r;
	}
	out->name = malloc(ITER_NAMELEN + 1);
	VERIF_ASSUME(out->name != NULL);
	verif_nd_bytes(out->name, ITER_NAMELEN, "rh.name");
	out->name[ITER_NAMELEN] = '\0';
	out->record_size = verif_nd_u64("rh.record_size");
	out->actual_size = verif_nd_u64("rh.actual_size");
	out->unknown_record = verif_nd_bool("rh.unknown");
	out->is_hard_link = verif_nd_bool("rh.hl");
	out->mode = verif_nd_u16("rh.mode");
	out->uid = verif_nd_u64("rh.uid");
	out->gid = verif_nd_u64("rh.gid");
	out->devno = verif_nd_u64("rh.devno");
	out->mtime = verif_nd_i64("rh.mtime");
	return 0;
}

/* contract of canonicalize_name (proved in C18): 0 or -1, string never
 * grows */
int canonicalize_name(char *filename)
{
	VERIF_ASSERT(filename != NULL, "C07.tar.name_canon");
	g_canon_arg = filename;
	g_canon_ok = 0;
	if (verif_nd_bool("canon.fail"))
		return -1;
	if (verif_nd_bool("canon.shrink"))
		filename[0] = '\0';
	g_canon_ok = 1;
	return 0;
}

int fnmatch(const char *pattern, const char *string, int flags)
{
	VERIF_ASSERT(pattern != NULL && string != NULL && flags == 0,
		     "C07.it_next.fnmatch_pre");
	VERIF_ASSERT(string == g_canon_arg && g_canon_ok,
		     "C07.tar.name_canon");
	return verif_nd_bool("fnmatch") ? 0 : 1;
}

typedef struct {
	sqfs_dir_entry_t e;
	char name[ITER_NAMELEN + 1];
} dirent_box_t;

sqfs_dir_entry_t *sqfs_dir_entry_create(const char *name, sqfs_u16 mode,
					sqfs_u16 flags)
{
	dirent_box_t *b;
	size_t i;

	/* the name handed on is the one that went through
	 * canonicalize_name, and that call succeeded */
	VERIF_ASSERT(name == g_canon_arg && g_canon_ok,
		     "C07.tar.name_canon");
	VERIF_ASSERT(flags == 0, "C07.it_next.entry_flags");
	b = malloc(sizeof(*b));
	if (b == NULL)
		return NULL;
	memset(b, 0, sizeof(*b));
	b->e.mode = mode;
	for (i = 0; i < ITER_NAMELEN; ++i) {
		b->e.name[i] = name[i];
		if (name[i] == '\0')
			break;
	}
	return &b->e;
}

sqfs_xattr_t *sqfs_xattr_list_copy(const sqfs_xattr_t *list)
{
	(void)list;
	return NULL;
}

xfrm_stream_t *decompressor_stream_create(int id)
{
	(void)id;
	return NULL;
}

sqfs_istream_t *istream_xfrm_create(sqfs_istream_t *strm, xfrm_stream_t *xfrm)
{
	(void)strm; (void)xfrm;
	return NULL;
}

int xfrm_compressor_id_from_magic(const void *data, size_t count)
{
	VERIF_ASSERT(VERIF_R_OK(data, count), "C07.probe.magic_pre");
	return verif_nd_int("magic");
}

#endif
