/* shorthands used by the clause text of contracts/loops/C07_w15.tbl */
#ifndef W15_LOOPS_H
#define W15_LOOPS_H
#define W15_OFF(p) __CPROVER_POINTER_OFFSET(p)
#define W15_SAME(p, q) __CPROVER_same_object((p), (q))
#define W15_LE(x) __CPROVER_loop_entry(x)
#endif
