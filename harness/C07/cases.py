PROPERTY = "C07"
LEVEL = "proof"
FUNCTIONS = [
    # lib/tar
    "read_octal", "read_binary", "read_number", "tar_compute_checksum",
    "is_checksum_valid", "check_version", "decode_header", "read_header",
    "record_to_memory", "read_pax_header", "find_handler", "apply_handler",
    "pax_uid/gid/size/mtime/rsize/path/slink", "pax_xattr_schily",
    "pax_sparse_map", "pax_xattr_libarchive", "urldecode",
    "parse (read_sparse_map_old.c)", "read_gnu_old_sparse",
    "decode (read_sparse_map_new.c)", "read_gnu_new_sparse",
    "it_next", "strm_get_buffered_data", "strm_advance_buffer",
    "is_sparse_region", "drop_parent", "tar_probe",
    # lib/util
    "parse (parse_int.c)", "parse_uint", "parse_uint_oct", "parse_int",
    "hex_decode", "base64_decode", "split_line", "append_arg",
    "istream_get_line", "ltrim", "rtrim", "trim",
    # gensquashfs
    "handle_line", "add_generic", "add_device", "add_file",
    "split_line_remove_front", "decode_priority", "decode_filename",
    "decode_flags",
    # lib/fstree
    "resolve_link",
]
TRUSTED = [
    "CBMC library models of memcmp/memset/memmove/strlen/strcmp/strncmp/strchr/strcpy/strdup/malloc/calloc/free/fputs/perror/fprintf",
    "ctype.h: compiled with -D__NO_CTYPE so that isspace/isdigit/isxdigit/isupper/islower are CBMC's function models (C locale) instead of glibc's table macros",
    "harness models of strnlen/strndup (their definitions) and of glibc's gnu_dev_major/minor/makedev encoding",
    "strtol contract (pax_loop): consumes any prefix of the NUL-terminated string, returns any value - a superset of the C standard behaviour",
    "sqfs_istream_t contract: sqfs_istream_read returns <0, or the number of bytes stored (= size, or fewer at end of stream); get_buffered_data returns <0, >0 (EOF) or 0 with a window of at least one byte; sqfs_istream_skip any result",
    "realloc contract in get_line: NULL or a fresh block of exactly the requested size holding the old prefix (size made concrete per case)",
    "sqfs_xattr_create: libsquashfs block layout key NUL value NUL in one allocation; sqfs_dir_entry_create, alloc_flex: NULL or a fresh zeroed object",
    "contracts of fstree_get_node_by_path (a function of the path: some node of the universe or NULL), fstree_add_generic, glob_files, canonicalize_name (proved in C18: 0/-1, never grows), fnmatch, clear_header",
    "inter-harness contracts used as stubs and discharged by their own harness in this property: read_number (number), tar_compute_checksum (checksum), record_to_memory (record_to_memory), read_pax_header (pax_loop), decode (decode_safety + decode_spec), find_handler/apply_handler (pax_apply), parse_int/parse_uint (parse_int), base64_decode (base64), hex_decode (hex_decode), split_line (split_line)",
]
ASSUMPTIONS = [
    "whole-program composition (tar2sqfs/gensquashfs main, option parsing, the decompressor libraries, glob.c, filemap_xattr.c) is not covered; 'no output file on failure' is C13.cleanup.unlinks",
    "termination is proved per loop (decreases clauses / complete unwinding) or bounded; wall-clock time is not a notion here",
    "new_sparse: decode() is replaced by its contract, stated over the ghost 'digit run length at this stream position'; the contract's memory-safety half is proved unbounded (decode_safety), its functional half (result determined by the digit run, rescan consistency) only bounded (decode_spec, all strings <= 8 bytes quick / 10 thorough). A direct quantified loop invariant for decode exhausted SAT (>14 GB) and z3 (>5 min)",
    "new_sparse: calloc/free_sparse_list are abstracted by one summary node (the function never reads a node field); list shape of the other sparse parsers is checked with the real allocator, bounded",
    "bounded harnesses (labels): read_header <= 2/3 header records per call, pax_loop records <= 16/24 bytes, pax_apply/pax_xattr/pax_sparse_map small values, old_sparse <= 1/2 extension records, split_line <= 4/6 bytes, get_line <= 2 windows of <= 3 bytes, iter_next <= 2/3 headers, iter_strm sparse maps <= 2/3 entries, handle_line <= 9 tokens, sort_decode lines <= 5/8 bytes, hardlink graphs <= 3/4 nodes, decode_spec <= 8/10 bytes",
    "read_header/pax harnesses run without --conversion-check: the flagged conversions are the intended `-1 -> SIZE_MAX` length idiom and the defined unsigned narrowing of devmajor/devminor in makedev(); signed overflow stays checked (it found the mtime negation defect)",
    "record_to_memory's result is modelled by an 8-byte string in read_header (callers there treat it as opaque; symbolic 64 KiB allocations exhaust the solver); record_to_memory itself is proved for every size 1..65536",
    "observations, not obligations: parse_uint_oct(\"8\", diff != NULL) succeeds with value 0 and diff 0; the tar file stream answers want == 0 with an empty window (never requested by its users); a sparse data entry that extends past the declared real size is served in full (the file gets longer)",
]
EXPLANATION = ("every parser on the untrusted-input path is verified function by function on fully symbolic bytes: "
               "number/checksum/header decoders, record_to_memory, parse_int, hex/base64 decoders and the GNU 1.0 sparse "
               "map reader are proved for all inputs (loop contracts or loops unwound to format constants); the "
               "list-building parsers (PAX, old sparse, split_line, get_line, pack/sort file lines) and resolve_link are "
               "bounded symbolic checks with the bound in the label")

CT = {"__NO_CTYPE": None}   # ctype.h as functions (CBMC models), not glibc table macros

def _pax(n, tier, label):
    return dict(id="ent%d" % n, defines={"ENTSIZE": n, "__NO_CTYPE": None}, tier=tier, label=label,
                unwind=max(n + 3, 23),
                # loops are numbered by back edge: .0 white-space skip, .1 key scan, .2 the line loop
                unwindset=["read_pax_header.0:%d" % (n + 2), "read_pax_header.1:%d" % (n + 2),
                           "read_pax_header.2:%d" % (n // 5 + 2), "free_sparse_list.0:%d" % (n // 5 + 4)])

HARNESSES = [
    dict(name="number", file="number.c", label="proved", defines=CT,
         flags=["--unsigned-overflow-check"], timeout=600,
         cases=[dict(id="w8", defines={"DIGITS": 8}, unwind=9, tier="quick"),
                dict(id="w12", defines={"DIGITS": 12}, unwind=13, tier="quick")]),
    dict(name="checksum", file="checksum.c", label="proved", unwind=513,
         flags=["--unsigned-overflow-check"], timeout=900,
         cases=[dict(id="hdr512", tier="quick")]),
    dict(name="decode_header", file="decode_header.c", label="proved", defines=CT,
         unwind=513, malloc_fail=True, timeout=600, weight=6,
         nochecks=["--conversion-check"],
         cases=[dict(id="hdr512", tier="quick")]),
    dict(name="record_to_memory", file="record_to_memory.c", label="proved",
         malloc_fail=True, flags=["--memory-leak-check", "--unsigned-overflow-check"],
         unwind=2, timeout=600,
         cases=[dict(id="all", tier="quick")]),
    dict(name="new_sparse", file="new_sparse.c", label="proved", defines=CT,
         loops=["read_gnu_new_sparse"], fp={"get_filename": "env_get_filename"},
         pre_instrument_flags=["--replace-calls", "decode:stub_decode"],
         native=False, timeout=900, weight=5,
         cases=[dict(id="unbounded", tier="quick")]),
    dict(name="decode_safety", file="decode_safety.c", label="proved", defines=CT,
         loops=["decode"], timeout=600,
         cases=[dict(id="max1024", tier="quick")]),
    dict(name="decode_spec", file="decode_spec.c", label="bounded(len<=8)", defines=CT,
         timeout=900,
         cases=[dict(id="len4", defines={"LEN": 4, "__NO_CTYPE": None}, unwind=5, tier="quick"),
                dict(id="len8", defines={"LEN": 8, "__NO_CTYPE": None}, unwind=9, tier="quick"),
                dict(id="len10", defines={"LEN": 10, "__NO_CTYPE": None}, unwind=11, tier="thorough",
                     label="bounded(len<=10)")]),
    dict(name="parse_int", file="parse_int.c", label="proved", defines=CT,
         loops=["parse"], timeout=900,
         cases=[dict(id="max4096", tier="quick")]),
    dict(name="hex_decode", file="hex_decode.c", label="proved", defines=CT,
         loops=["hex_decode"], timeout=900,
         cases=[dict(id="max4096", tier="quick")]),
    dict(name="base64", file="base64.c", label="proved", defines=CT,
         loops=["base64_decode"], timeout=900,
         cases=[dict(id="separate", tier="quick"),
                dict(id="inplace", defines={"INPLACE": 1, "__NO_CTYPE": None}, tier="quick")]),
    dict(name="split_line", file="split_line.c", label="bounded(len<=4)",
         malloc_fail=True, flags=["--memory-leak-check"], timeout=1500, weight=8,
         cases=[dict(id="len%d" % n, defines={"LEN": n}, unwind=n + 3, tier="quick")
                for n in (1, 2, 3, 4)] +
               [dict(id="len%d" % n, defines={"LEN": n}, unwind=n + 3, tier="thorough",
                     label="bounded(len<=6)") for n in (5, 6)]),
    dict(name="get_line", file="get_line.c", label="bounded(windows <= 2 x 3 bytes)", defines=CT,
         flags=["--memory-leak-check"], timeout=1200, weight=4, unwind=8,
         fp={"get_buffered_data": "env_get_buffered_data", "advance_buffer": "env_advance_buffer"},
         cases=[dict(id="w2c2", defines={"WIN": 2, "CHUNKS": 2, "__NO_CTYPE": None}, tier="quick"),
                dict(id="w3c2", defines={"WIN": 3, "CHUNKS": 2, "__NO_CTYPE": None}, tier="thorough"),
                dict(id="w2c3", defines={"WIN": 2, "CHUNKS": 3, "__NO_CTYPE": None}, tier="thorough")]),
    dict(name="pax_loop", file="pax_loop.c", label="bounded(PAX record <= 16 bytes)", defines=CT,
         pre_instrument_flags=["--replace-calls", "find_handler:stub_find_handler",
                               "--replace-calls", "apply_handler:stub_apply_handler"],
         malloc_fail=True, flags=["--memory-leak-check"], timeout=1500, weight=9,
         nochecks=["--conversion-check"],   # parse_uint(value, -1, ..): int -1 -> size_t is the intended idiom
         cases=[_pax(n, "quick", "bounded(PAX record <= 16 bytes)") for n in (6, 12, 16)] +
               [_pax(n, "thorough", "bounded(PAX record <= 24 bytes)") for n in (20, 24)]),
    dict(name="pax_apply", file="pax_apply.c", label="bounded(value <= 3 bytes, key suffix <= 2)", defines=CT,
         malloc_fail=True, flags=["--memory-leak-check"], timeout=600, unwind=24,
         nochecks=["--conversion-check"],   # parse_*(value, -1, ..): int -1 -> size_t is the intended idiom
         fp={"sint": "pax_mtime", "uint": ["pax_uid", "pax_gid", "pax_size", "pax_rsize"],
             "str": ["pax_path", "pax_slink"], "cstr": "pax_sparse_map",
             "xattr": ["pax_xattr_schily", "pax_xattr_libarchive"]},
         cases=[dict(id="row%d" % i, defines={"IDX": i, "__NO_CTYPE": None}, tier="quick")
                for i in range(12)]),
    dict(name="pax_sparse_map", file="pax_sparse_map.c", label="bounded(map text <= 8 bytes)", defines=CT,
         malloc_fail=True, flags=["--memory-leak-check"], timeout=900, nochecks=["--conversion-check"],
         fp={"sint": "pax_mtime", "uint": ["pax_uid", "pax_gid", "pax_size", "pax_rsize"],
             "str": ["pax_path", "pax_slink"], "cstr": "pax_sparse_map",
             "xattr": ["pax_xattr_schily", "pax_xattr_libarchive"]},
         cases=[dict(id="len%d" % n, defines={"LLEN": n, "__NO_CTYPE": None}, unwind=max(n + 3, 6), tier="quick")
                for n in (3, 6, 8)] +
               [dict(id="len12", defines={"LLEN": 12, "__NO_CTYPE": None}, unwind=15, tier="thorough",
                     label="bounded(map text <= 12 bytes)")]),
    dict(name="pax_xattr", file="pax_xattr.c", label="bounded(key suffix <= 4, value <= 4 bytes)", defines=CT,
         malloc_fail=True, flags=["--memory-leak-check"], timeout=900, nochecks=["--conversion-check"],
         unwind=19,
         fp={"sint": "pax_mtime", "uint": ["pax_uid", "pax_gid", "pax_size", "pax_rsize"],
             "str": ["pax_path", "pax_slink"], "cstr": "pax_sparse_map",
             "xattr": ["pax_xattr_schily", "pax_xattr_libarchive"]},
         cases=[dict(id="k4v4", defines={"KLEN": 4, "VLEN": 4, "__NO_CTYPE": None}, tier="quick"),
                dict(id="k7v8", defines={"KLEN": 7, "VLEN": 8, "__NO_CTYPE": None}, tier="thorough",
                     label="bounded(key suffix <= 7, value <= 8 bytes)")]),
    dict(name="old_sparse", file="old_sparse.c", label="bounded(extension records <= 2)", defines=CT,
         malloc_fail=True, flags=["--memory-leak-check"], timeout=900, unwind=513, weight=4,
         fp={"get_filename": "env_get_filename"},
         cases=[dict(id="ext1", defines={"EXT": 1, "__NO_CTYPE": None}, tier="quick",
                     unwindset=["parse.0:22", "read_gnu_old_sparse.0:2", "free_sparse_list.0:27"]),
                dict(id="ext2", defines={"EXT": 2, "__NO_CTYPE": None}, tier="thorough",
                     unwindset=["parse.0:22", "read_gnu_old_sparse.0:3", "free_sparse_list.0:48"])]),
    dict(name="iter_probe", file="iter_probe.c", label="proved", defines=CT, unwind=513, timeout=600,
         fp={"*": "env_never"},
         cases=[dict(id="max1100", tier="quick")]),
    dict(name="iter_next", file="iter_next.c", label="bounded(headers per call <= 3, exclude patterns <= 1)", defines=CT,
         malloc_fail=True, flags=["--memory-leak-check"], timeout=900, unwind=5, fp={"*": "env_never"},
         cases=[dict(id="h2", defines={"ITER_MAXHDR": 2, "__NO_CTYPE": None}, tier="quick"),
                dict(id="h3", defines={"ITER_MAXHDR": 3, "__NO_CTYPE": None}, tier="thorough"),
                dict(id="h2nex0", defines={"ITER_MAXHDR": 2, "NEX": 0, "__NO_CTYPE": None}, tier="quick")]),
    dict(name="iter_strm", file="iter_strm.c", label="bounded(sparse map entries <= 3)", defines=CT,
         timeout=900, unwind=5,
         fp={"get_buffered_data": "env_get_buffered_data", "advance_buffer": "env_advance_buffer",
             "destroy": "it_destroy", "*": "env_never"},
         cases=[dict(id="n%d" % n, defines={"NSPARSE": n, "__NO_CTYPE": None}, tier="quick") for n in (0, 1, 2)] +
               [dict(id="n3", defines={"NSPARSE": 3, "__NO_CTYPE": None}, tier="thorough",
                     timeout=3600)]),   # ~15 min of solver time
    dict(name="handle_line", file="handle_line.c", label="bounded(tokens <= 9, token bytes <= 5)", defines=CT,
         include_dirs=["bin/gensquashfs/src"], malloc_fail=True, flags=["--memory-leak-check"],
         nochecks=["--conversion-check"],   # parse_*(s, -1, ..) idiom, makedev narrowing
         timeout=900, unwind=10, fp={"callback": ["add_generic", "add_device", "add_file"]},
         cases=[dict(id="args%d" % n, defines={"NARGS": n, "__NO_CTYPE": None}, tier="quick")
                for n in (0, 4, 5, 6, 8)] +
               [dict(id="args%d" % n, defines={"NARGS": n, "__NO_CTYPE": None}, tier="thorough")
                for n in (1, 7, 9)]),
    dict(name="sort_decode", file="sort_decode.c", label="bounded(line <= 5 bytes)", defines=CT, weight=8,
         include_dirs=["bin/gensquashfs/src"], malloc_fail=True, flags=["--memory-leak-check"],
         timeout=900, fp={"*": "env_never"},
         cases=[dict(id="%s_len%d" % (nm, n), defines={"PART": part, "LEN": n, "__NO_CTYPE": None},
                     unwind=max(n + 3, 17 if part == 2 else 0), tier="quick",
                     **({"unwindset": ["decode_flags.1:4"]} if part == 2 else {}))
                for part, nm in ((0, "priority"), (1, "filename"), (2, "flags")) for n in (3, 5)
                if not (part == 2 and n == 3)] +
               [dict(id="flags_len3", defines={"PART": 2, "LEN": 3, "__NO_CTYPE": None}, unwind=17,
                     unwindset=["decode_flags.1:4"], tier="thorough")] +
               [dict(id="flags_kw%d" % k, defines={"PART": 2, "KW": k, "__NO_CTYPE": None}, unwind=27, tier="quick",
                     unwindset=["decode_flags.1:3"], label="bounded(one keyword)") for k in range(6)] +
               [dict(id="%s_len%d" % (nm, 8), defines={"PART": part, "LEN": 8, "__NO_CTYPE": None},
                     unwind=max(11, 17 if part == 2 else 0), tier="thorough", label="bounded(line <= 8 bytes)")
                for part, nm in ((0, "priority"), (1, "filename"))]),
    dict(name="read_header", file="read_header.c", label="bounded(header records per call <= 3)",
         defines=CT, unwind=513, malloc_fail=True, timeout=900, weight=7,
         nochecks=["--conversion-check"],
         cases=[dict(id="rec2", defines={"MAXREC": 2}, unwindset=["read_header.0:3"], tier="quick"),
                dict(id="rec3", defines={"MAXREC": 3}, unwindset=["read_header.0:4"], tier="thorough")]),
    dict(name="hardlink", file="hardlink.c", label="bounded(link graph nodes <= 4)",
         timeout=900, weight=8,
         cases=[dict(id="n2", defines={"NODES": 2}, unwind=6, tier="quick"),
                dict(id="n3", defines={"NODES": 3}, unwind=8, tier="quick"),
                dict(id="n4", defines={"NODES": 4}, unwind=10, tier="thorough")]),
]
