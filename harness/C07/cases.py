PROPERTY = "C07"
LEVEL = "proof"
FUNCTIONS = []
TRUSTED = []
ASSUMPTIONS = []
EXPLANATION = ""

CT = {"__NO_CTYPE": None}   # ctype.h as functions (CBMC models), not glibc table macros

def _pax(n, tier, label):
    return dict(id="ent%d" % n, defines={"ENTSIZE": n, "__NO_CTYPE": None}, tier=tier, label=label,
                unwind=max(n + 3, 23),
                # loops are numbered by back edge: .0 white-space skip, .1 key scan, .2 the line loop
                unwindset=["read_pax_header.0:%d" % (n + 2), "read_pax_header.1:%d" % (n + 2),
                           "read_pax_header.2:%d" % (n // 5 + 2), "free_sparse_list.0:%d" % (n // 5 + 4)])

HARNESSES = [
    dict(name="number", file="number.c", label="proved", defines=CT,
         flags=["--unsigned-overflow-check"], timeout=600,
         cases=[dict(id="w8", defines={"DIGITS": 8}, unwind=9, tier="quick"),
                dict(id="w12", defines={"DIGITS": 12}, unwind=13, tier="quick")]),
    dict(name="checksum", file="checksum.c", label="proved", unwind=513,
         flags=["--unsigned-overflow-check"], timeout=900,
         cases=[dict(id="hdr512", tier="quick")]),
    dict(name="decode_header", file="decode_header.c", label="proved", defines=CT,
         unwind=513, malloc_fail=True, timeout=600, weight=6,
         nochecks=["--conversion-check"],
         cases=[dict(id="hdr512", tier="quick")]),
    dict(name="record_to_memory", file="record_to_memory.c", label="proved",
         malloc_fail=True, flags=["--memory-leak-check", "--unsigned-overflow-check"],
         unwind=2, timeout=600,
         cases=[dict(id="all", tier="quick")]),
    dict(name="new_sparse", file="new_sparse.c", label="proved", defines=CT,
         loops=["read_gnu_new_sparse"], fp={"get_filename": "env_get_filename"},
         pre_instrument_flags=["--replace-calls", "decode:stub_decode"],
         native=False, timeout=900, weight=5,
         cases=[dict(id="unbounded", tier="quick")]),
    dict(name="decode_safety", file="decode_safety.c", label="proved", defines=CT,
         loops=["decode"], timeout=600,
         cases=[dict(id="max1024", tier="quick")]),
    dict(name="decode_spec", file="decode_spec.c", label="bounded(len<=8)", defines=CT,
         timeout=900,
         cases=[dict(id="len4", defines={"LEN": 4, "__NO_CTYPE": None}, unwind=5, tier="quick"),
                dict(id="len8", defines={"LEN": 8, "__NO_CTYPE": None}, unwind=9, tier="quick"),
                dict(id="len10", defines={"LEN": 10, "__NO_CTYPE": None}, unwind=11, tier="thorough",
                     label="bounded(len<=10)")]),
    dict(name="parse_int", file="parse_int.c", label="proved", defines=CT,
         loops=["parse"], timeout=900,
         cases=[dict(id="max4096", tier="quick")]),
    dict(name="hex_decode", file="hex_decode.c", label="proved", defines=CT,
         loops=["hex_decode"], timeout=900,
         cases=[dict(id="max4096", tier="quick")]),
    dict(name="base64", file="base64.c", label="proved", defines=CT,
         loops=["base64_decode"], timeout=900,
         cases=[dict(id="separate", tier="quick"),
                dict(id="inplace", defines={"INPLACE": 1, "__NO_CTYPE": None}, tier="quick")]),
    dict(name="split_line", file="split_line.c", label="bounded(len<=4)",
         malloc_fail=True, flags=["--memory-leak-check"], timeout=1500, weight=4,
         cases=[dict(id="len%d" % n, defines={"LEN": n}, unwind=n + 3, tier="quick")
                for n in (1, 2, 3, 4)] +
               [dict(id="len%d" % n, defines={"LEN": n}, unwind=n + 3, tier="thorough",
                     label="bounded(len<=6)") for n in (5, 6)]),
    dict(name="get_line", file="get_line.c", label="bounded(windows <= 2 x 3 bytes)", defines=CT,
         flags=["--memory-leak-check"], timeout=1200, weight=4, unwind=8,
         fp={"get_buffered_data": "env_get_buffered_data", "advance_buffer": "env_advance_buffer"},
         cases=[dict(id="w2c2", defines={"WIN": 2, "CHUNKS": 2, "__NO_CTYPE": None}, tier="quick"),
                dict(id="w3c2", defines={"WIN": 3, "CHUNKS": 2, "__NO_CTYPE": None}, tier="thorough"),
                dict(id="w2c3", defines={"WIN": 2, "CHUNKS": 3, "__NO_CTYPE": None}, tier="thorough")]),
    dict(name="pax_loop", file="pax_loop.c", label="bounded(PAX record <= 16 bytes)", defines=CT,
         pre_instrument_flags=["--replace-calls", "find_handler:stub_find_handler",
                               "--replace-calls", "apply_handler:stub_apply_handler"],
         malloc_fail=True, flags=["--memory-leak-check"], timeout=1500, weight=9,
         nochecks=["--conversion-check"],   # parse_uint(value, -1, ..): int -1 -> size_t is the intended idiom
         cases=[_pax(n, "quick", "bounded(PAX record <= 16 bytes)") for n in (6, 12, 16)] +
               [_pax(n, "thorough", "bounded(PAX record <= 24 bytes)") for n in (20, 24)]),
    dict(name="pax_apply", file="pax_apply.c", label="bounded(value <= 3 bytes, key suffix <= 2)", defines=CT,
         malloc_fail=True, flags=["--memory-leak-check"], timeout=600, unwind=24,
         nochecks=["--conversion-check"],   # parse_*(value, -1, ..): int -1 -> size_t is the intended idiom
         fp={"sint": "pax_mtime", "uint": ["pax_uid", "pax_gid", "pax_size", "pax_rsize"],
             "str": ["pax_path", "pax_slink"], "cstr": "pax_sparse_map",
             "xattr": ["pax_xattr_schily", "pax_xattr_libarchive"]},
         cases=[dict(id="row%d" % i, defines={"IDX": i, "__NO_CTYPE": None}, tier="quick")
                for i in range(12)]),
    dict(name="pax_sparse_map", file="pax_sparse_map.c", label="bounded(map text <= 8 bytes)", defines=CT,
         malloc_fail=True, flags=["--memory-leak-check"], timeout=900, nochecks=["--conversion-check"],
         fp={"sint": "pax_mtime", "uint": ["pax_uid", "pax_gid", "pax_size", "pax_rsize"],
             "str": ["pax_path", "pax_slink"], "cstr": "pax_sparse_map",
             "xattr": ["pax_xattr_schily", "pax_xattr_libarchive"]},
         cases=[dict(id="len%d" % n, defines={"LLEN": n, "__NO_CTYPE": None}, unwind=max(n + 3, 6), tier="quick")
                for n in (3, 6, 8)] +
               [dict(id="len12", defines={"LLEN": 12, "__NO_CTYPE": None}, unwind=15, tier="thorough",
                     label="bounded(map text <= 12 bytes)")]),
    dict(name="pax_xattr", file="pax_xattr.c", label="bounded(key suffix <= 4, value <= 4 bytes)", defines=CT,
         malloc_fail=True, flags=["--memory-leak-check"], timeout=900, nochecks=["--conversion-check"],
         unwind=19,
         fp={"sint": "pax_mtime", "uint": ["pax_uid", "pax_gid", "pax_size", "pax_rsize"],
             "str": ["pax_path", "pax_slink"], "cstr": "pax_sparse_map",
             "xattr": ["pax_xattr_schily", "pax_xattr_libarchive"]},
         cases=[dict(id="k4v4", defines={"KLEN": 4, "VLEN": 4, "__NO_CTYPE": None}, tier="quick"),
                dict(id="k7v8", defines={"KLEN": 7, "VLEN": 8, "__NO_CTYPE": None}, tier="thorough",
                     label="bounded(key suffix <= 7, value <= 8 bytes)")]),
    dict(name="old_sparse", file="old_sparse.c", label="bounded(extension records <= 2)", defines=CT,
         malloc_fail=True, flags=["--memory-leak-check"], timeout=900, unwind=513, weight=4,
         fp={"get_filename": "env_get_filename"},
         cases=[dict(id="ext1", defines={"EXT": 1, "__NO_CTYPE": None}, tier="quick",
                     unwindset=["parse.0:22", "read_gnu_old_sparse.0:2", "free_sparse_list.0:27"]),
                dict(id="ext2", defines={"EXT": 2, "__NO_CTYPE": None}, tier="thorough",
                     unwindset=["parse.0:22", "read_gnu_old_sparse.0:3", "free_sparse_list.0:48"])]),
    dict(name="iter_probe", file="iter_probe.c", label="proved", defines=CT, unwind=513, timeout=600,
         fp={"*": "env_never"},
         cases=[dict(id="max1100", tier="quick")]),
    dict(name="iter_next", file="iter_next.c", label="bounded(headers per call <= 3, exclude patterns <= 1)", defines=CT,
         malloc_fail=True, flags=["--memory-leak-check"], timeout=900, unwind=5, fp={"*": "env_never"},
         cases=[dict(id="h2", defines={"ITER_MAXHDR": 2, "__NO_CTYPE": None}, tier="quick"),
                dict(id="h3", defines={"ITER_MAXHDR": 3, "__NO_CTYPE": None}, tier="thorough"),
                dict(id="h2nex0", defines={"ITER_MAXHDR": 2, "NEX": 0, "__NO_CTYPE": None}, tier="quick")]),
    dict(name="iter_strm", file="iter_strm.c", label="bounded(sparse map entries <= 3)", defines=CT,
         timeout=900, unwind=5,
         fp={"get_buffered_data": "env_get_buffered_data", "advance_buffer": "env_advance_buffer",
             "destroy": "it_destroy", "*": "env_never"},
         cases=[dict(id="n%d" % n, defines={"NSPARSE": n, "__NO_CTYPE": None}, tier="quick") for n in (0, 1, 2)] +
               [dict(id="n3", defines={"NSPARSE": 3, "__NO_CTYPE": None}, tier="thorough")]),
    dict(name="handle_line", file="handle_line.c", label="bounded(tokens <= 9, token bytes <= 5)", defines=CT,
         include_dirs=["bin/gensquashfs/src"], malloc_fail=True, flags=["--memory-leak-check"],
         nochecks=["--conversion-check"],   # parse_*(s, -1, ..) idiom, makedev narrowing
         timeout=900, unwind=10, fp={"callback": ["add_generic", "add_device", "add_file"]},
         cases=[dict(id="args%d" % n, defines={"NARGS": n, "__NO_CTYPE": None}, tier="quick")
                for n in (0, 4, 5, 6, 8)] +
               [dict(id="args%d" % n, defines={"NARGS": n, "__NO_CTYPE": None}, tier="thorough")
                for n in (1, 7, 9)]),
    dict(name="sort_decode", file="sort_decode.c", label="bounded(line <= 5 bytes)", defines=CT,
         include_dirs=["bin/gensquashfs/src"], malloc_fail=True, flags=["--memory-leak-check"],
         timeout=900, fp={"*": "env_never"},
         cases=[dict(id="%s_len%d" % (nm, n), defines={"PART": part, "LEN": n, "__NO_CTYPE": None},
                     unwind=max(n + 3, 17 if part == 2 else 0), tier="quick")
                for part, nm in ((0, "priority"), (1, "filename"), (2, "flags")) for n in (3, 5)] +
               [dict(id="%s_len%d" % (nm, 8), defines={"PART": part, "LEN": 8, "__NO_CTYPE": None},
                     unwind=max(11, 17 if part == 2 else 0), tier="thorough", label="bounded(line <= 8 bytes)")
                for part, nm in ((0, "priority"), (1, "filename"))]),
    dict(name="read_header", file="read_header.c", label="bounded(header records per call <= 3)",
         defines=CT, unwind=513, malloc_fail=True, timeout=900, weight=7,
         nochecks=["--conversion-check"],
         cases=[dict(id="rec2", defines={"MAXREC": 2}, unwindset=["read_header.0:3"], tier="quick"),
                dict(id="rec3", defines={"MAXREC": 3}, unwindset=["read_header.0:4"], tier="thorough")]),
    dict(name="hardlink", file="hardlink.c", label="bounded(link graph nodes <= 4)",
         timeout=900, weight=8,
         cases=[dict(id="n2", defines={"NODES": 2}, unwind=6, tier="quick"),
                dict(id="n3", defines={"NODES": 3}, unwind=8, tier="quick"),
                dict(id="n4", defines={"NODES": 4}, unwind=10, tier="thorough")]),
]
