/* C07: resolve_link (lib/fstree/src/hardlink.c) over EVERY hard-link graph on
 * NODES nodes.
 *
 * Universe: NODES typed nodes. Per node, fully symbolic: mode, flags,
 * link_count. The successor function of the graph, g_next[i] in
 * {0..NODES-1, NODES = dangling}, is symbolic but fixed for the run, so the
 * environment contract of fstree_get_node_by_path is a *function* of the
 * path (as the real lookup is): "returns the node the target string of node
 * i names, or NULL". All shapes - chains, self links, cycles through the
 * start node, cycles that do not contain the start node, links to
 * directories, dangling links - are values of (mode, flags, g_next).
 *
 *  requires  (representation invariant left behind by earlier calls, proved
 *            again here as C07.hardlink.resolved_inv) a node flagged
 *            FLAG_LINK_RESOVED points to a node that is not a hard link
 *  ensures   C07.hardlink.terminates     the walk ends within HOP_BOUND =
 *                                        2*NODES look-ups (the unchanged code
 *                                        needs at most NODES on an acyclic
 *                                        walk; the slack leaves room for a
 *                                        constant-space cycle detector)
 *            C07.hardlink.status_domain  returns 0 or -1
 *            C07.hardlink.target_kind    on success the start node is
 *                                        resolved to a node that is neither
 *                                        a directory nor a hard link
 *            C07.hardlink.resolved_inv   ... i.e. the invariant is preserved
 *            C07.hardlink.count          on success exactly the target's
 *                                        link_count went up by one, no wrap
 *            C07.hardlink.fail_unchanged on failure no node was modified
 *            C07.hardlink.lookup_pre     every look-up is issued with
 *                                        (fs, fs->root, target of a hard
 *                                        link of the universe, false, false)
 */
#include <errno.h>
#include "verif.h"
#include "lib/fstree/src/hardlink.c"

#ifndef NODES
#define NODES 3
#endif
#define HOP_BOUND (2 * NODES)

typedef struct {
	tree_node_t n;
	char tgt[2];
} node_box_t;

static node_box_t g_box[NODES];
static fstree_t g_fs;
static tree_node_t g_root;
static uint8_t g_next[NODES];
static unsigned int g_hops;

static int is_hl(const tree_node_t *n)
{
	return S_ISLNK(n->mode) && (n->flags & FLAG_LINK_IS_HARD);
}

tree_node_t *fstree_get_node_by_path(fstree_t *fs, tree_node_t *root,
				     const char *path, bool create_implicitly,
				     bool stop_at_parent)
{
	size_t i, from = NODES;

	for (i = 0; i < NODES; ++i) {
		if (path == g_box[i].tgt)
			from = i;
	}

	VERIF_ASSERT(fs == &g_fs && root == g_fs.root && from < NODES &&
		     !create_implicitly && !stop_at_parent,
		     "C07.hardlink.lookup_pre");
	if (from >= NODES)
		return NULL;
	VERIF_ASSERT(is_hl(&g_box[from].n), "C07.hardlink.lookup_pre");

	++g_hops;
	VERIF_ASSERT(g_hops <= HOP_BOUND, "C07.hardlink.terminates");
	/* cut the (infinite) path once it has been reported */
	VERIF_ASSUME(g_hops <= HOP_BOUND);

	if (g_next[from] >= NODES) {
		errno = ENOENT;
		return NULL;
	}
	return &g_box[g_next[from]].n;
}

void harness(void)
{
	uint16_t mode0[NODES], flags0[NODES];
	uint32_t lc0[NODES];
	size_t i, t;
	int ret;

	g_fs.root = &g_root;

	for (i = 0; i < NODES; ++i) {
		g_next[i] = verif_nd_u8("next");
		VERIF_ASSUME(g_next[i] <= NODES);
	}

	for (i = 0; i < NODES; ++i) {
		tree_node_t *n = &g_box[i].n;

		n->mode = verif_nd_u16("mode");
		n->flags = verif_nd_u16("flags");
		n->link_count = verif_nd_u32("link_count");
		g_box[i].tgt[0] = 'x';
		g_box[i].tgt[1] = '\0';
		n->data.target = g_box[i].tgt;
	}

	for (i = 0; i < NODES; ++i) {
		tree_node_t *n = &g_box[i].n;

		if (is_hl(n) && (n->flags & FLAG_LINK_RESOVED)) {
			/* representation invariant of a resolved link */
			VERIF_ASSUME(g_next[i] < NODES);
			VERIF_ASSUME(!is_hl(&g_box[g_next[i]].n));
			n->data.target_node = &g_box[g_next[i]].n;
		}
		mode0[i] = n->mode;
		flags0[i] = n->flags;
		lc0[i] = n->link_count;
	}

	/* the caller hands over the head of links_unresolved */
	VERIF_ASSUME(is_hl(&g_box[0].n));
	VERIF_ASSUME(!(g_box[0].n.flags & FLAG_LINK_RESOVED));

	ret = resolve_link(&g_fs, &g_box[0].n);

	VERIF_ASSERT(ret == 0 || ret == -1, "C07.hardlink.status_domain");

	if (ret == 0) {
		tree_node_t *tn = g_box[0].n.data.target_node;

		t = NODES;
		for (i = 0; i < NODES; ++i) {
			if (tn == &g_box[i].n)
				t = i;
		}
		VERIF_ASSERT(t < NODES && t != 0 &&
			     (g_box[0].n.flags & FLAG_LINK_RESOVED),
			     "C07.hardlink.target_kind");
		if (t < NODES) {
			VERIF_ASSERT(!S_ISDIR(tn->mode) && !is_hl(tn),
				     "C07.hardlink.target_kind");
			VERIF_ASSERT(!is_hl(tn), "C07.hardlink.resolved_inv");
			VERIF_ASSERT(lc0[t] != 0xFFFFFFFF &&
				     tn->link_count == lc0[t] + 1,
				     "C07.hardlink.count");
		}
		VERIF_ASSERT(g_box[0].n.flags ==
			     (flags0[0] | FLAG_LINK_RESOVED) &&
			     g_box[0].n.mode == mode0[0],
			     "C07.hardlink.count");
		for (i = 1; i < NODES; ++i) {
			VERIF_ASSERT(g_box[i].n.mode == mode0[i] &&
				     g_box[i].n.flags == flags0[i] &&
				     (i == t ||
				      g_box[i].n.link_count == lc0[i]),
				     "C07.hardlink.count");
		}
		VERIF_COVER(g_hops == 1);
		VERIF_COVER(g_hops == NODES - 1);
	} else {
		for (i = 0; i < NODES; ++i) {
			VERIF_ASSERT(g_box[i].n.mode == mode0[i] &&
				     g_box[i].n.flags == flags0[i] &&
				     g_box[i].n.link_count == lc0[i],
				     "C07.hardlink.fail_unchanged");
		}
		VERIF_ASSERT(g_box[0].n.data.target == g_box[0].tgt,
			     "C07.hardlink.fail_unchanged");
		VERIF_COVER(g_hops == 1);	/* dangling / dir / self link */
		VERIF_COVER(g_hops == NODES);	/* cycle through the start */
	}
}
