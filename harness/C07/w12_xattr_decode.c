/* C07: decode() of bin/gensquashfs/src/filemap_xattr.c - the value decoder
 * of the `--xattr-file` parser - unbounded (loop contract on the escape
 * walker). The value is a buffer of n+1 bytes (n symbolic, <= 4096), fully
 * symbolic content, NUL at [n]; *size == n on entry, the way parse_xattr
 * calls it (strlen of the rest of the line; bytes in front of [n] are not
 * even required to be non-NUL). Every allocation may fail.
 * hex_decode / base64_decode are their contracts (harnesses hex_decode,
 * base64 of this property): they assert that the buffers handed over have
 * the stated sizes.
 *
 *  C07.xattr_decode.hex_pre     hex_decode(in, in_sz, out, out_sz): in has
 *                               in_sz readable bytes inside the value text,
 *                               out has out_sz writable bytes
 *  C07.xattr_decode.b64_pre     base64_decode(in, in_len, out, &cap): in has
 *                               in_len readable bytes inside the value text,
 *                               out has cap writable bytes
 *  C07.xattr_decode.len_in_buf  result != NULL => *size bytes of the result
 *                               are readable (decoded length never exceeds
 *                               the buffer) and *size <= n
 *  C07.xattr_decode.refuse      the decoder callee refused => NULL
 *  C07.termination              decreases clause of the escape walker
 *  every v[0], v[1], *v, *d access: CBMC pointer checks under the loop
 *  invariant (v within [v0, end + 1], d - decoded <= v - v0);
 *  nothing leaks on either outcome (--memory-leak-check)
 */
#include <stdlib.h>
#include <string.h>
#include "verif.h"
#include "bin/gensquashfs/src/filemap_xattr.c"

static const char *g_val;
static size_t g_n;
static int g_hex_calls, g_b64_calls, g_refused;

int hex_decode(const char *in, size_t in_sz, sqfs_u8 *out, size_t out_sz)
{
	size_t k;

	VERIF_ASSERT(VERIF_SAME_OBJECT(in, g_val) &&
		     VERIF_POINTER_OFFSET(in) == 2 && in_sz <= g_n - 2 &&
		     VERIF_R_OK(in, in_sz) && VERIF_W_OK(out, out_sz),
		     "C07.xattr_decode.hex_pre");
	++g_hex_calls;
	k = verif_nd_size("hex.k");
	if (k < out_sz)
		out[k] = verif_nd_u8("hex.v");
	if (verif_nd_bool("hex.fail")) {
		g_refused = 1;
		return -1;
	}
	return 0;
}

int base64_decode(const char *in, size_t in_len, sqfs_u8 *out,
		  size_t *out_len)
{
	size_t k, n;

	VERIF_ASSERT(VERIF_SAME_OBJECT(in, g_val) &&
		     VERIF_POINTER_OFFSET(in) == 2 && in_len <= g_n - 2 &&
		     VERIF_R_OK(in, in_len) && VERIF_W_OK(out, *out_len),
		     "C07.xattr_decode.b64_pre");
	++g_b64_calls;
	k = verif_nd_size("b64.k");
	if (k < *out_len)
		out[k] = verif_nd_u8("b64.v");
	if (verif_nd_bool("b64.fail")) {
		*out_len = 0;
		g_refused = 1;
		return -1;
	}
	n = verif_nd_size("b64.n");
	VERIF_ASSUME(n <= *out_len && 4 * n <= 3 * in_len + 3);
	*out_len = n;
	return 0;
}

/* not reached from decode() */
int canonicalize_name(char *filename)
{
	(void)filename;
	VERIF_ASSERT(0, "C07.xattr_decode.unexpected_callee");
	return -1;
}

void harness(void)
{
	size_t n = verif_nd_size("n"), size;
	char *val;
	sqfs_u8 *ret;

	g_hex_calls = 0;
	g_b64_calls = 0;
	g_refused = 0;

	VERIF_ASSUME(n <= 4096);
	val = malloc(n + 1);
	VERIF_ASSUME(val != NULL);
	val[n] = '\0';
	g_val = val;
	g_n = n;
	size = n;

	ret = decode("xattrs", 1, val, &size);

	if (ret != NULL) {
		VERIF_ASSERT(size <= n && VERIF_R_OK(ret, size),
			     "C07.xattr_decode.len_in_buf");
		VERIF_ASSERT(!g_refused, "C07.xattr_decode.refuse");
		VERIF_COVER(g_hex_calls == 1 && n > 9);
		VERIF_COVER(g_b64_calls == 1 && size > 3);
		VERIF_COVER(g_hex_calls + g_b64_calls == 0 && n > 9 &&
			    size == n - 2);
		VERIF_COVER(g_hex_calls + g_b64_calls == 0 && n > 9 &&
			    size + 5 == n);
		VERIF_COVER(n == 0);
		free(ret);
	} else {
		VERIF_COVER(g_refused);
		VERIF_COVER(!g_refused);
	}
	free(val);
}
