/* C07: apply_handler, find_handler and the pax_* setters
 * (lib/tar/src/pax_header.c) for handler table row IDX (the driver runs rows
 * 0..11; rows 12 LIBARCHIVE.xattr and 13 GNU.sparse.map are run with their
 * real callbacks in harnesses pax_xattr and pax_sparse_map) on a line "<name of row IDX>[.<suffix>]\0<value>\0" whose suffix
 * (SUF bytes) and value (VLEN bytes) are fully symbolic - the state
 * read_pax_header leaves when it calls them (C07.pax.line_in_record).
 *
 *  C07.pax.find_row      find_handler(key) returns the row whose name the
 *                        key carries (prefix + '.' for the xattr rows) -
 *                        in particular key + strlen(name) + 1 is inside key
 *  C07.pax.apply_domain  0 or -1
 *  C07.pax.apply_args    numeric parsers get (value, -1, &diff, 0, 0, ..);
 *                        sqfs_xattr_create gets the key suffix and exactly
 *                        (value, valuelen); strdup's copy equals value
 *  C07.pax.apply_owner   string rows: the old name / link target is freed
 *                        and replaced by a fresh copy (leak check)
 */
#include <stdlib.h>
#include <string.h>
#include "verif.h"
#include "lib/tar/src/pax_header.c"

#ifndef IDX
#define IDX 0
#endif
#ifndef SUF
#define SUF 2
#endif
#ifndef VLEN
#define VLEN 3
#endif
#define NAMEMAX 20
#define LINEMAX (NAMEMAX + 1 + SUF + 1 + VLEN + 1)

static char g_line[LINEMAX];
static const char *g_value;
static size_t g_valuelen, g_keysuffix_off;

int parse_uint(const char *in, size_t len, size_t *diff,
	       sqfs_u64 vmin, sqfs_u64 vmax, sqfs_u64 *out)
{
	VERIF_ASSERT(in == g_value && len == (size_t)-1 && diff != NULL &&
		     vmin == 0 && vmax == 0 && out != NULL,
		     "C07.pax.apply_args");
	if (verif_nd_bool("parse.fail"))
		return SQFS_ERROR_CORRUPTED;
	*diff = 1;
	*out = verif_nd_u64("parse.value");
	return 0;
}

int parse_int(const char *in, size_t len, size_t *diff,
	      sqfs_s64 vmin, sqfs_s64 vmax, sqfs_s64 *out)
{
	VERIF_ASSERT(in == g_value && len == (size_t)-1 && diff != NULL &&
		     vmin == 0 && vmax == 0 && out != NULL,
		     "C07.pax.apply_args");
	if (verif_nd_bool("parse.fail"))
		return SQFS_ERROR_CORRUPTED;
	*diff = 1;
	*out = verif_nd_i64("parse.value");
	return 0;
}

sqfs_xattr_t *sqfs_xattr_create(const char *key, const sqfs_u8 *value,
				size_t value_len)
{
	sqfs_xattr_t *x;

	VERIF_ASSERT(key == g_line + g_keysuffix_off &&
		     value == (const sqfs_u8 *)g_value &&
		     value_len == g_valuelen, "C07.pax.apply_args");
	x = calloc(1, sizeof(*x));
	return x;
}

int base64_decode(const char *in, size_t in_len, sqfs_u8 *out,
		  size_t *out_len)
{
	(void)in; (void)in_len; (void)out; (void)out_len;
	VERIF_ASSERT(0, "C07.pax.unexpected_callee");
	return -1;
}
int hex_decode(const char *in, size_t in_sz, sqfs_u8 *out, size_t out_sz)
{
	(void)in; (void)in_sz; (void)out; (void)out_sz;
	VERIF_ASSERT(0, "C07.pax.unexpected_callee");
	return -1;
}
void free_sparse_list(sparse_map_t *sparse)
{
	(void)sparse;
	VERIF_ASSERT(0, "C07.pax.unexpected_callee");
}
char *record_to_memory(sqfs_istream_t *fp, size_t size)
{
	(void)fp; (void)size;
	VERIF_ASSERT(0, "C07.pax.unexpected_callee");
	return NULL;
}

void harness(void)
{
	const struct pax_handler_t *row = pax_fields + IDX, *found;
	tar_header_decoded_t out;
	size_t nlen = strlen(row->name), pos, i;
	bool is_x = (row->type == PAX_TYPE_PREFIXED_XATTR);
	char *old_name, *old_link;
	int ret;

	VERIF_ASSERT(IDX < sizeof(pax_fields) / sizeof(pax_fields[0]) &&
		     nlen <= NAMEMAX, "C07.pax.find_row");

	/* key */
	memcpy(g_line, row->name, nlen);
	pos = nlen;
	if (is_x) {
		g_line[pos++] = '.';
		g_keysuffix_off = pos;
		verif_nd_bytes(g_line + pos, SUF, "suffix");
		for (i = 0; i < SUF; ++i) {
			VERIF_ASSUME(g_line[pos] != '=');
			++pos;
		}
	}
	g_line[pos++] = '\0';
	/* value: VLEN arbitrary bytes (the value is binary for xattrs) */
	g_value = g_line + pos;
	g_valuelen = VLEN;
	verif_nd_bytes(g_line + pos, VLEN, "value");
	g_line[pos + VLEN] = '\0';

	memset(&out, 0, sizeof(out));
	old_name = verif_nd_bool("have_name") ? malloc(2) : NULL;
	old_link = verif_nd_bool("have_link") ? malloc(2) : NULL;
	out.name = old_name;
	out.link_target = old_link;

	/* rows share callbacks but not names: the look-up must return this
	 * very row */
	found = find_handler(g_line);
	VERIF_ASSERT(found == row, "C07.pax.find_row");

	ret = apply_handler(&out, row, g_line, g_value, g_valuelen);

	VERIF_ASSERT(ret == 0 || ret == -1, "C07.pax.apply_domain");
	if (row->type == PAX_TYPE_STRING && ret == 0) {
		char *nv = (row->flag == PAX_NAME) ? out.name :
			out.link_target;

		VERIF_ASSERT(nv != NULL && nv != old_name && nv != old_link &&
			     strcmp(nv, g_value) == 0, "C07.pax.apply_owner");
	}
	VERIF_COVER(ret == 0);
#if IDX != 9 && IDX != 10
	VERIF_COVER(ret == -1);
#endif
	free(out.name);
	free(out.link_target);
	while (out.xattr != NULL) {
		sqfs_xattr_t *x = out.xattr;

		out.xattr = x->next;
		free(x);
	}
}
