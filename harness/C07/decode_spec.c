/* C07 (bounded stand-in for decode's functional contract, which harness
 * new_sparse relies on): every byte string of length LEN, fully symbolic,
 * against the digit-run specification
 *      R = number of leading digits of str[0..LEN)
 *   C07.decode.spec   ret == 0  => R == 0 or R == LEN
 *                     ret  > 0  => ret == R + 1, R < LEN, str[R] == '\n',
 *                                  *out == decimal value of the R digits
 *                     ret == -1 => 1 <= R < LEN (bad terminator) or R >= 20
 *                                  (only numbers of >= 20 digits overflow)
 *   C07.decode.rescan a second scan of the same bytes with a longer range
 *                     (the caller's 1024 - diff after 512 - diff) never
 *                     stops earlier than the first one
 */
#include "verif.h"
#include "lib/tar/src/read_sparse_map_new.c"

#ifndef LEN
#define LEN 8
#endif
#ifndef LEN1
#define LEN1 (LEN / 2)
#endif

void harness(void)
{
	char buf[LEN];
	size_t out = 0, out1 = 0, run = 0, i;
	unsigned long long val = 0;
	int ret, ret1;

	verif_nd_bytes(buf, LEN, "buf");
	for (i = 0; i < LEN; ++i) {
		if (buf[i] < '0' || buf[i] > '9')
			break;
		++run;
		if (run <= 19)
			val = val * 10 + (unsigned long long)(buf[i] - '0');
	}

	ret = decode(buf, LEN, &out);

	if (ret == 0)
		VERIF_ASSERT(run == 0 || run == LEN, "C07.decode.spec");
	if (ret > 0) {
		VERIF_ASSERT((size_t)ret == run + 1 && run < LEN &&
			     buf[run] == '\n', "C07.decode.spec");
		VERIF_ASSERT(run > 19 || out == val, "C07.decode.spec");
	}
	if (ret == -1)
		VERIF_ASSERT((run >= 1 && run < LEN) || run >= 20,
			     "C07.decode.spec");

	ret1 = decode(buf, LEN1, &out1);
	if (ret1 == 0 && ret > 0)
		VERIF_ASSERT((size_t)ret > LEN1, "C07.decode.rescan");
	if (ret1 > 0)
		VERIF_ASSERT(ret == ret1 && out == out1, "C07.decode.rescan");

	VERIF_COVER(ret == 0 && run == LEN);
	VERIF_COVER(ret > 2);
	VERIF_COVER(ret == -1 && run >= 1 && run < LEN);
	VERIF_COVER(ret1 == 0 && ret > 0);
#if LEN > 20
	VERIF_COVER(ret == -1 && run >= 20 && buf[20] == '\n');
#endif
}
