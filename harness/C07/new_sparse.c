/* C07: read_gnu_new_sparse / decode (lib/tar/src/read_sparse_map_new.c),
 * GNU sparse format 1.0 map. The stream delivers arbitrary bytes, errors and
 * short transfers; the 1 KiB window is fully symbolic.
 *
 * decode's loop is unwound to the window size (1024 - a constant of the
 * code) with an unwinding assertion. The main loop is BOUNDED: paths that
 * allocate more than MAXENT map entries end by assumption (in the calloc
 * contract). An unbounded loop contract was attempted and abandoned - see
 * ASSUMPTIONS in cases.py.
 *
 *  C07.sparse_new.cursor   (contracts of the stream and of memcpy below)
 *        the stream is only ever read in whole 512-byte records, once into
 *        the lower half and then only into the upper half of the window,
 *        which is moved down exactly once per such read; together with the
 *        CBMC bounds checks on every buffer[diff + ..] access this is
 *        0 <= diff <= 512 and "reads only halves that hold stream data"
 *  C07.limits.sparse_ent   an entry count of 0 or above TAR_MAX_SPARSE_ENT
 *        is refused before the first node is allocated (ghost: the count is
 *        re-parsed by the harness from the first record)
 *  C07.sparse_new.record_size   out->record_size goes down by 512 per
 *        record consumed and never wraps
 *  C07.sparse_new.fail_stop     a stream error / short record => NULL
 *  C07.sparse_new.list     on success the result is a NULL-terminated list
 *        of exactly the allocated nodes
 */
#include "verif.h"
#include "lib/tar/src/read_sparse_map_new.c"
#include "lib/tar/src/cleanup.c"

#ifndef MAXENT
#define MAXENT 1
#endif

static const char *env_get_filename(sqfs_istream_t *strm)
{
	(void)strm;
	return "stdin";
}
static sqfs_istream_t g_strm;
static size_t g_ns_valid;
static unsigned int g_ns_reads, g_ns_nodes;
static sqfs_u64 g_ns_size0;
static int g_ns_failed;
static int g_ns_count_ok;	/* first record starts with 1..65536 '\n' */

void sqfs_perror(const char *file, const char *action, int error_code)
{
	(void)file; (void)action; (void)error_code;
}

void sqfs_xattr_list_free(sqfs_xattr_t *list)
{
	(void)list;
}

sqfs_s32 sqfs_istream_read(sqfs_istream_t *strm, void *data, size_t size)
{
	int r;

	VERIF_ASSERT(strm == &g_strm && size == 512 &&
		     VERIF_W_OK(data, 512), "C07.sparse_new.cursor");
	VERIF_ASSERT((g_ns_reads == 0 && VERIF_POINTER_OFFSET(data) == 0) ||
		     (g_ns_reads > 0 && VERIF_POINTER_OFFSET(data) == 512 &&
		      g_ns_valid == 512), "C07.sparse_new.cursor");

	r = verif_nd_int("read.ret");
	if (r < 0) {
		g_ns_failed = 1;
		return r;
	}
	VERIF_ASSUME(r <= 512);
	if (r == 512) {
		verif_nd_bytes(data, 512, "record");
		if (g_ns_reads == 0) {
			/* independent re-parse of the entry count */
			const unsigned char *p = data;
			unsigned long v = 0;
			size_t i = 0;

			while (i < 7 && p[i] >= '0' && p[i] <= '9') {
				v = v * 10 + (p[i] - '0');
				++i;
			}
			g_ns_count_ok = (i > 0 && p[i] == '\n' && v >= 1 &&
					 v <= TAR_MAX_SPARSE_ENT);
			/* leading zeros can make the count field longer */
			if (i == 7 && p[i] >= '0' && p[i] <= '9')
				g_ns_count_ok = 2;	/* unknown */
		} else {
			g_ns_valid = 1024;
		}
		++g_ns_reads;
	} else {
		g_ns_failed = 1;
	}
	return r;
}

#ifndef VERIF_REPLAY
void *memcpy(void *dst, const void *src, size_t n)
{
	size_t i;

	VERIF_ASSERT(n == 512 && VERIF_SAME_OBJECT(dst, src) &&
		     VERIF_POINTER_OFFSET(dst) == 0 &&
		     VERIF_POINTER_OFFSET(src) == 512 && g_ns_valid == 1024,
		     "C07.sparse_new.cursor");
	for (i = 0; i < 512; ++i)
		((char *)dst)[i] = ((const char *)src)[i];
	g_ns_valid = 512;
	return dst;
}

void *calloc(size_t n, size_t size)
{
	sparse_map_t *p;

	VERIF_ASSERT(n == 1 && size == sizeof(sparse_map_t),
		     "C07.sparse_new.calloc_pre");
	VERIF_ASSERT(g_ns_count_ok != 0, "C07.limits.sparse_ent");
	VERIF_ASSERT(g_ns_nodes < TAR_MAX_SPARSE_ENT, "C07.limits.sparse_ent");
	/* bound of this harness */
	VERIF_ASSUME(g_ns_nodes < MAXENT);
	if (verif_nd_bool("calloc.fail"))
		return NULL;
	p = malloc(sizeof(*p));
	VERIF_ASSUME(p != NULL);
	p->next = NULL;
	p->offset = 0;
	p->count = 0;
	++g_ns_nodes;
	return p;
}
#endif

void harness(void)
{
	tar_header_decoded_t out;
	sparse_map_t *list, *it;
	unsigned int n = 0;

	g_ns_valid = 512;
	g_strm.get_filename = env_get_filename;

	memset(&out, 0, sizeof(out));
	out.record_size = verif_nd_u64("record_size");
	g_ns_size0 = out.record_size;

	list = read_gnu_new_sparse(&g_strm, &out);

	VERIF_ASSERT(out.record_size <= g_ns_size0 &&
		     g_ns_size0 - out.record_size <=
		     512 * (sqfs_u64)g_ns_reads,
		     "C07.sparse_new.record_size");
	if (list != NULL) {
		VERIF_ASSERT(out.record_size + 512 * (sqfs_u64)g_ns_reads ==
			     g_ns_size0, "C07.sparse_new.record_size");
		VERIF_ASSERT(!g_ns_failed, "C07.sparse_new.fail_stop");
		for (it = list; it != NULL && n <= MAXENT; it = it->next)
			++n;
		VERIF_ASSERT(it == NULL && n == g_ns_nodes && n >= 1,
			     "C07.sparse_new.list");
		VERIF_COVER(g_ns_reads == 1);
		VERIF_COVER(g_ns_reads > 1);
		free_sparse_list(list);
	} else {
		VERIF_COVER(g_ns_failed);
		VERIF_COVER(!g_ns_failed && g_ns_reads >= 1);
		VERIF_COVER(g_ns_reads == 0);
	}
}
