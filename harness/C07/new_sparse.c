/* C07: read_gnu_new_sparse / decode (lib/tar/src/read_sparse_map_new.c),
 * GNU sparse format 1.0 map, UNBOUNDED in the number of entries: both loops
 * are closed by the loop contracts of contracts/loops/C07.tbl.
 * The stream delivers arbitrary bytes, errors and short transfers.
 *
 *  C07.sparse_new.cursor   (invariant of the main loop, plus the checks in
 *        the stream/memcpy contracts below) 1 <= diff <= 512; the stream is
 *        only ever read in whole 512-byte records into the lower half (once)
 *        or the upper half of the 1 KiB window; decode() is only handed bytes
 *        that hold stream data (ghost g_ns_valid); the upper half is moved
 *        down exactly once per second read
 *  C07.termination         decreases clauses of both loops
 *  C07.limits.sparse_ent   no more than TAR_MAX_SPARSE_ENT nodes are ever
 *        requested from the allocator
 *  C07.sparse_new.record_size   out->record_size goes down by 512 per
 *        record consumed and never wraps
 *  C07.sparse_new.fail_stop     a stream error / short record => NULL
 *
 * Heap abstraction (stated in ASSUMPTIONS): calloc's contract is modelled by
 * one summary node, free_sparse_list by its contract; the function never
 * reads a node field, so the cursor proof is independent of list shape. The
 * list shape itself is checked, bounded, by harness `new_sparse_list`.
 */
#include "verif.h"
#include "lib/tar/src/internal.h"

static sparse_map_t g_ns_node;
size_t g_ns_valid = 512;
unsigned int g_ns_reads, g_ns_nodes;
sqfs_u64 g_ns_size0;
static int g_ns_failed;

#include "lib/tar/src/read_sparse_map_new.c"

static const char *env_get_filename(sqfs_istream_t *strm)
{
	(void)strm;
	return "stdin";
}
static sqfs_istream_t g_strm = { .get_filename = env_get_filename };

void sqfs_perror(const char *file, const char *action, int error_code)
{
	(void)file; (void)action; (void)error_code;
}

sqfs_s32 sqfs_istream_read(sqfs_istream_t *strm, void *data, size_t size)
{
	size_t k;
	uint8_t v;
	int r;

	VERIF_ASSERT(strm == &g_strm && size == 512 &&
		     VERIF_W_OK(data, 512), "C07.sparse_new.cursor");
	VERIF_ASSERT((g_ns_reads == 0 && VERIF_POINTER_OFFSET(data) == 0) ||
		     (g_ns_reads > 0 && VERIF_POINTER_OFFSET(data) == 512 &&
		      g_ns_valid == 512), "C07.sparse_new.cursor");

	r = verif_nd_int("read.ret");
	if (r < 0) {
		g_ns_failed = 1;
		return r;
	}
	VERIF_ASSUME(r <= 512);
	k = verif_nd_size("read.k");
	v = verif_nd_u8("read.v");
	if (k < (size_t)r)
		((uint8_t *)data)[k] = v;
	if (r == 512) {
		if (g_ns_reads > 0)
			g_ns_valid = 1024;
		++g_ns_reads;
	} else {
		g_ns_failed = 1;
	}
	return r;
}

#ifndef VERIF_REPLAY
void *memcpy(void *dst, const void *src, size_t n)
{
	size_t k;

	VERIF_ASSERT(n == 512 && VERIF_SAME_OBJECT(dst, src) &&
		     VERIF_POINTER_OFFSET(dst) == 0 &&
		     VERIF_POINTER_OFFSET(src) == 512 && g_ns_valid == 1024,
		     "C07.sparse_new.cursor");
	k = verif_nd_size("memcpy.k");
	if (k < n)
		((char *)dst)[k] = ((const char *)src)[k];
	g_ns_valid = 512;
	return dst;
}

void *calloc(size_t n, size_t size)
{
	VERIF_ASSERT(n == 1 && size == sizeof(sparse_map_t),
		     "C07.sparse_new.calloc_pre");
	VERIF_ASSERT(g_ns_nodes < TAR_MAX_SPARSE_ENT, "C07.limits.sparse_ent");
	if (verif_nd_bool("calloc.fail"))
		return NULL;
	++g_ns_nodes;
	g_ns_node.next = NULL;
	g_ns_node.offset = 0;
	g_ns_node.count = 0;
	return &g_ns_node;
}

void free_sparse_list(sparse_map_t *sparse)
{
	VERIF_ASSERT(sparse == NULL || sparse == &g_ns_node,
		     "C07.sparse_new.free_pre");
}
#else
void free_sparse_list(sparse_map_t *sparse)
{
	while (sparse != NULL) {
		sparse_map_t *old = sparse;
		sparse = sparse->next;
		free(old);
	}
}
#endif

void harness(void)
{
	tar_header_decoded_t out;
	sparse_map_t *list;

	memset(&out, 0, sizeof(out));
	out.record_size = verif_nd_u64("record_size");
	g_ns_size0 = out.record_size;

	list = read_gnu_new_sparse(&g_strm, &out);

	VERIF_ASSERT(out.record_size + 512 * (sqfs_u64)g_ns_reads ==
		     g_ns_size0 && 512 * (sqfs_u64)g_ns_reads <= g_ns_size0,
		     "C07.sparse_new.record_size");
	if (list != NULL) {
		VERIF_ASSERT(!g_ns_failed, "C07.sparse_new.fail_stop");
		VERIF_ASSERT(g_ns_nodes >= 1 &&
			     g_ns_nodes <= TAR_MAX_SPARSE_ENT,
			     "C07.limits.sparse_ent");
		VERIF_COVER(g_ns_reads == 1);
		VERIF_COVER(g_ns_reads > 1);
	} else {
		VERIF_COVER(g_ns_failed);
		VERIF_COVER(!g_ns_failed && g_ns_reads >= 1);
		VERIF_COVER(g_ns_reads == 0);
	}
}
