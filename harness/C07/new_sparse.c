/* C07: read_gnu_new_sparse (lib/tar/src/read_sparse_map_new.c), GNU sparse
 * format 1.0 map, UNBOUNDED in the number of entries: the main loop is
 * closed by the loop contract of contracts/loops/C07.tbl. The stream
 * delivers arbitrary bytes, errors and short transfers.
 *
 * Modular: calls to the static helper decode() are redirected
 * (goto-instrument --replace-calls) to stub_decode below, which IS decode's
 * contract: it checks decode's precondition at each call site and returns
 * every result the contract permits. The contract is stated over the ghost
 * "digit run length R at this stream position" (arbitrary, but the same
 * value when the same position is scanned again - that rescan consistency
 * is what keeps `diff` in range). decode itself is verified against the
 * contract in harnesses decode_safety (unbounded) and decode_spec (bounded).
 *
 *  C07.sparse_new.cursor   1 <= diff <= 512 (loop invariant); every range
 *        handed to decode lies inside the part of the 1 KiB window that
 *        holds stream data (ghost g_ns_valid); the stream is only ever read
 *        in whole 512-byte records, once into the lower half and then only
 *        into the upper half, which is moved down exactly once per read
 *  C07.termination         decreases clause of the loop
 *  C07.limits.sparse_ent   no more than TAR_MAX_SPARSE_ENT nodes are ever
 *        requested from the allocator
 *  C07.sparse_new.record_size   out->record_size goes down by 512 per
 *        record consumed and never wraps
 *  C07.sparse_new.fail_stop     a stream error / short record => NULL
 *
 * Heap abstraction (stated in ASSUMPTIONS): calloc's contract is modelled by
 * one summary node, free_sparse_list by its contract; the function never
 * reads a node field, so the cursor proof is independent of list shape. The
 * list shape itself is covered by harness old_sparse / pax_header style
 * bounded runs only.
 */
#include "verif.h"
#include "lib/tar/src/internal.h"

static sparse_map_t g_ns_node;
size_t g_ns_valid;
unsigned int g_ns_reads, g_ns_nodes;
sqfs_u64 g_ns_size0;
int g_ns_failed;
int g_ns_have;
size_t g_ns_last_off, g_ns_last_run;

#include "lib/tar/src/read_sparse_map_new.c"

/* ------------------------------------------------- contract of decode() */
int stub_decode(const char *str, size_t len, size_t *out)
{
	size_t off = VERIF_POINTER_OFFSET(str);
	size_t run;

	VERIF_ASSERT(VERIF_R_OK(str, len) && off + len <= g_ns_valid &&
		     g_ns_valid <= 1024 && VERIF_W_OK(out, sizeof(*out)),
		     "C07.sparse_new.cursor");

	/* R: number of consecutive digits in the stream from this position
	 * on; arbitrary, but a fact about the stream, hence the same when
	 * the same position is scanned again */
	if (g_ns_have && g_ns_last_off == off) {
		run = g_ns_last_run;
	} else {
		run = verif_nd_size("decode.run");
		g_ns_have = 1;
		g_ns_last_off = off;
		g_ns_last_run = run;
	}

	*out = verif_nd_size("decode.value");

	if (run >= 1 && verif_nd_bool("decode.overflow"))
		return -1;
	if (run == 0 || run >= len)
		return 0;
	if (verif_nd_bool("decode.newline"))
		return (int)run + 1;
	return -1;
}

/* ------------------------------------------------------------ environment */
static const char *env_get_filename(sqfs_istream_t *strm)
{
	(void)strm;
	return "stdin";
}
static sqfs_istream_t g_strm;

void sqfs_perror(const char *file, const char *action, int error_code)
{
	(void)file; (void)action; (void)error_code;
}

sqfs_s32 sqfs_istream_read(sqfs_istream_t *strm, void *data, size_t size)
{
	size_t k;
	uint8_t v;
	int r;

	VERIF_ASSERT(strm == &g_strm && size == 512 &&
		     VERIF_W_OK(data, 512), "C07.sparse_new.cursor");
	VERIF_ASSERT((g_ns_reads == 0 && VERIF_POINTER_OFFSET(data) == 0) ||
		     (g_ns_reads > 0 && VERIF_POINTER_OFFSET(data) == 512 &&
		      g_ns_valid == 512), "C07.sparse_new.cursor");

	r = verif_nd_int("read.ret");
	if (r < 0) {
		g_ns_failed = 1;
		return r;
	}
	VERIF_ASSUME(r <= 512);
	k = verif_nd_size("read.k");
	v = verif_nd_u8("read.v");
	if (k < (size_t)r)
		((uint8_t *)data)[k] = v;
	if (r == 512) {
		if (g_ns_reads > 0)
			g_ns_valid = 1024;
		++g_ns_reads;
	} else {
		g_ns_failed = 1;
	}
	return r;
}

void *memcpy(void *dst, const void *src, size_t n)
{
	size_t k;

	VERIF_ASSERT(n == 512 && VERIF_SAME_OBJECT(dst, src) &&
		     VERIF_POINTER_OFFSET(dst) == 0 &&
		     VERIF_POINTER_OFFSET(src) == 512 && g_ns_valid == 1024,
		     "C07.sparse_new.cursor");
	k = verif_nd_size("memcpy.k");
	if (k < n)
		((char *)dst)[k] = ((const char *)src)[k];
	g_ns_valid = 512;
	g_ns_have = 0;		/* window positions now name other bytes */
	return dst;
}

void *calloc(size_t n, size_t size)
{
	VERIF_ASSERT(n == 1 && size == sizeof(sparse_map_t),
		     "C07.sparse_new.calloc_pre");
	VERIF_ASSERT(g_ns_nodes < TAR_MAX_SPARSE_ENT, "C07.limits.sparse_ent");
	if (verif_nd_bool("calloc.fail"))
		return NULL;
	++g_ns_nodes;
	g_ns_node.next = NULL;
	g_ns_node.offset = 0;
	g_ns_node.count = 0;
	return &g_ns_node;
}

void free_sparse_list(sparse_map_t *sparse)
{
	VERIF_ASSERT(sparse == NULL || sparse == &g_ns_node,
		     "C07.sparse_new.free_pre");
}

void harness(void)
{
	tar_header_decoded_t out;
	sparse_map_t *list;

	/* statics are not reliably initialised once goto-instrument has
	 * applied loop contracts: set all ghost state explicitly */
	g_ns_valid = 512;
	g_ns_reads = 0;
	g_ns_nodes = 0;
	g_ns_failed = 0;
	g_ns_have = 0;
	g_strm.get_filename = env_get_filename;

	memset(&out, 0, sizeof(out));
	out.record_size = verif_nd_u64("record_size");
	g_ns_size0 = out.record_size;

	list = read_gnu_new_sparse(&g_strm, &out);

	VERIF_ASSERT(out.record_size <= g_ns_size0 &&
		     g_ns_size0 - out.record_size <=
		     512 * (sqfs_u64)g_ns_reads,
		     "C07.sparse_new.record_size");
	if (list != NULL) {
		VERIF_ASSERT(out.record_size + 512 * (sqfs_u64)g_ns_reads ==
			     g_ns_size0, "C07.sparse_new.record_size");
		VERIF_ASSERT(!g_ns_failed, "C07.sparse_new.fail_stop");
		VERIF_ASSERT(g_ns_nodes >= 1 &&
			     g_ns_nodes <= TAR_MAX_SPARSE_ENT,
			     "C07.limits.sparse_ent");
		VERIF_COVER(g_ns_reads == 1);
		VERIF_COVER(g_ns_reads > 1);
	} else {
		VERIF_COVER(g_ns_failed);
		VERIF_COVER(!g_ns_failed && g_ns_reads >= 1);
		VERIF_COVER(g_ns_reads == 0);
	}
}
