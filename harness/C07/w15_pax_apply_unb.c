/* C07 (w15): apply_handler (static, lib/tar/src/pax_header.c) and the pax_*
 * setters for handler table row IDX (the driver runs rows 0..11 - all rows
 * whose callback is loop-free; the callbacks of rows 12 LIBARCHIVE.xattr and
 * 13 GNU.sparse.map are proved on their own in pax_xattr_unb / pax_map_unb),
 * for EVERY key and value length: key and value live in objects of symbolic
 * size <= APPLY_MAX (4096) bytes - the bounded harness pax_apply had value <=
 * 3 / key suffix <= 2 bytes. apply_handler is loop-free; strlen(field->name)
 * walks a row name (<= 19 bytes, constant of the code, unwound completely).
 *
 * The state is the one read_pax_header / find_handler leave behind
 * (C07.pax_unb.line_in_record, C07.pax_find_unb.row): value[valuelen] == 0;
 * for the xattr row the key carries name + '.', so klen >= strlen(name) + 1.
 * Callees are their contracts: parse_int / parse_uint (harness parse_int),
 * strdup (NULL or a fresh block), sqfs_xattr_create (NULL or a fresh node).
 *
 *  C07.pax_apply_unb.domain  0 or -1
 *  C07.pax_apply_unb.args    numeric parsers get (value, -1, &diff, 0, 0, ..);
 *                            strdup gets value; sqfs_xattr_create gets the
 *                            key suffix key + strlen(name) + 1 - inside the
 *                            key string - and exactly (value, valuelen)
 *  C07.pax_apply_unb.owner   string rows: the old name / link target is
 *                            freed exactly once and replaced by the fresh
 *                            copy; on failure nothing is replaced;
 *                            xattr row: the node is linked first, or freed
 *  C07.pax_apply_unb.frame   fields of the header other than the row's own
 *                            are untouched (uid/gid/size/mtime/sizes)
 */
#include <stdlib.h>
#include <string.h>
#include <ctype.h>
#include "verif.h"
#include "tar/tar.h"
#include "tar/format.h"

#ifndef IDX
#define IDX 0
#endif
#ifndef APPLY_MAX
#define APPLY_MAX 4096
#endif

static char *g_key, *g_value;
static size_t g_klen, g_vlen, g_nlen;
static char g_old_name, g_old_link, g_copy;	/* stand-ins for heap strings */
static sqfs_xattr_t g_node;
static int g_free_name, g_free_link, g_free_copy, g_free_node, g_dups, g_creates;

static char *w15_strdup(const char *s)
{
	VERIF_ASSERT(s == g_value, "C07.pax_apply_unb.args");
	if (verif_nd_bool("strdup.fail"))
		return NULL;
	g_dups += 1;
	return &g_copy;
}

static void w15_free(void *p)
{
	if (p == NULL)
		return;
	if (p == (void *)&g_old_name)
		g_free_name += 1;
	else if (p == (void *)&g_old_link)
		g_free_link += 1;
	else if (p == (void *)&g_copy)
		g_free_copy += 1;
	else if (p == (void *)&g_node)
		g_free_node += 1;
	else
		VERIF_ASSERT(0, "C07.pax_apply_unb.free_valid");
}

#define strdup(s) w15_strdup(s)
#define free(p) w15_free(p)
#include "lib/tar/src/pax_header.c"
#undef strdup
#undef free

int parse_uint(const char *in, size_t len, size_t *diff,
	       sqfs_u64 vmin, sqfs_u64 vmax, sqfs_u64 *out)
{
	VERIF_ASSERT(in == g_value && len == (size_t)-1 && diff != NULL &&
		     vmin == 0 && vmax == 0 && out != NULL, "C07.pax_apply_unb.args");
	if (verif_nd_bool("parse.fail"))
		return verif_nd_bool("parse.ov") ? SQFS_ERROR_OVERFLOW : SQFS_ERROR_CORRUPTED;
	*diff = 1;
	*out = verif_nd_u64("parse.value");
	return 0;
}

int parse_int(const char *in, size_t len, size_t *diff,
	      sqfs_s64 vmin, sqfs_s64 vmax, sqfs_s64 *out)
{
	VERIF_ASSERT(in == g_value && len == (size_t)-1 && diff != NULL &&
		     vmin == 0 && vmax == 0 && out != NULL, "C07.pax_apply_unb.args");
	if (verif_nd_bool("parse.fail"))
		return verif_nd_bool("parse.ov") ? SQFS_ERROR_OVERFLOW : SQFS_ERROR_CORRUPTED;
	*diff = 1;
	*out = verif_nd_i64("parse.value");
	return 0;
}

sqfs_xattr_t *sqfs_xattr_create(const char *key, const sqfs_u8 *value, size_t value_len)
{
	VERIF_ASSERT(VERIF_SAME_OBJECT(key, g_key) &&
		     VERIF_POINTER_OFFSET(key) == g_nlen + 1 &&
		     VERIF_POINTER_OFFSET(key) <= g_klen &&
		     value == (const sqfs_u8 *)g_value && value_len == g_vlen,
		     "C07.pax_apply_unb.args");
	if (verif_nd_bool("xattr.fail"))
		return NULL;
	g_creates += 1;
	g_node.next = NULL;
	return &g_node;
}

int base64_decode(const char *in, size_t in_len, sqfs_u8 *out, size_t *out_len) { (void)in; (void)in_len; (void)out; (void)out_len; VERIF_ASSERT(0, "C07.pax_apply_unb.unexpected_callee"); return -1; }
int hex_decode(const char *in, size_t in_sz, sqfs_u8 *out, size_t out_sz) { (void)in; (void)in_sz; (void)out; (void)out_sz; VERIF_ASSERT(0, "C07.pax_apply_unb.unexpected_callee"); return -1; }
void free_sparse_list(sparse_map_t *sparse) { (void)sparse; VERIF_ASSERT(0, "C07.pax_apply_unb.unexpected_callee"); }
char *record_to_memory(sqfs_istream_t *fp, size_t size) { (void)fp; (void)size; VERIF_ASSERT(0, "C07.pax_apply_unb.unexpected_callee"); return NULL; }

void harness(void)
{
	const struct pax_handler_t *row = pax_fields + IDX;
	tar_header_decoded_t out, before;
	size_t kn = verif_nd_size("kn"), vn = verif_nd_size("vn");
	bool is_x = (row->type == PAX_TYPE_PREFIXED_XATTR);
	bool have_name = verif_nd_bool("have_name"), have_link = verif_nd_bool("have_link");
	sqfs_xattr_t old_x;
	int ret;

	g_free_name = 0; g_free_link = 0; g_free_copy = 0; g_free_node = 0;
	g_dups = 0; g_creates = 0;
	g_nlen = strlen(row->name);

	VERIF_ASSUME(kn >= 1 && kn <= APPLY_MAX && vn >= 1 && vn <= APPLY_MAX);
	g_key = malloc(kn);
	g_value = malloc(vn);
	VERIF_ASSUME(g_key != NULL && g_value != NULL);
	g_klen = verif_nd_size("klen");
	g_vlen = verif_nd_size("vlen");
	VERIF_ASSUME(g_klen < kn && g_key[g_klen] == 0);
	VERIF_ASSUME(g_vlen < vn && g_value[g_vlen] == 0);
	/* what find_handler established for this row */
	if (is_x)
		VERIF_ASSUME(g_nlen + 1 <= g_klen && g_key[g_nlen] == '.');
	else
		VERIF_ASSUME(g_nlen == g_klen);

	memset(&out, 0, sizeof(out));
	out.name = have_name ? &g_old_name : NULL;
	out.link_target = have_link ? &g_old_link : NULL;
	out.uid = verif_nd_u64("uid"); out.gid = verif_nd_u64("gid");
	out.mtime = verif_nd_i64("mtime");
	out.record_size = verif_nd_u64("rsz"); out.actual_size = verif_nd_u64("asz");
	old_x.next = NULL;
	out.xattr = verif_nd_bool("have_xattr") ? &old_x : NULL;
	before = out;

	ret = apply_handler(&out, row, g_key, g_value, g_vlen);

	VERIF_ASSERT(ret == 0 || ret == -1, "C07.pax_apply_unb.domain");
	if (row->type == PAX_TYPE_STRING) {
		bool is_name = (row->flag == PAX_NAME);

		if (ret == 0) {
			VERIF_ASSERT(g_dups == 1 && g_free_copy == 0 &&
				     (is_name ? out.name : out.link_target) == &g_copy &&
				     (is_name ? g_free_name == (have_name ? 1 : 0) && g_free_link == 0 && out.link_target == before.link_target
					      : g_free_link == (have_link ? 1 : 0) && g_free_name == 0 && out.name == before.name),
				     "C07.pax_apply_unb.owner");
		} else {
			VERIF_ASSERT(g_dups == 0 && out.name == before.name &&
				     out.link_target == before.link_target &&
				     g_free_name == 0 && g_free_link == 0, "C07.pax_apply_unb.owner");
		}
	} else {
		VERIF_ASSERT(out.name == before.name && out.link_target == before.link_target &&
			     g_free_name == 0 && g_free_link == 0 && g_dups == 0,
			     "C07.pax_apply_unb.frame");
	}
	if (is_x) {
		if (ret == 0)
			VERIF_ASSERT(g_creates == 1 && out.xattr == &g_node &&
				     g_node.next == before.xattr && g_free_node == 0,
				     "C07.pax_apply_unb.owner");
		else
			VERIF_ASSERT(out.xattr == before.xattr && g_free_node == g_creates,
				     "C07.pax_apply_unb.owner");
	} else {
		VERIF_ASSERT(out.xattr == before.xattr && g_creates == 0, "C07.pax_apply_unb.frame");
	}
	VERIF_ASSERT((row->cb.uint == pax_uid && row->type == PAX_TYPE_UINT && ret == 0) || out.uid == before.uid, "C07.pax_apply_unb.frame");
	VERIF_ASSERT((row->cb.uint == pax_gid && row->type == PAX_TYPE_UINT && ret == 0) || out.gid == before.gid, "C07.pax_apply_unb.frame");
	VERIF_ASSERT((row->cb.uint == pax_size && row->type == PAX_TYPE_UINT && ret == 0) || out.record_size == before.record_size, "C07.pax_apply_unb.frame");
	VERIF_ASSERT((row->cb.uint == pax_rsize && row->type == PAX_TYPE_UINT && ret == 0) || out.actual_size == before.actual_size, "C07.pax_apply_unb.frame");
	VERIF_ASSERT((row->type == PAX_TYPE_SINT && ret == 0) || out.mtime == before.mtime, "C07.pax_apply_unb.frame");
	VERIF_ASSERT(out.sparse == before.sparse, "C07.pax_apply_unb.frame");
	VERIF_COVER(ret == 0 && g_vlen > 100 && g_klen >= 3);
#if IDX != 9 && IDX != 10
	VERIF_COVER(ret == -1);
#endif
}
