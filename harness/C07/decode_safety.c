/* C07: decode (lib/tar/src/read_sparse_map_new.c) - the number scanner of
 * the GNU 1.0 sparse map - on a buffer of symbolic size len <= 1024 (the
 * window of its only caller) with fully symbolic contents; the buffer ends
 * with the range, so any read past str[len-1] is a bounds violation. The
 * loop is closed by its loop contract (cursor = start + count, count <= len,
 * decreases len - count): no unwinding.
 *
 *  ensures  C07.decode.result_domain  ret is -1, 0, or count+1 with
 *                                     2 <= ret <= len
 *           C07.decode.newline        ret > 0 => str[ret-1] == '\n' 
 *           C07.termination           (decreases clause)
 */
#include <stdlib.h>
#include "verif.h"
#include "lib/tar/src/read_sparse_map_new.c"

void harness(void)
{
	size_t len = verif_nd_size("len");
	size_t out;
	char *p;
	int ret;

	VERIF_ASSUME(len >= 1 && len <= 1024);
	p = malloc(len);
	VERIF_ASSUME(p != NULL);

	ret = decode(p, len, &out);

	VERIF_ASSERT(ret == -1 || ret == 0 ||
		     (ret >= 2 && (size_t)ret <= len),
		     "C07.decode.result_domain");
	if (ret > 0) {
		VERIF_ASSERT(p[ret - 1] == '\n', "C07.decode.newline");
	}
	VERIF_COVER(ret == -1);
	VERIF_COVER(ret == 0 && len > 3);
	VERIF_COVER(ret > 20);
}
