/* C07 (w15): urldecode (static, lib/tar/src/pax_header.c), UNBOUNDED: every
 * NUL-terminated string in an object of n <= URL_MAX (4096) bytes, symbolic
 * size and contents; the decode loop is closed by the loop contract of
 * contracts/loops/C07_w15.tbl - nothing is unwound. hex_decode is its
 * contract (proved unbounded in harness hex_decode): it requires two
 * readable hex digits and one writable output byte.
 *
 *  requires  str points to n bytes, str[L] == 0 for a ghost L < n
 *  C07.urldecode_unb.in_place     (loop invariant) out <= in <= str + L, so
 *                                 the decoder writes only bytes it has read
 *                                 and never grows the string
 *  C07.urldecode_unb.never_grows  str[L] == 0 afterwards: the result is
 *                                 NUL-terminated inside the original extent
 *  C07.urldecode_unb.hex_pre      hex_decode(in, 2, &x, 1) only with two hex
 *                                 digits that lie inside the string
 *  memory safety (every access inside the n-byte object: pointer checks),
 *  termination (decreases clause)
 */
#include <stdlib.h>
#include <string.h>
#include <ctype.h>
#include "verif.h"
#include "w15_loops.h"
size_t g_url_L;	/* ghost: index of a NUL byte */
#include "lib/tar/src/pax_header.c"

#ifndef URL_MAX
#define URL_MAX 4096
#endif

static char *g_url_str;

int hex_decode(const char *in, size_t in_sz, sqfs_u8 *out, size_t out_sz)
{
	VERIF_ASSERT(in_sz == 2 && out_sz == 1 && VERIF_W_OK(out, 1) &&
		     VERIF_SAME_OBJECT(in, g_url_str) &&
		     VERIF_POINTER_OFFSET(in) + 2 <= g_url_L &&
		     isxdigit(in[0]) && isxdigit(in[1]),
		     "C07.urldecode_unb.hex_pre");
	*out = verif_nd_u8("hex.value");
	return 0;
}

/* other callees of pax_header.c: not reachable from urldecode */
char *record_to_memory(sqfs_istream_t *fp, size_t size) { (void)fp; (void)size; VERIF_ASSERT(0, "C07.urldecode_unb.unexpected_callee"); return NULL; }
int parse_uint(const char *in, size_t len, size_t *diff, sqfs_u64 vmin, sqfs_u64 vmax, sqfs_u64 *out) { (void)in; (void)len; (void)diff; (void)vmin; (void)vmax; (void)out; VERIF_ASSERT(0, "C07.urldecode_unb.unexpected_callee"); return -1; }
int parse_int(const char *in, size_t len, size_t *diff, sqfs_s64 vmin, sqfs_s64 vmax, sqfs_s64 *out) { (void)in; (void)len; (void)diff; (void)vmin; (void)vmax; (void)out; VERIF_ASSERT(0, "C07.urldecode_unb.unexpected_callee"); return -1; }
sqfs_xattr_t *sqfs_xattr_create(const char *key, const sqfs_u8 *value, size_t value_len) { (void)key; (void)value; (void)value_len; VERIF_ASSERT(0, "C07.urldecode_unb.unexpected_callee"); return NULL; }
int base64_decode(const char *in, size_t in_len, sqfs_u8 *out, size_t *out_len) { (void)in; (void)in_len; (void)out; (void)out_len; VERIF_ASSERT(0, "C07.urldecode_unb.unexpected_callee"); return -1; }
void free_sparse_list(sparse_map_t *sparse) { (void)sparse; VERIF_ASSERT(0, "C07.urldecode_unb.unexpected_callee"); }

void harness(void)
{
	size_t n = verif_nd_size("n");
	char *p;

	VERIF_ASSUME(n >= 1 && n <= URL_MAX);
	p = malloc(n);
	VERIF_ASSUME(p != NULL);
	g_url_L = verif_nd_size("L");
	VERIF_ASSUME(g_url_L < n && p[g_url_L] == 0);
	g_url_str = p;
	VERIF_COVER(g_url_L > 6 && p[0] == '%' && p[1] == '4' && p[2] == '1' && p[3] != 0);

	urldecode(p);

	VERIF_ASSERT(p[g_url_L] == 0, "C07.urldecode_unb.never_grows");
	VERIF_COVER(g_url_L > 6 && p[5] != 0);
	VERIF_COVER(g_url_L == 0);
}
