# Round-2 extension (worker w15): unbounded loop-contract proofs replacing the
# bounded stand-ins of cases.py for the text / tar-extension parsers.
CT = {"__NO_CTYPE": None}

FUNCTIONS = []
TRUSTED = []
ASSUMPTIONS = []

HARNESSES = [
    dict(name="split_line_unb", file="w15_split_line_unb.c", label="proved",
         loops=["split_line"], loop_tables=["C07_w15"], defines=CT,
         unwindset=["strchr.0:4"],
         pre_instrument_flags=["--replace-calls", "append_arg:stub_append_arg"], timeout=900, weight=4,
         cases=[dict(id="max255", defines={"SPLIT_MAX": 255, "__NO_CTYPE": None}, tier="quick", timeout=200),
                dict(id="max4095", defines={"SPLIT_MAX": 4095, "__NO_CTYPE": None}, tier="thorough", timeout=300)]),
]
