# Round-2 extension (worker w15): unbounded loop-contract proofs replacing the
# bounded stand-ins of cases.py for the text / tar-extension parsers.
# Every harness here is `proved`: each input-driven loop of the function under
# test is closed by a loop contract of contracts/loops/C07_w15.tbl (assigns /
# invariant / decreases), the input length is symbolic up to the stated cap.
# Function contracts are enforced by the harness (assume / call / assert) and
# loop contracts by plain `goto-instrument --apply-loop-contracts` (tool limit
# DESIGN 11.2: --dfcc + pointer-walking loop contracts does not terminate).
CT = {"__NO_CTYPE": None}

FUNCTIONS = [
    "split_line (all lengths <= cap)", "ltrim / rtrim / trim (all lengths <= 4096)",
    "urldecode (all lengths <= 4096)", "read_pax_header (all record sizes <= 4095)",
    "pax_sparse_map (all value lengths <= 4096)", "find_handler (all key lengths <= 4096)", "apply_handler + pax_uid/gid/size/mtime/rsize/path/slink/xattr_schily (rows 0..11, all key / value lengths <= 4096)", "pax_xattr_libarchive (all key / value lengths, block <= 4096 payload bytes)",
    "decode_priority (all line lengths <= 4096)", "decode_flags (all line lengths <= 4096, any number of flag tokens)", "parse of read_sparse_map_old.c (4 / 21 slots)",
]
TRUSTED = [
    "w15 unbounded harnesses: strlen = index of *a* NUL inside the object (superset of the first), memmove = bounds-checking witness-byte stub (DESIGN 2.4)",
    "w15 unbounded harnesses: sparse lists (pax_loop_unb, pax_map_unb) are abstracted by one summary node handed out by calloc; list shape and leak freedom stay with the bounded harnesses pax_loop / pax_sparse_map / old_sparse",
    "w15 split_line_unb: append_arg (realloc + store, 4 lines) is replaced by its contract stub_append_arg on one typed header object; the real append_arg is exercised by the bounded harness split_line",
    "w15 sort_flags_unb: split_line is its contract (error codes, or a list of count <= (len+1)/2 tokens in a heap block of exactly count slots); its universally quantified postcondition 'every args[i] points into line[0..len]' is instantiated (assumed) at the point where the token is handed to trim; trim / strcmp(tok, literal) / strchr / strlen / memmove are contracts (in place inside the token, any result, a ']' before the terminator, a NUL inside the object, bounds-checking witness-byte move)",
    "w15 pax_xattr_unb: base64_decode (in place, result <= capacity) and urldecode (in place, never grows; proved by urldecode_unb) as contracts; the xattr block is allocated with exactly sizeof(sqfs_xattr_t)+klen+1+vlen+1 bytes",
    "w15 sort_prio_unb / pax_map_unb: parse_int / parse_uint as contracts (proved unbounded in harness parse_int): on success 1 <= diff consumed bytes, none of them NUL",
    "w15 pax_loop_unb: strcmp(key, literal) returns any value (both outcomes of each key comparison explored); strtol / parse_uint / record_to_memory / find_handler / apply_handler as in pax_loop, but their 'distance to the terminator' is any value up to the record end (no read of the record inside the contracts)",
]
ASSUMPTIONS = [
    "caps of the w15 unbounded proofs: object size <= 4096 bytes (symbolic below the cap), stated per harness case id",
    "goto-instrument 6.11 rejects loop contracts on do/while loops whose condition has no side effect (conditional back edge): read_gnu_old_sparse's extension-record chain stays bounded (harness old_sparse); its slot decoder parse() is proved for the two slot counts of the format (old_parse)",
    "split_line_unb: proved for all lengths <= 63 with the exact-size object (len+1 bytes; beyond that the array-theory SAT problem of the five nested loop contracts gives no verdict in 600 s: minisat and cadical at 255, z3 and cvc5 at 4095 tried) and for all lengths <= 4095 with the fixed object (line right-aligned; 38 min); the loop invariants are independent of the cap",
    "guard-less `for (;;)` loops get no loop contract in cbmc 6.11: istream_get_line, decode_filename, read_header and fstree_from_file_stream stay bounded (harnesses get_line, sort_decode, read_header, handle_line)",
]

_PAX_FP = {"sint": "pax_mtime", "uint": ["pax_uid", "pax_gid", "pax_size", "pax_rsize"],
           "str": ["pax_path", "pax_slink"], "cstr": "pax_sparse_map",
           "xattr": ["pax_xattr_schily", "pax_xattr_libarchive"]}

HARNESSES = [
    # Two object models. `exact*`: the line object has exactly len+1 bytes (symbolic size, array theory):
    # every byte outside line[0..len] is a pointer-check failure; formula size is independent of the cap
    # (1.8 M variables: array theory over the havocked object x 5 loop contracts) but SAT time is not:
    # 8 -> 55 s, 31 -> 130 s, 63 -> 210 s, 255 and 4095 -> no verdict in 600 s (minisat, cadical, z3, cvc5).
    # `fix*`: a fixed object of cap+1 bytes with the line right-aligned in it (line[len] is the last byte of
    # the object: overruns at the top are pointer-check failures, the bottom is guarded by the invariants
    # src, dst >= line): 63 -> 80 s, 255 -> 230 s, 1023 -> 300..470 s, 4095 -> 2295 s (4.3 M variables, 4 GB).
    # The invariants themselves are cap-free.
    dict(name="split_line_unb", file="w15_split_line_unb.c", label="proved",
         loops=["split_line"], loop_tables=["C07_w15"], defines=CT,
         unwindset=["strchr.0:4"], timeout=1500, weight=8,
         pre_instrument_flags=["--replace-calls", "append_arg:stub_append_arg"],
         cases=[dict(id="fix15", defines={"SPLIT_MAX": 15, "SL_FIXED": None, "__NO_CTYPE": None}, tier="quick"),
                dict(id="fix63", defines={"SPLIT_MAX": 63, "SL_FIXED": None, "__NO_CTYPE": None}, tier="quick"),
                dict(id="exact31", defines={"SPLIT_MAX": 31, "__NO_CTYPE": None}, tier="thorough"),
                dict(id="exact63", defines={"SPLIT_MAX": 63, "__NO_CTYPE": None}, tier="thorough"),
                dict(id="fix255", defines={"SPLIT_MAX": 255, "SL_FIXED": None, "__NO_CTYPE": None}, tier="thorough"),
                dict(id="fix1023", defines={"SPLIT_MAX": 1023, "SL_FIXED": None, "__NO_CTYPE": None}, tier="thorough"),
                # the full cap: measured 2295 s / 4.0 GB (4.3 M variables) - the longest job of the thorough tier
                dict(id="fix4095", defines={"SPLIT_MAX": 4095, "SL_FIXED": None, "__NO_CTYPE": None}, tier="thorough",
                     timeout=4200)]),
    dict(name="trim_unb", file="w15_trim_unb.c", label="proved",
         loops=["ltrim", "rtrim"], loop_tables=["C07_w15"], timeout=600,
         cases=[dict(id="ltrim_max4096", defines={"PART": 0, "TRIM_MAX": 4096, "__NO_CTYPE": None}, tier="quick"),
                dict(id="rtrim_max4096", defines={"PART": 1, "TRIM_MAX": 4096, "__NO_CTYPE": None}, tier="quick"),
                dict(id="trim_max4096", defines={"PART": 2, "TRIM_MAX": 4096, "__NO_CTYPE": None}, tier="quick")]),
    dict(name="urldecode_unb", file="w15_urldecode_unb.c", label="proved",
         loops=["urldecode"], loop_tables=["C07_w15"], timeout=600,
         nochecks=["--conversion-check"],   # sqfs_u8 x = *(in++): char -> u8 is the intended idiom
         fp=_PAX_FP,
         cases=[dict(id="max4096", defines={"URL_MAX": 4096, "__NO_CTYPE": None}, tier="quick")]),
    dict(name="pax_map_unb", file="w15_pax_map_unb.c", label="proved",
         loops=["pax_sparse_map"], loop_tables=["C07_w15"], timeout=600,
         nochecks=["--conversion-check"],   # parse_uint(line, -1, ..): int -1 -> size_t is the intended idiom
         fp=_PAX_FP,
         unwindset=["strlen.0:22"],
         cases=[dict(id="max4096", defines={"MAP_MAX": 4096, "__NO_CTYPE": None}, tier="quick"),
                dict(id="via_apply", defines={"MAP_MAX": 4096, "VIA_APPLY": None, "__NO_CTYPE": None}, tier="quick")]),
    dict(name="pax_loop_unb", file="w15_pax_loop_unb.c", label="proved",
         loops=["read_pax_header"], loop_tables=["C07_w15"], timeout=900, weight=6,
         pre_instrument_flags=["--replace-calls", "find_handler:stub_find_handler",
                               "--replace-calls", "apply_handler:stub_apply_handler"],
         nochecks=["--conversion-check"],
         fp=_PAX_FP,
         cases=[dict(id="max32", defines={"PAX_MAX": 32, "__NO_CTYPE": None}, tier="quick"),
                dict(id="max4095", defines={"PAX_MAX": 4095, "__NO_CTYPE": None}, tier="thorough")]),
    # loops over the 14 table rows / row names <= 19 bytes: constants of the code, unwound completely
    dict(name="pax_find_unb", file="w15_pax_find_unb.c", label="proved", timeout=600, unwind=22,
         nochecks=["--conversion-check"], fp=_PAX_FP,
         cases=[dict(id="max4096", defines={"KEY_MAX": 4096, "__NO_CTYPE": None}, tier="quick")]),
    # apply_handler is loop-free; rows 0..11 = every row with a loop-free callback (12, 13: pax_xattr_unb, pax_map_unb)
    dict(name="pax_apply_unb", file="w15_pax_apply_unb.c", label="proved", timeout=600, unwind=22,
         nochecks=["--conversion-check"], fp=_PAX_FP,
         cases=[dict(id="row%d" % i, defines={"IDX": i, "APPLY_MAX": 4096, "__NO_CTYPE": None}, tier="quick")
                for i in range(12)]),
    # loop-free; key / value lengths symbolic, block allocated with exactly the size sqfs_xattr_create uses
    dict(name="pax_xattr_unb", file="w15_pax_xattr_unb.c", label="proved", timeout=600,
         pre_instrument_flags=["--replace-calls", "urldecode:stub_urldecode"],
         nochecks=["--conversion-check"], fp=_PAX_FP,
         unwindset=["strlen.0:22"],
         cases=[dict(id="max4096", defines={"XCAP": 4096, "XEXACT": None, "__NO_CTYPE": None}, tier="quick"),
                dict(id="via_apply", defines={"XCAP": 4096, "XEXACT": None, "VIA_APPLY": None, "__NO_CTYPE": None}, tier="quick")]),
    dict(name="sort_prio_unb", file="w15_sort_prio_unb.c", label="proved",
         loops=["decode_priority"], loop_tables=["C07_w15"], timeout=600,
         include_dirs=["bin/gensquashfs/src"], fp={"*": "env_never"},
         cases=[dict(id="max4096", defines={"PRIO_MAX": 4096, "__NO_CTYPE": None}, tier="quick")]),
    dict(name="sort_flags_unb", file="w15_sort_flags_unb.c", label="proved",
         loops=["decode_flags"], loop_tables=["C07_w15"], timeout=600,
         include_dirs=["bin/gensquashfs/src"], fp={"*": "env_never"},
         cases=[dict(id="max4096", defines={"FLAGS_MAX": 4096, "__NO_CTYPE": None}, tier="quick")]),
    # parse() of read_sparse_map_old.c: loop over 4 / 21 slots = constants of the format, unwound completely
    dict(name="old_parse", file="w15_old_parse.c", label="proved", malloc_fail=True, timeout=600,
         unwind=24, unwindset=["verif_nd_bytes.0:505"],
         cases=[dict(id="count4", defines={"COUNT": 4, "__NO_CTYPE": None}, tier="quick"),
                dict(id="count21", defines={"COUNT": 21, "__NO_CTYPE": None}, tier="quick")]),
]
