# Round-2 extension (worker w15): unbounded loop-contract proofs replacing the
# bounded stand-ins of cases.py for the text / tar-extension parsers.
CT = {"__NO_CTYPE": None}

FUNCTIONS = []
TRUSTED = []
ASSUMPTIONS = []

HARNESSES = [
    dict(name="split_line_unb", file="w15_split_line_unb.c", label="proved",
         loops=["split_line"], loop_tables=["C07_w15"], defines=CT,
         unwindset=["strchr.0:4"], timeout=900, weight=4,
         cases=[dict(id="max4095", defines={"SPLIT_MAX": 4095, "__NO_CTYPE": None}, tier="quick")]),
]
