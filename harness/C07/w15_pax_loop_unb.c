/* C07 (w15): read_pax_header (lib/tar/src/pax_header.c) - the record / line
 * scanner - UNBOUNDED: a PAX record of entsize bytes, entsize symbolic in
 * [0, PAX_MAX] (cap 4095 + the terminator = a 4096-byte object), fully
 * symbolic contents. All three loops (the line loop, the white-space skip,
 * the key scan) are closed by the loop contracts of
 * contracts/loops/C07_w15.tbl; nothing is unwound. strcmp() of the key against
 * the two literals "GNU.sparse.offset"/"GNU.sparse.numbytes" is its contract
 * (key inside the record, any result).
 *
 * Modular, as in the bounded harness pax_loop: find_handler / apply_handler
 * are redirected to their contracts (verified in pax_apply / pax_sparse_map /
 * pax_xattr); record_to_memory (fresh buffer of entsize+1 bytes, NUL at
 * [entsize]), strtol (consumes any prefix of the string, any value),
 * parse_uint (proved in parse_int), free_sparse_list are their contracts.
 * The GNU 0.0 sparse list (one calloc per "GNU.sparse.numbytes" line) is
 * abstracted by ONE summary node g_pax_node: calloc returns NULL or that
 * node; the scanner never reads a node field, it only links. List shape is
 * the business of the bounded harness pax_loop.
 *
 *  C07.pax_unb.line_in_record  every string handed to strtol, parse_uint,
 *        find_handler and apply_handler starts inside [buffer, buffer+entsize]
 *        (NUL-terminated there by buffer[entsize]); key < value, both inside
 *        the current line; a value of valuelen bytes is followed by the NUL
 *        that replaced the line's last byte, before buffer+entsize - i.e.
 *        every accepted `len` satisfied line + len <= end
 *  C07.pax_unb.status_domain   0 or -1
 *  C07.pax_unb.flags           set_by_pax only gains flags of handlers that
 *                              were applied successfully
 *  C07.pax_unb.buffer_freed    the record buffer is released exactly once on
 *                              every path after a successful read
 *  memory safety (pointer checks), termination (decreases on all 3 loops)
 */
#include <stdlib.h>
#include <string.h>
#include <ctype.h>
#include "verif.h"
#include "w15_loops.h"
#include "tar/tar.h"
#include "tar/format.h"

#ifndef PAX_MAX
#define PAX_MAX 4095
#endif

char *g_buf;			/* the record */
size_t g_ent;			/* its size (ghost copy of entsize) */
unsigned int g_flags_applied;
sparse_map_t g_pax_node;	/* summary node of the sparse list */
int g_buf_frees;
static sqfs_istream_t g_strm;

static void *w15_calloc(size_t n, size_t sz)
{
	VERIF_ASSERT(n == 1 && sz == sizeof(sparse_map_t), "C07.pax_unb.calloc_size");
	if (verif_nd_bool("calloc.fail"))
		return NULL;
	g_pax_node.next = NULL;
	g_pax_node.offset = 0;
	g_pax_node.count = 0;
	return &g_pax_node;
}

static void w15_free(void *p)
{
	if (p == NULL)
		return;
	VERIF_ASSERT(p == (void *)g_buf && g_buf_frees == 0, "C07.pax_unb.buffer_freed");
	g_buf_frees += 1;
}

static int w15_strcmp(const char *a, const char *b);

#define calloc(n, s) w15_calloc(n, s)
#define free(p) w15_free(p)
#define strcmp(a, b) w15_strcmp(a, b)
#include "lib/tar/src/pax_header.c"
#undef calloc
#undef free
#undef strcmp

/* p points into the record; returns an upper bound of the distance to the
 * first NUL at or after p (there always is one inside the record:
 * buffer[entsize]). The callee contracts below then permit a superset of what
 * the real functions do - sound, loop-free and without reading the record. */
static size_t in_record(const char *p)
{
	size_t off, len;

	VERIF_ASSERT(g_buf != NULL && VERIF_SAME_OBJECT(p, g_buf) &&
		     VERIF_POINTER_OFFSET(p) <= g_ent,
		     "C07.pax_unb.line_in_record");
	off = VERIF_POINTER_OFFSET(p);
	VERIF_ASSUME(off <= g_ent);
	len = verif_nd_size("strlen");
	VERIF_ASSUME(len <= g_ent - off);
	return len;
}

/* strcmp(key, "literal"): requires key inside the record (NUL-terminated
 * there); any result - both outcomes of every key comparison are explored */
static int w15_strcmp(const char *a, const char *b)
{
	(void)in_record(a);
	VERIF_ASSERT(b != NULL && !VERIF_SAME_OBJECT(b, g_buf), "C07.pax_unb.strcmp_pre");
	return verif_nd_int("strcmp");
}

char *record_to_memory(sqfs_istream_t *fp, size_t size)
{
	VERIF_ASSERT(fp == &g_strm && size == g_ent, "C07.pax_unb.rtm_pre");
	if (verif_nd_bool("rtm.fail"))
		return NULL;
	g_buf = malloc(size + 1);
	VERIF_ASSUME(g_buf != NULL);
	g_buf[size] = '\0';
	return g_buf;
}

long strtol(const char *nptr, char **endptr, int base)
{
	size_t len = in_record(nptr), k = verif_nd_size("strtol.k");

	VERIF_ASSERT(base == 10 && endptr != NULL, "C07.pax_unb.strtol_pre");
	VERIF_ASSUME(k <= len);
	*endptr = (char *)nptr + k;
	return (long)verif_nd_i64("strtol.value");
}

int parse_uint(const char *in, size_t len, size_t *diff,
	       sqfs_u64 vmin, sqfs_u64 vmax, sqfs_u64 *out)
{
	size_t slen = in_record(in), d = verif_nd_size("parse.diff");

	(void)vmin; (void)vmax;
	VERIF_ASSERT(len == (size_t)-1 && diff != NULL, "C07.pax_unb.parse_pre");
	*diff = 0;
	*out = 0;
	if (verif_nd_bool("parse.fail"))
		return verif_nd_bool("parse.ov") ? SQFS_ERROR_OVERFLOW :
			SQFS_ERROR_CORRUPTED;
	VERIF_ASSUME(d >= 1 && d <= slen);
	*diff = d;
	*out = verif_nd_u64("parse.value");
	return 0;
}

/* ------------------------------- contracts of the two static helpers */
const struct pax_handler_t *stub_find_handler(const char *key)
{
	uint8_t idx = verif_nd_u8("handler");

	(void)in_record(key);
	if (idx >= sizeof(pax_fields) / sizeof(pax_fields[0]))
		return NULL;
	return pax_fields + idx;
}

int stub_apply_handler(tar_header_decoded_t *out,
		       const struct pax_handler_t *field, const char *key,
		       const char *value, size_t valuelen)
{
	VERIF_ASSERT(out != NULL && field >= pax_fields &&
		     field < pax_fields + sizeof(pax_fields) /
		     sizeof(pax_fields[0]), "C07.pax_unb.apply_pre");
	(void)in_record(key);
	(void)in_record(value);
	VERIF_ASSERT(VERIF_POINTER_OFFSET(key) < VERIF_POINTER_OFFSET(value) &&
		     valuelen < g_ent &&
		     VERIF_POINTER_OFFSET(value) + valuelen <= g_ent - 1 &&
		     g_buf[VERIF_POINTER_OFFSET(value) + valuelen] == '\0' &&
		     g_buf[VERIF_POINTER_OFFSET(value) - 1] == '\0',
		     "C07.pax_unb.line_in_record");
	if (verif_nd_bool("apply.fail"))
		return -1;
	g_flags_applied |= (unsigned int)field->flag;
	return 0;
}

/* not reached once the helpers are replaced */
int parse_int(const char *in, size_t len, size_t *diff, sqfs_s64 vmin, sqfs_s64 vmax, sqfs_s64 *out) { (void)in; (void)len; (void)diff; (void)vmin; (void)vmax; (void)out; VERIF_ASSERT(0, "C07.pax_unb.unexpected_callee"); return -1; }
sqfs_xattr_t *sqfs_xattr_create(const char *key, const sqfs_u8 *value, size_t value_len) { (void)key; (void)value; (void)value_len; VERIF_ASSERT(0, "C07.pax_unb.unexpected_callee"); return NULL; }
int base64_decode(const char *in, size_t in_len, sqfs_u8 *out, size_t *out_len) { (void)in; (void)in_len; (void)out; (void)out_len; VERIF_ASSERT(0, "C07.pax_unb.unexpected_callee"); return -1; }
int hex_decode(const char *in, size_t in_sz, sqfs_u8 *out, size_t out_sz) { (void)in; (void)in_sz; (void)out; (void)out_sz; VERIF_ASSERT(0, "C07.pax_unb.unexpected_callee"); return -1; }

/* contract: releases the old list of the header; the harness passes NULL or
 * the summary node, nothing is traversed */
void free_sparse_list(sparse_map_t *sparse)
{
	VERIF_ASSERT(sparse == NULL || sparse == &g_pax_node, "C07.pax_unb.free_list_pre");
}

void harness(void)
{
	tar_header_decoded_t out;
	unsigned int set_by_pax = 0;
	size_t ent = verif_nd_size("entsize");
	int ret;

	memset(&out, 0, sizeof(out));
	g_buf = NULL;
	g_flags_applied = 0;
	g_buf_frees = 0;
	g_pax_node.next = NULL;
	VERIF_ASSUME(ent <= PAX_MAX);
	g_ent = ent;

	ret = read_pax_header(&g_strm, ent, &set_by_pax, &out);

	VERIF_ASSERT(ret == 0 || ret == -1, "C07.pax_unb.status_domain");
	VERIF_ASSERT((set_by_pax & ~g_flags_applied) == 0, "C07.pax_unb.flags");
	VERIF_ASSERT(ret != 0 || set_by_pax == g_flags_applied, "C07.pax_unb.flags");
	VERIF_ASSERT(g_buf_frees == (g_buf != NULL ? 1 : 0), "C07.pax_unb.buffer_freed");
	VERIF_ASSERT(out.sparse == NULL || out.sparse == &g_pax_node, "C07.pax_unb.sparse_domain");

	VERIF_COVER(ret == 0 && set_by_pax == 0 && ent > 20);
	VERIF_COVER(ret == 0 && set_by_pax != 0);
	VERIF_COVER(ret == -1 && g_buf != NULL);
	VERIF_COVER(ret == 0 && out.sparse != NULL);
}
