/* C07: record_to_memory (lib/tar/src/record_to_memory.c), loop-free, for
 * every size the callers' limits admit (C07.limits.*: 1..65536) and every
 * behaviour of the stream contract (error, short transfer, failing skip),
 * every allocation may fail.
 *
 *  requires  1 <= size <= 65536          (established by read_header,
 *                                         obligations C07.limits.*)
 *  ensures   C07.rtm.terminated   result NULL or a buffer of size+1 bytes
 *                                 with buffer[size] == 0
 *            C07.rtm.read_pre     the payload read is issued for exactly
 *                                 `size` bytes into that buffer
 *                                 (C07.istream_read.pre proves it writable)
 *            C07.rtm.padding      the skip completes the 512-byte record
 *            C07.rtm.fail_stop    any stream error / short transfer => NULL
 *            no leak on the failure paths (--memory-leak-check)
 */
#include "verif.h"
#include "lib/tar/src/record_to_memory.c"
#define REAL_record_to_memory
#define ENV_FILL_MAX 0	/* symbolic size: witness byte only */
#include "tar_env.h"

void harness(void)
{
	size_t size = verif_nd_size("size");
	char *p;

	VERIF_ASSUME(size >= 1 && size <= 65536);

	p = record_to_memory(&g_strm, size);

	if (p != NULL) {
		VERIF_ASSERT(VERIF_RW_OK(p, size + 1) && p[size] == '\0',
			     "C07.rtm.terminated");
		VERIF_ASSERT(!g_stream_failed, "C07.rtm.fail_stop");
		VERIF_ASSERT(g_full_reads == 1, "C07.rtm.read_pre");
		VERIF_ASSERT(size % 512 == 0 ||
			     (g_skipped_last == 512 - size % 512 &&
			      (size + g_skipped_last) % 512 == 0),
			     "C07.rtm.padding");
		VERIF_COVER(size == 65536);
		VERIF_COVER(size == 1);
		VERIF_COVER(size % 512 == 0);
		free(p);
	} else {
		VERIF_COVER(g_stream_failed);
		VERIF_COVER(!g_stream_failed);
	}
}
