/* C07: handle_line, add_generic, add_device, add_file
 * (bin/gensquashfs/src/fstree_from_file.c) - one pack-file line that
 * split_line has cut into NARGS tokens (shape parameter; the split object has
 * exactly NARGS slots, so any args[] access past the count is a bounds
 * violation). Keyword (5 bytes), path (3), extra tokens (2 each) are fully
 * symbolic NUL-terminated strings; numeric tokens are opaque because
 * parse_uint / parse_uint_oct are their contracts (harness parse_int).
 * canonicalize_name (C18), alloc_flex, fstree_add_generic, glob_files are
 * their contracts.
 *
 *  C07.packfile.status_domain   0 or -1
 *  C07.packfile.args            every args[i] read has i < count at that
 *                               moment (CBMC bounds check on the exact-size
 *                               object; covers add_file's args[count++])
 *  C07.packfile.ranges          mode is parsed with range 0..07777, uid/gid
 *                               and device numbers with 0..0xFFFFFFFF
 *  C07.packfile.name_canon      the entry name handed to fstree_add_generic
 *                               / glob_files is the canonicalised path
 *  C07.packfile.extra           fstree_add_generic gets NULL or the single
 *                               remaining token; more than one is refused
 *  C07.packfile.root            an empty path is accepted for dir / glob
 *                               only
 *  no leak of the entry (--memory-leak-check)
 */
#include "verif.h"
#include "bin/gensquashfs/src/fstree_from_file.c"
#include "lib/util/src/split_line.c"
#include "sysmacros_model.h"

#ifndef NARGS
#define NARGS 5
#endif
#define KWLEN 5
#define PLEN 3
#define XLEN 2
#define CAP (NARGS > 0 ? NARGS : 1)

typedef struct {
	split_line_t s;
	char *slots[CAP];
} split_box_t;

typedef struct {
	sqfs_dir_entry_t e;
	char name[PLEN + 1];
} ent_box_t;

static char g_kw[KWLEN + 1], g_path[PLEN + 1], g_num[3][2], g_x[4][XLEN + 1];
static split_box_t g_split;
static fstree_t g_fs;
static int g_canon_ok, g_added, g_globbed;
static const char *g_added_extra;

int canonicalize_name(char *filename)
{
	VERIF_ASSERT(filename == g_path, "C07.packfile.name_canon");
	if (verif_nd_bool("canon.fail"))
		return -1;
	if (verif_nd_bool("canon.empty"))
		filename[0] = '\0';
	g_canon_ok = 1;
	return 0;
}

static int num_contract(const char *in, size_t len, size_t *diff,
			sqfs_u64 vmin, sqfs_u64 vmax, sqfs_u64 *out)
{
	VERIF_ASSERT(in != NULL && len == (size_t)-1 && diff == NULL &&
		     vmin == 0, "C07.packfile.parse_pre");
	*out = 0;
	if (verif_nd_bool("parse.fail"))
		return SQFS_ERROR_OUT_OF_BOUNDS;
	*out = verif_nd_u64("parse.value");
	VERIF_ASSUME(*out <= vmax);
	return 0;
}

int parse_uint(const char *in, size_t len, size_t *diff,
	       sqfs_u64 vmin, sqfs_u64 vmax, sqfs_u64 *out)
{
	VERIF_ASSERT(vmax == 0x0FFFFFFFFULL, "C07.packfile.ranges");
	return num_contract(in, len, diff, vmin, vmax, out);
}

int parse_uint_oct(const char *in, size_t len, size_t *diff,
		   sqfs_u64 vmin, sqfs_u64 vmax, sqfs_u64 *out)
{
	VERIF_ASSERT(vmax == 07777 && in == g_num[0], "C07.packfile.ranges");
	return num_contract(in, len, diff, vmin, vmax, out);
}

void *alloc_flex(size_t base_size, size_t item_size, size_t nmemb)
{
	ent_box_t *b;

	VERIF_ASSERT(base_size == sizeof(sqfs_dir_entry_t) && item_size == 1 &&
		     nmemb == strlen(g_path) + 1, "C07.packfile.alloc");
	b = calloc(1, sizeof(*b));
	return b;
}

static void check_ent(const sqfs_dir_entry_t *ent)
{
	VERIF_ASSERT(g_canon_ok && strcmp(ent->name, g_path) == 0,
		     "C07.packfile.name_canon");
	VERIF_ASSERT(ent->uid <= 0xFFFFFFFFULL && ent->gid <= 0xFFFFFFFFULL &&
		     (ent->mode & 07777 & ~07777) == 0,
		     "C07.packfile.ranges");
}

tree_node_t *fstree_add_generic(fstree_t *fs, const sqfs_dir_entry_t *ent,
				const char *extra)
{
	static tree_node_t node;

	VERIF_ASSERT(fs == &g_fs, "C07.packfile.add_pre");
	check_ent(ent);
	g_added = 1;
	g_added_extra = extra;
	if (verif_nd_bool("add.fail")) {
		errno = EEXIST;
		return NULL;
	}
	return &node;
}

int glob_files(fstree_t *fs, const char *filename, size_t line_num,
	       const sqfs_dir_entry_t *ent, const char *basepath,
	       unsigned int glob_flags, split_line_t *extra)
{
	(void)filename; (void)line_num; (void)basepath; (void)glob_flags;
	VERIF_ASSERT(fs == &g_fs && extra == &g_split.s &&
		     extra->count == NARGS - 5, "C07.packfile.add_pre");
	check_ent(ent);
	g_globbed = 1;
	return verif_nd_bool("glob.fail") ? -1 : 0;
}

void harness(void)
{
	options_t opt;
	size_t i;
	int ret;

	verif_nd_bytes(g_kw, KWLEN, "kw");
	verif_nd_bytes(g_path, PLEN, "path");
	for (i = 0; i < 4; ++i)
		verif_nd_bytes(g_x[i], XLEN, "extra");
	memset(&opt, 0, sizeof(opt));
	opt.dirscan_flags = verif_nd_u32("dirscan_flags");
	opt.force_uid_value = verif_nd_u32("force_uid");
	opt.force_gid_value = verif_nd_u32("force_gid");

	g_split.s.count = NARGS;
	for (i = 0; i < NARGS; ++i) {
		if (i == 0)
			g_split.s.args[i] = g_kw;
		else if (i == 1)
			g_split.s.args[i] = g_path;
		else if (i <= 4)
			g_split.s.args[i] = g_num[i - 2];
		else
			g_split.s.args[i] = g_x[(i - 5) % 4];
	}
	/* "*" is meaningful for glob lines */
	g_num[0][0] = (char)(verif_nd_bool("star0") ? '*' : '7');
	g_num[1][0] = (char)(verif_nd_bool("star1") ? '*' : '1');
	g_num[2][0] = (char)(verif_nd_bool("star2") ? '*' : '1');

	ret = handle_line(&g_fs, "packfile", 7, &g_split.s, &opt);

	VERIF_ASSERT(ret == 0 || ret == -1, "C07.packfile.status_domain");
	VERIF_ASSERT(g_split.s.count <= NARGS, "C07.packfile.args");
	if (g_added) {
		VERIF_ASSERT(g_added_extra == NULL ||
			     (g_split.s.count == 1 &&
			      g_added_extra == g_split.s.args[0]),
			     "C07.packfile.extra");
		VERIF_ASSERT(g_path[0] != '\0' || strcmp(g_kw, "dir") == 0,
			     "C07.packfile.root");
	}
	if (ret == 0)
		VERIF_ASSERT(g_added || g_globbed, "C07.packfile.status_domain");
#if NARGS < 5
	VERIF_ASSERT(ret == -1 && !g_added && !g_globbed,
		     "C07.packfile.args");
	VERIF_COVER(ret == -1);
#else
#if NARGS == 5
	VERIF_COVER(ret == 0 && g_added && g_added_extra == NULL);
#endif
	VERIF_COVER(ret == 0 && g_globbed);
#if NARGS == 5 || NARGS == 6 || NARGS == 8
	VERIF_COVER(ret == -1 && g_added);
#endif
	VERIF_COVER(ret == -1 && !g_added && g_canon_ok);
#endif
#if NARGS == 6
	VERIF_COVER(ret == 0 && g_added && g_added_extra != NULL);
#endif
#if NARGS == 8
	VERIF_COVER(ret == 0 && g_added && strcmp(g_kw, "nod") == 0);
#endif
}
