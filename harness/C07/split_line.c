/* C07: split_line (lib/util/src/split_line.c) on every line of LEN bytes
 * (fully symbolic contents incl. embedded NULs, quotes, backslashes), both
 * separator sets used in the tree (" \t" and ","), every allocation may
 * fail. The line object is LEN+2 bytes: [0..LEN) the text, [LEN] the
 * terminator the callers guarantee (NUL, or ']' for the flag list of the
 * sort file), [LEN+1] a sentinel.
 *
 *  ensures  C07.split.status_domain  one of the four SPLIT_LINE_* codes
 *           C07.split.in_place       on success every args[i] points into
 *                                    line[0..LEN], is NUL-terminated within
 *                                    line[0..LEN], the tokens are in order
 *                                    and do not overlap
 *           C07.split.sentinel       line[LEN+1] is never written (at most
 *                                    len+1 bytes of the line are touched)
 *           C07.split.count          at most (LEN+1)/2 tokens
 *           C07.split.fail_null      on failure *out is not set (nothing to
 *                                    free, nothing dangling)
 */
#include <string.h>
#include "verif.h"
#include "lib/util/src/split_line.c"

#ifndef LEN
#define LEN 4
#endif

void harness(void)
{
	char line[LEN + 2];
	split_line_t *out = NULL;
	const char *sep = verif_nd_bool("sep") ? " \t" : ",";
	bool flaglist = verif_nd_bool("flaglist");
	size_t i, j;
	int ret;

	verif_nd_bytes(line, LEN, "line");
	line[LEN] = flaglist ? ']' : '\0';
	line[LEN + 1] = 0x5a;

	ret = split_line(line, LEN, sep, &out);

	VERIF_ASSERT(ret == SPLIT_LINE_OK || ret == SPLIT_LINE_ALLOC ||
		     ret == SPLIT_LINE_UNMATCHED_QUOTE ||
		     ret == SPLIT_LINE_ESCAPE, "C07.split.status_domain");
	VERIF_ASSERT(line[LEN + 1] == 0x5a, "C07.split.sentinel");

	if (ret == SPLIT_LINE_OK) {
		VERIF_ASSERT(out != NULL && out->count <= (LEN + 1) / 2,
			     "C07.split.count");
		for (i = 0; i < (LEN + 1) / 2 && i < out->count; ++i) {
			char *a = out->args[i];
			size_t off = (size_t)(a - line);
			bool nul = false;

			VERIF_ASSERT(a >= line && a <= line + LEN,
				     "C07.split.in_place");
			for (j = 0; j <= LEN; ++j) {
				if (j >= off && line[j] == '\0') {
					nul = true;
					break;
				}
			}
			VERIF_ASSERT(nul, "C07.split.in_place");
			if (i + 1 < out->count)
				VERIF_ASSERT(out->args[i + 1] > line + j,
					     "C07.split.in_place");
		}
		VERIF_COVER(out->count == (LEN + 1) / 2);
#if LEN >= 2
		VERIF_COVER(out->count == 1 && out->args[0][0] == '\0');
#endif
		VERIF_COVER(out->count == 0);
		free(out);
	} else {
		VERIF_ASSERT(out == NULL, "C07.split.fail_null");
		VERIF_COVER(ret == SPLIT_LINE_ALLOC);
#if LEN >= 2
		VERIF_COVER(ret == SPLIT_LINE_UNMATCHED_QUOTE);
		VERIF_COVER(ret == SPLIT_LINE_ESCAPE);
#endif
	}
}
