/* C07 (w15): parse() of lib/tar/src/read_sparse_map_old.c - the slot-table
 * decoder of the old GNU sparse format - against the contract its caller
 * read_gnu_old_sparse relies on. Its loop runs over the 4 (header) / 21
 * (extension record) table slots: constants of the format, unwound
 * completely (unwinding assertion), so the label is `proved`; slot bytes fully
 * symbolic, real calloc that may fail, an existing list or none,
 * read_number is its contract (harness number).
 *
 * NOT here: the do/while loop of read_gnu_old_sparse over the chain of
 * extension records. goto-instrument 6.11 rejects a loop contract on it
 * ("Loop contracts are unsupported on do/while loops": a do/while with a
 * side-effect-free condition gets a conditional back edge); that loop stays
 * bounded in harness old_sparse (extension records <= 2).
 *
 *  C07.old_parse.status  -1, 0 or 1
 *  C07.old_parse.list    (head, tail) stay a well-formed pair: both NULL or
 *                        both set, an existing head is kept, tail->next ==
 *                        NULL, the list is NULL-terminated and gained at most
 *                        `count` nodes
 *  C07.old_parse.reads   every read_number call reads a 12-byte field of a
 *                        slot below `count`, at most 2*count calls
 */
#include <stdlib.h>
#include <string.h>
#include <ctype.h>
#include "verif.h"
#include "tar/tar.h"
#include "tar/format.h"

#ifndef COUNT
#define COUNT 21
#endif

static const gnu_old_sparse_t *g_op_in;	/* the slot table */
static size_t g_op_calls;

#include "lib/tar/src/read_sparse_map_old.c"

/* callees of read_gnu_old_sparse: not reachable from parse */
void sqfs_perror(const char *file, const char *action, int error_code) { (void)file; (void)action; (void)error_code; }
sqfs_s32 sqfs_istream_read(sqfs_istream_t *strm, void *data, size_t size) { (void)strm; (void)data; (void)size; VERIF_ASSERT(0, "C07.old_parse.unexpected_callee"); return -1; }
void free_sparse_list(sparse_map_t *sparse) { (void)sparse; VERIF_ASSERT(0, "C07.old_parse.unexpected_callee"); }

/* contract proved in harness `number` */
int read_number(const char *str, int digits, sqfs_u64 *out)
{
	size_t off = (size_t)(str - (const char *)g_op_in);

	VERIF_ASSERT(digits == 12 && VERIF_R_OK(str, 12) && VERIF_W_OK(out, sizeof(*out)) &&
		     off < COUNT * sizeof(gnu_old_sparse_t) && off % 12 == 0,
		     "C07.old_parse.reads");
	g_op_calls += 1;
	if (verif_nd_bool("read_number.fail"))
		return -1;
	*out = verif_nd_u64("read_number.value");
	return 0;
}

void harness(void)
{
	gnu_old_sparse_t tab[COUNT];
	sparse_map_t first, *head, *tail, *it;
	bool have = verif_nd_bool("have_list");
	size_t n = 0;
	int ret;

	verif_nd_bytes(tab, sizeof(tab), "slots");
	g_op_in = tab;
	g_op_calls = 0;
	first.next = NULL;
	head = tail = have ? &first : NULL;

	ret = parse(tab, COUNT, &head, &tail);

	VERIF_ASSERT(ret == -1 || ret == 0 || ret == 1, "C07.old_parse.status");
	VERIF_ASSERT((head == NULL) == (tail == NULL), "C07.old_parse.list");
	VERIF_ASSERT(!have || head == &first, "C07.old_parse.list");
	VERIF_ASSERT(tail == NULL || tail->next == NULL, "C07.old_parse.list");
	for (it = head; it != NULL && n <= COUNT + 1; it = it->next)
		++n;
	VERIF_ASSERT(it == NULL && n <= COUNT + (have ? 1 : 0), "C07.old_parse.list");
	VERIF_ASSERT(g_op_calls <= 2 * COUNT, "C07.old_parse.reads");
	VERIF_COVER(ret == 0 && n == COUNT + (have ? 1 : 0));
	VERIF_COVER(ret == 1 && n == 2);
	VERIF_COVER(ret == -1);
}
