/* C07 (w15): decode_priority (static, bin/gensquashfs/src/sort_by_file.c) -
 * "<priority> <white space> <rest>" of a sort-file line - UNBOUNDED: every
 * NUL-terminated line in an object of n <= PRIO_MAX (4096) bytes, symbolic
 * size and contents. The white-space loop is closed by the loop contract of
 * contracts/loops/C07_w15.tbl; nothing is unwound.
 *
 * Callees are their contracts: parse_int (proved unbounded in harness
 * parse_int: with len = strlen(line) it consumes 1 <= i <= len bytes - sign
 * and digits, non-NUL - or fails), strlen (index of *a* NUL inside the
 * object), memmove (bounds-checking witness-byte stub, DESIGN 2.4).
 *
 *  requires  line points to n bytes, line[L] == 0 for a ghost L < n
 *  C07.sort_prio_unb.status_domain  0 or -1
 *  C07.sort_prio_unb.parse_pre      parse_int(line, strlen(line), &i, 0, 0, ..)
 *  C07.sort_prio_unb.moves_down     the tail is moved to the line start from
 *                                   line + i, 1 <= i <= L, up to and
 *                                   including a NUL inside the object
 *  C07.sort_prio_unb.never_grows    a NUL remains at an index <= L (on
 *                                   failure the line is untouched)
 *  C07.sort_prio_unb.rest           success: the first byte moved is neither
 *                                   NUL nor white space (the witness byte)
 *  memory safety, termination (decreases)
 */
#include <stdlib.h>
#include <string.h>
#include <ctype.h>
#include "verif.h"
#include "w15_loops.h"
#include "mkfs.h"

#ifndef PRIO_MAX
#define PRIO_MAX 4096
#endif

size_t g_prio_L;	/* ghost: index of a NUL byte on entry */
static char *g_prio_p;
static size_t g_prio_n;
static size_t g_mm_calls, g_mm_i, g_mm_k, g_mm_w;

static size_t w15_strlen(const char *s)
{
	size_t off, k;

	VERIF_ASSERT(VERIF_SAME_OBJECT(s, g_prio_p) &&
		     VERIF_POINTER_OFFSET(s) < g_prio_n, "C07.sort_prio_unb.strlen_pre");
	off = VERIF_POINTER_OFFSET(s);
	k = verif_nd_size("strlen");
	VERIF_ASSUME(off < g_prio_n && k < g_prio_n - off && g_prio_p[off + k] == 0);
	return k;
}

static void *w15_memmove(void *dst, const void *src, size_t n)
{
	size_t w;

	VERIF_ASSERT(VERIF_R_OK(src, n) && VERIF_W_OK(dst, n), "C07.sort_prio_unb.memmove_pre");
	VERIF_ASSERT(dst == (void *)g_prio_p && VERIF_SAME_OBJECT(src, g_prio_p) &&
		     VERIF_POINTER_OFFSET(src) >= 1 && VERIF_POINTER_OFFSET(src) <= g_prio_L &&
		     n >= 1 && VERIF_POINTER_OFFSET(src) + n <= g_prio_n &&
		     ((const char *)src)[n - 1] == 0, "C07.sort_prio_unb.moves_down");
	VERIF_ASSERT(((const char *)src)[0] != 0 && !isspace(((const char *)src)[0]),
		     "C07.sort_prio_unb.rest");
	w = verif_nd_size("memmove.w");
	g_mm_calls += 1;
	g_mm_i = VERIF_POINTER_OFFSET(src);
	g_mm_k = n - 1;
	g_mm_w = w;
	if (w < n)
		((char *)dst)[w] = ((const char *)src)[w];
	return dst;
}

#define strlen(s) w15_strlen(s)
#define memmove(d, s, n) w15_memmove(d, s, n)
#include "bin/gensquashfs/src/sort_by_file.c"
#undef strlen
#undef memmove

int parse_int(const char *in, size_t len, size_t *diff,
	      sqfs_s64 vmin, sqfs_s64 vmax, sqfs_s64 *out)
{
	size_t d;

	VERIF_ASSERT(in == g_prio_p && len < g_prio_n && g_prio_p[len] == 0 &&
		     diff != NULL && vmin == 0 && vmax == 0, "C07.sort_prio_unb.parse_pre");
	*diff = 0;
	if (verif_nd_bool("parse.fail"))
		return verif_nd_bool("parse.ov") ? SQFS_ERROR_OVERFLOW :
			SQFS_ERROR_CORRUPTED;
	d = verif_nd_size("parse.diff");
	/* 1 <= d bytes consumed, none of them NUL: d is at most the distance
	 * to any NUL of the string */
	VERIF_ASSUME(d >= 1 && d <= len && d <= g_prio_L);
	*diff = d;
	*out = verif_nd_i64("parse.value");
	return 0;
}

/* reached from the rest of sort_by_file.c only */
int parse_uint(const char *in, size_t len, size_t *diff, sqfs_u64 vmin, sqfs_u64 vmax, sqfs_u64 *out) { (void)in; (void)len; (void)diff; (void)vmin; (void)vmax; (void)out; VERIF_ASSERT(0, "C07.sort_prio_unb.unexpected_callee"); return -1; }
int canonicalize_name(char *filename) { (void)filename; VERIF_ASSERT(0, "C07.sort_prio_unb.unexpected_callee"); return -1; }
int split_line(char *line, size_t len, const char *sep, split_line_t **out) { (void)line; (void)len; (void)sep; (void)out; VERIF_ASSERT(0, "C07.sort_prio_unb.unexpected_callee"); return -1; }
void trim(char *buffer) { (void)buffer; VERIF_ASSERT(0, "C07.sort_prio_unb.unexpected_callee"); }
int istream_get_line(sqfs_istream_t *strm, char **out, size_t *line_num, int flags) { (void)strm; (void)out; (void)line_num; (void)flags; VERIF_ASSERT(0, "C07.sort_prio_unb.unexpected_callee"); return -1; }
char *fstree_get_path(tree_node_t *node) { (void)node; VERIF_ASSERT(0, "C07.sort_prio_unb.unexpected_callee"); return NULL; }
int fnmatch(const char *pattern, const char *string, int flags) { (void)pattern; (void)string; (void)flags; VERIF_ASSERT(0, "C07.sort_prio_unb.unexpected_callee"); return 1; }

void harness(void)
{
	size_t n = verif_nd_size("n");
	sqfs_s64 prio = 0;
	char *p;
	int ret;

	g_mm_calls = 0; g_mm_i = 0; g_mm_k = 0; g_mm_w = 0;
	VERIF_ASSUME(n >= 1 && n <= PRIO_MAX);
	p = malloc(n);
	VERIF_ASSUME(p != NULL);
	g_prio_L = verif_nd_size("L");
	VERIF_ASSUME(g_prio_L < n && p[g_prio_L] == 0);
	g_prio_p = p;
	g_prio_n = n;

	ret = decode_priority("sortfile", 3, p, &prio);

	VERIF_ASSERT(ret == 0 || ret == -1, "C07.sort_prio_unb.status_domain");
	VERIF_ASSERT((ret == 0) == (g_mm_calls == 1) && g_mm_calls <= 1,
		     "C07.sort_prio_unb.status_domain");
	if (g_mm_calls == 0) {
		VERIF_ASSERT(p[g_prio_L] == 0, "C07.sort_prio_unb.never_grows");
	} else {
		size_t j = (g_prio_L - g_mm_i <= g_mm_k) ? g_prio_L - g_mm_i : g_mm_k;
		VERIF_ASSERT(j <= g_prio_L, "C07.sort_prio_unb.never_grows");
		if (g_mm_w == j)
			VERIF_ASSERT(p[j] == 0, "C07.sort_prio_unb.never_grows");
	}
	VERIF_COVER(ret == 0 && g_mm_i > 4 && g_mm_k > 4);
	VERIF_COVER(ret == -1);
}
