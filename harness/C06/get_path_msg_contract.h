/* sqfs_tree_node_get_path as seen by callers that only print the result
 * (tree_sort's duplicate message): the part of the contract they rely on is
 *   ret != 0 => *out == NULL   (C06.get_path.fail_null, proved in get_path.c)
 *   ret == 0 => *out is a heap string
 */
#ifndef C06_GET_PATH_MSG_CONTRACT_H
#define C06_GET_PATH_MSG_CONTRACT_H
int sqfs_tree_node_get_path(const sqfs_tree_node_t *node, char **out)
{
	char *s;

	VERIF_ASSERT(node_index(node) >= 0, "C06.get_path.pre");
	*out = NULL;
	if (verif_nd_bool("gp_fail"))
		return SQFS_ERROR_CORRUPTED;
	s = malloc(2);
	if (s == NULL)
		return SQFS_ERROR_ALLOC;
	s[0] = '/';
	s[1] = '\0';
	*out = s;
	return 0;
}
#endif
