/* C06 (bounded): the real sqfs_tree_node_get_path on every chain
 * R -> n1 -> ... -> nDEPTH, DEPTH <= 3, all name bytes symbolic (root's name
 * included), every allocation may fail.
 *
 *   C06.get_path.components  success => the result is "/" followed by the
 *       names of the ancestors below the root joined by single '/', every
 *       one of them non-empty, slash-free, not "." and not "..", and the
 *       root itself is nameless ("/" alone for DEPTH 0)
 *   C06.get_path.confined    success, DEPTH > 0 => the canonical form of
 *       the result (independent spec of C18) is a confined path with
 *       exactly DEPTH components
 *   C06.get_path.canon_is_shift  ... and it is the result minus its leading
 *       slash ("" for the root) - the form in which the walks' harnesses
 *       use the canonicalize_name contract
 *   C06.get_path.fail_null   failure => *out == NULL (callers free it)
 *   C06.get_path.complete    every chain whose root is nameless and whose
 *       other names are all acceptable components is not refused for a
 *       reason other than allocation failure (so "the rest is still
 *       unpacked")
 */
#include <string.h>
#include <stdlib.h>
#ifndef DEPTH
#define DEPTH 2
#endif
#define SHAPE DEPTH
#include "C06/tree.h"
#include "canon_spec.h"
#include "confined_spec.h"
#include "lib/common/src/dir_tree.c"

#define PATHMAX ((NAMELEN + 1) * 3 + 2)

void harness(void)
{
	char want[PATHMAX], got[PATHMAX], canon[PATHMAX];
	char *out = (char *)(uintptr_t)1;
	bool all_ok = true;
	size_t o = 0, i;
	int k, ret, sret, eq = 1;

	build_tree();

	/* expected text, built root-first */
	for (k = 1; k <= DEPTH; ++k) {
		want[o++] = '/';
		const char *nm = (const char *)TN(k)->name;

		for (i = 0; nm[i] != '\0'; ++i)
			want[o++] = nm[i];
		if (!spec_component_ok((const char *)TN(k)->name))
			all_ok = false;
	}
	if (DEPTH == 0)
		want[o++] = '/';
	want[o] = '\0';

	ret = sqfs_tree_node_get_path(NODE(DEPTH), &out);

	VERIF_COVER(ret == 0);
	VERIF_COVER(ret == SQFS_ERROR_CORRUPTED || DEPTH == 0);
	VERIF_COVER(ret == SQFS_ERROR_ALLOC);
	VERIF_COVER(ret == SQFS_ERROR_ARG_INVALID);

	if (ret == 0) {
		VERIF_ASSERT(out != NULL && out != (char *)(uintptr_t)1,
			     "C06.get_path.components");
		VERIF_ASSERT(all_ok && TN(0)->name[0] == '\0',
			     "C06.get_path.components");
		/* copy out of the heap object first (symbolic-size objects
		 * are expensive to reason about), bounded by the longest
		 * legal result */
		for (i = 0; i < PATHMAX; ++i) {
			got[i] = out[i];
			if (out[i] == '\0')
				break;
		}
		VERIF_ASSERT(i < PATHMAX, "C06.get_path.components");
		for (i = 0; i < PATHMAX; ++i) {
			if (got[i] != want[i])
				eq = 0;
			if (want[i] == '\0')
				break;
		}
		VERIF_ASSERT(eq, "C06.get_path.components");

		sret = spec_canon(got, canon);
		if (DEPTH > 0) {
			VERIF_ASSERT(sret == 0 && spec_confined(canon) &&
				     spec_slashes(canon) == DEPTH - 1,
				     "C06.get_path.confined");
		} else {
			VERIF_ASSERT(sret == 0 && canon[0] == '\0',
				     "C06.get_path.confined");
		}
		eq = (sret == 0);
		for (i = 0; i + 1 < PATHMAX && eq; ++i) {
			if (canon[i] != got[i + 1])
				eq = 0;
			if (got[i + 1] == '\0')
				break;
		}
		VERIF_ASSERT(eq, "C06.get_path.canon_is_shift");
		free(out);
	} else {
		VERIF_ASSERT(out == NULL, "C06.get_path.fail_null");
		VERIF_ASSERT(ret == SQFS_ERROR_ALLOC || !all_ok ||
			     TN(0)->name[0] != '\0',
			     "C06.get_path.complete");
	}
}
