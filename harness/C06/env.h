/* C06 environment contracts (DESIGN section 3, row "mkdir/open/symlink/...").
 *
 * Every path-taking system call is replaced by its contract:
 *   requires  confined(path)      -> obligation C06.<walk>.path_pre
 *             the no-follow facts  -> obligation C06.nofollow
 *             every proper prefix of path is the path of an ancestor node
 *             that is a directory node -> obligation C06.prefix_is_dir
 *   ensures   any result; errno arbitrary
 *
 * The one exception to "confined" is spelled out, not hidden: when the walk
 * is applied to a root node that is not a directory, the code hands the
 * EMPTY string to the system call. POSIX requires the kernel to refuse an
 * empty pathname (ENOENT) for every call used here, none of which is given
 * AT_EMPTY_PATH, so nothing is created or changed. The contract therefore
 * accepts "" exactly when the tree root is not a directory node, and the
 * stub then returns failure only.
 *
 * Include after C06/tree.h and the spec headers; WALK must be defined to the
 * walk's name (create, attribs, fill) - it selects the obligation name.
 */
#ifndef C06_ENV_H
#define C06_ENV_H
#include <sys/types.h>
#include <sys/stat.h>
#include <fcntl.h>
#include <errno.h>
#include <stdio.h>
#include <stdarg.h>
#include "confined_spec.h"

#define C06_PATHMAX ((NAMELEN + 1) * 3 + 2)

/* ghost state written by the contracts */
static unsigned g_nsys;        /* path-taking system calls issued */
static unsigned g_ncreate;     /* object-creating calls that succeeded */
static unsigned g_stderr_msgs; /* diagnostics written to stderr */
static unsigned g_stdout_msgs;
static unsigned g_max_depth;   /* deepest path handed to a system call */

/* ancestor of every node of depth > d, at depth d (1-based; unique in all
 * shapes of tree.h) */
static int anc_at_depth(unsigned d)
{
#if SHAPE == 6
	/* R -> {A -> C, B}: only C is deeper than 1, below A */
	return d == 1 ? 1 : 3;
#else
	/* chains and R -> A -> {B, C}: node index == depth on the spine */
	return (int)d;
#endif
}

/* Copy the path out of the heap object (bounded by the longest path the
 * shapes can produce) and evaluate the predicates on the copy. */
static int env_path_ok(const char *p, bool *empty, bool *prefix_ok)
{
	char buf[C06_PATHMAX];
	size_t i, start = 0, d = 0, k;
	bool term = false;

	*empty = false;
	*prefix_ok = true;
	for (i = 0; i < C06_PATHMAX; ++i) {
		buf[i] = p[i];
		if (p[i] == '\0') {
			term = true;
			break;
		}
	}
	if (!term)
		return 0;
	if (buf[0] == '\0') {
		*empty = true;
		return 0;
	}
	if (!spec_confined(buf))
		return 0;

	/* every proper prefix = path of the ancestor at that depth, which
	 * must be a directory node */
	for (i = 0; buf[i] != '\0'; ++i) {
		if (buf[i] != '/')
			continue;
		++d;
		if (d + 1 > SHAPE_DEPTH) {
			*prefix_ok = false;
			break;
		}
		{
			/* typed access only: a pointer into g_nodes[] with a
			 * symbolic element index and a symbolic offset reads
			 * garbage in cbmc 6.11 (flexible array member inside
			 * the wrapper) */
			int a = anc_at_depth((unsigned)d);

			if (!S_ISDIR(g_inodes[a].i.base.mode))
				*prefix_ok = false;
			for (k = 0; k < i - start; ++k) {
				if (*(const sqfs_u8 *)&buf[start + k] !=
				    g_nodes[a].name[k])
					*prefix_ok = false;
			}
			if (g_nodes[a].name[i - start] != '\0')
				*prefix_ok = false;
		}
		start = i + 1;
	}
	if (d + 1 > g_max_depth)
		g_max_depth = (unsigned)(d + 1);
	return 1;
}

#define ENV_CHECK_PATH(p, pre_name, empty_var)                                 \
	do {                                                                   \
		bool pfx_;                                                     \
		int ok_ = env_path_ok((p), &(empty_var), &pfx_);               \
		++g_nsys;                                                      \
		VERIF_ASSERT(ok_ || ((empty_var) &&                            \
				     !S_ISDIR(g_inodes[0].i.base.mode)),       \
			     pre_name);                                        \
		VERIF_ASSERT(!ok_ || pfx_, "C06.prefix_is_dir");               \
	} while (0)

static int env_result(bool must_fail)
{
	int r = verif_nd_bool("sysret") ? 0 : -1;

	if (must_fail)
		r = -1;
	if (r != 0)
		errno = verif_nd_int("errno");
	return r;
}

/* ---- diagnostics -------------------------------------------------------- */
int fprintf(FILE *fp, const char *fmt, ...)
{
	(void)fmt;
	if (fp == stderr)
		++g_stderr_msgs;
	else
		++g_stdout_msgs;
	return 0;
}

int printf(const char *fmt, ...)
{
	(void)fmt;
	++g_stdout_msgs;
	return 0;
}

int fputs(const char *s, FILE *fp)
{
	(void)s;
	if (fp == stderr)
		++g_stderr_msgs;
	else
		++g_stdout_msgs;
	return 0;
}

void perror(const char *s)
{
	(void)s;
	++g_stderr_msgs;
}

char *strerror(int e)
{
	static char msg[2] = "E";
	(void)e;
	return msg;
}

void sqfs_perror(const char *file, const char *action, int error_code)
{
	(void)file; (void)action; (void)error_code;
	++g_stderr_msgs;
}

void sqfs_free(void *ptr)
{
	free(ptr);
}
#endif
