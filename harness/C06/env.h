/* C06 environment contracts (DESIGN section 3, row "mkdir/open/symlink/...").
 *
 * Every path-taking system call is replaced by its contract:
 *   requires  confined(path)                 obligation C06.<walk>.path_pre
 *             every proper prefix of path is the path of an ancestor node
 *             that is a directory node        obligation C06.prefix_is_dir
 *             the no-follow facts             obligation C06.nofollow
 *   ensures   any result; errno arbitrary
 *
 * To keep the formula small the contract is evaluated in two steps: at the
 * call the stub copies the path bytes into a ghost log slot that belongs to
 * the tree node the path was generated for (the node is known because the
 * sqfs_tree_node_get_path contract records which string it returned for
 * which node; a path-taking call on any other pointer is itself a
 * violation), and the harness evaluates the
 * predicates on every used slot when the walk returns (ENV_CHECK_LOG). Each
 * call is checked; only the place of the assert differs.
 *
 * The one exception to "confined" is spelled out, not hidden: when the walk
 * is applied to a root node that is not a directory, the code hands the
 * EMPTY string to the system call. POSIX requires the kernel to refuse an
 * empty pathname (ENOENT) for every call used here, none of which is given
 * AT_EMPTY_PATH, so nothing is created or changed. The contract therefore
 * accepts "" exactly for the tree root, when it is not a directory node, and
 * the stub then reports failure only.
 */
#ifndef C06_ENV_H
#define C06_ENV_H
#include <sys/types.h>
#include <sys/stat.h>
#include <fcntl.h>
#include <errno.h>
#include <stdio.h>
#include <stdarg.h>
#include <unistd.h>
#include "rdsquashfs.h"
#include "confined_spec.h"

#ifdef VERIF_REPLAY
/* native replay: the contracts must not replace libc for the replay runtime
 * itself, so they get private names; the real code below sees the macros */
#define fprintf c06_fprintf
#define printf c06_printf
#define fputs c06_fputs
#define perror c06_perror
#define strerror c06_strerror
#define mkdir c06_mkdir
#define symlink c06_symlink
#define mknod c06_mknod
#define open c06_open
#define close c06_close
#define lsetxattr c06_lsetxattr
#define utimensat c06_utimensat
#define fchownat c06_fchownat
#define fchmodat c06_fchmodat
#define chdir c06_chdir
#define qsort c06_qsort
#endif

/* longest string get_path can produce for the shape, plus NUL, plus one */
#define C06_PATHMAX ((NAMELEN + 1) * (SHAPE_DEPTH > 0 ? SHAPE_DEPTH : 1) + 2)

/* ghost state written by the contracts */
static unsigned g_nsys;        /* path-taking system calls issued */
static unsigned g_stderr_msgs; /* diagnostics written to stderr */
static unsigned g_stdout_msgs;
static char *g_ptr[NNODES];    /* live string get_path returned for node k */
static int g_state[NNODES];    /* 1 = as returned, 2 = canonicalised */
static bool g_used[NNODES];    /* a system call was issued for node k */
static unsigned g_calls[NNODES];
static char g_log[NNODES][C06_PATHMAX];
static bool g_log_bad;         /* unterminated / foreign / changed path */

static int env_node_of(const char *p)
{
	int k, found = -1;

	if (p == NULL)
		return -1;
	for (k = 0; k < NNODES; ++k) {
		if (g_ptr[k] == p)
			found = k;
	}
	return found;
}

/* called by every path-taking stub; returns true if the path is "" */
static bool env_log_path(const char *p)
{
	size_t i;
	bool term = false, same = true;
	int k = env_node_of(p);

	++g_nsys;
	if (k < 0) {
		g_log_bad = true;
		return false;
	}
#ifdef C06_CANON_CONTRACT
	if (g_state[k] != 2)
		g_log_bad = true;
#endif
	for (i = 0; i < C06_PATHMAX; ++i) {
		if (g_used[k] && g_log[k][i] != p[i])
			same = false;
		g_log[k][i] = p[i];
		if (p[i] == '\0') {
			term = true;
			break;
		}
	}
	if (!term || !same)
		g_log_bad = true;
	g_used[k] = true;
	g_calls[k] += 1;
	return p[0] == '\0';
}

/* the path the property allows for node k: names of the chain below the
 * root, joined by '/', all acceptable, all proper ancestors directories */
static bool env_node_path_ok(int k)
{
	char want[C06_PATHMAX];
	int chain[SHAPE_DEPTH + 1];
	int n = 0, j, a;
	size_t o = 0, i;
	bool ok = true;

	if (k == 0) {
		/* the root itself: only the refused empty path */
		return g_log[0][0] == '\0' &&
			!S_ISDIR(TI(0)->i.base.mode);
	}
	for (a = k; a > 0; a = g_parent[a])
		chain[n++] = a;
	for (j = n - 1; j >= 0; --j) {
		a = chain[j];
		if (!spec_component_ok((const char *)TN(a)->name))
			ok = false;
		if (j > 0 && !S_ISDIR(TI(a)->i.base.mode))
			ok = false;
		if (j < n - 1)
			want[o++] = '/';
		for (i = 0; TN(a)->name[i] != '\0'; ++i)
			*(sqfs_u8 *)&want[o++] = TN(a)->name[i];
	}
	want[o] = '\0';
	for (i = 0; i < C06_PATHMAX; ++i) {
		if (g_log[k][i] != want[i])
			ok = false;
		if (want[i] == '\0')
			break;
	}
	return ok;
}

/* spec_confined on slot k; the row is copied to a local first (cbmc 6.11
 * mis-reads through a pointer to a row of a static two-dimensional array
 * when the offset is symbolic) */
static bool env_slot_confined(int k)
{
	char tmp[C06_PATHMAX];
	size_t i;

	for (i = 0; i < C06_PATHMAX; ++i)
		tmp[i] = g_log[k][i];
	tmp[C06_PATHMAX - 1] = '\0';
	return spec_confined(tmp);
}

/* evaluate the contract for everything that was logged */
#define ENV_CHECK_LOG(pre_name)                                                \
	do {                                                                   \
		int k_;                                                        \
		VERIF_ASSERT(!g_log_bad, pre_name);                            \
		for (k_ = 0; k_ < NNODES; ++k_) {                              \
			if (!g_used[k_] || g_log_bad)                          \
				continue;                                      \
			VERIF_ASSERT(env_slot_confined(k_) ||               \
				     (k_ == 0 && g_log[0][0] == '\0' &&        \
				      !S_ISDIR(TI(0)->i.base.mode)),      \
				     pre_name);                                \
			VERIF_ASSERT(env_node_path_ok(k_),                     \
				     "C06.prefix_is_dir");                     \
		}                                                              \
	} while (0)

static int env_result(bool must_fail)
{
	int r = verif_nd_bool("sysret") ? 0 : -1;

	if (must_fail)
		r = -1;
	if (r != 0)
		errno = verif_nd_int("errno");
	return r;
}

/* ---- diagnostics -------------------------------------------------------- */
int fprintf(FILE *fp, const char *fmt, ...)
{
	(void)fmt;
	if (fp == stderr)
		++g_stderr_msgs;
	else
		++g_stdout_msgs;
	return 0;
}

int printf(const char *fmt, ...)
{
	(void)fmt;
	++g_stdout_msgs;
	return 0;
}

int fputs(const char *s, FILE *fp)
{
	(void)s;
	if (fp == stderr)
		++g_stderr_msgs;
	else
		++g_stdout_msgs;
	return 0;
}

void perror(const char *s)
{
	(void)s;
	++g_stderr_msgs;
}

char *strerror(int e)
{
	static char msg[2] = "E";
	(void)e;
	return msg;
}

void sqfs_perror(const char *file, const char *action, int error_code)
{
	(void)file; (void)action; (void)error_code;
	++g_stderr_msgs;
}

void sqfs_free(void *ptr)
{
	int k;

	for (k = 0; k < NNODES; ++k) {
		if (ptr != NULL && g_ptr[k] == (char *)ptr) {
			g_ptr[k] = NULL;
			g_state[k] = 0;
		}
	}
	free(ptr);
}
#endif
