/* C06 (bounded shapes): the real restore_fstree / create_node_dfs /
 * create_node over every tree of the concrete shape SHAPE (tree.h), with the
 * real is_filename_sane, sqfs_tree_node_get_path and canonicalize_name in
 * the path (no contract is assumed for them here), all name bytes, modes and
 * unpack flags symbolic, every allocation and every system call may fail.
 *
 *   C06.create.path_pre     every path handed to mkdir / symlink (link
 *                           name) / mknod / open is confined (env.h)
 *   C06.prefix_is_dir       ... and each proper prefix of it is the path of
 *                           the ancestor node, which is a directory node
 *   C06.nofollow            regular files are created O_CREAT|O_EXCL (never
 *                           through an existing symlink); the symlink target
 *                           is only ever the *content* argument
 *   C06.skip_reports        a visited entry whose name is ".", "..", or has
 *                           a '/' is reported on stderr, and (with path_pre
 *                           and prefix_is_dir) nothing below it is touched;
 *                           an empty name makes the tool fail
 *   C06.create.complete     success => every reachable acceptable entry of
 *                           a known kind got exactly one creating call
 *   C06.create.canon_ok     the assert(ret == 0) after canonicalize_name
 */
#include <string.h>
#include <stdlib.h>
#include "C06/tree.h"
#include "C06/env.h"

size_t g_canon_L;
size_t g_sane_L, g_sane_w;
const char *g_sane_base;

/* ---- system call contracts --------------------------------------------- */
int mkdir(const char *path, mode_t mode)
{
	(void)mode;
	/* mkdir on an existing directory: the code accepts EEXIST */
	return env_result(env_log_path(path));
}

int symlink(const char *target, const char *linkpath)
{
	(void)target; /* content only: never resolved by symlink(2) */
	return env_result(env_log_path(linkpath));
}

int mknod(const char *path, mode_t mode, dev_t dev)
{
	(void)mode; (void)dev;
	return env_result(env_log_path(path));
}

int open(const char *path, int flags, ...)
{
	bool empty = env_log_path(path);

	VERIF_ASSERT((flags & (O_CREAT | O_EXCL)) == (O_CREAT | O_EXCL),
		     "C06.nofollow");
	return env_result(empty) == 0 ? 3 : -1;
}

int close(int fd)
{
	(void)fd;
	return 0;
}

#include "C06/get_path_contract.h"
#include "lib/util/src/filename_sane.c"
#ifndef C06_CANON_CONTRACT
#include "lib/util/src/canonicalize_name.c"
#endif
#undef assert
#define assert(c) VERIF_ASSERT((c), "C06.create.canon_ok")
#include "bin/rdsquashfs/src/restore_fstree.c"

static bool is_known_kind(sqfs_u16 mode)
{
	switch (mode & S_IFMT) {
	case S_IFDIR: case S_IFLNK: case S_IFSOCK: case S_IFIFO:
	case S_IFBLK: case S_IFCHR: case S_IFREG:
		return true;
	default:
		return false;
	}
}

void harness(void)
{
	int flags = verif_nd_int("flags");
	bool visited[NNODES], good[NNODES];
	unsigned nbad = 0, ngood_known = 0, nempty = 0;
	int k, ret;

	build_tree();
	/* the tool never passes SQFS_TREE_STORE_PARENTS: the root of the tree
	 * handed to the walks is parentless (restore_fstree clears it anyway) */

	ret = restore_fstree(NODE(0), flags);

	ENV_CHECK_LOG("C06.create.path_pre");

	/* which entries does the walk have to look at? */
	visited[0] = !S_ISDIR(TI(0)->i.base.mode);
	good[0] = true;
	for (k = 1; k < NNODES; ++k) {
		int p = g_parent[k];
		const char *nm = (const char *)TN(k)->name;

		good[k] = spec_component_ok(nm);
		if (p == 0) {
			visited[k] = S_ISDIR(TI(0)->i.base.mode);
		} else {
			visited[k] = visited[p] && good[p] &&
				S_ISDIR(TI(p)->i.base.mode);
		}
		if (visited[k] && !good[k]) {
			if (nm[0] == '\0')
				++nempty;
			else
				++nbad;
		}
		if (visited[k] && good[k] &&
		    is_known_kind(TI(k)->i.base.mode))
			++ngood_known;
	}

	VERIF_ASSERT(ret == 0 || ret == -1, "C06.create.status_domain");
	if (ret == 0) {
		VERIF_ASSERT(nempty == 0, "C06.skip_reports");
		VERIF_ASSERT(g_stderr_msgs >= nbad, "C06.skip_reports");
		if (TN(0)->name[0] == '\0' &&
		    S_ISDIR(TI(0)->i.base.mode)) {
			VERIF_ASSERT(g_nsys == ngood_known,
				     "C06.create.complete");
		}
	} else {
		VERIF_ASSERT(g_stderr_msgs > 0, "C06.skip_reports");
	}
	VERIF_ASSERT(g_nsys <= NNODES, "C06.create.once_per_node");

#if NNODES > 1
	VERIF_COVER(ret == 0 && g_nsys == NNODES - 1);
	VERIF_COVER(ret == 0 && nbad > 0);
#endif
	VERIF_COVER(ret == -1);
	VERIF_COVER(g_used[NNODES - 1]);
}
