PROPERTY = "C06"
LEVEL = "model_checking"
FUNCTIONS = ["sqfs_tree_node_get_path", "restore_fstree", "create_node_dfs",
             "create_node", "update_tree_attribs", "set_attribs", "set_xattr",
             "fill_unpacked_files", "gen_file_list_dfs", "add_file",
             "fill_files", "tree_sort", "list_sort", "list_merge", "mkdir_p",
             "main (rdsquashfs.c, OP_UNPACK branch)",
             "is_filename_sane (real, inside the three walks)",
             "canonicalize_name (real in the thorough-tier walk variants)"]
TRUSTED = [
    "mkdir/symlink/mknod/open/lsetxattr/utimensat/fchownat/fchmodat/chdir: any result, errno arbitrary; "
    "REQUIRE the C06 path predicate (that is the obligation C06.<walk>.path_pre)",
    "POSIX: an empty pathname is refused (ENOENT) by every one of these calls (none is given AT_EMPTY_PATH) - "
    "the only non-confined string the walks can emit, and only for a tree root that is not a directory",
    "sqfs_ostream_open_file opens exactly the path it is given (lib/sqfs/src/io/ostream.c, unix.c: open(filename, O_CREAT|O_RDWR|O_TRUNC))",
    "sqfs_tree_node_get_path contract (get_path_contract.h) when the walks are verified - established by harness get_path for the same bounds",
    "canonicalize_name contract restricted to get_path results (drop the leading slash) in the quick-tier walks - "
    "C18.canon.output_eq_spec + C06.get_path.canon_is_shift; the thorough tier repeats the walks with the real function",
    "xattr reader / data reader / stream objects: any result at any step (bounded: <= 2 xattr pairs, <= 2 data chunks)",
    "qsort: some permutation of the file list",
    "CBMC library models of strcmp/strlen/strchr/memcpy/strdup/malloc/realloc/alloca",
]
ASSUMPTIONS = [
    "bounded: tree shapes of tree.h (<= 5 nodes, depth <= 3, child lists <= 4), names <= 2 bytes (3 in the thorough tier) over the full byte alphabet; not a proof for all trees",
    "the tree handed to the walks is well formed (parent links inverse to child lists, root parentless) - that is what lib/common/src/read_tree.c builds (fill_dir sets n->parent = root, nodes come from calloc); read_tree.c itself is covered by C05, not here",
    "objects that already exist below R before the run (mkdir accepts EEXIST, so a pre-existing symlink named like an image directory would be followed), races with other processes, and the kernel's path resolution are outside the claim",
    "mkdir_p creates the missing ancestors of R as well as R (prefixes of the option string); that is the documented meaning of --unpack-root",
    "without --unpack-root the unpack root is the current directory; no chdir is issued",
    "on this snapshot unpacking a sub-path (-u /a/b) always fails in sqfs_tree_node_get_path because the sub-tree root keeps its name ('root node must not have a name'): nothing is written, which satisfies C06, but it is a functional defect",
    "Windows branches are preprocessed away",
]
EXPLANATION = ("confined(p) is the precondition of every path-taking system-call stub; the three real tree walks are "
               "symbolically executed on bounded concrete tree shapes with fully symbolic names, modes and option flags; "
               "tree_sort/list_sort give strictly increasing sibling names (no duplicates); main()'s unpack branch is "
               "loop-free and checked for chdir-before-walk and sort-before-walk with every callee failing at will")

_DEPTH = {0: 0, 1: 1, 2: 2, 3: 3, 4: 1, 5: 2, 6: 2}


def _pathmax(shape, namelen):
    d = _DEPTH[shape]
    return (namelen + 1) * (d if d > 0 else 1) + 2


_NNODES = {0: 1, 1: 2, 2: 3, 3: 4, 4: 3, 5: 4, 6: 4}


def _shapes(shapes, namelen, tier, label=None, extra=None, loops=()):
    out = []
    for s in shapes:
        c = dict(id="shape%d_n%d" % (s, namelen),
                 defines={"SHAPE": s, "NAMELEN": namelen}, tier=tier,
                 unwind=_pathmax(s, namelen) + 1)
        # loops whose trip count is the number of nodes / files, not a
        # string length: tighter bound (still checked by the unwinding
        # assertion)
        if loops:
            c["unwindset"] = ["%s:%d" % (l, _NNODES[s] + 1) for l in loops]
        if label:
            c["label"] = label
        if extra:
            c["defines"].update(extra)
        out.append(c)
    return out


_KIDS = {1: 1, 2: 1, 3: 1, 4: 2, 5: 2, 6: 2, 7: 3, 8: 4}
_DEPTH.update({7: 1, 8: 1})
_NNODES.update({7: 4, 8: 5})


def _sortcase(shape, tier, namelen=2):
    """tree_sort / list_sort are recursive and, after the first merge, walk
    lists whose order is symbolic; every loop and recursion gets the bound
    the shape needs (the unwinding assertions check that it suffices)."""
    k = _KIDS[shape]
    rec = {1: 1, 2: 2, 3: 3, 4: 3}[k]
    return dict(id="shape%d_n%d" % (shape, namelen),
                defines={"SHAPE": shape, "NAMELEN": namelen}, tier=tier,
                unwind=max(_NNODES[shape] + 1, 5),
                unwindset=["strcmp.0:%d" % (namelen + 2),
                           "name_cmp.0:%d" % (namelen + 2),
                           "tree_sort:%d" % (_DEPTH[shape] + 1),
                           "list_sort:%d" % rec,
                           "list_sort.0:%d" % (k // 2 + 2),
                           "list_merge.0:%d" % max(k, 2),
                           "tree_sort.0:%d" % max(k, 2),
                           "tree_sort.1:%d" % (k + 1)])


HARNESSES = [
    dict(name="get_path", file="get_path.c", malloc_fail=True,
         label="bounded(depth<=3,name<=2)", timeout=900,
         cases=[dict(id="d%d_n2" % d, defines={"DEPTH": d, "NAMELEN": 2},
                     tier="quick", unwind=3 * d + 4) for d in range(0, 4)] +
               [dict(id="d%d_n3" % d, defines={"DEPTH": d, "NAMELEN": 3},
                     tier="thorough", unwind=4 * d + 4,
                     label="bounded(depth<=3,name<=3)") for d in range(1, 4)]),
    dict(name="create", file="create.c", malloc_fail=True,
         include_dirs=["bin/rdsquashfs/src"],
         defines={"C06_CANON_CONTRACT": None},
         label="bounded(shapes<=7,depth<=3,name<=2)", timeout=1800,
         cases=_shapes(range(0, 7), 2, "quick") +
               _shapes((1, 2, 4), 3, "thorough",
                       label="bounded(shapes<=3,depth<=2,name<=3)")),
    # the same walk with the REAL canonicalize_name instead of its contract
    dict(name="create_realcanon", file="create.c", malloc_fail=True,
         include_dirs=["bin/rdsquashfs/src"],
         label="bounded(shapes<=4,depth<=2,name<=2)", timeout=2400,
         cases=_shapes((0, 1), 2, "quick") + _shapes((2, 4), 2, "thorough")),
    dict(name="attribs", file="attribs.c", malloc_fail=True,
         include_dirs=["bin/rdsquashfs/src"],
         defines={"C06_CANON_CONTRACT": None},
         label="bounded(shapes<=7,depth<=3,name<=2,xattrs<=2)", timeout=1800,
         cases=_shapes((0, 1, 2, 4), 2, "quick", loops=["set_xattr.0"]) +
               _shapes((3, 5, 6), 2, "thorough", loops=["set_xattr.0"])),
    dict(name="attribs_realcanon", file="attribs.c", malloc_fail=True,
         include_dirs=["bin/rdsquashfs/src"],
         label="bounded(shapes<=3,depth<=2,name<=2,xattrs<=2)", timeout=2400,
         cases=_shapes((0, 1, 2), 2, "thorough", loops=["set_xattr.0"])),
    dict(name="fill", file="fill.c", malloc_fail=True,
         include_dirs=["bin/rdsquashfs/src"],
         defines={"C06_CANON_CONTRACT": None},
         fp={"flush": "stub_flush", "destroy": "stub_destroy"},
         label="bounded(shapes<=7,depth<=3,name<=2,chunks<=2)", timeout=1800,
         cases=_shapes((0, 1, 2, 4), 2, "quick",
                       loops=["fill_files.0", "fill_files.1",
                              "clear_file_list.0"]) +
               _shapes((3, 5, 6), 2, "thorough",
                       loops=["fill_files.0", "fill_files.1",
                              "clear_file_list.0"])),
    dict(name="fill_realcanon", file="fill.c", malloc_fail=True,
         include_dirs=["bin/rdsquashfs/src"],
         fp={"flush": "stub_flush", "destroy": "stub_destroy"},
         label="bounded(shapes<=3,depth<=2,name<=2,chunks<=2)", timeout=2400,
         cases=_shapes((0, 1, 2), 2, "thorough",
                       loops=["fill_files.0", "fill_files.1",
                              "clear_file_list.0"])),
    dict(name="lsort", file="lsort.c", include_dirs=["bin/rdsquashfs/src"],
         label="bounded(list<=4,name<=2)", timeout=1800,
         cases=[_sortcase(s, "quick") for s in (1, 4, 7, 8)]),
    dict(name="tsort", file="tsort.c", include_dirs=["bin/rdsquashfs/src"],
         label="bounded(list<=4,depth<=2,name<=2)", timeout=1800,
         cases=[_sortcase(s, "quick" if s != 8 else "thorough")
                for s in (1, 4, 5, 6, 7, 8)]),
    dict(name="mkdir_p", file="mkdir_p.c", label="bounded(len<=9)",
         timeout=900,
         cases=[dict(id="len%d" % n, defines={"LEN": n}, unwind=n + 3,
                     tier="quick" if n <= 9 else "thorough",
                     label="bounded(len<=%d)" % (9 if n <= 9 else 12))
                for n in (4, 6, 9, 12)]),
    dict(name="unpack_main", file="unpack_main.c",
         include_dirs=["bin/rdsquashfs/src"],
         fp={"destroy": "stub_obj_destroy"},
         label="bounded(tree=R->{A,B} concrete; options and all callee outcomes symbolic)",
         timeout=600, unwind=6,
         unwindset=_sortcase(4, "quick")["unwindset"],
         cases=[dict(id="distinct", defines={}, tier="quick"),
                dict(id="dup", defines={"DUP": None}, tier="quick")]),
]
