PROPERTY = "C06"
LEVEL = "model_checking"
FUNCTIONS = ["sqfs_tree_node_get_path", "restore_fstree", "create_node_dfs", "create_node"]
TRUSTED = []
ASSUMPTIONS = []
EXPLANATION = ""

_DEPTH = {0: 0, 1: 1, 2: 2, 3: 3, 4: 1, 5: 2, 6: 2}


def _pathmax(shape, namelen):
    d = _DEPTH[shape]
    return (namelen + 1) * (d if d > 0 else 1) + 2


_NNODES = {0: 1, 1: 2, 2: 3, 3: 4, 4: 3, 5: 4, 6: 4}


def _shapes(shapes, namelen, tier, label=None, extra=None, loops=()):
    out = []
    for s in shapes:
        c = dict(id="shape%d_n%d" % (s, namelen),
                 defines={"SHAPE": s, "NAMELEN": namelen}, tier=tier,
                 unwind=_pathmax(s, namelen) + 1)
        # loops whose trip count is the number of nodes / files, not a
        # string length: tighter bound (still checked by the unwinding
        # assertion)
        if loops:
            c["unwindset"] = ["%s:%d" % (l, _NNODES[s] + 1) for l in loops]
        if label:
            c["label"] = label
        if extra:
            c["defines"].update(extra)
        out.append(c)
    return out


HARNESSES = [
    dict(name="get_path", file="get_path.c", malloc_fail=True,
         label="bounded(depth<=3,name<=2)", timeout=900,
         cases=[dict(id="d%d_n2" % d, defines={"DEPTH": d, "NAMELEN": 2},
                     tier="quick", unwind=3 * d + 4) for d in range(0, 4)] +
               [dict(id="d%d_n3" % d, defines={"DEPTH": d, "NAMELEN": 3},
                     tier="thorough", unwind=4 * d + 4,
                     label="bounded(depth<=3,name<=3)") for d in range(1, 4)]),
    dict(name="create", file="create.c", malloc_fail=True,
         include_dirs=["bin/rdsquashfs/src"],
         defines={"C06_CANON_CONTRACT": None},
         label="bounded(shapes<=7,depth<=3,name<=2)", timeout=1200,
         cases=_shapes(range(0, 7), 2, "quick")),
    dict(name="attribs", file="attribs.c", malloc_fail=True,
         include_dirs=["bin/rdsquashfs/src"],
         defines={"C06_CANON_CONTRACT": None},
         label="bounded(shapes<=7,depth<=3,name<=2,xattrs<=2)", timeout=1800,
         cases=_shapes(range(0, 7), 2, "quick", loops=["set_xattr.0"])),
    dict(name="fill", file="fill.c", malloc_fail=True,
         include_dirs=["bin/rdsquashfs/src"],
         defines={"C06_CANON_CONTRACT": None},
         fp={"flush": "stub_flush", "destroy": "stub_destroy"},
         label="bounded(shapes<=7,depth<=3,name<=2,chunks<=2)", timeout=1800,
         cases=_shapes(range(0, 7), 2, "quick",
                       loops=["fill_files.0", "fill_files.1",
                              "clear_file_list.0"])),
    dict(name="unpack_main", file="unpack_main.c",
         include_dirs=["bin/rdsquashfs/src"],
         fp={"destroy": "stub_obj_destroy"},
         label="proved", timeout=600, unwind=6,
         cases=[dict(id="distinct", defines={}, tier="quick"),
                dict(id="dup", defines={"DUP": None}, tier="quick")]),
]
