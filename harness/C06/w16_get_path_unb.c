/* C06 (w16): the real sqfs_tree_node_get_path (lib/common/src/dir_tree.c) on
 * a chain R -> n1 -> ... -> nDEPTH of concrete depth DEPTH (1, 2, 3) whose
 * names have ANY length: name objects of W16_MAX bytes, length L_k = index of
 * the first NUL symbolic in [0, W16_MAX), contents symbolic. The two loops of
 * the function walk the chain (DEPTH iterations, unwound completely, unwinding
 * assertion); everything that depends on the LENGTH of a name goes through
 * libc, which is bound to its contract here (TRUSTED, stated on the stubs):
 *   strlen(s)      = L_k, the index of the first NUL of the name s
 *   strchr(s,'/')  = NULL iff no byte of s[0..L_k) is '/', else a pointer to one
 *   memcpy(d,s,n)  requires r_ok(s,n), w_ok(d,n)  [obligation copy_in_bounds];
 *                  gives d[j] = s[j] for ONE arbitrary witness index j < n and
 *                  leaves the other bytes of d arbitrary (DESIGN 2.4)
 *   malloc         may fail; the requested size is recorded
 * "L_k is the length" / "no '/' in the name" are constant-range quantified
 * preconditions that cbmc expands.
 *
 * HUGE == 0  (names as above)
 *  C06.get_path_unb.length      success => the result object has exactly
 *        sum(L_k) + DEPTH + 1 bytes and its last byte is the NUL: the path
 *        length is sum(L_k) + DEPTH
 *  C06.get_path_unb.separators  success => result[o_k] == '/' with o_1 = 0,
 *        o_{k+1} = o_k + 1 + L_k  (root-first order)
 *  C06.get_path_unb.components  success => result[o_k + 1 + j] == name_k[j]
 *        for the arbitrary witness j < L_k, every k (and is not NUL)
 *  C06.get_path_unb.refuses     success => every L_k > 0, no name holds a
 *        '/' (witness position), none is "." or "..", the root is nameless
 *  C06.get_path_unb.fail_null   failure => *out == NULL
 *  C06.get_path_unb.alloc_fail  malloc failed => SQFS_ERROR_ALLOC
 *  C06.get_path_unb.complete    failure => malloc failed, or some name is
 *        empty / has a '/' / is "." / "..", or the root has a name
 *  C06.get_path_unb.no_overflow names below the cap never give
 *        SQFS_ERROR_OVERFLOW
 *  C06.get_path_unb.copy_in_bounds  every memcpy stays inside both objects
 * HUGE == 1  (the lengths strlen reports are ARBITRARY size_t values - the
 *             size arithmetic is checked against 128-bit arithmetic)
 *  C06.get_path_unb.size_exact  whenever malloc is called its argument is
 *        the true sum(L_k) + DEPTH + 1 (no wrap-around reaches the allocator)
 *  C06.get_path_unb.overflow_refused  if that sum does not fit size_t the
 *        call fails (and never reaches malloc)
 */
#include <string.h>
#include <stdlib.h>
#include "verif.h"
#include "common.h"

#ifndef DEPTH
#define DEPTH 2
#endif
#ifndef W16_MAX
#define W16_MAX 256
#endif
#ifndef HUGE
#define HUGE 0
#endif

struct w16_node {
	sqfs_tree_node_t n;
	sqfs_u8 name[W16_MAX];
};
static struct w16_node g_n0, g_n1, g_n2, g_n3;
static struct w16_node *const g_np[4] = { &g_n0, &g_n1, &g_n2, &g_n3 };
#define NAME(k) ((char *)g_np[k]->n.name)

static size_t g_len[4];    /* L_k */
static bool g_has_sl[4];   /* name k holds a '/' ... */
static size_t g_sl[4];     /* ... at this index */
static size_t g_cw;        /* memcpy witness index */
static size_t g_msize;
static bool g_mcalled, g_mfail;

static int name_index(const void *s)
{
	int k;

	for (k = 1; k <= DEPTH; ++k) {
		if (s == (const void *)NAME(k))
			return k;
	}
	return -1;
}

static size_t w16_strlen(const char *s)
{
	int k = name_index(s);

	VERIF_ASSERT(k > 0, "C06.env.strlen_pre");
	return g_len[k];
}

static char *w16_strchr(const char *s, int c)
{
	int k = name_index(s);

	VERIF_ASSERT(k > 0 && c == '/', "C06.env.strchr_pre");
#if HUGE
	return g_has_sl[k] ? (char *)s : NULL;
#else
	return g_has_sl[k] ? (char *)s + g_sl[k] : NULL;
#endif
}

static void *w16_memcpy(void *dst, const void *src, size_t n)
{
	int k = name_index(src);

	VERIF_ASSERT(k > 0 && n == g_len[k], "C06.env.memcpy_pre");
	VERIF_ASSERT(VERIF_W_OK(dst, n), "C06.get_path_unb.copy_in_bounds");
#if !HUGE
	VERIF_ASSERT(VERIF_R_OK(src, n), "C06.get_path_unb.copy_in_bounds");
	if (g_cw < n)
		((char *)dst)[g_cw] = ((const char *)src)[g_cw];
#endif
	return dst;
}

static void *w16_malloc(size_t n)
{
	void *p;

	VERIF_ASSERT(!g_mcalled, "C06.env.malloc_once");
	g_mcalled = true;
	g_msize = n;
	/* any allocation may fail; sizes no name set below the cap can reach
	 * are treated as failing */
	if (verif_nd_bool("malloc_fail") || n > 3 * (size_t)W16_MAX + 8) {
		g_mfail = true;
		return NULL;
	}
	p = malloc(n);
	if (p == NULL)
		g_mfail = true;
	return p;
}

#define strlen(s) w16_strlen(s)
#define strchr(s, c) w16_strchr(s, c)
#define memcpy(d, s, n) w16_memcpy(d, s, n)
#define malloc(n) w16_malloc(n)
#include "lib/common/src/dir_tree.c"
#undef strlen
#undef strchr
#undef memcpy
#undef malloc

void harness(void)
{
	char *out = (char *)(uintptr_t)1;
	bool names_ok = true, root_ok;
	size_t off[5], total = 0;
	int k, ret;

#ifndef VERIF_REPLAY
	/* statics are zero-initialised: make every name byte symbolic */
	__CPROVER_havoc_object(&g_n0);
	__CPROVER_havoc_object(&g_n1);
	__CPROVER_havoc_object(&g_n2);
	__CPROVER_havoc_object(&g_n3);
#endif
	g_mcalled = g_mfail = false;
	g_msize = 0;
	g_cw = verif_nd_size("cw");

	for (k = 0; k <= DEPTH; ++k) {
		sqfs_tree_node_t *n = &g_np[k]->n;

		n->parent = k > 0 ? &g_np[k - 1]->n : NULL;
		n->children = NULL;
		n->next = NULL;
		n->inode = NULL;
		n->uid = verif_nd_u32("uid");
		n->gid = verif_nd_u32("gid");
		g_len[k] = verif_nd_size("len");
		g_has_sl[k] = verif_nd_bool("has_slash");
		g_sl[k] = verif_nd_size("slash_at");
	}
	root_ok = NAME(0)[0] == '\0';

#if !HUGE
#define W16_NAME_PRE(K, OBJ) do { \
	VERIF_ASSUME(g_len[K] < W16_MAX && OBJ.name[g_len[K]] == '\0'); \
	VERIF_ASSUME(__CPROVER_forall { size_t i; (i < W16_MAX) ==> (i < g_len[K] ==> OBJ.name[i] != '\0') }); \
	if (g_has_sl[K]) \
		VERIF_ASSUME(g_sl[K] < g_len[K] && OBJ.name[g_sl[K]] == '/'); \
	else \
		VERIF_ASSUME(__CPROVER_forall { size_t i; (i < W16_MAX) ==> (i < g_len[K] ==> OBJ.name[i] != '/') }); \
	} while (0)
	W16_NAME_PRE(1, g_n1);
#if DEPTH >= 2
	W16_NAME_PRE(2, g_n2);
#endif
#if DEPTH >= 3
	W16_NAME_PRE(3, g_n3);
#endif
#else
	/* only the prefix the function itself reads has to be consistent */
	for (k = 1; k <= DEPTH; ++k) {
		VERIF_ASSUME(g_len[k] >= 3 || NAME(k)[g_len[k]] == '\0');
		VERIF_ASSUME(!g_has_sl[k] || g_sl[k] < g_len[k]);
	}
#endif

	for (k = 1; k <= DEPTH; ++k) {
		const char *nm = NAME(k);

		if (g_len[k] == 0 || g_has_sl[k] ||
		    (g_len[k] == 1 && nm[0] == '.') ||
		    (g_len[k] == 2 && nm[0] == '.' && nm[1] == '.'))
			names_ok = false;
	}
	VERIF_COVER(names_ok && root_ok && g_len[1] > 5 && g_len[DEPTH] > 5);

	ret = sqfs_tree_node_get_path(&g_np[DEPTH]->n, &out);

#if HUGE
	{
		unsigned __int128 want = (unsigned __int128)DEPTH + 1;

		for (k = 1; k <= DEPTH; ++k)
			want += g_len[k];
		if (g_mcalled)
			VERIF_ASSERT((unsigned __int128)g_msize == want,
				     "C06.get_path_unb.size_exact");
		if (want > (unsigned __int128)SIZE_MAX) {
			VERIF_ASSERT(ret != 0 && !g_mcalled && out == NULL,
				     "C06.get_path_unb.overflow_refused");
			VERIF_COVER(ret == SQFS_ERROR_OVERFLOW);
		}
		VERIF_COVER(g_mcalled);
		if (ret == 0)
			free(out);
	}
#else
	VERIF_COVER(ret == 0);
	VERIF_COVER(ret == SQFS_ERROR_CORRUPTED);
	VERIF_COVER(ret == SQFS_ERROR_ALLOC);
	VERIF_COVER(ret == SQFS_ERROR_ARG_INVALID);
	VERIF_ASSERT(ret != SQFS_ERROR_OVERFLOW, "C06.get_path_unb.no_overflow");
	if (g_mfail)
		VERIF_ASSERT(ret == SQFS_ERROR_ALLOC, "C06.get_path_unb.alloc_fail");
	if (ret != 0) {
		VERIF_ASSERT(out == NULL, "C06.get_path_unb.fail_null");
		VERIF_ASSERT(g_mfail || !names_ok || !root_ok,
			     "C06.get_path_unb.complete");
		return;
	}
	VERIF_ASSERT(out != NULL && out != (char *)(uintptr_t)1 && g_mcalled && !g_mfail,
		     "C06.get_path_unb.length");
	VERIF_ASSERT(names_ok && root_ok, "C06.get_path_unb.refuses");
	for (k = 1; k <= DEPTH; ++k) {
		/* the witness position of an accepted name holds no slash */
		if (g_cw < g_len[k])
			VERIF_ASSERT(NAME(k)[g_cw] != '/', "C06.get_path_unb.refuses");
	}
	off[1] = 0;
	for (k = 1; k <= DEPTH; ++k) {
		off[k + 1] = off[k] + 1 + g_len[k];
		total += g_len[k];
	}
	VERIF_ASSERT(g_msize == total + DEPTH + 1 && off[DEPTH + 1] == total + DEPTH &&
		     out[total + DEPTH] == '\0', "C06.get_path_unb.length");
	for (k = 1; k <= DEPTH; ++k) {
		VERIF_ASSERT(out[off[k]] == '/', "C06.get_path_unb.separators");
		if (g_cw < g_len[k]) {
			VERIF_ASSERT(out[off[k] + 1 + g_cw] == NAME(k)[g_cw] &&
				     out[off[k] + 1 + g_cw] != '\0',
				     "C06.get_path_unb.components");
			VERIF_COVER(g_cw > 3);
		}
	}
	free(out);
#endif
}
