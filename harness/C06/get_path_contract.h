/* The contract of sqfs_tree_node_get_path as established by the harness
 * get_path.c (obligations C06.get_path.components / fail_null / complete for
 * the same shapes and name lengths), in executable form, used in place of
 * the body when the *callers* are verified:
 *
 *   requires  node belongs to the tree              (C06.get_path.pre)
 *   ensures   ret == 0  => root nameless, every name on the chain below the
 *                          root is an acceptable component, *out is a fresh
 *                          heap string "/" n1 "/" n2 ... (or "/" for the
 *                          root itself)
 *             ret != 0  => *out == NULL; allowed whenever the above fails,
 *                          and on allocation failure
 */
#ifndef C06_GET_PATH_CONTRACT_H
#define C06_GET_PATH_CONTRACT_H

static unsigned g_get_path_calls;


int sqfs_tree_node_get_path(const sqfs_tree_node_t *node, char **out)
{
	int chain[SHAPE_DEPTH + 1];
	int k = node_index(node), n = 0, j;
	bool all_ok = true;
	size_t o = 0, i;
	char *str;

	VERIF_ASSERT(k >= 0, "C06.get_path.pre");
	++g_get_path_calls;
	*out = NULL;

	/* the chain ends where the parent pointer is NULL (restore_fstree
	 * cuts the tree at the unpack root that way) */
	while (NODE(k)->parent != NULL) {
		if (!spec_component_ok((const char *)TN(k)->name))
			all_ok = false;
		VERIF_ASSERT(n <= SHAPE_DEPTH, "C06.get_path.pre");
		chain[n++] = k;
		k = node_index(NODE(k)->parent);
		VERIF_ASSERT(k >= 0, "C06.get_path.pre");
	}
	if (TN(k)->name[0] != '\0')
		all_ok = false;

	if (!all_ok)
		return verif_nd_bool("gp_err") ? SQFS_ERROR_CORRUPTED :
			SQFS_ERROR_ARG_INVALID;
	if (verif_nd_bool("gp_oom"))
		return SQFS_ERROR_ALLOC;

	str = malloc(C06_PATHMAX);
	if (str == NULL)
		return SQFS_ERROR_ALLOC;

	if (n == 0)
		str[o++] = '/';
	for (j = n - 1; j >= 0; --j) {
		str[o++] = '/';
		for (i = 0; TN(chain[j])->name[i] != '\0'; ++i)
			*(sqfs_u8 *)&str[o++] = TN(chain[j])->name[i];
	}
	str[o] = '\0';
	*out = str;
	g_ptr[node_index(node)] = str;
	g_state[node_index(node)] = 1;
	return 0;
}

/* The contract of canonicalize_name restricted to what get_path delivers
 * (C18.canon.output_eq_spec / fails_iff_dotdot, specialised by
 * C06.get_path.canon_is_shift in get_path.c): a string of the form
 * "/" c1 "/" c2 ... with acceptable components is accepted and loses exactly
 * its leading slash; "/" becomes "".
 *   requires  the argument is a result of sqfs_tree_node_get_path that has
 *             not been canonicalised yet           (C06.canon.pre)
 */
#ifdef C06_CANON_CONTRACT
int canonicalize_name(char *filename)
{
	int k = env_node_of(filename);
	size_t i;

	VERIF_ASSERT(k >= 0 && g_state[k] == 1, "C06.canon.pre");
	if (k >= 0)
		g_state[k] = 2;
	for (i = 0; i + 1 < C06_PATHMAX; ++i) {
		filename[i] = filename[i + 1];
		if (filename[i] == '\0')
			break;
	}
	return 0;
}
#endif
#endif
