/* C06 / C18 (w18): the real process_command_line() and get_path() of
 * bin/rdsquashfs/src/options.c; getopt_long, exit, strdup/free,
 * canonicalize_name and the printers are contract stubs (w18_optenv.h).
 * getopt_long delivers NOPT options (concrete count, -DNOPT=0..3); which
 * options, their arguments, optind/argc, allocation outcomes and the verdicts
 * of canonicalize_name are symbolic. The expected result is computed by a
 * model written from rdsquashfs.1 (rd_model), not from the code.
 *
 *   C06.rd_opts.unpack_root_last   the parser returns with unpack_root ==
 *        NULL iff no -p was given, otherwise a non-NULL string equal to the
 *        argument of the LAST -p (nothing that can turn the argument into
 *        NULL or another directory: realpath() of a directory that does not
 *        exist yet is NULL = "no unpack root", and main() then unpacks into
 *        the caller's working directory)
 *   C06.rd_opts.op_last            op is the operation of the last operation
 *        option (-l -c -x -s -u -d)
 *   C06.rd_opts.cmdpath_last       cmdpath is NULL for -d, otherwise the
 *        block that holds the copy of the last operation's path, accepted by
 *        canonicalize_name, unchanged since, not freed
 *   C18.funnel.rd_opts.canon_arg   canonicalize_name is only called on a live
 *        copy of the argument of the option being processed
 *   C18.funnel.rd_opts.every_path  the argument of EVERY path option
 *        (-l -c -x -s -u) went through canonicalize_name exactly once
 *   C18.funnel.rd_opts.refuse      the parser never returns after a refusal
 *        (a refused path ends the tool; with failure_status: unsuccessfully)
 *   C06.rd_opts.flags_exact        flags == OR of the documented bits of the
 *        flag options given (-C -O -q -Z -X -T), nothing else
 *   C06.rd_opts.rdtree_flags_exact rdtree_flags (without NO_RECURSE) == OR of
 *        -D -S -F -L -E bits; NO_RECURSE never for unpack/describe
 *   C06.rd_opts.image_name         image_name is the first non-option word
 *   C06.rd_opts.must_exit          no return after -h/-V/an unknown option,
 *        without an operation, or without an image argument
 *   C06.rd_opts.help_status / failure_status / exit_justified
 *        exit status 0 exactly for -h/-V; every other exit is unsuccessful
 *        and has a reason (unknown option, refused path, failed allocation,
 *        no operation, no image)
 *   C13.rd_opts.no_leak            on return every live block is cmdpath
 */
#include "bin/rdsquashfs/src/rdsquashfs.h"

#ifndef NOPT
#define NOPT 2
#endif

static bool rd_is_path_opt(int c)
{
	return c == 'l' || c == 'c' || c == 'x' || c == 's' || c == 'u';
}

static bool rd_is_opt(int c)
{
	return rd_is_path_opt(c) || c == 'p' || c == 'j' || c == 'D' ||
	       c == 'S' || c == 'F' || c == 'L' || c == 'E' || c == 'Z' ||
	       c == 'X' || c == 'T' || c == 'd' || c == 'C' || c == 'O' ||
	       c == 'q' || c == 'h' || c == 'V' || c == '?';
}

#define W18_IS_OPT(c) rd_is_opt(c)
#define W18_HAS_ARG(c) (rd_is_path_opt(c) || (c) == 'p' || (c) == 'j')
#include "C06/w18_optenv.h"

/* ------------------------------------------------- canonicalize_name stub */
static int g_cn_calls[5], g_cn_ret[5];
static char g_cn_out[5][W18_BUFSZ];
static bool g_cn_refused;

int canonicalize_name(char *filename)
{
	int i, s;

	VERIF_ASSERT(filename != NULL, "C18.funnel.canon.pre_nonnull");
	s = w18_pool_index(filename);
	/* called on the live copy of the argument of the current option */
	VERIF_ASSERT(s >= 1 && s <= NOPT && s == w18_slot() && g_pool_live[s] &&
		     g_pool_src[s] == g_argtab[s - 1] &&
		     rd_is_path_opt(g_optc[s - 1]),
		     "C18.funnel.rd_opts.canon_arg");
	if (s < 1 || s > NOPT)
		return -1;
	g_cn_calls[s] += 1;
	if (verif_nd_bool("canon.refuses")) {
		g_cn_ret[s] = -1;
		g_cn_refused = true;
		return -1;
	}
	g_cn_ret[s] = 0;
	/* accepted: rewritten in place, never longer than before */
	for (i = 0; i < W18_ARGLEN; ++i)
	{
		uint8_t b = verif_nd_u8("canon.out");
		w18_put(&filename[i], b);
		w18_put(&g_cn_out[s][i], b);
	}
	filename[W18_ARGLEN] = g_cn_out[s][W18_ARGLEN] = '\0';
	return 0;
}

/* libc functions a parser has no business calling on the unpack root; with a
 * contract, so that such a call is judged by the obligations above */
static char g_realpath_buf[W18_BUFSZ];
char *realpath(const char *path, char *resolved)
{
	int i;

	(void)path;
	if (verif_nd_bool("realpath.enoent"))
		return NULL;
	if (resolved == NULL)
		resolved = g_realpath_buf;
	for (i = 0; i < W18_ARGLEN; ++i)
		w18_put(&resolved[i], verif_nd_u8("realpath.out"));
	resolved[W18_ARGLEN] = '\0';
	return resolved;
}

#include "bin/rdsquashfs/src/options.c"

/* ------------------------------------------- model, from rdsquashfs.1 only */
static int m_op, m_path, m_root, m_flags, m_rd, m_stop;

static void rd_model(int n)
{
	int k;

	m_op = OP_NONE;
	m_path = -1;	/* position of the option that supplies cmdpath */
	m_root = -1;	/* position of the last -p */
	m_flags = 0;
	m_rd = 0;
	m_stop = -1;	/* first position at which the tool has to stop */

	for (k = 0; k < n; ++k) {
		switch (g_optc[k]) {
		case 'l': m_op = OP_LS; m_path = k; break;
		case 'c': m_op = OP_CAT; m_path = k; break;
		case 'x': m_op = OP_RDATTR; m_path = k; break;
		case 's': m_op = OP_STAT; m_path = k; break;
		case 'u': m_op = OP_UNPACK; m_path = k; break;
		case 'd': m_op = OP_DESCRIBE; m_path = -1; break;
		case 'p': m_root = k; break;
		case 'D': m_rd |= SQFS_TREE_NO_DEVICES; break;
		case 'S': m_rd |= SQFS_TREE_NO_SOCKETS; break;
		case 'F': m_rd |= SQFS_TREE_NO_FIFO; break;
		case 'L': m_rd |= SQFS_TREE_NO_SLINKS; break;
		case 'E': m_rd |= SQFS_TREE_NO_EMPTY; break;
		case 'C': m_flags |= UNPACK_CHMOD; break;
		case 'O': m_flags |= UNPACK_CHOWN; break;
		case 'q': m_flags |= UNPACK_QUIET; break;
		case 'Z': m_flags |= UNPACK_NO_SPARSE; break;
		case 'X': m_flags |= UNPACK_SET_XATTR; break;
		case 'T': m_flags |= UNPACK_SET_TIMES; break;
		default:	/* -h -V, undocumented -j, unknown */
			if (m_stop < 0)
				m_stop = k;
			break;
		}
	}
}

static void w18_on_exit(int status)
{
	int k = g_pos - 1;

	if (g_pos == 0) {
		VERIF_ASSERT(0, "C06.rd_opts.exit_justified");
	} else if (g_pos <= NOPT) {
		int c = g_optc[k];

		if (c == 'h' || c == 'V') {
			VERIF_ASSERT(status == EXIT_SUCCESS, "C06.rd_opts.help_status");
#if NOPT >= 1
			VERIF_COVER(status == EXIT_SUCCESS);
#endif
		} else {
			VERIF_ASSERT(status != EXIT_SUCCESS, "C06.rd_opts.failure_status");
			VERIF_ASSERT(c == '?' || c == 'j' ||
				     (rd_is_path_opt(c) &&
				      (g_pool_failed[k + 1] ||
				       (g_cn_calls[k + 1] >= 1 && g_cn_ret[k + 1] != 0))),
				     "C06.rd_opts.exit_justified");
#if NOPT >= 1
			VERIF_COVER(c == 'u' && g_cn_refused);
			VERIF_COVER(rd_is_path_opt(c) && g_pool_failed[k + 1]);
#endif
		}
	} else {
		rd_model(NOPT);
		VERIF_ASSERT(status != EXIT_SUCCESS, "C06.rd_opts.failure_status");
		VERIF_ASSERT(m_op == OP_NONE || g_optind_final >= g_argc,
			     "C06.rd_opts.exit_justified");
#if NOPT >= 1
		VERIF_COVER(m_op != OP_NONE && g_optind_final >= g_argc);
#else
		VERIF_COVER(status == EXIT_FAILURE);
#endif
	}
}

void harness(void)
{
	static options_t opt;
	int k;

	w18_env_init();
	w18_args_symbolic();
	for (k = 0; k < 5; ++k) {
		g_cn_calls[k] = 0;
		g_cn_ret[k] = 0;
	}
	g_cn_refused = false;
	/* the parser has to initialise every field itself */
	opt.op = verif_nd_int("init.op");
	opt.rdtree_flags = verif_nd_int("init.rdtree_flags");
	opt.flags = verif_nd_int("init.flags");
	opt.cmdpath = NULL;
	opt.unpack_root = verif_nd_bool("init.root") ? g_av0 : NULL;
	opt.image_name = NULL;

	W18_RUN(process_command_line(&opt, g_argc, g_argv));
	if (g_exited)
		return;

	/* ------------------------------------------------------ it returned */
	rd_model(NOPT);

	VERIF_ASSERT(m_stop < 0 && m_op != OP_NONE && g_optind_final < g_argc,
		     "C06.rd_opts.must_exit");
	VERIF_ASSERT(!g_cn_refused, "C18.funnel.rd_opts.refuse");
	for (k = 0; k < NOPT; ++k) {
		if (rd_is_path_opt(g_optc[k])) {
			VERIF_ASSERT(g_cn_calls[k + 1] == 1 && g_cn_ret[k + 1] == 0,
				     "C18.funnel.rd_opts.every_path");
		} else {
			VERIF_ASSERT(g_cn_calls[k + 1] == 0,
				     "C18.funnel.rd_opts.every_path");
		}
	}

	VERIF_ASSERT(opt.op == m_op, "C06.rd_opts.op_last");

	if (m_path < 0) {
		VERIF_ASSERT(opt.cmdpath == NULL, "C06.rd_opts.cmdpath_last");
	}
	for (k = 0; k < NOPT; ++k) {
		if (k == m_path) {
			VERIF_ASSERT(opt.cmdpath == g_pool[k + 1] &&
				     g_pool_live[k + 1] &&
				     g_pool_src[k + 1] == g_argtab[k] &&
				     g_cn_calls[k + 1] == 1 && g_cn_ret[k + 1] == 0 &&
				     w18_streq(g_pool[k + 1], g_cn_out[k + 1]),
				     "C06.rd_opts.cmdpath_last");
		} else {
			VERIF_ASSERT(!g_pool_live[k + 1], "C13.rd_opts.no_leak");
		}
	}
	VERIF_ASSERT(!g_pool_live[0] && !g_pool_live[NOPT + 1],
		     "C13.rd_opts.no_leak");

	if (m_root < 0) {
		VERIF_ASSERT(opt.unpack_root == NULL,
			     "C06.rd_opts.unpack_root_last");
	}
	for (k = 0; k < NOPT; ++k) {
		if (k == m_root) {
			VERIF_ASSERT(opt.unpack_root != NULL,
				     "C06.rd_opts.unpack_root_last");
			if (opt.unpack_root != NULL) {
				VERIF_ASSERT(w18_streq(opt.unpack_root, g_argtab[k]),
					     "C06.rd_opts.unpack_root_last");
			}
		}
	}

	VERIF_ASSERT(opt.flags == m_flags, "C06.rd_opts.flags_exact");
	VERIF_ASSERT((opt.rdtree_flags & ~SQFS_TREE_NO_RECURSE) == m_rd,
		     "C06.rd_opts.rdtree_flags_exact");
	VERIF_ASSERT((m_op != OP_UNPACK && m_op != OP_DESCRIBE) ||
		     (opt.rdtree_flags & SQFS_TREE_NO_RECURSE) == 0,
		     "C06.rd_opts.rdtree_flags_exact");
	VERIF_ASSERT(opt.image_name != NULL &&
		     opt.image_name == g_argv[g_optind_final],
		     "C06.rd_opts.image_name");

#if NOPT >= 1
	VERIF_COVER(m_op == OP_UNPACK);
	VERIF_COVER(m_op == OP_DESCRIBE);
#endif
#if NOPT >= 2
	VERIF_COVER(m_op == OP_UNPACK && m_root >= 0);
	VERIF_COVER(m_op == OP_CAT && m_flags == UNPACK_SET_XATTR);
#endif
#if NOPT >= 3
	VERIF_COVER(m_op == OP_UNPACK && m_root == 2 && g_optc[0] == 'p');
	VERIF_COVER(m_op == OP_LS && m_path == 2 && g_optc[0] == 'u');
#endif
}
