/* C06 (and C05): fill_dir of lib/common/src/read_tree.c - what the directory
 * reader delivers is what the tree holds. rdsquashfs decides on the TREE which
 * entries are unpacked and which are reported and skipped ("Found an entry
 * named '..', skipping"); an entry that fill_dir drops without a word is
 * neither unpacked nor reported.
 *
 * The directory reader is its contract: the top directory delivers FD_N
 * entries (concrete count, concrete directory-entry type per position:
 * -DFD_T0, -DFD_T1 = SQFS_INODE_* basic type), each with a SYMBOLIC name of
 * NM bytes + NUL (".", "..", "a", "a/", ... are all values), the inode is of
 * the same class, basic or (-DFD_EXT) extended. A sub-directory delivers
 * FD_SUB (0 or 1) regular files with symbolic names. get_inode / open_dir /
 * read / create_node may fail wherever they are called. Inode numbers are
 * distinct (directory loops: C05.read_tree.noloop). create_node is replaced
 * by its contract (fresh node carrying the inode and a copy of the name, or
 * NULL).
 *
 *   C06.read_tree.no_silent_drop  fill_dir returns 0 => the children of the
 *        directory are, in order of arrival, exactly the delivered entries
 *        that no filter flag excludes: same name bytes, the inode that was
 *        read for that entry, parent = the directory, list NULL terminated
 *        (nothing missing, nothing extra, nothing reordered); the same one
 *        level down for a sub-directory that was entered
 *   C06.read_tree.filter_exact    an entry is left out iff the caller asked
 *        for it (include/dir_tree.h): its directory entry type is a device /
 *        socket / fifo / symlink and SQFS_TREE_NO_DEVICES / _NO_SOCKETS /
 *        _NO_FIFO / _NO_SLINKS is set, or it is a directory that ends up
 *        without children and SQFS_TREE_NO_EMPTY is set; a sub-directory is
 *        entered iff SQFS_TREE_NO_RECURSE is clear. The name never decides.
 *   C06.read_tree.entry_released  every directory entry record handed out by
 *        the reader is freed exactly once (on success and on failure)
 */
#include <stdlib.h>
#include <string.h>
#include <stddef.h>
#include "verif.h"
#include "sqfs/predef.h"
#include "sqfs/dir_reader.h"
#include "sqfs/inode.h"
#include "sqfs/dir.h"
#include "sqfs/error.h"
#include "dir_tree.h"

#ifndef FD_N
#define FD_N 1
#endif
/* basic types: 1 dir, 2 file, 3 slink, 4 bdev, 5 cdev, 6 fifo, 7 socket */
#ifndef FD_T0
#define FD_T0 2
#endif
#ifndef FD_T1
#define FD_T1 2
#endif
#ifndef FD_SUB
#define FD_SUB 0
#endif
#ifndef NM
#define NM 2
#endif
#define MAXENT (FD_N + FD_N * FD_SUB)

struct went { sqfs_dir_node_t e; sqfs_u8 name[NM + 1]; };
struct wnode { sqfs_tree_node_t n; sqfs_u8 name[NM + 1]; };

/* one record per entry the reader delivered; dir = -1 top level, else the
 * index of the top-level entry whose directory it was read from */
static struct {
	int dir;
	sqfs_u16 type;
	sqfs_u8 name[NM + 1];
	sqfs_u64 ref;
	sqfs_inode_generic_t *ino;
	struct went *rec;
	bool freed;
	bool isdir;		/* the inode handed out is a directory inode */
} g_d[MAXENT + 1];
static unsigned g_nd;
static sqfs_dir_reader_t *g_dr;
static sqfs_dir_reader_state_t g_top_state;
static sqfs_dir_reader_state_t *g_sub_state;
static int g_sub_of;			/* top-level entry being read below */
static unsigned g_top_reads, g_sub_reads;
/* bumped at the very start of the stubs, before any nondeterministic branch,
 * so that cbmc's constant propagation keeps them concrete after the call */
static unsigned g_top_calls;
static bool g_last_top;
static bool g_entered[FD_N + 1];	/* open_dir succeeded for entry i */
static unsigned g_subcnt[FD_N + 1];	/* entries delivered below entry i */
static bool g_fault, g_bad_free;
static sqfs_tree_node_t g_rootnode;
static sqfs_inode_generic_t g_rootino;

static bool is_dir_type(sqfs_u16 t)
{
	return t == SQFS_INODE_DIR || t == SQFS_INODE_EXT_DIR;
}

int sqfs_dir_reader_read(sqfs_dir_reader_t *rd, sqfs_dir_reader_state_t *state,
			 sqfs_dir_node_t **out)
{
	struct went *w;
	bool top = (state == &g_top_state);
	size_t i;

	g_last_top = top;
	if (top)
		g_top_calls += 1;
	VERIF_ASSERT(rd == g_dr && state != NULL && (top || state == g_sub_state),
		     "C06.env.dir_read.args");
	if (verif_nd_bool("rd.fail")) {
		g_fault = true;
		return SQFS_ERROR_IO;
	}
	if (top ? g_top_reads >= FD_N : g_sub_reads >= FD_SUB)
		return 1;
	if (g_nd >= MAXENT)
		return 1;
	w = malloc(sizeof(*w));
	VERIF_ASSUME(w != NULL);
	verif_nd_bytes(w->name, NM, "ent.name");
	w->name[NM] = '\0';
	VERIF_ASSUME(w->name[0] != '\0');
	w->e.type = top ? (g_top_calls == 1 ? FD_T0 : FD_T1) : SQFS_INODE_FILE;
	w->e.size = 0;
	w->e.offset = verif_nd_u16("ent.offset");
	w->e.inode_diff = 0;
	state->ent_ref = verif_nd_u64("ent.ref");

	g_d[g_nd].dir = top ? -1 : g_sub_of;
	g_d[g_nd].type = w->e.type;
	for (i = 0; i <= NM; ++i)
		g_d[g_nd].name[i] = w->name[i];
	g_d[g_nd].ref = state->ent_ref;
	g_d[g_nd].ino = NULL;
	g_d[g_nd].rec = w;
	g_d[g_nd].freed = false;
	g_d[g_nd].isdir = false;
	if (top) {
		g_top_reads += 1;
	} else {
		g_sub_reads += 1;
		g_subcnt[g_sub_of] += 1;
	}
	g_nd += 1;
	*out = &w->e;
	return 0;
}

/* the entry whose inode is asked for is the one read last */
int sqfs_dir_reader_get_inode(sqfs_dir_reader_t *rd, sqfs_u64 ref,
			      sqfs_inode_generic_t **inode)
{
	sqfs_inode_generic_t *ino;
	sqfs_u16 t;

	VERIF_ASSERT(rd == g_dr && g_nd > 0 && ref == g_d[g_nd - 1].ref &&
		     g_d[g_nd - 1].ino == NULL, "C06.env.get_inode.args");
	if (verif_nd_bool("gi.fail")) {
		g_fault = true;
		return SQFS_ERROR_IO;
	}
	ino = malloc(sizeof(*ino));
	VERIF_ASSUME(ino != NULL);
	t = g_last_top ? (g_top_calls == 1 ? FD_T0 : FD_T1) : SQFS_INODE_FILE;
	VERIF_ASSERT(t == g_d[g_nd - 1].type, "C06.env.get_inode.args");
#ifdef FD_EXT
	ino->base.type = (sqfs_u16)(t + 7);	/* extended inode of the same class */
#else
	ino->base.type = t;
#endif
	ino->base.inode_number = 100 + g_nd;
	ino->base.mode = verif_nd_u16("gi.mode");
	g_d[g_nd - 1].ino = ino;
	g_d[g_nd - 1].isdir = is_dir_type(ino->base.type);
	*inode = ino;
	return 0;
}

int sqfs_dir_reader_open_dir(sqfs_dir_reader_t *rd, const sqfs_inode_generic_t *inode,
			     sqfs_dir_reader_state_t *state, sqfs_u32 flags)
{
	int which = -1;
	unsigned i;

	(void)flags;
	for (i = 0; i < FD_N; ++i) {
		if (i < g_nd && g_d[i].dir == -1 && g_d[i].ino == inode)
			which = (int)i;
	}
	VERIF_ASSERT(rd == g_dr && state != NULL && inode != NULL && which >= 0 &&
		     is_dir_type(inode->base.type) && !g_entered[which],
		     "C06.env.open_dir.args");
	if (verif_nd_bool("od.fail")) {
		g_fault = true;
		return SQFS_ERROR_IO;
	}
	if (which >= 0)
		g_entered[which] = true;
	g_sub_state = state;
	g_sub_of = which;
	g_sub_reads = 0;
	return 0;
}

/* contract of create_node (goto-instrument --replace-calls) */
static sqfs_tree_node_t *stub_create_node(sqfs_inode_generic_t *inode, const char *name)
{
	struct wnode *w;
	size_t i;
	bool ended = false;

	VERIF_ASSERT(inode != NULL && name != NULL && g_nd > 0 &&
		     inode == g_d[g_nd - 1].ino, "C06.env.create_node.args");
	if (verif_nd_bool("cn.fail")) {
		g_fault = true;
		return NULL;
	}
	w = malloc(sizeof(*w));
	VERIF_ASSUME(w != NULL);
	w->n.parent = NULL;
	w->n.children = NULL;
	w->n.next = NULL;
	w->n.inode = inode;
	w->n.uid = 0;
	w->n.gid = 0;
	for (i = 0; i <= NM; ++i) {
		sqfs_u8 c = ended ? 0 : ((const sqfs_u8 *)name)[i];

		if (c == 0)
			ended = true;
		w->name[i] = c;
	}
	VERIF_ASSERT(ended, "C06.env.create_node.args");
	return &w->n;
}

/* the records are the only heap objects fill_dir releases on the success
 * path besides a dropped empty directory; count the records */
static void w20_free(void *p)
{
	unsigned i;

	for (i = 0; i < MAXENT; ++i) {
		if (i < g_nd && p == (void *)g_d[i].rec) {
			if (g_d[i].freed)
				g_bad_free = true;
			g_d[i].freed = true;
		}
	}
	free(p);
}

static void fd_destroy(sqfs_object_t *o) { (void)o; }
static sqfs_object_t *fd_copy(const sqfs_object_t *o) { (void)o; return NULL; }

#define free w20_free
#include "lib/common/src/read_tree.c"
#undef free

static const sqfs_u8 *node_name(const sqfs_tree_node_t *n)
{
	return (const sqfs_u8 *)n + offsetof(sqfs_tree_node_t, name);
}

static bool flag_excludes(sqfs_u16 type, unsigned flags)
{
	switch (type) {
	case SQFS_INODE_BDEV: case SQFS_INODE_CDEV:
	case SQFS_INODE_EXT_BDEV: case SQFS_INODE_EXT_CDEV:
		return (flags & SQFS_TREE_NO_DEVICES) != 0;
	case SQFS_INODE_SOCKET: case SQFS_INODE_EXT_SOCKET:
		return (flags & SQFS_TREE_NO_SOCKETS) != 0;
	case SQFS_INODE_FIFO: case SQFS_INODE_EXT_FIFO:
		return (flags & SQFS_TREE_NO_FIFO) != 0;
	case SQFS_INODE_SLINK: case SQFS_INODE_EXT_SLINK:
		return (flags & SQFS_TREE_NO_SLINKS) != 0;
	default:
		return false;
	}
}

void harness(void)
{
	unsigned flags = verif_nd_u32("flags") & SQFS_TREE_ALL_FLAGS;
	const sqfs_tree_node_t *n, *c;
	unsigned i, j, kept = 0;
	size_t b;
	int ret;

	(void)fd_destroy; (void)fd_copy; (void)stub_create_node;
	g_dr = malloc(1);
	VERIF_ASSUME(g_dr != NULL);
	g_nd = 0;
	g_top_reads = g_sub_reads = 0;
	g_top_calls = 0;
	g_last_top = false;
	g_sub_state = NULL;
	g_sub_of = -1;
	g_fault = g_bad_free = false;
	for (i = 0; i <= FD_N; ++i) {
		g_entered[i] = false;
		g_subcnt[i] = 0;
	}
	g_rootino.base.type = SQFS_INODE_DIR;
	g_rootino.base.inode_number = 1;
	g_rootnode.parent = NULL;
	g_rootnode.children = NULL;
	g_rootnode.next = NULL;
	g_rootnode.inode = &g_rootino;
	memset(&g_top_state, 0, sizeof(g_top_state));

	ret = fill_dir(g_dr, &g_rootnode, &g_top_state, flags);

	VERIF_ASSERT(!g_bad_free, "C06.read_tree.entry_released");
	for (i = 0; i < MAXENT; ++i) {
		if (i < g_nd)
			VERIF_ASSERT(g_d[i].freed, "C06.read_tree.entry_released");
	}

	if (ret == 0) {
		VERIF_ASSERT(g_top_reads == FD_N, "C06.read_tree.no_silent_drop");
		n = g_rootnode.children;
		for (i = 0; i < FD_N; ++i) {
			bool dir, omit;

			/* position of top-level entry i in g_d: entries of a
			 * sub-directory are read after the whole top level */
			VERIF_ASSERT(g_d[i].dir == -1, "C06.read_tree.no_silent_drop");
			if (flag_excludes(g_d[i].type, flags)) {
				/* left out on request: no inode was read for it */
				VERIF_ASSERT(g_d[i].ino == NULL, "C06.read_tree.filter_exact");
				continue;
			}
			VERIF_ASSERT(g_d[i].ino != NULL, "C06.read_tree.no_silent_drop");
			dir = g_d[i].ino != NULL && g_d[i].isdir;
			VERIF_ASSERT(g_entered[i] == (dir && !(flags & SQFS_TREE_NO_RECURSE)),
				     "C06.read_tree.filter_exact");
			VERIF_ASSERT(!g_entered[i] || g_subcnt[i] == FD_SUB,
				     "C06.read_tree.no_silent_drop");
			omit = dir && (flags & SQFS_TREE_NO_EMPTY) && g_subcnt[i] == 0;
			if (omit) {
				VERIF_ASSERT(n == NULL || n->inode != g_d[i].ino,
					     "C06.read_tree.filter_exact");
				continue;
			}
			VERIF_ASSERT(n != NULL, "C06.read_tree.no_silent_drop");
			if (n == NULL)
				break;
			kept += 1;
			VERIF_ASSERT(n->inode == g_d[i].ino && n->parent == &g_rootnode,
				     "C06.read_tree.no_silent_drop");
			for (b = 0; b <= NM; ++b)
				VERIF_ASSERT(node_name(n)[b] == g_d[i].name[b],
					     "C06.read_tree.no_silent_drop");
			/* one level down */
			c = n->children;
			for (j = FD_N; j < MAXENT; ++j) {
				if (j >= g_nd || g_d[j].dir != (int)i)
					continue;
				VERIF_ASSERT(c != NULL, "C06.read_tree.no_silent_drop");
				if (c == NULL)
					break;
				VERIF_ASSERT(c->inode == g_d[j].ino && c->parent == n,
					     "C06.read_tree.no_silent_drop");
				for (b = 0; b <= NM; ++b)
					VERIF_ASSERT(node_name(c)[b] == g_d[j].name[b],
						     "C06.read_tree.no_silent_drop");
				c = c->next;
			}
			VERIF_ASSERT(c == NULL, "C06.read_tree.no_silent_drop");
			n = n->next;
		}
		VERIF_ASSERT(n == NULL, "C06.read_tree.no_silent_drop");
	}

	VERIF_COVER(ret == 0 && kept == FD_N);
	VERIF_COVER(ret != 0);
#if FD_N >= 1
	VERIF_COVER(ret == 0 && kept == FD_N && g_d[0].name[0] == '.' && g_d[0].name[1] == '\0');
	VERIF_COVER(ret == 0 && kept == FD_N && g_d[0].name[0] == '.' && g_d[0].name[1] == '.');
#if FD_T0 != 2 || (FD_N > 1 && FD_T1 != 2)
	VERIF_COVER(ret == 0 && kept < FD_N);
#endif
#endif
#if FD_SUB > 0
	VERIF_COVER(ret == 0 && g_nd == MAXENT);
#endif
}
