# Round-2 extension (worker w16): sqfs_tree_node_get_path for names of any
# length (chain depth still concrete).
FUNCTIONS = ["sqfs_tree_node_get_path (names of any length below the cap, depth 1..3)"]
TRUSTED = [
    "w16_get_path_unb: libc strlen / strchr / memcpy / malloc under the contracts written on the stubs of "
    "harness/C06/w16_get_path_unb.c (strlen = index of the first NUL, strchr NULL iff no such byte, memcpy copies "
    "[witness byte], malloc may fail) instead of CBMC's library loops",
]
ASSUMPTIONS = [
    "w16_get_path_unb: names shorter than W16_MAX bytes (depth 1: 256 quick / 4096 thorough, depth 2: 64 / 256; depth 3 with symbolic name lengths did not finish in 9 min even at cap 32 and is covered only by the size-arithmetic case d3_huge; length and contents symbolic), "
    "chain depth 1..2 concrete (1..3 for the size arithmetic) - the induction over the depth is not closed, one level of it is: every name of the chain has any length",
]

HARNESSES = [
    dict(name="w16_get_path_unb", file="w16_get_path_unb.c",
         label="bounded(depth<=2; names of any length < cap)", timeout=1500, native=False,
         cases=[dict(id="d%d_max%d" % (d, m), defines={"DEPTH": d, "W16_MAX": m, "HUGE": 0},
                     unwind=d + 2, tier=t)
                for d, caps in ((1, ((256, "quick"), (4096, "thorough"))),
                                (2, ((64, "quick"), (256, "thorough")))) for m, t in caps] +
               [dict(id="d%d_huge" % d, defines={"DEPTH": d, "W16_MAX": 16, "HUGE": 1},
                     unwind=d + 2, tier="quick", label="bounded(depth<=3; lengths arbitrary size_t)")
                for d in (1, 2, 3)]),
]
