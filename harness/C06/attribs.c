/* C06 (bounded shapes): the real update_tree_attribs / set_attribs /
 * set_xattr over every tree of shape SHAPE, real is_filename_sane, the path
 * generator under its contract (get_path_contract.h), every combination of
 * --chmod --chown --set-times --set-xattr (flags symbolic), xattr reader =
 * contract delivering up to XATTR_MAX arbitrary key/value pairs or an error
 * at any step, every system call and allocation may fail.
 *
 *   C06.attribs.path_pre    every path handed to lsetxattr / utimensat /
 *                           fchownat / fchmodat is confined
 *   C06.prefix_is_dir       ... and every proper prefix is the path of a
 *                           directory node of the tree
 *   C06.nofollow            utimensat and fchownat are relative to AT_FDCWD
 *                           and carry AT_SYMLINK_NOFOLLOW; xattrs are set
 *                           with the l-variant (a call of the following
 *                           variants setxattr/chown/chmod/utimes is a
 *                           violation); fchmodat is never issued for a
 *                           symlink node
 *   C06.attribs.selected    only the operations that were asked for are
 *                           issued (no flag => no system call at all)
 *   C06.attribs.canon_ok    the assert(ret == 0) after canonicalize_name
 */
#include <string.h>
#include <stdlib.h>
#include "C06/tree.h"
#include "C06/env.h"

#ifndef XATTR_MAX
#define XATTR_MAX 2
#endif

size_t g_canon_L;
size_t g_sane_L, g_sane_w;
const char *g_sane_base;

static unsigned g_n_xattr, g_n_times, g_n_chown, g_n_chmod;

/* ---- system call contracts --------------------------------------------- */
int lsetxattr(const char *path, const char *name, const void *value,
	      size_t size, int flags)
{
	(void)name; (void)flags;
	VERIF_ASSERT(VERIF_R_OK(value, size), "C06.attribs.xattr_value_readable");
	++g_n_xattr;
	return env_result(env_log_path(path));
}

int utimensat(int dirfd, const char *path, const struct timespec times[2],
	      int flags)
{
	(void)times;
	VERIF_ASSERT(dirfd == AT_FDCWD && (flags & AT_SYMLINK_NOFOLLOW),
		     "C06.nofollow");
	++g_n_times;
	return env_result(env_log_path(path));
}

int fchownat(int dirfd, const char *path, uid_t uid, gid_t gid, int flags)
{
	(void)uid; (void)gid;
	VERIF_ASSERT(dirfd == AT_FDCWD && (flags & AT_SYMLINK_NOFOLLOW),
		     "C06.nofollow");
	++g_n_chown;
	return env_result(env_log_path(path));
}

int fchmodat(int dirfd, const char *path, mode_t mode, int flags)
{
	int k = env_node_of(path);

	(void)mode; (void)flags;
	VERIF_ASSERT(dirfd == AT_FDCWD, "C06.nofollow");
	/* chmod follows symlinks: never on a node that was created as one */
	VERIF_ASSERT(k >= 0 && !S_ISLNK(TI(k)->i.base.mode),
		     "C06.nofollow");
	++g_n_chmod;
	return env_result(env_log_path(path));
}

/* the following variants must not be used at all */
int setxattr(const char *path, const char *name, const void *value,
	     size_t size, int flags)
{
	(void)path; (void)name; (void)value; (void)size; (void)flags;
	VERIF_ASSERT(0, "C06.nofollow");
	return -1;
}

int chown(const char *path, uid_t uid, gid_t gid)
{
	(void)path; (void)uid; (void)gid;
	VERIF_ASSERT(0, "C06.nofollow");
	return -1;
}

int chmod(const char *path, mode_t mode)
{
	(void)path; (void)mode;
	VERIF_ASSERT(0, "C06.nofollow");
	return -1;
}

/* ---- xattr reader contract --------------------------------------------- */
static sqfs_xattr_reader_t *g_xr; /* opaque token */
static unsigned g_keys_live, g_vals_live;

struct xkey {
	sqfs_xattr_entry_t e;
	sqfs_u8 key[4];
};

struct xval {
	sqfs_xattr_value_t v;
	sqfs_u8 value[4];
};

int sqfs_inode_get_xattr_index(const sqfs_inode_generic_t *inode,
			       sqfs_u32 *out)
{
	(void)inode;
	*out = verif_nd_bool("has_xattr") ? verif_nd_u32("xidx") : 0xFFFFFFFF;
	return 0;
}

int sqfs_xattr_reader_get_desc(sqfs_xattr_reader_t *xr, sqfs_u32 idx,
			       sqfs_xattr_id_t *desc)
{
	(void)idx;
	VERIF_ASSERT(xr != NULL && xr == g_xr, "C06.attribs.xattr_reader_pre");
	if (verif_nd_bool("desc_fail"))
		return SQFS_ERROR_OUT_OF_BOUNDS;
	desc->xattr = verif_nd_u64("desc_ref");
	desc->count = verif_nd_u32("desc_count");
	desc->size = verif_nd_u32("desc_size");
	/* bound of this harness (label): at most XATTR_MAX pairs per inode */
	if (desc->count > XATTR_MAX)
		desc->count = XATTR_MAX;
	return 0;
}

int sqfs_xattr_reader_seek_kv(sqfs_xattr_reader_t *xr,
			      const sqfs_xattr_id_t *desc)
{
	(void)desc;
	VERIF_ASSERT(xr == g_xr, "C06.attribs.xattr_reader_pre");
	return verif_nd_bool("seek_fail") ? SQFS_ERROR_IO : 0;
}

int sqfs_xattr_reader_read_key(sqfs_xattr_reader_t *xr,
			       sqfs_xattr_entry_t **key_out)
{
	struct xkey *k;

	VERIF_ASSERT(xr == g_xr, "C06.attribs.xattr_reader_pre");
	*key_out = NULL;
	if (verif_nd_bool("key_fail"))
		return SQFS_ERROR_IO;
	k = malloc(sizeof(*k));
	if (k == NULL)
		return SQFS_ERROR_ALLOC;
	k->e.type = verif_nd_u16("ktype");
	k->e.size = 3;
	verif_nd_bytes(k->key, 3, "key");
	k->key[3] = '\0';
	*key_out = &k->e;
	return 0;
}

int sqfs_xattr_reader_read_value(sqfs_xattr_reader_t *xr,
				 const sqfs_xattr_entry_t *key,
				 sqfs_xattr_value_t **val_out)
{
	struct xval *v;

	VERIF_ASSERT(xr == g_xr && key != NULL, "C06.attribs.xattr_reader_pre");
	*val_out = NULL;
	if (verif_nd_bool("val_fail"))
		return SQFS_ERROR_IO;
	v = malloc(sizeof(*v));
	if (v == NULL)
		return SQFS_ERROR_ALLOC;
	v->v.size = verif_nd_u32("vsize");
	if (v->v.size > 3)
		v->v.size = 3;
	verif_nd_bytes(v->value, 4, "value");
	*val_out = &v->v;
	return 0;
}

/* not used by the attribute walk; defined so that the creating half of
 * restore_fstree.c has no body-less callee */
int mkdir(const char *p, mode_t m) { (void)p; (void)m; VERIF_ASSERT(0, "C06.attribs.selected"); return -1; }
int symlink(const char *t, const char *p) { (void)t; (void)p; VERIF_ASSERT(0, "C06.attribs.selected"); return -1; }
int mknod(const char *p, mode_t m, dev_t d) { (void)p; (void)m; (void)d; VERIF_ASSERT(0, "C06.attribs.selected"); return -1; }
int open(const char *p, int f, ...) { (void)p; (void)f; VERIF_ASSERT(0, "C06.attribs.selected"); return -1; }
int close(int fd) { (void)fd; return 0; }

#include "C06/get_path_contract.h"
#include "lib/util/src/filename_sane.c"
#ifndef C06_CANON_CONTRACT
#include "lib/util/src/canonicalize_name.c"
#endif
#undef assert
#define assert(c) VERIF_ASSERT((c), "C06.attribs.canon_ok")
#include "bin/rdsquashfs/src/restore_fstree.c"

void harness(void)
{
	static int xr_token;
	int flags = verif_nd_int("flags");
	bool with_xr = verif_nd_bool("with_xr");
	int ret;

	build_tree();
	g_xr = (sqfs_xattr_reader_t *)&xr_token;

	ret = update_tree_attribs(with_xr ? g_xr : NULL, NODE(0), flags);

	ENV_CHECK_LOG("C06.attribs.path_pre");

	VERIF_ASSERT(ret == 0 || ret == -1, "C06.attribs.status_domain");
	VERIF_ASSERT((flags & UNPACK_SET_XATTR) && with_xr ? 1 : g_n_xattr == 0,
		     "C06.attribs.selected");
	VERIF_ASSERT((flags & UNPACK_SET_TIMES) || g_n_times == 0,
		     "C06.attribs.selected");
	VERIF_ASSERT((flags & UNPACK_CHOWN) || g_n_chown == 0,
		     "C06.attribs.selected");
	VERIF_ASSERT((flags & UNPACK_CHMOD) || g_n_chmod == 0,
		     "C06.attribs.selected");
	VERIF_ASSERT(g_nsys == g_n_xattr + g_n_times + g_n_chown + g_n_chmod,
		     "C06.attribs.selected");
	if (ret != 0)
		VERIF_ASSERT(g_stderr_msgs > 0, "C06.attribs.failure_reported");

#if NNODES > 1
	VERIF_COVER(ret == 0 && g_used[NNODES - 1] && g_n_chmod > 0 &&
		    g_n_chown > 0 && g_n_times > 0 && g_n_xattr > 0);
#endif
	VERIF_COVER(ret == -1);
	VERIF_COVER(ret == 0 && g_nsys == 0 && flags != 0);
#if NNODES > 1
	VERIF_COVER(ret == 0 && g_calls[NNODES - 1] >= 4);
#endif
}
