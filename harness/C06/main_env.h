/* Contracts for everything main() of rdsquashfs.c calls (used by the
 * harness unpack_main.c; the sort harnesses include it in the native replay
 * build only, where main() is dead code that still has to link). */
#ifndef C06_MAIN_ENV_H
#define C06_MAIN_ENV_H
static unsigned g_seq;
static unsigned g_t_mkdir_p, g_t_chdir_ok, g_t_restore, g_t_fill, g_t_attr;
static bool g_chdir_called, g_mkdir_p_bad, g_chdir_bad, g_args_bad;
static int g_r_restore, g_r_fill, g_r_attr;
static char g_root_arg[4] = "out";
static char g_image_arg[4] = "img";
static const char *g_unpack_root;
static int g_flags;
static sqfs_xattr_reader_t *g_the_xattr;
static sqfs_data_reader_t *g_the_data;

struct obj { sqfs_object_t base; };
static struct obj o_file, o_cmp, o_xattr, o_idtbl, o_dirrd, o_data;

static void stub_obj_destroy(sqfs_object_t *o) { (void)o; }

static void *mk(struct obj *o)
{
	if (verif_nd_bool("create_fail"))
		return NULL;
	o->base.refcount = 1;
	o->base.destroy = stub_obj_destroy;
	o->base.copy = NULL;
	return o;
}

void process_command_line(options_t *opt, int argc, char **argv)
{
	(void)argc; (void)argv;
	opt->op = OP_UNPACK;
	opt->rdtree_flags = verif_nd_int("rdtree_flags") & SQFS_TREE_ALL_FLAGS;
	opt->flags = g_flags = verif_nd_int("flags");
	opt->cmdpath = NULL;
	opt->unpack_root = g_unpack_root =
		verif_nd_bool("with_root") ? g_root_arg : NULL;
	opt->image_name = g_image_arg;
}

int sqfs_file_open(sqfs_file_t **out, const char *filename, sqfs_u32 flags)
{
	(void)filename; (void)flags;
	*out = mk(&o_file);
	return *out == NULL ? SQFS_ERROR_IO : 0;
}

int sqfs_super_read(sqfs_super_t *super, sqfs_file_t *file)
{
	(void)file;
	super->flags = verif_nd_u16("sflags");
	super->block_size = verif_nd_u32("bs");
	super->compression_id = verif_nd_u16("comp");
	return verif_nd_bool("super_fail") ? SQFS_ERROR_CORRUPTED : 0;
}

int sqfs_compressor_config_init(sqfs_compressor_config_t *cfg,
				SQFS_COMPRESSOR id, size_t bs, sqfs_u16 flags)
{
	(void)cfg; (void)id; (void)bs; (void)flags;
	return 0;
}

int sqfs_compressor_create(const sqfs_compressor_config_t *cfg,
			   sqfs_compressor_t **out)
{
	(void)cfg;
	*out = mk(&o_cmp);
	return *out == NULL ? SQFS_ERROR_UNSUPPORTED : 0;
}

sqfs_xattr_reader_t *sqfs_xattr_reader_create(sqfs_u32 flags)
{
	(void)flags;
	return g_the_xattr = mk(&o_xattr);
}

int sqfs_xattr_reader_load(sqfs_xattr_reader_t *xr, const sqfs_super_t *s,
			   sqfs_file_t *f, sqfs_compressor_t *c)
{
	(void)xr; (void)s; (void)f; (void)c;
	return verif_nd_bool("xload_fail") ? SQFS_ERROR_IO : 0;
}

sqfs_id_table_t *sqfs_id_table_create(sqfs_u32 flags)
{
	(void)flags;
	return mk(&o_idtbl);
}

int sqfs_id_table_read(sqfs_id_table_t *t, sqfs_file_t *f,
		       const sqfs_super_t *s, sqfs_compressor_t *c)
{
	(void)t; (void)f; (void)s; (void)c;
	return verif_nd_bool("id_fail") ? SQFS_ERROR_IO : 0;
}

sqfs_dir_reader_t *sqfs_dir_reader_create(const sqfs_super_t *s,
					  sqfs_compressor_t *c,
					  sqfs_file_t *f, sqfs_u32 flags)
{
	(void)s; (void)c; (void)f; (void)flags;
	return mk(&o_dirrd);
}

sqfs_data_reader_t *sqfs_data_reader_create(sqfs_file_t *f, size_t bs,
					    sqfs_compressor_t *c,
					    sqfs_u32 flags)
{
	(void)f; (void)bs; (void)c; (void)flags;
	return g_the_data = mk(&o_data);
}

int sqfs_data_reader_load_fragment_table(sqfs_data_reader_t *d,
					 const sqfs_super_t *s)
{
	(void)d; (void)s;
	return verif_nd_bool("frag_fail") ? SQFS_ERROR_IO : 0;
}

int sqfs_dir_reader_get_full_hierarchy(sqfs_dir_reader_t *rd,
				       const sqfs_id_table_t *idtbl,
				       const char *path, unsigned int flags,
				       sqfs_tree_node_t **out)
{
	(void)rd; (void)idtbl; (void)path; (void)flags;
	if (verif_nd_bool("tree_fail"))
		return SQFS_ERROR_CORRUPTED;
	*out = NODE(0);
	return 0;
}

void sqfs_dir_tree_destroy(sqfs_tree_node_t *root) { (void)root; }

int mkdir_p(const char *path)
{
	g_t_mkdir_p = ++g_seq;
	if (path != g_unpack_root || path == NULL || g_chdir_called)
		g_mkdir_p_bad = true;
	return verif_nd_bool("mkdir_p_fail") ? -1 : 0;
}

int chdir(const char *path)
{
	int r = verif_nd_bool("chdir_fail") ? -1 : 0;

	++g_seq;
	g_chdir_called = true;
	if (path != g_unpack_root || path == NULL || g_t_chdir_ok != 0)
		g_chdir_bad = true;
	if (r == 0)
		g_t_chdir_ok = g_seq;
	return r;
}

int restore_fstree(sqfs_tree_node_t *root, int flags)
{
	g_t_restore = ++g_seq;
	if (root != NODE(0) || flags != g_flags)
		g_args_bad = true;
	return g_r_restore = verif_nd_bool("restore_fail") ? -1 : 0;
}

int fill_unpacked_files(size_t blk_sz, const sqfs_tree_node_t *root,
			sqfs_data_reader_t *data, int flags)
{
	(void)blk_sz;
	g_t_fill = ++g_seq;
	if (root != NODE(0) || flags != g_flags || data != g_the_data)
		g_args_bad = true;
	return g_r_fill = verif_nd_bool("fill_fail") ? -1 : 0;
}

int update_tree_attribs(sqfs_xattr_reader_t *xattr,
			const sqfs_tree_node_t *root, int flags)
{
	g_t_attr = ++g_seq;
	if (root != NODE(0) || flags != g_flags || xattr != g_the_xattr)
		g_args_bad = true;
	return g_r_attr = verif_nd_bool("attr_fail") ? -1 : 0;
}

/* other operations: unreachable with op == OP_UNPACK */
void list_files(const sqfs_tree_node_t *n) { (void)n; VERIF_ASSERT(0, "C06.main.op"); }
int stat_file(const sqfs_tree_node_t *n) { (void)n; VERIF_ASSERT(0, "C06.main.op"); return -1; }
int describe_tree(const sqfs_tree_node_t *r, const char *u) { (void)r; (void)u; VERIF_ASSERT(0, "C06.main.op"); return -1; }
int dump_xattrs(sqfs_xattr_reader_t *x, const sqfs_inode_generic_t *i) { (void)x; (void)i; VERIF_ASSERT(0, "C06.main.op"); return -1; }
int ostream_open_stdout(sqfs_ostream_t **out) { (void)out; VERIF_ASSERT(0, "C06.main.op"); return -1; }
int sqfs_data_reader_create_stream(sqfs_data_reader_t *d, const sqfs_inode_generic_t *i, const char *f, sqfs_istream_t **o) { (void)d; (void)i; (void)f; (void)o; VERIF_ASSERT(0, "C06.main.op"); return -1; }
sqfs_s32 sqfs_istream_splice(sqfs_istream_t *in, sqfs_ostream_t *out, sqfs_u32 size) { (void)in; (void)out; (void)size; VERIF_ASSERT(0, "C06.main.op"); return -1; }

#endif
