/* C06 (bounded lists): the real list_sort / list_merge of rdsquashfs.c on a
 * flat list of K = NNODES-1 nodes (SHAPE 1, 4, 7, 8: K = 1..4), all name
 * bytes symbolic. tree_sort's duplicate test only looks at neighbours, so it
 * is complete exactly if this holds:
 *
 *   C06.lsort.sorted       the result is non-decreasing in strcmp order
 *                          (unsigned bytes) - equal names end up adjacent
 *   C06.lsort.permutation  it holds exactly the K nodes, each once, and is
 *                          NULL-terminated
 */
#include <string.h>
#include <stdlib.h>
#include "C06/tree.h"
#include "C06/env.h"
#include "C06/get_path_msg_contract.h"

#ifdef VERIF_REPLAY
/* native replay only: main() is dead code here but its callees must exist
 * for the link */
#include "C06/main_env.h"
#endif

#define main rdsquashfs_main
#include "bin/rdsquashfs/src/rdsquashfs.c"
#undef main

static int name_cmp(int a, int b)
{
	size_t i;

	for (i = 0; i <= NAMELEN; ++i) {
		sqfs_u8 x = TN(a)->name[i], y = TN(b)->name[i];

		if (x != y)
			return x < y ? -1 : 1;
		if (x == '\0')
			return 0;
	}
	return 0;
}

void harness(void)
{
	const sqfs_tree_node_t *c;
	bool seen[NNODES];
	int j, cnt = 0, prev = -1;

	build_tree();
	for (j = 0; j < NNODES; ++j)
		seen[j] = false;

	c = list_sort(NODE(0)->children);

	for (j = 0; j < NNODES && c != NULL; ++j) {
		int idx = node_index(c);

		VERIF_ASSERT(idx > 0 && !seen[idx], "C06.lsort.permutation");
		if (idx > 0)
			seen[idx] = true;
		if (prev > 0 && idx > 0)
			VERIF_ASSERT(name_cmp(prev, idx) <= 0, "C06.lsort.sorted");
		prev = idx;
		++cnt;
		c = c->next;
	}
	VERIF_ASSERT(c == NULL && cnt == NNODES - 1, "C06.lsort.permutation");
	VERIF_COVER(prev == 1);
	VERIF_COVER(prev == NNODES - 1);
}
