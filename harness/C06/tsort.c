/* C06 (bounded lists): the real tree_sort / list_sort / list_merge of
 * rdsquashfs.c on every tree of shape SHAPE (child lists of 1..4 entries and
 * nested lists), all name bytes symbolic (so equal names, prefixes of each
 * other, bytes >= 0x80 and the empty name are all in the domain).
 *
 *   C06.sort.strict        success => in EVERY directory of the tree the
 *                          children are strictly increasing in strcmp order
 *                          (unsigned bytes): no two entries of one directory
 *                          have the same name, hence no path is created twice
 *                          and a symlink cannot be combined with a file or
 *                          directory of the same name
 *   C06.sort.permutation   success or failure: every child list still holds
 *                          exactly the nodes it held before, each once,
 *                          NULL-terminated; parent links untouched
 *   C06.sort.rejects_dups_only  failure => some directory really has two
 *                          entries with the same name, and it is reported
 *   C06.sort.status_domain
 */
#include <string.h>
#include <stdlib.h>
#include "C06/tree.h"
#include "C06/env.h"
#include "C06/get_path_msg_contract.h"

/* only main() uses them; it is not part of this harness */
#ifdef VERIF_REPLAY
/* native replay only: main() is dead code here but its callees must exist
 * for the link */
#include "C06/main_env.h"
#endif

#define main rdsquashfs_main
#include "bin/rdsquashfs/src/rdsquashfs.c"
#undef main

static int name_cmp(int a, int b)
{
	size_t i;

	for (i = 0; i <= NAMELEN; ++i) {
		sqfs_u8 x = TN(a)->name[i], y = TN(b)->name[i];

		if (x != y)
			return x < y ? -1 : 1;
		if (x == '\0')
			return 0;
	}
	return 0;
}

void harness(void)
{
	bool dup = false;
	int k, j, ret;

	build_tree();

	for (k = 1; k < NNODES; ++k) {
		for (j = k + 1; j < NNODES; ++j) {
			if (g_parent[k] == g_parent[j] && name_cmp(k, j) == 0)
				dup = true;
		}
	}

	ret = tree_sort(NODE(0));

	VERIF_ASSERT(ret == 0 || ret == -1, "C06.sort.status_domain");

	for (k = 0; k < NNODES; ++k) {
		const sqfs_tree_node_t *c = NODE(k)->children;
		bool seen[NNODES];
		int cnt = 0, want = 0, prev = -1;

		for (j = 0; j < NNODES; ++j) {
			seen[j] = false;
			if (g_parent[j] == k)
				++want;
		}
		for (j = 0; j < NNODES && c != NULL; ++j) {
			int idx = node_index(c);

			VERIF_ASSERT(idx > 0 && g_parent[idx] == k &&
				     !seen[idx], "C06.sort.permutation");
			if (idx > 0)
				seen[idx] = true;
			VERIF_ASSERT(c->parent == NODE(k),
				     "C06.sort.permutation");
			if (ret == 0 && prev > 0 && idx > 0) {
				VERIF_ASSERT(name_cmp(prev, idx) < 0,
					     "C06.sort.strict");
			}
			prev = idx;
			++cnt;
			c = c->next;
		}
		VERIF_ASSERT(c == NULL && cnt == want, "C06.sort.permutation");
	}

	if (ret != 0) {
		VERIF_ASSERT(dup, "C06.sort.rejects_dups_only");
		VERIF_ASSERT(g_stderr_msgs > 0, "C06.sort.rejects_dups_only");
	} else {
		VERIF_ASSERT(!dup, "C06.sort.strict");
	}

	VERIF_COVER(ret == 0);
#if NNODES > 2 && SHAPE != 2 && SHAPE != 3
	VERIF_COVER(ret == -1);
	VERIF_COVER(ret == 0 && NODE(g_parent[NNODES - 1])->children == NODE(NNODES - 1));
#endif
}
