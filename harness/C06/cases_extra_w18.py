# Round-2 extension (worker w18): the command line parser of rdsquashfs.
FUNCTIONS = ["process_command_line (bin/rdsquashfs/src/options.c)",
             "get_path (bin/rdsquashfs/src/options.c, inside process_command_line)"]
TRUSTED = [
    "w18_rd_opts: getopt_long contract (harness/C06/w18_optenv.h): delivers the option characters of the tool's "
    "option string or '?', optarg = the option's argument word or NULL, optind nondecreasing and finally the index "
    "of the first non-option word; the option string / long option table themselves are checked by w18_rd_table",
    "w18_rd_opts: exit() does not return; strdup/free allocation contract with failure; canonicalize_name contract "
    "(refuses or rewrites in place, never longer) - the function itself is C18",
]
ASSUMPTIONS = [
    "w18_rd_opts: bounded: at most 3 options per command line (every option at every position), argument words of "
    "at most 3 bytes (arbitrary bytes), at most 5 further words; what the tool prints is not looked at",
]

HARNESSES = [
    dict(name="w18_rd_opts", file="w18_rd_opts.c",
         include_dirs=["bin/rdsquashfs/src"],
         label="bounded(options<=3, argument<=3 bytes)", timeout=900,
         cases=[dict(id="n%d" % n, defines={"NOPT": n}, unwind=7,
                     tier="quick") for n in range(0, 4)]),
    dict(name="w18_rd_table", file="w18_opt_table.c", include_dirs=["bin/rdsquashfs/src"],
         label="proved", timeout=300, unwind=70, native=False,
         cases=[dict(id="all", defines={"TOOL": 1}, tier="quick")]),
]
