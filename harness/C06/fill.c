/* C06 (bounded shapes): the real fill_unpacked_files / gen_file_list_dfs /
 * add_file / fill_files over every tree of shape SHAPE, real
 * is_filename_sane, the path generator under its contract, data reader and
 * streams = contracts (any result at any step), allocation may fail.
 *
 *   C06.fill.path_pre     every path handed to sqfs_ostream_open_file (the
 *                         only path-taking call of this walk) is confined
 *   C06.prefix_is_dir     ... and every proper prefix is the path of a
 *                         directory node
 *   C06.fill.regular_only ... and the node it was generated for is a
 *                         regular-file node (the object restore_fstree
 *                         created O_EXCL under that very path), so the
 *                         O_TRUNC open cannot land on a symlink or device
 *                         made by this run
 *   C06.fill.open_flags   only OVERWRITE / NO_SPARSE are requested
 *   C06.skip_reports      entries with unacceptable names are reported and
 *                         nothing below them is opened
 *   C06.fill.list_cleared the static file list is empty again afterwards
 *                         (the walk can be repeated, no stale path is reused)
 */
#include <string.h>
#include <stdlib.h>
#include "C06/tree.h"
#include "C06/env.h"

size_t g_canon_L;
size_t g_sane_L, g_sane_w;
const char *g_sane_base;

static unsigned g_n_open, g_splices, g_live_streams;
static bool g_nonreg_opened, g_bad_flags;

/* ---- stream / data reader contracts ------------------------------------ */
struct ostrm {
	sqfs_ostream_t base;
};

static void stub_destroy(sqfs_object_t *obj)
{
	VERIF_ASSERT(g_live_streams > 0, "C06.fill.stream_lifetime");
	--g_live_streams;
	free(obj);
}

static int stub_flush(sqfs_ostream_t *strm)
{
	(void)strm;
	return verif_nd_bool("flush_fail") ? SQFS_ERROR_IO : 0;
}

int sqfs_ostream_open_file(sqfs_ostream_t **out, const char *path,
			   sqfs_u32 flags)
{
	int k = env_node_of(path);
	struct ostrm *s;
	bool empty;

	*out = NULL;
	++g_n_open;
	if (k < 0 || !S_ISREG(TI(k)->i.base.mode))
		g_nonreg_opened = true;
	if (flags & ~(sqfs_u32)(SQFS_FILE_OPEN_OVERWRITE |
				SQFS_FILE_OPEN_NO_SPARSE))
		g_bad_flags = true;
	empty = env_log_path(path);
	if (empty || verif_nd_bool("open_fail"))
		return SQFS_ERROR_IO;
	s = malloc(sizeof(*s));
	if (s == NULL)
		return SQFS_ERROR_ALLOC;
	s->base.base.refcount = 1;
	s->base.base.destroy = stub_destroy;
	s->base.base.copy = NULL;
	s->base.append = NULL;
	s->base.flush = stub_flush;
	s->base.get_filename = NULL;
	++g_live_streams;
	*out = &s->base;
	return 0;
}

int sqfs_data_reader_create_stream(sqfs_data_reader_t *data,
				   const sqfs_inode_generic_t *inode,
				   const char *filename, sqfs_istream_t **out)
{
	struct ostrm *s; /* only the object header is ever used */

	(void)data; (void)inode; (void)filename;
	*out = NULL;
	if (verif_nd_bool("stream_fail"))
		return SQFS_ERROR_CORRUPTED;
	s = malloc(sizeof(*s));
	if (s == NULL)
		return SQFS_ERROR_ALLOC;
	s->base.base.refcount = 1;
	s->base.base.destroy = stub_destroy;
	s->base.base.copy = NULL;
	++g_live_streams;
	*out = (sqfs_istream_t *)s;
	return 0;
}

sqfs_s32 sqfs_istream_splice(sqfs_istream_t *in, sqfs_ostream_t *out,
			     sqfs_u32 size)
{
	sqfs_s32 r = (sqfs_s32)verif_nd_int("splice");

	(void)in; (void)out; (void)size;
	/* bound of this harness: at most two data chunks per file */
	if (++g_splices > 2 && r > 0)
		r = 0;
	return r;
}

/* qsort contract: some permutation; with at most two regular files in the
 * shapes this is "swap or not" */
void qsort(void *base, size_t n, size_t size,
	   int (*cmp)(const void *, const void *))
{
	(void)cmp;
	if (n == 2 && verif_nd_bool("qsort_swap")) {
		struct file_ent_image { void *a; const void *b; } t, *e = base;

		VERIF_ASSERT(size == sizeof(t), "C06.fill.qsort_pre");
		t = e[0];
		e[0] = e[1];
		e[1] = t;
	}
	VERIF_ASSERT(n <= 2, "C06.fill.qsort_pre");
}

/* compare_files is only reachable through qsort; its callees: */
int sqfs_inode_get_frag_location(const sqfs_inode_generic_t *i, sqfs_u32 *a, sqfs_u32 *b) { (void)i; *a = 0; *b = 0; return 0; }
int sqfs_inode_get_file_block_start(const sqfs_inode_generic_t *i, sqfs_u64 *l) { (void)i; *l = 0; return 0; }
int sqfs_inode_get_file_size(const sqfs_inode_generic_t *i, sqfs_u64 *s) { (void)i; *s = 0; return 0; }

#include "C06/get_path_contract.h"
#include "lib/util/src/filename_sane.c"
#ifndef C06_CANON_CONTRACT
#include "lib/util/src/canonicalize_name.c"
#endif
#include "bin/rdsquashfs/src/fill_files.c"

void harness(void)
{
	static int data_token;
	int flags = verif_nd_int("flags");
	bool visited[NNODES], good[NNODES];
	unsigned nbad = 0, nreg = 0;
	int k, ret;

	build_tree();

	/* the caller passes super.block_size, a 32 bit field */
	ret = fill_unpacked_files(verif_nd_u32("blk"), NODE(0),
				  (sqfs_data_reader_t *)&data_token, flags);

	ENV_CHECK_LOG("C06.fill.path_pre");
	VERIF_ASSERT(!g_nonreg_opened, "C06.fill.regular_only");
	VERIF_ASSERT(!g_bad_flags, "C06.fill.open_flags");

	visited[0] = true;
	good[0] = is_filename_sane((const char *)TN(0)->name, false);
	if (good[0] && S_ISREG(TI(0)->i.base.mode))
		++nreg;
	for (k = 1; k < NNODES; ++k) {
		int p = g_parent[k];

		good[k] = spec_component_ok((const char *)TN(k)->name) ||
			TN(k)->name[0] == '\0';
		visited[k] = visited[p] && good[p] &&
			S_ISDIR(TI(p)->i.base.mode);
		if (visited[k] && !good[k])
			++nbad;
		if (visited[k] && good[k] && S_ISREG(TI(k)->i.base.mode))
			++nreg;
	}

	VERIF_ASSERT(ret == 0 || ret == -1, "C06.fill.status_domain");
	if (ret == 0) {
		VERIF_ASSERT(g_stderr_msgs >= nbad, "C06.skip_reports");
		VERIF_ASSERT(g_n_open == nreg, "C06.fill.complete");
	} else {
		VERIF_ASSERT(g_stderr_msgs > 0, "C06.skip_reports");
	}
	VERIF_ASSERT(g_n_open <= nreg, "C06.fill.regular_only");
	VERIF_ASSERT(files == NULL && num_files == 0 && max_files == 0,
		     "C06.fill.list_cleared");
	VERIF_ASSERT(g_live_streams == 0, "C06.fill.stream_lifetime");

	VERIF_COVER(ret == -1);
#if NNODES > 1
	VERIF_COVER(ret == 0 && g_n_open > 0);
	VERIF_COVER(ret == 0 && g_used[NNODES - 1]);
	VERIF_COVER(ret == 0 && nbad > 0);
#endif
#if SHAPE >= 4
	VERIF_COVER(ret == 0 && g_n_open == 2);
#endif
}
