/* C06 harness vocabulary: bounded concrete tree shapes over typed node
 * wrappers (sqfs_tree_node_t and sqfs_inode_generic_t end in flexible array
 * members; the payload is placed with offsetof, DESIGN 2.4).
 *
 * Shape is concrete (-DSHAPE), every value is symbolic: all name bytes
 * (NAMELEN bytes + terminator; an embedded NUL gives the shorter names, the
 * empty name included), the complete 16 bit mode of every inode (so a
 * "symlink with children" or a root that is a regular file are part of the
 * domain), inode type, uid/gid, times, device numbers, symlink target bytes.
 *
 *   SHAPE 0  R                      4  R -> {A, B}
 *         1  R -> A                 5  R -> A -> {B, C}
 *         2  R -> A -> B            6  R -> {A -> C, B}
 *         3  R -> A -> B -> C       7  R -> {A, B, C}
 *                                   8  R -> {A, B, C, D}
 */
#ifndef C06_TREE_H
#define C06_TREE_H
#include <sys/stat.h>
#include <stddef.h>
#include "verif.h"
#include "common.h"

#ifndef NAMELEN
#define NAMELEN 2
#endif
#ifndef SHAPE
#define SHAPE 2
#endif

#if SHAPE == 0
#define SHAPE_DEPTH 0
#define NNODES 1
static const int g_parent[1] = { -1 };
#elif SHAPE == 1
#define SHAPE_DEPTH 1
#define NNODES 2
static const int g_parent[2] = { -1, 0 };
#elif SHAPE == 2
#define SHAPE_DEPTH 2
#define NNODES 3
static const int g_parent[3] = { -1, 0, 1 };
#elif SHAPE == 3
#define SHAPE_DEPTH 3
#define NNODES 4
static const int g_parent[4] = { -1, 0, 1, 2 };
#elif SHAPE == 4
#define SHAPE_DEPTH 1
#define NNODES 3
static const int g_parent[3] = { -1, 0, 0 };
#elif SHAPE == 5
#define SHAPE_DEPTH 2
#define NNODES 4
static const int g_parent[4] = { -1, 0, 1, 1 };
#elif SHAPE == 6
#define SHAPE_DEPTH 2
#define NNODES 4
static const int g_parent[4] = { -1, 0, 0, 1 };
#elif SHAPE == 7
#define SHAPE_DEPTH 1
#define NNODES 4
static const int g_parent[4] = { -1, 0, 0, 0 };
#elif SHAPE == 8
#define SHAPE_DEPTH 1
#define NNODES 5
static const int g_parent[5] = { -1, 0, 0, 0, 0 };
#else
#error "unknown SHAPE"
#endif

struct tnode {
	sqfs_tree_node_t n;
	sqfs_u8 name[NAMELEN + 1];
};

struct tinode {
	sqfs_inode_generic_t i;
	sqfs_u32 extra[1]; /* symlink target: up to 3 bytes + NUL */
};

/* One static object per node, reached through a constant pointer table:
 * cbmc 6.11 mis-reads bytes through a char pointer into an ARRAY of these
 * wrappers when both the element index and the offset are symbolic (the
 * flexible array member inside the element confuses the byte extraction);
 * with separate objects the dereference is a case split over objects and is
 * exact. */
static struct tnode g_n0, g_n1, g_n2, g_n3, g_n4;
static struct tinode g_i0, g_i1, g_i2, g_i3, g_i4;
static struct tnode *const g_np[5] = { &g_n0, &g_n1, &g_n2, &g_n3, &g_n4 };
static struct tinode *const g_ip[5] = { &g_i0, &g_i1, &g_i2, &g_i3, &g_i4 };

#define TN(k) (g_np[k])
#define TI(k) (g_ip[k])
#define NODE(k) (&g_np[k]->n)

static int node_depth(int k)
{
	int d = 0;

	while (g_parent[k] >= 0) {
		k = g_parent[k];
		++d;
	}
	return d;
}

/* index of a node pointer in the universe, -1 if foreign */
static int node_index(const sqfs_tree_node_t *n)
{
	int k;

	for (k = 0; k < NNODES; ++k) {
		if (n == NODE(k))
			return k;
	}
	return -1;
}

static void build_tree(void)
{
	int k, j;

	for (k = 0; k < NNODES; ++k) {
		sqfs_inode_generic_t *ino = &TI(k)->i;
		sqfs_tree_node_t *n = NODE(k);
		sqfs_tree_node_t **tail;

		verif_nd_bytes(TN(k)->name, NAMELEN, "name");
		TN(k)->name[NAMELEN] = '\0';

		ino->base.type = verif_nd_u16("type");
		ino->base.mode = verif_nd_u16("mode");
		ino->base.uid_idx = verif_nd_u16("uid_idx");
		ino->base.gid_idx = verif_nd_u16("gid_idx");
		ino->base.mod_time = verif_nd_u32("mtime");
		ino->base.inode_number = verif_nd_u32("ino");
		ino->payload_bytes_available = sizeof(TI(k)->extra);
		ino->payload_bytes_used = sizeof(TI(k)->extra);
		ino->data.dev_ext.nlink = verif_nd_u32("w0");
		ino->data.dev_ext.devno = verif_nd_u32("w1");
		ino->data.dev_ext.xattr_idx = verif_nd_u32("w2");
		verif_nd_bytes(TI(k)->extra, 3, "target");
		((sqfs_u8 *)TI(k)->extra)[3] = '\0';

		n->inode = ino;
		n->uid = verif_nd_u32("uid");
		n->gid = verif_nd_u32("gid");
		n->parent = g_parent[k] >= 0 ? NODE(g_parent[k]) : NULL;
		n->next = NULL;
		n->children = NULL;
	}

	for (k = 0; k < NNODES; ++k) {
		sqfs_tree_node_t **tail = &NODE(k)->children;

		for (j = k + 1; j < NNODES; ++j) {
			if (g_parent[j] == k) {
				*tail = NODE(j);
				tail = &NODE(j)->next;
			}
		}
	}
}
#endif
