# w20: fill_dir (lib/common/src/read_tree.c) delivers every directory entry to
# the tree: nothing is dropped silently, the documented filter flags are exact.
FUNCTIONS = ["fill_dir (entries -> child nodes, filter flags)", "should_skip"]
TRUSTED = [
    "w20_fill_dir_nodrop: directory reader contract (sqfs_dir_reader_read: error | end | a record with the case's directory-entry "
    "type and a symbolic name of 1..2 bytes; get_inode: error | an inode of the same class, basic or extended; open_dir: error | ok); "
    "create_node contract = NULL | fresh node carrying the inode and a copy of the name (real one: alloc_flex + strcpy, not executed)",
]
ASSUMPTIONS = [
    "w20_fill_dir_nodrop: <= 2 entries in the top directory, <= 1 regular file per sub-directory, names <= 2 bytes; the inode the "
    "reader hands out is of the same class as the directory entry's type word. NOTE (observation, not an obligation): fill_dir takes "
    "the filter decision for devices/sockets/fifos/symlinks from the DIRECTORY ENTRY's type word, the library never compares it with "
    "the inode's type; an image whose entry says 'file' while the inode is a device passes SQFS_TREE_NO_DEVICES",
]
_T = {1: "dir", 2: "file", 3: "slink", 4: "bdev", 5: "cdev", 6: "fifo", 7: "sock"}

def _cases():
    out = [dict(id="n0", defines={"FD_N": 0}, tier="quick")]
    for t in sorted(_T):
        out.append(dict(id="n1_%s" % _T[t], defines={"FD_N": 1, "FD_T0": t}, tier="thorough" if t == 5 else "quick"))
    out.append(dict(id="n1_dir_ext", defines={"FD_N": 1, "FD_T0": 1, "FD_EXT": 1}, tier="thorough"))
    out.append(dict(id="n1_bdev_ext", defines={"FD_N": 1, "FD_T0": 4, "FD_EXT": 1}, tier="thorough"))
    out.append(dict(id="n1_dir_sub1", defines={"FD_N": 1, "FD_T0": 1, "FD_SUB": 1}, tier="thorough"))  # 160 s
    for a, b in ((2, 2), (3, 2), (2, 4), (1, 2), (2, 1), (7, 6)):
        out.append(dict(id="n2_%s_%s" % (_T[a], _T[b]), defines={"FD_N": 2, "FD_T0": a, "FD_T1": b},
                        tier="quick" if (a, b) in ((3, 2), (1, 2)) else "thorough"))  # file_file: 150 s
    out.append(dict(id="n2_dir_dir_sub1", defines={"FD_N": 2, "FD_T0": 1, "FD_T1": 1, "FD_SUB": 1}, tier="thorough"))
    return out

HARNESSES = [
    dict(name="w20_fill_dir_nodrop", file="w20_fill_dir_nodrop.c",
         label="bounded(entries per directory <= 2, sub-directory entries <= 1, names <= 2 bytes)",
         pre_instrument_flags=["--replace-calls", "create_node:stub_create_node"],
         fp={"destroy": "fd_destroy", "copy": "fd_copy"}, native=False, unwind=6, timeout=600,
         unwindset=["fill_dir.0:4", "fill_dir.1:4", "fill_dir:1", "would_be_own_parent.0:4"],
         nochecks=["--pointer-overflow-check"], solver="cadical",
         cases=_cases()),
]
