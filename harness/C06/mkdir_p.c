/* C06 (bounded): the real mkdir_p (non-Windows branch) on every byte string
 * of length LEN (embedded NULs give the shorter ones). main() calls it on
 * nothing but the --unpack-root option string (C06.chdir_first), so what it
 * may create is R and the missing ancestors of R, nothing else:
 *
 *   C06.mkdir_p.prefix_of_root  every mkdir argument is a non-empty prefix
 *       of the given path (after its redundant leading slashes) that ends
 *       where the path has a '/' or ends; prefixes come in increasing length
 *   C06.mkdir_p.status          -1 iff a mkdir failed with errno != EEXIST
 *                               (and nothing is attempted after that)
 */
#include <string.h>
#include <stdlib.h>
#include <errno.h>
#include <stdio.h>
#include <sys/stat.h>
#include "verif.h"

#ifndef LEN
#define LEN 4
#endif

static char g_path[LEN + 1];
static size_t g_skip;          /* redundant leading slashes */
static size_t g_last_len;
static unsigned g_calls;
static bool g_hard_fail, g_bad, g_after_fail;
static unsigned g_msgs;

#ifdef VERIF_REPLAY
#define mkdir c06_mkdir
#define fprintf c06_fprintf
#define strerror c06_strerror
#endif

int mkdir(const char *p, mode_t mode)
{
	size_t n = 0, i;

	(void)mode;
	if (g_hard_fail)
		g_after_fail = true;
	++g_calls;
	while (n <= LEN && p[n] != '\0')
		++n;
	if (n == 0 || n > LEN - g_skip || n <= g_last_len)
		g_bad = true;
	else {
		for (i = 0; i < n; ++i) {
			if (p[i] != g_path[g_skip + i])
				g_bad = true;
		}
		if (g_path[g_skip + n] != '/' && g_path[g_skip + n] != '\0')
			g_bad = true;
	}
	g_last_len = n;
	if (verif_nd_bool("mkdir_ok"))
		return 0;
	errno = verif_nd_int("errno");
	if (errno != EEXIST)
		g_hard_fail = true;
	return -1;
}

int fprintf(FILE *fp, const char *fmt, ...)
{
	(void)fp; (void)fmt;
	++g_msgs;
	return 0;
}

char *strerror(int e)
{
	static char m[2] = "E";
	(void)e;
	return m;
}

#include "lib/util/src/mkdir_p.c"

void harness(void)
{
	int ret;

	verif_nd_bytes(g_path, LEN, "path");
	g_path[LEN] = '\0';
	while (g_path[g_skip] == '/' && g_path[g_skip + 1] == '/')
		++g_skip;

	ret = mkdir_p(g_path);

	VERIF_ASSERT(!g_bad, "C06.mkdir_p.prefix_of_root");
	VERIF_ASSERT(ret == 0 || ret == -1, "C06.mkdir_p.status");
	VERIF_ASSERT((ret == -1) == g_hard_fail, "C06.mkdir_p.status");
	VERIF_ASSERT(!g_after_fail, "C06.mkdir_p.status");
	VERIF_ASSERT(ret == 0 || g_msgs > 0, "C06.mkdir_p.status");
	VERIF_COVER(ret == 0 && g_calls >= 2);
	VERIF_COVER(ret == -1);
	VERIF_COVER(ret == 0 && g_calls == 0);
	VERIF_COVER(ret == 0 && g_skip > 0 && g_calls > 0);
}
