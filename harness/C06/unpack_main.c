/* C06: the real main() of rdsquashfs.c, OP_UNPACK branch, every callee
 * except tree_sort replaced by a contract that may fail (main is loop-free).
 * The tree is R -> {A, B} with concrete names; -DDUP makes the two names
 * equal so that the real tree_sort refuses it.
 *
 *   C06.chdir_first      with --unpack-root R: every walk (restore_fstree,
 *                        fill_unpacked_files, update_tree_attribs) is
 *                        preceded by a successful chdir(R) with exactly the
 *                        option string; mkdir_p is called on nothing but R
 *                        and before that chdir; a failing mkdir_p or chdir
 *                        means no walk at all
 *   C06.main.sort_first  no walk starts unless tree_sort accepted the tree
 *                        (duplicate names => no walk, failure status)
 *   C06.main.walk_order  create, then fill, then attributes; all three on
 *                        the tree that was read, with the option flags; a
 *                        failing walk stops the sequence
 *   C06.main.status      EXIT_SUCCESS only if all three walks succeeded
 */
#include <string.h>
#include <stdlib.h>
#define SHAPE 4
#undef NAMELEN
#define NAMELEN 2
#include "C06/tree.h"
#include "C06/env.h"
#include "C06/get_path_msg_contract.h"

#include "C06/main_env.h"

#define main rdsquashfs_main
#include "bin/rdsquashfs/src/rdsquashfs.c"
#undef main

void harness(void)
{
	static char *argv[2] = { g_image_arg, NULL };
	bool walked;
	int status;

	build_tree();
	/* concrete names: the order/duplicate decision of the real tree_sort
	 * is the only thing that matters here */
	TN(0)->name[0] = '\0';
	TN(1)->name[0] = 'b'; TN(1)->name[1] = '\0';
#ifdef DUP
	TN(2)->name[0] = 'b'; TN(2)->name[1] = '\0';
#else
	TN(2)->name[0] = 'a'; TN(2)->name[1] = '\0';
#endif

	status = rdsquashfs_main(1, argv);

	walked = g_t_restore != 0 || g_t_fill != 0 || g_t_attr != 0;

	VERIF_ASSERT(status == EXIT_SUCCESS || status == EXIT_FAILURE,
		     "C06.main.status");
#ifdef DUP
	VERIF_ASSERT(!walked && status == EXIT_FAILURE, "C06.main.sort_first");
	VERIF_ASSERT(g_t_mkdir_p == 0 && !g_chdir_called, "C06.main.sort_first");
#else
	if (walked) {
		/* the real tree_sort ran before: A ("b") now follows B ("a") */
		VERIF_ASSERT(NODE(0)->children == NODE(2) &&
			     NODE(2)->next == NODE(1) && NODE(1)->next == NULL,
			     "C06.main.sort_first");
	}
#endif
	VERIF_ASSERT(!g_mkdir_p_bad && !g_chdir_bad, "C06.chdir_first");
	if (g_unpack_root != NULL) {
		if (walked) {
			VERIF_ASSERT(g_t_mkdir_p != 0 && g_t_chdir_ok != 0 &&
				     g_t_mkdir_p < g_t_chdir_ok,
				     "C06.chdir_first");
			VERIF_ASSERT(g_t_restore == 0 ||
				     g_t_chdir_ok < g_t_restore,
				     "C06.chdir_first");
			VERIF_ASSERT(g_t_fill == 0 || g_t_chdir_ok < g_t_fill,
				     "C06.chdir_first");
			VERIF_ASSERT(g_t_attr == 0 || g_t_chdir_ok < g_t_attr,
				     "C06.chdir_first");
		}
	} else {
		VERIF_ASSERT(g_t_mkdir_p == 0 && !g_chdir_called,
			     "C06.chdir_first");
	}
	VERIF_ASSERT(!g_args_bad, "C06.main.walk_order");
	VERIF_ASSERT(g_t_fill == 0 ||
		     (g_t_restore != 0 && g_t_restore < g_t_fill &&
		      g_r_restore == 0), "C06.main.walk_order");
	VERIF_ASSERT(g_t_attr == 0 ||
		     (g_t_fill != 0 && g_t_fill < g_t_attr && g_r_fill == 0),
		     "C06.main.walk_order");
	VERIF_ASSERT(status != EXIT_SUCCESS ||
		     (g_t_attr != 0 && g_r_restore == 0 && g_r_fill == 0 &&
		      g_r_attr == 0), "C06.main.status");

#ifndef DUP
	VERIF_COVER(status == EXIT_SUCCESS && g_unpack_root != NULL);
	VERIF_COVER(status == EXIT_SUCCESS && g_unpack_root == NULL);
	VERIF_COVER(status == EXIT_FAILURE && g_t_fill != 0);
	VERIF_COVER(g_chdir_called && g_t_chdir_ok == 0);
#else
	VERIF_COVER(status == EXIT_FAILURE);
#endif
}
