/*
 * w18_optenv.h - environment contracts for the command line parsers of the
 * four tools (bin/<tool>/src/options.c). Used by harness/C06/w18_rd_opts.c,
 * harness/C17/w18_mkfs_opts*.c, harness/C17/w18_t2s_opts*.c and
 * harness/C04/w18_s2t_opts.c.
 *
 * The including harness defines, BEFORE including this header,
 *   NOPT             number of options getopt_long delivers (concrete, 0..3)
 *   W18_IS_OPT(c)    c is a value getopt_long may return for this tool (the
 *                    characters of the tool's option string, plus '?')
 *   W18_HAS_ARG(c)   the option takes an argument (optarg is set)
 *   W18_OPT_ARG_OK(c, ai)  optional: restricts which argument object an
 *                    option may get (numeric options get a number text)
 * and, after it, a function  static void w18_on_exit(int status)  holding
 * the obligations of a process exit.
 *
 * getopt_long   contract stub: delivers NOPT options, then -1. The option
 *               character at every position is symbolic within W18_IS_OPT;
 *               optarg is the position's own small symbolic string object
 *               (W18_ARGLEN arbitrary bytes, NUL terminated; harnesses that
 *               need a number overwrite it with a concrete text) or NULL for
 *               a flag; optind is nondecreasing, its final value is the index
 *               of the first non-option argument, <= argc.
 * exit          records the status, runs w18_on_exit() and stops the path.
 * strdup/strndup/free
 *               allocation contract with failure: one typed fixed-size block
 *               per "slot" (slot 0 = before the first getopt call, k+1 =
 *               while option k is processed, NOPT+1 = after getopt returned
 *               -1); every allocation may fail; free() checks that the block
 *               is live (no double free, no foreign pointer).
 * printers      fputs/fprintf/printf/perror/print_version do nothing.
 *
 * The position (g_pos) is concrete in every cbmc path, so the slot of a block
 * and the argument object of an option are concrete objects; what is symbolic
 * is every VALUE: the option characters, the argument bytes, optind/argc, the
 * allocation outcomes, the verdict of canonicalize_name.
 */
#ifndef W18_OPTENV_H
#define W18_OPTENV_H

#include <stdlib.h>
#include <string.h>
#include <stdio.h>
#include <getopt.h>
#include <setjmp.h>
#include "verif.h"

#ifndef NOPT
#error "NOPT must be defined"
#endif
#if NOPT > 3
#error "NOPT <= 3"
#endif
#ifndef W18_ARGLEN
#define W18_ARGLEN 3
#endif
#define W18_BUFSZ (W18_ARGLEN + 1)
#define W18_NSLOT (NOPT + 2)
#define W18_ARGV_MAX 6

/* ------------------------------------------------------------ ghost state */
static int g_pos;			/* getopt_long calls so far */
static int g_optc[4];			/* delivered option characters */
static int g_optarg_idx[4];		/* which argument object it was given */
/* scripted mode (relational harnesses): the sequence is fixed by the harness */
static bool g_script_on;
static int g_script_c[4], g_script_arg[4];

/* one argument object per position */
static char g_arg0[W18_BUFSZ], g_arg1[W18_BUFSZ], g_arg2[W18_BUFSZ];
static char *const g_argtab[3] = { g_arg0, g_arg1, g_arg2 };

/* argv: program name and up to W18_ARGV_MAX-1 words; the words behind the
 * final optind are the non-option arguments */
static char g_av0[4] = "prg", g_av1[4] = "w1", g_av2[4] = "w2",
	    g_av3[4] = "w3", g_av4[4] = "w4", g_av5[4] = "w5";
static char *g_argv[W18_ARGV_MAX + 1];
static int g_argc;
static int g_optind_now;
static int g_optind_final;

/* exit */
static bool g_exited;
static int g_exit_status;
#ifdef VERIF_REPLAY
static jmp_buf g_exit_jmp;
#endif

/* allocation pool */
static char g_pb0[W18_BUFSZ], g_pb1[W18_BUFSZ], g_pb2[W18_BUFSZ],
	    g_pb3[W18_BUFSZ], g_pb4[W18_BUFSZ];
static char *const g_pool[5] = { g_pb0, g_pb1, g_pb2, g_pb3, g_pb4 };
static bool g_pool_used[5], g_pool_live[5], g_pool_failed[5];
static const char *g_pool_src[5];
static unsigned g_alloc_faults;
static bool g_free_bad;

static void w18_env_init(void)
{
	int i;

	g_pos = 0;
	g_exited = false;
	g_exit_status = 0;
	g_alloc_faults = 0;
	g_free_bad = false;
	g_script_on = false;
	for (i = 0; i < 4; ++i) {
		g_optc[i] = 0;
		g_optarg_idx[i] = i < 3 ? i : 0;
	}
	for (i = 0; i < 5; ++i) {
		g_pool_used[i] = g_pool_live[i] = g_pool_failed[i] = false;
		g_pool_src[i] = NULL;
	}
	g_argv[0] = g_av0; g_argv[1] = g_av1; g_argv[2] = g_av2;
	g_argv[3] = g_av3; g_argv[4] = g_av4; g_argv[5] = g_av5;
	g_argv[6] = NULL;

	g_argc = verif_nd_int("argc");
	VERIF_ASSUME(g_argc >= 1 && g_argc <= W18_ARGV_MAX);
	g_argv[g_argc] = NULL;
	g_optind_now = 1;
	g_optind_final = verif_nd_int("optind.final");
	VERIF_ASSUME(g_optind_final >= 1 && g_optind_final <= g_argc);
	optind = 1;
	optarg = NULL;
}

static void w18_put(char *p, uint8_t b)
{
	*(uint8_t *)p = b;
}

/* second run of a relational harness: same argv/argc/optind, fresh position
 * and pool */
static void w18_env_restart(void)
{
	int i;

	g_pos = 0;
	g_exited = false;
	for (i = 0; i < 5; ++i) {
		g_pool_used[i] = g_pool_live[i] = g_pool_failed[i] = false;
		g_pool_src[i] = NULL;
	}
	g_optind_now = 1;
	optind = 1;
	optarg = NULL;
}

/* fill the argument objects with arbitrary small strings */
static void w18_args_symbolic(void)
{
	int k, i;

	for (k = 0; k < 3; ++k) {
		for (i = 0; i < W18_ARGLEN; ++i)
			w18_put(&g_argtab[k][i], verif_nd_u8("arg"));
		g_argtab[k][W18_ARGLEN] = '\0';
	}
}

static int w18_slot(void)
{
	return g_pos <= NOPT + 1 ? g_pos : NOPT + 1;
}

static bool w18_streq(const char *a, const char *b)
{
	int i;

	for (i = 0; i < W18_BUFSZ; ++i) {
		if (a[i] != b[i])
			return false;
		if (a[i] == '\0')
			return true;
	}
	return false;
}

/* ------------------------------------------------------------ getopt_long */
static int w18_getopt_long(int argc, char *const *argv, const char *so,
			   const struct option *lo, int *idx)
{
	int c, k = g_pos;

	VERIF_ASSERT(argc == g_argc && argv == (char *const *)g_argv &&
		     so != NULL && lo != NULL, "w18.env.getopt.pre");
	(void)idx;
	VERIF_ASSERT(k <= NOPT, "w18.env.getopt.called_after_end");
	g_pos = k + 1;

	if (k >= NOPT) {
		optarg = NULL;
		optind = g_optind_final;
		return -1;
	}

	if (g_script_on) {
		c = g_script_c[k];
		g_optarg_idx[k] = g_script_arg[k];
	} else {
		c = verif_nd_u8("opt");
		g_optarg_idx[k] = k;
	}
	VERIF_ASSUME(W18_IS_OPT(c));
#ifdef W18_OPT_ARG_OK
	VERIF_ASSUME(W18_OPT_ARG_OK(c, g_optarg_idx[k]));
#endif
	g_optc[k] = c;
	optarg = W18_HAS_ARG(c) ? g_argtab[g_optarg_idx[k]] : NULL;
	/* optind never decreases and never passes its final value */
	{
		int step = verif_nd_u8("optind.step");
		VERIF_ASSUME(step <= 2 && g_optind_now + step <= g_optind_final);
		g_optind_now += step;
		optind = g_optind_now;
	}
	return c;
}

/* ------------------------------------------------------------------- exit */
static void w18_on_exit(int status);

static void w18_exit(int status)
{
	g_exited = true;
	g_exit_status = status;
	w18_on_exit(status);
#ifdef VERIF_REPLAY
	longjmp(g_exit_jmp, 1);
#else
	VERIF_ASSUME(0);
#endif
}

/* ------------------------------------------------------------- allocation */
static char *w18_alloc_slot(const char *src, const char *tag)
{
	int s = w18_slot();

	VERIF_ASSERT(s < W18_NSLOT && !g_pool_used[s], "w18.env.pool.one_block_per_slot");
	if (!g_script_on && verif_nd_bool(tag)) {
		g_pool_failed[s] = true;
		g_alloc_faults += 1;
		return NULL;
	}
	g_pool_used[s] = true;
	g_pool_live[s] = true;
	g_pool_src[s] = src;
	return g_pool[s];
}

static char *w18_strdup(const char *s)
{
	char *p;
	int i;

	VERIF_ASSERT(s != NULL, "w18.env.strdup.pre_nonnull");
	p = w18_alloc_slot(s, "strdup.fail");
	if (p == NULL)
		return NULL;
	for (i = 0; i < W18_BUFSZ; ++i) {
		p[i] = s[i];
		if (s[i] == '\0')
			break;
	}
	VERIF_ASSERT(i < W18_BUFSZ, "w18.env.strdup.fits");
	return p;
}

static char *w18_strndup(const char *s, size_t n)
{
	char *p;
	size_t i;

	VERIF_ASSERT(s != NULL, "w18.env.strndup.pre_nonnull");
	p = w18_alloc_slot(s, "strndup.fail");
	if (p == NULL)
		return NULL;
	for (i = 0; i < W18_ARGLEN && i < n; ++i) {
		p[i] = s[i];
		if (s[i] == '\0')
			break;
	}
	VERIF_ASSERT(i == n || s[i] == '\0', "w18.env.strndup.fits");
	p[i] = '\0';
	return p;
}

static int w18_pool_index(const void *p)
{
	int i;

	for (i = 0; i < 5; ++i) {
		if (p == (const void *)g_pool[i])
			return i;
	}
	return -1;
}

static void w18_free(void *p)
{
	int i;

	if (p == NULL)
		return;
	i = w18_pool_index(p);
	if (i < 0 || !g_pool_live[i]) {
		g_free_bad = true;
		VERIF_ASSERT(0, "C13.opts.free_valid");
		return;
	}
	g_pool_live[i] = false;
}

/* --------------------------------------------------------------- printers */
#ifndef VERIF_REPLAY
int fputs(const char *s, FILE *stream) { (void)s; (void)stream; return 0; }
int fputc(int c, FILE *stream) { (void)stream; return c; }
int fprintf(FILE *stream, const char *format, ...) { (void)stream; (void)format; return 0; }
int printf(const char *format, ...) { (void)format; return 0; }
void perror(const char *s) { (void)s; }
#endif
void print_version(const char *progname) { (void)progname; }

#define getopt_long w18_getopt_long
#define exit w18_exit
#define strdup w18_strdup
#define strndup w18_strndup
#define free w18_free

/* run `call` up to its return or its exit() */
#ifdef VERIF_REPLAY
#define W18_RUN(call) do { if (setjmp(g_exit_jmp) == 0) { call; } } while (0)
#else
#define W18_RUN(call) do { call; } while (0)
#endif

#endif /* W18_OPTENV_H */
