/* w18: the option tables handed to getopt_long by the four tools
 * (bin/<tool>/src/options.c: short_opts, long_opts) against the options the
 * manual pages document. The parser harnesses (w18_*_opts) take "option c
 * carries an argument" from the manual page; this harness closes the gap to
 * the tables getopt_long really works from. Everything is concrete.
 *   <P>.table   every documented option has a long_opts entry with its name,
 *        required_argument / no_argument as documented, flag == NULL and
 *        val == its short option character, and the short option string
 *        holds that character followed by exactly one ':' iff it takes an
 *        argument
 * -DTOOL=1 rdsquashfs, 2 gensquashfs, 3 tar2sqfs, 4 sqfs2tar.
 */
#include <string.h>
#include <getopt.h>
#include "verif.h"

struct w18_doc { const char *name; int val; bool has_arg; };

#if TOOL == 1
#include "bin/rdsquashfs/src/options.c"
#define TABLE_OBLIGATION "C06.rd_opts.table"
static const struct w18_doc doc[] = {
	{ "list", 'l', true }, { "cat", 'c', true }, { "xattr", 'x', true },
	{ "unpack-path", 'u', true }, { "describe", 'd', false },
	{ "stat", 's', true }, { "unpack-root", 'p', true },
	{ "no-dev", 'D', false }, { "no-sock", 'S', false },
	{ "no-fifo", 'F', false }, { "no-slink", 'L', false },
	{ "no-empty-dir", 'E', false }, { "no-sparse", 'Z', false },
	{ "set-xattr", 'X', false }, { "set-times", 'T', false },
	{ "chmod", 'C', false }, { "chown", 'O', false },
	{ "quiet", 'q', false }, { "help", 'h', false },
	{ "version", 'V', false },
};
#elif TOOL == 2
#include "bin/gensquashfs/src/options.c"
#define TABLE_OBLIGATION "C17.mkfs_opts.table"
static const struct w18_doc doc[] = {
	{ "pack-file", 'F', true }, { "pack-dir", 'D', true },
	{ "sort-file", 'S', true }, { "compressor", 'c', true },
	{ "comp-extra", 'X', true }, { "num-jobs", 'j', true },
	{ "queue-backlog", 'Q', true }, { "block-size", 'b', true },
	{ "dev-block-size", 'B', true }, { "keep-time", 'k', false },
	{ "one-file-system", 'o', false }, { "defaults", 'd', true },
	{ "set-uid", 'u', true }, { "set-gid", 'g', true },
	{ "all-root", 1, false }, { "xattr-file", 'A', true },
	{ "exportable", 'e', false }, { "no-tail-packing", 'T', false },
	{ "no-hard-links", 'H', false }, { "force", 'f', false },
	{ "quiet", 'q', false }, { "help", 'h', false },
	{ "version", 'V', false },
};
#elif TOOL == 3
#include "bin/tar2sqfs/src/options.c"
#define TABLE_OBLIGATION "C17.t2s_opts.table"
static const struct w18_doc doc[] = {
	{ "root-becomes", 'r', true }, { "no-symlink-retarget", 'S', false },
	{ "compressor", 'c', true }, { "comp-extra", 'X', true },
	{ "num-jobs", 'j', true }, { "queue-backlog", 'Q', true },
	{ "block-size", 'b', true }, { "dev-block-size", 'B', true },
	{ "defaults", 'd', true }, { "no-keep-time", 'k', false },
	{ "no-xattr", 'x', false }, { "no-skip", 's', false },
	{ "exportable", 'e', false }, { "no-tail-packing", 'T', false },
	{ "force", 'f', false }, { "quiet", 'q', false },
	{ "exclude-dir", 'E', true }, { "help", 'h', false },
	{ "version", 'V', false },
};
#else
#include "bin/sqfs2tar/src/options.c"
#define TABLE_OBLIGATION "C04.s2t_opts.table"
static const struct w18_doc doc[] = {
	{ "compressor", 'c', true }, { "root-becomes", 'r', true },
	{ "subdir", 'd', true }, { "keep-as-dir", 'k', false },
	{ "no-xattr", 'X', false }, { "no-hard-links", 'L', false },
	{ "no-skip", 's', false }, { "help", 'h', false },
	{ "version", 'V', false },
};
#endif

#define NDOC ((int)(sizeof(doc) / sizeof(doc[0])))

static bool same(const char *a, const char *b)
{
	int i;

	for (i = 0; i < 32; ++i) {
		if (a[i] != b[i])
			return false;
		if (a[i] == '\0')
			return true;
	}
	return false;
}

void harness(void)
{
	int d, i, found, hits;

	for (d = 0; d < NDOC; ++d) {
		found = -1;
		for (i = 0; i < 40 && long_opts[i].name != NULL; ++i) {
			if (same(long_opts[i].name, doc[d].name)) {
				VERIF_ASSERT(found < 0, TABLE_OBLIGATION);
				found = i;
			}
		}
		VERIF_ASSERT(found >= 0, TABLE_OBLIGATION);
		if (found >= 0) {
			VERIF_ASSERT(long_opts[found].has_arg ==
				     (doc[d].has_arg ? required_argument : no_argument) &&
				     long_opts[found].flag == NULL &&
				     long_opts[found].val == doc[d].val,
				     TABLE_OBLIGATION);
		}
		if (doc[d].val < ' ')
			continue;	/* long option only */
		hits = 0;
		for (i = 0; i < 64 && short_opts[i] != '\0'; ++i) {
			if (short_opts[i] != doc[d].val)
				continue;
			hits += 1;
			VERIF_ASSERT((short_opts[i + 1] == ':') == doc[d].has_arg,
				     TABLE_OBLIGATION);
			if (doc[d].has_arg && short_opts[i + 1] == ':')
				VERIF_ASSERT(short_opts[i + 2] != ':', TABLE_OBLIGATION);
		}
		VERIF_ASSERT(hits >= 1, TABLE_OBLIGATION);
	}
	VERIF_COVER(d == NDOC);
}
