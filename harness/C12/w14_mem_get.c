/* C12 (w14): mem_get_buffered_data (lib/common/src/stream.c) - loop-free,
 * full domain: any state within MEM_INV (w14_mem_env.h), any `want`.
 *
 *  C12.mem_get.view        *out == buffer, *size == visible', MEM_INV'; the
 *                          window never exceeds the data nor the buffer
 *  C12.mem_get.stream      out[k] is stream byte offset + k for all k < size
 *                          (witness placement); offset unchanged: nothing is
 *                          consumed by looking
 *  C12.mem_get.enough      ret == 0 ==> size >= min(want, bufsz) or the
 *                          window reaches the end of the data
 *  C12.mem_get.progress    ret == 0 ==> size >= 1
 *  C12.mem_get.eof         ret > 0 <==> nothing is left (offset == size of the
 *                          data); then *size == 0; ret is 0 or 1, never < 0
 *  C12.mem_get.lazy        no copy if enough bytes are visible already
 *  C12.mem_get.copy_in_bounds / copy_args / no_clobber
 *                          the memcpy is inside buffer and data for every
 *                          (bufsz, size, offset, visible, want) and appends
 *                          exactly the stream bytes behind the visible ones
 *  C12.mem_get.frame       buffer, bufsz, data, size untouched
 */
#define C12_FN "mem_get"
#include "C12/w14_mem_env.h"

void harness(void)
{
	size_t want = verif_nd_size("want"), wantc, have, size = 0;
	const sqfs_u8 *out = NULL;
	bool enough0;
	int ret;

	mem_env_init();
	have = g_size - g_off0;
	if (have > g_bufsz)
		have = g_bufsz;
	wantc = want > have ? have : want;
	enough0 = g_vis0 != 0 && g_vis0 >= wantc;
	g_exp_dst = g_vis0;
	g_exp_src = g_off0 + g_vis0;
	g_exp_n = have - g_vis0;
	VERIF_COVER(g_vis0 > 0 && g_vis0 < have && want > g_vis0);

	ret = mem_get_buffered_data((sqfs_istream_t *)&g_m, &out, &size, want);

	VERIF_ASSERT(ret == 0 || ret == 1, "C12.mem_get.eof");
	VERIF_ASSERT((ret > 0) == (g_off0 == g_size), "C12.mem_get.eof");
	VERIF_ASSERT(ret == 0 || size == 0, "C12.mem_get.eof");
	VERIF_ASSERT(MEM_INV(g_m) && out == g_buf && size == g_m.visible,
		     "C12.mem_get.view");
	VERIF_ASSERT(g_m.offset == g_off0 && g_m.visible >= g_vis0,
		     "C12.mem_get.stream");
	VERIF_ASSERT(g_wat == MEM_WAT(g_m), "C12.mem_get.stream");
	if (enough0)
		VERIF_ASSERT(g_copies == 0 && g_m.visible == g_vis0,
			     "C12.mem_get.lazy");
	else
		VERIF_ASSERT(g_copies == 1 && g_m.visible == have,
			     "C12.mem_get.lazy");
	if (ret == 0) {
		VERIF_ASSERT(size >= (want > g_bufsz ? g_bufsz : want) ||
			     g_off0 + size == g_size, "C12.mem_get.enough");
		VERIF_ASSERT(size >= 1, "C12.mem_get.progress");
	}
	VERIF_ASSERT(MEM_FRAME_OK(g_m) && g_moves == 0 && g_sets == 0,
		     "C12.mem_get.frame");

	VERIF_COVER(ret == 0 && !enough0 && size == g_bufsz && g_vis0 > 0);
	VERIF_COVER(ret == 0 && enough0 && want > 0 && size < have);
	VERIF_COVER(ret == 0 && want == 0 && g_copies == 1);
	VERIF_COVER(ret == 0 && size < want && g_off0 + size == g_size);
	VERIF_COVER(ret == 1);
	VERIF_COVER(ret == 0 && g_wat != MEM_NOWHERE && g_wat >= g_vis0);
	VERIF_COVER(ret == 0 && g_wat != MEM_NOWHERE && g_wat < g_vis0 && g_copies == 1);
}
