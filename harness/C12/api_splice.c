/* C12: sqfs_istream_splice (lib/sqfs/src/io/stream_api.c) - bytes appended
 * to `out` = bytes advanced on `in` = min(n, bytes until EOF), same bytes in
 * the same order, whatever chunking `in` chooses; `out->append` may fail at
 * any call.
 *
 *  C12.splice.append_args   every append is (out, view, 1..view size) and is
 *                           issued at stream position == bytes appended so far
 *  C12.splice.conserve      at exit appended == consumed (also on failure)
 *  C12.splice.count         ret >= 0 ==> ret == min(n, 2^31-1, bytes to EOF)
 *  C12.splice.content       stream byte k (k < appended) was appended exactly
 *                           once, straight from the view
 *  C12.splice.fail          ret < 0 <=> in or out failed; ret is that code
 */
#define C12_FN "splice"
#include "C12/c12_istream_env.h"

sqfs_ostream_t g_out_obj;
uint64_t g_app;        /* bytes appended so far */
bool g_out_err;
int g_out_errcode;
uint32_t g_n;
unsigned g_wcount;

#include "lib/sqfs/src/io/stream_api.c"

static int c12_out_append(sqfs_ostream_t *strm, const void *data, size_t size)
{
	VERIF_ASSERT(strm == &g_out_obj && (const sqfs_u8 *)data == g_view &&
		     size >= 1 && size <= g_avail && g_app == g_cons &&
		     size <= g_n - g_app, "C12.splice.append_args");
	VERIF_ASSERT(!g_out_err, "C12.splice.stops_on_error");
	VERIF_ASSERT(VERIF_R_OK(data, size), "C12.splice.append_bounds");
	if (verif_nd_bool("append.fails")) {
		g_out_errcode = verif_nd_int("append.err");
		VERIF_ASSUME(g_out_errcode < 0);
		g_out_err = true;
		return g_out_errcode;
	}
	if (g_w >= g_app && g_w - g_app < size)
		g_wcount++;
	g_app += size;
	return 0;
}

void harness(void)
{
	uint32_t n = verif_nd_u32("n");
	uint64_t expect;
	sqfs_s32 ret;

	c12_istream_env_init();
	g_out_obj.append = c12_out_append;
	g_app = 0;
	g_out_err = false;
	g_out_errcode = 0;
	g_wcount = 0;
	g_n = n > 0x7FFFFFFF ? 0x7FFFFFFF : n;
	expect = g_rem < g_n ? g_rem : g_n;
	VERIF_COVER(n > 4 && g_rem > 4);

	ret = sqfs_istream_splice(g_in, &g_out_obj, n);

	VERIF_ASSERT(g_app == g_cons, "C12.splice.conserve");
	VERIF_ASSERT((ret < 0) == (g_err || g_out_err), "C12.splice.fail");
	if (ret < 0)
		VERIF_ASSERT(ret == (g_err ? g_errcode : g_out_errcode),
			     "C12.splice.fail");
	else
		VERIF_ASSERT((uint64_t)ret == expect && g_app == expect,
			     "C12.splice.count");
	VERIF_ASSERT(g_wcount == (g_w < g_app ? 1 : 0), "C12.splice.content");

	VERIF_COVER(ret > 4 && (uint32_t)ret == n && g_gets >= 3);
	VERIF_COVER(ret > 4 && (uint32_t)ret < n && g_eofseen && g_gets >= 3);
	VERIF_COVER(ret == 0x7FFFFFFF);
	VERIF_COVER(ret < 0 && g_out_err && g_app > 0);
	VERIF_COVER(ret < 0 && g_err && g_app > 0);
	VERIF_COVER(ret > 0 && g_w < g_app);
}
