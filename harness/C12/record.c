/* C12: record_to_memory (lib/tar/src/record_to_memory.c) - loop-free; its two
 * callees are replaced by the contracts proved for them in api_read.c /
 * api_skip.c (the result of each is a function of the stream and the request
 * only - no chunking is visible any more at this level).
 *
 *  requires  size < 2^47-1 (CBMC object limit; callers pass <= 65536)
 *  C12.record.read_args   sqfs_istream_read(fp, buffer, size) on a buffer of
 *                         size+1 bytes
 *  C12.record.ok          result != NULL <=> allocation succeeded, the stream
 *                         had >= size bytes (size <= 2^31-1), nothing failed
 *  C12.record.content     then buffer[k] = stream byte k (k < size),
 *                         buffer[size] = 0
 *  C12.record.padding     then the stream is advanced to the next multiple
 *                         of 512 (or to EOF): skip((512 - size%512) % 512)
 *  C12.record.no_leak     result == NULL ==> buffer released (--memory-leak-check)
 */
#include <stdlib.h>
#include <stdio.h>
#include "verif.h"
#include "sqfs/io.h"
#include "sqfs/error.h"

sqfs_istream_t g_in_obj;
uint64_t g_rem;       /* bytes until EOF */
uint64_t g_cons;      /* consumed */
bool g_err;
unsigned g_reads, g_skips;
char *g_rd_buf;
size_t g_rd_size;
uint64_t g_skip_n;
uint64_t g_w;         /* witness stream position */
char *g_wdst;         /* where that byte was delivered */

#include "lib/tar/src/record_to_memory.c"

/* contract proved in api_read.c (count / content / fail) */
sqfs_s32 sqfs_istream_read(sqfs_istream_t *strm, void *data, size_t size)
{
	uint64_t n = size > 0x7FFFFFFF ? 0x7FFFFFFF : size, left = g_rem - g_cons;

	VERIF_ASSERT(strm == &g_in_obj && g_reads == 0 && g_skips == 0 &&
		     VERIF_W_OK(data, size + 1), "C12.record.read_args");
	g_reads++;
	g_rd_buf = data;
	g_rd_size = size;
	if (verif_nd_bool("read.fails")) {
		int e = verif_nd_int("read.err");
		VERIF_ASSUME(e < 0);
		g_err = true;
		return e;
	}
	if (n > left)
		n = left;
	if (g_w >= g_cons && g_w - g_cons < n)
		g_wdst = (char *)data + (g_w - g_cons);
	g_cons += n;
	return (sqfs_s32)n;
}

/* contract proved in api_skip.c (count / fail) */
int sqfs_istream_skip(sqfs_istream_t *strm, sqfs_u64 size)
{
	uint64_t left = g_rem - g_cons;

	VERIF_ASSERT(strm == &g_in_obj && g_reads == 1 && g_skips == 0 && !g_err,
		     "C12.record.skip_args");
	g_skips++;
	g_skip_n = size;
	if (verif_nd_bool("skip.fails")) {
		int e = verif_nd_int("skip.err");
		VERIF_ASSUME(e < 0);
		g_err = true;
		return e;
	}
	g_cons += size < left ? size : left;
	return 0;
}

/* The raw stream hooks, in case the record reader (or a refactored version of
 * it) goes below the stream API: the stream contract of c12_istream_env.h over
 * the same ghost - a window of ANY length >= 1 (never more than is left), end
 * of stream only when nothing is left, or an error; advance consumes at most
 * the window. Window contents are not modelled (the reader must not look at
 * padding bytes). */
static sqfs_u8 g_win[8];
static size_t g_win_len;

static int rec_get_buffered_data(sqfs_istream_t *strm, const sqfs_u8 **out,
				 size_t *size, size_t want)
{
	uint64_t left = g_rem - g_cons;
	size_t n;

	(void)want;
	VERIF_ASSERT(strm == &g_in_obj && !g_err, "C12.record.skip_args");
	if (verif_nd_bool("get.fails")) {
		int e = verif_nd_int("get.err");
		VERIF_ASSUME(e < 0);
		g_err = true;
		return e;
	}
	if (left == 0)
		return 1;
	n = verif_nd_size("get.window");
	VERIF_ASSUME(n >= 1 && n <= left);
	g_win_len = n;
	*out = g_win;
	*size = n;
	return 0;
}

static void rec_advance_buffer(sqfs_istream_t *strm, size_t count)
{
	VERIF_ASSERT(strm == &g_in_obj && count <= g_win_len,
		     "C12.record.skip_args");
	g_cons += count;
	g_win_len -= count;
}

static const char *c12_in_filename(sqfs_istream_t *strm) { (void)strm; return "in"; }
void sqfs_perror(const char *file, const char *action, int error_code)
{ (void)file; (void)action; (void)error_code; }
void perror(const char *s) { (void)s; }
int fputs(const char *s, FILE *f) { (void)s; (void)f; return 0; }

#ifndef RD_MAX
#define RD_MAX 0x7fffffffffffULL
#endif

void harness(void)
{
	size_t size = verif_nd_size("size"), pad;
	char *ret;

	VERIF_ASSUME(size < RD_MAX - 1);
	g_in_obj.get_filename = c12_in_filename;
	g_in_obj.get_buffered_data = rec_get_buffered_data;
	g_in_obj.advance_buffer = rec_advance_buffer;
	g_win_len = 0;
	g_rem = verif_nd_u64("rem");
	g_cons = 0;
	g_err = false;
	g_reads = g_skips = 0;
	g_rd_buf = NULL;
	g_rd_size = 0;
	g_skip_n = 0;
	g_w = verif_nd_u64("w");
	g_wdst = NULL;
	pad = (512 - size % 512) % 512;
	VERIF_COVER(size > 512);

	ret = record_to_memory(&g_in_obj, size);

	if (ret != NULL) {
		VERIF_ASSERT(!g_err && g_reads == 1 && size <= 0x7FFFFFFF &&
			     g_rem >= size && ret == g_rd_buf && g_rd_size == size,
			     "C12.record.ok");
		VERIF_ASSERT(ret[size] == '\0', "C12.record.content");
		if (g_w < size)
			VERIF_ASSERT(g_wdst == ret + g_w, "C12.record.content");
		/* however the padding is dropped (one sqfs_istream_skip today):
		 * exactly payload + padding are consumed, whatever the chunking */
		VERIF_ASSERT(g_cons == (g_rem < size + pad ? g_rem : size + pad),
			     "C12.record.padding");
		VERIF_ASSERT(g_skips == 0 || (g_skips == 1 && g_skip_n == pad),
			     "C12.record.padding");
		free(ret);
	} else {
		VERIF_ASSERT(g_err || g_reads == 0 || g_rem < size ||
			     size > 0x7FFFFFFF, "C12.record.ok");
	}

	VERIF_COVER(ret != NULL && size > 512 && pad > 0);
	VERIF_COVER(ret != NULL && size > 0 && pad == 0);
	VERIF_COVER(ret != NULL && size == 0);
	VERIF_COVER(ret == NULL && g_reads == 0);
	VERIF_COVER(ret == NULL && g_reads == 1 && !g_err && g_rem < size);
	VERIF_COVER(ret == NULL && g_skips == 1 && g_err);
	VERIF_COVER(ret == NULL && size > 0x7FFFFFFF && g_rem > size);
}
