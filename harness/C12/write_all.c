/* C12: write_all (lib/sqfs/src/io/ostream.c) - what reaches the stream and
 * the recorded size do not depend on how write(2) splits the transfer.
 * Loop contract: unbounded number of short writes / EINTRs, any n.
 *
 *  C12.write_all.kth_call_args   k-th call is (fd, data+done, n-done)
 *  C12.write_all.buf_readable / stops_on_error
 *  C12.write_all.exact           ret == 0 <=> accepted == n, no hard error,
 *                                no 0 return
 *  C12.write_all.size            file->size advanced by exactly the bytes
 *                                accepted, on success and on failure
 *  C12.write_all.content         stream byte k (k < accepted) is data[k],
 *                                delivered exactly once, in order
 *  C12.write_all.status          0 / SQFS_ERROR_IO; errno = EPIPE on 0 return
 *  C12.write_all.frame
 */
#include <stdlib.h>
#define C12_FN "write_all"
#include "C12/c12_write_env.h"

const uint8_t *g_buf0;
size_t g_n0;

#include "lib/sqfs/src/io/ostream.c"

static void c12_write_pre(int fd, const void *buf, size_t n)
{
	VERIF_ASSERT(fd == g_fd && (const uint8_t *)buf == g_buf0 + g_total &&
		     n == g_n0 - g_total, "C12.write_all.kth_call_args");
}

#ifndef WR_MAX
#define WR_MAX 0x7fffffffffffULL
#endif

void harness(void)
{
	static file_ostream_t f;
	size_t n = verif_nd_size("n");
	uint64_t size0 = verif_nd_u64("file.size");
	uint64_t sparse0 = verif_nd_u64("file.sparse");
	uint32_t flags = verif_nd_u32("file.flags");
	uint8_t *buf, b_w = 0;
	int ret;

	VERIF_ASSUME(n <= WR_MAX);
	buf = malloc(n);
	VERIF_ASSUME(buf != NULL);
	f.fd = verif_nd_int("fd");
	f.size = size0;
	f.sparse_count = sparse0;
	f.flags = flags;
	c12_write_env_init(f.fd);
	g_buf0 = buf;
	g_n0 = n;
	if (g_w < n) {
		b_w = verif_nd_u8("buf[w]");
		buf[g_w] = b_w;
	}
	VERIF_COVER(n > 4);

	ret = write_all(&f, buf, n);

	VERIF_ASSERT((ret == 0) == (g_total == n && !g_hard && !g_zero),
		     "C12.write_all.exact");
	VERIF_ASSERT(g_total <= n, "C12.write_all.exact");
	VERIF_ASSERT(ret == 0 || (ret == SQFS_ERROR_IO && (g_hard || g_zero)),
		     "C12.write_all.status");
	if (g_zero)
		VERIF_ASSERT(g_errno == EPIPE, "C12.write_all.status");
	VERIF_ASSERT(f.size == size0 + g_total, "C12.write_all.size");
	if (g_w < g_total)
		VERIF_ASSERT(g_wcount == 1 && g_wval == b_w &&
			     buf[g_w] == b_w, "C12.write_all.content");
	else
		VERIF_ASSERT(g_wcount == 0, "C12.write_all.content");
	VERIF_ASSERT(f.fd == g_fd && f.sparse_count == sparse0 &&
		     f.flags == flags, "C12.write_all.frame");

	VERIF_COVER(ret == 0 && n > 4 && g_calls >= 3);
	VERIF_COVER(ret == 0 && g_w < n);
	VERIF_COVER(ret != 0 && g_hard && g_total > 0);
	VERIF_COVER(ret != 0 && g_zero && g_total > 0);
}
