/* C12: stdio_read_at (lib/sqfs/src/io/file.c) - the result does not depend on
 * how the kernel splits the transfer.
 *
 * pread() is its contract: at EVERY call it may return any count 1..n, 0, or
 * -1 with any errno (EINTR or not). It owns the ghost cursor g_done and checks
 * the arguments of the k-th call against it. The retry loop carries a loop
 * contract (contracts/loops/C12.tbl), so the number of short transfers and
 * EINTRs is unbounded; n is any size_t, the offset any file offset.
 *
 *  C12.read_at.kth_call_args   k-th call is (fd, buf+done, n-done, off+done)
 *  C12.read_at.buf_writable    the destination range is writable
 *  C12.read_at.stops_on_error  no call after a hard error or a 0 return
 *  C12.read_at.exact           ret == 0  <=> all n bytes arrived (sum of
 *                              returned counts == n) and no hard error / EOF
 *  C12.read_at.status          IO <=> errno != EINTR failure, OUT_OF_BOUNDS <=> 0
 *  C12.read_at.content         ret == 0 ==> buf[k] is the file byte at off+k
 *                              (witness offset: proved for every k)
 *  C12.read_at.frame           file object untouched
 *  termination: decreases (size, EINTR fuel) - terminates whenever the number
 *  of EINTRs is finite.
 */
#include <stdlib.h>
#include "C12/c12_env.h"

/* ghost state owned by the pread contract */
int g_fd;
char *g_buf0;
size_t g_n0;
uint64_t g_off0;
size_t g_done;      /* sum of the positive counts returned so far */
bool g_hard;        /* a call failed with errno != EINTR */
bool g_zero;        /* a call returned 0 */
uint64_t g_woff;    /* witness: file offset ... */
uint8_t g_wval;     /* ... and the byte the file holds there */
uint64_t g_fuel;    /* finite but arbitrary number of EINTRs still to come */
unsigned g_calls;
unsigned g_ncalls;

#include "lib/sqfs/src/io/file.c"

ssize_t pread(int fd, void *buf, size_t n, off_t off)
{
	ssize_t r;

	VERIF_ASSERT(!g_hard && !g_zero, "C12.read_at.stops_on_error");
	VERIF_ASSERT(fd == g_fd && (char *)buf == g_buf0 + g_done &&
		     n == g_n0 - g_done && off >= 0 &&
		     (uint64_t)off == g_off0 + g_done,
		     "C12.read_at.kth_call_args");
	VERIF_ASSERT(VERIF_W_OK(buf, n), "C12.read_at.buf_writable");
	if (g_calls < 3)
		g_calls++;
#ifdef C12_MAX_CALLS
	/* bounded twin (see cases.py): at most C12_MAX_CALLS system calls */
	VERIF_ASSUME(g_ncalls < C12_MAX_CALLS);
	g_ncalls++;
#endif

	r = c12_any_outcome(n, "pread.ret");
	if (r < 0) {
		g_errno = verif_nd_int("pread.errno");
		if (g_errno == EINTR) {
			VERIF_ASSUME(g_fuel > 0);
			g_fuel--;
		} else {
			g_hard = true;
		}
	} else if (r == 0) {
		g_zero = true;
	} else {
		if (g_woff >= (uint64_t)off && g_woff - (uint64_t)off < (uint64_t)r)
			((uint8_t *)buf)[g_woff - (uint64_t)off] = g_wval;
		g_done += (size_t)r;
	}
	return r;
}

#ifndef RD_MAX
#define RD_MAX 0x7fffffffffffULL /* CBMC object size limit (2^47) */
#endif

void harness(void)
{
	static struct { sqfs_file_stdio_t f; char name[8]; } w;
	size_t n = verif_nd_size("n");
	uint64_t off = verif_nd_u64("off");
	uint64_t size0 = verif_nd_u64("file.size");
	char *buf;
	int ret;

	VERIF_ASSUME(n <= RD_MAX);
	VERIF_ASSUME(off <= (uint64_t)INT64_MAX - n); /* off_t range */
	buf = malloc(n);
	VERIF_ASSUME(buf != NULL);

	w.f.fd = verif_nd_int("fd");
	w.f.size = size0;
	w.f.readonly = verif_nd_bool("ro");
	g_fd = w.f.fd;
	g_buf0 = buf;
	g_n0 = n;
	g_off0 = off;
	g_done = 0;
	g_hard = g_zero = false;
	g_calls = 0;
	g_ncalls = 0;
	g_woff = verif_nd_u64("woff");
	g_wval = verif_nd_u8("wval");
	g_fuel = verif_nd_u64("fuel");
	VERIF_COVER(n > 4);

	ret = stdio_read_at((sqfs_file_t *)&w.f, off, buf, n);

	VERIF_ASSERT((ret == 0) == (g_done == n && !g_hard && !g_zero),
		     "C12.read_at.exact");
	VERIF_ASSERT(ret == 0 || ret == SQFS_ERROR_IO ||
		     ret == SQFS_ERROR_OUT_OF_BOUNDS, "C12.read_at.status");
	VERIF_ASSERT((ret == SQFS_ERROR_IO) == g_hard, "C12.read_at.status");
	VERIF_ASSERT((ret == SQFS_ERROR_OUT_OF_BOUNDS) == g_zero,
		     "C12.read_at.status");
	if (ret == 0 && g_woff >= off && g_woff - off < n)
		VERIF_ASSERT(((uint8_t *)buf)[g_woff - off] == g_wval,
			     "C12.read_at.content");
	VERIF_ASSERT(w.f.size == size0 && w.f.fd == g_fd, "C12.read_at.frame");

	VERIF_COVER(ret == 0 && n > 4 && g_calls >= 3);
	VERIF_COVER(ret == 0 && g_woff >= off && g_woff - off < n);
	VERIF_COVER(ret == SQFS_ERROR_IO && g_done > 0);
	VERIF_COVER(ret == SQFS_ERROR_OUT_OF_BOUNDS && g_done > 0);
}
