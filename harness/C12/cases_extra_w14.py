# C12 (worker w14): the memory istream of lib/common/src/stream.c
# (istream_memory_create) under the same stream contract get_buffered.c /
# advance.c prove for the file istream, plus constructor / destructor and the
# stdin / stdout openers.
FUNCTIONS = [
    "mem_get_buffered_data", "mem_advance_buffer", "istream_memory_create", "mem_in_destroy",
    "mem_in_get_filename", "istream_open_stdin", "ostream_open_stdout",
]
TRUSTED = [
    "memcpy / memmove / memset: checking stubs (bounds via r_ok / w_ok, contents by witness placement)",
    "strdup: NULL or a fresh copy; sqfs_istream_open_handle / sqfs_ostream_open_handle: any result <= 0 (their bodies: C12 precache / append harnesses)",
]
ASSUMPTIONS = [
    "memory istream: bufsz >= 1 (bufsz == 0 is accepted by istream_memory_create and gives a stream that is at EOF at once; no caller in the tree passes 0)",
    "mem_advance_buffer: count <= visible (assert() in the function; the consumers' side is C12.<fn>.advance_le_view)",
    "mem_create: bufsz <= 4096",
]

HARNESSES = [
    dict(name="mem_get", file="w14_mem_get.c", label="proved", solver="cadical", timeout=300,
         must_have=["C12.mem_get.view", "C12.mem_get.stream", "C12.mem_get.enough",
                    "C12.mem_get.progress", "C12.mem_get.eof", "C12.mem_get.lazy",
                    "C12.mem_get.copy_in_bounds", "C12.mem_get.copy_args",
                    "C12.mem_get.no_clobber", "C12.mem_get.frame"]),
    dict(name="mem_advance", file="w14_mem_advance.c", label="proved", solver="cadical", timeout=300,
         must_have=["C12.mem_advance.inv", "C12.mem_advance.consume", "C12.mem_advance.stream",
                    "C12.mem_advance.move_in_bounds", "C12.mem_advance.set_in_bounds",
                    "C12.mem_advance.frame"]),
    dict(name="mem_create", file="w14_mem_create.c", label="proved", timeout=300,
         fp={"destroy": "mem_in_destroy"}, flags=["--memory-leak-check"],
         must_have=["C12.mem_create.inv", "C12.mem_create.name", "C12.mem_create.fail_clean",
                    "C12.std.stdin", "C12.std.stdout"],
         cases=[dict(id="allocfail", flags=["--malloc-may-fail", "--malloc-fail-null"], tier="quick"),
                dict(id="nofail", defines={"NO_ALLOC_FAIL": 1}, flags=["--no-malloc-may-fail"], tier="quick")]),
]
