/* C12: file_flush (lib/sqfs/src/io/ostream.c) - a trailing hole is realised
 * completely (whatever the split of the zero-fill writes) before fsync; the
 * status depends only on whether some call failed. Loop-free; realize_sparse
 * is replaced by its contract (proved in realize_sparse.c).
 *
 *  C12.flush.hole_first         realize_sparse runs first, on the whole hole
 *  C12.flush.fsync_after_hole   fsync once, only after the hole is complete
 *  C12.flush.exact       ret == 0 ==> accepted zeros + seeked == hole,
 *                        sparse_count == 0, fsync succeeded (or EINVAL)
 *  C12.flush.zero        every accepted byte is 0, each position once
 *  C12.flush.fail        ret != 0 ==> a write/seek/alloc/fsync failed
 */
#include <stdlib.h>
#define C12_FN "flush"
#include "C12/c12_write_env.h"

uint64_t g_hole;
uint64_t g_seeked;
unsigned g_seeks;
bool g_seek_failed;
unsigned g_fsyncs;
bool g_fsync_failed;

#include "lib/sqfs/src/io/ostream.c"

static void c12_write_pre(int fd, const void *buf, size_t n)
{
	VERIF_ASSERT(false, "C12.flush.no_data_write");
}
#define C12_WANT_SPARSE_CONTRACT
#include "C12/c12_ostream_contracts.h"

int fsync(int fd)
{
	VERIF_ASSERT(fd == g_fd && g_fsyncs == 0 &&
		     g_total + g_seeked == g_hole && !g_hard && !g_zero &&
		     !g_seek_failed, "C12.flush.fsync_after_hole");
	g_fsyncs++;
	if (verif_nd_bool("fsync.fails")) {
		g_errno = verif_nd_int("fsync.errno");
		if (g_errno != EINVAL)
			g_fsync_failed = true;
		return -1;
	}
	return 0;
}

void harness(void)
{
	static file_ostream_t f;
	uint64_t size0 = verif_nd_u64("file.size");
	uint32_t flags = verif_nd_u32("file.flags");
	int ret;

	g_hole = verif_nd_u64("file.sparse");
	VERIF_ASSUME(g_hole <= (uint64_t)INT64_MAX);
	f.fd = verif_nd_int("fd");
	f.size = size0;
	f.sparse_count = g_hole;
	f.flags = flags;
	c12_write_env_init(f.fd);
	g_seeked = 0;
	g_seeks = 0;
	g_seek_failed = false;
	g_fsyncs = 0;
	g_fsync_failed = false;
	VERIF_COVER(g_hole > 4096);

	ret = file_flush((sqfs_ostream_t *)&f);

	if (ret == 0)
		VERIF_ASSERT(g_total + g_seeked == g_hole && f.sparse_count == 0 &&
			     g_fsyncs == 1 && !g_fsync_failed && !g_hard &&
			     !g_zero && !g_seek_failed, "C12.flush.exact");
	else
		VERIF_ASSERT(g_hard || g_zero || g_seek_failed || g_fsync_failed ||
			     ret == SQFS_ERROR_ALLOC, "C12.flush.fail");
	if (g_w < g_total)
		VERIF_ASSERT(g_wcount == 1 && g_wval == 0, "C12.flush.zero");
	else
		VERIF_ASSERT(g_wcount == 0, "C12.flush.zero");
	VERIF_ASSERT(f.fd == g_fd && f.flags == flags, "C12.flush.frame");

	VERIF_COVER(ret == 0 && g_total > 4096 && g_calls >= 3);
	VERIF_COVER(ret == 0 && g_seeked > 0);
	VERIF_COVER(ret == 0 && g_hole == 0);
	VERIF_COVER(ret != 0 && g_fsync_failed);
	VERIF_COVER(ret != 0 && g_hard && g_total > 1024);
}
