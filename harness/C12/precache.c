/* C12: precache (lib/sqfs/src/io/istream.c) - after a successful call the
 * buffer holds the next min(BUFSZ, bytes until EOF) bytes of the stream, in
 * order, starting with the bytes the consumer had not taken yet - whatever
 * chunks read(2) delivers. Loop contract on the refill loop: unbounded
 * number of short reads / EINTRs. BUFSZ is the real 128 KiB.
 *
 * State on entry: any file_istream_t with offset <= used <= BUFSZ.
 *  C12.precache.kth_call_args  every read is (fd, buffer+used, BUFSZ-used)
 *  C12.precache.compact        memmove(buffer, buffer+offset, used-offset)
 *                              exactly when 0 < offset < used
 *  C12.precache.full_or_eof    ret == 0 ==> used == BUFSZ or eof; offset == 0
 *  C12.precache.eof_iff        eof' <=> eof or a read returned 0
 *  C12.precache.stream         buffer[k] is stream byte k for k < used'
 *                              (unread old bytes ++ delivered bytes, in order);
 *                              used' = old unread + sum of delivered counts
 *  C12.precache.no_clobber     no read/memmove overwrites a live stream byte
 *  C12.precache.fail           ret != 0 <=> a read failed with errno != EINTR
 *  C12.precache.noop_at_eof    eof on entry: no system call, state unchanged
 */
#include <stdlib.h>
#define C12_FN "precache"
#include "C12/c12_read_env.h"

struct file_istream_t_;
size_t *g_used_p;     /* &file->buffer_used (for the read contract) */
size_t g_off0, g_used0;

#include "lib/sqfs/src/io/istream.c"

static void c12_read_pre(int fd, void *buf, size_t n)
{
	VERIF_ASSERT(fd == g_fd && (uint8_t *)buf == g_bufbase + *g_used_p &&
		     n == BUFSZ - *g_used_p && *g_used_p < BUFSZ &&
		     *g_used_p == g_spos, "C12.precache.kth_call_args");
}

static void c12_memmove_pre(void *dst, const void *src, size_t n)
{
	VERIF_ASSERT(g_moves == 0 && g_calls == 0 && g_off0 > 0 &&
		     g_off0 < g_used0 && (uint8_t *)dst == g_bufbase &&
		     (const uint8_t *)src == g_bufbase + g_off0 &&
		     n == g_used0 - g_off0, "C12.precache.compact");
}

void harness(void)
{
	static file_istream_t f;
	bool eof0 = verif_nd_bool("eof");
	int ret;

	f.fd = verif_nd_int("fd");
	f.eof = eof0;
	f.buffer_offset = g_off0 = verif_nd_size("offset");
	f.buffer_used = g_used0 = verif_nd_size("used");
	VERIF_ASSUME(g_off0 <= g_used0 && g_used0 <= BUFSZ);

	g_fd = f.fd;
	g_bufbase = f.buffer;
	g_bufsz = BUFSZ;
	g_used_p = &f.buffer_used;
	g_keep = g_used0 - g_off0;
	g_spos = g_keep;
	g_hard = g_zero = false;
	g_calls = 0;
	g_moves = 0;
	g_fuel = verif_nd_u64("fuel");
	g_w = verif_nd_u64("w");
	/* the unread bytes ARE the first g_keep bytes of the stream */
	g_wat = g_w < g_keep ? g_off0 + (size_t)g_w : C12_NOWHERE;
	VERIF_COVER(g_off0 > 0 && g_keep > 4);

	ret = precache((sqfs_istream_t *)&f);

	if (eof0) {
		VERIF_ASSERT(ret == 0 && g_calls == 0 && g_moves == 0 && f.eof &&
			     f.buffer_offset == g_off0 && f.buffer_used == g_used0,
			     "C12.precache.noop_at_eof");
	} else {
		VERIF_ASSERT((ret != 0) == g_hard, "C12.precache.fail");
		VERIF_ASSERT(ret == 0 || ret == SQFS_ERROR_IO, "C12.precache.fail");
		VERIF_ASSERT(f.eof == g_zero, "C12.precache.eof_iff");
		VERIF_ASSERT(f.buffer_offset == 0 && f.buffer_used == g_spos &&
			     f.buffer_used <= BUFSZ, "C12.precache.stream");
		if (ret == 0)
			VERIF_ASSERT(f.buffer_used == BUFSZ || f.eof,
				     "C12.precache.full_or_eof");
		if (g_off0 > 0 && g_off0 < g_used0)
			VERIF_ASSERT(g_moves == 1, "C12.precache.compact");
		VERIF_ASSERT(g_wat == (g_w < f.buffer_used ? (size_t)g_w : C12_NOWHERE),
			     "C12.precache.stream");
	}
	VERIF_ASSERT(f.fd == g_fd, "C12.precache.frame");

	VERIF_COVER(!eof0 && ret == 0 && f.buffer_used == BUFSZ && g_calls >= 3 && g_moves == 1);
	VERIF_COVER(!eof0 && ret == 0 && f.eof && f.buffer_used < BUFSZ && g_calls >= 2);
	VERIF_COVER(!eof0 && ret == 0 && g_w < g_keep && g_off0 > 0);
	VERIF_COVER(!eof0 && ret == 0 && g_w >= g_keep && g_w < f.buffer_used);
	VERIF_COVER(ret != 0 && g_spos > g_keep);
	VERIF_COVER(eof0);
}
