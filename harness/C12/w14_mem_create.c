/* C12 (w14): istream_memory_create / mem_in_destroy / mem_in_get_filename and
 * the stdin / stdout openers of lib/common/src/stream.c. Loop-free; every
 * allocation (calloc, strdup, malloc) may fail; bufsz <= MEM_CREATE_MAX and
 * size are symbolic.
 *
 *  C12.mem_create.inv         success: the object is within MEM_INV with
 *                             offset == visible == 0 (nothing consumed,
 *                             nothing shown), buffer is a fresh object of
 *                             exactly bufsz bytes, data / size / bufsz are the
 *                             arguments, the three stream hooks are the
 *                             memory istream's, refcount == 1 - the state
 *                             w14_mem_get.c / w14_mem_advance.c start from
 *  C12.mem_create.name        get_filename returns a private copy of name
 *  C12.mem_create.fail_clean  NULL only if an allocation failed (case nofail:
 *                             with allocations that cannot fail the result is
 *                             never NULL); whatever was allocated before the
 *                             failing one is released (with
 *                             --memory-leak-check: nothing leaks on any path,
 *                             and sqfs_drop of the stream releases all three
 *                             allocations)
 *  C12.std.stdin / C12.std.stdout  the openers hand descriptor 0 / 1, the
 *                             names "stdin" / "stdout", flags 0 /
 *                             SQFS_FILE_OPEN_NO_SPARSE to the handle
 *                             constructors and return their result unchanged
 *
 * Observation: bufsz == 0 is accepted by the constructor and yields a stream
 * that reports EOF at once whatever the data (have == 0); the harnesses
 * require bufsz >= 1, as every caller in the tree passes a constant >= 1.
 */
#define C12_FN "mem_create"
#include <stdlib.h>
#include <string.h>
#include "verif.h"

#ifndef MEM_CREATE_MAX
#define MEM_CREATE_MAX 4096
#endif

static const char *g_name_arg;
static char *g_name_copy;

/* strdup contract: NULL, or a fresh 4 byte object holding the text */
static char *c12m_strdup(const char *s)
{
	char *p;

	VERIF_ASSERT(s == g_name_arg, "C12.mem_create.name");
	p = malloc(4);
	if (p == NULL)
		return NULL;
	p[0] = s[0];
	p[1] = s[1];
	p[2] = s[2];
	p[3] = s[3];
	g_name_copy = p;
	return p;
}
#define strdup c12m_strdup
#include "C12/w14_mem_env.h"
#undef strdup

static unsigned g_in_calls, g_out_calls;
static sqfs_istream_t g_std_in;
static sqfs_ostream_t g_std_out;
static int g_open_ret;

int sqfs_istream_open_handle(sqfs_istream_t **out, const char *path,
			     sqfs_file_handle_t fd, sqfs_u32 flags)
{
	VERIF_ASSERT(out != NULL && fd == STDIN_FILENO && flags == 0 &&
		     path[0] == 's' && path[1] == 't' && path[2] == 'd' &&
		     path[3] == 'i' && path[4] == 'n' && path[5] == '\0',
		     "C12.std.stdin");
	g_in_calls += 1;
	g_open_ret = verif_nd_int("open_ret");
	VERIF_ASSUME(g_open_ret <= 0);
	*out = g_open_ret == 0 ? &g_std_in : NULL;
	return g_open_ret;
}

int sqfs_ostream_open_handle(sqfs_ostream_t **out, const char *path,
			     sqfs_file_handle_t hnd, sqfs_u32 flags)
{
	VERIF_ASSERT(out != NULL && hnd == STDOUT_FILENO &&
		     flags == SQFS_FILE_OPEN_NO_SPARSE &&
		     path[0] == 's' && path[1] == 't' && path[2] == 'd' &&
		     path[3] == 'o' && path[4] == 'u' && path[5] == 't' &&
		     path[6] == '\0', "C12.std.stdout");
	g_out_calls += 1;
	g_open_ret = verif_nd_int("open_ret");
	VERIF_ASSUME(g_open_ret <= 0);
	*out = g_open_ret == 0 ? &g_std_out : NULL;
	return g_open_ret;
}

void harness(void)
{
	static const char name[4] = "mem";
	size_t bufsz = verif_nd_size("bufsz");
	size_t size = verif_nd_size("size");
	static const sqfs_u8 data_anchor[1];
	sqfs_istream_t *strm, *in = NULL;
	sqfs_ostream_t *out = NULL;
	mem_istream_t *m;
	int ret;

	g_name_copy = NULL;
	g_name_arg = name;
	g_in_calls = g_out_calls = 0;
	VERIF_ASSUME(bufsz >= 1 && bufsz <= MEM_CREATE_MAX);

	strm = istream_memory_create(name, bufsz, data_anchor, size);

	m = (mem_istream_t *)strm;
#ifdef NO_ALLOC_FAIL
	VERIF_ASSERT(strm != NULL, "C12.mem_create.fail_clean");
#endif
	if (strm != NULL) {
		VERIF_ASSERT(m->offset == 0 && m->visible == 0 && m->bufsz == bufsz &&
			     m->size == size && m->data == (const void *)data_anchor &&
			     m->buffer != NULL && VERIF_W_OK(m->buffer, bufsz) &&
			     VERIF_OBJECT_SIZE(m->buffer) == bufsz &&
			     VERIF_POINTER_OFFSET(m->buffer) == 0 && MEM_INV(*m),
			     "C12.mem_create.inv");
		VERIF_ASSERT(strm->get_buffered_data == mem_get_buffered_data &&
			     strm->advance_buffer == mem_advance_buffer &&
			     strm->get_filename == mem_in_get_filename &&
			     m->base.base.refcount == 1 &&
			     m->base.base.destroy == mem_in_destroy,
			     "C12.mem_create.inv");
		VERIF_ASSERT(mem_in_get_filename(strm) == g_name_copy &&
			     g_name_copy != name && g_name_copy[0] == 'm' &&
			     g_name_copy[1] == 'e' && g_name_copy[2] == 'm' &&
			     g_name_copy[3] == '\0', "C12.mem_create.name");
		VERIF_COVER(bufsz == MEM_CREATE_MAX && size == 0);
		VERIF_COVER(bufsz == 1 && size > MEM_CREATE_MAX);
		strm = sqfs_drop(strm);
		VERIF_ASSERT(strm == NULL, "C12.mem_create.fail_clean");
	} else {
#ifndef NO_ALLOC_FAIL
		VERIF_COVER(g_name_copy != NULL);
		VERIF_COVER(g_name_copy == NULL);
#endif
	}
	/* --memory-leak-check: nothing may be left allocated here */

	ret = istream_open_stdin(&in);
	VERIF_ASSERT(g_in_calls == 1 && g_out_calls == 0 && ret == g_open_ret &&
		     in == (ret == 0 ? &g_std_in : NULL), "C12.std.stdin");
	ret = ostream_open_stdout(&out);
	VERIF_ASSERT(g_in_calls == 1 && g_out_calls == 1 && ret == g_open_ret &&
		     out == (ret == 0 ? &g_std_out : NULL), "C12.std.stdout");
	VERIF_COVER(in != NULL && out == NULL);
}
