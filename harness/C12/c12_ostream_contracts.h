/* C12 - contracts of the two static helpers of lib/sqfs/src/io/ostream.c, as
 * stubs, for the harnesses of their callers (goto-instrument --replace-calls
 * write_all:c12_write_all_contract etc.). Each clause is an obligation that
 * is PROVED on the real function by the harness named next to it; the stub
 * allows every outcome those postconditions allow.
 *
 * Must be included after the real file (needs file_ostream_t) and after
 * c12_write_env.h (stream ghost state g_total, g_w, g_wval, g_wcount).
 */
#ifndef C12_OSTREAM_CONTRACTS_H
#define C12_OSTREAM_CONTRACTS_H

/* write_all(file, data, size)  -  harness write_all.c
 *   requires  data readable for size bytes        (C12.write_all.buf_readable)
 *   ensures   accepted a <= size bytes, a == size <=> ret == 0
 *                                                 (C12.write_all.exact)
 *             stream bytes [total, total+a) == data[0..a), each once
 *                                                 (C12.write_all.content)
 *             file->size += a                     (C12.write_all.size)
 *             ret in {0, SQFS_ERROR_IO}; failure <=> a write failed hard or
 *             returned 0                          (C12.write_all.status)
 *             nothing else of *file changes       (C12.write_all.frame)
 */

int c12_write_all_contract(file_ostream_t *file, const sqfs_u8 *data,
			   size_t size)
{
	uint64_t a = verif_nd_u64("write_all.accepted");

	VERIF_ASSERT(!g_hard && !g_zero, "C12." C12_FN ".stops_on_error");
	c12_write_pre(file->fd, data, size);
	VERIF_ASSERT(VERIF_R_OK(data, size), "C12." C12_FN ".buf_readable");
	if (g_wa_calls < 3)
		g_wa_calls++;
	if (size > 0 && g_calls < 3)
		g_calls++;

	VERIF_ASSUME(a <= size);
	if (g_w >= g_total && g_w - g_total < a) {
		g_wval = data[g_w - g_total];
		g_wcount++;
	}
	g_total += a;
	file->size += a;
	if (a == size)
		return 0;
	if (verif_nd_bool("write_all.zero")) {
		g_zero = true;
		g_errno = EPIPE;
	} else {
		g_hard = true;
		g_errno = verif_nd_int("write_all.errno");
		VERIF_ASSUME(g_errno != EINTR);
	}
	return SQFS_ERROR_IO;
}

#ifdef C12_WANT_SPARSE_CONTRACT
/* realize_sparse(file)  -  harness realize_sparse.c
 *   ensures  hole == 0: nothing happens, ret == 0
 *            NO_SPARSE: z <= hole zero bytes reach the stream, each position
 *            once (C12.sparse.zero), file->size += z (C12.sparse.size),
 *            ret == 0 <=> z == hole and then sparse_count == 0
 *            (C12.sparse.exact); otherwise a failure is flagged and
 *            hole - z <= sparse_count <= hole (C12.sparse.fail)
 *            else: one seek over hole bytes, or its error (C12.sparse.seek_args)
 */
int c12_realize_sparse_contract(file_ostream_t *file)
{
	uint64_t hole = file->sparse_count, z;

	VERIF_ASSERT(hole == g_hole && g_total == 0 && g_seeks == 0,
		     "C12." C12_FN ".hole_first");
	if (hole == 0)
		return 0;
	if (!(file->flags & SQFS_FILE_OPEN_NO_SPARSE)) {
		int r = verif_nd_int("seek.ret");
		g_seeks++;
		if (r != 0) {
			g_seek_failed = true;
			return r;
		}
		g_seeked += hole;
		file->sparse_count = 0;
		return 0;
	}
	if (verif_nd_bool("calloc.fails"))
		return SQFS_ERROR_ALLOC;
	z = verif_nd_u64("sparse.zeros");
	VERIF_ASSUME(z <= hole);
	if (g_w >= g_total && g_w - g_total < z) {
		g_wval = 0;
		g_wcount++;
	}
	if (z > 0 && g_calls < 3)
		g_calls = 3;
	g_total += z;
	file->size += z;
	if (z == hole) {
		file->sparse_count = 0;
		return 0;
	}
	file->sparse_count = verif_nd_u64("sparse.left");
	VERIF_ASSUME(file->sparse_count <= hole &&
		     file->sparse_count >= hole - z);
	if (verif_nd_bool("write_all.zero")) {
		g_zero = true;
		g_errno = EPIPE;
	} else {
		g_hard = true;
		g_errno = verif_nd_int("write_all.errno");
		VERIF_ASSUME(g_errno != EINTR);
	}
	return SQFS_ERROR_IO;
}
#endif
#endif
