/* C12 (bounded stand-in): istream_get_line (lib/util/src/get_line.c) - the
 * line handed out, the line counter, the status and the stream position do
 * not depend on how the input is chunked. The remaining input is a fully
 * symbolic text of LEN bytes (full byte alphabet except NUL); the istream
 * contract shows it to the function in views of ANY length 1..rest at every
 * call (down to one byte at a time), may fail at any call, and every
 * allocation may fail. The oracle is spec/getline_spec.h, which sees the
 * whole text at once. One run per (LEN, flags value); all loops unwound
 * (bound LEN+2, unwinding assertions).
 *
 *  C12.get_line.status     no failure: ret == spec (0 line / 1 end of input)
 *  C12.get_line.text       the returned string equals the spec's line
 *  C12.get_line.line_num   *line_num advanced by the number of skipped lines
 *  C12.get_line.consumed   stream advanced exactly past the returned line
 *  C12.get_line.fail       ret < 0 <=> stream error or allocation failure;
 *                          *out == NULL then
 *  C12.get_line.advance_le_view / one_view
 *  C12.get_line.heap_protocol / no_leak / copy_bounds  (see realloc below)
 */
#include <stdlib.h>
#include <string.h>
#include "verif.h"
#include "sqfs/io.h"
#include "sqfs/error.h"
#include "getline_spec.h"

#ifndef LEN
#define LEN 4
#endif

sqfs_istream_t g_in_obj;
unsigned char g_text[LEN + 1];
size_t g_cons;
size_t g_avail;
bool g_err;
int g_errcode;
bool g_eofseen;
unsigned g_gets;

/* C locale classification table behind glibc's isspace() macro */
#define SP 0x2000 /* _ISspace */
static const unsigned short c12_ctype[384] = {
	[128 + '\t'] = SP, [128 + '\n'] = SP, [128 + '\v'] = SP,
	[128 + '\f'] = SP, [128 + '\r'] = SP, [128 + ' '] = SP,
};
const unsigned short **__ctype_b_loc(void)
{
	static const unsigned short *p = c12_ctype + 128;
	return &p;
}

#include "lib/util/src/get_line.c"

/* libc contracts for the one small heap block the function owns (`line`).
 * The block lives in a fixed pool of LEN+2 bytes (exactly sized typed arrays
 * are what CBMC handles well; a heap of moving symbolic-size blocks needed
 * > 5 GB for LEN = 3). realloc/free check the ownership protocol (only the
 * live block is resized/freed, no double free, no leak) and realloc may
 * fail; the current block size is ghost state and memcpy/memmove check
 * their ranges against it. Not modelled: realloc moving the block. */
static char g_pool[LEN + 2];
static size_t g_pool_n;
static bool g_pool_live;

void *realloc(void *p, size_t n)
{
	VERIF_ASSERT(p == NULL ? !g_pool_live : (p == g_pool && g_pool_live),
		     "C12.get_line.heap_protocol");
	VERIF_ASSERT(n >= 1 && n <= sizeof(g_pool), "C12.get_line.alloc_size");
#ifndef NO_ALLOC_FAIL
	if (verif_nd_bool("realloc.fails"))
		return NULL;
#endif
	g_pool_live = true;
	g_pool_n = n;
	return g_pool;
}

void free(void *p)
{
	if (p == NULL)
		return;
	VERIF_ASSERT(p == g_pool && g_pool_live, "C12.get_line.heap_protocol");
	g_pool_live = false;
}

static bool c12_in_block(const void *p, size_t n)
{
	size_t off = (size_t)((const char *)p - g_pool);
	return g_pool_live && off <= g_pool_n && n <= g_pool_n - off;
}

void *memcpy(void *dst, const void *src, size_t n)
{
	size_t i;

	VERIF_ASSERT(c12_in_block(dst, n), "C12.get_line.copy_bounds");
	for (i = 0; i < n; ++i)
		((char *)dst)[i] = ((const char *)src)[i];
	return dst;
}

void *memmove(void *dst, const void *src, size_t n)
{
	size_t i;

	/* only ever called with dst < src (ltrim) - asserted */
	VERIF_ASSERT(n == 0 || (char *)dst < (const char *)src,
		     "C12.get_line.memmove_forward");
	VERIF_ASSERT(c12_in_block(dst, n) && c12_in_block(src, n),
		     "C12.get_line.copy_bounds");
	for (i = 0; i < n; ++i)
		((char *)dst)[i] = ((const char *)src)[i];
	return dst;
}

static int c12_gl_get(sqfs_istream_t *strm, const sqfs_u8 **out,
		      size_t *size, size_t want)
{
	size_t n;

	(void)want;
	VERIF_ASSERT(strm == &g_in_obj && !g_err && !g_eofseen,
		     "C12.get_line.stops_on_error");
	VERIF_ASSERT(g_avail == 0, "C12.get_line.one_view");
	if (g_gets < 3)
		g_gets++;
#ifdef NO_GET_FAIL
	if (0) {
#else
	if (verif_nd_bool("get.fails")) {
#endif
		g_errcode = verif_nd_int("get.err");
		VERIF_ASSUME(g_errcode < 0);
		g_err = true;
		return g_errcode;
	}
	if (g_cons == LEN) {
		g_eofseen = true;
		*out = NULL;
		*size = 0;
		return 1;
	}
	n = verif_nd_size("get.size");
	VERIF_ASSUME(n >= 1 && n <= LEN - g_cons);
	g_avail = n;
	*out = g_text + g_cons;
	*size = n;
	return 0;
}

static void c12_gl_advance(sqfs_istream_t *strm, size_t count)
{
	VERIF_ASSERT(strm == &g_in_obj && g_avail > 0 && count <= g_avail,
		     "C12.get_line.advance_le_view");
	g_cons += count;
	g_avail = 0;
}

void harness(void)
{
	int flags = verif_nd_int("flags");
	size_t line_num0 = verif_nd_size("line_num"), line_num = line_num0;
	size_t s_start = 0, s_len = 0, s_cons = 0, s_skip = 0, i;
	char *out = (char *)1;
	int ret, s_ret;

#ifdef FLAGS
	flags = FLAGS;
#endif
	VERIF_ASSUME(flags >= 0 && flags <= 7);
	VERIF_ASSUME(line_num0 < 1000);
	for (i = 0; i < LEN; ++i) {
		g_text[i] = verif_nd_u8("text");
		VERIF_ASSUME(g_text[i] != 0);
	}
	g_text[LEN] = 0;
	g_in_obj.get_buffered_data = c12_gl_get;
	g_in_obj.advance_buffer = c12_gl_advance;
	g_cons = 0;
	g_avail = 0;
	g_err = false;
	g_errcode = 0;
	g_eofseen = false;
	g_gets = 0;
	g_pool_live = false;
	g_pool_n = 0;

	s_ret = spec_get_line(g_text, LEN, flags, &s_start, &s_len, &s_cons,
			      &s_skip);
#if defined(FLAGS) && (FLAGS & 4) && LEN >= 2
	VERIF_COVER(s_ret == 0 && s_skip > 0);
#else
	VERIF_COVER(s_ret == 0);
#endif

	ret = istream_get_line(&g_in_obj, &out, &line_num, flags);

	if (ret < 0) {
		VERIF_ASSERT(out == NULL && (ret == SQFS_ERROR_ALLOC ||
					     (g_err && ret == g_errcode)),
			     "C12.get_line.fail");
	} else {
		VERIF_ASSERT(!g_err, "C12.get_line.fail");
		VERIF_ASSERT(ret == s_ret, "C12.get_line.status");
		VERIF_ASSERT(g_cons == s_cons, "C12.get_line.consumed");
		if (ret == 0) {
			VERIF_ASSERT(out != NULL && out[s_len] == 0,
				     "C12.get_line.text");
			for (i = 0; i < s_len; ++i)
				VERIF_ASSERT(((unsigned char *)out)[i] ==
					     g_text[s_start + i],
					     "C12.get_line.text");
			VERIF_ASSERT(line_num == line_num0 + s_skip,
				     "C12.get_line.line_num");
			free(out);
		} else {
			VERIF_ASSERT(out == NULL, "C12.get_line.status");
		}
	}
	if (ret >= 0)
		VERIF_ASSERT(g_avail == 0, "C12.get_line.one_view");
	VERIF_ASSERT(!g_pool_live, "C12.get_line.no_leak");

	VERIF_COVER(ret == 0 && g_gets >= 2 && s_len >= 1);
#if defined(FLAGS) && (FLAGS & 4)
	VERIF_COVER(ret == 1);
#endif
	VERIF_COVER(ret == SQFS_ERROR_ALLOC);
	VERIF_COVER(ret < 0 && g_err);
#if defined(FLAGS) && (FLAGS & 4) && LEN >= 2
	VERIF_COVER(ret == 0 && s_skip > 0);
#endif
#if LEN >= 3
	VERIF_COVER(ret == 0 && g_gets >= 3 && s_len + 1 < g_cons);
#endif
}
