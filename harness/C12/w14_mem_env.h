/* C12 (w14): environment of the memory istream of lib/common/src/stream.c
 * (istream_memory_create: what the tests and the in-memory records use in
 * place of the file istream). The stream contract proved here is the one
 * get_buffered.c / advance.c prove for the file istream, and the one
 * c12_istream_env.h assumes for the consumers (api_read, api_skip, splice,
 * get_line, record).
 *
 * State: any mem_istream_t within the representation invariant
 *   MEM_INV: visible <= bufsz, offset <= size, visible <= size - offset
 * (offset = stream position of buffer[0]; buffer[k] holds stream byte
 * offset + k for k < visible), bufsz >= 1, buffer an object of exactly bufsz
 * bytes, data an object of exactly size bytes (sizes symbolic, contents
 * never materialised).
 *
 * Contents by placement: for one arbitrary stream position g_w the stubs of
 * memcpy / memmove / memset track where in the buffer that byte lives (g_wat,
 * MEM_NOWHERE if not buffered): memcpy from data places it, memmove moves it
 * with the window, memset must never hit it while it is visible.
 */
#ifndef W14_MEM_ENV_H
#define W14_MEM_ENV_H
#include <stdlib.h>
#include <string.h>
#include <assert.h>
#include <unistd.h>
#include "verif.h"
#include "config.h"
#include "compat.h"
#include "common.h"
#include "sqfs/io.h"
#include "sqfs/error.h"

#ifndef MEM_MAX
#define MEM_MAX 0x7fffffffffffULL	/* cbmc's object size limit */
#endif
#define MEM_NOWHERE (~(size_t)0)

sqfs_u8 *g_buf;			/* the stream's buffer object */
size_t g_bufsz;
const sqfs_u8 *g_data;		/* the caller's data */
size_t g_size;
size_t g_w;			/* witness stream position */
size_t g_wat;			/* where stream byte g_w sits in the buffer */
unsigned g_copies, g_moves, g_sets;
/* what the calls are allowed to be: set by the harness before the call */
size_t g_exp_dst, g_exp_src, g_exp_n;

static void *c12m_memcpy(void *dst, const void *src, size_t n)
{
	size_t d = (size_t)((sqfs_u8 *)dst - g_buf);
	size_t s = (size_t)((const sqfs_u8 *)src - g_data);

	VERIF_ASSERT(VERIF_W_OK(dst, n) && VERIF_R_OK(src, n),
		     "C12." C12_FN ".copy_in_bounds");
	VERIF_ASSERT(VERIF_SAME_OBJECT(dst, g_buf) && VERIF_SAME_OBJECT(src, g_data) &&
		     g_copies == 0 && d == g_exp_dst && s == g_exp_src && n == g_exp_n,
		     "C12." C12_FN ".copy_args");
	g_copies += 1;
	/* a byte already buffered is not overwritten, a new one is placed */
	VERIF_ASSERT(g_wat == MEM_NOWHERE || g_wat < d || g_wat >= d + n,
		     "C12." C12_FN ".no_clobber");
	if (g_w >= s && g_w - s < n)
		g_wat = d + (g_w - s);
	return dst;
}

static void *c12m_memmove(void *dst, const void *src, size_t n)
{
	size_t d = (size_t)((sqfs_u8 *)dst - g_buf);
	size_t s = (size_t)((const sqfs_u8 *)src - g_buf);

	VERIF_ASSERT(VERIF_W_OK(dst, n) && VERIF_R_OK(src, n),
		     "C12." C12_FN ".move_in_bounds");
	VERIF_ASSERT(VERIF_SAME_OBJECT(dst, g_buf) && VERIF_SAME_OBJECT(src, g_buf) &&
		     g_moves == 0 && g_sets == 0 && d == g_exp_dst && s == g_exp_src &&
		     n == g_exp_n, "C12." C12_FN ".move_args");
	g_moves += 1;
	if (g_wat != MEM_NOWHERE) {
		if (g_wat >= s && g_wat - s < n)
			g_wat = d + (g_wat - s);
		else if (g_wat >= d && g_wat - d < n)
			g_wat = MEM_NOWHERE;	/* overwritten */
	}
	return dst;
}

static void *c12m_memset(void *dst, int c, size_t n)
{
	size_t d = (size_t)((sqfs_u8 *)dst - g_buf);

	VERIF_ASSERT(VERIF_W_OK(dst, n), "C12." C12_FN ".set_in_bounds");
	VERIF_ASSERT(VERIF_SAME_OBJECT(dst, g_buf) && c == 0 && g_sets == 0,
		     "C12." C12_FN ".set_args");
	g_sets += 1;
	if (g_wat != MEM_NOWHERE && g_wat >= d && g_wat - d < n)
		g_wat = MEM_NOWHERE;		/* wiped */
	return dst;
}

#define memcpy c12m_memcpy
#define memmove c12m_memmove
#define memset c12m_memset
#include "lib/common/src/stream.c"
#undef memcpy
#undef memmove
#undef memset

#define MEM_INV(m) ((m).visible <= (m).bufsz && (m).offset <= (m).size && \
		    (m).visible <= (m).size - (m).offset)

static mem_istream_t g_m;
static size_t g_off0, g_vis0;

static void mem_env_init(void)
{
	g_copies = g_moves = g_sets = 0;
	g_exp_dst = g_exp_src = g_exp_n = 0;
	g_bufsz = verif_nd_size("bufsz");
	g_size = verif_nd_size("size");
	VERIF_ASSUME(g_bufsz >= 1 && g_bufsz <= MEM_MAX && g_size <= MEM_MAX);
	g_buf = malloc(g_bufsz);
	g_data = malloc(g_size);
	VERIF_ASSUME(g_buf != NULL && g_data != NULL);

	g_m.base.get_buffered_data = mem_get_buffered_data;
	g_m.base.advance_buffer = mem_advance_buffer;
	g_m.base.get_filename = mem_in_get_filename;
	g_m.buffer = g_buf;
	g_m.bufsz = g_bufsz;
	g_m.data = g_data;
	g_m.size = g_size;
	g_m.offset = g_off0 = verif_nd_size("offset");
	g_m.visible = g_vis0 = verif_nd_size("visible");
	g_m.name = NULL;
	VERIF_ASSUME(MEM_INV(g_m));

	g_w = verif_nd_size("w");
	VERIF_ASSUME(g_w < g_size);
	g_wat = (g_w >= g_off0 && g_w - g_off0 < g_vis0) ? g_w - g_off0 : MEM_NOWHERE;
}

/* where stream byte g_w must be, given the window [offset, offset + visible) */
#define MEM_WAT(m) ((g_w >= (m).offset && g_w - (m).offset < (m).visible) ? \
		    g_w - (m).offset : MEM_NOWHERE)

#define MEM_FRAME_OK(m) ((m).buffer == g_buf && (m).bufsz == g_bufsz && \
			 (m).data == (const void *)g_data && (m).size == g_size)
#endif
