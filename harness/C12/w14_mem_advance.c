/* C12 (w14): mem_advance_buffer (lib/common/src/stream.c) - loop-free, full
 * domain: any state within MEM_INV, any count <= visible (the consumer's
 * obligation: the function assert()s it; c12_istream_env.h checks it at every
 * call site of the stream API).
 *
 *  C12.mem_advance.inv       MEM_INV before ==> MEM_INV after
 *  C12.mem_advance.consume   offset' = offset + count, visible' = visible -
 *                            count: exactly count bytes are consumed, the
 *                            stream position of the window start moves with
 *                            them (bytes delivered once, in order)
 *  C12.mem_advance.stream    the unread bytes stay the stream bytes behind
 *                            the new offset: buffer'[k] = buffer[count + k]
 *                            (memmove arguments + witness placement), the
 *                            zero fill only touches [visible', bufsz)
 *  C12.mem_advance.move_in_bounds / set_in_bounds
 *                            memmove / memset inside the buffer for every
 *                            (bufsz, visible, count)
 *  C12.mem_advance.frame     buffer, bufsz, data, size untouched
 */
#define C12_FN "mem_advance"
#include "C12/w14_mem_env.h"

void harness(void)
{
	size_t count = verif_nd_size("count");

	mem_env_init();
	VERIF_ASSUME(count <= g_vis0);
	g_exp_dst = 0;
	g_exp_src = count;
	g_exp_n = g_vis0 - count;
	VERIF_COVER(count > 0 && count < g_vis0);

	mem_advance_buffer((sqfs_istream_t *)&g_m, count);

	VERIF_ASSERT(MEM_INV(g_m), "C12.mem_advance.inv");
	VERIF_ASSERT(g_m.offset == g_off0 + count && g_m.visible == g_vis0 - count,
		     "C12.mem_advance.consume");
	VERIF_ASSERT(g_moves == ((count > 0 && count < g_vis0) ? 1u : 0u) &&
		     g_copies == 0, "C12.mem_advance.stream");
	VERIF_ASSERT(g_wat == MEM_WAT(g_m), "C12.mem_advance.stream");
	VERIF_ASSERT(MEM_FRAME_OK(g_m), "C12.mem_advance.frame");

	VERIF_COVER(count > 0 && count < g_vis0 && g_wat != MEM_NOWHERE && g_wat > 0);
	VERIF_COVER(count == g_vis0 && count > 0);
	VERIF_COVER(count == 0 && g_vis0 == g_bufsz && g_sets == 0);
	VERIF_COVER(g_sets == 1 && g_m.visible > 0);
	VERIF_COVER(g_w >= g_off0 && g_w - g_off0 < count);
}
