/* C12 - shared vocabulary of the syscall contracts.
 *
 * errno: the macro expands to *__errno_location(); under CBMC that function
 * is defined here over the ghost g_errno so that loop/function assigns
 * clauses can name it. Natively (replay) the real errno is used.
 */
#ifndef C12_ENV_H
#define C12_ENV_H
#include "verif.h"
#include <errno.h>
#include <sys/types.h>

#ifdef VERIF_REPLAY
#define g_errno errno
#else
int g_errno;
int *__errno_location(void) { return &g_errno; }
#endif

/* outcome classes of one transfer syscall, chosen freely at every call */
#define C12_MAX_XFER ((size_t)0x7ffff000) /* Linux caps one transfer here */

/* one arbitrary outcome in [-1, n]; errno arbitrary when -1 */
static inline ssize_t c12_any_outcome(size_t n, const char *tag)
{
	ssize_t r = (ssize_t)verif_nd_i64(tag);
	VERIF_ASSUME(r >= -1 && (r < 0 || (size_t)r <= n));
	return r;
}
#endif
