/* C12 - contract of an sqfs_istream_t (and an sqfs_ostream_t) for the
 * harnesses over lib/sqfs/src/io/stream_api.c and its callers.
 *
 * The stream holds g_rem more bytes (arbitrary). get_buffered_data may, at
 * EVERY call, fail with any negative code, and otherwise shows the consumer
 * a view of ANY non-empty length 1..(bytes left) - down to one byte at a
 * time, regardless of `want` - or reports EOF (> 0) exactly when nothing is
 * left. This is what file_get_buffered_data guarantees (get_buffered.c:
 * view / progress / eof / fail), with the chunk size left arbitrary.
 * advance_buffer(count) requires an outstanding view and count <= its size.
 *
 * Contents by placement: for one arbitrary stream position g_w (0 = first
 * byte not yet consumed at harness entry) the stubs record where that byte
 * was copied to / whether it was appended; it is never materialised.
 */
#ifndef C12_ISTREAM_ENV_H
#define C12_ISTREAM_ENV_H
#include <stdlib.h>
#include "verif.h"
#include "sqfs/io.h"
#include "sqfs/error.h"

sqfs_istream_t g_in_obj;
sqfs_istream_t *g_in;
uint64_t g_rem;        /* bytes until EOF at entry */
uint64_t g_cons;       /* bytes consumed (advanced over) so far */
size_t g_avail;        /* size of the outstanding view, 0 if none */
const sqfs_u8 *g_view; /* the outstanding view */
bool g_err;            /* a call on the stream failed */
int g_errcode;
bool g_eofseen;        /* EOF was reported */
unsigned g_gets;       /* saturating counter, cover points only */
uint64_t g_w;          /* witness stream position */
sqfs_u8 *g_win;        /* the stream's buffer object: views point into it */
size_t g_winsz;

#ifndef C12_VIEW_MAX
#define C12_VIEW_MAX 0x7fffffffffffULL /* CBMC's object size limit */
#endif

static int c12_in_get(sqfs_istream_t *strm, const sqfs_u8 **out,
		      size_t *size, size_t want)
{
	uint64_t left;
	size_t n, pos;
	sqfs_u8 *p;

	(void)want;
	VERIF_ASSERT(strm == g_in, "C12." C12_FN ".in_args");
	VERIF_ASSERT(!g_err && !g_eofseen, "C12." C12_FN ".stops_on_error");
	VERIF_ASSERT(g_avail == 0, "C12." C12_FN ".one_view");
	if (g_gets < 3)
		g_gets++;

	if (verif_nd_bool("get.fails")) {
		g_errcode = verif_nd_int("get.err");
		VERIF_ASSUME(g_errcode < 0);
		g_err = true;
		return g_errcode;
	}
	left = g_rem - g_cons;
	if (left == 0) {
		int r = verif_nd_int("get.eof");
		VERIF_ASSUME(r > 0);
		g_eofseen = true;
		*out = NULL;
		*size = 0;
		return r;
	}
	/* the view is any window of the stream's (ghost) buffer object, whose
	 * size is itself arbitrary: no bound on the chunk size */
	n = verif_nd_size("get.size");
	VERIF_ASSUME(n >= 1 && n <= left && n <= g_winsz);
	pos = verif_nd_size("get.pos");
	VERIF_ASSUME(pos <= g_winsz - n);
	p = g_win + pos;
	g_view = p;
	g_avail = n;
	*out = p;
	*size = n;
	return 0;
}

static void c12_in_advance(sqfs_istream_t *strm, size_t count)
{
	VERIF_ASSERT(strm == g_in, "C12." C12_FN ".in_args");
	VERIF_ASSERT(g_avail > 0 && count <= g_avail,
		     "C12." C12_FN ".advance_le_view");
	g_cons += count;
	g_avail = 0;
	g_view = NULL;
}

static const char *c12_in_filename(sqfs_istream_t *strm)
{
	(void)strm;
	return "in";
}

static inline void c12_istream_env_init(void)
{
	g_in = &g_in_obj;
	g_in_obj.get_buffered_data = c12_in_get;
	g_in_obj.advance_buffer = c12_in_advance;
	g_in_obj.get_filename = c12_in_filename;
	g_rem = verif_nd_u64("rem");
	g_cons = 0;
	g_avail = 0;
	g_view = NULL;
	g_err = false;
	g_errcode = 0;
	g_eofseen = false;
	g_gets = 0;
	g_w = verif_nd_u64("w");
	g_winsz = verif_nd_size("winsz");
	VERIF_ASSUME(g_winsz >= 1 && g_winsz <= C12_VIEW_MAX);
	g_win = malloc(g_winsz);
	VERIF_ASSUME(g_win != NULL);
}
#endif
