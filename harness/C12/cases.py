PROPERTY = "C12"
LEVEL = "proof"
FUNCTIONS = [
    "stdio_read_at", "stdio_write_at",                       # io/file.c
    "precache", "file_get_buffered_data", "file_advance_buffer",  # io/istream.c
    "write_all", "realize_sparse", "file_append", "file_flush",   # io/ostream.c
    "sqfs_istream_read", "sqfs_istream_skip", "sqfs_istream_splice",  # io/stream_api.c
    "record_to_memory",                                      # lib/tar
    "istream_get_line (bounded)",                            # lib/util/get_line.c
]
TRUSTED = [
    "pread/pwrite/read/write(2): return any count 1..n, 0, or -1 with any errno at every call; "
    "transfer exactly the returned number of bytes, in order, at the given (p)offset/position "
    "(harness/C12/read_at.c, write_at.c, c12_write_env.h, c12_read_env.h)",
    "EINTR may be returned any finite number of times (termination measure only; safety and the "
    "postconditions hold for every sequence)",
    "fsync(2) / sqfs_native_file_seek: arbitrary success or failure (flush.c, realize_sparse.c)",
    "memmove/memcpy semantics on payload buffers: checking stubs (ranges r_ok/w_ok, the tracked "
    "stream byte moves with the range); CBMC malloc/calloc/free model with every allocation allowed to fail",
    "sqfs_istream_t used by the stream API = contract c12_istream_env.h (any view length >= 1, EOF only "
    "when nothing is left, any negative error) - proved for the file istream by get_buffered/advance/precache; "
    "other istream implementations (xfrm, tar record streams) are C15/C07",
    "isspace() = C locale (table behind glibc's macro) in the get_line harness",
]
ASSUMPTIONS = [
    "termination of the retry loops is proved only for a finite number of EINTR results (an endless EINTR "
    "sequence makes the real loops spin, as intended by the code)",
    "object sizes are capped by CBMC's 2^47-byte object limit (transfer sizes n, hole sizes are otherwise "
    "arbitrary 64-bit values); file offsets stay in the off_t range (offset + n <= INT64_MAX)",
    "contents are tracked by placement of one arbitrary stream position (where did stream byte w go, how "
    "often) - payload bytes are never materialised; valid because none of the proved functions branches on "
    "payload (get_line, which does, is checked with a fully symbolic text instead)",
    "file_append/file_flush and realize_sparse are verified against the contracts of write_all / "
    "realize_sparse (stubs in c12_ostream_contracts.h, each clause proved by the callee's harness); "
    "record_to_memory against the contracts proved in api_read/api_skip",
    "istream_get_line is a bounded stand-in: all texts up to the stated length over the full byte alphabet "
    "except NUL, every chunking, compared with the chunk-free spec spec/getline_spec.h; its heap block is a "
    "fixed pool (realloc never moves it)",
    "read_at_bmc / write_at_bmc are bounded twins (plain BMC, n <= 64, <= 4 system calls) of read_at / write_at: "
    "same obligations without loop contracts, so a change that reshapes the retry loop (annotation no longer "
    "applicable, unbounded proof undecided) is still checked; never counted as proved",
    "fsync interrupted by EINTR is reported as an I/O error by file_flush (not part of the property: only "
    "read/write/pread/pwrite are named)",
    "not covered here: lib/sqfs/src/io/unix.c (open/seek wrappers, loop-free), lib/common/src/stream.c, "
    "tar read_header/iterator (C07), xfrm istream/ostream (C15); whole-program exit status",
    "Windows branches are preprocessed away",
]
EXPLANATION = ("every syscall is replaced by a contract that may return ANY permitted outcome at EVERY call and owns a "
               "ghost transfer cursor; the retry loops carry loop contracts (done + left = total, k-th call issued at "
               "base + done), so the proofs are unbounded in the number and size of short transfers and EINTRs; "
               "callers are verified against the contracts of their callees")

def _h(name, loops=None, **kw):
    d = dict(name=name, file=name + ".c", label="proved", solver="cadical",
             timeout=300)
    if loops:
        d["loops"] = loops
    d.update(kw)
    return d


# mode="dfcc" here only selects the dfcc implementation of loop contracts (no
# function contract is enforced): the classic --apply-loop-contracts pass of
# cbmc 6.11 does not track every second of several consecutive loop-local
# declarations, so the stub's write to the loop-local `diff` through *size is
# reported as not assignable (tool bug, reproduced on a 5-line example).
_FP_IN = {"get_buffered_data": "c12_in_get", "advance_buffer": "c12_in_advance",
          "get_filename": "c12_in_filename"}



def _gl(n, f, tier):
    return dict(id="len%d_f%d" % (n, f), defines={"LEN": n, "FLAGS": f},
                unwind=n + 2, tier=tier)


# istream_get_line: text length x flag value (LTRIM=1, RTRIM=2, SKIP_EMPTY=4),
# one run each; the trimming flags are what makes a run expensive
_GL_CASES = ([_gl(n, f, "quick") for f in range(8) for n in (1, 2, 3)] +
             [_gl(n, f, "quick") for f in (0, 4) for n in (4, 5)] +
             [_gl(4, 7, "quick")] +
             [_gl(4, f, "thorough") for f in (1, 2, 3, 5, 6)] +
             [_gl(n, f, "thorough") for f in (0, 4) for n in (6, 7)])

HARNESSES = [
    _h("read_at", ["stdio_read_at"]),
    _h("write_at", ["stdio_write_at"]),
    # bounded twins of read_at / write_at without loop contracts (plain BMC of
    # the same harness: n <= 64, every outcome sequence of <= 4 system calls).
    # They do not depend on the loop annotation, so a change that reshapes the
    # retry loop (and thereby makes the unbounded proof undecided) is still
    # checked against the same named obligations.
    dict(name="read_at_bmc", file="read_at.c", label="bounded(n <= 64, syscalls <= 4)",
         solver="cadical", timeout=300, unwind=5,
         defines={"RD_MAX": 64, "C12_MAX_CALLS": 4}),
    dict(name="write_at_bmc", file="write_at.c", label="bounded(n <= 64, syscalls <= 4)",
         solver="cadical", timeout=300, unwind=5,
         defines={"WR_MAX": 64, "C12_MAX_CALLS": 4}),
    _h("write_all", ["write_all"]),
    _h("precache", ["precache"], timeout=150),
    _h("get_buffered", ["precache"], timeout=150),
    _h("advance"),
    _h("api_read", ["sqfs_istream_read"], timeout=150, fp=_FP_IN, mode="dfcc"),
    _h("api_skip", ["sqfs_istream_skip"], timeout=150, fp=_FP_IN, mode="dfcc"),
    _h("api_splice", ["sqfs_istream_splice"], timeout=150, mode="dfcc",
       fp=dict(_FP_IN, append="c12_out_append")),
    _h("record", malloc_fail=True, flags=["--memory-leak-check"],
       fp={"get_filename": "c12_in_filename", "get_buffered_data": "rec_get_buffered_data",
           "advance_buffer": "rec_advance_buffer"}),
    dict(name="get_line", file="get_line.c",
         label="bounded(text<=3 all flags; <=5 flags 0/4; <=4 flags 7)",
         timeout=600, cases=_GL_CASES,
         fp={"get_buffered_data": "c12_gl_get", "advance_buffer": "c12_gl_advance"}),
    # write_all is replaced by its contract (proved by the write_all harness)
    # in a pass of its own, before the loop-contract pass would inline it
    _h("realize_sparse", ["realize_sparse"], malloc_fail=True,
       flags=["--memory-leak-check"],
       pre_instrument_flags=["--replace-calls", "write_all:c12_write_all_contract"]),
    # loop-free once the two callees are replaced by their contracts
    _h("append",
       instrument_flags=["--replace-calls", "write_all:c12_write_all_contract",
                         "--replace-calls", "realize_sparse:c12_realize_sparse_contract"]),
    _h("flush",
       instrument_flags=["--replace-calls", "write_all:c12_write_all_contract",
                         "--replace-calls", "realize_sparse:c12_realize_sparse_contract"]),
]
