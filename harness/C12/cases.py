PROPERTY = "C12"
LEVEL = "proof"
FUNCTIONS = ["stdio_read_at", "stdio_write_at", "write_all"]
TRUSTED = []
ASSUMPTIONS = []


def _h(name, loops=None, **kw):
    d = dict(name=name, file=name + ".c", label="proved", solver="cadical",
             timeout=300)
    if loops:
        d["loops"] = loops
    d.update(kw)
    return d


# mode="dfcc" here only selects the dfcc implementation of loop contracts (no
# function contract is enforced): the classic --apply-loop-contracts pass of
# cbmc 6.11 does not track every second of several consecutive loop-local
# declarations, so the stub's write to the loop-local `diff` through *size is
# reported as not assignable (tool bug, reproduced on a 5-line example).
_FP_IN = {"get_buffered_data": "c12_in_get", "advance_buffer": "c12_in_advance",
          "get_filename": "c12_in_filename"}

HARNESSES = [
    _h("read_at", ["stdio_read_at"]),
    _h("write_at", ["stdio_write_at"]),
    _h("write_all", ["write_all"]),
    _h("precache", ["precache"], timeout=150),
    _h("get_buffered", ["precache"], timeout=150),
    _h("advance"),
    _h("api_read", ["sqfs_istream_read"], timeout=150, fp=_FP_IN, mode="dfcc"),
    _h("api_skip", ["sqfs_istream_skip"], timeout=150, fp=_FP_IN, mode="dfcc"),
    _h("api_splice", ["sqfs_istream_splice"], timeout=150, mode="dfcc",
       fp=dict(_FP_IN, append="c12_out_append")),
    _h("record", malloc_fail=True, flags=["--memory-leak-check"],
       fp={"get_filename": "c12_in_filename"}),
    dict(name="get_line", file="get_line.c", label="bounded(text<=5)",
         flags=["--memory-leak-check"], timeout=600,
         fp={"get_buffered_data": "c12_gl_get", "advance_buffer": "c12_gl_advance"},
         cases=[dict(id="len%d" % n, defines={"LEN": n}, unwind=n + 3,
                     tier="quick" if n <= 5 else "thorough",
                     **({} if n <= 5 else {"label": "bounded(text<=8)"}))
                for n in range(1, 9)]),
    # write_all is replaced by its contract (proved by the write_all harness)
    # in a pass of its own, before the loop-contract pass would inline it
    _h("realize_sparse", ["realize_sparse"], malloc_fail=True,
       flags=["--memory-leak-check"],
       pre_instrument_flags=["--replace-calls", "write_all:c12_write_all_contract"]),
    # loop-free once the two callees are replaced by their contracts
    _h("append",
       instrument_flags=["--replace-calls", "write_all:c12_write_all_contract",
                         "--replace-calls", "realize_sparse:c12_realize_sparse_contract"]),
    _h("flush",
       instrument_flags=["--replace-calls", "write_all:c12_write_all_contract",
                         "--replace-calls", "realize_sparse:c12_realize_sparse_contract"]),
]
