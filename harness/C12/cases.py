PROPERTY = "C12"
LEVEL = "proof"
FUNCTIONS = ["stdio_read_at", "stdio_write_at", "write_all"]
TRUSTED = []
ASSUMPTIONS = []


def _h(name, loops=None, **kw):
    d = dict(name=name, file=name + ".c", label="proved", solver="cadical",
             timeout=300)
    if loops:
        d["loops"] = loops
    d.update(kw)
    return d


HARNESSES = [
    _h("read_at", ["stdio_read_at"]),
    _h("write_at", ["stdio_write_at"]),
    _h("write_all", ["write_all"]),
    _h("realize_sparse", ["realize_sparse", "write_all"], malloc_fail=True,
       flags=["--memory-leak-check"]),
    _h("append", ["realize_sparse", "write_all"], malloc_fail=True,
       flags=["--memory-leak-check"], timeout=600),
    _h("flush", ["realize_sparse", "write_all"], malloc_fail=True,
       flags=["--memory-leak-check"], timeout=600),
]
