PROPERTY = "C12"
LEVEL = "proof"
FUNCTIONS = ["stdio_read_at", "stdio_write_at", "write_all"]
TRUSTED = []
ASSUMPTIONS = []


def _h(name, loops=None, **kw):
    d = dict(name=name, file=name + ".c", label="proved", solver="cadical",
             timeout=300)
    if loops:
        d["loops"] = loops
    d.update(kw)
    return d


HARNESSES = [
    _h("read_at", ["stdio_read_at"]),
    _h("write_at", ["stdio_write_at"]),
    _h("write_all", ["write_all"]),
    _h("precache", ["precache"], timeout=150),
    _h("realize_sparse", ["realize_sparse", "write_all"], malloc_fail=True,
       flags=["--memory-leak-check"],
       instrument_flags=["--replace-calls", "write_all:c12_write_all_contract"]),
    # loop-free after the two callees are replaced by their contracts; the
    # loops= entry only makes the driver run goto-instrument (instrument_flags
    # are ignored otherwise) - the rows annotate the now unreachable callee
    _h("append", ["write_all"], loop_rows_reachable=0,
       instrument_flags=["--replace-calls", "write_all:c12_write_all_contract",
                         "--replace-calls", "realize_sparse:c12_realize_sparse_contract"]),
    _h("flush", ["write_all"], loop_rows_reachable=0,
       instrument_flags=["--replace-calls", "write_all:c12_write_all_contract",
                         "--replace-calls", "realize_sparse:c12_realize_sparse_contract"]),
]
