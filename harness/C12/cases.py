PROPERTY = "C12"
LEVEL = "proof"
FUNCTIONS = ["stdio_read_at"]
TRUSTED = []
ASSUMPTIONS = []
HARNESSES = [
    dict(name="read_at", file="read_at.c", label="proved",
         loops=["stdio_read_at"], timeout=120),
]
