/* C12: file_advance_buffer (lib/sqfs/src/io/istream.c) - loop-free, full
 * domain. Consumes min(count, unread) bytes of the stream without moving
 * any byte, and keeps the representation invariant that get_buffered.c and
 * precache.c start from.
 *
 *  C12.advance.inv       INV before ==> INV after
 *  C12.advance.consume   unread' = unread - min(count, unread)
 *  C12.advance.inplace   count < unread: offset' = offset + count, used' = used
 *                        (stream byte count+k is now unread byte k, same place)
 *  C12.advance.frame     eof, fd untouched
 */
#include <stdlib.h>
#include "verif.h"
#include "lib/sqfs/src/io/istream.c"

#define INV(f) ((f).buffer_used <= BUFSZ && \
		((f).buffer_offset < (f).buffer_used || \
		 ((f).buffer_offset == 0 && (f).buffer_used == 0)))

void harness(void)
{
	static file_istream_t f;
	bool eof0 = verif_nd_bool("eof");
	size_t count = verif_nd_size("count");
	size_t off0, used0, unread0, take;
	int fd0;

	f.fd = fd0 = verif_nd_int("fd");
	f.eof = eof0;
	f.buffer_offset = off0 = verif_nd_size("offset");
	f.buffer_used = used0 = verif_nd_size("used");
	VERIF_ASSUME(INV(f));
	unread0 = used0 - off0;
	take = count < unread0 ? count : unread0;
	VERIF_COVER(count > 0 && count < unread0);

	file_advance_buffer((sqfs_istream_t *)&f, count);

	VERIF_ASSERT(INV(f), "C12.advance.inv");
	VERIF_ASSERT(f.buffer_used - f.buffer_offset == unread0 - take,
		     "C12.advance.consume");
	if (count < unread0)
		VERIF_ASSERT(f.buffer_offset == off0 + count &&
			     f.buffer_used == used0, "C12.advance.inplace");
	VERIF_ASSERT(f.eof == eof0 && f.fd == fd0, "C12.advance.frame");

	VERIF_COVER(count < unread0 && count > 0);
	VERIF_COVER(count == unread0 && count > 0);
	VERIF_COVER(count > unread0);
}
