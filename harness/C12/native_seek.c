/* C12: sqfs_native_file_seek (lib/sqfs/src/io/unix.c) - the seek/truncate
 * primitive behind sqfs_file_t.truncate and the sparse-file ostream. An
 * interrupted ftruncate(2) (EINTR) must not be taken for a completed one: the
 * block writer relies on it when it rolls the image back after finding a
 * duplicate, so "success" with the tail still there is a larger, different
 * image than the undisturbed run produces.
 *
 * lseek / ftruncate are contracts: any result at every call, EINTR any finite
 * number of times (loop contract in contracts/loops/C12.tbl: unbounded).
 *
 *  C12.seek.truncate_done   ret == 0 with SQFS_FILE_SEEK_TRUNCATE <=> the LAST
 *                           ftruncate call returned 0, and it was issued with
 *                           (fd, position lseek reported)
 *  C12.seek.no_truncate     without the flag ftruncate is never called
 *  C12.seek.status          lseek failure => SQFS_ERROR_UNSUPPORTED iff
 *                           errno == ESPIPE, else SQFS_ERROR_IO; a hard
 *                           ftruncate failure => SQFS_ERROR_IO; unknown
 *                           flags / whence => SQFS_ERROR_UNSUPPORTED before
 *                           any system call
 *  C12.seek.stops_on_error  no system call after a hard failure
 *  termination: decreases (EINTR fuel)
 */
#include <stdlib.h>
#include "C12/c12_env.h"

int g_fd;
off_t g_pos;		/* what lseek reported */
bool g_lseek_failed, g_hard, g_trunc_ok;
unsigned g_lseeks, g_truncs;
uint64_t g_fuel;

#include "lib/sqfs/src/io/unix.c"

off_t lseek(int fd, off_t offset, int whence)
{
	(void)offset;
	VERIF_ASSERT(fd == g_fd && g_lseeks == 0 && g_truncs == 0,
		     "C12.seek.stops_on_error");
	VERIF_ASSERT(whence == SEEK_SET || whence == SEEK_CUR ||
		     whence == SEEK_END, "C12.seek.status");
	g_lseeks++;
	if (verif_nd_bool("lseek.fail")) {
		g_errno = verif_nd_int("lseek.errno");
		g_lseek_failed = true;
		return (off_t)-1;
	}
	g_pos = (off_t)verif_nd_i64("lseek.pos");
	VERIF_ASSUME(g_pos >= 0);
	return g_pos;
}

int ftruncate(int fd, off_t length)
{
	VERIF_ASSERT(!g_hard && !g_trunc_ok && !g_lseek_failed &&
		     g_lseeks == 1, "C12.seek.stops_on_error");
	VERIF_ASSERT(fd == g_fd && length == g_pos, "C12.seek.truncate_done");
	if (g_truncs < 3)
		g_truncs++;
	if (verif_nd_bool("ftruncate.fail")) {
		g_errno = verif_nd_int("ftruncate.errno");
		if (g_errno == EINTR) {
			VERIF_ASSUME(g_fuel > 0);
			g_fuel--;
		} else {
			g_hard = true;
		}
		return -1;
	}
	g_trunc_ok = true;
	return 0;
}

void harness(void)
{
	sqfs_s64 offset = verif_nd_i64("offset");
	sqfs_u32 flags = verif_nd_u32("flags");
	int ret;

	g_fd = verif_nd_int("fd");
	g_pos = 0;
	g_lseek_failed = g_hard = g_trunc_ok = false;
	g_lseeks = g_truncs = 0;
	g_fuel = verif_nd_u64("fuel");
	g_errno = 0;

	ret = sqfs_native_file_seek(g_fd, offset, flags);

	VERIF_COVER(ret == 0 && (flags & SQFS_FILE_SEEK_TRUNCATE) && g_truncs >= 2);
	VERIF_COVER(ret == 0 && !(flags & SQFS_FILE_SEEK_TRUNCATE));
	VERIF_COVER(ret == SQFS_ERROR_IO && g_hard);
	VERIF_COVER(ret == SQFS_ERROR_UNSUPPORTED && g_lseeks == 0);

	if ((flags & ~(SQFS_FILE_SEEK_FLAG_MASK | SQFS_FILE_SEEK_TYPE_MASK)) ||
	    ((flags & SQFS_FILE_SEEK_TYPE_MASK) != SQFS_FILE_SEEK_START &&
	     (flags & SQFS_FILE_SEEK_TYPE_MASK) != SQFS_FILE_SEEK_CURRENT &&
	     (flags & SQFS_FILE_SEEK_TYPE_MASK) != SQFS_FILE_SEEK_END)) {
		VERIF_ASSERT(ret == SQFS_ERROR_UNSUPPORTED && g_lseeks == 0 &&
			     g_truncs == 0, "C12.seek.status");
		return;
	}
	VERIF_ASSERT(g_lseeks == 1, "C12.seek.status");
	if (g_lseek_failed) {
		VERIF_ASSERT(ret == (g_errno == ESPIPE ? SQFS_ERROR_UNSUPPORTED :
				     SQFS_ERROR_IO) && g_truncs == 0,
			     "C12.seek.status");
		return;
	}
	if (!(flags & SQFS_FILE_SEEK_TRUNCATE)) {
		VERIF_ASSERT(ret == 0 && g_truncs == 0, "C12.seek.no_truncate");
		return;
	}
	VERIF_ASSERT((ret == 0) == g_trunc_ok, "C12.seek.truncate_done");
	VERIF_ASSERT(ret == 0 || (ret == SQFS_ERROR_IO && g_hard),
		     "C12.seek.status");
}
