/* C12 - contract of write(2) for the harnesses over lib/sqfs/src/io/ostream.c.
 *
 * Stream level: g_total counts the bytes the kernel has accepted since the
 * harness started; at EVERY call the kernel may accept any 1..n bytes, return
 * 0, or fail with any errno. For one arbitrary stream position g_w (relative
 * to the position at harness entry) the value that arrived and how often that
 * position was written are recorded - g_w is unconstrained, so what is proved
 * for it is proved for every position.
 *
 * The including harness defines C12_FN (obligation prefix) and
 * c12_write_pre(fd, buf, n): its assertions on the arguments of each call.
 */
#ifndef C12_WRITE_ENV_H
#define C12_WRITE_ENV_H
#include "C12/c12_env.h"

int g_fd;
uint64_t g_total;   /* bytes accepted so far */
bool g_hard;        /* a call failed with errno != EINTR */
bool g_zero;        /* a call returned 0 */
uint64_t g_fuel;    /* finite, arbitrary number of EINTRs still to come */
unsigned g_calls;   /* saturating call counter (cover points only) */
unsigned g_wa_calls; /* calls of the write_all contract (where it replaces write_all) */
uint64_t g_w;       /* witness stream position */
uint8_t g_wval;     /* byte that arrived there */
unsigned g_wcount;  /* number of times it arrived */

static void c12_write_pre(int fd, const void *buf, size_t n);

ssize_t write(int fd, const void *buf, size_t n)
{
	ssize_t r;

	VERIF_ASSERT(!g_hard && !g_zero, "C12." C12_FN ".stops_on_error");
	c12_write_pre(fd, buf, n);
	VERIF_ASSERT(VERIF_R_OK(buf, n), "C12." C12_FN ".buf_readable");
	if (g_calls < 3)
		g_calls++;

	r = c12_any_outcome(n, "write.ret");
	if (r < 0) {
		g_errno = verif_nd_int("write.errno");
		if (g_errno == EINTR) {
			VERIF_ASSUME(g_fuel > 0);
			g_fuel--;
		} else {
			g_hard = true;
		}
	} else if (r == 0) {
		g_zero = true;
	} else {
		if (g_w >= g_total && g_w - g_total < (uint64_t)r) {
			g_wval = ((const uint8_t *)buf)[g_w - g_total];
			g_wcount++;
		}
		g_total += (uint64_t)r;
	}
	return r;
}

static inline void c12_write_env_init(int fd)
{
	g_fd = fd;
	g_total = 0;
	g_hard = g_zero = false;
	g_calls = 0;
	g_wa_calls = 0;
	g_w = verif_nd_u64("w");
	g_wval = 0;
	g_wcount = 0;
	g_fuel = verif_nd_u64("fuel");
}
#endif
