/* C12: sqfs_istream_skip (lib/sqfs/src/io/stream_api.c) - consumes exactly
 * min(n, bytes until EOF) bytes whatever the chunking; n any 64-bit value.
 *
 *  C12.api_skip.count    ret == 0 ==> consumed == min(n, bytes to EOF)
 *  C12.api_skip.fail     ret != 0 <=> the stream failed, ret is its code
 *  C12.api_skip.advance_le_view / one_view / stops_on_error / in_args
 */
#define C12_FN "api_skip"
#include "C12/c12_istream_env.h"

uint64_t g_n;

#include "lib/sqfs/src/io/stream_api.c"

void harness(void)
{
	uint64_t n = verif_nd_u64("n"), expect;
	int ret;

	c12_istream_env_init();
	g_n = n;
	expect = g_rem < n ? g_rem : n;
	VERIF_COVER(n > 4 && g_rem > 4);

	ret = sqfs_istream_skip(g_in, n);

	VERIF_ASSERT((ret != 0) == g_err, "C12.api_skip.fail");
	if (ret != 0)
		VERIF_ASSERT(ret == g_errcode, "C12.api_skip.fail");
	else
		VERIF_ASSERT(g_cons == expect, "C12.api_skip.count");
	VERIF_ASSERT(g_avail == 0, "C12.api_skip.one_view");

	VERIF_COVER(ret == 0 && g_cons == n && n > 4 && g_gets >= 3);
	VERIF_COVER(ret == 0 && g_cons < n && g_eofseen && g_gets >= 3);
	VERIF_COVER(ret == 0 && n > 0xffffffffULL && g_cons == n);
	VERIF_COVER(ret < 0 && g_cons > 0);
}
