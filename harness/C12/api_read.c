/* C12: sqfs_istream_read (lib/sqfs/src/io/stream_api.c) - returns
 * min(n, bytes until EOF) and exactly those stream bytes, in order, whatever
 * chunking get_buffered_data chooses (any view length >= 1 at every call).
 * Loop contract: unbounded number of chunks; n any size_t.
 *
 *  C12.api_read.count       ret >= 0 ==> ret == min(n, 2^31-1, bytes to EOF)
 *                           and exactly ret bytes were consumed
 *  C12.api_read.content     data[k] is stream byte k for k < ret, copied
 *                           exactly once, from the outstanding view
 *  C12.api_read.copy_args   every memcpy is (data+done, view, <= view size)
 *  C12.api_read.advance_le_view / one_view / stops_on_error / in_args
 *  C12.api_read.fail        ret < 0 <=> the stream failed, ret is its code
 */
#define C12_FN "api_read"
#include "C12/c12_istream_env.h"

char *g_data0;
size_t g_n;           /* n clipped to INT32_MAX */
char *g_wdst;         /* where stream byte g_w was copied to */
unsigned g_wcount;

#include "lib/sqfs/src/io/stream_api.c"

void *memcpy(void *dst, const void *src, size_t n)
{
	VERIF_ASSERT((char *)dst == g_data0 + g_cons &&
		     (const sqfs_u8 *)src == g_view && n <= g_avail &&
		     n <= g_n - g_cons, "C12.api_read.copy_args");
	VERIF_ASSERT(VERIF_R_OK(src, n) && VERIF_W_OK(dst, n),
		     "C12.api_read.copy_bounds");
	if (g_w >= g_cons && g_w - g_cons < n) {
		g_wdst = (char *)dst + (g_w - g_cons);
		g_wcount++;
	}
	return dst;
}

#ifndef RD_MAX
#define RD_MAX 0x7fffffffffffULL
#endif

void harness(void)
{
	size_t n = verif_nd_size("n"), cap;
	uint64_t expect;
	char *data;
	sqfs_s32 ret;

	/* the destination buffer has n bytes, up to CBMC's object limit;
	 * beyond it the function would clip at 2^31-1 anyway */
	VERIF_ASSUME(n <= RD_MAX);
	data = malloc(n);
	VERIF_ASSUME(data != NULL);
	c12_istream_env_init();
	g_data0 = data;
	g_n = n > 0x7FFFFFFF ? 0x7FFFFFFF : n;
	g_wdst = NULL;
	g_wcount = 0;
	cap = g_n;
	expect = g_rem < cap ? g_rem : cap;
	VERIF_COVER(n > 4 && g_rem > 4);

	ret = sqfs_istream_read(g_in, data, n);

	VERIF_ASSERT((ret < 0) == g_err, "C12.api_read.fail");
	if (ret < 0)
		VERIF_ASSERT(ret == g_errcode, "C12.api_read.fail");
	if (ret >= 0) {
		VERIF_ASSERT((uint64_t)ret == expect && g_cons == expect,
			     "C12.api_read.count");
		if (g_w < expect)
			VERIF_ASSERT(g_wcount == 1 && g_wdst == data + g_w,
				     "C12.api_read.content");
		else
			VERIF_ASSERT(g_wcount == 0, "C12.api_read.content");
	}
	VERIF_ASSERT(g_avail == 0, "C12.api_read.one_view");

	VERIF_COVER(ret > 4 && (size_t)ret == n && g_gets >= 3);
	VERIF_COVER(ret > 4 && (size_t)ret < n && g_eofseen && g_gets >= 3);
	VERIF_COVER(ret == 0 && n > 0);
	VERIF_COVER(ret == 0x7FFFFFFF);
	VERIF_COVER(ret < 0 && g_cons > 0);
	VERIF_COVER(ret > 0 && g_w < (uint64_t)ret);
}
