/* C12: file_get_buffered_data (lib/sqfs/src/io/istream.c), with the real
 * precache under its loop contract - what the consumer is shown depends only
 * on the stream and the reader state, never on how read(2) chunks the input.
 *
 * State on entry: any file_istream_t satisfying the representation invariant
 *   INV: used <= BUFSZ and (offset < used or offset == used == 0)
 * (established by calloc, preserved by precache / advance_buffer, see
 * advance.c), eof arbitrary, want arbitrary.
 *
 *  C12.get_buffered.view       ret >= 0 ==> *out = buffer+offset',
 *                              *size = used'-offset', INV'
 *  C12.get_buffered.stream     out[k] is stream byte k for all k < size (the
 *                              first unread byte stays first: nothing consumed)
 *  C12.get_buffered.enough     ret == 0 ==> size >= min(want, BUFSZ) or eof
 *  C12.get_buffered.progress   ret == 0 ==> size >= 1 (no empty chunk)
 *  C12.get_buffered.eof        ret > 0 <=> eof' and size == 0; eof' <=> eof or
 *                              a read returned 0
 *  C12.get_buffered.fail       ret < 0 <=> a read failed with errno != EINTR
 *  C12.get_buffered.lazy       no system call if enough bytes are buffered
 *  + the kth_call_args / compact / no_clobber obligations of the read/memmove
 *    contracts at every call.
 */
#include <stdlib.h>
#define C12_FN "get_buffered"
#include "C12/c12_read_env.h"

size_t *g_used_p;
size_t g_off0, g_used0;

#include "lib/sqfs/src/io/istream.c"

static void c12_read_pre(int fd, void *buf, size_t n)
{
	VERIF_ASSERT(fd == g_fd && (uint8_t *)buf == g_bufbase + *g_used_p &&
		     n == BUFSZ - *g_used_p && *g_used_p < BUFSZ &&
		     *g_used_p == g_spos, "C12.get_buffered.kth_call_args");
}

static void c12_memmove_pre(void *dst, const void *src, size_t n)
{
	VERIF_ASSERT(g_moves == 0 && g_calls == 0 && g_off0 > 0 &&
		     g_off0 < g_used0 && (uint8_t *)dst == g_bufbase &&
		     (const uint8_t *)src == g_bufbase + g_off0 &&
		     n == g_used0 - g_off0, "C12.get_buffered.compact");
}

#define INV(f) ((f).buffer_used <= BUFSZ && \
		((f).buffer_offset < (f).buffer_used || \
		 ((f).buffer_offset == 0 && (f).buffer_used == 0)))

void harness(void)
{
	static file_istream_t f;
	bool eof0 = verif_nd_bool("eof");
	size_t want = verif_nd_size("want"), wantc, size = 0;
	const sqfs_u8 *out = NULL;
	bool enough0;
	int ret;

	f.fd = verif_nd_int("fd");
	f.eof = eof0;
	f.buffer_offset = g_off0 = verif_nd_size("offset");
	f.buffer_used = g_used0 = verif_nd_size("used");
	VERIF_ASSUME(INV(f));

	g_fd = f.fd;
	g_bufbase = f.buffer;
	g_bufsz = BUFSZ;
	g_used_p = &f.buffer_used;
	g_keep = g_used0 - g_off0;
	g_spos = g_keep;
	g_hard = g_zero = false;
	g_calls = 0;
	g_moves = 0;
	g_fuel = verif_nd_u64("fuel");
	g_w = verif_nd_u64("w");
	g_wat = g_w < g_keep ? g_off0 + (size_t)g_w : C12_NOWHERE;
	wantc = want > BUFSZ ? BUFSZ : want;
	enough0 = g_used0 != 0 && g_keep >= wantc;
	VERIF_COVER(g_off0 > 0 && g_keep > 4 && want > g_keep);

	ret = file_get_buffered_data((sqfs_istream_t *)&f, &out, &size, want);

	VERIF_ASSERT((ret < 0) == g_hard, "C12.get_buffered.fail");
	VERIF_ASSERT(ret == 0 || ret == 1 || ret == SQFS_ERROR_IO,
		     "C12.get_buffered.fail");
	VERIF_ASSERT(f.eof == (eof0 || g_zero), "C12.get_buffered.eof");
	if (enough0 || eof0)
		VERIF_ASSERT(g_calls == 0 && g_moves == 0 &&
			     f.buffer_offset == g_off0 && f.buffer_used == g_used0,
			     "C12.get_buffered.lazy");
	if (ret >= 0) {
		VERIF_ASSERT(INV(f) && out == f.buffer + f.buffer_offset &&
			     size == f.buffer_used - f.buffer_offset,
			     "C12.get_buffered.view");
		VERIF_ASSERT((ret > 0) == (f.eof && size == 0),
			     "C12.get_buffered.eof");
		VERIF_ASSERT(size == (eof0 || enough0 ? g_keep : g_spos),
			     "C12.get_buffered.stream");
		VERIF_ASSERT(g_wat == (g_w < size ? f.buffer_offset + (size_t)g_w
						  : C12_NOWHERE),
			     "C12.get_buffered.stream");
	}
	if (ret == 0) {
		VERIF_ASSERT(size >= wantc || f.eof, "C12.get_buffered.enough");
		VERIF_ASSERT(size >= 1, "C12.get_buffered.progress");
	}
	VERIF_ASSERT(f.fd == g_fd, "C12.get_buffered.frame");

	VERIF_COVER(ret == 0 && !enough0 && size == BUFSZ && g_calls >= 3 && g_moves == 1);
	VERIF_COVER(ret == 0 && f.eof && !eof0 && size < wantc && size > 0);
	VERIF_COVER(ret == 0 && enough0 && want > 0);
	VERIF_COVER(ret == 0 && want == 0 && g_calls > 0);
	VERIF_COVER(ret == 1 && !eof0);
	VERIF_COVER(ret == 1 && eof0);
	VERIF_COVER(ret == 0 && eof0 && size > 0);
	VERIF_COVER(ret < 0 && g_spos > g_keep);
	VERIF_COVER(ret == 0 && g_w < size && g_w >= g_keep);
}
