/* C12: realize_sparse (lib/sqfs/src/io/ostream.c) - a pending hole of
 * sparse_count bytes becomes exactly sparse_count zero bytes on the stream
 * (SQFS_FILE_OPEN_NO_SPARSE) or one seek over sparse_count bytes, whatever
 * way write(2) splits the zero-fill chunks. The chunk loop carries a loop
 * contract (any hole size); write_all is replaced by its contract, proved in
 * write_all.c: it may accept any prefix of each chunk.
 *
 *  C12.sparse.call_args      every write offers <= min(1024, bytes of the hole
 *                            still missing), on the right fd
 *  C12.sparse.exact          ret == 0 ==> accepted zeros + seeked == hole and
 *                            sparse_count == 0
 *  C12.sparse.zero           every accepted byte is 0, each position once
 *  C12.sparse.fail           ret != 0 ==> a write/seek/allocation failed
 *  C12.sparse.seek_args      seek mode: one seek(fd, hole, CURRENT|TRUNCATE)
 *  C12.sparse.size           file->size advanced by the bytes written
 *  no leak of the zero buffer on any path (--memory-leak-check)
 */
#include <stdlib.h>
#define C12_FN "sparse"
#include "C12/c12_write_env.h"

uint64_t g_hole;     /* sparse_count at entry */
uint64_t g_seeked;   /* bytes skipped by seek */
unsigned g_seeks;
bool g_seek_failed;

#include "lib/sqfs/src/io/ostream.c"

static void c12_write_pre(int fd, const void *buf, size_t n)
{
	VERIF_ASSERT(fd == g_fd && n >= 1 && n <= 1024 &&
		     n <= g_hole - g_total && g_total < g_hole,
		     "C12.sparse.call_args");
}
#include "C12/c12_ostream_contracts.h"

int sqfs_native_file_seek(sqfs_file_handle_t fd, sqfs_s64 offset,
			  sqfs_u32 flags)
{
	int r = verif_nd_int("seek.ret");

	VERIF_ASSERT(fd == g_fd && offset >= 0 && (sqfs_u64)offset == g_hole &&
		     flags == (SQFS_FILE_SEEK_CURRENT | SQFS_FILE_SEEK_TRUNCATE) &&
		     g_seeks == 0, "C12.sparse.seek_args");
	g_seeks++;
	if (r != 0) {
		g_seek_failed = true;
		return r;
	}
	g_seeked += (sqfs_u64)offset;
	return 0;
}

void harness(void)
{
	static file_ostream_t f;
	uint64_t size0 = verif_nd_u64("file.size");
	uint32_t flags = verif_nd_u32("file.flags");
	int ret;

	g_hole = verif_nd_u64("file.sparse");
	VERIF_ASSUME(g_hole <= (uint64_t)INT64_MAX); /* off_t range of the seek */
	f.fd = verif_nd_int("fd");
	f.size = size0;
	f.sparse_count = g_hole;
	f.flags = flags;
	c12_write_env_init(f.fd);
	g_seeked = 0;
	g_seeks = 0;
	g_seek_failed = false;
	VERIF_COVER(g_hole > 4096);

	ret = realize_sparse(&f);

	if (ret == 0) {
		VERIF_ASSERT(g_total + g_seeked == g_hole && f.sparse_count == 0 &&
			     !g_hard && !g_zero && !g_seek_failed,
			     "C12.sparse.exact");
		if (flags & SQFS_FILE_OPEN_NO_SPARSE)
			VERIF_ASSERT(g_seeks == 0 && g_total == g_hole,
				     "C12.sparse.exact");
		else
			VERIF_ASSERT(g_calls == 0 && g_seeked == g_hole,
				     "C12.sparse.exact");
	} else {
		VERIF_ASSERT(g_hard || g_zero || g_seek_failed ||
			     ret == SQFS_ERROR_ALLOC, "C12.sparse.fail");
		VERIF_ASSERT(g_seeked == 0 && g_total <= g_hole &&
			     f.sparse_count <= g_hole &&
			     f.sparse_count >= g_hole - g_total,
			     "C12.sparse.fail");
	}
	if (g_w < g_total)
		VERIF_ASSERT(g_wcount == 1 && g_wval == 0, "C12.sparse.zero");
	else
		VERIF_ASSERT(g_wcount == 0, "C12.sparse.zero");
	VERIF_ASSERT(f.size == size0 + g_total, "C12.sparse.size");
	VERIF_ASSERT(f.fd == g_fd && f.flags == flags, "C12.sparse.frame");

	VERIF_COVER(ret == 0 && g_total > 4096 && g_calls >= 3);
	VERIF_COVER(ret == 0 && g_seeked > 0);
	VERIF_COVER(ret == 0 && g_hole == 0);
	VERIF_COVER(ret == SQFS_ERROR_ALLOC);
	VERIF_COVER(ret != 0 && g_hard && g_total > 1024);
	VERIF_COVER(ret != 0 && g_zero);
	VERIF_COVER(ret != 0 && g_seek_failed);
}
