/* C12 - contract of read(2) plus checking memmove for the harnesses over
 * lib/sqfs/src/io/istream.c (file_istream_t, 128 KiB buffer - never
 * bit-blasted: memmove is a checking witness stub, read writes one witness
 * byte).
 *
 * Stream level: position 0 is the first byte the consumer has not taken yet
 * (buffer[buffer_offset] at harness entry). g_spos is the stream position of
 * the next byte the kernel will deliver. At EVERY call the kernel may deliver
 * any 1..n bytes, report end of file (0) or fail with any errno. For one
 * arbitrary stream position g_w the stream's byte value is g_wval; whoever
 * moves that byte (kernel, memmove) moves the value - g_w is unconstrained,
 * so what is proved for it holds for every position. Payload bytes other
 * than the witness are not modelled; the functions under proof never read
 * payload.
 */
#ifndef C12_READ_ENV_H
#define C12_READ_ENV_H
#include "C12/c12_env.h"

int g_fd;
uint8_t *g_bufbase;  /* file->buffer */
size_t g_bufsz;      /* BUFSZ */
uint64_t g_spos;     /* stream position the kernel is at */
uint64_t g_keep;     /* unread bytes in the buffer at entry */
bool g_hard;         /* a read failed with errno != EINTR */
bool g_zero;         /* a read returned 0 (end of file) */
uint64_t g_fuel;
unsigned g_calls;
uint64_t g_w;        /* witness stream position */
uint8_t g_wval;      /* the stream's byte there */
unsigned g_moves;    /* memmove calls */

static void c12_read_pre(int fd, void *buf, size_t n);
static void c12_memmove_pre(void *dst, const void *src, size_t n);

ssize_t read(int fd, void *buf, size_t n)
{
	ssize_t r;

	VERIF_ASSERT(!g_hard && !g_zero, "C12." C12_FN ".stops_on_error");
	c12_read_pre(fd, buf, n);
	VERIF_ASSERT(VERIF_W_OK(buf, n), "C12." C12_FN ".buf_writable");
	if (g_calls < 3)
		g_calls++;

	r = c12_any_outcome(n, "read.ret");
	if (r < 0) {
		g_errno = verif_nd_int("read.errno");
		if (g_errno == EINTR) {
			VERIF_ASSUME(g_fuel > 0);
			g_fuel--;
		} else {
			g_hard = true;
		}
	} else if (r == 0) {
		g_zero = true;
	} else {
		if (g_w >= g_spos && g_w - g_spos < (uint64_t)r)
			((uint8_t *)buf)[g_w - g_spos] = g_wval;
		g_spos += (uint64_t)r;
	}
	return r;
}

/* checking witness memmove: bounds of both ranges are obligations; the one
 * byte that matters (the witness, if it lies in the moved range) is moved */
void *memmove(void *dst, const void *src, size_t n)
{
	c12_memmove_pre(dst, src, n);
	VERIF_ASSERT(VERIF_R_OK(src, n) && VERIF_W_OK(dst, n),
		     "C12." C12_FN ".memmove_bounds");
	g_moves++;
	if (g_w < n)
		((uint8_t *)dst)[g_w] = ((const uint8_t *)src)[g_w];
	return dst;
}
#endif
