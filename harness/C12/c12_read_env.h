/* C12 - contract of read(2) plus checking memmove for the harnesses over
 * lib/sqfs/src/io/istream.c (file_istream_t, 128 KiB buffer - never
 * bit-blasted, never even written by the stubs).
 *
 * Stream level: position 0 is the first byte the consumer has not taken yet
 * (buffer[buffer_offset] at harness entry). g_spos is the stream position of
 * the next byte the kernel will deliver. At EVERY call the kernel may deliver
 * any 1..n bytes, report end of file (0) or fail with any errno.
 *
 * Contents are tracked by placement: for one arbitrary stream position g_w,
 * g_wat is the buffer index at which that stream byte currently lives
 * (C12_NOWHERE if it is not in the buffer). read() places it, memmove() moves
 * it, and any later write over its place is an obligation failure
 * (no_clobber). g_w is unconstrained, so "buffer[k] holds stream byte k"
 * proved for g_w holds for every position.
 */
#ifndef C12_READ_ENV_H
#define C12_READ_ENV_H
#include "C12/c12_env.h"
#define C12_NOWHERE SIZE_MAX

int g_fd;
uint8_t *g_bufbase;  /* file->buffer */
size_t g_bufsz;      /* BUFSZ */
uint64_t g_spos;     /* stream position the kernel is at */
uint64_t g_keep;     /* unread bytes in the buffer at entry */
bool g_hard;         /* a read failed with errno != EINTR */
bool g_zero;         /* a read returned 0 (end of file) */
uint64_t g_fuel;
unsigned g_calls;
uint64_t g_w;        /* witness stream position */
size_t g_wat;        /* buffer index where that byte lives, or C12_NOWHERE */
unsigned g_moves;    /* memmove calls */

static void c12_read_pre(int fd, void *buf, size_t n);
static void c12_memmove_pre(void *dst, const void *src, size_t n);

ssize_t read(int fd, void *buf, size_t n)
{
	ssize_t r;

	VERIF_ASSERT(!g_hard && !g_zero, "C12." C12_FN ".stops_on_error");
	c12_read_pre(fd, buf, n);
	VERIF_ASSERT(VERIF_W_OK(buf, n), "C12." C12_FN ".buf_writable");
	if (g_calls < 3)
		g_calls++;

	r = c12_any_outcome(n, "read.ret");
	if (r < 0) {
		g_errno = verif_nd_int("read.errno");
		if (g_errno == EINTR) {
			VERIF_ASSUME(g_fuel > 0);
			g_fuel--;
		} else {
			g_hard = true;
		}
	} else if (r == 0) {
		g_zero = true;
	} else {
		size_t bi = (size_t)((uint8_t *)buf - g_bufbase);
		VERIF_ASSERT(g_wat == C12_NOWHERE ||
			     !(g_wat >= bi && g_wat - bi < (size_t)r),
			     "C12." C12_FN ".no_clobber");
		if (g_w >= g_spos && g_w - g_spos < (uint64_t)r)
			g_wat = bi + (size_t)(g_w - g_spos);
		g_spos += (uint64_t)r;
	}
	return r;
}

/* checking memmove: bounds of both ranges are obligations; the tracked
 * stream byte moves with the range, and must not be overwritten by it */
void *memmove(void *dst, const void *src, size_t n)
{
	size_t di, si;

	c12_memmove_pre(dst, src, n);
	VERIF_ASSERT(VERIF_R_OK(src, n) && VERIF_W_OK(dst, n),
		     "C12." C12_FN ".memmove_bounds");
	g_moves++;
	di = (size_t)((uint8_t *)dst - g_bufbase);
	si = (size_t)((const uint8_t *)src - g_bufbase);
	if (g_wat != C12_NOWHERE) {
		if (g_wat >= si && g_wat - si < n)
			g_wat = di + (g_wat - si);
		else
			VERIF_ASSERT(!(g_wat >= di && g_wat - di < n),
				     "C12." C12_FN ".no_clobber");
	}
	return dst;
}
#endif
