# C12 (lead, round 2): the seek/truncate primitive of lib/sqfs/src/io/unix.c
# (seed C12-4: an interrupted ftruncate taken for a completed one).
FUNCTIONS = ["sqfs_native_file_seek"]
TRUSTED = ["lseek(2) / ftruncate(2): any result at every call, errno arbitrary on failure; EINTR any finite number of times (harness/C12/native_seek.c)"]
ASSUMPTIONS = []
HARNESSES = [
    dict(name="native_seek", file="native_seek.c", label="proved", timeout=300,
         loops=["sqfs_native_file_seek"],
         # flags & ~(MASK): int -> unsigned conversion of a negative constant, well defined
         nochecks=["--conversion-check"],
         must_have=["C12.seek.truncate_done", "C12.seek.status"]),
]
