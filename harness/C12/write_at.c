/* C12: stdio_write_at (lib/sqfs/src/io/file.c) - the bytes that reach the
 * file, the recorded file size and the status do not depend on how the kernel
 * splits the transfer.
 *
 * pwrite() is its contract: any count 1..n, 0, or -1 with any errno at every
 * call; it owns the ghost cursor and checks the k-th call against it. Loop
 * contract in contracts/loops/C12.tbl: unbounded number of short writes.
 *
 *  C12.write_at.kth_call_args  k-th call is (fd, buf+done, n-done, off+done)
 *  C12.write_at.buf_readable
 *  C12.write_at.stops_on_error
 *  C12.write_at.exact          ret == 0 <=> sum of accepted counts == n, no
 *                              hard error, no 0 return
 *  C12.write_at.status
 *  C12.write_at.content        ret == 0 ==> file byte off+k was written exactly
 *                              once, with buf[k] (witness offset: every k)
 *  C12.write_at.size           ret == 0 ==> size' = max(size, off+n);
 *                              ret != 0 ==> size' = size
 *  C12.write_at.frame          fd / readonly untouched, buffer not written
 */
#include <stdlib.h>
#include "C12/c12_env.h"

int g_fd;
const char *g_buf0;
size_t g_n0;
uint64_t g_off0;
size_t g_done;
bool g_hard;
bool g_zero;
uint64_t g_woff;    /* witness file offset */
uint8_t g_wval;     /* value the file received there */
unsigned g_wcount;  /* how many times it was written (saturating at 2) */
uint64_t g_fuel;
unsigned g_calls;
unsigned g_ncalls;

#include "lib/sqfs/src/io/file.c"

ssize_t pwrite(int fd, const void *buf, size_t n, off_t off)
{
	ssize_t r;

	VERIF_ASSERT(!g_hard && !g_zero, "C12.write_at.stops_on_error");
	VERIF_ASSERT(fd == g_fd && (const char *)buf == g_buf0 + g_done &&
		     n == g_n0 - g_done && off >= 0 &&
		     (uint64_t)off == g_off0 + g_done,
		     "C12.write_at.kth_call_args");
	VERIF_ASSERT(VERIF_R_OK(buf, n), "C12.write_at.buf_readable");
	if (g_calls < 3)
		g_calls++;
#ifdef C12_MAX_CALLS
	/* bounded twin (see cases.py): at most C12_MAX_CALLS system calls */
	VERIF_ASSUME(g_ncalls < C12_MAX_CALLS);
	g_ncalls++;
#endif

	r = c12_any_outcome(n, "pwrite.ret");
	if (r < 0) {
		g_errno = verif_nd_int("pwrite.errno");
		if (g_errno == EINTR) {
			VERIF_ASSUME(g_fuel > 0);
			g_fuel--;
		} else {
			g_hard = true;
		}
	} else if (r == 0) {
		g_zero = true;
	} else {
		if (g_woff >= (uint64_t)off && g_woff - (uint64_t)off < (uint64_t)r) {
			g_wval = ((const uint8_t *)buf)[g_woff - (uint64_t)off];
			if (g_wcount < 2)
				g_wcount++;
		}
		g_done += (size_t)r;
	}
	return r;
}

#ifndef WR_MAX
#define WR_MAX 0x7fffffffffffULL
#endif

void harness(void)
{
	static struct { sqfs_file_stdio_t f; char name[8]; } w;
	size_t n = verif_nd_size("n");
	uint64_t off = verif_nd_u64("off");
	uint64_t size0 = verif_nd_u64("file.size");
	bool ro = verif_nd_bool("ro");
	uint8_t *buf;
	uint8_t b_w = 0;
	int ret;

	VERIF_ASSUME(n <= WR_MAX);
	VERIF_ASSUME(off <= (uint64_t)INT64_MAX - n);
	buf = malloc(n);
	VERIF_ASSUME(buf != NULL);

	w.f.fd = verif_nd_int("fd");
	w.f.size = size0;
	w.f.readonly = ro;
	g_fd = w.f.fd;
	g_buf0 = (const char *)buf;
	g_n0 = n;
	g_off0 = off;
	g_done = 0;
	g_hard = g_zero = false;
	g_calls = 0;
	g_ncalls = 0;
	g_woff = verif_nd_u64("woff");
	g_wval = 0;
	g_wcount = 0;
	g_fuel = verif_nd_u64("fuel");
	if (g_woff >= off && g_woff - off < n) {
		b_w = verif_nd_u8("buf[w]");
		buf[g_woff - off] = b_w;
	}
	VERIF_COVER(n > 4);

	ret = stdio_write_at((sqfs_file_t *)&w.f, off, buf, n);

	VERIF_ASSERT((ret == 0) == (g_done == n && !g_hard && !g_zero),
		     "C12.write_at.exact");
	VERIF_ASSERT(ret == 0 || ret == SQFS_ERROR_IO ||
		     ret == SQFS_ERROR_OUT_OF_BOUNDS, "C12.write_at.status");
	VERIF_ASSERT((ret == SQFS_ERROR_IO) == g_hard, "C12.write_at.status");
	VERIF_ASSERT((ret == SQFS_ERROR_OUT_OF_BOUNDS) == g_zero,
		     "C12.write_at.status");
	if (g_woff >= off && g_woff - off < n) {
		if (ret == 0)
			VERIF_ASSERT(g_wcount == 1 && g_wval == b_w,
				     "C12.write_at.content");
		VERIF_ASSERT(buf[g_woff - off] == b_w, "C12.write_at.frame");
	} else {
		VERIF_ASSERT(g_wcount == 0, "C12.write_at.content");
	}
	if (ret == 0)
		VERIF_ASSERT(w.f.size == (size0 > off + n ? size0 : off + n),
			     "C12.write_at.size");
	else
		VERIF_ASSERT(w.f.size == size0, "C12.write_at.size");
	VERIF_ASSERT(w.f.fd == g_fd && w.f.readonly == ro, "C12.write_at.frame");

	VERIF_COVER(ret == 0 && n > 4 && g_calls >= 3);
	VERIF_COVER(ret == 0 && g_woff >= off && g_woff - off < n);
	VERIF_COVER(ret == 0 && w.f.size > size0);
	VERIF_COVER(ret == 0 && w.f.size == size0 && n > 0);
	VERIF_COVER(ret == SQFS_ERROR_IO && g_done > 0);
	VERIF_COVER(ret == SQFS_ERROR_OUT_OF_BOUNDS && g_done > 0);
}
