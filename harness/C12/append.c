/* C12: file_append (lib/sqfs/src/io/ostream.c) - what the stream receives for
 * one append (the pending hole, then the data) and the status do not depend
 * on how write(2) splits any of the transfers. The function itself is
 * loop-free; realize_sparse and write_all are replaced by their contracts
 * (c12_ostream_contracts.h), each proved on the real function with loop
 * contracts in realize_sparse.c / write_all.c: they may stop after any prefix.
 *
 *  C12.append.hole_deferred   data == NULL or size == 0: no system call, the
 *                             hole only grows (sparse_count, size += size)
 *  C12.append.hole_first      the hole is realised first, before any data
 *  C12.append.call_args       write_all is called once, with (data, n), only
 *                             after the hole is complete
 *  C12.append.exact           ret == 0 ==> accepted + seeked == hole + n and
 *                             sparse_count == 0
 *  C12.append.content         stream = hole zeros (if written) ++ data, each
 *                             position exactly once (witness position)
 *  C12.append.fail            ret != 0 ==> some write/seek/allocation failed
 *  C12.append.size            file->size advanced by the bytes accepted
 */
#include <stdlib.h>
#define C12_FN "append"
#include "C12/c12_write_env.h"

uint64_t g_hole;      /* sparse_count at entry */
uint64_t g_zeros;     /* bytes of the hole that must be written as zeros */
const uint8_t *g_data0;
size_t g_n0;
uint64_t g_seeked;
unsigned g_seeks;
bool g_seek_failed;

#include "lib/sqfs/src/io/ostream.c"

static void c12_write_pre(int fd, const void *buf, size_t n)
{
	VERIF_ASSERT(fd == g_fd && g_wa_calls == 0 && g_total == g_zeros &&
		     g_seeked + g_zeros == g_hole && !g_seek_failed &&
		     (const uint8_t *)buf == g_data0 && n == g_n0,
		     "C12.append.call_args");
}
#define C12_WANT_SPARSE_CONTRACT
#include "C12/c12_ostream_contracts.h"

#ifndef WR_MAX
#define WR_MAX 0x7fffffffffffULL
#endif

void harness(void)
{
	static file_ostream_t f;
	uint64_t size0 = verif_nd_u64("file.size");
	uint32_t flags = verif_nd_u32("file.flags");
	size_t n = verif_nd_size("n");
	bool null_data = verif_nd_bool("data==NULL");
	uint8_t *buf, b_w = 0;
	int ret;

	g_hole = verif_nd_u64("file.sparse");
	VERIF_ASSUME(g_hole <= (uint64_t)INT64_MAX);
	VERIF_ASSUME(n <= WR_MAX);
	buf = malloc(n);
	VERIF_ASSUME(buf != NULL);
	f.fd = verif_nd_int("fd");
	f.size = size0;
	f.sparse_count = g_hole;
	f.flags = flags;
	c12_write_env_init(f.fd);
	g_zeros = (flags & SQFS_FILE_OPEN_NO_SPARSE) ? g_hole : 0;
	g_data0 = buf;
	g_n0 = n;
	g_seeked = 0;
	g_seeks = 0;
	g_seek_failed = false;
	if (g_w >= g_zeros && g_w - g_zeros < n) {
		b_w = verif_nd_u8("buf[w]");
		buf[g_w - g_zeros] = b_w;
	}
	VERIF_COVER(n > 4 && g_hole > 2048);

	ret = file_append((sqfs_ostream_t *)&f, null_data ? NULL : buf, n);

	if (null_data || n == 0) {
		VERIF_ASSERT(ret == 0 && g_calls == 0 && g_seeks == 0 &&
			     f.sparse_count == g_hole + n && f.size == size0 + n,
			     "C12.append.hole_deferred");
	} else {
		if (ret == 0)
			VERIF_ASSERT(g_total == g_zeros + n &&
				     g_seeked + g_zeros == g_hole &&
				     f.sparse_count == 0 && !g_hard && !g_zero &&
				     !g_seek_failed, "C12.append.exact");
		else
			VERIF_ASSERT(g_hard || g_zero || g_seek_failed ||
				     ret == SQFS_ERROR_ALLOC, "C12.append.fail");
		VERIF_ASSERT(g_total <= g_zeros + n, "C12.append.exact");
		if (g_w < g_total)
			VERIF_ASSERT(g_wcount == 1 &&
				     g_wval == (g_w < g_zeros ? 0 : b_w),
				     "C12.append.content");
		else
			VERIF_ASSERT(g_wcount == 0, "C12.append.content");
		VERIF_ASSERT(f.size == size0 + g_total, "C12.append.size");
	}
	VERIF_ASSERT(f.fd == g_fd && f.flags == flags, "C12.append.frame");

	VERIF_COVER(null_data && n > 0);
	VERIF_COVER(!null_data && ret == 0 && g_zeros > 2048 && n > 4 && g_calls >= 3);
	VERIF_COVER(!null_data && ret == 0 && g_seeked > 0 && n > 4);
	VERIF_COVER(!null_data && ret == 0 && g_w >= g_zeros && g_w < g_total);
	VERIF_COVER(!null_data && ret == 0 && g_w < g_zeros);
	VERIF_COVER(ret != 0 && g_total > g_zeros && g_zeros > 0);
	VERIF_COVER(ret != 0 && g_total < g_zeros);
	VERIF_COVER(ret == SQFS_ERROR_ALLOC);
}
