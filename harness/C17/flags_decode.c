/* C17: decode_flags (bin/gensquashfs/src/sort_by_file.c) - the keyword list
 * of a sort-file line. Exhaustive over the finite keyword domain: every subset
 * of {dont_fragment, dont_compress, dont_deduplicate, nosparse} (16), in
 * forward and reverse order, with and without blanks around the keywords,
 * combined with every glob variant (none, glob, glob_no_path, both in either
 * order) - 320 concrete lines (driver: one run per glob variant and block of
 * subsets) executed symbolically (the text is concrete, so
 * this is an exhaustive evaluation of the real decoder, with all memory
 * checks), plus the malformed shapes.
 *
 *  ensures  C17.flags.decode      the resulting flag word has exactly the
 *              SQFS_BLK_* bits of the keywords present - nothing else
 *           C17.flags.glob_mode   do_glob / path_glob: glob -> (1,1),
 *              glob_no_path -> (1,0), the last one wins, none -> (0,0)
 *           C17.flags.rest        the flag list and the blanks after it are
 *              removed, the file name is left at the start of the buffer
 *           C17.flags.no_list     a line that does not start with '[' is left
 *              alone: flags 0, no glob
 *           C17.flags.malformed   unknown keyword, missing ']' or missing
 *              blank after the list ==> -1
 */
#include <stdlib.h>
#include <string.h>
#include <stdio.h>
#include <ctype.h>
#include "verif.h"

#undef isspace
#undef isdigit
#define isspace(c) ((c) == ' ' || ((c) >= '\t' && (c) <= '\r'))
#define isdigit(c) ((c) >= '0' && (c) <= '9')

static int c17_fprintf(FILE *f, const char *fmt, ...);
static void c17_free(void *p);
#define fprintf c17_fprintf
#define free c17_free
#include "bin/gensquashfs/src/sort_by_file.c"
#undef fprintf
#undef free

static struct {
	split_line_t s;
	char *args[8];
} g_split;
static bool g_split_live;

/* stand-in for split_line on unquoted input, see sort_match.c */
int split_line(char *line, size_t len, const char *sep, split_line_t **out)
{
	size_t i = 0;

	VERIF_ASSERT(!g_split_live && sep[0] == ',' && sep[1] == '\0',
		     "C17.flags.env_pre");
	g_split.s.count = 0;
	while (i < len && line[i] != '\0') {
		while (i < len && line[i] == ',')
			++i;
		if (i >= len || line[i] == '\0')
			break;
		VERIF_ASSERT(g_split.s.count < 8, "C17.flags.env_pre");
		g_split.s.args[g_split.s.count++] = line + i;
		while (i < len && line[i] != ',' && line[i] != '\0')
			++i;
		if (i < len && line[i] == ',')
			line[i++] = '\0';
		else if (i == len)
			line[i] = '\0';
	}
	g_split_live = true;
	*out = &g_split.s;
	return SPLIT_LINE_OK;
}

void trim(char *buffer)
{
	size_t i = 0, n;

	while (buffer[i] == ' ' || buffer[i] == '\t')
		++i;
	n = strlen(buffer + i);
	memmove(buffer, buffer + i, n + 1);
	while (n > 0 && (buffer[n - 1] == ' ' || buffer[n - 1] == '\t'))
		buffer[--n] = '\0';
}

static void c17_free(void *p)
{
	if (p == (void *)&g_split.s) {
		VERIF_ASSERT(g_split_live, "C17.flags.env_pre");
		g_split_live = false;
		return;
	}
	free(p);
}

static int c17_fprintf(FILE *f, const char *fmt, ...)
{
	(void)f; (void)fmt;
	return 0;
}

int fputs(const char *s, FILE *f) { (void)s; (void)f; return 0; }

/* not reached from decode_flags */
int canonicalize_name(char *filename) { (void)filename; return 0; }

static const char *const g_kw[4] = {
	"dont_fragment", "dont_compress", "dont_deduplicate", "nosparse",
};
static const int g_bit[4] = {
	SQFS_BLK_DONT_FRAGMENT, SQFS_BLK_DONT_COMPRESS,
	SQFS_BLK_DONT_DEDUPLICATE, SQFS_BLK_IGNORE_SPARSE,
};

static char g_line[160];
static size_t g_len;
static int g_nkw;

static void put(const char *s)
{
	size_t i;

	for (i = 0; s[i] != '\0'; ++i)
		g_line[g_len++] = s[i];
	g_line[g_len] = '\0';
}

static void put_kw(const char *s, bool blanks)
{
	if (g_nkw++ > 0)
		put(",");
	if (blanks)
		put(" ");
	put(s);
	if (blanks)
		put("  ");
}

static bool streq(const char *a, const char *b)
{
	size_t i = 0;

	while (a[i] != '\0' && a[i] == b[i])
		++i;
	return a[i] == b[i];
}

static void one_line(int m, int g, bool reverse, bool blanks)
{
	bool do_glob = !true, path_glob = true;
	int flags = -1, expect = 0, k, ret;

	g_len = 0;
	g_nkw = 0;
	put("[");
	if (g == 1 || g == 3)
		put_kw("glob", blanks);
	if (g == 2 || g == 4)
		put_kw("glob_no_path", blanks);
	for (k = 0; k < 4; ++k) {
		int kk = reverse ? 3 - k : k;

		if (m & (1 << kk)) {
			put_kw(g_kw[kk], blanks);
			expect |= g_bit[kk];
		}
	}
	if (g == 3)
		put_kw("glob_no_path", blanks);
	if (g == 4)
		put_kw("glob", blanks);
	put("]  \t some/file name");

	ret = decode_flags("sortfile", 1, &do_glob, &path_glob, &flags, g_line);

	VERIF_ASSERT(ret == 0, "C17.flags.decode");
	VERIF_ASSERT(flags == expect, "C17.flags.decode");
	VERIF_ASSERT(do_glob == (g != 0) &&
		     path_glob == (g == 1 || g == 4), "C17.flags.glob_mode");
	VERIF_ASSERT(streq(g_line, "some/file name"), "C17.flags.rest");
	VERIF_ASSERT(!g_split_live, "C17.flags.env_pre");
}

static void malformed(const char *text, const char *name)
{
	bool do_glob, path_glob;
	int flags, ret;

	(void)name;
	g_len = 0;
	put(text);
	ret = decode_flags("sortfile", 1, &do_glob, &path_glob, &flags, g_line);
	VERIF_ASSERT(ret == -1, "C17.flags.malformed");
	VERIF_ASSERT(!g_split_live, "C17.flags.env_pre");
}

/* target of the get_filename call site of fstree_sort_files (not reached) */
const char *stub_get_filename(sqfs_istream_t *strm)
{
	(void)strm;
	return "sortfile";
}

void harness(void)
{
	bool do_glob = true, path_glob = true;
	int flags = -1, m, g, ret;

	g_split_live = false;

#ifndef PART
#define PART 0
#endif
#ifndef VARIANTS
#define VARIANTS 2
#endif
#ifndef MLO
#define MLO 0
#define MHI 15
#endif
#if PART < 10
	/* PART = glob variant (0..4); MLO..MHI = keyword subsets of this run */
	for (m = MLO; m <= MHI; ++m) {
		g = PART;
		one_line(m, g, false, false);
		one_line(m, g, true, true);
#if VARIANTS >= 4
		one_line(m, g, true, false);
		one_line(m, g, false, true);
#endif
	}
#else
	/* no list at all */
	g_len = 0;
	put("some/file[1] name");
	ret = decode_flags("sortfile", 1, &do_glob, &path_glob, &flags, g_line);
	VERIF_ASSERT(ret == 0 && flags == 0 && !do_glob && !path_glob &&
		     streq(g_line, "some/file[1] name"), "C17.flags.no_list");

	malformed("[dont_compress,bogus] name", "unknown keyword");
	malformed("[dont_compres] name", "truncated keyword");
	malformed("[dont_compress name", "missing bracket");
	malformed("[dont_compress]name", "missing blank");
	malformed("[DONT_COMPRESS] name", "case matters");
#endif
	VERIF_COVER(g_len > 0);
}
