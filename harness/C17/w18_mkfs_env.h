/*
 * w18_mkfs_env.h - what the option parsers of the two packers
 * (bin/gensquashfs/src/options.c, bin/tar2sqfs/src/options.c) call besides
 * the environment of C06/w18_optenv.h, as contracts. Every result is a
 * function of the ARGUMENT OBJECT the callee is given (g_*[ai]), chosen once
 * before the parser runs, so that a relational harness which runs the parser
 * twice sees the same answers for the same words.
 *
 *   strtol/strtoul/strtoll/strtoull   the argument of a numeric option is one
 *        of the concrete texts of w18_numtab; the result, the end pointer and
 *        (for nothing in this table) errno are those of ISO C for that text
 *   parse_size        refuses (-1, *out arbitrary) or stores any size_t
 *   sqfs_compressor_id_from_name   unknown (negative) or any valid id
 *   sqfs_writer_cfg_init   zeroes the configuration and sets the documented
 *        defaults (block size 131072, device block size 4096, job count =
 *        number of CPUs (any value >= 1), default compressor (any id))
 *   compressor_get_default / compressor_print_* : printers do nothing
 */
#ifndef W18_MKFS_ENV_H
#define W18_MKFS_ENV_H

#include <errno.h>
#include <limits.h>

struct w18_num {
	const char *text;
	bool is_number;		/* the whole text is one C integer literal */
	long long value;	/* what strtol(text, &end, 0) returns */
	int endoff;		/* end - text */
};

#define W18_NNUM 7
static const struct w18_num w18_numtab[W18_NNUM] = {
	{ "7", true, 7, 1 },
	{ "0", true, 0, 1 },
	{ "65534", true, 65534, 5 },
	{ "4294967296", true, 4294967296LL, 10 },	/* does not fit 32 bit */
	{ "-2", true, -2, 2 },				/* negative */
	{ "abc", false, 0, 0 },				/* no digits at all */
	{ "5x", false, 5, 1 },				/* trailing garbage */
};
/* entries 0..W18_NUM_VALID-1 are non-negative numbers below 2^32 */
#define W18_NUM_VALID 3

static bool g_isnum[3];		/* argument object holds a text of the table */
static int g_numsel[3];
static bool g_size_ok[3];	/* parse_size verdict / value for the object */
static size_t g_size_val[3];
static bool g_comp_ok[3];	/* compressor name lookup for the object */
static int g_comp_id[3];
static size_t g_def_jobs;
static int g_def_comp;
static unsigned g_cfg_init_calls;
static bool g_env_bad;

static int w18_arg_index(const char *p)
{
	int i;

	for (i = 0; i < 3; ++i) {
		if (p == g_argtab[i])
			return i;
	}
	return -1;
}

/* choose the words: number texts (valid ones only unless W18_GARBAGE_NUMBERS)
 * or arbitrary bytes */
static void w18_mkfs_args(void)
{
	int k, i;

	w18_args_symbolic();
	for (k = 0; k < 3; ++k) {
		g_isnum[k] = verif_nd_bool("arg.isnum");
		g_numsel[k] = verif_nd_u8("arg.numsel");
#ifdef W18_GARBAGE_NUMBERS
		VERIF_ASSUME(g_numsel[k] < W18_NNUM);
#else
		VERIF_ASSUME(g_numsel[k] < W18_NUM_VALID);
#endif
		if (g_isnum[k]) {
			const char *t = w18_numtab[g_numsel[k]].text;

			for (i = 0; i < W18_BUFSZ; ++i) {
				g_argtab[k][i] = t[i];
				if (t[i] == '\0')
					break;
			}
		}
		g_size_ok[k] = verif_nd_bool("parse_size.ok");
		g_size_val[k] = verif_nd_size("parse_size.value");
		g_comp_ok[k] = verif_nd_bool("comp.known");
		g_comp_id[k] = verif_nd_u8("comp.id");
		VERIF_ASSUME(g_comp_id[k] >= SQFS_COMP_MIN &&
			     g_comp_id[k] <= SQFS_COMP_MAX);
	}
	g_def_jobs = verif_nd_size("default.jobs");
	VERIF_ASSUME(g_def_jobs >= 1 && g_def_jobs <= 4096);
	g_def_comp = verif_nd_u8("default.comp");
	VERIF_ASSUME(g_def_comp >= SQFS_COMP_MIN && g_def_comp <= SQFS_COMP_MAX);
	g_cfg_init_calls = 0;
	g_env_bad = false;
}

static long long w18_strto(const char *nptr, char **endptr, int base)
{
	int ai = w18_arg_index(nptr);

	VERIF_ASSERT(ai >= 0 && g_isnum[ai] && (base == 0 || base == 10),
		     "w18.env.strtol.known_text");
	if (ai < 0 || !g_isnum[ai]) {
		g_env_bad = true;
		return 0;
	}
	if (endptr != NULL)
		*endptr = (char *)nptr + w18_numtab[g_numsel[ai]].endoff;
	return w18_numtab[g_numsel[ai]].value;
}

#ifndef VERIF_REPLAY
/* errno is a macro over this function; none of the texts of w18_numtab makes
 * the conversion functions set it */
static int g_errno;
int *__errno_location(void) { return &g_errno; }

long strtol(const char *nptr, char **endptr, int base)
{
	return (long)w18_strto(nptr, endptr, base);
}

unsigned long strtoul(const char *nptr, char **endptr, int base)
{
	/* ISO C: a negative text is converted and negated in the return type */
	return (unsigned long)w18_strto(nptr, endptr, base);
}

long long strtoll(const char *nptr, char **endptr, int base)
{
	return w18_strto(nptr, endptr, base);
}

unsigned long long strtoull(const char *nptr, char **endptr, int base)
{
	return (unsigned long long)w18_strto(nptr, endptr, base);
}
#endif

int parse_size(const char *what, size_t *out, const char *str,
	       size_t reference)
{
	int ai = w18_arg_index(str);

	(void)what;
	VERIF_ASSERT(ai >= 0 && out != NULL && reference == 0,
		     "w18.env.parse_size.pre");
	if (ai < 0) {
		g_env_bad = true;
		return -1;
	}
	if (!g_size_ok[ai]) {
		*out = verif_nd_size("parse_size.junk");
		return -1;
	}
	*out = g_size_val[ai];
	return 0;
}

int sqfs_compressor_id_from_name(const char *name)
{
	int ai = w18_arg_index(name);

	VERIF_ASSERT(ai >= 0, "w18.env.compressor_id.pre");
	if (ai < 0 || !g_comp_ok[ai])
		return SQFS_ERROR_UNSUPPORTED;
	return g_comp_id[ai];
}

SQFS_COMPRESSOR compressor_get_default(void)
{
	return (SQFS_COMPRESSOR)g_def_comp;
}

void sqfs_writer_cfg_init(sqfs_writer_cfg_t *cfg)
{
	g_cfg_init_calls += 1;
	cfg->filename = NULL;
	cfg->fs_defaults = NULL;
	cfg->comp_extra = NULL;
	cfg->block_size = SQFS_DEFAULT_BLOCK_SIZE;
	cfg->devblksize = SQFS_DEVBLK_SIZE;
	cfg->max_backlog = 0;
	cfg->num_jobs = g_def_jobs;
	cfg->outmode = 0;
	cfg->comp_id = (SQFS_COMPRESSOR)g_def_comp;
	cfg->exportable = false;
	cfg->no_xattr = false;
	cfg->quiet = false;
}

void compressor_print_available(void) { }
void compressor_print_help(SQFS_COMPRESSOR id) { (void)id; }

/* 64 bit words of two objects are the same (field names do not matter) */
static bool w18_same_words(const void *a, const void *b, size_t size)
{
	const uint64_t *x = a, *y = b;
	size_t i;

	for (i = 0; i < size / sizeof(uint64_t); ++i) {
		if (x[i] != y[i])
			return false;
	}
	for (i = size - size % sizeof(uint64_t); i < size; ++i) {
		if (((const uint8_t *)a)[i] != ((const uint8_t *)b)[i])
			return false;
	}
	return true;
}

#endif /* W18_MKFS_ENV_H */
