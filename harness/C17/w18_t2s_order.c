/* C17.options.order_free for tar2sqfs (w18), relational: the real
 * process_args() of bin/tar2sqfs/src/options.c run twice, as two fresh
 * processes, on the two orders of the same two different options (a, word 0)
 * and (b, word 1); same words, same callee answers (canonicalize_name here
 * accepts and leaves the word alone). If the first order is accepted,
 *   C17.options.order_free   so is the second, and cfg (compared as 64 bit
 *        words over the whole object), the switches, root_becomes and the
 *        exclude list (by content; two -E are excluded, their order is
 *        meaningful) are identical.
 */
#define W18_RELATIONAL
#undef NOPT
#define NOPT 2
#include "C17/w18_t2s_opts.c"

void harness(void)
{
	static sqfs_writer_cfg_t cfg1;
	static char root1[W18_BUFSZ], ex1[W18_BUFSZ];
	bool f1[4], have_root1;
	size_t nex1;
	int a, b, i;

	w18_env_init();
	w18_mkfs_args();
	t2_env_reset();
	g_second_run = false;

	a = verif_nd_u8("opt.a");
	b = verif_nd_u8("opt.b");
	VERIF_ASSUME(t2_is_opt(a) && t2_is_opt(b) && a != b);

	g_script_on = true;
	g_script_c[0] = a; g_script_arg[0] = 0;
	g_script_c[1] = b; g_script_arg[1] = 1;
	W18_RUN(process_args(g_argc, g_argv));
	if (g_exited)
		return;

	cfg1 = cfg;
	f1[0] = dont_skip; f1[1] = keep_time; f1[2] = no_tail_pack;
	f1[3] = no_symlink_retarget;
	have_root1 = root_becomes != NULL;
	nex1 = excludedirs.count;
	for (i = 0; i < W18_BUFSZ; ++i) {
		root1[i] = have_root1 ? root_becomes[i] : '\0';
		ex1[i] = nex1 == 1 ? excludedirs.strings[0][i] : '\0';
	}

	w18_env_restart();
	t2_env_reset();
	g_cfg_init_calls = 0;
	g_second_run = true;
	g_script_c[0] = b; g_script_arg[0] = 1;
	g_script_c[1] = a; g_script_arg[1] = 0;
	W18_RUN(process_args(g_argc, g_argv));
	if (g_exited)
		return;

	VERIF_ASSERT(w18_same_words(&cfg1, &cfg, sizeof(cfg)), "C17.options.order_free");
	VERIF_ASSERT(f1[0] == dont_skip && f1[1] == keep_time &&
		     f1[2] == no_tail_pack && f1[3] == no_symlink_retarget,
		     "C17.options.order_free");
	VERIF_ASSERT(have_root1 == (root_becomes != NULL) &&
		     nex1 == excludedirs.count, "C17.options.order_free");
	if (have_root1 && root_becomes != NULL)
		VERIF_ASSERT(w18_streq(root1, root_becomes), "C17.options.order_free");
	if (nex1 == 1 && excludedirs.count == 1)
		VERIF_ASSERT(w18_streq(ex1, excludedirs.strings[0]), "C17.options.order_free");

	VERIF_COVER(a == 'T' && b == 'b');
	VERIF_COVER(a == 'b' && b == 'T');
	VERIF_COVER(a == 'r' && b == 'E');
	VERIF_COVER(a == 'j' && b == 'Q');
}
