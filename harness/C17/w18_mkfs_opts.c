/* C17 / C01 (w18): the real process_command_line() of
 * bin/gensquashfs/src/options.c; getopt_long, exit, strdup/strndup/free, the
 * number parsers, the compressor name lookup, the configuration defaults and
 * the printers are contract stubs (C06/w18_optenv.h, w18_mkfs_env.h).
 * getopt_long delivers NOPT options (concrete count); which options, their
 * argument words, optind/argc, all callee outcomes are symbolic. The expected
 * configuration is computed by a model written from gensquashfs.1 (mk_model):
 * a function of the LAST value of each option, hence of the set of (option,
 * last value) pairs and not of their order.
 *
 *   C17.mkfs_opts.tail_packing   no_tail_packing <=> -T was given
 *   C17.mkfs_opts.block_size     cfg.block_size is the parsed value of the
 *        last -b, 131072 without one (whether it is a legal SquashFS block
 *        size is decided by sqfs_super_init, C03, before anything is written)
 *   C17.mkfs_opts.devblksize     same for -B (default 4096); a value below
 *        1024 never gets through
 *   C17.mkfs_opts.compressor     cfg.comp_id is the id the name lookup gave
 *        for the last -c (the default compressor without one); an unknown
 *        name never gets through; cfg.comp_extra is the word of the last -X
 *   C17.mkfs_opts.owner          --set-uid/--set-gid/--all-root: forced value
 *        = the number given (0 for --all-root), DIR_SCAN_KEEP_UID/GID cleared
 *        exactly for the forced ids
 *   C17.mkfs_opts.{uid,gid,jobs,backlog}_number_checked   a word that is not
 *        a number of the field's range (not a number, trailing garbage,
 *        negative, more than 32 bit for an id) never gets through
 *   C17.mkfs_opts.jobs / backlog  -j n (n >= 1) gives n jobs, none gives the
 *        CPU count; -Q n (n >= 1) gives n, otherwise 10 x jobs
 *   C17.mkfs_opts.scan_flags     dirscan_flags == KEEP_MODE | KEEP_UID/GID
 *        unless forced | -k KEEP_TIME | -o ONE_FILESYSTEM | -H NO_HARDLINKS
 *   C17.mkfs_opts.flags_exact    exportable <=> -e, quiet <=> -q, outmode ==
 *        (-f ? OVERWRITE : 0), scan_xattr <=> -x, no_xattr never
 *   C17.mkfs_opts.inputs         infile / sortfile / xattr_file / fs_defaults
 *        are the words of the last -F / -S / -A / -d (NULL without); packdir
 *        is a copy of the last -D, without -D the directory part of the pack
 *        file (NULL if it has none); selinux untouched
 *   C17.mkfs_opts.filename       cfg.filename is the only non-option word
 *   C17.mkfs_opts.must_exit / help_status / failure_status / exit_justified
 *        as in C06/w18_rd_opts.c; additionally "neither -F nor -D" and
 *        "not exactly one non-option word" must end the tool
 *   C13.mkfs_opts.no_leak        on return every live block is packdir
 */
#include "bin/gensquashfs/src/mkfs.h"

#ifndef NOPT
#define NOPT 2
#endif
#ifndef W18_ARGLEN
#define W18_ARGLEN 10
#endif

#define MK_ALL_ROOT 1

static bool mk_has_arg(int c)
{
	return c == 'u' || c == 'g' || c == 'c' || c == 'b' || c == 'B' ||
	       c == 'd' || c == 'X' || c == 'F' || c == 'D' || c == 'j' ||
	       c == 'Q' || c == 'A' || c == 'S';
}

static bool mk_is_numeric(int c)
{
	return c == 'u' || c == 'g' || c == 'j' || c == 'Q';
}

static bool mk_is_opt(int c)
{
	return mk_has_arg(c) || c == MK_ALL_ROOT || c == 'k' || c == 'x' ||
	       c == 'o' || c == 'e' || c == 'T' || c == 'f' || c == 'q' ||
	       c == 'H' || c == 'V' || c == 'h' || c == '?';
}

static bool g_isnum[3];
#define W18_IS_OPT(c) mk_is_opt(c)
#define W18_HAS_ARG(c) mk_has_arg(c)
#define W18_OPT_ARG_OK(c, ai) (!mk_is_numeric(c) || g_isnum[ai])
#include "C06/w18_optenv.h"
#include "C17/w18_mkfs_env.h"

#include "bin/gensquashfs/src/options.c"

/* ------------------------------------------ model, from gensquashfs.1 only */
static int m_stop;
static bool m_T, m_k, m_x, m_o, m_e, m_f, m_q, m_H;
static int m_u, m_g, m_c, m_b, m_B, m_d, m_X, m_F, m_D, m_j, m_Q, m_A, m_S;
static bool m_uid_forced, m_gid_forced;	/* last word on uid/gid: position or
					   --all-root (m_u/m_g == -2) */

static void mk_model(int n)
{
	int k;

	m_stop = -1;
	m_T = m_k = m_x = m_o = m_e = m_f = m_q = m_H = false;
	m_u = m_g = m_c = m_b = m_B = m_d = m_X = m_F = m_D = m_j = m_Q =
		m_A = m_S = -1;
	m_uid_forced = m_gid_forced = false;

	for (k = 0; k < n; ++k) {
		switch (g_optc[k]) {
		case MK_ALL_ROOT:
			m_u = m_g = -2;
			m_uid_forced = m_gid_forced = true;
			break;
		case 'u': m_u = k; m_uid_forced = true; break;
		case 'g': m_g = k; m_gid_forced = true; break;
		case 'c': m_c = k; break;
		case 'b': m_b = k; break;
		case 'B': m_B = k; break;
		case 'd': m_d = k; break;
		case 'X': m_X = k; break;
		case 'F': m_F = k; break;
		case 'D': m_D = k; break;
		case 'j': m_j = k; break;
		case 'Q': m_Q = k; break;
		case 'A': m_A = k; break;
		case 'S': m_S = k; break;
		case 'T': m_T = true; break;
		case 'k': m_k = true; break;
		case 'x': m_x = true; break;
		case 'o': m_o = true; break;
		case 'e': m_e = true; break;
		case 'f': m_f = true; break;
		case 'q': m_q = true; break;
		case 'H': m_H = true; break;
		default:
			if (m_stop < 0)
				m_stop = k;
			break;
		}
	}
}

/* the word option k was given */
static const char *mk_word(int k)
{
	return g_argtab[g_optarg_idx[k]];
}

static const struct w18_num *mk_num(int k)
{
	return &w18_numtab[g_numsel[g_optarg_idx[k]]];
}

static bool mk_num_ok(int k, long long vmin, long long vmax)
{
	const struct w18_num *n = mk_num(k);

	return n->is_number && n->value >= vmin && n->value <= vmax;
}

static bool mk_is_help_word(const char *s)
{
	return s[0] == 'h' && s[1] == 'e' && s[2] == 'l' && s[3] == 'p' &&
	       s[4] == '\0';
}

#ifdef W18_RELATIONAL
static bool g_second_run;
#endif

static void w18_on_exit(int status)
{
	int k = g_pos - 1;

#ifdef W18_RELATIONAL
	/* the first order was accepted, so the second has to be */
	if (g_second_run) {
		VERIF_ASSERT(0, "C17.options.order_free");
		return;
	}
#endif
	if (g_pos == 0) {
		VERIF_ASSERT(0, "C17.mkfs_opts.exit_justified");
	} else if (g_pos <= NOPT) {
		int c = g_optc[k], ai = g_optarg_idx[k];

		if (c == 'h' || c == 'V') {
			VERIF_ASSERT(status == EXIT_SUCCESS, "C17.mkfs_opts.help_status");
#if NOPT >= 1 && !defined(W18_RELATIONAL)
			VERIF_COVER(status == EXIT_SUCCESS);
#endif
		} else {
			VERIF_ASSERT(status != EXIT_SUCCESS, "C17.mkfs_opts.failure_status");
			VERIF_ASSERT(c == '?' ||
				     (c == 'c' && !g_comp_ok[ai]) ||
				     ((c == 'b' || c == 'B') && !g_size_ok[ai]) ||
				     (c == 'B' && g_size_val[ai] < 1024) ||
				     (c == 'D' && g_pool_failed[k + 1]) ||
				     ((c == 'u' || c == 'g') && !mk_num_ok(k, 0, 0xFFFFFFFFLL)) ||
				     ((c == 'j' || c == 'Q') && !mk_num_ok(k, 1, LLONG_MAX)),
				     "C17.mkfs_opts.exit_justified");
#if NOPT >= 1 && !defined(W18_RELATIONAL)
			VERIF_COVER(c == 'c');
			VERIF_COVER(c == 'B' && g_size_ok[ai]);
			VERIF_COVER(c == 'D');
#endif
		}
	} else {
		mk_model(NOPT);
		if (status == EXIT_SUCCESS) {
			/* --comp-extra help prints the compressor's options */
			VERIF_ASSERT(m_X >= 0 && mk_is_help_word(mk_word(m_X)),
				     "C17.mkfs_opts.help_status");
		} else {
			VERIF_ASSERT((m_F < 0 && m_D < 0) ||
				     g_optind_final != g_argc - 1 ||
				     (m_D < 0 && g_pool_failed[NOPT + 1]),
				     "C17.mkfs_opts.exit_justified");
		}
#if !defined(W18_RELATIONAL)
		VERIF_COVER(status != EXIT_SUCCESS);
#endif
	}
}

#ifndef W18_RELATIONAL
/* every obligation on the configuration the parser returned with */
static void mk_check_result(const options_t *opt)
{
	unsigned int sf;
	int k;

	mk_model(NOPT);

	VERIF_ASSERT(m_stop < 0 && (m_F >= 0 || m_D >= 0) &&
		     g_optind_final == g_argc - 1 &&
		     !(m_X >= 0 && mk_is_help_word(mk_word(m_X))),
		     "C17.mkfs_opts.must_exit");
	VERIF_ASSERT(g_cfg_init_calls == 1, "C17.mkfs_opts.defaults");

	VERIF_ASSERT(opt->no_tail_packing == m_T, "C17.mkfs_opts.tail_packing");

	/* block sizes */
	if (m_b >= 0) {
		int ai = g_optarg_idx[m_b];

		VERIF_ASSERT(g_size_ok[ai], "C17.mkfs_opts.must_exit");
		VERIF_ASSERT(opt->cfg.block_size == g_size_val[ai],
			     "C17.mkfs_opts.block_size");
	} else {
		VERIF_ASSERT(opt->cfg.block_size == 131072,
			     "C17.mkfs_opts.block_size");
	}
	if (m_B >= 0) {
		int ai = g_optarg_idx[m_B];

		VERIF_ASSERT(g_size_ok[ai], "C17.mkfs_opts.must_exit");
		VERIF_ASSERT(opt->cfg.devblksize == g_size_val[ai] &&
			     opt->cfg.devblksize >= 1024,
			     "C17.mkfs_opts.devblksize");
	} else {
		VERIF_ASSERT(opt->cfg.devblksize == 4096,
			     "C17.mkfs_opts.devblksize");
	}
	for (k = 0; k < NOPT; ++k) {
		/* also for a -b/-B that a later one overrides */
		if (g_optc[k] == 'b' || g_optc[k] == 'B')
			VERIF_ASSERT(g_size_ok[g_optarg_idx[k]],
				     "C17.mkfs_opts.must_exit");
		if (g_optc[k] == 'B')
			VERIF_ASSERT(g_size_val[g_optarg_idx[k]] >= 1024,
				     "C17.mkfs_opts.devblksize");
		if (g_optc[k] == 'c')
			VERIF_ASSERT(g_comp_ok[g_optarg_idx[k]],
				     "C17.mkfs_opts.compressor");
	}

	/* compressor */
	if (m_c >= 0) {
		VERIF_ASSERT((int)opt->cfg.comp_id == g_comp_id[g_optarg_idx[m_c]],
			     "C17.mkfs_opts.compressor");
	} else {
		VERIF_ASSERT((int)opt->cfg.comp_id == g_def_comp,
			     "C17.mkfs_opts.compressor");
	}
	VERIF_ASSERT(m_X >= 0 ? opt->cfg.comp_extra == mk_word(m_X) :
				opt->cfg.comp_extra == NULL,
		     "C17.mkfs_opts.compressor");

	/* forced ownership */
	for (k = 0; k < NOPT; ++k) {
		if (g_optc[k] == 'u')
			VERIF_ASSERT(mk_num_ok(k, 0, 0xFFFFFFFFLL),
				     "C17.mkfs_opts.uid_number_checked");
		if (g_optc[k] == 'g')
			VERIF_ASSERT(mk_num_ok(k, 0, 0xFFFFFFFFLL),
				     "C17.mkfs_opts.gid_number_checked");
		if (g_optc[k] == 'j')
			VERIF_ASSERT(mk_num_ok(k, 0, LLONG_MAX),
				     "C17.mkfs_opts.jobs_number_checked");
		if (g_optc[k] == 'Q')
			VERIF_ASSERT(mk_num_ok(k, 0, LLONG_MAX),
				     "C17.mkfs_opts.backlog_number_checked");
	}
	if (m_u >= 0 && mk_num_ok(m_u, 0, 0xFFFFFFFFLL))
		VERIF_ASSERT(opt->force_uid_value == (unsigned int)mk_num(m_u)->value,
			     "C17.mkfs_opts.owner");
	if (m_g >= 0 && mk_num_ok(m_g, 0, 0xFFFFFFFFLL))
		VERIF_ASSERT(opt->force_gid_value == (unsigned int)mk_num(m_g)->value,
			     "C17.mkfs_opts.owner");
	if (m_u == -2)
		VERIF_ASSERT(opt->force_uid_value == 0, "C17.mkfs_opts.owner");
	if (m_g == -2)
		VERIF_ASSERT(opt->force_gid_value == 0, "C17.mkfs_opts.owner");

	sf = DIR_SCAN_KEEP_MODE;
	if (!m_uid_forced)
		sf |= DIR_SCAN_KEEP_UID;
	if (!m_gid_forced)
		sf |= DIR_SCAN_KEEP_GID;
	VERIF_ASSERT((opt->dirscan_flags & (DIR_SCAN_KEEP_MODE | DIR_SCAN_KEEP_UID |
					    DIR_SCAN_KEEP_GID)) == sf,
		     "C17.mkfs_opts.owner");
	if (m_k)
		sf |= DIR_SCAN_KEEP_TIME;
	if (m_o)
		sf |= DIR_SCAN_ONE_FILESYSTEM;
	if (m_H)
		sf |= DIR_SCAN_NO_HARDLINKS;
	VERIF_ASSERT(opt->dirscan_flags == sf, "C17.mkfs_opts.scan_flags");

	/* jobs / backlog */
	if (m_j < 0) {
		VERIF_ASSERT(opt->cfg.num_jobs == g_def_jobs, "C17.mkfs_opts.jobs");
	} else if (mk_num_ok(m_j, 1, LLONG_MAX)) {
		VERIF_ASSERT(opt->cfg.num_jobs == (size_t)mk_num(m_j)->value,
			     "C17.mkfs_opts.jobs");
	} else if (mk_num_ok(m_j, 0, 0)) {
		VERIF_ASSERT(opt->cfg.num_jobs >= 1, "C17.mkfs_opts.jobs");
	}
	if (m_Q >= 0 && mk_num_ok(m_Q, 1, LLONG_MAX)) {
		VERIF_ASSERT(opt->cfg.max_backlog == (size_t)mk_num(m_Q)->value,
			     "C17.mkfs_opts.backlog");
	} else if ((m_Q < 0 || mk_num_ok(m_Q, 0, 0)) &&
		   (m_j < 0 || mk_num_ok(m_j, 0, LLONG_MAX))) {
		VERIF_ASSERT(opt->cfg.max_backlog == 10 * opt->cfg.num_jobs,
			     "C17.mkfs_opts.backlog");
	}

	/* switches */
	VERIF_ASSERT(opt->cfg.exportable == m_e && opt->cfg.quiet == m_q &&
		     opt->cfg.outmode == (m_f ? SQFS_FILE_OPEN_OVERWRITE : 0) &&
		     opt->scan_xattr == m_x && !opt->cfg.no_xattr,
		     "C17.mkfs_opts.flags_exact");

	/* inputs */
	VERIF_ASSERT(m_F >= 0 ? opt->infile == mk_word(m_F) : opt->infile == NULL,
		     "C17.mkfs_opts.inputs");
	VERIF_ASSERT(m_S >= 0 ? opt->sortfile == mk_word(m_S) : opt->sortfile == NULL,
		     "C17.mkfs_opts.inputs");
	VERIF_ASSERT(m_A >= 0 ? opt->xattr_file == mk_word(m_A) : opt->xattr_file == NULL,
		     "C17.mkfs_opts.inputs");
	VERIF_ASSERT(m_d >= 0 ? opt->cfg.fs_defaults == mk_word(m_d) :
				opt->cfg.fs_defaults == NULL,
		     "C17.mkfs_opts.inputs");
	VERIF_ASSERT(opt->selinux == NULL, "C17.mkfs_opts.inputs");

	if (m_D >= 0) {
		VERIF_ASSERT(opt->packdir != NULL, "C17.mkfs_opts.inputs");
		if (opt->packdir != NULL) {
			VERIF_ASSERT(w18_pool_index(opt->packdir) == m_D + 1 &&
				     g_pool_live[m_D + 1] &&
				     w18_streq(opt->packdir, mk_word(m_D)),
				     "C17.mkfs_opts.inputs");
		}
	} else if (m_F >= 0) {
		/* "relative to the directory the pack file is in" */
		const char *w = mk_word(m_F);
		int i, last = -1;

		for (i = 0; i < W18_ARGLEN && w[i] != '\0'; ++i) {
			if (w[i] == '/')
				last = i;
		}
		if (last < 0) {
			VERIF_ASSERT(opt->packdir == NULL, "C17.mkfs_opts.inputs");
		} else {
			VERIF_ASSERT(opt->packdir != NULL &&
				     w18_pool_index(opt->packdir) == NOPT + 1 &&
				     g_pool_live[NOPT + 1], "C17.mkfs_opts.inputs");
			if (opt->packdir != NULL) {
				for (i = 0; i < W18_ARGLEN; ++i) {
					if (i < last)
						VERIF_ASSERT(opt->packdir[i] == w[i],
							     "C17.mkfs_opts.inputs");
				}
				VERIF_ASSERT(opt->packdir[last] == '\0',
					     "C17.mkfs_opts.inputs");
			}
		}
	}
	for (k = 0; k < W18_NSLOT; ++k) {
		if (g_pool_live[k])
			VERIF_ASSERT(opt->packdir == g_pool[k],
				     "C13.mkfs_opts.no_leak");
	}

	VERIF_ASSERT(opt->cfg.filename != NULL &&
		     opt->cfg.filename == g_argv[g_optind_final],
		     "C17.mkfs_opts.filename");
}

void harness(void)
{
	static options_t opt;

	w18_env_init();
	w18_mkfs_args();
	/* the parser has to initialise every field itself */
	opt.no_tail_packing = verif_nd_bool("init.tail");
	opt.dirscan_flags = verif_nd_u32("init.dirscan");
	opt.force_uid_value = verif_nd_u32("init.uid");
	opt.scan_xattr = verif_nd_bool("init.scan_xattr");
	opt.cfg.outmode = verif_nd_int("init.outmode");
	opt.cfg.exportable = verif_nd_bool("init.exportable");
	opt.packdir = NULL;

	W18_RUN(process_command_line(&opt, g_argc, g_argv));
	if (g_exited)
		return;

	mk_check_result(&opt);

#if NOPT >= 1
	VERIF_COVER(m_D >= 0);
	VERIF_COVER(m_F >= 0 && opt.packdir != NULL);
	VERIF_COVER(m_F >= 0 && opt.packdir == NULL);
#endif
#if NOPT >= 2
	VERIF_COVER(m_T && m_D >= 0);
	VERIF_COVER(m_b >= 0 && opt.cfg.block_size == 4096);
	VERIF_COVER(m_u >= 0 && opt.force_uid_value == 65534);
	VERIF_COVER(m_j >= 0 && opt.cfg.num_jobs == 7);
	VERIF_COVER(m_c >= 0 && opt.cfg.comp_id != g_def_comp);
#endif
#if NOPT >= 3
	VERIF_COVER(m_T && m_b == 2 && g_optc[1] == 'T');
	VERIF_COVER(m_u == -2 && g_optc[0] == 'u');
	VERIF_COVER(m_u == 2 && g_optc[0] == MK_ALL_ROOT);
#endif
}
#endif
