/* C17: pack_files (bin/gensquashfs/src/mkfs.c) - the files are handed to the
 * block processor one after the other in the order of fs->files, i.e. in the
 * order sort_file_list produced (C17.sort.*): begin_file .. end_file of file k
 * precede those of file k+1, so (with the block writer appending, C14/C02) the
 * data offsets follow the priority order. pack_file is replaced by its
 * contract (pack_file.c) with goto-instrument --replace-calls.
 *
 *  ensures  C17.pack.order      pack_file is called exactly once per list node,
 *              in list order, with the node's own input path and the packer's
 *              block processor and options; nothing is reordered or skipped
 *           C17.pack.order_fail_stop  the first failing file ends the walk
 *              with -1
 */
#include <stdlib.h>
#include <string.h>
#include <stdio.h>
#include "verif.h"

#ifndef N
#define N 3
#endif

static int c17_printf(const char *fmt, ...);
#define printf c17_printf
#include "bin/gensquashfs/src/mkfs.c"
#undef printf

typedef struct { tree_node_t n; char name[4]; } node_t;
static node_t g_n0, g_n1, g_n2, g_n3;
static node_t *const g_nodep[4] = { &g_n0, &g_n1, &g_n2, &g_n3 };
#define NODE(i) (g_nodep[i]->n)
static char g_path[4][4];
static struct { sqfs_object_t base; int opaque; } g_proc_obj;
#define G_PROC ((sqfs_block_processor_t *)&g_proc_obj)
static options_t g_opt;
static fstree_t g_fs;

static unsigned g_calls;
static int g_fail_at;
static bool g_order_ok;

/* contract of pack_file as seen by pack_files: 0 or an error code */
int stub_pack_file(sqfs_block_processor_t *data, const char *path,
		   tree_node_t *n, const options_t *opt)
{
	int ret = 0;

	if (!(g_calls < N && n == &NODE(g_calls) && path == g_path[g_calls] &&
	      data == G_PROC && opt == &g_opt))
		g_order_ok = false;
	VERIF_ASSERT(g_calls < N && n == &NODE(g_calls), "C17.pack.order");
	VERIF_ASSERT(path == g_path[g_calls] && data == G_PROC && opt == &g_opt,
		     "C17.pack.order");
	VERIF_ASSERT(g_fail_at < 0, "C17.pack.order_fail_stop");
	if (verif_nd_bool("pack_file_fails")) {
		g_fail_at = (int)g_calls;
		ret = verif_nd_int("pack_err");
		VERIF_ASSUME(ret != 0);
	}
	g_calls += 1;
	return ret;
}

static int c17_printf(const char *fmt, ...)
{
	(void)fmt;
	return 0;
}

/* targets of the function-pointer call sites of pack_file (replaced, not reached) */
int stub_flush(sqfs_ostream_t *strm) { (void)strm; return 0; }
void stub_destroy(sqfs_object_t *obj) { (void)obj; }

void perror(const char *s) { (void)s; }
int chdir(const char *p) { (void)p; return verif_nd_bool("chdir_fails") ? -1 : 0; }

void harness(void)
{
	int i, ret;

	g_calls = 0;
	g_fail_at = -1;
	g_order_ok = true;
	for (i = 0; i < 4; ++i) {
		g_path[i][0] = 'a' + i;
		g_path[i][1] = '\0';
		NODE(i).data.file.input_file = g_path[i];
		NODE(i).data.file.priority = verif_nd_i64("priority");
		NODE(i).data.file.flags = verif_nd_int("flags");
		NODE(i).data.file.inode = NULL;
		NODE(i).mode = S_IFREG | 0644;
		NODE(i).next_by_type = (i + 1 < N) ? &NODE(i + 1) : NULL;
	}
	g_fs.files = N > 0 ? &NODE(0) : NULL;
	g_opt.packdir = NULL;
	g_opt.cfg.quiet = verif_nd_bool("quiet");

	ret = pack_files(G_PROC, &g_fs, &g_opt);

	if (g_fail_at < 0)
		VERIF_ASSERT(ret == 0 && g_calls == N, "C17.pack.order");
	else
		VERIF_ASSERT(ret == -1 && g_calls == (unsigned)g_fail_at + 1,
			     "C17.pack.order_fail_stop");
	VERIF_ASSERT(g_order_ok, "C17.pack.order");

	VERIF_COVER(ret == 0 && g_calls == N);
#if N >= 2
	VERIF_COVER(ret == -1 && g_fail_at == 1);
#endif
}
