# Round-2 extension (worker w18): the command line parsers of the two packers.
FUNCTIONS = ["process_command_line (bin/gensquashfs/src/options.c)",
             "process_args (bin/tar2sqfs/src/options.c)"]
TRUSTED = [
    "w18_mkfs_*: getopt_long / exit / strdup / strndup / free contracts of harness/C06/w18_optenv.h; "
    "strtol family, parse_size, sqfs_compressor_id_from_name, sqfs_writer_cfg_init, compressor_get_default as "
    "contracts (harness/C17/w18_mkfs_env.h): every answer is a function of the argument word",
]
ASSUMPTIONS = [
    "w18_mkfs_opts: bounded: at most 3 options per command line (every option at every position), words of at "
    "most 10 bytes, numeric options get one of the texts of w18_numtab; built without WITH_SELINUX (no -s)",
    "w18_mkfs_order: --pack-dir followed by two different options in both orders; no allocation failure",
]

# ~DIR_SCAN_KEEP_UID (int) assigned to an unsigned field is the C idiom, not a defect
_UNW = dict(unwind=13)
_NOCONV = ["--conversion-check"]

HARNESSES = [
    dict(name="w18_mkfs_opts", file="w18_mkfs_opts.c",
         include_dirs=["bin/gensquashfs/src"], nochecks=_NOCONV,
         label="bounded(options<=3, words<=10 bytes)", timeout=900,
         cases=[dict(id="n%d" % n, defines={"NOPT": n}, tier="quick", **_UNW)
                for n in range(0, 4)]),
    dict(name="w18_mkfs_numbers", file="w18_mkfs_opts.c",
         include_dirs=["bin/gensquashfs/src"], nochecks=_NOCONV,
         label="bounded(options<=2, number texts of w18_numtab)", timeout=900,
         cases=[dict(id="n%d" % n, defines={"NOPT": n, "W18_GARBAGE_NUMBERS": None},
                     tier="quick", **_UNW) for n in (2,)]),
    dict(name="w18_mkfs_order", file="w18_mkfs_order.c",
         include_dirs=["bin/gensquashfs/src"], nochecks=_NOCONV,
         label="bounded(--pack-dir + 2 options, both orders)", timeout=900,
         cases=[dict(id="pair", defines={}, tier="quick", unwind=13,
                     unwindset=["w18_same_words.0:24", "w18_same_words.1:9"])]),
    dict(name="w18_t2s_opts", file="w18_t2s_opts.c",
         include_dirs=["bin/tar2sqfs/src"], nochecks=_NOCONV,
         label="bounded(options<=3, words<=10 bytes)", timeout=900,
         cases=[dict(id="n%d" % n, defines={"NOPT": n}, tier="quick", **_UNW)
                for n in range(0, 4)]),
    dict(name="w18_t2s_numbers", file="w18_t2s_opts.c",
         include_dirs=["bin/tar2sqfs/src"], nochecks=_NOCONV,
         label="bounded(options<=2, number texts of w18_numtab)", timeout=900,
         cases=[dict(id="n2", defines={"NOPT": 2, "W18_GARBAGE_NUMBERS": None},
                     tier="quick", **_UNW)]),
    dict(name="w18_t2s_order", file="w18_t2s_order.c",
         include_dirs=["bin/tar2sqfs/src"], nochecks=_NOCONV,
         label="bounded(2 options, both orders)", timeout=900,
         cases=[dict(id="pair", defines={}, tier="quick", unwind=13,
                     unwindset=["w18_same_words.0:24", "w18_same_words.1:9"])]),
    dict(name="w18_mkfs_table", file="../C06/w18_opt_table.c", include_dirs=["bin/gensquashfs/src"],
         label="proved", timeout=300, unwind=70, native=False,
         cases=[dict(id="all", defines={"TOOL": 2}, tier="quick")]),
    dict(name="w18_t2s_table", file="../C06/w18_opt_table.c", include_dirs=["bin/tar2sqfs/src"],
         label="proved", timeout=300, unwind=70, native=False,
         cases=[dict(id="all", defines={"TOOL": 3}, tier="quick")]),
]
