/* C17.bp.nosparse_tail - "nosparse: the file's data is stored, never replaced
 * by a hole", for the TAIL END of a file flagged SQFS_BLK_IGNORE_SPARSE
 * ([nosparse] in a sort file): the whole way of the tail through the block
 * processor, every step the real code
 *
 *   worker   process_block(tail)                    block_processor.c
 *   main     process_completed_fragment(tail)       backend.c
 *   (opt.)   process_completed_fragment(2nd tail)   a later, arbitrary tail is
 *                                                   merged into the same block
 *   worker   process_block(fragment block)          when the block is submitted
 *                                                   (overflow or finish)
 *   main     process_completed_block(fragment block)
 *
 * with is_memory_zero / xxh32 / compressor / hash table / fragment table /
 * block writer as contracts (arbitrary answers - in particular "all bytes are
 * zero" for the tail AND for the fragment block that holds it).
 *
 *   C17.bp.nosparse_tail          the fragment block that holds the tail is
 *        never flagged IS_SPARSE by the worker, whatever its bytes are (the
 *        core: "stored, never replaced by a hole")
 *   C17.bp.nosparse_tail.worker   the worker never flags the tail itself sparse
 *   C17.bp.nosparse_tail.located  unless it is deduplicated against an equal
 *        stored chunk (C08), its bytes are put into a fragment block and the
 *        inode's fragment index / offset name that block and lie inside it
 *   C17.bp.nosparse_tail.written  the block is handed to the block writer with
 *        its full size, and the fragment table entry of that index receives
 *        the location and size
 *   C17.bp.nosparse_tail.inode_untouched  the inode is not turned into a sparse
 *        file: make_extended is not called, no block size word is written
 * Shape: HAVE_FB (a fragment block is being filled when the tail arrives),
 * MERGE2 (a second tail of another file follows).
 */
#include "C08/bp_env.h"

#ifndef HAVE_FB
#define HAVE_FB 0
#endif
#ifndef MERGE2
#define MERGE2 0
#endif

static void *c17_memcpy(void *dst, const void *src, size_t n);
#define memcpy c17_memcpy
#include "lib/sqfs/src/block_processor/backend.c"
#include "lib/sqfs/src/block_processor/block_processor.c"
#undef memcpy

static blk_t g_tail, g_tail2, g_fb;
static struct hash_table g_ht;
static struct hash_entry g_found, g_new_entry;
static chunk_info_t g_stored;
static sqfs_block_writer_t g_wr;
static sqfs_compressor_t g_cmp;
static struct {
	worker_data_t w;
	sqfs_u8 scratch[BS];
} g_worker;
static struct {
	sqfs_inode_generic_t i;
	sqfs_u32 extra[8];
} g_ino, g_ino2;
static sqfs_inode_generic_t *g_ino_ptr, *g_ino2_ptr;

/* ghost */
static unsigned g_zero_calls, g_search_calls, g_insert_calls, g_memcpy_calls;
static unsigned g_setloc_calls, g_ext_calls, g_start_calls, g_append_calls;
static unsigned g_ftset_calls, g_write_calls, g_enqueue_calls;
static bool g_search_found;
static sqfs_u32 g_setloc_index, g_setloc_offset;
static sqfs_u32 g_ftset_index, g_ftset_size, g_w_size, g_w_flags;
static sqfs_u64 g_ftset_loc, g_location;
static const sqfs_u8 *g_w_data;

bool is_memory_zero(const void *blob, size_t size)
{
	VERIF_ASSERT(VERIF_R_OK(blob, size), "C17.bp.env_pre");
	g_zero_calls += 1;
	return verif_nd_bool("is_zero");
}

sqfs_u32 xxh32(const void *input, const size_t len)
{
	VERIF_ASSERT(VERIF_R_OK(input, len), "C17.bp.env_pre");
	return verif_nd_u32("xxh32");
}

sqfs_s32 stub_compress(sqfs_compressor_t *cmp, const sqfs_u8 *in, sqfs_u32 size,
		       sqfs_u8 *out, sqfs_u32 outsize)
{
	sqfs_s32 r = verif_nd_int("do_block");

	VERIF_ASSERT(cmp == &g_cmp && VERIF_R_OK(in, size) &&
		     VERIF_W_OK(out, outsize), "C17.bp.env_pre");
	VERIF_ASSUME(r < 0 || (sqfs_u32)r <= outsize);
	VERIF_ASSUME(r <= 0 || (sqfs_u32)r < size);	/* C03.comp.not_larger */
	return r;
}

static void *c17_memcpy(void *dst, const void *src, size_t n)
{
	VERIF_ASSERT(VERIF_W_OK(dst, n) && VERIF_R_OK(src, n), "C17.bp.env_pre");
	g_memcpy_calls += 1;
	return dst;
}

/* fragment hash table: finds an equal stored chunk or not; insert may fail */
struct hash_entry *hash_table_search_pre_hashed(struct hash_table *ht,
						sqfs_u32 hash, const void *key)
{
	(void)hash; (void)key;
	VERIF_ASSERT(ht == &g_ht, "C17.bp.env_pre");
	g_search_calls += 1;
	if (verif_nd_bool("search_finds")) {
		g_search_found = true;
		g_stored.index = verif_nd_u32("stored.index");
		g_stored.offset = verif_nd_u32("stored.offset");
		g_found.data = &g_stored;
		return &g_found;
	}
	return NULL;
}

struct hash_entry *hash_table_insert_pre_hashed(struct hash_table *ht,
						sqfs_u32 hash, const void *key,
						void *data)
{
	(void)hash; (void)key;
	VERIF_ASSERT(ht == &g_ht, "C17.bp.env_pre");
	g_insert_calls += 1;
	if (verif_nd_bool("insert_fails"))
		return NULL;
	g_new_entry.data = data;
	return &g_new_entry;
}

int sqfs_inode_set_frag_location(sqfs_inode_generic_t *inode, sqfs_u32 index,
				 sqfs_u32 offset)
{
	if (inode == &g_ino.i) {
		g_setloc_calls += 1;
		g_setloc_index = index;
		g_setloc_offset = offset;
	}
	return 0;
}

int sqfs_inode_make_extended(sqfs_inode_generic_t *inode)
{
	if (inode == &g_ino.i)
		g_ext_calls += 1;
	if (inode->base.type == SQFS_INODE_FILE) {
		inode->base.type = SQFS_INODE_EXT_FILE;
		inode->data.file_ext.sparse = 0;
	}
	return 0;
}

int sqfs_inode_set_file_block_start(sqfs_inode_generic_t *inode, sqfs_u64 loc)
{
	(void)loc;
	if (inode == &g_ino.i)
		g_start_calls += 1;
	return 0;
}

int sqfs_frag_table_append(sqfs_frag_table_t *tbl, sqfs_u64 location,
			   sqfs_u32 size, sqfs_u32 *index)
{
	VERIF_ASSERT(tbl == G_FRAG_TBL && location == 0 && size == 0, "C17.bp.env_pre");
	g_append_calls += 1;
	if (verif_nd_bool("frag_table_append_fails"))
		return SQFS_ERROR_ALLOC;
	*index = verif_nd_u32("new_frag_index");
	return 0;
}

int sqfs_frag_table_set(sqfs_frag_table_t *tbl, sqfs_u32 index,
			sqfs_u64 location, sqfs_u32 size)
{
	VERIF_ASSERT(tbl == G_FRAG_TBL, "C17.bp.env_pre");
	g_ftset_calls += 1;
	g_ftset_index = index;
	g_ftset_loc = location;
	g_ftset_size = size;
	return verif_nd_bool("frag_table_set_fails") ? SQFS_ERROR_OUT_OF_BOUNDS : 0;
}

int stub_write_data_block(sqfs_block_writer_t *wr, void *user, sqfs_u32 size,
			  sqfs_u32 checksum, sqfs_u32 flags,
			  const sqfs_u8 *data, sqfs_u64 *location)
{
	(void)user; (void)checksum;
	VERIF_ASSERT(wr == &g_wr && VERIF_R_OK(data, size), "C17.bp.env_pre");
	g_write_calls += 1;
	g_w_size = size;
	g_w_flags = flags;
	g_w_data = data;
	if (verif_nd_bool("write_fails"))
		return SQFS_ERROR_IO;
	g_location = verif_nd_u64("location");
	*location = g_location;
	return 0;
}

/* the fragment block that was being filled overflows: submitted (HAVE_FB) */
int enqueue_block(sqfs_block_processor_t *proc, sqfs_block_t *blk)
{
	VERIF_ASSERT(proc == &g_p.proc && blk != NULL, "C17.bp.env_pre");
	g_enqueue_calls += 1;
	return verif_nd_bool("enqueue_fails") ? SQFS_ERROR_ALLOC : 0;
}

void *stub_pool_dequeue(thread_pool_t *pool)
{
	(void)pool;
	VERIF_ASSERT(0, "C17.bp.env_pre");
	return NULL;
}

int stub_pool_get_status(thread_pool_t *pool)
{
	(void)pool;
	VERIF_ASSERT(0, "C17.bp.env_pre");
	return 0;
}

static void ino_init(sqfs_inode_generic_t *i, size_t avail)
{
	i->base.type = SQFS_INODE_FILE;
	i->payload_bytes_available = avail;
	i->payload_bytes_used = 0;
	i->data.file.file_size = verif_nd_u32("file_size");
}

void harness(void)
{
	sqfs_u32 user_flags, tail_size, word0[8];
	sqfs_block_t *fblk;
	bool own_stored;
	int ret, i;

	g_zero_calls = g_search_calls = g_insert_calls = g_memcpy_calls = 0;
	g_setloc_calls = g_ext_calls = g_start_calls = g_append_calls = 0;
	g_ftset_calls = g_write_calls = g_enqueue_calls = 0;
	g_search_found = false;
	g_alloc_calls = 0;

	g_p.proc.max_block_size = BS;
	g_p.proc.file = NULL;
	g_p.proc.uncmp = NULL;
	g_p.proc.frag_tbl = G_FRAG_TBL;
	g_p.proc.frag_ht = &g_ht;
	g_p.proc.wr = &g_wr;
	g_wr.write_data_block = stub_write_data_block;
	g_p.proc.current_frag = NULL;
	g_p.proc.fblk_lookup_error = 0;
	g_p.proc.fblk_in_flight = NULL;
	g_p.proc.free_list = NULL;
	g_p.proc.io_seq_num = verif_nd_u32("io_seq_num");
	g_p.proc.backlog = 5;
	g_p.proc.stats.output_bytes_generated = 0;
	g_p.proc.stats.sparse_block_count = 0;
	g_p.proc.stats.frag_block_count = 0;
	g_p.proc.stats.data_block_count = 0;
	g_p.proc.stats.total_frag_count = 0;
	g_p.proc.stats.actual_frag_count = 0;
	g_worker.w.next = NULL;
	g_worker.w.cmp = &g_cmp;
	g_worker.w.scratch_size = BS;
	g_cmp.do_block = stub_compress;

	ino_init(&g_ino.i, sizeof(g_ino.extra));
	ino_init(&g_ino2.i, sizeof(g_ino2.extra));
	for (i = 0; i < 8; ++i) {
		word0[i] = verif_nd_u32("old_word");
		g_ino.extra[i] = word0[i];
	}
	g_ino_ptr = &g_ino.i;
	g_ino2_ptr = &g_ino2.i;

	/* the tail end of a [nosparse] file as end_file submits it
	 * (C17.bp.flags_to_blocks, C17.bp.fragment_default): the file's user
	 * flags, IS_FRAGMENT, FIRST_BLOCK if it is the only block */
	blk_nd_header(&g_tail, "tail");
	user_flags = g_tail.b.flags & (sqfs_u32)SQFS_BLK_USER_SETTABLE_FLAGS;
	VERIF_ASSUME(user_flags & SQFS_BLK_IGNORE_SPARSE);
	VERIF_ASSUME(!(user_flags & SQFS_BLK_DONT_FRAGMENT));
	g_tail.b.flags = user_flags | SQFS_BLK_IS_FRAGMENT |
			 (g_tail.b.flags & SQFS_BLK_FIRST_BLOCK);
	VERIF_ASSUME(g_tail.b.size >= 1 && g_tail.b.size < BS);
	VERIF_ASSUME(g_tail.b.index < 8);
	g_tail.b.inode = &g_ino_ptr;
	tail_size = g_tail.b.size;

	/* a fragment block that is being filled (tails of earlier files) */
	blk_nd_header(&g_fb, "frag_block");
	g_fb.b.flags = SQFS_BLK_FRAGMENT_BLOCK |
		       (g_fb.b.flags & (SQFS_BLK_DONT_COMPRESS | SQFS_BLK_IGNORE_SPARSE));
	VERIF_ASSUME(g_fb.b.size >= 1 && g_fb.b.size <= BS);
	VERIF_ASSUME(g_fb.b.index < 8);
	g_p.proc.frag_block = HAVE_FB ? &g_fb.b : NULL;

	/* ---- worker: the tail ------------------------------------------------ */
	ret = process_block(&g_worker.w, &g_tail.b);
	VERIF_ASSERT(ret == 0 && !(g_tail.b.flags & SQFS_BLK_IS_SPARSE) &&
		     g_zero_calls == 0 && g_tail.b.size == tail_size,
		     "C17.bp.nosparse_tail.worker");

	/* ---- main thread: tail-end packing ----------------------------------- */
	ret = process_completed_fragment(&g_p.proc, &g_tail.b);
	own_stored = (ret == 0 && !g_search_found);
	VERIF_COVER(ret == 0 && g_search_found);
	VERIF_COVER(ret != 0);
	if (!own_stored)
		return;

	fblk = g_p.proc.frag_block;
	VERIF_ASSERT(fblk != NULL && g_setloc_calls == 1 &&
		     (fblk->flags & SQFS_BLK_FRAGMENT_BLOCK) &&
		     !(fblk->flags & SQFS_BLK_IS_FRAGMENT) &&
		     fblk->index == g_setloc_index &&
		     (sqfs_u64)g_setloc_offset + tail_size == fblk->size &&
		     fblk->size <= BS, "C17.bp.nosparse_tail.located");
	VERIF_ASSERT(fblk == &g_tail.b ? g_memcpy_calls == 0 :
		     (HAVE_FB && fblk == &g_fb.b && g_memcpy_calls == 1),
		     "C17.bp.nosparse_tail.located");
	VERIF_COVER(fblk == &g_tail.b);
#if HAVE_FB
	VERIF_COVER(fblk == &g_fb.b);
	VERIF_COVER(fblk == &g_tail.b && g_enqueue_calls == 1);
#endif

#if MERGE2
	/* ---- a later tail of another file joins the same block ---------------- */
	{
		sqfs_u32 size1 = fblk->size;

		blk_nd_header(&g_tail2, "tail2");
		g_tail2.b.flags = (g_tail2.b.flags & ((sqfs_u32)SQFS_BLK_USER_SETTABLE_FLAGS |
						      SQFS_BLK_FIRST_BLOCK)) | SQFS_BLK_IS_FRAGMENT;
		VERIF_ASSUME(g_tail2.b.size >= 1 && g_tail2.b.size < BS);
		VERIF_ASSUME(g_tail2.b.index < 8);
		g_tail2.b.inode = &g_ino2_ptr;
		g_search_found = false;
		ret = process_completed_fragment(&g_p.proc, &g_tail2.b);
		if (ret != 0 || g_p.proc.frag_block != fblk)
			return;	/* failed, or our block was submitted as it was */
		VERIF_COVER(fblk->size > size1);
	}
#endif

	/* ---- worker: the fragment block, submitted on overflow or by finish --- */
	{
		sqfs_u32 size_in = fblk->size;

		ret = process_block(&g_worker.w, fblk);
		VERIF_ASSERT(!(fblk->flags & SQFS_BLK_IS_SPARSE), "C17.bp.nosparse_tail");
		VERIF_COVER(ret == 0 && (fblk->flags & SQFS_BLK_IS_COMPRESSED));
		VERIF_COVER(ret == 0 && !(fblk->flags & SQFS_BLK_IS_COMPRESSED));
		if (ret != 0 || (fblk->flags & SQFS_BLK_IS_SPARSE))
			return;
		VERIF_ASSERT(fblk->size >= 1 && fblk->size <= size_in,
			     "C17.bp.nosparse_tail.written");
	}

	/* ---- main thread: the completed fragment block ------------------------ */
	ret = process_completed_block(&g_p.proc, fblk);
	VERIF_ASSERT(g_write_calls == 1 && g_w_size == fblk->size &&
		     g_w_data == fblk->data && !(g_w_flags & SQFS_BLK_IS_SPARSE),
		     "C17.bp.nosparse_tail.written");
	if (ret == 0)
		VERIF_ASSERT(g_ftset_calls == 1 && g_ftset_index == g_setloc_index &&
			     g_ftset_loc == g_location &&
			     SQFS_ON_DISK_BLOCK_SIZE(g_ftset_size) == fblk->size &&
			     SQFS_IS_BLOCK_COMPRESSED(g_ftset_size) ==
			     !!(fblk->flags & SQFS_BLK_IS_COMPRESSED),
			     "C17.bp.nosparse_tail.written");
	/* the file did not become a sparse file behind the user's back */
	VERIF_ASSERT(g_ext_calls == 0 && g_ino.i.base.type == SQFS_INODE_FILE &&
		     g_ino.i.payload_bytes_used == 0 && g_ino_ptr == &g_ino.i,
		     "C17.bp.nosparse_tail.inode_untouched");
	for (i = 0; i < 8; ++i)
		VERIF_ASSERT(g_ino.extra[i] == word0[i], "C17.bp.nosparse_tail.inode_untouched");
	VERIF_COVER(ret == 0 && g_ftset_calls == 1);
	VERIF_COVER(ret != 0);
}
