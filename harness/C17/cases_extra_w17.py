# Worker w17: "nosparse: the file's data is stored, never replaced by a hole"
# for the tail end of a [nosparse] file (harness/C17/w17_nosparse_tail.c).
FUNCTIONS = [
    "process_block (tail end and fragment block of a nosparse file)",
    "process_completed_fragment (nosparse tail: new block / merge / later merge)",
    "process_completed_block (fragment block holding a nosparse tail)",
]
TRUSTED = [
    "is_memory_zero / xxh32: arbitrary answers (in particular 'all zero' for the tail and for the fragment block); "
    "compressor contract as in bp_process_block; fragment hash table finds an equal chunk or not, insert may fail; "
    "fragment table append/set, block writer, enqueue_block: arbitrary result, arguments recorded",
]
ASSUMPTIONS = [
    "w17_nosparse_tail: the tail arrives as end_file submits it (user flags | IS_FRAGMENT [| FIRST_BLOCK], "
    "C17.bp.flags_to_blocks / fragment_default); at most one later tail joins the block; a tail that is "
    "deduplicated against an equal stored chunk is C08's (bytes compared equal), not followed further here; "
    "block index < 8 (no inode growth)",
]

HARNESSES = [
    dict(name="w17_nosparse_tail", file="w17_nosparse_tail.c",
         label="bounded(later tails in the same fragment block <= 1)", timeout=300,
         fp={"process_block:do_block": "stub_compress", "do_block": "stub_do_block",
             "read_at": "stub_read_at", "write_data_block": "stub_write_data_block",
             "dequeue": "stub_pool_dequeue", "get_status": "stub_pool_get_status",
             "*": "stub_unreachable_destroy"},
         malloc_fail=True, unwind=9, nochecks=["--conversion-check"],
         must_have=["C17.bp.nosparse_tail", "C17.bp.nosparse_tail.worker", "C17.bp.nosparse_tail.located",
                    "C17.bp.nosparse_tail.written", "C17.bp.nosparse_tail.inode_untouched"],
         cases=[dict(id="fb%d_m%d" % (fb, m), defines={"HAVE_FB": fb, "MERGE2": m, "BS": 4096}, tier="quick")
                for fb in (0, 1) for m in (0, 1)]),
]
