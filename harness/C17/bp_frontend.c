/* C17: the block processor front end (lib/sqfs/src/block_processor/
 * frontend.c): how the per-file flags travel from begin_file into the blocks
 * and what DONT_FRAGMENT does at end_file.
 *
 * OP 0: sqfs_block_processor_begin_file   (loop-free)
 * OP 1: sqfs_block_processor_end_file     (loop-free; HAVE_CUR: a partially
 *       filled current block exists)
 * OP 2: sqfs_block_processor_append       (size <= one block: at most two
 *       blocks are touched; HAVE_CUR as above)
 * New blocks come from the free list (two recycled blocks are provided, so
 * the malloc(sizeof + max_block_size) path - C13/C19 - is not taken); the pool
 * is the submit contract recording the submission order.
 *
 *  ensures  C17.flags.user_only     begin_file refuses any bit outside
 *              SQFS_BLK_USER_SETTABLE_FLAGS and changes nothing; otherwise
 *              the file's flag word is exactly flags | FIRST_BLOCK
 *           C17.bp.flags_to_blocks  every block created by append carries the
 *              file's user flags unchanged, FIRST_BLOCK on the first only, the
 *              file's inode slot and consecutive indices
 *           C17.bp.dont_fragment    end_file with DONT_FRAGMENT: the partial
 *              last block is submitted as an ordinary data block with
 *              LAST_BLOCK, never IS_FRAGMENT, no sentinel
 *           C17.bp.fragment_default without it the partial last block becomes
 *              a fragment (IS_FRAGMENT, no LAST_BLOCK) preceded - unless it is
 *              the file's only block - by an empty LAST_BLOCK sentinel
 *           C17.bp.end_state        end_file leaves no file state behind
 */
#include "C08/bp_env.h"

#ifndef OP
#define OP 1
#endif
#ifndef HAVE_CUR
#define HAVE_CUR 1
#endif

static void *c17_memcpy(void *dst, const void *src, size_t n);
static void *c17_memset(void *dst, int c, size_t n);
#define memcpy c17_memcpy
#define memset c17_memset
#include "lib/sqfs/src/block_processor/frontend.c"
#undef memcpy
#undef memset

static blk_t g_cur, g_free0, g_free1;
static thread_pool_t g_pool;
static sqfs_inode_generic_t *g_inode_slot;
static sqfs_u8 g_data[BS];

#define USER (sqfs_u32)SQFS_BLK_USER_SETTABLE_FLAGS

static unsigned g_submit_calls;
static sqfs_block_t *g_sub[3];
static sqfs_u32 g_sub_flags[3], g_sub_size[3], g_sub_index[3];
static sqfs_inode_generic_t **g_sub_inode[3];
static unsigned g_memcpy_calls;

int stub_submit(thread_pool_t *pool, void *item)
{
	sqfs_block_t *b = item;

	VERIF_ASSERT(pool == &g_pool && g_submit_calls < 3, "C17.bp.env_pre");
	g_sub[g_submit_calls] = b;
	g_sub_flags[g_submit_calls] = b->flags;
	g_sub_size[g_submit_calls] = b->size;
	g_sub_index[g_submit_calls] = b->index;
	g_sub_inode[g_submit_calls] = b->inode;
	g_submit_calls += 1;
	return 0;
}

int stub_get_status(thread_pool_t *pool)
{
	(void)pool;
	return 0;
}

int dequeue_block(sqfs_block_processor_t *proc)
{
	(void)proc;
	VERIF_ASSERT(0, "C17.bp.env_pre");
	return 0;
}

int sqfs_inode_get_file_size(const sqfs_inode_generic_t *inode, sqfs_u64 *size)
{
	(void)inode;
	*size = 0;
	return 0;
}

int sqfs_inode_set_file_size(sqfs_inode_generic_t *inode, sqfs_u64 size)
{
	(void)inode; (void)size;
	return 0;
}

int sqfs_inode_set_frag_location(sqfs_inode_generic_t *inode, sqfs_u32 index,
				 sqfs_u32 offset)
{
	(void)inode; (void)index; (void)offset;
	return 0;
}

static void *c17_memcpy(void *dst, const void *src, size_t n)
{
	VERIF_ASSERT(VERIF_W_OK(dst, n) && VERIF_R_OK(src, n), "C17.bp.env_pre");
	g_memcpy_calls += 1;
	return dst;
}

/* memset(blk, 0, sizeof(*blk)) of get_new_block, field by field (a byte-wise
 * memset through a symbolic block pointer drags the 4 KiB payload array into
 * every byte update); payload memset (data == NULL) is a checking stub */
static void *c17_memset(void *dst, int c, size_t n)
{
	VERIF_ASSERT(VERIF_W_OK(dst, n), "C17.bp.env_pre");
	if (n == sizeof(sqfs_block_t) && c == 0) {
		sqfs_block_t *b = dst;

		b->next = NULL;
		b->inode = NULL;
		b->io_seq_num = 0;
		b->flags = 0;
		b->size = 0;
		b->checksum = 0;
		b->index = 0;
		b->user = NULL;
	}
	return dst;
}

void harness(void)
{
	sqfs_u32 file_flags, cur_flags0, index0;
	int ret;

	g_submit_calls = 0;
	g_memcpy_calls = 0;
	g_alloc_calls = 0;

	g_p.proc.max_block_size = BS;
	g_p.proc.max_backlog = 10;
	g_p.proc.backlog = 3;
	g_p.proc.file = NULL;		/* no in-flight copies: C08 frag_enqueue */
	g_p.proc.uncmp = NULL;
	g_p.proc.pool = &g_pool;
	g_pool.submit = stub_submit;
	g_pool.get_status = stub_get_status;
	blk_nd_header(&g_free0, "free");
	blk_nd_header(&g_free1, "free");
	g_free0.b.next = &g_free1.b;
	g_p.proc.free_list = &g_free0.b;
	g_p.proc.user = NULL;
	g_p.proc.stats.input_bytes_read = 0;

	/* the file's flag word: user bits, FIRST_BLOCK until a block exists */
	file_flags = verif_nd_u32("file_flags");

#if OP == 0
	/* -------------------------------------------------------- begin_file */
	{
		sqfs_u32 flags = file_flags;
		bool with_inode = verif_nd_bool("with_inode");

		g_p.proc.begin_called = false;
		g_p.proc.blk_flags = 0;
		g_p.proc.inode = NULL;
		g_p.proc.blk_index = verif_nd_u32("stale_index");
		g_p.proc.blk_current = NULL;
		g_inode_slot = NULL;

		ret = sqfs_block_processor_begin_file(&g_p.proc,
				with_inode ? &g_inode_slot : NULL, NULL, flags);

		if (flags & ~USER) {
			VERIF_ASSERT(ret == SQFS_ERROR_UNSUPPORTED &&
				     !g_p.proc.begin_called &&
				     g_p.proc.blk_flags == 0 && g_inode_slot == NULL,
				     "C17.flags.user_only");
		} else if (ret == 0) {
			VERIF_ASSERT(g_p.proc.begin_called &&
				     g_p.proc.blk_flags == (flags | SQFS_BLK_FIRST_BLOCK) &&
				     g_p.proc.blk_index == 0 &&
				     g_p.proc.inode == (with_inode ? &g_inode_slot : NULL),
				     "C17.flags.user_only");
		} else {
			VERIF_ASSERT(with_inode && !g_p.proc.begin_called,
				     "C17.flags.user_only");
		}
		VERIF_COVER(ret == 0 && flags == USER);
		VERIF_COVER(ret == SQFS_ERROR_UNSUPPORTED);
		VERIF_COVER(ret == 0 && flags == 0);
	}
#else
	VERIF_ASSUME((file_flags & ~(USER | SQFS_BLK_FIRST_BLOCK)) == 0);
	g_p.proc.begin_called = true;
	g_p.proc.blk_flags = file_flags;
	g_p.proc.inode = &g_inode_slot;
	g_p.proc.blk_index = verif_nd_u32("blk_index");
	VERIF_ASSUME(g_p.proc.blk_index < 1000000);
	index0 = g_p.proc.blk_index;

	blk_nd_header(&g_cur, "current");
	/* invariant of append (flags_to_blocks): a current block carries the
	 * file's user bits, FIRST_BLOCK iff it is the first, and is not full;
	 * once it exists the file's word has lost FIRST_BLOCK */
	VERIF_ASSUME((g_cur.b.flags & ~(USER | SQFS_BLK_FIRST_BLOCK)) == 0);
	VERIF_ASSUME((g_cur.b.flags & USER) == (file_flags & USER));
	VERIF_ASSUME(g_cur.b.size < BS);
	g_cur.b.inode = &g_inode_slot;
	g_p.proc.blk_current = HAVE_CUR ? &g_cur.b : NULL;
	if (HAVE_CUR)
		VERIF_ASSUME(!(file_flags & SQFS_BLK_FIRST_BLOCK));
	cur_flags0 = g_cur.b.flags;
#endif

#if OP == 1
	/* ---------------------------------------------------------- end_file */
	ret = sqfs_block_processor_end_file(&g_p.proc);

	VERIF_ASSERT(ret == 0, "C17.bp.end_state");
	VERIF_ASSERT(!g_p.proc.begin_called && g_p.proc.inode == NULL &&
		     g_p.proc.blk_flags == 0 && g_p.proc.blk_current == NULL &&
		     g_p.proc.user == NULL, "C17.bp.end_state");
#if HAVE_CUR
	if (file_flags & SQFS_BLK_DONT_FRAGMENT) {
		VERIF_ASSERT(g_submit_calls == 1 && g_sub[0] == &g_cur.b,
			     "C17.bp.dont_fragment");
		VERIF_ASSERT(g_sub_flags[0] == (cur_flags0 | SQFS_BLK_LAST_BLOCK) &&
			     !(g_sub_flags[0] & SQFS_BLK_IS_FRAGMENT),
			     "C17.bp.dont_fragment");
	} else if (cur_flags0 & SQFS_BLK_FIRST_BLOCK) {
		/* the whole file is one tail end */
		VERIF_ASSERT(g_submit_calls == 1 && g_sub[0] == &g_cur.b &&
			     g_sub_flags[0] == (cur_flags0 | SQFS_BLK_IS_FRAGMENT),
			     "C17.bp.fragment_default");
	} else {
		VERIF_ASSERT(g_submit_calls == 2 && g_sub[0] == &g_free0.b &&
			     g_sub[1] == &g_cur.b, "C17.bp.fragment_default");
		VERIF_ASSERT(g_sub_flags[0] == (file_flags | SQFS_BLK_LAST_BLOCK) &&
			     g_sub_size[0] == 0 && g_sub_inode[0] == &g_inode_slot,
			     "C17.bp.fragment_default");
		VERIF_ASSERT(g_sub_flags[1] == (cur_flags0 | SQFS_BLK_IS_FRAGMENT),
			     "C17.bp.fragment_default");
	}
	VERIF_COVER(file_flags & SQFS_BLK_DONT_FRAGMENT);
	VERIF_COVER(!(file_flags & SQFS_BLK_DONT_FRAGMENT) && g_submit_calls == 2);
	VERIF_COVER(!(file_flags & SQFS_BLK_DONT_FRAGMENT) && g_submit_calls == 1);
#else
	if (file_flags & SQFS_BLK_FIRST_BLOCK) {
		/* empty file: nothing at all */
		VERIF_ASSERT(g_submit_calls == 0, "C17.bp.fragment_default");
	} else {
		/* size was a multiple of the block size: only the sentinel,
		 * with or without DONT_FRAGMENT */
		VERIF_ASSERT(g_submit_calls == 1 && g_sub[0] == &g_free0.b &&
			     g_sub_flags[0] == (file_flags | SQFS_BLK_LAST_BLOCK) &&
			     g_sub_size[0] == 0, "C17.bp.fragment_default");
	}
	VERIF_COVER(g_submit_calls == 0);
	VERIF_COVER(g_submit_calls == 1);
#endif
#endif

#if OP == 2
	/* ------------------------------------------------------------ append */
	{
		size_t size = verif_nd_size("size");
		sqfs_u32 fill0 = g_cur.b.size;
		sqfs_block_t *first_new = HAVE_CUR ? NULL : &g_free0.b;

		VERIF_ASSUME(size >= 1 && size <= BS);

		ret = sqfs_block_processor_append(&g_p.proc, g_data, size);

		VERIF_ASSERT(ret == 0, "C17.bp.flags_to_blocks");
#if HAVE_CUR
		/* the existing block keeps its flags whether or not it filled up */
		VERIF_ASSERT(g_cur.b.flags == cur_flags0, "C17.bp.flags_to_blocks");
		if ((size_t)fill0 + size >= BS) {
			VERIF_ASSERT(g_submit_calls == 1 && g_sub[0] == &g_cur.b &&
				     g_sub_flags[0] == cur_flags0 &&
				     g_sub_size[0] == BS, "C17.bp.flags_to_blocks");
			if ((size_t)fill0 + size > BS)
				first_new = &g_free0.b;
		} else {
			VERIF_ASSERT(g_submit_calls == 0 &&
				     g_p.proc.blk_current == &g_cur.b &&
				     g_cur.b.size == fill0 + size,
				     "C17.bp.flags_to_blocks");
		}
#endif
		if (first_new != NULL) {
			/* a block was created: it carries the file's word as it
			 * was, and the word loses FIRST_BLOCK for the next one */
			VERIF_ASSERT(first_new->flags == file_flags &&
				     first_new->inode == &g_inode_slot &&
				     first_new->index == index0,
				     "C17.bp.flags_to_blocks");
			VERIF_ASSERT(g_p.proc.blk_flags ==
				     (file_flags & ~(sqfs_u32)SQFS_BLK_FIRST_BLOCK) &&
				     g_p.proc.blk_index == index0 + 1,
				     "C17.bp.flags_to_blocks");
		} else {
			VERIF_ASSERT(g_p.proc.blk_flags == file_flags &&
				     g_p.proc.blk_index == index0,
				     "C17.bp.flags_to_blocks");
		}
		VERIF_COVER(first_new != NULL && (file_flags & USER) == USER);
		VERIF_COVER(g_submit_calls == 1);
		VERIF_COVER(g_submit_calls == 0);
	}
#endif
}
