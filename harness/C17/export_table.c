/* C17: --exportable adds a correct export table: add_export_table_entry and
 * sqfs_dir_writer_write_export_table (lib/sqfs/src/dir_writer.c), loop-free.
 * The table is a typed array of CAP slots (capacity and fill symbolic,
 * contents symbolic); array_set_capacity, the gap memset and
 * sqfs_write_table are contracts. (C03.export.table states the same facts
 * from the on-disk-invariant side; this harness is independent of it.)
 *
 *  ensures  C17.export.slot     the reference of inode n lands in slot n - 1,
 *              the table then covers at least n slots, slots between the old
 *              end and n - 1 are filled with 0xFF ("no such inode"), every
 *              other slot keeps its value
 *           C17.export.written  write_export_table adds the root entry, then
 *              writes exactly 8 * (number of slots in use) bytes from the slot
 *              array - not a byte of unused capacity - and publishes the
 *              table start and the EXPORTABLE flag in the super block
 *           C17.export.absent   without --exportable (no table) both are
 *              no-ops: nothing is written, the super block is untouched
 *           C17.export.fail_stop  inode number 0, a failed enlargement or a
 *              failed table write is reported
 */
#include <stdlib.h>
#include <string.h>
#include "verif.h"
#include "sqfs/predef.h"
#include "sqfs/io.h"
#include "sqfs/compressor.h"

#ifndef CAP
#define CAP 8
#endif
#ifndef HAVE_TABLE
#define HAVE_TABLE 1
#endif

static void *c17_memset(void *dst, int c, size_t n);
#define memset c17_memset
struct sqfs_meta_writer_t { sqfs_object_t base; int opaque; };
#include "lib/sqfs/src/dir_writer.c"
#undef memset

static sqfs_dir_writer_t g_wr;
static sqfs_u64 g_slots[CAP], g_slots0[CAP];
static sqfs_file_t g_file;
static sqfs_compressor_t g_cmp;

static unsigned g_set_calls, g_cap_calls, g_wt_calls, g_faults;
static void *g_set_dst;
static size_t g_set_n, g_wt_size;
static int g_set_c;
static const void *g_wt_data;
static sqfs_u64 g_wt_start;

static void *c17_memset(void *dst, int c, size_t n)
{
	size_t k;

	VERIF_ASSERT(VERIF_W_OK(dst, n), "C17.export.env_pre");
	g_set_calls += 1;
	g_set_dst = dst;
	g_set_c = c;
	g_set_n = n;
	/* effect on the slot array (CAP is small) */
	for (k = 0; k < CAP; ++k) {
		if ((sqfs_u8 *)&g_slots[k] >= (sqfs_u8 *)dst &&
		    (sqfs_u8 *)&g_slots[k] + 8 <= (sqfs_u8 *)dst + n && c == 0xFF)
			g_slots[k] = 0xFFFFFFFFFFFFFFFFULL;
	}
	return dst;
}

int array_set_capacity(array_t *array, size_t capacity)
{
	VERIF_ASSERT(array == &g_wr.export_tbl && array->size == sizeof(sqfs_u64),
		     "C17.export.env_pre");
	g_cap_calls += 1;
	if (capacity <= array->count)
		return 0;
	if (capacity > CAP || verif_nd_bool("enlarge_fails")) {
		g_faults += 1;
		return SQFS_ERROR_ALLOC;
	}
	array->count = capacity;	/* grown in place; new slots unspecified */
	return 0;
}

int sqfs_write_table(sqfs_file_t *file, sqfs_compressor_t *cmp, const void *data,
		     size_t table_size, sqfs_u64 *start)
{
	VERIF_ASSERT(file == &g_file && cmp == &g_cmp &&
		     VERIF_R_OK(data, table_size), "C17.export.env_pre");
	g_wt_calls += 1;
	g_wt_data = data;
	g_wt_size = table_size;
	if (verif_nd_bool("write_table_fails")) {
		g_faults += 1;
		return SQFS_ERROR_IO;
	}
	g_wt_start = verif_nd_u64("table_start");
	*start = g_wt_start;
	return 0;
}

/* other entry points of the translation unit (not reached) */
void stub_destroy(sqfs_object_t *o) { (void)o; }
int sqfs_meta_writer_append(sqfs_meta_writer_t *m, const void *data, size_t size)
{
	(void)m; (void)data; (void)size;
	return 0;
}
void sqfs_meta_writer_get_position(const sqfs_meta_writer_t *m,
				   sqfs_u64 *block_start, sqfs_u32 *offset)
{
	(void)m; (void)block_start; (void)offset;
}
void array_cleanup(array_t *a) { (void)a; }
int array_init(array_t *a, size_t s, size_t c) { (void)a; (void)s; (void)c; return 0; }

void harness(void)
{
	static sqfs_super_t super;
	size_t used0, count0, k, w;
	sqfs_u32 inum;
	sqfs_u64 iref, start0;
	sqfs_u16 sflags0;
	int ret;

	g_set_calls = g_cap_calls = g_wt_calls = g_faults = 0;

	used0 = verif_nd_size("used");
	count0 = verif_nd_size("capacity");
	VERIF_ASSUME(count0 >= 1 && count0 <= CAP && used0 <= count0);
	for (k = 0; k < CAP; ++k) {
		g_slots[k] = verif_nd_u64("slot");
		g_slots0[k] = g_slots[k];
	}
	g_wr.export_tbl.size = sizeof(sqfs_u64);
	g_wr.export_tbl.count = HAVE_TABLE ? count0 : 0;
	g_wr.export_tbl.used = HAVE_TABLE ? used0 : 0;
	g_wr.export_tbl.data = HAVE_TABLE ? g_slots : NULL;

	inum = verif_nd_u32("inode_number");
	iref = verif_nd_u64("inode_ref");
	w = verif_nd_size("witness_slot");
	VERIF_ASSUME(w < CAP);
	start0 = verif_nd_u64("old_start");
	sflags0 = verif_nd_u16("old_flags");
	super.export_table_start = start0;
	super.flags = sflags0;

#if OP == 0
	ret = add_export_table_entry(&g_wr, inum, iref);
#else
	ret = sqfs_dir_writer_write_export_table(&g_wr, &g_file, &g_cmp, inum,
						 iref, &super);
#endif

#if !HAVE_TABLE
	VERIF_ASSERT(ret == 0 && g_wt_calls == 0 && g_cap_calls == 0 &&
		     g_set_calls == 0 && super.export_table_start == start0 &&
		     super.flags == sflags0, "C17.export.absent");
	VERIF_COVER(ret == 0);
#else
	if (inum == 0 || g_faults > 0)
		VERIF_ASSERT(ret != 0, "C17.export.fail_stop");
	if (inum == 0)
		VERIF_ASSERT(g_wt_calls == 0 && g_slots[w] == g_slots0[w] &&
			     g_wr.export_tbl.used == used0, "C17.export.fail_stop");

	if (inum >= 1 && inum <= CAP && (g_cap_calls == 0 || g_wr.export_tbl.count >= inum) &&
	    !(g_faults > 0 && g_wt_calls == 0)) {
		size_t nu = g_wr.export_tbl.used;

		/* the entry was stored */
		VERIF_ASSERT(nu == (used0 > inum ? used0 : inum) &&
			     nu <= g_wr.export_tbl.count, "C17.export.slot");
		VERIF_ASSERT(g_slots[inum - 1] == iref, "C17.export.slot");
		if (w != inum - 1) {
			if (w >= used0 && w < inum)
				VERIF_ASSERT(g_slots[w] == 0xFFFFFFFFFFFFFFFFULL,
					     "C17.export.slot");
			else
				VERIF_ASSERT(g_slots[w] == g_slots0[w],
					     "C17.export.slot");
		}
#if OP == 1
		VERIF_ASSERT(g_wt_calls == 1 && g_wt_data == (const void *)g_slots &&
			     g_wt_size == 8 * nu, "C17.export.written");
		if (ret == 0)
			VERIF_ASSERT(super.export_table_start == g_wt_start &&
				     super.flags == (sflags0 | SQFS_FLAG_EXPORTABLE),
				     "C17.export.written");
		else
			VERIF_ASSERT(g_faults > 0, "C17.export.fail_stop");
#endif
	}
#if OP == 1
	if (ret != 0)
		VERIF_ASSERT(super.export_table_start == start0 &&
			     super.flags == sflags0, "C17.export.fail_stop");
#endif
	VERIF_COVER(ret == 0 && inum > used0 + 1);
	VERIF_COVER(ret == 0 && inum < used0);
	VERIF_COVER(ret != 0 && inum >= 1);
	VERIF_COVER(ret != 0 && inum == 0);
#endif
}
