/* C17 / C04 (w18): the real process_args() of bin/tar2sqfs/src/options.c;
 * getopt_long, exit, strdup/free, strlist_append/strlist_cleanup,
 * canonicalize_name, the number parsers, the compressor name lookup, the
 * configuration defaults and the printers are contract stubs
 * (C06/w18_optenv.h, w18_mkfs_env.h). NOPT options (concrete count), all
 * values symbolic. Model (t2_model) written from tar2sqfs.1 / the usage text.
 *
 *   C17.t2s_opts.tail_packing   no_tail_pack <=> -T
 *   C17.t2s_opts.block_size / devblksize / compressor / jobs / backlog /
 *        {jobs,backlog}_number_checked     as C17.mkfs_opts.*
 *   C17.t2s_opts.flags_exact    dont_skip <=> -s, keep_time <=> no -k,
 *        no_symlink_retarget <=> -S, cfg.no_xattr <=> -x, exportable <=> -e,
 *        quiet <=> -q, outmode == (-f ? OVERWRITE : 0), fs_defaults = last -d
 *   C04.t2s_opts.root_becomes   NULL without -r, otherwise the copy of the
 *        last -r word that canonicalize_name accepted and left non-empty
 *   C04.t2s_opts.excludes       excludedirs holds, in order, one canonicalised
 *        copy per -E
 *   C18.funnel.t2s_opts.refuse  no return after canonicalize_name refused a
 *        word (or emptied a root)
 *   C17.t2s_opts.filename       cfg.filename is the only non-option word
 *   C17.t2s_opts.must_exit / help_status / failure_status / exit_justified
 *   C13.t2s_opts.no_leak        on return every live block is root_becomes or
 *        a list element
 */
#include "bin/tar2sqfs/src/tar2sqfs.h"

#ifndef NOPT
#define NOPT 2
#endif
#ifndef W18_ARGLEN
#define W18_ARGLEN 10
#endif

static bool t2_has_arg(int c)
{
	return c == 'r' || c == 'c' || c == 'b' || c == 'B' || c == 'd' ||
	       c == 'X' || c == 'j' || c == 'Q' || c == 'E';
}

static bool t2_is_opt(int c)
{
	return t2_has_arg(c) || c == 's' || c == 'x' || c == 'e' || c == 'k' ||
	       c == 'f' || c == 'q' || c == 'S' || c == 'T' || c == 'h' ||
	       c == 'V' || c == '?';
}

static bool g_isnum[3];
#define W18_IS_OPT(c) t2_is_opt(c)
#define W18_HAS_ARG(c) t2_has_arg(c)
#define W18_OPT_ARG_OK(c, ai) (((c) != 'j' && (c) != 'Q') || g_isnum[ai])
#include "C06/w18_optenv.h"
#include "C17/w18_mkfs_env.h"

/* ---------------------------------------------------------- strlist stubs */
static char *g_list_store[4];
static int g_list_slot[4];	/* pool slot of element i */
static unsigned g_list_cleanups;
static bool g_list_failed[5];

int strlist_append(strlist_t *list, const char *str)
{
	char *p;

	VERIF_ASSERT(list == &excludedirs && str != NULL &&
		     list->count <= 3 &&
		     (list->count == 0 || list->strings == g_list_store),
		     "w18.env.strlist_append.pre");
	p = w18_strdup(str);
	if (p == NULL) {
		g_list_failed[w18_slot()] = true;
		return -1;
	}
	list->strings = g_list_store;
	list->capacity = 4;
	g_list_slot[list->count] = w18_slot();
	list->strings[list->count] = p;
	list->count += 1;
	return 0;
}

void strlist_cleanup(strlist_t *list)
{
	size_t i;

	VERIF_ASSERT(list == &excludedirs && list->count <= 4,
		     "w18.env.strlist_cleanup.pre");
	g_list_cleanups += 1;
	for (i = 0; i < 4; ++i) {
		if (i < list->count)
			w18_free(list->strings[i]);
	}
	list->strings = NULL;
	list->count = 0;
	list->capacity = 0;
}

/* ------------------------------------------------- canonicalize_name stub */
static int g_cn_calls[5], g_cn_ret[5];
static bool g_cn_empty[5];
static char g_cn_out[5][W18_BUFSZ];
static bool g_cn_refused;

int canonicalize_name(char *filename)
{
	int i, s, n;

	VERIF_ASSERT(filename != NULL, "C18.funnel.canon.pre_nonnull");
	s = w18_pool_index(filename);
	VERIF_ASSERT(s >= 1 && s <= NOPT && g_pool_live[s] &&
		     (g_optc[s - 1] == 'r' || g_optc[s - 1] == 'E'),
		     "C18.funnel.t2s_opts.canon_arg");
	if (s < 1 || s > NOPT)
		return -1;
	g_cn_calls[s] += 1;
#ifdef W18_RELATIONAL
	/* same answer for the same word in both runs: accepted as it is */
	g_cn_ret[s] = 0;
	for (i = 0; i < W18_BUFSZ; ++i)
		g_cn_out[s][i] = filename[i];
	g_cn_empty[s] = filename[0] == '\0';
	return 0;
#endif
	if (verif_nd_bool("canon.refuses")) {
		g_cn_ret[s] = -1;
		g_cn_refused = true;
		return -1;
	}
	g_cn_ret[s] = 0;
	/* accepted: rewritten in place, never longer; n = new length */
	n = verif_nd_u8("canon.len");
	VERIF_ASSUME(n <= W18_ARGLEN);
	for (i = 0; i < W18_BUFSZ; ++i) {
		uint8_t b = i < n ? verif_nd_u8("canon.out") : 0;

		VERIF_ASSUME(i >= n || b != 0);
		w18_put(&filename[i], b);
		w18_put(&g_cn_out[s][i], b);
	}
	g_cn_empty[s] = n == 0;
	return 0;
}

const char *xfrm_compressor_name_from_id(int id) { (void)id; return NULL; }

#include "bin/tar2sqfs/src/options.c"

/* ------------------------------- model, from tar2sqfs.1 and the usage text */
static int m_stop;
static bool m_T, m_S, m_s, m_x, m_k, m_e, m_f, m_q;
static int m_r, m_c, m_b, m_B, m_d, m_X, m_j, m_Q, m_nE;
static int m_E[3];

static void t2_model(int n)
{
	int k;

	m_stop = -1;
	m_T = m_S = m_s = m_x = m_k = m_e = m_f = m_q = false;
	m_r = m_c = m_b = m_B = m_d = m_X = m_j = m_Q = -1;
	m_nE = 0;
	m_E[0] = m_E[1] = m_E[2] = -1;

	for (k = 0; k < n; ++k) {
		switch (g_optc[k]) {
		case 'r': m_r = k; break;
		case 'c': m_c = k; break;
		case 'b': m_b = k; break;
		case 'B': m_B = k; break;
		case 'd': m_d = k; break;
		case 'X': m_X = k; break;
		case 'j': m_j = k; break;
		case 'Q': m_Q = k; break;
		case 'E': m_E[m_nE] = k; m_nE += 1; break;
		case 'T': m_T = true; break;
		case 'S': m_S = true; break;
		case 's': m_s = true; break;
		case 'x': m_x = true; break;
		case 'k': m_k = true; break;
		case 'e': m_e = true; break;
		case 'f': m_f = true; break;
		case 'q': m_q = true; break;
		default:
			if (m_stop < 0)
				m_stop = k;
			break;
		}
	}
}

static const char *t2_word(int k)
{
	return g_argtab[g_optarg_idx[k]];
}

static const struct w18_num *t2_num(int k)
{
	return &w18_numtab[g_numsel[g_optarg_idx[k]]];
}

static bool t2_num_ok(int k, long long vmin, long long vmax)
{
	const struct w18_num *n = t2_num(k);

	return n->is_number && n->value >= vmin && n->value <= vmax;
}

static bool t2_is_help_word(const char *s)
{
	return s[0] == 'h' && s[1] == 'e' && s[2] == 'l' && s[3] == 'p' &&
	       s[4] == '\0';
}

#ifdef W18_RELATIONAL
static bool g_second_run;
#endif

static void w18_on_exit(int status)
{
	int k = g_pos - 1, i;

#ifdef W18_RELATIONAL
	if (g_second_run) {
		VERIF_ASSERT(0, "C17.options.order_free");
		return;
	}
#endif
	if (g_pos == 0) {
		VERIF_ASSERT(0, "C17.t2s_opts.exit_justified");
	} else if (g_pos <= NOPT) {
		int c = g_optc[k], ai = g_optarg_idx[k];

		if (c == 'h' || c == 'V') {
			VERIF_ASSERT(status == EXIT_SUCCESS, "C17.t2s_opts.help_status");
#if NOPT >= 1 && !defined(W18_RELATIONAL)
			VERIF_COVER(status == EXIT_SUCCESS);
#endif
		} else {
			VERIF_ASSERT(status != EXIT_SUCCESS, "C17.t2s_opts.failure_status");
			VERIF_ASSERT(c == '?' ||
				     (c == 'c' && !g_comp_ok[ai]) ||
				     ((c == 'b' || c == 'B') && !g_size_ok[ai]) ||
				     (c == 'B' && g_size_val[ai] < 1024) ||
				     ((c == 'r' || c == 'E') && g_pool_failed[k + 1]) ||
				     (c == 'r' && g_cn_calls[k + 1] >= 1 &&
				      (g_cn_ret[k + 1] != 0 || g_cn_empty[k + 1])) ||
				     ((c == 'j' || c == 'Q') && !t2_num_ok(k, 1, LLONG_MAX)),
				     "C17.t2s_opts.exit_justified");
#if NOPT >= 1 && !defined(W18_RELATIONAL)
			VERIF_COVER(c == 'r' && g_cn_refused);
			VERIF_COVER(c == 'E' && g_pool_failed[k + 1]);
#endif
		}
	} else {
		bool refused = false;

		t2_model(NOPT);
		for (i = 0; i < 3; ++i) {
			if (i < m_nE && g_cn_calls[m_E[i] + 1] >= 1 &&
			    g_cn_ret[m_E[i] + 1] != 0)
				refused = true;
		}
		if (status == EXIT_SUCCESS) {
			VERIF_ASSERT(m_X >= 0 && t2_is_help_word(t2_word(m_X)),
				     "C17.t2s_opts.help_status");
		} else {
			VERIF_ASSERT(refused || g_optind_final != g_argc - 1,
				     "C17.t2s_opts.exit_justified");
		}
#if !defined(W18_RELATIONAL)
		VERIF_COVER(status != EXIT_SUCCESS);
#endif
	}
}

static void t2_env_reset(void)
{
	int i;

	for (i = 0; i < 5; ++i) {
		g_cn_calls[i] = 0;
		g_cn_ret[i] = 0;
		g_cn_empty[i] = false;
		g_list_failed[i] = false;
	}
	for (i = 0; i < 4; ++i) {
		g_list_store[i] = NULL;
		g_list_slot[i] = 0;
	}
	g_cn_refused = false;
	g_list_cleanups = 0;
	/* the tool's globals: a fresh process */
	dont_skip = false;
	keep_time = true;
	no_tail_pack = false;
	no_symlink_retarget = false;
	root_becomes = NULL;
	excludedirs.strings = NULL;
	excludedirs.count = 0;
	excludedirs.capacity = 0;
}

#ifndef W18_RELATIONAL
void harness(void)
{
	bool live_ok[5];
	int k, i;

	w18_env_init();
	w18_mkfs_args();
	t2_env_reset();

	W18_RUN(process_args(g_argc, g_argv));
	if (g_exited)
		return;

	t2_model(NOPT);

	VERIF_ASSERT(m_stop < 0 && g_optind_final == g_argc - 1 &&
		     !(m_X >= 0 && t2_is_help_word(t2_word(m_X))),
		     "C17.t2s_opts.must_exit");
	VERIF_ASSERT(g_cfg_init_calls == 1, "C17.t2s_opts.defaults");
	VERIF_ASSERT(!g_cn_refused, "C18.funnel.t2s_opts.refuse");

	VERIF_ASSERT(no_tail_pack == m_T, "C17.t2s_opts.tail_packing");

	if (m_b >= 0) {
		VERIF_ASSERT(cfg.block_size == g_size_val[g_optarg_idx[m_b]],
			     "C17.t2s_opts.block_size");
	} else {
		VERIF_ASSERT(cfg.block_size == 131072, "C17.t2s_opts.block_size");
	}
	if (m_B >= 0) {
		VERIF_ASSERT(cfg.devblksize == g_size_val[g_optarg_idx[m_B]] &&
			     cfg.devblksize >= 1024, "C17.t2s_opts.devblksize");
	} else {
		VERIF_ASSERT(cfg.devblksize == 4096, "C17.t2s_opts.devblksize");
	}
	for (k = 0; k < NOPT; ++k) {
		if (g_optc[k] == 'b' || g_optc[k] == 'B')
			VERIF_ASSERT(g_size_ok[g_optarg_idx[k]],
				     "C17.t2s_opts.must_exit");
		if (g_optc[k] == 'B')
			VERIF_ASSERT(g_size_val[g_optarg_idx[k]] >= 1024,
				     "C17.t2s_opts.devblksize");
		if (g_optc[k] == 'c')
			VERIF_ASSERT(g_comp_ok[g_optarg_idx[k]],
				     "C17.t2s_opts.compressor");
		if (g_optc[k] == 'j')
			VERIF_ASSERT(t2_num_ok(k, 0, LLONG_MAX),
				     "C17.t2s_opts.jobs_number_checked");
		if (g_optc[k] == 'Q')
			VERIF_ASSERT(t2_num_ok(k, 0, LLONG_MAX),
				     "C17.t2s_opts.backlog_number_checked");
	}
	VERIF_ASSERT((int)cfg.comp_id == (m_c >= 0 ? g_comp_id[g_optarg_idx[m_c]] :
						    g_def_comp),
		     "C17.t2s_opts.compressor");
	VERIF_ASSERT(m_X >= 0 ? cfg.comp_extra == t2_word(m_X) :
				cfg.comp_extra == NULL, "C17.t2s_opts.compressor");

	if (m_j < 0) {
		VERIF_ASSERT(cfg.num_jobs == g_def_jobs, "C17.t2s_opts.jobs");
	} else if (t2_num_ok(m_j, 1, LLONG_MAX)) {
		VERIF_ASSERT(cfg.num_jobs == (size_t)t2_num(m_j)->value,
			     "C17.t2s_opts.jobs");
	} else if (t2_num_ok(m_j, 0, 0)) {
		VERIF_ASSERT(cfg.num_jobs >= 1, "C17.t2s_opts.jobs");
	}
	if (m_Q >= 0 && t2_num_ok(m_Q, 1, LLONG_MAX)) {
		VERIF_ASSERT(cfg.max_backlog == (size_t)t2_num(m_Q)->value,
			     "C17.t2s_opts.backlog");
	} else if ((m_Q < 0 || t2_num_ok(m_Q, 0, 0)) &&
		   (m_j < 0 || t2_num_ok(m_j, 0, LLONG_MAX))) {
		VERIF_ASSERT(cfg.max_backlog == 10 * cfg.num_jobs,
			     "C17.t2s_opts.backlog");
	}

	VERIF_ASSERT(dont_skip == m_s && keep_time == !m_k &&
		     no_symlink_retarget == m_S && cfg.no_xattr == m_x &&
		     cfg.exportable == m_e && cfg.quiet == m_q &&
		     cfg.outmode == (m_f ? SQFS_FILE_OPEN_OVERWRITE : 0) &&
		     (m_d >= 0 ? cfg.fs_defaults == t2_word(m_d) :
				 cfg.fs_defaults == NULL),
		     "C17.t2s_opts.flags_exact");

	for (i = 0; i < 5; ++i)
		live_ok[i] = false;

	/* root */
	if (m_r < 0) {
		VERIF_ASSERT(root_becomes == NULL, "C04.t2s_opts.root_becomes");
	}
	for (k = 0; k < NOPT; ++k) {
		if (k == m_r) {
			VERIF_ASSERT(root_becomes == g_pool[k + 1] &&
				     g_pool_live[k + 1] &&
				     g_pool_src[k + 1] == t2_word(k) &&
				     g_cn_calls[k + 1] == 1 && g_cn_ret[k + 1] == 0 &&
				     !g_cn_empty[k + 1] &&
				     w18_streq(g_pool[k + 1], g_cn_out[k + 1]),
				     "C04.t2s_opts.root_becomes");
			live_ok[k + 1] = true;
		}
	}

	/* exclude list: one canonicalised copy per -E, in order */
	VERIF_ASSERT(excludedirs.count == (size_t)m_nE, "C04.t2s_opts.excludes");
	for (i = 0; i < 3; ++i) {
		if (i < m_nE && excludedirs.count == (size_t)m_nE) {
			int s = m_E[i] + 1;

			VERIF_ASSERT(excludedirs.strings[i] == g_pool[s] &&
				     g_pool_live[s] &&
				     g_pool_src[s] == t2_word(m_E[i]) &&
				     g_cn_calls[s] == 1 && g_cn_ret[s] == 0 &&
				     w18_streq(g_pool[s], g_cn_out[s]),
				     "C04.t2s_opts.excludes");
			if (s >= 0 && s < 5)
				live_ok[s] = true;
		}
	}
	for (i = 0; i < W18_NSLOT; ++i)
		VERIF_ASSERT(!g_pool_live[i] || live_ok[i], "C13.t2s_opts.no_leak");

	VERIF_ASSERT(cfg.filename != NULL && cfg.filename == g_argv[g_optind_final],
		     "C17.t2s_opts.filename");

	VERIF_COVER(true);
#if NOPT >= 1
	VERIF_COVER(m_r >= 0);
	VERIF_COVER(m_nE == 1);
	VERIF_COVER(m_T);
#endif
#if NOPT >= 2
	VERIF_COVER(m_T && m_b >= 0 && cfg.block_size == 4096);
	VERIF_COVER(m_nE == 2);
	VERIF_COVER(m_j >= 0 && m_Q >= 0 && cfg.max_backlog == 7);
	VERIF_COVER(m_r == 1 && g_optc[0] == 'r');
#endif
#if NOPT >= 3
	VERIF_COVER(m_nE == 3);
	VERIF_COVER(m_nE == 2 && m_r == 1);
#endif
}
#endif
