/* C17: pack_file (bin/gensquashfs/src/mkfs.c) - the flags a file node got
 * from the sort file reach the block processor unchanged, and
 * --no-tail-packing touches only files larger than one block.
 *
 *  ensures  C17.pack.flags   the file is begun exactly once, on the packer's
 *              block processor, for the node's inode slot, with
 *              flags == node flags | (DONT_FRAGMENT iff no_tail_packing and
 *              file size > block size) - no other bit added or lost
 *           C17.pack.block_size  data is spliced in block_size units
 *           C17.pack.fail_stop   any failure ==> non-zero result; success
 *              ==> the stream was flushed (end_file) exactly once
 */
#include <stdlib.h>
#include <string.h>
#include "verif.h"

/* ghosts named in the loop contract */
unsigned g_create_calls, g_splice_calls, g_flush_calls, g_faults, g_splice_size;

#include "bin/gensquashfs/src/mkfs.c"
#include "pack_env.h"

static sqfs_u64 g_filesize;

int sqfs_native_file_open(sqfs_file_handle_t *out, const char *filename,
			  sqfs_u32 flags)
{
	(void)filename; (void)flags;
	if (verif_nd_bool("open_fails")) {
		g_faults += 1;
		return SQFS_ERROR_IO;
	}
	*out = 3;
	return 0;
}

void sqfs_native_file_close(sqfs_file_handle_t fd) { (void)fd; }

int sqfs_native_file_get_size(sqfs_file_handle_t hnd, sqfs_u64 *out)
{
	(void)hnd;
	if (verif_nd_bool("get_size_fails")) {
		g_faults += 1;
		return SQFS_ERROR_IO;
	}
	*out = g_filesize;
	return 0;
}

int sqfs_istream_open_handle(sqfs_istream_t **out, const char *path,
			     sqfs_file_handle_t fd, sqfs_u32 flags)
{
	(void)path; (void)fd; (void)flags;
	if (verif_nd_bool("istream_open_fails")) {
		g_faults += 1;
		return SQFS_ERROR_ALLOC;
	}
	*out = mk(&g_in);
	return 0;
}

void harness(void)
{
	static struct { tree_node_t n; char name[4]; } node;
	static options_t opt;
	int nflags, ret;
	sqfs_u32 expect;

	g_create_calls = g_splice_calls = g_flush_calls = g_faults = 0;

	nflags = verif_nd_int("node_flags");
	/* what fstree_sort_files stores (C17.flags.decode): user flag bits */
	VERIF_ASSUME(nflags >= 0 && (nflags & ~SQFS_BLK_USER_SETTABLE_FLAGS) == 0);
	node.n.data.file.flags = nflags;
	node.n.data.file.priority = verif_nd_i64("priority");
	node.n.data.file.inode = NULL;
	node.n.data.file.input_file = NULL;
	node.n.mode = S_IFREG | 0644;

	opt.no_tail_packing = verif_nd_bool("no_tail_packing");
	opt.cfg.block_size = verif_nd_size("block_size");
	VERIF_ASSUME(opt.cfg.block_size >= 4096 && opt.cfg.block_size <= 1048576);
	g_filesize = verif_nd_u64("file_size");

	ret = pack_file(G_PROC, "some/file", &node.n, &opt);

	expect = (sqfs_u32)nflags;
	if (opt.no_tail_packing && g_filesize > opt.cfg.block_size)
		expect |= SQFS_BLK_DONT_FRAGMENT;

	VERIF_ASSERT(g_create_calls <= 1, "C17.pack.flags");
	if (g_create_calls == 1) {
		VERIF_ASSERT(g_create_flags == expect, "C17.pack.flags");
		VERIF_ASSERT(g_create_proc == G_PROC &&
			     g_create_inode == &node.n.data.file.inode,
			     "C17.pack.flags");
	}
	if (g_splice_calls > 0)
		VERIF_ASSERT(g_splice_size == opt.cfg.block_size,
			     "C17.pack.block_size");
	VERIF_ASSERT((ret == 0) == (g_faults == 0), "C17.pack.fail_stop");
	if (ret == 0)
		VERIF_ASSERT(g_create_calls == 1 && g_splice_calls >= 1 &&
			     g_flush_calls == 1, "C17.pack.fail_stop");
	VERIF_ASSERT(node.n.data.file.flags == nflags, "C17.pack.flags");

	VERIF_COVER(ret == 0 && (expect & SQFS_BLK_DONT_FRAGMENT) &&
		    !(nflags & SQFS_BLK_DONT_FRAGMENT));
	VERIF_COVER(ret == 0 && opt.no_tail_packing &&
		    !(expect & SQFS_BLK_DONT_FRAGMENT));
	VERIF_COVER(ret == 0 && nflags == SQFS_BLK_USER_SETTABLE_FLAGS);
	VERIF_COVER(ret != 0 && g_create_calls == 1);
	VERIF_COVER(ret != 0 && g_create_calls == 0);
}
