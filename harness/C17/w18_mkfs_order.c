/* C17.options.order_free (w18), relational: the real process_command_line()
 * of bin/gensquashfs/src/options.c is run twice on the two orders of the same
 * two options (a, word 0) and (b, word 1), behind a leading --pack-dir
 * <word 2> without which nothing is accepted - a and b symbolic over the whole
 * option set, different options (and not two spellings of one: --all-root is
 * --set-uid 0 --set-gid 0) - with the same words, the same callee answers
 * (w18_mkfs_env.h: every answer is a function of the word) and the same
 * defaults. If the first order is accepted,
 *   C17.options.order_free   the second order is accepted too and the two
 *        options_t are identical, compared as 64 bit words over the whole
 *        object (so a field that is added, renamed or retyped is compared
 *        as well); the one heap copy (packdir) is compared by content.
 * No allocation failure here (w18_mkfs_opts has it).
 */
#define W18_RELATIONAL
#undef NOPT
#define NOPT 3
#include "C17/w18_mkfs_opts.c"

static bool mk_same_option(int a, int b)
{
	if (a == b)
		return true;
	if (a == MK_ALL_ROOT)
		return b == 'u' || b == 'g';
	if (b == MK_ALL_ROOT)
		return a == 'u' || a == 'g';
	return false;
}

void harness(void)
{
	static options_t o1, o2;
	static char dir1[W18_BUFSZ];
	bool have1;
	int a, b, i;

	w18_env_init();
	w18_mkfs_args();
	g_second_run = false;

	a = verif_nd_u8("opt.a");
	b = verif_nd_u8("opt.b");
	VERIF_ASSUME(mk_is_opt(a) && mk_is_opt(b) && !mk_same_option(a, b));

	g_script_on = true;
	g_script_c[0] = 'D'; g_script_arg[0] = 2;
	g_script_c[1] = a; g_script_arg[1] = 0;
	g_script_c[2] = b; g_script_arg[2] = 1;
	W18_RUN(process_command_line(&o1, g_argc, g_argv));
	if (g_exited)
		return;

	have1 = o1.packdir != NULL;
	for (i = 0; i < W18_BUFSZ; ++i)
		dir1[i] = have1 ? o1.packdir[i] : '\0';

	w18_env_restart();
	g_cfg_init_calls = 0;
	g_second_run = true;
	g_script_c[1] = b; g_script_arg[1] = 1;
	g_script_c[2] = a; g_script_arg[2] = 0;
	W18_RUN(process_command_line(&o2, g_argc, g_argv));
	if (g_exited)
		return;

	VERIF_ASSERT(have1 == (o2.packdir != NULL), "C17.options.order_free");
	if (have1 && o2.packdir != NULL)
		VERIF_ASSERT(w18_streq(dir1, o2.packdir), "C17.options.order_free");
	o1.packdir = NULL;
	o2.packdir = NULL;
	VERIF_ASSERT(w18_same_words(&o1, &o2, sizeof(o1)), "C17.options.order_free");

	VERIF_COVER(a == 'T' && b == 'b');
	VERIF_COVER(a == 'b' && b == 'T');
	VERIF_COVER(a == 'D' && b == 'F');
	VERIF_COVER(a == 'u' && b == 'g');
	VERIF_COVER(a == 'j' && b == 'Q');
}
