/* C17: write_file (bin/tar2sqfs/src/process_tarball.c) - tar2sqfs has no
 * sort file: the only flag it may pass is DONT_FRAGMENT, and only for
 * --no-tail-packing on files larger than one block.
 *
 *  ensures  C17.pack.flags   flags == (DONT_FRAGMENT iff no_tail_pack and
 *              entry size > block size), begun once on sqfs->data for the
 *              node's inode slot
 *           C17.pack.block_size, C17.pack.fail_stop as in pack_file.c
 */
#include <stdlib.h>
#include <string.h>
#include "verif.h"

/* ghosts named in the loop contract */
unsigned g_create_calls, g_splice_calls, g_flush_calls, g_faults, g_splice_size;

#include "bin/tar2sqfs/src/process_tarball.c"
#include "pack_env.h"

bool dont_skip, keep_time, no_tail_pack, no_symlink_retarget;
sqfs_writer_cfg_t cfg;
char *root_becomes;
strlist_t excludedirs;

static sqfs_dir_iterator_t g_it;

int stub_open_file_ro(sqfs_dir_iterator_t *it, sqfs_istream_t **out)
{
	VERIF_ASSERT(it == &g_it, "C17.pack.env_pre");
	if (verif_nd_bool("open_file_ro_fails")) {
		g_faults += 1;
		return SQFS_ERROR_IO;
	}
	*out = mk(&g_in);
	return 0;
}

void harness(void)
{
	static struct { tree_node_t n; char name[4]; } node;
	static struct { sqfs_dir_entry_t e; char name[8]; } ent;
	static sqfs_writer_t sqfs;
	sqfs_u32 expect;
	int ret;

	g_create_calls = g_splice_calls = g_flush_calls = g_faults = 0;

	node.n.data.file.flags = verif_nd_int("stale_node_flags");
	node.n.data.file.inode = NULL;
	node.n.mode = S_IFREG | 0644;
	ent.e.size = verif_nd_u64("entry_size");
	ent.e.mode = S_IFREG | 0644;
	ent.name[0] = 'f';
	ent.name[1] = '\0';
	sqfs.data = G_PROC;
	g_it.open_file_ro = stub_open_file_ro;

	no_tail_pack = verif_nd_bool("no_tail_pack");
	cfg.block_size = verif_nd_size("block_size");
	VERIF_ASSUME(cfg.block_size >= 4096 && cfg.block_size <= 1048576);

	ret = write_file(&sqfs, &g_it, &ent.e, &node.n);

	expect = (no_tail_pack && ent.e.size > cfg.block_size) ?
		SQFS_BLK_DONT_FRAGMENT : 0;

	VERIF_ASSERT(g_create_calls == 1, "C17.pack.flags");
	VERIF_ASSERT(g_create_flags == expect, "C17.pack.flags");
	VERIF_ASSERT(g_create_proc == G_PROC &&
		     g_create_inode == &node.n.data.file.inode, "C17.pack.flags");
	if (g_splice_calls > 0)
		VERIF_ASSERT(g_splice_size == cfg.block_size, "C17.pack.block_size");
	VERIF_ASSERT((ret == 0) == (g_faults == 0), "C17.pack.fail_stop");
	if (ret == 0)
		VERIF_ASSERT(g_splice_calls >= 1 && g_flush_calls == 1,
			     "C17.pack.fail_stop");

	VERIF_COVER(ret == 0 && expect == SQFS_BLK_DONT_FRAGMENT);
	VERIF_COVER(ret == 0 && no_tail_pack && expect == 0);
	VERIF_COVER(ret != 0 && g_splice_calls > 0);
	VERIF_COVER(ret != 0 && g_splice_calls == 0);
}
