/* C17: process_completed_block (lib/sqfs/src/block_processor/backend.c) for
 * the data blocks of a file: what the flags decided by process_block become
 * in the inode's block list and in the writer call.
 *
 * The inode is a typed wrapper with room for 8 block-size words (the block
 * index is symbolic below 8, so set_block_size never reallocates - growth is
 * C13/C01). Inode type EXT_FILE (after make_extended) or FILE.
 *
 *  ensures  C17.bp.size_word      a stored data block gets the size word
 *              size | (IS_COMPRESSED ? 0 : 1 << 24) at its index: a
 *              DONT_COMPRESS block (never IS_COMPRESSED, bp_process_block.c)
 *              is recorded as stored uncompressed
 *           C17.bp.sparse_word    IS_SPARSE ==> size word 0 and the inode's
 *              sparse byte count grows by the block size (IGNORE_SPARSE blocks
 *              never get here flagged sparse)
 *           C17.bp.writer_flags   the writer sees the block's flags (minus the
 *              internal bit): DONT_DEDUPLICATE / LAST_BLOCK / FIRST_BLOCK reach
 *              deduplicate_blocks (blk_wdb.c, blk_dedup.c)
 *           C17.bp.block_start    LAST_BLOCK ==> the inode's block start is
 *              the location the writer reported (after deduplication)
 */
#include "C08/bp_env.h"

#include "lib/sqfs/src/block_processor/backend.c"

static blk_t g_blk;
static sqfs_block_writer_t g_wr;
static struct {
	sqfs_inode_generic_t i;
	sqfs_u32 extra[8];
} g_ino;
static sqfs_inode_generic_t *g_ino_ptr;

static unsigned g_write_calls, g_ext_calls, g_start_calls;
static sqfs_u32 g_w_size, g_w_checksum, g_w_flags;
static sqfs_u64 g_location, g_start_loc;
static int g_write_ret;

int stub_write_data_block(sqfs_block_writer_t *wr, void *user, sqfs_u32 size,
			  sqfs_u32 checksum, sqfs_u32 flags,
			  const sqfs_u8 *data, sqfs_u64 *location)
{
	(void)user;
	VERIF_ASSERT(wr == &g_wr && VERIF_R_OK(data, size), "C17.bp.env_pre");
	g_write_calls += 1;
	g_w_size = size;
	g_w_checksum = checksum;
	g_w_flags = flags;
	g_write_ret = 0;
	if (verif_nd_bool("write_fails")) {
		g_write_ret = verif_nd_int("write_err");
		VERIF_ASSUME(g_write_ret < 0);
		return g_write_ret;
	}
	g_location = verif_nd_u64("location");
	*location = g_location;
	return 0;
}

int sqfs_inode_make_extended(sqfs_inode_generic_t *inode)
{
	VERIF_ASSERT(inode == &g_ino.i, "C17.bp.env_pre");
	g_ext_calls += 1;
	if (inode->base.type == SQFS_INODE_FILE) {
		/* contract: same file, extended layout, sparse counter 0 */
		inode->base.type = SQFS_INODE_EXT_FILE;
		inode->data.file_ext.sparse = 0;
	}
	return 0;
}

int sqfs_inode_set_file_block_start(sqfs_inode_generic_t *inode, sqfs_u64 loc)
{
	VERIF_ASSERT(inode == &g_ino.i && g_write_calls == 1 && g_write_ret == 0,
		     "C17.bp.block_start");
	g_start_calls += 1;
	g_start_loc = loc;
	return 0;
}

int sqfs_inode_set_frag_location(sqfs_inode_generic_t *inode, sqfs_u32 index,
				 sqfs_u32 offset)
{
	(void)inode; (void)index; (void)offset;
	VERIF_ASSERT(0, "C17.bp.env_pre");
	return 0;
}

int sqfs_frag_table_set(sqfs_frag_table_t *tbl, sqfs_u32 index,
			sqfs_u64 location, sqfs_u32 size)
{
	(void)tbl; (void)index; (void)location; (void)size;
	VERIF_ASSERT(0, "C17.bp.env_pre");
	return 0;
}

int sqfs_frag_table_append(sqfs_frag_table_t *tbl, sqfs_u64 location,
			   sqfs_u32 size, sqfs_u32 *index)
{
	(void)tbl; (void)location; (void)size; (void)index;
	VERIF_ASSERT(0, "C17.bp.env_pre");
	return 0;
}

struct hash_entry *hash_table_search_pre_hashed(struct hash_table *ht,
						sqfs_u32 hash, const void *key)
{
	(void)ht; (void)hash; (void)key;
	VERIF_ASSERT(0, "C17.bp.env_pre");
	return NULL;
}

struct hash_entry *hash_table_insert_pre_hashed(struct hash_table *ht,
						sqfs_u32 hash, const void *key,
						void *data)
{
	(void)ht; (void)hash; (void)key; (void)data;
	VERIF_ASSERT(0, "C17.bp.env_pre");
	return NULL;
}

int enqueue_block(sqfs_block_processor_t *proc, sqfs_block_t *blk)
{
	(void)proc; (void)blk;
	VERIF_ASSERT(0, "C17.bp.env_pre");
	return 0;
}

void *stub_pool_dequeue(thread_pool_t *pool)
{
	(void)pool;
	VERIF_ASSERT(0, "C17.bp.env_pre");
	return NULL;
}

int stub_pool_get_status(thread_pool_t *pool)
{
	(void)pool;
	VERIF_ASSERT(0, "C17.bp.env_pre");
	return 0;
}

bool stub_chunk_equals(void *user, const void *k, const void *c)
{
	(void)user; (void)k; (void)c;
	VERIF_ASSERT(0, "C17.bp.env_pre");
	return false;
}

void harness(void)
{
	sqfs_u32 flags, size, index, checksum, used0, word0[8];
	sqfs_u64 sparse0;
	bool ext;
	int i, ret;

	g_write_calls = g_ext_calls = g_start_calls = 0;
	g_write_ret = 0;

	g_p.proc.max_block_size = BS;
	g_p.proc.frag_tbl = G_FRAG_TBL;
	g_p.proc.wr = &g_wr;
	g_wr.write_data_block = stub_write_data_block;
	g_p.proc.free_list = NULL;
	g_p.proc.fblk_in_flight = NULL;
	g_p.proc.backlog = 2;
	g_p.proc.stats.output_bytes_generated = 0;
	g_p.proc.stats.data_block_count = 0;
	g_p.proc.stats.sparse_block_count = 0;
	g_p.proc.stats.frag_block_count = 0;

	ext = verif_nd_bool("inode_is_extended");
	g_ino.i.base.type = ext ? SQFS_INODE_EXT_FILE : SQFS_INODE_FILE;
	g_ino.i.payload_bytes_available = sizeof(g_ino.extra);
	used0 = verif_nd_u32("payload_used");
	VERIF_ASSUME(used0 <= sizeof(g_ino.extra) && used0 % 4 == 0);
	g_ino.i.payload_bytes_used = used0;
	sparse0 = verif_nd_u64("sparse");
	VERIF_ASSUME(sparse0 <= (sqfs_u64)1 << 62);
	if (ext)
		g_ino.i.data.file_ext.sparse = sparse0;
	for (i = 0; i < 8; ++i) {
		word0[i] = verif_nd_u32("old_word");
		g_ino.extra[i] = word0[i];
	}
	g_ino_ptr = &g_ino.i;

	blk_nd_header(&g_blk, "blk");
	VERIF_ASSUME(g_blk.b.size <= BS);
	/* a data block of a file (fragment blocks: C08 frag_pcb) */
	VERIF_ASSUME(!(g_blk.b.flags & SQFS_BLK_FRAGMENT_BLOCK));
	VERIF_ASSUME(g_blk.b.index < 8);
	g_blk.b.inode = &g_ino_ptr;
	flags = g_blk.b.flags;
	size = g_blk.b.size;
	index = g_blk.b.index;
	checksum = g_blk.b.checksum;

	ret = process_completed_block(&g_p.proc, &g_blk.b);

	/* ---------------------------------------------------------------- */
	VERIF_ASSERT(g_write_calls == 1 && g_w_size == size &&
		     g_w_checksum == checksum &&
		     g_w_flags == (flags & ~(sqfs_u32)BLK_FLAG_INTERNAL),
		     "C17.bp.writer_flags");
	VERIF_ASSERT(g_ino_ptr == &g_ino.i, "C17.bp.env_pre");

	if (g_write_ret != 0) {
		VERIF_ASSERT(ret == g_write_ret && g_start_calls == 0,
			     "C17.bp.block_start");
		for (i = 0; i < 8; ++i)
			VERIF_ASSERT(g_ino.extra[i] == word0[i], "C17.bp.size_word");
	} else {
		VERIF_ASSERT(ret == 0, "C17.bp.block_start");
		if (flags & SQFS_BLK_IS_SPARSE) {
			VERIF_ASSERT(g_ino.extra[index] == 0 && g_ext_calls == 1 &&
				     g_ino.i.base.type == SQFS_INODE_EXT_FILE &&
				     g_ino.i.data.file_ext.sparse ==
				     (ext ? sparse0 : 0) + size,
				     "C17.bp.sparse_word");
		} else if (size != 0) {
			sqfs_u32 word = size;

			if (!(flags & SQFS_BLK_IS_COMPRESSED))
				word |= 1 << 24;
			VERIF_ASSERT(g_ino.extra[index] == word, "C17.bp.size_word");
		} else {
			VERIF_ASSERT(g_ino.extra[index] == word0[index],
				     "C17.bp.size_word");
		}
		for (i = 0; i < 8; ++i) {
			if ((sqfs_u32)i != index)
				VERIF_ASSERT(g_ino.extra[i] == word0[i],
					     "C17.bp.size_word");
		}
		if (flags & SQFS_BLK_LAST_BLOCK)
			VERIF_ASSERT(g_start_calls == 1 && g_start_loc == g_location,
				     "C17.bp.block_start");
		else
			VERIF_ASSERT(g_start_calls == 0, "C17.bp.block_start");
	}

	VERIF_COVER(ret == 0 && size != 0 && !(flags & SQFS_BLK_IS_SPARSE) &&
		    (flags & SQFS_BLK_DONT_COMPRESS) && !(flags & SQFS_BLK_IS_COMPRESSED));
	VERIF_COVER(ret == 0 && (flags & SQFS_BLK_IS_COMPRESSED) && size != 0 &&
		    !(flags & SQFS_BLK_IS_SPARSE));
	VERIF_COVER(ret == 0 && (flags & SQFS_BLK_IS_SPARSE) && !ext);
	VERIF_COVER(ret == 0 && (flags & SQFS_BLK_LAST_BLOCK));
	VERIF_COVER(ret != 0);
}
