/* C17: fstree_sort_files (bin/gensquashfs/src/sort_by_file.c) - which line of
 * the sort file decides the priority and flags of which file.
 *
 * The sort file text is concrete (so the static line decoders run on real
 * text; parse_int and split_line are the real lib/util code), the *matching*
 * is symbolic: strcmp(path, name) and fnmatch(pattern, path, ..) are contracts
 * that answer arbitrarily for every (line, node) pair - every combination of
 * overlapping patterns over N <= 3 file nodes. fstree_get_path,
 * canonicalize_name (C18 contract) and istream_get_line are contracts that
 * may fail.
 *
 * Sort file (SORTFILE 0):
 *     # comment
 *     -5 [glob,dont_compress] a*
 *     7 "b \"c"
 *     -5 [nosparse, glob_no_path ,dont_fragment]   *
 *     9223372036854775806 [dont_deduplicate] z
 *
 *  ensures  C17.match.first_wins     a node that already matched an earlier
 *              line is never compared or reassigned; its priority and flags
 *              are those of its FIRST matching line, unmodified
 *           C17.match.nonglob_stops  a plain line stops at its first match,
 *              a glob line visits every still unmatched node
 *           C17.match.complete       every still unmatched node is offered to
 *              every line (no file is skipped)
 *           C17.match.glob_mode      fnmatch gets FNM_PATHNAME for `glob`, 0 for
 *              `glob_no_path`; plain lines use string equality
 *           C17.match.unlisted_default  unmatched files: priority 0, flags 0
 *           C17.match.decoded        the pattern handed to the comparison is
 *              the unquoted, unescaped file name; priority and flag bits are
 *              the line's
 *           C17.match.sorted         on success the list is the stable sort by
 *              the assigned priorities (composition with sort_file_list)
 *           C17.match.fail_stop      environment failure ==> -1
 */
#include <stdlib.h>
#include <string.h>
#include <stdio.h>
#include <stdarg.h>
#include <ctype.h>
#include <fnmatch.h>
#include "verif.h"

#ifndef N
#define N 2
#endif
#ifndef FAULTS
#define FAULTS 0
#endif

static int c17_strcmp(const char *a, const char *b);
static int c17_fnmatch(const char *pattern, const char *string, int flags);
static int c17_fprintf(FILE *f, const char *fmt, ...);
static void c17_free(void *p);
/* glibc's isspace/isdigit are table look-ups through __ctype_b_loc(), which
 * has no body and defeats constant propagation: "C" locale definitions */
#undef isspace
#undef isdigit
#define isspace(c) ((c) == ' ' || ((c) >= '\t' && (c) <= '\r'))
#define isdigit(c) ((c) >= '0' && (c) <= '9')
#include "lib/util/src/parse_int.c"
#define strcmp c17_strcmp
#define fnmatch c17_fnmatch
#define fprintf c17_fprintf
#define free c17_free
#include "bin/gensquashfs/src/sort_by_file.c"
#undef strcmp
#undef fnmatch
#undef fprintf
#undef free

/* ------------------------------------------------------------ sort file */
#define NL 5
static const char *const g_text[NL] = {
	"# comment",
	"-5 [glob,dont_compress] a*",
	"7 \"b \\\"c\"",
	"-5 [nosparse, glob_no_path ,dont_fragment]   *",
	"9223372036854775806 [dont_deduplicate] z",
};
static const char *const g_name[NL] = { "", "a*", "b \"c", "*", "z" };
static const sqfs_s64 g_prio[NL] = { 0, -5, 7, -5, 9223372036854775806LL };
static const int g_flags[NL] = {
	0, SQFS_BLK_DONT_COMPRESS, 0,
	SQFS_BLK_IGNORE_SPARSE | SQFS_BLK_DONT_FRAGMENT,
	SQFS_BLK_DONT_DEDUPLICATE,
};
/* 0 plain, 1 glob (FNM_PATHNAME), 2 glob_no_path */
static const int g_mode[NL] = { 0, 1, 0, 2, 0 };

/* --------------------------------------------------------------- nodes */
typedef struct {
	tree_node_t n;
	char name[4];
} node_t;
static node_t g_n0, g_n1, g_n2;
static node_t *const g_nodep[3] = { &g_n0, &g_n1, &g_n2 };
#define NODE(i) (g_nodep[i]->n)
static fstree_t g_fs;
static sqfs_istream_t g_strm;

/* --------------------------------------------------------------- ghost */
static int g_line;			/* index of the line being processed, -1 */
static char *g_line_buf;
static int g_cur_node;			/* node whose path was requested last */
static char *g_cur_path;
static int g_first[3];			/* first matching line per node, -1 */
static bool g_compared[NL][3];
static bool g_line_matched;		/* a match happened in the current line */
static unsigned g_faults;
static char g_path_buf[2];
static bool g_path_live;
static char g_linebufs[5][64];
static bool g_line_live;
static struct {
	split_line_t s;
	char *args[8];
} g_split;
static bool g_split_live;

static int node_index(const tree_node_t *n)
{
	int i;

	for (i = 0; i < 3; ++i) {
		if (n == &NODE(i))
			return i;
	}
	return -1;
}

static int compare_common(const char *path, const char *name)
{
	int i = g_cur_node;
	int r;

	VERIF_ASSERT(g_line >= 1 && g_line < NL && i >= 0 && i < N &&
		     path == g_cur_path, "C17.match.decoded");
	/* the name is the decoded one: unquoted, unescaped, flags stripped */
	VERIF_ASSERT(name == g_line_buf && strcmp(name, g_name[g_line]) == 0,
		     "C17.match.decoded");
	VERIF_ASSERT(g_first[i] < 0, "C17.match.first_wins");
	VERIF_ASSERT(g_mode[g_line] != 0 || !g_line_matched,
		     "C17.match.nonglob_stops");
	VERIF_ASSERT(!g_compared[g_line][i], "C17.match.complete");
	g_compared[g_line][i] = true;

	r = verif_nd_bool("matches") ? 0 : 1;
	if (r == 0) {
		g_first[i] = g_line;
		g_line_matched = true;
	}
	return r;
}

static int c17_strcmp(const char *a, const char *b)
{
	if (g_cur_path != NULL && a == g_cur_path) {
		VERIF_ASSERT(g_line >= 1 && g_mode[g_line] == 0,
			     "C17.match.glob_mode");
		return compare_common(a, b);
	}
	/* keyword comparisons of decode_flags: real semantics */
	return strcmp(a, b);
}

static int c17_fnmatch(const char *pattern, const char *string, int flags)
{
	VERIF_ASSERT(g_line >= 1 && g_mode[g_line] != 0, "C17.match.glob_mode");
	VERIF_ASSERT(flags == (g_mode[g_line] == 1 ? FNM_PATHNAME : 0),
		     "C17.match.glob_mode");
	return compare_common(string, pattern) == 0 ? 0 : FNM_NOMATCH;
}

static int c17_fprintf(FILE *f, const char *fmt, ...)
{
	(void)f; (void)fmt;
	return 0;
}

int fputs(const char *s, FILE *f) { (void)s; (void)f; return 0; }

const char *stub_get_filename(sqfs_istream_t *strm)
{
	(void)strm;
	return "sortfile";
}

int istream_get_line(sqfs_istream_t *strm, char **out, size_t *line_num,
		     int flags)
{
	size_t len;
	char *buf;

	VERIF_ASSERT(strm == &g_strm && flags == (ISTREAM_LINE_LTRIM |
		     ISTREAM_LINE_RTRIM | ISTREAM_LINE_SKIP_EMPTY),
		     "C17.match.env_pre");
	g_cur_path = NULL;
	g_line_matched = false;
	/* (fault injection is a separate case: a symbolic early exit here
	 * would turn the line counter and every later buffer into if-then-else
	 * terms at the join point and defeat constant propagation) */
#if FAULTS
	if (verif_nd_bool("get_line_fails")) {
		g_faults += 1;
		return -1;
	}
#endif
	g_line += 1;
	if (g_line >= NL)
		return 1;	/* end of file */
	/* static per-line buffers stand for the heap strings (contents stay
	 * concrete for the symbolic execution); c17_free checks the release */
	buf = g_linebufs[g_line];
	for (len = 0; g_text[g_line][len] != '\0'; ++len)
		buf[len] = g_text[g_line][len];
	buf[len] = '\0';
	VERIF_ASSERT(!g_line_live, "C17.match.env_pre");
	g_line_live = true;
	*out = buf;
	g_line_buf = buf;
	*line_num += 1;
	return 0;
}

char *fstree_get_path(tree_node_t *node)
{
	char *p;

	g_cur_node = node_index(node);
	VERIF_ASSERT(g_cur_node >= 0 && g_cur_node < N, "C17.match.env_pre");
#if FAULTS
	if (verif_nd_bool("get_path_fails")) {
		g_faults += 1;
		return NULL;
	}
#endif
	/* one static buffer stands for the heap string (keeps the object
	 * identities of the line buffers independent of the match history);
	 * c17_free checks that it is released exactly once per request */
	VERIF_ASSERT(!g_path_live, "C17.match.env_pre");
	g_path_live = true;
	p = g_path_buf;
	p[0] = 'p';
	p[1] = '\0';
	g_cur_path = p;
	return p;
}

static void c17_free(void *p)
{
	if (p == (void *)g_path_buf) {
		VERIF_ASSERT(g_path_live, "C17.match.env_pre");
		g_path_live = false;
		return;
	}
	if (p == (void *)&g_split.s) {
		VERIF_ASSERT(g_split_live, "C17.match.env_pre");
		g_split_live = false;
		return;
	}
	if (p != NULL && p == (void *)g_line_buf) {
		VERIF_ASSERT(g_line_live, "C17.match.env_pre");
		g_line_live = false;
		return;
	}
	free(p);
}

/* contract of canonicalize_name (C18): 0 or -1, never grows the string; the
 * names of this sort file are already canonical */
int canonicalize_name(char *filename)
{
	(void)filename;
	return 0;
}

/* Stand-in for split_line (lib/util/src/split_line.c, a C07 function) on
 * unquoted input: cuts [line, line+len) at the separator characters in place
 * and records the token starts. The token list lives in a static typed object
 * (the real one is realloc'ed, which makes the stored pointers opaque to the
 * symbolic execution); c17_free accepts it. */

int split_line(char *line, size_t len, const char *sep, split_line_t **out)
{
	size_t i = 0;

	VERIF_ASSERT(!g_split_live && sep[0] == ',' && sep[1] == '\0',
		     "C17.match.env_pre");
	g_split.s.count = 0;
	while (i < len && line[i] != '\0') {
		while (i < len && line[i] == ',')
			++i;
		if (i >= len || line[i] == '\0')
			break;
		VERIF_ASSERT(g_split.s.count < 8, "C17.match.env_pre");
		g_split.s.args[g_split.s.count++] = line + i;
		while (i < len && line[i] != ',' && line[i] != '\0')
			++i;
		if (i < len && line[i] == ',')
			line[i++] = '\0';
		else if (i == len)
			line[i] = '\0';	/* the ']' that ends the list */
	}
	g_split_live = true;
	*out = &g_split.s;
	return SPLIT_LINE_OK;
}

void trim(char *buffer)
{
	size_t i = 0, n;

	while (buffer[i] == ' ' || buffer[i] == '\t')
		++i;
	n = strlen(buffer + i);
	memmove(buffer, buffer + i, n + 1);
	while (n > 0 && (buffer[n - 1] == ' ' || buffer[n - 1] == '\t'))
		buffer[--n] = '\0';
}

void harness(void)
{
	sqfs_s64 fin_prio[3];
	tree_node_t *it;
	int i, l, ret, count, pos[3];
	bool seen[3];

	g_line = -1;
	g_line_buf = NULL;
	g_cur_node = -1;
	g_cur_path = NULL;
	g_line_matched = false;
	g_faults = 0;
	g_path_live = false;
	g_line_live = false;
	g_split_live = false;
	for (i = 0; i < 3; ++i) {
		g_first[i] = -1;
		seen[i] = false;
		pos[i] = -1;
		for (l = 0; l < NL; ++l)
			g_compared[l][i] = false;
		/* whatever an earlier run (or nothing) left in the nodes */
		NODE(i).data.file.priority = verif_nd_i64("old_priority");
		NODE(i).data.file.flags = verif_nd_int("old_flags");
		NODE(i).data.file.input_file = NULL;
		NODE(i).data.file.inode = NULL;
		NODE(i).flags = verif_nd_u16("node_flags");
		NODE(i).mode = S_IFREG | 0644;
		NODE(i).next_by_type = (i + 1 < N) ? &NODE(i + 1) : NULL;
	}
	g_fs.files = N > 0 ? &NODE(0) : NULL;
	g_strm.get_filename = stub_get_filename;

	ret = fstree_sort_files(&g_fs, &g_strm);

	/* ---------------------------------------------------------------- */
	VERIF_ASSERT(ret == 0 || ret == -1, "C17.match.fail_stop");
	VERIF_ASSERT((ret == 0) == (g_faults == 0), "C17.match.fail_stop");

	for (i = 0; i < N; ++i) {
		if (g_first[i] >= 0) {
			VERIF_ASSERT(NODE(i).data.file.priority == g_prio[g_first[i]] &&
				     NODE(i).data.file.flags == g_flags[g_first[i]] &&
				     (NODE(i).flags & FLAG_FILE_ALREADY_MATCHED),
				     "C17.match.first_wins");
		} else {
			VERIF_ASSERT(NODE(i).data.file.priority == 0 &&
				     NODE(i).data.file.flags == 0 &&
				     !(NODE(i).flags & FLAG_FILE_ALREADY_MATCHED),
				     "C17.match.unlisted_default");
		}
		fin_prio[i] = NODE(i).data.file.priority;
	}

	if (ret == 0) {
		VERIF_ASSERT(g_line == NL, "C17.match.complete");
		/* who must have been compared with which line */
		for (l = 1; l < NL; ++l) {
			bool stopped = false;	/* plain line already matched */

			for (i = 0; i < N; ++i) {
				bool expect = (g_first[i] < 0 || g_first[i] >= l) &&
					      !stopped;

				VERIF_ASSERT(g_compared[l][i] == expect,
					     "C17.match.complete");
				if (g_mode[l] == 0 && g_first[i] == l)
					stopped = true;
			}
		}

		/* the list is the stable sort by the assigned priorities */
		count = 0;
		it = g_fs.files;
		for (i = 0; i < N; ++i) {
			int j = it != NULL ? node_index(it) : -1;

			VERIF_ASSERT(j >= 0 && j < N && !seen[j], "C17.match.sorted");
			if (j < 0 || j >= N)
				break;
			seen[j] = true;
			pos[count++] = j;
			it = it->next_by_type;
		}
		VERIF_ASSERT(it == NULL && count == N, "C17.match.sorted");
		for (i = 0; i + 1 < N; ++i) {
			if (i + 1 < count) {
				VERIF_ASSERT(fin_prio[pos[i]] <= fin_prio[pos[i + 1]],
					     "C17.match.sorted");
				if (fin_prio[pos[i]] == fin_prio[pos[i + 1]])
					VERIF_ASSERT(pos[i] < pos[i + 1],
						     "C17.match.sorted");
			}
		}
	}

	VERIF_COVER(ret == 0);
#if FAULTS
	VERIF_COVER(ret == -1);
#endif
#if N >= 1
	VERIF_COVER(ret == 0 && g_first[0] == 4);
	VERIF_COVER(ret == 0 && g_first[0] == 2);
	VERIF_COVER(ret == 0 && g_first[0] < 0);
#endif
#if N >= 2
	VERIF_COVER(ret == 0 && g_first[0] == 3 && g_first[1] == 1);
	VERIF_COVER(ret == 0 && g_first[0] == 1 && g_first[1] == 1);
	VERIF_COVER(ret == 0 && g_first[1] == 2 && g_first[0] == 3);
#endif
}
