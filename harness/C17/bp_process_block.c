/* C17 (+ C08 checksum part): process_block
 * (lib/sqfs/src/block_processor/block_processor.c), the worker callback.
 * Loop-free; block header, flags and every environment answer symbolic.
 * The checksum is uninterpreted (xxh32 = arbitrary value), the compressor is
 * the contract of DESIGN section 3 (compress mode: any r <= outsize).
 *
 *  ensures  C17.bp.dont_compress   DONT_COMPRESS ==> the compressor is never
 *              called, size and payload stay, IS_COMPRESSED is not set (so
 *              the writer stores the block with the "uncompressed" bit,
 *              bp_pcb_data.c)
 *           C17.bp.nosparse        IGNORE_SPARSE ==> IS_SPARSE is never set and
 *              the zero test is not even consulted
 *           C17.bp.sparse_default  without it an all-zero block is flagged
 *              IS_SPARSE and nothing else happens to it
 *           C17.bp.fragment_not_compressed  tail ends (IS_FRAGMENT) are left
 *              uncompressed here (they are compressed as a fragment block)
 *           C17.bp.compress_default  otherwise the compressor sees
 *              (data, size, scratch, scratch_size); r > 0: r bytes copied back,
 *              size = r, IS_COMPRESSED; r == 0: untouched; r < 0: returned
 *           C17.bp.flags_frame     no other flag bit changes; index, inode,
 *              user pointer untouched
 *           C08.frag.checksum      checksum = xxh32(original data, original
 *              size) - taken before compression - or 0 with DONT_HASH
 */
#include "C08/bp_env.h"

static void *c17_memcpy(void *dst, const void *src, size_t n);
#define memcpy c17_memcpy
#include "lib/sqfs/src/block_processor/block_processor.c"
#undef memcpy

static blk_t g_blk;
static struct {
	worker_data_t w;
	sqfs_u8 scratch[BS];
} g_worker;
static sqfs_compressor_t g_cmp;

static unsigned g_zero_calls, g_hash_calls, g_cmp_calls, g_memcpy_calls;
static bool g_zero_ret;
static sqfs_u32 g_hash_ret, g_hash_len;
static const void *g_hash_in;
static sqfs_s32 g_cmp_ret;
static const sqfs_u8 *g_cmp_in;
static sqfs_u8 *g_cmp_out;
static sqfs_u32 g_cmp_insz, g_cmp_outsz;
static void *g_memcpy_dst;
static const void *g_memcpy_src;
static size_t g_memcpy_n;

bool is_memory_zero(const void *blob, size_t size)
{
	VERIF_ASSERT(VERIF_R_OK(blob, size), "C17.bp.env_pre");
	g_zero_calls += 1;
	g_zero_ret = verif_nd_bool("is_zero");
	return g_zero_ret;
}

sqfs_u32 xxh32(const void *input, const size_t len)
{
	VERIF_ASSERT(VERIF_R_OK(input, len), "C17.bp.env_pre");
	VERIF_ASSERT(g_cmp_calls == 0, "C08.frag.checksum");
	g_hash_calls += 1;
	g_hash_in = input;
	g_hash_len = (sqfs_u32)len;
	g_hash_ret = verif_nd_u32("xxh32");
	return g_hash_ret;
}

sqfs_s32 stub_compress(sqfs_compressor_t *cmp, const sqfs_u8 *in, sqfs_u32 size,
		       sqfs_u8 *out, sqfs_u32 outsize)
{
	VERIF_ASSERT(cmp == &g_cmp && VERIF_R_OK(in, size) &&
		     VERIF_W_OK(out, outsize), "C17.bp.env_pre");
	g_cmp_calls += 1;
	g_cmp_in = in;
	g_cmp_insz = size;
	g_cmp_out = out;
	g_cmp_outsz = outsize;
	g_cmp_ret = verif_nd_int("do_block");
	VERIF_ASSUME(g_cmp_ret < 0 || (sqfs_u32)g_cmp_ret <= outsize);
	/* compress mode never reports more than it was given (C03.comp.not_larger) */
	VERIF_ASSUME(g_cmp_ret <= 0 || (sqfs_u32)g_cmp_ret < size);
	return g_cmp_ret;
}

static void *c17_memcpy(void *dst, const void *src, size_t n)
{
	VERIF_ASSERT(VERIF_W_OK(dst, n) && VERIF_R_OK(src, n), "C17.bp.env_pre");
	g_memcpy_calls += 1;
	g_memcpy_dst = dst;
	g_memcpy_src = src;
	g_memcpy_n = n;
	return dst;
}

void harness(void)
{
	sqfs_u32 flags, size, index, sum0;
	int ret;

	g_zero_calls = g_hash_calls = g_cmp_calls = g_memcpy_calls = 0;

	blk_nd_header(&g_blk, "blk");
	VERIF_ASSUME(g_blk.b.size <= BS);
	flags = g_blk.b.flags;
	size = g_blk.b.size;
	index = g_blk.b.index;
	sum0 = g_blk.b.checksum;
	g_worker.w.next = NULL;
	g_worker.w.cmp = &g_cmp;
	g_worker.w.scratch_size = BS;
	g_cmp.do_block = stub_compress;

	ret = process_block(&g_worker.w, &g_blk.b);

	/* ---------------------------------------------------------------- */
	VERIF_ASSERT((g_blk.b.flags & ~(sqfs_u32)(SQFS_BLK_IS_SPARSE |
						   SQFS_BLK_IS_COMPRESSED)) ==
		     (flags & ~(sqfs_u32)(SQFS_BLK_IS_SPARSE | SQFS_BLK_IS_COMPRESSED)),
		     "C17.bp.flags_frame");
	VERIF_ASSERT((flags & SQFS_BLK_IS_SPARSE) <= (g_blk.b.flags & SQFS_BLK_IS_SPARSE) &&
		     (flags & SQFS_BLK_IS_COMPRESSED) <= (g_blk.b.flags & SQFS_BLK_IS_COMPRESSED),
		     "C17.bp.flags_frame");
	VERIF_ASSERT(g_blk.b.index == index && g_blk.b.inode == NULL &&
		     g_blk.b.user == NULL && g_blk.b.next == NULL,
		     "C17.bp.flags_frame");

	if (size == 0) {
		VERIF_ASSERT(ret == 0 && g_blk.b.flags == flags && g_cmp_calls == 0 &&
			     g_hash_calls == 0 && g_blk.b.size == 0,
			     "C17.bp.flags_frame");
	} else {
		bool sparse_now = !(flags & SQFS_BLK_IS_SPARSE) &&
				  (g_blk.b.flags & SQFS_BLK_IS_SPARSE);
		bool compressed_now = !(flags & SQFS_BLK_IS_COMPRESSED) &&
				      (g_blk.b.flags & SQFS_BLK_IS_COMPRESSED);

		if (flags & SQFS_BLK_IGNORE_SPARSE) {
			VERIF_ASSERT(!sparse_now && g_zero_calls == 0,
				     "C17.bp.nosparse");
		} else {
			VERIF_ASSERT(g_zero_calls == 1 && sparse_now ==
				     (g_zero_ret && !(flags & SQFS_BLK_IS_SPARSE)),
				     "C17.bp.sparse_default");
			if (g_zero_ret)
				VERIF_ASSERT(ret == 0 && g_cmp_calls == 0 &&
					     g_hash_calls == 0 &&
					     g_blk.b.size == size &&
					     g_blk.b.checksum == sum0 &&
					     (g_blk.b.flags & SQFS_BLK_IS_SPARSE),
					     "C17.bp.sparse_default");
		}

		if (g_zero_calls == 0 || !g_zero_ret) {
			/* a block with content */
			if (flags & SQFS_BLK_DONT_HASH)
				VERIF_ASSERT(g_hash_calls == 0 && g_blk.b.checksum == 0,
					     "C08.frag.checksum");
			else
				VERIF_ASSERT(g_hash_calls == 1 &&
					     g_hash_in == (const void *)g_blk.b.data &&
					     g_hash_len == size &&
					     g_blk.b.checksum == g_hash_ret,
					     "C08.frag.checksum");

			if (flags & SQFS_BLK_DONT_COMPRESS)
				VERIF_ASSERT(ret == 0 && g_cmp_calls == 0 &&
					     g_memcpy_calls == 0 &&
					     g_blk.b.size == size && !compressed_now,
					     "C17.bp.dont_compress");
			else if (flags & SQFS_BLK_IS_FRAGMENT)
				VERIF_ASSERT(ret == 0 && g_cmp_calls == 0 &&
					     g_memcpy_calls == 0 &&
					     g_blk.b.size == size && !compressed_now,
					     "C17.bp.fragment_not_compressed");
			else {
				VERIF_ASSERT(g_cmp_calls == 1 &&
					     g_cmp_in == g_blk.b.data &&
					     g_cmp_insz == size &&
					     g_cmp_out == g_worker.w.scratch &&
					     g_cmp_outsz == BS,
					     "C17.bp.compress_default");
				if (g_cmp_ret > 0)
					VERIF_ASSERT(ret == 0 && g_memcpy_calls == 1 &&
						     g_memcpy_dst == (void *)g_blk.b.data &&
						     g_memcpy_src == (const void *)g_worker.w.scratch &&
						     g_memcpy_n == (size_t)g_cmp_ret &&
						     g_blk.b.size == (sqfs_u32)g_cmp_ret &&
						     (g_blk.b.flags & SQFS_BLK_IS_COMPRESSED),
						     "C17.bp.compress_default");
				else
					VERIF_ASSERT(ret == g_cmp_ret &&
						     g_memcpy_calls == 0 &&
						     g_blk.b.size == size &&
						     !compressed_now,
						     "C17.bp.compress_default");
			}
		}
	}

	VERIF_COVER(size > 0 && (flags & SQFS_BLK_DONT_COMPRESS) && ret == 0);
	VERIF_COVER(size > 0 && (flags & SQFS_BLK_IGNORE_SPARSE) && g_cmp_calls == 1);
	VERIF_COVER(g_zero_calls == 1 && g_zero_ret);
	VERIF_COVER(g_cmp_calls == 1 && g_cmp_ret > 0);
	VERIF_COVER(g_cmp_calls == 1 && g_cmp_ret == 0);
	VERIF_COVER(ret < 0);
	VERIF_COVER(size > 0 && (flags & SQFS_BLK_IS_FRAGMENT) && g_hash_calls == 1);
}
