PROPERTY = "C17"
LEVEL = "model_checking"
FUNCTIONS = ["sort_file_list"]
TRUSTED = []
ASSUMPTIONS = []
EXPLANATION = ""

HARNESSES = [
    dict(name="sort_stable", file="sort_stable.c", label="bounded(files<=5)", timeout=900,
         fp={"get_filename": "stub_get_filename"},
         cases=[dict(id="n%d" % n, defines={"N": n}, unwind=n + 2,
                     tier="quick" if n <= 5 else "thorough",
                     label="bounded(files<=5)" if n <= 5 else "bounded(files<=7)") for n in range(8)]),
    dict(name="sort_match", file="sort_match.c", label="bounded(files<=3, fixed 5-line sort file)", timeout=900,
         fp={"get_filename": "stub_get_filename"},
         cases=[dict(id="n%d" % n, defines={"N": n}, unwind=50, tier="quick") for n in (1, 2, 3)]),
    dict(name="flags_decode", file="flags_decode.c", label="bounded(all keyword subsets x glob variants, 2 orders)",
         timeout=300, fp={"get_filename": "stub_get_filename"},
         cases=[dict(id="part%d" % p, defines={"PART": p}, unwind=170, tier="quick") for p in (0, 1, 2)]),
]
