PROPERTY = "C17"
# Flag plumbing is proved (loop-free or closed by loop contracts, full domain);
# ordering/matching/keyword decoding are bounded symbolic execution over every
# list shape up to the stated length and an exhaustive keyword domain. The
# property's core (stable order, first match wins) is therefore model checking.
LEVEL = "model_checking"
FUNCTIONS = [
    "sort_file_list", "fstree_sort_files", "decode_priority", "decode_flags", "decode_filename",
    "pack_files", "pack_file (gensquashfs)", "write_file (tar2sqfs)",
    "sqfs_block_processor_begin_file", "sqfs_block_processor_append", "sqfs_block_processor_end_file",
    "get_new_block", "add_sentinel_block", "enqueue_block",
    "process_block", "process_completed_block (data blocks)", "set_block_size (no growth)",
    "process_completed_fragment (DONT_DEDUPLICATE, fragment block flags)",
    "deduplicate_blocks / write_data_block (DONT_DEDUPLICATE)",
    "sqfs_writer_init (export flag)",
    "add_export_table_entry", "sqfs_dir_writer_write_export_table",
]
TRUSTED = [
    "strcmp(path, name) / fnmatch(pattern, path, flags) as used for matching: arbitrary answer per (line, node) pair; their argument values and flags are checked at the call (C17.match.glob_mode, C17.match.decoded). fnmatch semantics itself is POSIX's",
    "fstree_get_path returns a string or NULL; canonicalize_name returns 0 on the (already canonical) names of the harness sort file (C18 contract)",
    "istream_get_line delivers the lines of the sort file trimmed, one per call, then 1 (C07/C12)",
    "split_line(line, len, \",\") on unquoted text and trim(): simple stand-ins in the harness (the real split_line reallocs its token list, which makes the stored pointers opaque to symbolic execution); parse_int is the real lib/util/src/parse_int.c",
    "isspace/isdigit: C locale definitions instead of glibc's __ctype_b_loc table",
    "pack_file as seen by pack_files: returns 0 or an error (its own obligations: pack_file.c); sqfs_block_processor_create_ostream hands its flags argument to begin_file unchanged (one line in ostream.c, visible); stream constructors / splice / flush may fail",
    "thread pool submit/get_status, block writer write_data_block, compressor do_block (compress: r <= outsize and r < size or r <= 0, C03.comp.not_larger), is_memory_zero and xxh32 (arbitrary answers), sqfs_inode_make_extended / set_file_block_start, hash table and frag table as in C08",
    "CBMC models of malloc/calloc/free",
]
ASSUMPTIONS = [
    "file lists <= 5 (quick) / 7 (thorough) for the sort, <= 3 for matching, <= 4 for pack_files; longer lists are not covered",
    "sort_match uses ONE concrete 5-line sort file (comment, glob+flags, quoted plain name with an escaped quote, glob_no_path with blanks in the list, extreme priority) - every matching outcome of these lines over the nodes is explored, other texts are not; flags_decode covers all keyword subsets in fixed relative orders",
    "fault injection of get_line/get_path is off in sort_match (symbolic early exits defeat constant propagation of the line text); C17.match.fail_stop is therefore only checked on the fault-free path there. Fail-stop of these paths is C13's",
    "block size 4096 (append: 64 in the quick tier, 4096 in the thorough tier - the code only compares sizes against max_block_size); block index < 8 in bp_pcb_data (no inode growth)",
    "the layout on disk follows the call order because the block writer only appends (C14) and blocks are written in submission order (C02); not re-proved here",
    "export table <= 8 slots (symbolic fill, capacity and contents); that every inode's reference is offered to the table (dir writer call sites) is C03's",
    "options parsing (-T, -e, -S), glob semantics of fnmatch, the image as decoded by an independent parser: outside",
    "node flags handed to pack_file are user-settable bits (what decode_flags can produce: C17.flags.decode)",
]
EXPLANATION = (
    "Order: sort_file_list yields a stable, ordered permutation (sort_stable); fstree_sort_files assigns each file "
    "the priority and flags of its first matching line and nothing else, visits every unmatched file per line, "
    "passes FNM_PATHNAME exactly for `glob` (sort_match) and decodes keyword lists to exactly their bits "
    "(flags_decode); pack_files walks the sorted list in order (pack_order). Plumbing: pack_file / write_file pass "
    "node flags | (DONT_FRAGMENT iff -T and size > block size) (pack_file, write_file); begin_file accepts user "
    "bits only and stores them, append stamps them on every block, end_file turns DONT_FRAGMENT into a LAST_BLOCK "
    "data block instead of a fragment (bp_frontend); process_block never compresses DONT_COMPRESS blocks and never "
    "flags IGNORE_SPARSE blocks sparse (bp_process_block); process_completed_block records the uncompressed bit / "
    "zero word and hands the flags to the writer (bp_pcb_data); DONT_DEDUPLICATE skips fragment lookup and block "
    "deduplication (frag_pcf, blk_wdb, blk_dedup from C08); fragment blocks inherit only DONT_COMPRESS (frag_pcf); "
    "--exportable reaches the directory writer (init_compare).")

_BE_FP = {"key_equals_function": "stub_chunk_equals", "dequeue": "stub_pool_dequeue",
          "get_status": "stub_pool_get_status", "write_data_block": "stub_write_data_block"}

HARNESSES = [
    dict(name="sort_stable", file="sort_stable.c", label="bounded(files<=5)", timeout=900,
         fp={"get_filename": "stub_get_filename"},
         cases=[dict(id="n%d" % n, defines={"N": n}, unwind=n + 2,
                     tier="quick" if n <= 5 else "thorough",
                     label="bounded(files<=5)" if n <= 5 else "bounded(files<=7)") for n in range(8)]),
    dict(name="sort_match", file="sort_match.c", label="bounded(files<=3, fixed 5-line sort file)", timeout=900,
         fp={"get_filename": "stub_get_filename"},
         cases=[dict(id="n%d" % n, defines={"N": n}, unwind=50, weight=9,
                     tier="quick" if n <= 2 else "thorough") for n in (1, 2, 3)]),
    dict(name="flags_decode", file="flags_decode.c",
         label="bounded(all 16 keyword subsets x 5 glob variants, 2 orders)",
         timeout=600, object_bits=12, fp={"get_filename": "stub_get_filename"},
         cases=[dict(id="g%d_m%d_%d" % (g, lo, lo + 3), defines={"PART": g, "MLO": lo, "MHI": lo + 3},
                     unwind=170, tier="quick")
                for g in range(5) for lo in (0, 4, 8, 12)] +
               [dict(id="g%d_m%d_%d_v4" % (g, lo, lo + 3),
                     defines={"PART": g, "MLO": lo, "MHI": lo + 3, "VARIANTS": 4},
                     unwind=170, tier="thorough",
                     label="bounded(all 16 keyword subsets x 5 glob variants, 4 orders)")
                for g in range(5) for lo in (0, 4, 8, 12)] +
               [dict(id="malformed", defines={"PART": 10}, unwind=170, tier="quick")]),
    dict(name="pack_file", file="pack_file.c", label="proved", timeout=300, loops=["pack_file"], mode="dfcc",
         fp={"flush": "stub_flush", "destroy": "stub_destroy"},
         cases=[dict(id="all", tier="quick")]),
    dict(name="write_file", file="write_file.c", label="proved", timeout=300, loops=["write_file"], mode="dfcc",
         fp={"flush": "stub_flush", "destroy": "stub_destroy", "open_file_ro": "stub_open_file_ro"},
         cases=[dict(id="all", tier="quick")]),
    dict(name="pack_order", file="pack_order.c", label="bounded(files<=4)", timeout=120,
         pre_instrument_flags=["--replace-calls", "pack_file:stub_pack_file"],
         fp={"flush": "stub_flush", "destroy": "stub_destroy"},
         cases=[dict(id="n%d" % n, defines={"N": n}, unwind=6, tier="quick") for n in (0, 1, 2, 4)]),
    dict(name="bp_process_block", file="bp_process_block.c", label="bounded(block size 4096)", timeout=120,
         fp={"process_block:do_block": "stub_compress", "do_block": "stub_do_block",
             "read_at": "stub_read_at", "*": "stub_unreachable_destroy"},
         cases=[dict(id="bs4096", defines={"BS": 4096}, tier="quick")]),
    dict(name="bp_frontend", file="bp_frontend.c", label="bounded(block size 4096)", timeout=120,
         fp={"submit": "stub_submit", "get_status": "stub_get_status"}, malloc_fail=True, unwind=4,
         # `flags & ~SQFS_BLK_USER_SETTABLE_FLAGS`: int -> unsigned conversion of an
         # enum complement, well defined and intended
         nochecks=["--conversion-check"],
         cases=[dict(id="begin", defines={"OP": 0, "BS": 4096}, tier="quick"),
                dict(id="end_cur1", defines={"OP": 1, "HAVE_CUR": 1, "BS": 4096}, tier="quick"),
                dict(id="end_cur0", defines={"OP": 1, "HAVE_CUR": 0, "BS": 4096}, tier="quick"),
                dict(id="append_cur1_bs64", defines={"OP": 2, "HAVE_CUR": 1, "BS": 64}, tier="quick",
                     label="bounded(block size 64)", timeout=600),
                dict(id="append_cur0_bs64", defines={"OP": 2, "HAVE_CUR": 0, "BS": 64}, tier="quick",
                     label="bounded(block size 64)", timeout=600),
                dict(id="append_cur1", defines={"OP": 2, "HAVE_CUR": 1, "BS": 4096}, tier="thorough", timeout=900),
                dict(id="append_cur0", defines={"OP": 2, "HAVE_CUR": 0, "BS": 4096}, tier="thorough", timeout=900)]),
    dict(name="bp_pcb_data", file="bp_pcb_data.c", label="bounded(block size 4096, block index<8)", timeout=120,
         fp={"key_equals_function": "stub_chunk_equals", "dequeue": "stub_pool_dequeue",
             "get_status": "stub_pool_get_status", "write_data_block": "stub_write_data_block"},
         unwind=9, nochecks=["--conversion-check"],
         cases=[dict(id="bs4096", defines={"BS": 4096}, tier="quick")]),
    # ---- DONT_DEDUPLICATE / fragment block flags / export switch: harness files shared with C08 ----
    dict(name="dedup_frag", file="../C08/frag_pcf.c",
         label="bounded(colliding stored chunks<=2, block size 4096)", timeout=300,
         fp=_BE_FP, malloc_fail=True, unwind=3,
         must_have=["C17.bp.dont_dedup", "C17.bp.frag_block_inherits"],
         cases=[dict(id="fb%d_ino1" % fb, defines={"HAVE_FB": fb, "HAVE_INODE": 1, "BS": 4096}, tier="quick")
                for fb in (0, 1)]),
    dict(name="dedup_wdb", file="../C08/blk_wdb.c", label="bounded(blocks<=3)", timeout=300,
         fp={"truncate": "stub_truncate", "destroy": "stub_unreachable_destroy",
             "get_size": "stub_get_size", "write_at": "stub_write_at"},
         must_have=["C17.bp.dont_dedup"],
         cases=[dict(id="u%df%d" % (u, f), defines={"NB": 3, "USED": u, "FS": f}, unwind=4, tier="quick")
                for u, f in ((2, 1), (2, 2), (1, 0))]),
    dict(name="dedup_blocks", file="../C08/blk_dedup.c", label="bounded(blocks<=4)", timeout=600,
         fp={"truncate": "stub_truncate", "destroy": "stub_unreachable_destroy",
             "get_size": "stub_unreachable_get_size", "write_at": "stub_unreachable_write_at"},
         must_have=["C08.blk.dont_dedup_own"],
         cases=[dict(id="u4f2", defines={"NB": 4, "USED": 4, "FS": 2}, unwind=5, tier="quick")]),
    dict(name="export_table", file="export_table.c", label="bounded(export table <= 8 slots)", timeout=60,
         fp={"destroy": "stub_destroy"}, unwind=9,
         cases=[dict(id="add", defines={"OP": 0, "HAVE_TABLE": 1}, tier="quick"),
                dict(id="write", defines={"OP": 1, "HAVE_TABLE": 1}, tier="quick"),
                dict(id="write_absent", defines={"OP": 1, "HAVE_TABLE": 0}, tier="quick")]),
    dict(name="export_flag", file="../C08/init_compare.c", label="proved", timeout=300,
         fp={"write_options": "stub_write_options", "destroy": "stub_destroy"},
         must_have=["C17.export.flag"],
         cases=[dict(id="all", tier="quick")]),
]
