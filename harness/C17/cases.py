PROPERTY = "C17"
LEVEL = "model_checking"
FUNCTIONS = ["sort_file_list"]
TRUSTED = []
ASSUMPTIONS = []
EXPLANATION = ""

HARNESSES = [
    dict(name="sort_stable", file="sort_stable.c", label="bounded(files<=5)", timeout=900,
         fp={"get_filename": "stub_get_filename"},
         cases=[dict(id="n%d" % n, defines={"N": n}, unwind=n + 2,
                     tier="quick" if n <= 5 else "thorough",
                     label="bounded(files<=5)" if n <= 5 else "bounded(files<=7)") for n in range(8)]),
    dict(name="sort_match", file="sort_match.c", label="bounded(files<=3, fixed 5-line sort file)", timeout=900,
         fp={"get_filename": "stub_get_filename"},
         cases=[dict(id="n%d" % n, defines={"N": n}, unwind=50, tier="quick") for n in (1, 2, 3)]),
    dict(name="flags_decode", file="flags_decode.c",
         label="bounded(all 16 keyword subsets x 5 glob variants, 2 orders)",
         timeout=600, object_bits=12, fp={"get_filename": "stub_get_filename"},
         cases=[dict(id="g%d_m%d_%d" % (g, lo, lo + 3), defines={"PART": g, "MLO": lo, "MHI": lo + 3},
                     unwind=170, tier="quick")
                for g in range(5) for lo in (0, 4, 8, 12)] +
               [dict(id="g%d_m%d_%d_v4" % (g, lo, lo + 3),
                     defines={"PART": g, "MLO": lo, "MHI": lo + 3, "VARIANTS": 4},
                     unwind=170, tier="thorough",
                     label="bounded(all 16 keyword subsets x 5 glob variants, 4 orders)")
                for g in range(5) for lo in (0, 4, 8, 12)] +
               [dict(id="malformed", defines={"PART": 10}, unwind=170, tier="quick")]),
    # loops=["pack_file"] / ["write_file"] (rows exist in contracts/loops/C17.tbl)
    # once annotate.py places `do` clauses after the `do` keyword; until then
    # the copy loop is unwound against a splice contract that ends the input
    # after SPLICE_MAX transfers
    dict(name="pack_file", file="pack_file.c", label="bounded(splice calls<=3)", timeout=120,
         fp={"flush": "stub_flush", "destroy": "stub_destroy"},
         cases=[dict(id="all", defines={"SPLICE_MAX": 3}, unwind=4, tier="quick")]),
    dict(name="write_file", file="write_file.c", label="bounded(splice calls<=3)", timeout=120,
         fp={"flush": "stub_flush", "destroy": "stub_destroy", "open_file_ro": "stub_open_file_ro"},
         cases=[dict(id="all", defines={"SPLICE_MAX": 3}, unwind=4, tier="quick")]),
    dict(name="bp_process_block", file="bp_process_block.c", label="bounded(block size 4096)", timeout=120,
         fp={"process_block:do_block": "stub_compress", "do_block": "stub_do_block",
             "read_at": "stub_read_at", "*": "stub_unreachable_destroy"},
         cases=[dict(id="bs4096", defines={"BS": 4096}, tier="quick")]),
    dict(name="bp_frontend", file="bp_frontend.c", label="bounded(block size 4096)", timeout=120,
         fp={"submit": "stub_submit", "get_status": "stub_get_status"}, malloc_fail=True, unwind=4,
         # `flags & ~SQFS_BLK_USER_SETTABLE_FLAGS`: int -> unsigned conversion of an
         # enum complement, well defined and intended
         nochecks=["--conversion-check"],
         cases=[dict(id="begin", defines={"OP": 0, "BS": 4096}, tier="quick"),
                dict(id="end_cur1", defines={"OP": 1, "HAVE_CUR": 1, "BS": 4096}, tier="quick"),
                dict(id="end_cur0", defines={"OP": 1, "HAVE_CUR": 0, "BS": 4096}, tier="quick"),
                dict(id="append_cur1_bs256", defines={"OP": 2, "HAVE_CUR": 1, "BS": 256}, tier="quick",
                     label="bounded(block size 256)"),
                dict(id="append_cur0_bs256", defines={"OP": 2, "HAVE_CUR": 0, "BS": 256}, tier="quick",
                     label="bounded(block size 256)"),
                dict(id="append_cur1", defines={"OP": 2, "HAVE_CUR": 1, "BS": 4096}, tier="thorough", timeout=900),
                dict(id="append_cur0", defines={"OP": 2, "HAVE_CUR": 0, "BS": 4096}, tier="thorough", timeout=900)]),
]
