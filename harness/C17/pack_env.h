/* C17: common environment of the two call sites that start a file in the
 * block processor: pack_file (gensquashfs) and write_file (tar2sqfs).
 * Contracts: the stream constructors/operations may fail; splice returns any
 * count (> 0: continue, 0: end of input, < 0: error) - the copy loop is closed
 * by a loop contract (contracts/loops/C17.tbl), any number of iterations.
 * (-DSPLICE_MAX=n gives a bounded variant without loop contract.)
 */
#ifndef C17_PACK_ENV_H
#define C17_PACK_ENV_H

static struct { sqfs_object_t base; int opaque; } g_proc_obj;
#define G_PROC ((sqfs_block_processor_t *)&g_proc_obj)
static sqfs_ostream_t g_out;
static sqfs_istream_t g_in;

unsigned g_create_calls, g_splice_calls, g_flush_calls;
static sqfs_u32 g_create_flags;
static sqfs_block_processor_t *g_create_proc;
static sqfs_inode_generic_t **g_create_inode;
unsigned g_splice_size;
unsigned g_faults;

void stub_destroy(sqfs_object_t *obj) { (void)obj; }

static void *mk(void *obj)
{
	((sqfs_object_t *)obj)->refcount = 1;
	((sqfs_object_t *)obj)->destroy = stub_destroy;
	((sqfs_object_t *)obj)->copy = NULL;
	return obj;
}

int stub_flush(sqfs_ostream_t *strm)
{
	VERIF_ASSERT(strm == &g_out, "C17.pack.env_pre");
	g_flush_calls += 1;
	if (verif_nd_bool("flush_fails")) {
		g_faults += 1;
		return SQFS_ERROR_IO;
	}
	return 0;
}

int sqfs_block_processor_create_ostream(sqfs_ostream_t **out,
					const char *filename,
					sqfs_block_processor_t *proc,
					sqfs_inode_generic_t **inode,
					sqfs_u32 flags)
{
	(void)filename;
	g_create_calls += 1;
	g_create_flags = flags;
	g_create_proc = proc;
	g_create_inode = inode;
	*out = NULL;
	if (verif_nd_bool("create_ostream_fails")) {
		g_faults += 1;
		return SQFS_ERROR_ALLOC;
	}
	g_out.flush = stub_flush;
	*out = mk(&g_out);
	return 0;
}

sqfs_s32 sqfs_istream_splice(sqfs_istream_t *in, sqfs_ostream_t *out,
			     sqfs_u32 size)
{
	sqfs_s32 r = verif_nd_int("splice");

	VERIF_ASSERT(in == &g_in && out == &g_out && g_create_calls == 1,
		     "C17.pack.env_pre");
	if (g_splice_calls < 0xFFFFFFFFu)	/* saturating: "at least once" */
		g_splice_calls += 1;
#ifdef SPLICE_MAX
	/* bounded variant (no loop contract): the input ends or fails after
	 * at most SPLICE_MAX transfers */
	if (g_splice_calls >= SPLICE_MAX && r > 0)
		r = 0;
#endif
	g_splice_size = size;
	if (r < 0)
		g_faults += 1;
	return r;
}

void sqfs_perror(const char *file, const char *action, int error_code)
{
	(void)file; (void)action; (void)error_code;
}

#endif
