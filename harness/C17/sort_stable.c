/* C17: sort_file_list (bin/gensquashfs/src/sort_by_file.c) - the order in
 * which pack_files hands the files to the block processor, i.e. the order of
 * their data in the image. List of N file nodes (N concrete, 0..7), every
 * priority a free signed 64 bit value (negatives, ties, extremes); a node
 * without FLAG_FILE_ALREADY_MATCHED has priority 0, listed and unlisted nodes
 * mixed arbitrarily.
 *
 *  ensures  C17.sort.permutation  the result is a NULL-terminated list of
 *              exactly the N input nodes, each once
 *           C17.sort.ordered      priorities are non-decreasing along the list
 *           C17.sort.stable       nodes of equal priority keep their input
 *              order
 *           C17.sort.frame        only next_by_type links change (priority,
 *              flags, node flags untouched)
 */
#include <stdlib.h>
#include <string.h>
#include "verif.h"

#ifndef N
#define N 3
#endif
#define NMAX (N > 0 ? N : 1)

#include "bin/gensquashfs/src/sort_by_file.c"

typedef struct {
	tree_node_t n;
	char name[4];
} node_t;

/* separate objects (not an array): cheaper pointer dereferences */
static node_t g_n0, g_n1, g_n2, g_n3, g_n4, g_n5, g_n6;
static node_t *const g_nodep[7] = { &g_n0, &g_n1, &g_n2, &g_n3, &g_n4, &g_n5,
				    &g_n6 };
#define NODE(i) (g_nodep[i]->n)
static fstree_t g_fs;

/* target of the get_filename call site of fstree_sort_files (not reached) */
const char *stub_get_filename(sqfs_istream_t *strm)
{
	(void)strm;
	return "sortfile";
}

void harness(void)
{
	sqfs_s64 prio[NMAX];
	int flags[NMAX];
	sqfs_u16 nflags[NMAX];
	int pos[NMAX];		/* input position of the i-th output node */
	bool seen[NMAX];
	tree_node_t *it;
	int i, j, count;

	for (i = 0; i < NMAX; ++i) {
		prio[i] = verif_nd_i64("priority");
		flags[i] = verif_nd_int("flags");
		nflags[i] = verif_nd_u16("node_flags");
		/* invariant established by fstree_sort_files (C17.match.
		 * unlisted_default): a file that matched no line has priority 0.
		 * Stated so that an implementation which treats unlisted files
		 * specially is judged on reachable states only. */
		VERIF_ASSUME((nflags[i] & FLAG_FILE_ALREADY_MATCHED) || prio[i] == 0);
		NODE(i).data.file.priority = prio[i];
		NODE(i).data.file.flags = flags[i];
		NODE(i).data.file.input_file = NULL;
		NODE(i).data.file.inode = NULL;
		NODE(i).flags = nflags[i];
		NODE(i).mode = S_IFREG | 0644;
		NODE(i).next_by_type = (i + 1 < N) ? &NODE(i + 1) : NULL;
		seen[i] = false;
		pos[i] = -1;
	}
	g_fs.files = N > 0 ? &NODE(0) : NULL;

	sort_file_list(&g_fs);

	/* walk the result */
	count = 0;
	it = g_fs.files;
	for (i = 0; i < NMAX + 1; ++i) {
		if (it == NULL)
			break;
		VERIF_ASSERT(count < N, "C17.sort.permutation");
		if (count >= N)
			break;
		/* which input node is it? */
		for (j = 0; j < NMAX; ++j) {
			if (it == &NODE(j))
				pos[count] = j;
		}
		VERIF_ASSERT(pos[count] >= 0 && pos[count] < N &&
			     !seen[pos[count]], "C17.sort.permutation");
		if (pos[count] < 0 || pos[count] >= N)
			break;
		seen[pos[count]] = true;
		count += 1;
		it = it->next_by_type;
	}
	VERIF_ASSERT(it == NULL && count == N, "C17.sort.permutation");

	for (i = 0; i + 1 < NMAX; ++i) {
		if (i + 1 < count) {
			VERIF_ASSERT(prio[pos[i]] <= prio[pos[i + 1]],
				     "C17.sort.ordered");
			if (prio[pos[i]] == prio[pos[i + 1]])
				VERIF_ASSERT(pos[i] < pos[i + 1], "C17.sort.stable");
		}
	}

	for (i = 0; i < NMAX; ++i) {
		VERIF_ASSERT(NODE(i).data.file.priority == prio[i] &&
			     NODE(i).data.file.flags == flags[i] &&
			     NODE(i).flags == nflags[i], "C17.sort.frame");
	}

	VERIF_COVER(count == N);
#if N >= 3
	VERIF_COVER(pos[0] == 2 && pos[1] == 0);
	VERIF_COVER(prio[0] == prio[1] && prio[1] == prio[2] && prio[0] < 0);
#endif
}
