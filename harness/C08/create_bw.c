/* C08: sqfs_block_writer_create (lib/sqfs/src/block_writer.c) - what
 * deduplicate_blocks later relies on (blk_dedup.c): the writer remembers the
 * flags it was created with, holds the output file, and owns SCRATCH_SIZE
 * bytes of scratch space unless it was explicitly created hash-only.
 * Loop-free. FAIL_AT: which fallible call fails (driver case split).
 *
 *  ensures  C08.create.writer   result != NULL ==> wr->flags == flags (so
 *              HASH_COMPARE_ONLY is in force exactly when the caller asked for
 *              it: the packers pass 0, init_compare.c), wr->file == file,
 *              history empty (used == 0, file_start == 0), write hook =
 *              write_data_block; unless hash-only, the object was allocated
 *              with SCRATCH_SIZE payload bytes
 *           C08.create.writer_flags  unknown flag bits ==> NULL
 *           C08.create.fail_stop     a failing allocation ==> NULL
 */
#include <stdlib.h>
#include <string.h>
#include "verif.h"

#ifndef FAIL_AT
#define FAIL_AT 0
#endif

static void *c08_calloc(size_t n, size_t sz);
static void c08_free(void *p);
#define calloc c08_calloc
#define free c08_free
#include "lib/sqfs/src/block_writer.c"
#undef calloc
#undef free

static struct {
	block_writer_default_t wr;
	sqfs_u8 scratch[SCRATCH_SIZE];
} g_w;
static sqfs_file_t g_file;

static unsigned g_fallible_calls, g_faults;
static size_t g_payload;	/* payload bytes requested behind the header */
static bool g_allocated, g_freed;

static bool nd_fail(void)
{
	g_fallible_calls += 1;
	if (g_fallible_calls == FAIL_AT) {
		g_faults += 1;
		return true;
	}
	return false;
}

static void zero_wr(void)
{
	g_w.wr.base.base.refcount = 0;
	g_w.wr.base.base.destroy = NULL;
	g_w.wr.base.base.copy = NULL;
	g_w.wr.base.write_data_block = NULL;
	g_w.wr.base.get_block_count = NULL;
	g_w.wr.file = NULL;
	g_w.wr.blocks.size = 0;
	g_w.wr.blocks.count = 0;
	g_w.wr.blocks.used = 0;
	g_w.wr.blocks.data = NULL;
	g_w.wr.file_start = 0;
	g_w.wr.flags = 0;
}

void *alloc_flex(size_t base_size, size_t item_size, size_t nmemb)
{
	VERIF_ASSERT(base_size == sizeof(block_writer_default_t) && item_size == 1 &&
		     nmemb <= SCRATCH_SIZE && !g_allocated, "C08.create.env_pre");
	if (nd_fail())
		return NULL;
	g_allocated = true;
	g_payload = nmemb;
	zero_wr();
	return &g_w.wr;
}

static void *c08_calloc(size_t n, size_t sz)
{
	VERIF_ASSERT(n == 1 && sz == sizeof(block_writer_default_t) && !g_allocated,
		     "C08.create.env_pre");
	if (nd_fail())
		return NULL;
	g_allocated = true;
	g_payload = 0;
	zero_wr();
	return &g_w.wr;
}

static void c08_free(void *p)
{
	VERIF_ASSERT(p == (void *)&g_w.wr && g_allocated && !g_freed,
		     "C08.create.env_pre");
	g_freed = true;
}

int array_init(array_t *array, size_t size, size_t capacity)
{
	VERIF_ASSERT(array == &g_w.wr.blocks && size == sizeof(blk_info_t),
		     "C08.create.env_pre");
	if (nd_fail())
		return SQFS_ERROR_ALLOC;
	array->size = size;
	array->count = capacity;
	array->used = 0;
	array->data = NULL;	/* storage itself: C19 / array.c */
	return 0;
}

void array_cleanup(array_t *array) { (void)array; }
int array_append(array_t *array, const void *data) { (void)array; (void)data; return 0; }
int check_file_range_equal(sqfs_file_t *file, void *scratch, size_t scratch_sz,
			   sqfs_u64 loc_a, sqfs_u64 loc_b, sqfs_u64 size)
{
	(void)file; (void)scratch; (void)scratch_sz; (void)loc_a; (void)loc_b; (void)size;
	return 0;
}

void stub_file_destroy(sqfs_object_t *obj) { (void)obj; }
sqfs_u64 stub_get_size(const sqfs_file_t *f) { (void)f; return 0; }
int stub_write_at(sqfs_file_t *f, sqfs_u64 o, const void *b, size_t n)
{
	(void)f; (void)o; (void)b; (void)n;
	return 0;
}
int stub_truncate(sqfs_file_t *f, sqfs_u64 n) { (void)f; (void)n; return 0; }

void harness(void)
{
	sqfs_block_writer_t *res;
	sqfs_u32 flags = verif_nd_u32("flags");

	g_fallible_calls = g_faults = 0;
	g_allocated = g_freed = false;
	g_payload = 0;
	g_file.base.refcount = 1;
	g_file.base.destroy = stub_file_destroy;
	g_file.base.copy = NULL;

	res = sqfs_block_writer_create(&g_file, flags);

	if (flags & ~(sqfs_u32)SQFS_BLOCK_WRITER_ALL_FLAGS)
		VERIF_ASSERT(res == NULL && !g_allocated, "C08.create.writer_flags");
	if (g_faults > 0)
		VERIF_ASSERT(res == NULL && (!g_allocated || g_freed) &&
			     g_file.base.refcount == 1, "C08.create.fail_stop");
	if (res != NULL) {
		block_writer_default_t *wr = (block_writer_default_t *)res;

		VERIF_ASSERT(wr == &g_w.wr && !g_freed && g_faults == 0,
			     "C08.create.writer");
		VERIF_ASSERT(wr->flags == flags && wr->file == &g_file &&
			     g_file.base.refcount == 2, "C08.create.writer");
		VERIF_ASSERT(wr->blocks.used == 0 && wr->file_start == 0 &&
			     wr->blocks.size == sizeof(blk_info_t),
			     "C08.create.writer");
		VERIF_ASSERT(res->write_data_block == write_data_block &&
			     wr->base.base.refcount == 1, "C08.create.writer");
		if (!(flags & SQFS_BLOCK_WRITER_HASH_COMPARE_ONLY))
			VERIF_ASSERT(g_payload == SCRATCH_SIZE, "C08.create.writer");
	}

#if FAIL_AT == 0
	VERIF_COVER(res != NULL && flags == 0);
	VERIF_COVER(res != NULL && flags == SQFS_BLOCK_WRITER_HASH_COMPARE_ONLY);
	VERIF_COVER(res == NULL);
#else
	VERIF_COVER(res == NULL && g_faults == 1);
#endif
}
