/* C08 (+ C17.bp.dont_dedup): process_completed_fragment
 * (lib/sqfs/src/block_processor/backend.c), lookup/insert part.
 *
 * The fragment hash table is replaced by its contract (proved on the real
 * hash_table.c in ht_search.c): a search/insert may compare the key with any
 * stored chunk (here: up to 2 arbitrary stored chunks, in any order, with any
 * hashes - collisions at will) through ht->key_equals_function and hands back
 * an existing entry only if that callback answered true. The callback is the
 * contract of chunk_info_equals (frag_equal.c): it answers true or false, or
 * records a lookup error in proc->fblk_lookup_error and answers false.
 *
 * Shape: HAVE_FB (a fragment block is being filled), HAVE_INODE.
 *
 *  ensures  C08.frag.share_needs_equal  the inode is pointed at an already
 *              stored chunk (instead of the place where this fragment's own
 *              bytes were put) only if the search returned that chunk's entry,
 *              i.e. the equality callback answered true for it, with
 *              current_frag == this fragment and no pending lookup error
 *           C08.frag.search_key         the search key is (size, checksum) of
 *              the fragment
 *           C08.frag.own_location       otherwise the bytes are appended to
 *              the fragment block (in bounds) or start a new one, and inode and
 *              inserted chunk record exactly that (index, offset), size and
 *              checksum
 *           C08.frag.lookup_error_propagates  a lookup error raised by the
 *              callback during search or insert is returned; on a search error
 *              nothing is shared
 *           C08.frag.table_entry_alive  a chunk that the table holds is not
 *              freed
 *           C08.frag.current_frag_scoped  proc->current_frag is NULL again on
 *              return
 *           C17.bp.dont_dedup           DONT_DEDUPLICATE ==> no search at all
 *           C17.bp.frag_block_inherits  the fragment block is flagged
 *              DONT_COMPRESS iff one of its fragments is, and IGNORE_SPARSE iff
 *              one of its fragments is (a [nosparse] tail must be stored, so
 *              the block that carries it must not be replaced by a hole -
 *              C17.bp.nosparse_tail, fix in process_completed_fragment); no
 *              other user flag of a fragment leaks into the block
 */
#include "bp_env.h"

#ifndef HAVE_FB
#define HAVE_FB 1
#endif
#ifndef HAVE_INODE
#define HAVE_INODE 1
#endif

/* -DC01_NAMES (harness/C01/cases_extra_w4.py): the same facts as
 * packing-fidelity obligations */
#ifdef C01_NAMES
#define ALSO_C01(c, name) VERIF_ASSERT(c, name)
#else
#define ALSO_C01(c, name) ((void)0)
#endif

static void *c08_memcpy(void *dst, const void *src, size_t n);
static void c08_free(void *p);
#define memcpy c08_memcpy
#define free c08_free
#include "lib/sqfs/src/block_processor/backend.c"
#undef memcpy
#undef free

static blk_t g_frag, g_fb;
static struct hash_table g_ht;
static chunk_info_t g_stored[2];
static struct hash_entry g_entries[3];

static sqfs_inode_generic_t g_inode, *g_inode_ptr;

/* ghost */
static unsigned g_search_calls, g_insert_calls, g_eq_calls, g_setloc_calls;
static unsigned g_memcpy_calls, g_enqueue_calls, g_append_calls;
static struct hash_entry *g_search_ret, *g_insert_ret;
static const chunk_info_t *g_eq_true_for;	/* stored chunk that compared equal */
static int g_eq_error;				/* lookup error raised by the callback */
static bool g_eq_error_in_search;
static chunk_info_t *g_ins_chunk;
static chunk_info_t g_ins_copy;
static sqfs_u32 g_setloc_index, g_setloc_offset;
static void *g_memcpy_dst;
static const void *g_memcpy_src;
static size_t g_memcpy_n;
static sqfs_block_t *g_enqueued;
static int g_enqueue_ret, g_append_ret;
static sqfs_u32 g_new_index;

bool stub_chunk_equals(void *user, const void *k, const void *c)
{
	(void)k;
	VERIF_ASSERT(user == &g_p.proc, "C08.frag.search_context");
	VERIF_ASSERT(g_p.proc.current_frag == &g_frag.b, "C08.frag.search_context");
	g_eq_calls += 1;
	switch (verif_nd_u8("equals_outcome") % 3) {
	case 0:
		/* chunk_info_equals never answers true with an error pending */
		if (g_p.proc.fblk_lookup_error == 0) {
			g_eq_true_for = c;
			return true;
		}
		return false;
	case 1:
		return false;
	default:
		if (g_p.proc.fblk_lookup_error == 0) {
			g_eq_error = verif_nd_int("lookup_error");
			VERIF_ASSUME(g_eq_error < 0);
			g_p.proc.fblk_lookup_error = g_eq_error;
			g_eq_error_in_search = (g_insert_calls == 0);
		}
		return false;
	}
}

static struct hash_entry *probe(struct hash_table *ht, const void *key)
{
	int c;

	for (c = 0; c < 2; ++c) {
		int which = verif_nd_bool("probe_order") ? c : 1 - c;

		if (!verif_nd_bool("probe"))
			continue;
		if (ht->key_equals_function(ht->user, key, &g_stored[which])) {
			g_entries[which].hash = g_stored[which].hash;
			g_entries[which].key = &g_stored[which];
			g_entries[which].data = &g_stored[which];
			return &g_entries[which];
		}
	}
	return NULL;
}

struct hash_entry *hash_table_search_pre_hashed(struct hash_table *ht,
						sqfs_u32 hash, const void *key)
{
	const chunk_info_t *k = key;

	VERIF_ASSERT(ht == &g_ht && ht->user == &g_p.proc, "C08.frag.search_context");
	VERIF_ASSERT(g_p.proc.current_frag == &g_frag.b &&
		     g_p.proc.fblk_lookup_error == 0, "C08.frag.search_context");
	VERIF_ASSERT(hash == g_frag.b.checksum && k->hash == g_frag.b.checksum &&
		     k->size == g_frag.b.size, "C08.frag.search_key");
	VERIF_ASSERT(g_search_calls == 0 && g_insert_calls == 0 &&
		     g_memcpy_calls == 0, "C08.frag.search_context");
	g_search_calls += 1;
	g_search_ret = probe(ht, key);
	return g_search_ret;
}

struct hash_entry *hash_table_insert_pre_hashed(struct hash_table *ht,
						sqfs_u32 hash, const void *key,
						void *data)
{
	struct hash_entry *e;

	VERIF_ASSERT(ht == &g_ht && ht->user == &g_p.proc, "C08.frag.search_context");
	VERIF_ASSERT(g_p.proc.current_frag == &g_frag.b &&
		     g_p.proc.fblk_lookup_error == 0, "C08.frag.search_context");
	VERIF_ASSERT(key == data && VERIF_R_OK(key, sizeof(chunk_info_t)),
		     "C08.frag.own_location");
	VERIF_ASSERT(g_insert_calls == 0, "C08.frag.own_location");
	g_insert_calls += 1;
	g_ins_chunk = data;
	g_ins_copy = *g_ins_chunk;
	VERIF_ASSERT(hash == g_ins_copy.hash, "C08.frag.own_location");

	e = probe(ht, key);
	if (e == NULL && !verif_nd_bool("insert_fails"))
		e = &g_entries[2];
	if (e != NULL) {
		/* new entry, or documented replacement of an equal one */
		e->hash = hash;
		e->key = key;
		e->data = data;
	}
	g_insert_ret = e;
	return e;
}

int sqfs_inode_set_frag_location(sqfs_inode_generic_t *inode,
				 sqfs_u32 index, sqfs_u32 offset)
{
	VERIF_ASSERT(HAVE_INODE && inode == &g_inode, "C08.frag.own_location");
	g_setloc_calls += 1;
	g_setloc_index = index;
	g_setloc_offset = offset;
	return 0;
}

int sqfs_inode_make_extended(sqfs_inode_generic_t *inode)
{
	(void)inode;
	return 0;
}

int sqfs_inode_set_file_block_start(sqfs_inode_generic_t *inode, sqfs_u64 loc)
{
	(void)inode; (void)loc;
	return 0;
}

int sqfs_frag_table_set(sqfs_frag_table_t *tbl, sqfs_u32 index,
			sqfs_u64 location, sqfs_u32 size)
{
	(void)tbl; (void)index; (void)location; (void)size;
	VERIF_ASSERT(0, "C08.env.unreachable");
	return 0;
}

int sqfs_frag_table_append(sqfs_frag_table_t *tbl, sqfs_u64 location,
			   sqfs_u32 size, sqfs_u32 *index)
{
	VERIF_ASSERT(tbl == G_FRAG_TBL && location == 0 && size == 0 &&
		     VERIF_W_OK(index, sizeof(*index)), "C08.frag.own_location");
	g_append_calls += 1;
	g_append_ret = 0;
	if (verif_nd_bool("frag_table_append_fails")) {
		g_append_ret = verif_nd_int("append_err");
		VERIF_ASSUME(g_append_ret < 0);
		return g_append_ret;
	}
	g_new_index = verif_nd_u32("new_frag_index");
	*index = g_new_index;
	return 0;
}

int enqueue_block(sqfs_block_processor_t *proc, sqfs_block_t *blk)
{
	VERIF_ASSERT(proc == &g_p.proc && HAVE_FB && blk == &g_fb.b,
		     "C08.frag.own_location");
	g_enqueue_calls += 1;
	g_enqueued = blk;
	g_enqueue_ret = 0;
	if (verif_nd_bool("enqueue_fails")) {
		g_enqueue_ret = verif_nd_int("enqueue_err");
		VERIF_ASSUME(g_enqueue_ret < 0);
	}
	return g_enqueue_ret;
}

/* free() wrapper: notes when a chunk that the table holds is released */
static bool g_table_chunk_freed;

static void c08_free(void *p)
{
	if (p != NULL && g_insert_ret != NULL && p == (void *)g_ins_chunk)
		g_table_chunk_freed = true;
	free(p);
}

static void *c08_memcpy(void *dst, const void *src, size_t n)
{
	VERIF_ASSERT(VERIF_W_OK(dst, n) && VERIF_R_OK(src, n),
		     "C08.frag.append_in_bounds");
	g_memcpy_calls += 1;
	g_memcpy_dst = dst;
	g_memcpy_src = src;
	g_memcpy_n = n;
	return dst;
}

/* pool / writer call sites of dequeue_block & co. are not reached */
void *stub_pool_dequeue(thread_pool_t *pool)
{
	(void)pool;
	VERIF_ASSERT(0, "C08.env.unreachable");
	return NULL;
}

int stub_pool_get_status(thread_pool_t *pool)
{
	(void)pool;
	VERIF_ASSERT(0, "C08.env.unreachable");
	return 0;
}

int stub_write_data_block(sqfs_block_writer_t *wr, void *user, sqfs_u32 size,
			  sqfs_u32 checksum, sqfs_u32 flags,
			  const sqfs_u8 *data, sqfs_u64 *location)
{
	(void)wr; (void)user; (void)size; (void)checksum; (void)flags;
	(void)data; (void)location;
	VERIF_ASSERT(0, "C08.env.unreachable");
	return 0;
}

void harness(void)
{
	sqfs_u32 fb_size0, fb_index0, fb_flags0, frag_size, frag_sum, frag_flags;
	size_t backlog0;
	bool own_stored, shared;
	int ret;

	g_search_calls = g_insert_calls = g_eq_calls = g_setloc_calls = 0;
	g_memcpy_calls = g_enqueue_calls = g_append_calls = 0;
	g_search_ret = g_insert_ret = NULL;
	g_eq_true_for = NULL;
	g_eq_error = 0;
	g_eq_error_in_search = false;
	g_ins_chunk = NULL;
	g_table_chunk_freed = false;

	g_p.proc.max_block_size = BS;
	g_p.proc.file = &g_file;
	g_p.proc.uncmp = &g_uncmp;
	g_p.proc.frag_tbl = G_FRAG_TBL;
	g_p.proc.frag_ht = &g_ht;
	g_ht.user = &g_p.proc;
	g_ht.key_equals_function = stub_chunk_equals;
	g_p.proc.current_frag = NULL;
	g_p.proc.fblk_lookup_error = verif_nd_int("stale_lookup_error");
	g_p.proc.io_seq_num = verif_nd_u32("io_seq_num");
	g_p.proc.backlog = verif_nd_size("backlog");
	VERIF_ASSUME(g_p.proc.backlog >= 1 && g_p.proc.backlog < 1000);
	backlog0 = g_p.proc.backlog;
	g_p.proc.free_list = NULL;

	blk_nd_header(&g_frag, "frag");
	VERIF_ASSUME(g_frag.b.size <= BS);
	/* the sparse path is not part of C08 (set_block_size: C13/C01) */
	VERIF_ASSUME(!(g_frag.b.flags & SQFS_BLK_IS_SPARSE));
	g_inode.base.type = SQFS_INODE_FILE;
	g_inode_ptr = &g_inode;
	g_frag.b.inode = HAVE_INODE ? &g_inode_ptr : NULL;
	frag_size = g_frag.b.size;
	frag_sum = g_frag.b.checksum;
	frag_flags = g_frag.b.flags;

	blk_nd_header(&g_fb, "frag_block");
	VERIF_ASSUME(g_fb.b.size <= BS);
	g_p.proc.frag_block = HAVE_FB ? &g_fb.b : NULL;
	fb_size0 = g_fb.b.size;
	fb_index0 = g_fb.b.index;
	fb_flags0 = g_fb.b.flags;

	g_stored[0].index = verif_nd_u32("stored");
	g_stored[0].offset = verif_nd_u32("stored");
	g_stored[0].size = verif_nd_u32("stored");
	g_stored[0].hash = verif_nd_u32("stored");
	g_stored[1].index = verif_nd_u32("stored");
	g_stored[1].offset = verif_nd_u32("stored");
	g_stored[1].size = verif_nd_u32("stored");
	g_stored[1].hash = verif_nd_u32("stored");

	ret = process_completed_fragment(&g_p.proc, &g_frag.b);

	/* ---------------------------------------------------------------- */
	VERIF_ASSERT(g_p.proc.current_frag == NULL, "C08.frag.current_frag_scoped");
	VERIF_ASSERT(g_search_calls <= 1 && g_insert_calls <= 1 &&
		     g_setloc_calls <= 1, "C08.frag.frame");

	if (frag_flags & SQFS_BLK_DONT_DEDUPLICATE)
		VERIF_ASSERT(g_search_calls == 0, "C17.bp.dont_dedup");
	else
		VERIF_ASSERT(g_search_calls == 1, "C08.frag.identical_share");

	/* were this fragment's own bytes put into a fragment block? */
	own_stored = g_memcpy_calls > 0 || g_p.proc.frag_block == &g_frag.b;
	shared = (g_setloc_calls == 1) && !own_stored;

	if (g_search_calls == 1 && g_search_ret != NULL) {
		/* the table found an equal chunk: it must be used */
		VERIF_ASSERT(ret == 0 && !own_stored && g_insert_calls == 0,
			     "C08.frag.identical_share");
		if (HAVE_INODE)
			VERIF_ASSERT(g_setloc_calls == 1, "C08.frag.identical_share");
	}

	if (shared) {
		const chunk_info_t *c;

		VERIF_ASSERT(g_search_calls == 1 && g_search_ret != NULL &&
			     g_eq_true_for != NULL &&
			     g_search_ret->data == (void *)g_eq_true_for,
			     "C08.frag.share_needs_equal");
		c = g_eq_true_for;
		VERIF_ASSERT(g_setloc_index == c->index &&
			     g_setloc_offset == c->offset,
			     "C08.frag.share_needs_equal");
		VERIF_ASSERT(g_eq_error == 0 && ret == 0,
			     "C08.frag.share_needs_equal");
		/* C01: deduplicated tail: the inode names a chunk whose bytes
		 * compared equal to this fragment's */
		ALSO_C01(g_search_ret != NULL && g_eq_true_for != NULL &&
			 g_setloc_index == g_eq_true_for->index &&
			 g_setloc_offset == g_eq_true_for->offset &&
			 g_eq_true_for == (const chunk_info_t *)g_search_ret->data,
			 "C01.frag.location");
	}

	/* C01: a fragment never leaves without a location or an error */
	if (ret == 0 && HAVE_INODE)
		ALSO_C01(g_setloc_calls == 1, "C01.frag.location");
	if (g_eq_error != 0) {
		VERIF_ASSERT(ret == g_eq_error, "C08.frag.lookup_error_propagates");
		VERIF_ASSERT(g_setloc_calls == 0, "C08.frag.lookup_error_propagates");
		if (g_eq_error_in_search)
			VERIF_ASSERT(!own_stored && g_insert_calls == 0,
				     "C08.frag.lookup_error_propagates");
	}

	if (own_stored) {
		sqfs_u32 exp_index, exp_offset;

		if (g_memcpy_calls > 0) {
			/* appended to the block that was being filled */
			VERIF_ASSERT(HAVE_FB && g_memcpy_calls == 1 &&
				     g_enqueue_calls == 0 &&
				     g_p.proc.frag_block == &g_fb.b,
				     "C08.frag.own_location");
			VERIF_ASSERT(g_memcpy_dst == (void *)(g_fb.b.data + fb_size0) &&
				     g_memcpy_src == (const void *)g_frag.b.data &&
				     g_memcpy_n == frag_size,
				     "C08.frag.own_location");
			VERIF_ASSERT((size_t)fb_size0 + frag_size <= BS &&
				     g_fb.b.size == fb_size0 + frag_size &&
				     g_fb.b.index == fb_index0,
				     "C08.frag.append_in_bounds");
			/* one uncompressed / nosparse fragment makes the whole
			 * block uncompressed / non-sparse; nothing else is
			 * inherited */
			VERIF_ASSERT(g_fb.b.flags == (fb_flags0 |
				     (frag_flags & (SQFS_BLK_DONT_COMPRESS |
						    SQFS_BLK_IGNORE_SPARSE))),
				     "C17.bp.frag_block_inherits");
			exp_index = fb_index0;
			exp_offset = fb_size0;
		} else {
			VERIF_ASSERT(g_frag.b.flags ==
				     ((frag_flags & (SQFS_BLK_DONT_COMPRESS |
						     SQFS_BLK_IGNORE_SPARSE)) |
				      SQFS_BLK_FRAGMENT_BLOCK),
				     "C17.bp.frag_block_inherits");
			/* became the new fragment block */
			VERIF_ASSERT(g_append_calls == 1 && g_append_ret == 0 &&
				     g_frag.b.index == g_new_index &&
				     g_frag.b.size == frag_size &&
				     (g_frag.b.flags & SQFS_BLK_FRAGMENT_BLOCK),
				     "C08.frag.own_location");
			if (HAVE_FB)
				VERIF_ASSERT(g_enqueue_calls == 1 &&
					     g_enqueue_ret == 0 &&
					     (size_t)fb_size0 + frag_size > BS,
					     "C08.frag.own_location");
			exp_index = g_new_index;
			exp_offset = 0;
		}
		if (g_insert_calls == 1) {
			VERIF_ASSERT(g_ins_copy.index == exp_index &&
				     g_ins_copy.offset == exp_offset &&
				     g_ins_copy.size == frag_size &&
				     g_ins_copy.hash == frag_sum,
				     "C08.frag.own_location");
		}
		if (ret == 0) {
			VERIF_ASSERT(g_insert_calls == 1 && g_insert_ret != NULL,
				     "C08.frag.own_location");
			if (HAVE_INODE)
				VERIF_ASSERT(g_setloc_calls == 1 &&
					     g_setloc_index == exp_index &&
					     g_setloc_offset == exp_offset,
					     "C08.frag.own_location");
			/* C01: own tail: (index, offset) in the inode = where the
			 * bytes were put, size bytes, inside the fragment block */
			if (HAVE_INODE)
				ALSO_C01(g_setloc_index == exp_index &&
					 g_setloc_offset == exp_offset &&
					 g_p.proc.frag_block != NULL &&
					 g_p.proc.frag_block->index == exp_index &&
					 (sqfs_u64)exp_offset + frag_size ==
					 g_p.proc.frag_block->size &&
					 g_p.proc.frag_block->size <= BS,
					 "C01.frag.location");
		}
	} else if (ret == 0) {
		VERIF_ASSERT(g_search_calls == 1 && g_search_ret != NULL,
			     "C08.frag.own_location");
	}

	/* a chunk owned by the table must stay allocated */
	VERIF_ASSERT(!g_table_chunk_freed, "C08.frag.table_entry_alive");
	if (g_insert_ret != NULL) {
#ifdef VERIF_REPLAY
		/* natively: touching the chunk makes ASan show the dangling entry */
		{
			volatile sqfs_u32 probe_read = g_ins_chunk->index;
			(void)probe_read;
		}
#endif
	}

	/* the completed fragment is either the new fragment block or recycled */
	if (g_p.proc.frag_block != &g_frag.b)
		VERIF_ASSERT(g_p.proc.free_list == &g_frag.b &&
			     g_p.proc.backlog == backlog0 - 1, "C08.frag.frame");
	else
		VERIF_ASSERT(g_p.proc.backlog == backlog0, "C08.frag.frame");

#if HAVE_INODE
	VERIF_COVER(shared && ret == 0);
#else
	VERIF_COVER(g_search_ret != NULL && ret == 0);
#endif
	VERIF_COVER(own_stored && ret == 0);
	VERIF_COVER(g_eq_error != 0 && g_eq_error_in_search);
	VERIF_COVER(g_eq_error != 0 && !g_eq_error_in_search);
	VERIF_COVER(ret != 0 && g_eq_error == 0);
	VERIF_COVER(frag_flags & SQFS_BLK_DONT_DEDUPLICATE);
	VERIF_COVER(g_eq_calls == 4);
#if HAVE_FB
	VERIF_COVER(g_memcpy_calls == 1 && ret == 0);
	VERIF_COVER(g_enqueue_calls == 1 && ret == 0);
#endif
}
