/* C08: load_frag_block (lib/sqfs/src/block_processor/block_processor.c) -
 * the one-entry cache through which chunk_info_equals re-reads a fragment
 * block that is already on disk. Loop-free; every environment call may fail.
 *
 * Shape: CACHE = 0 (no cache block allocated yet) / 1 (a block is cached,
 * tag and size arbitrary).
 *
 *  ensures  C08.frag.load.hit          the cached index is asked for again
 *              ==> 0, nothing is read
 *           C08.frag.load.reads_location  success on a miss ==> the table was
 *              asked for this index, exactly the on-disk bytes
 *              [start_offset, start_offset + on-disk size) were read (into
 *              the scratch area if compressed, else straight into the cache),
 *              a compressed block went through uncmp->do_block(scratch,
 *              on-disk size, cache->data, max_block_size), and the cache is
 *              tagged (index, resulting size <= max_block_size)
 *           C08.frag.load.size_checked  an on-disk size > max_block_size is
 *              refused before anything is read
 *           C08.frag.load.error        non-zero result <==> allocation, table,
 *              read or uncompress failure, or the refused size
 *           C08.frag.load.cache_coherent  the cache tag never names bytes it
 *              does not hold: if this call may have overwritten the cached
 *              payload and then failed, the old tag is gone (index changed or
 *              size 0)
 */
#include "bp_env.h"

#ifndef CACHE
#define CACHE 1
#endif

#include "lib/sqfs/src/block_processor/block_processor.c"

static blk_t g_cache;

void harness(void)
{
	sqfs_u32 index, index0, size0, ondisk;
	sqfs_block_t *c;
	bool dirty, compressed;
	int ret;

	g_fault = 0;
	g_fault_count = 0;
	g_alloc_calls = g_lookup_calls = g_read_calls = g_unc_calls = 0;

	g_p.proc.max_block_size = BS;
	g_p.proc.file = &g_file;
	g_p.proc.uncmp = &g_uncmp;
	g_p.proc.frag_tbl = G_FRAG_TBL;
	g_file.read_at = stub_read_at;
	g_uncmp.do_block = stub_do_block;

	blk_nd_header(&g_cache, "cache");
	VERIF_ASSUME(g_cache.b.size <= BS);
	g_p.proc.cached_frag_blk = CACHE ? &g_cache.b : NULL;
	index0 = g_cache.b.index;
	size0 = g_cache.b.size;
	/* 0xFFFFFFFF is "no fragment" in every inode: never a stored index */
	VERIF_ASSUME(index0 != 0xFFFFFFFF || size0 == 0);

	index = verif_nd_u32("index");
	VERIF_ASSUME(index != 0xFFFFFFFF);

	ret = load_frag_block(&g_p.proc, index);

	/* ---------------------------------------------------------------- */
	c = g_p.proc.cached_frag_blk;
	ondisk = SQFS_ON_DISK_BLOCK_SIZE(g_lookup_info.size);
	compressed = SQFS_IS_BLOCK_COMPRESSED(g_lookup_info.size);

	if (CACHE && index == index0) {
		VERIF_ASSERT(ret == 0 && g_lookup_calls == 0 && g_read_calls == 0 &&
			     g_unc_calls == 0 && g_alloc_calls == 0 &&
			     c == &g_cache.b && c->index == index0 &&
			     c->size == size0, "C08.frag.load.hit");
	} else if (ret == 0) {
		VERIF_ASSERT(c != NULL && c == (CACHE ? &g_cache.b : &g_alloc_blk.b),
			     "C08.frag.load.reads_location");
		VERIF_ASSERT(!CACHE ? (g_alloc_calls == 1 && g_alloc_nmemb == BS)
				    : g_alloc_calls == 0,
			     "C08.frag.load.reads_location");
		VERIF_ASSERT(g_lookup_calls == 1 && g_lookup_index == index,
			     "C08.frag.load.reads_location");
		VERIF_ASSERT(ondisk <= BS, "C08.frag.load.size_checked");
		VERIF_ASSERT(g_read_calls == 1 &&
			     g_read_off == g_lookup_info.start_offset &&
			     g_read_size == ondisk,
			     "C08.frag.load.reads_location");
		if (compressed) {
			VERIF_ASSERT(g_read_buf == (void *)g_p.proc.scratch &&
				     g_unc_calls == 1 &&
				     g_unc_in == g_p.proc.scratch &&
				     g_unc_insz == ondisk &&
				     g_unc_out == c->data && g_unc_outsz == BS,
				     "C08.frag.load.reads_location");
			VERIF_ASSERT(g_unc_ret > 0 && c->size == (sqfs_u32)g_unc_ret,
				     "C08.frag.load.reads_location");
		} else {
			VERIF_ASSERT(g_read_buf == (void *)c->data &&
				     g_unc_calls == 0 && c->size == ondisk,
				     "C08.frag.load.reads_location");
		}
		VERIF_ASSERT(c->index == index && c->size <= BS,
			     "C08.frag.load.reads_location");
		VERIF_ASSERT(g_fault_count == 0, "C08.frag.load.error");
	} else {
		VERIF_ASSERT(g_fault_count == 1 ||
			     (g_fault_count == 0 && g_lookup_calls == 1 &&
			      ondisk > BS), "C08.frag.load.error");
		if (g_fault_count == 0)
			VERIF_ASSERT(g_read_calls == 0 && g_unc_calls == 0,
				     "C08.frag.load.size_checked");
		if (g_fault_count == 1 && g_fault != 0)
			VERIF_ASSERT(ret == g_fault, "C08.frag.load.error");
	}
	if (g_fault_count > 0)
		VERIF_ASSERT(ret != 0, "C08.frag.load.error");

	/* tag / payload coherence */
	dirty = c != NULL &&
		((g_read_calls > 0 && g_read_buf == (void *)c->data) ||
		 (g_unc_calls > 0 && g_unc_out == c->data));
	if (CACHE && ret != 0 && dirty)
		VERIF_ASSERT(c->index != index0 || c->size == 0,
			     "C08.frag.load.cache_coherent");
	if (CACHE && ret != 0 && !dirty)
		VERIF_ASSERT(c == &g_cache.b, "C08.frag.load.cache_coherent");
	if (!CACHE && ret != 0 && c != NULL)
		/* freshly allocated and never filled: must not look loaded */
		VERIF_ASSERT(c->size == 0 || c->index == 0xFFFFFFFF,
			     "C08.frag.load.cache_coherent");

	VERIF_COVER(ret == 0 && g_unc_calls == 1);
	VERIF_COVER(ret == 0 && g_read_calls == 1 && g_unc_calls == 0);
	VERIF_COVER(ret != 0 && g_fault_count == 0);
	VERIF_COVER(ret != 0 && g_unc_calls == 1);
	VERIF_COVER(ret != 0 && g_read_calls == 1 && g_unc_calls == 0);
	VERIF_COVER(ret != 0 && g_lookup_calls == 1 && g_read_calls == 0);
#if CACHE
	VERIF_COVER(ret == 0 && g_lookup_calls == 0);
#else
	VERIF_COVER(ret != 0 && g_lookup_calls == 0);
#endif
}
