/* C08/C17: environment of the block processor (lib/sqfs/src/block_processor/)
 * shared by the harnesses that include one of its translation units.
 *
 * Typed, fixed-size objects only (HOWTO): blocks are wrappers with BS payload
 * bytes, the processor is a wrapper with BS scratch bytes.
 *
 * Every stub *is* the assumed contract of DESIGN section 3: it asserts the
 * callee's precondition at the call site, records the call in ghost state and
 * returns every permitted outcome through verif_nd_*.
 */
#ifndef C08_BP_ENV_H
#define C08_BP_ENV_H

#include <stdlib.h>
#include <string.h>
#include "verif.h"
#include "lib/sqfs/src/block_processor/internal.h"

#ifndef BS
#define BS 4096			/* max_block_size of the processor under test */
#endif

typedef struct {
	sqfs_block_t b;
	sqfs_u8 data[BS];
} blk_t;

typedef struct {
	sqfs_block_processor_t proc;
	sqfs_u8 scratch[BS];
} proc_t;

static proc_t g_p;
static sqfs_file_t g_file;
static sqfs_compressor_t g_uncmp;
/* opaque objects: only their identity matters */
static struct { sqfs_object_t obj; int opaque; } g_frag_tbl_obj;
#define G_FRAG_TBL ((sqfs_frag_table_t *)&g_frag_tbl_obj)

/* ------------------------------------------------------------------ ghost */
static int g_fault;			/* error code of the stub that failed (0: the
					 * failure has no code of its own) */
static unsigned g_fault_count;

static unsigned g_alloc_calls;
static blk_t g_alloc_blk;		/* what alloc_flex hands out (once) */
static size_t g_alloc_nmemb;

static unsigned g_lookup_calls;
static sqfs_u32 g_lookup_index;
static sqfs_fragment_t g_lookup_info;	/* what the table answered */

static unsigned g_read_calls;
static sqfs_u64 g_read_off;
static void *g_read_buf;
static size_t g_read_size;

static unsigned g_unc_calls;
static const sqfs_u8 *g_unc_in;
static sqfs_u32 g_unc_insz, g_unc_outsz;
static sqfs_u8 *g_unc_out;
static sqfs_s32 g_unc_ret;

static unsigned g_memcmp_calls;
static const void *g_memcmp_a, *g_memcmp_b;
static size_t g_memcmp_n;
static int g_memcmp_ret;

static int nd_error(const char *tag)
{
	int e = verif_nd_int(tag);

	VERIF_ASSUME(e < 0);
	g_fault = e;
	g_fault_count += 1;
	return e;
}

/* ------------------------------------------------------------------ stubs */
void *alloc_flex(size_t base_size, size_t item_size, size_t nmemb)
{
	VERIF_ASSERT(g_alloc_calls == 0, "C08.env.alloc_once");
	VERIF_ASSERT(base_size == sizeof(sqfs_block_t) && item_size == 1 &&
		     nmemb <= BS, "C08.env.alloc_block_shape");
	g_alloc_calls += 1;
	g_alloc_nmemb = nmemb;
	if (verif_nd_bool("alloc_fails")) {
		g_fault = 0;
		g_fault_count += 1;
		return NULL;
	}
	/* calloc semantics: zeroed header (the payload stays unconstrained,
	 * nobody may rely on it) */
	g_alloc_blk.b.next = NULL;
	g_alloc_blk.b.inode = NULL;
	g_alloc_blk.b.io_seq_num = 0;
	g_alloc_blk.b.flags = 0;
	g_alloc_blk.b.size = 0;
	g_alloc_blk.b.checksum = 0;
	g_alloc_blk.b.index = 0;
	g_alloc_blk.b.user = NULL;
	return &g_alloc_blk.b;
}

int sqfs_frag_table_lookup(sqfs_frag_table_t *tbl, sqfs_u32 index,
			   sqfs_fragment_t *out)
{
	VERIF_ASSERT(tbl == G_FRAG_TBL && tbl != NULL, "C08.frag.load.lookup_pre");
	VERIF_ASSERT(VERIF_W_OK(out, sizeof(*out)), "C08.frag.load.lookup_pre");
	g_lookup_calls += 1;
	g_lookup_index = index;
	if (verif_nd_bool("lookup_fails"))
		return nd_error("lookup_err");
	g_lookup_info.start_offset = verif_nd_u64("frag_start");
	g_lookup_info.size = verif_nd_u32("frag_size");
	g_lookup_info.pad0 = 0;
	*out = g_lookup_info;
	return 0;
}

int stub_read_at(sqfs_file_t *file, sqfs_u64 offset, void *buffer, size_t size)
{
	VERIF_ASSERT(file == &g_file, "C08.frag.load.read_pre");
	VERIF_ASSERT(VERIF_W_OK(buffer, size), "C08.frag.load.read_pre");
	g_read_calls += 1;
	g_read_off = offset;
	g_read_buf = buffer;
	g_read_size = size;
	if (verif_nd_bool("read_fails"))
		return nd_error("read_err");
	return 0;
}

sqfs_s32 stub_do_block(sqfs_compressor_t *cmp, const sqfs_u8 *in,
		       sqfs_u32 size, sqfs_u8 *out, sqfs_u32 outsize)
{
	sqfs_s32 r;

	VERIF_ASSERT(cmp == &g_uncmp, "C08.frag.load.uncompress_pre");
	VERIF_ASSERT(VERIF_R_OK(in, size) && VERIF_W_OK(out, outsize),
		     "C08.frag.load.uncompress_pre");
	g_unc_calls += 1;
	g_unc_in = in;
	g_unc_insz = size;
	g_unc_out = out;
	g_unc_outsz = outsize;
	r = verif_nd_int("do_block_ret");
	VERIF_ASSUME(r < 0 || (sqfs_u32)r <= outsize);
	if (r <= 0) {
		g_fault = r;	/* 0: "does not fit", caller must invent a code */
		g_fault_count += 1;
	}
	g_unc_ret = r;
	return r;
}

static int c08_memcmp(const void *a, const void *b, size_t n)
{
	VERIF_ASSERT(VERIF_R_OK(a, n) && VERIF_R_OK(b, n), "C08.frag.memcmp_pre");
	g_memcmp_calls += 1;
	g_memcmp_a = a;
	g_memcmp_b = b;
	g_memcmp_n = n;
	g_memcmp_ret = verif_nd_int("memcmp");
	return g_memcmp_ret;
}

/* function-pointer call sites that the function under test never reaches */
void stub_unreachable_destroy(sqfs_object_t *obj)
{
	(void)obj;
	VERIF_ASSERT(0, "C08.env.unreachable");
}

static void blk_nd_header(blk_t *b, const char *tag)
{
	b->b.next = NULL;
	b->b.inode = NULL;
	b->b.io_seq_num = verif_nd_u32(tag);
	b->b.flags = verif_nd_u32(tag);
	b->b.size = verif_nd_u32(tag);
	b->b.checksum = verif_nd_u32(tag);
	b->b.index = verif_nd_u32(tag);
	b->b.user = NULL;
}

#endif /* C08_BP_ENV_H */
