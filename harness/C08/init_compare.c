/* C08 (+ C17.export.flag): sqfs_writer_init (lib/common/src/writer/init.c) -
 * the configuration lemma: the packers enable byte comparison. Loop-free;
 * every callee is a contract that may fail (then init must fail as well).
 *
 *  ensures  C08.init.compare_enabled  the block processor is created with
 *              desc.file == the output file just opened (non-NULL),
 *              desc.uncmp == the compressor created with
 *              SQFS_COMP_FLAG_UNCOMPRESS for the same id (non-NULL),
 *              desc.tbl == the fragment table, desc.wr == the block writer -
 *              so chunk_info_equals takes its byte-comparing branch
 *              (frag_equal.c MODE 0) and enqueue_block keeps in-flight copies
 *           C08.init.writer_compares   the block writer is created on the same
 *              output file with flags == 0 (no HASH_COMPARE_ONLY), so
 *              deduplicate_blocks always goes through check_file_range_equal
 *           C08.init.fail_stop         a failing callee ==> -1
 *           C17.export.flag            dir writer flags ==
 *              (exportable ? CREATE_EXPORT_TABLE : 0)
 */
#include <stdlib.h>
#include <string.h>
#include <stdio.h>
#include "verif.h"
#include "lib/common/src/writer/init.c"

static struct { sqfs_object_t base; int x; } g_o_fragtbl, g_o_data, g_o_idtbl,
	g_o_xwr, g_o_im, g_o_dm, g_o_dirwr;
static sqfs_file_t g_outfile;
static sqfs_compressor_t g_cmp, g_uncmp;
static sqfs_block_writer_t g_blkwr;

static unsigned g_faults, g_open_calls, g_cmp_creates, g_bp_creates,
	g_bw_creates, g_dw_creates;
static sqfs_u16 g_cfg_flags0;
static int g_cfg_id;
static sqfs_u32 g_bw_flags, g_dw_flags;
static sqfs_file_t *g_bw_file;
static sqfs_block_processor_desc_t g_desc;

static bool nd_fail(const char *tag)
{
	if (verif_nd_bool(tag)) {
		g_faults += 1;
		return true;
	}
	return false;
}

void stub_destroy(sqfs_object_t *obj) { (void)obj; }

static void *mk(void *obj)
{
	((sqfs_object_t *)obj)->refcount = 1;
	((sqfs_object_t *)obj)->destroy = stub_destroy;
	((sqfs_object_t *)obj)->copy = NULL;
	return obj;
}

int compressor_cfg_init_options(sqfs_compressor_config_t *cfg, SQFS_COMPRESSOR id,
				size_t block_size, char *options)
{
	(void)options;
	if (nd_fail("cfg_init_fails"))
		return -1;
	cfg->id = id;
	cfg->flags = verif_nd_u16("cfg_flags");
	VERIF_ASSUME(!(cfg->flags & SQFS_COMP_FLAG_UNCOMPRESS));
	cfg->block_size = block_size;
	g_cfg_flags0 = cfg->flags;
	g_cfg_id = id;
	return 0;
}

int sqfs_file_open(sqfs_file_t **out, const char *filename, sqfs_u32 flags)
{
	(void)filename; (void)flags;
	g_open_calls += 1;
	if (nd_fail("open_fails"))
		return SQFS_ERROR_IO;
	*out = mk(&g_outfile);
	return 0;
}

/* since fix a8a582b sqfs_writer_init opens the native handle and the file
 * object separately (so that a half-opened output can be removed again) */
int sqfs_native_file_open(sqfs_file_handle_t *out, const char *filename,
			  sqfs_u32 flags)
{
	(void)filename; (void)flags;
	g_open_calls += 1;
	if (nd_fail("open_fails")) {
		*out = -1;
		return SQFS_ERROR_IO;
	}
	*out = 5;
	return 0;
}

int sqfs_file_open_handle(sqfs_file_t **out, const char *filename,
			  sqfs_file_handle_t fd, sqfs_u32 flags)
{
	(void)filename; (void)flags; (void)fd;
	*out = NULL;
	if (nd_fail("open_handle_fails"))
		return SQFS_ERROR_ALLOC;
	*out = mk(&g_outfile);
	return 0;
}

void sqfs_native_file_close(sqfs_file_handle_t fd) { (void)fd; }
int unlink(const char *path) { (void)path; return 0; }

void sqfs_perror(const char *file, const char *action, int error_code)
{
	(void)file; (void)action; (void)error_code;
}

void perror(const char *s) { (void)s; }
int fputs(const char *s, FILE *f) { (void)s; (void)f; return 0; }

int parse_fstree_defaults(fstree_defaults_t *out, char *str)
{
	(void)str;
	if (nd_fail("defaults_fail"))
		return -1;
	out->mtime = verif_nd_u32("mtime");
	return 0;
}

int fstree_init(fstree_t *fs, const fstree_defaults_t *defaults)
{
	if (nd_fail("fstree_init_fails"))
		return -1;
	fs->defaults.mtime = defaults->mtime;
	return 0;
}

void fstree_cleanup(fstree_t *fs) { (void)fs; }

int sqfs_compressor_create(const sqfs_compressor_config_t *cfg,
			   sqfs_compressor_t **out)
{
	bool un = (cfg->flags & SQFS_COMP_FLAG_UNCOMPRESS) != 0;

	VERIF_ASSERT(g_cmp_creates == (un ? 1u : 0u), "C08.init.compare_enabled");
	VERIF_ASSERT((int)cfg->id == g_cfg_id &&
		     (cfg->flags & ~SQFS_COMP_FLAG_UNCOMPRESS) == g_cfg_flags0,
		     "C08.init.compare_enabled");
	g_cmp_creates += 1;
	if (nd_fail("compressor_create_fails"))
		return SQFS_ERROR_ALLOC;
	*out = mk(un ? &g_uncmp : &g_cmp);
	return 0;
}

int sqfs_super_init(sqfs_super_t *super, size_t block_size, sqfs_u32 mtime,
		    SQFS_COMPRESSOR compressor)
{
	(void)block_size; (void)mtime; (void)compressor;
	if (nd_fail("super_init_fails"))
		return SQFS_ERROR_SUPER_BLOCK_SIZE;
	super->flags = 0;
	return 0;
}

int sqfs_super_write(const sqfs_super_t *super, sqfs_file_t *file)
{
	(void)super;
	VERIF_ASSERT(file == &g_outfile, "C08.init.compare_enabled");
	return nd_fail("super_write_fails") ? SQFS_ERROR_IO : 0;
}

int stub_write_options(sqfs_compressor_t *cmp, sqfs_file_t *file)
{
	VERIF_ASSERT(cmp == &g_cmp && file == &g_outfile, "C08.init.compare_enabled");
	if (nd_fail("write_options_fails"))
		return SQFS_ERROR_IO;
	return verif_nd_bool("has_options") ? 8 : 0;
}

sqfs_block_writer_t *sqfs_block_writer_create(sqfs_file_t *file, sqfs_u32 flags)
{
	g_bw_creates += 1;
	g_bw_file = file;
	g_bw_flags = flags;
	if (nd_fail("block_writer_create_fails"))
		return NULL;
	return mk(&g_blkwr);
}

sqfs_frag_table_t *sqfs_frag_table_create(sqfs_u32 flags)
{
	(void)flags;
	if (nd_fail("frag_table_create_fails"))
		return NULL;
	return mk(&g_o_fragtbl);
}

int sqfs_block_processor_create_ex(const sqfs_block_processor_desc_t *desc,
				   sqfs_block_processor_t **out)
{
	g_bp_creates += 1;
	g_desc = *desc;
	if (nd_fail("block_processor_create_fails"))
		return SQFS_ERROR_ALLOC;
	*out = mk(&g_o_data);
	return 0;
}

sqfs_id_table_t *sqfs_id_table_create(sqfs_u32 flags)
{
	(void)flags;
	return nd_fail("id_table_create_fails") ? NULL : mk(&g_o_idtbl);
}

sqfs_xattr_writer_t *sqfs_xattr_writer_create(sqfs_u32 flags)
{
	(void)flags;
	return nd_fail("xattr_writer_create_fails") ? NULL : mk(&g_o_xwr);
}

sqfs_meta_writer_t *sqfs_meta_writer_create(sqfs_file_t *file,
					    sqfs_compressor_t *cmp, sqfs_u32 flags)
{
	(void)file; (void)cmp;
	if (nd_fail("meta_writer_create_fails"))
		return NULL;
	return mk((flags & SQFS_META_WRITER_KEEP_IN_MEMORY) ? &g_o_dm : &g_o_im);
}

sqfs_dir_writer_t *sqfs_dir_writer_create(sqfs_meta_writer_t *dm, sqfs_u32 flags)
{
	VERIF_ASSERT(dm == (sqfs_meta_writer_t *)&g_o_dm, "C17.export.flag");
	g_dw_creates += 1;
	g_dw_flags = flags;
	return nd_fail("dir_writer_create_fails") ? NULL : mk(&g_o_dirwr);
}

void harness(void)
{
	static sqfs_writer_t sqfs;
	static sqfs_writer_cfg_t cfg;
	static char name[] = "out.sqfs";
	int ret;

	g_faults = g_open_calls = g_cmp_creates = g_bp_creates = 0;
	g_bw_creates = g_dw_creates = 0;
	g_cmp.write_options = stub_write_options;

	cfg.filename = name;
	cfg.fs_defaults = NULL;
	cfg.comp_extra = NULL;
	cfg.block_size = verif_nd_size("block_size");
	cfg.devblksize = verif_nd_size("devblksize");
	cfg.max_backlog = verif_nd_size("max_backlog");
	cfg.num_jobs = verif_nd_size("num_jobs");
	cfg.outmode = verif_nd_int("outmode");
	cfg.comp_id = (SQFS_COMPRESSOR)(1 + verif_nd_u8("comp_id") % 6);
	/* requires (established by the option parsers, narrowing is C03's
	 * business): a legal block size, 32 bit job/backlog counts, open mode
	 * flags non-negative */
	VERIF_ASSUME(cfg.block_size >= 4096 && cfg.block_size <= 1048576);
	VERIF_ASSUME(cfg.max_backlog <= UINT32_MAX && cfg.num_jobs <= UINT32_MAX);
	VERIF_ASSUME(cfg.outmode >= 0);
	cfg.exportable = verif_nd_bool("exportable");
	cfg.no_xattr = verif_nd_bool("no_xattr");
	cfg.quiet = verif_nd_bool("quiet");

	ret = sqfs_writer_init(&sqfs, &cfg);

	VERIF_ASSERT(ret == 0 || ret == -1, "C08.init.fail_stop");
	VERIF_ASSERT((ret == 0) == (g_faults == 0), "C08.init.fail_stop");

	if (g_bp_creates > 0) {
		VERIF_ASSERT(g_bp_creates == 1 && g_open_calls == 1 &&
			     g_cmp_creates == 2, "C08.init.compare_enabled");
		VERIF_ASSERT(g_desc.file == &g_outfile && g_desc.file != NULL &&
			     g_desc.uncmp == &g_uncmp && g_desc.cmp == &g_cmp &&
			     g_desc.tbl == (sqfs_frag_table_t *)&g_o_fragtbl &&
			     g_desc.wr == &g_blkwr &&
			     g_desc.size == sizeof(g_desc) &&
			     g_desc.max_block_size == cfg.block_size,
			     "C08.init.compare_enabled");
		VERIF_ASSERT(g_bw_creates == 1 && g_bw_file == &g_outfile &&
			     g_bw_flags == 0, "C08.init.writer_compares");
	}
	if (ret == 0) {
		VERIF_ASSERT(g_bp_creates == 1 &&
			     sqfs.data == (sqfs_block_processor_t *)&g_o_data &&
			     sqfs.outfile == &g_outfile && sqfs.uncmp == &g_uncmp,
			     "C08.init.compare_enabled");
		VERIF_ASSERT(g_dw_creates == 1 &&
			     g_dw_flags == (cfg.exportable ?
					    (sqfs_u32)SQFS_DIR_WRITER_CREATE_EXPORT_TABLE : 0u),
			     "C17.export.flag");
	}

	VERIF_COVER(ret == 0 && cfg.exportable);
	VERIF_COVER(ret == 0 && !cfg.exportable);
	VERIF_COVER(ret == -1 && g_bp_creates == 1);
	VERIF_COVER(ret == -1 && g_bp_creates == 0);
}
