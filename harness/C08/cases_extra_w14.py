# C08 (worker w14): lib/util/src/xxhash.c xxh32 - the checksum of every block
# and fragment. C08's own harnesses keep the checksum VALUE uninterpreted
# (dedup is decided on bytes); these harnesses are about the walk over the
# block's bytes (C01: "the packing run itself is free of memory errors") and
# about the hash being a function of the bytes.
FUNCTIONS = [
    "xxh32 (unbounded walk: three loop contracts; bounded functional determinism)",
]
TRUSTED = []
ASSUMPTIONS = [
    "xxh32_safe: len <= 4096 (buffer = malloc(len), contents arbitrary); the hash value itself is not specified",
    "xxh32_fn: len <= 20 (quick), <= 48 (thorough), one case per length",
]

HARNESSES = [
    # mode="dfcc" only selects the dfcc implementation of loop contracts (the
    # classic --apply-loop-contracts pass of cbmc 6.11 refuses do/while loops);
    # no function contract is enforced.
    dict(name="xxh32_safe", file="w14_xxh32_safe.c", label="proved", mode="dfcc", timeout=400,
         loops=["xxh32"], loop_tables=["C08_w14"], native=False,
         must_have=["C08.xxh32.reads_in_range"],
         cases=[dict(id="exact", defines={"XXH_SLACK": 0}, tier="quick"),
                dict(id="slack4", defines={"XXH_SLACK": 4}, tier="quick")]),
    # z3: after its equation solving both hash terms are the same term; SAT
    # (minisat) has to prove two multiplier chains equivalent and did not finish
    # one length in 120 s.
    dict(name="xxh32_fn", file="w14_xxh32_fn.c", label="bounded(len <= 20)", timeout=300,
         solver="z3", object_bits=12, must_have=["C08.xxh32.function_of_bytes"],
         cases=[dict(id="len%d" % n, defines={"XXH_N": max(n, 20), "XXH_LEN": n},
                     unwind=max(n, 20) + 6, tier="quick" if n <= 20 else "thorough",
                     label="bounded(len <= 20)" if n <= 20 else "bounded(len <= 48)")
                for n in range(49)]),
]
