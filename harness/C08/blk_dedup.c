/* C08: deduplicate_blocks (lib/sqfs/src/block_writer.c) on an arbitrary
 * well-formed block history of at most NB entries. The block checksums are
 * uninterpreted: every (size|checksum) word of the history is a free symbolic
 * value, so equal words for different contents ("collisions") occur at will.
 * The byte comparer check_file_range_equal is replaced by a recording stub
 * that *is* its contract (C08.cmp.*, proved in cmp_sound.c): it may answer
 * 0 (equal), 1 (different) or a negative error at every call. The output file
 * is the ghost-size contract of DESIGN section 3.
 *
 *  requires  wf(history): sizes > 0, offset[k] + size[k] <= offset[k+1],
 *            last block ends at or before the file size; file_start <= used;
 *            writer created without HASH_COMPARE_ONLY unless HASH_ONLY=1
 *  ensures   C08.blk.match_needs_compare  ret == 0 and *out != own start ==>
 *               the LAST comparer call returned 0 and was issued with
 *               (own start, *out, sum of the on-disk sizes of the own blocks)
 *            C08.blk.first_candidate      the first history position whose
 *               hash sequence matches is offered to the comparer first
 *            C08.blk.identical_share      a comparer answer 0 ends the search
 *               and that candidate is what is returned (ret == 0 ==> *out ==
 *               its location): identical data still shares storage
 *            C08.blk.no_match_own         no candidate / all candidates differ
 *               ==> *out == own start, nothing truncated, history unchanged
 *            C08.blk.truncate_safe        truncate is called at most once,
 *               only after a successful comparison, with an offset that is
 *               >= *out + total (the shared bytes survive), >= the end of
 *               every retained block, <= the old file size; no block of an
 *               earlier file is dropped from the history
 *            C08.blk.compare_error_propagates  comparer error ==> returned,
 *               no truncate, history unchanged
 *            C08.blk.compare_pre          comparer gets (file, wr->scratch,
 *               SCRATCH_SIZE) and two ranges inside the file
 *            C08.blk.frame                history entries are never modified
 *            C08.blk.dont_dedup_own       DONT_DEDUPLICATE ==> own start, no
 *               comparer call, no truncate (also C17.bp.dont_dedup)
 */
#include <stdlib.h>
#include <string.h>
#include "verif.h"

#ifndef NB
#define NB 4
#endif
#ifndef HASH_ONLY
#define HASH_ONLY 0
#endif

#include "lib/sqfs/src/block_writer.c"

/* ------------------------------------------------------------ environment */
static struct {
	block_writer_default_t wr;
	sqfs_u8 scratch[SCRATCH_SIZE];
} g_w;

static blk_info_t g_blocks[NB];
static sqfs_file_t g_file;
static sqfs_u64 g_fsize;		/* ghost: current file size */

static size_t g_used0, g_fs, g_count;	/* shape of the history at entry */
static sqfs_u64 g_total, g_own_end;	/* sum of the own sizes; own start + sum */

#define SZ(h) (((h) >> 32) & 0xFFFFFFu)
#define END(i) (g_blocks[i].offset + SZ(g_blocks[i].hash))

/* A cut: the fact is first an obligation, then a lemma for what follows.
 * Sound (a violated cut is reported by its assert); it only hands the SAT
 * solver the induction steps of an addition chain that it cannot find by
 * itself in reasonable time (measured: 55 s .. > 100 s per obligation
 * without, < 1 s with). Every cut below is a statement about the harness's
 * own well-formed history, or restates an obligation. */
#define VERIF_CUT(c, name) do { VERIF_ASSERT(c, name); VERIF_ASSUME(c); } while (0)

/* -DC01_NAMES (harness/C01/cases_extra_w4.py): the same facts seen from the
 * packing-fidelity side - what the inode will say (block start = *out, the
 * block sizes of the file) still describes bytes that are in the image */
#ifdef C01_NAMES
#define ALSO_C01(c, name) VERIF_ASSERT(c, name)
#else
#define ALSO_C01(c, name) ((void)0)
#endif

/* position of the earlier block that starts at `loc`, g_fs if none */
static size_t block_at(sqfs_u64 loc)
{
	size_t i, m = g_fs;

	for (i = 0; i < NB; ++i) {
		if (i < g_fs && g_blocks[i].offset == loc)
			m = i;
	}
	return m;
}

/* Lemma about a well-formed history (no repository code involved): if the
 * run of g_count entries at m carries the same (size|checksum) words as the
 * file's own blocks, then offset[m] + sum of the own sizes <= END(m+count-1).
 * Returns offset[m] + sum. */
static sqfs_u64 run_extent_lemma(size_t m)
{
	sqfs_u64 acc = 0;
	size_t mm, j;

	/* case split on the position so that every step has concrete indices */
	for (mm = 0; mm < NB; ++mm) {
		if (mm != m)
			continue;
		acc = g_blocks[mm].offset;
		for (j = 0; j < NB; ++j) {
			if (j < g_count && mm + j < NB) {
				acc += SZ(g_blocks[g_fs + j].hash);
				VERIF_CUT(acc <= END(mm + j),
					  "C08.blk.lemma.run_extent");
			}
		}
	}
	return acc;
}

static bool run_hashes_match(size_t m)
{
	bool all = true;
	size_t j;

	for (j = 0; j < NB; ++j) {
		if (j < g_count &&
		    g_blocks[m + j].hash != g_blocks[g_fs + j].hash)
			all = false;
	}
	return all;
}

static unsigned g_cmp_calls;
static sqfs_u64 g_cmp_a, g_cmp_b, g_cmp_sz, g_cmp_first_b;
static int g_cmp_ret;
static unsigned g_trunc_calls;
static sqfs_u64 g_trunc_sz;
static int g_trunc_ret;

int check_file_range_equal(sqfs_file_t *file, void *scratch, size_t scratch_sz,
			   sqfs_u64 loc_a, sqfs_u64 loc_b, sqfs_u64 size)
{
	int r;

	VERIF_ASSERT(file == &g_file && scratch == (void *)g_w.wr.scratch &&
		     scratch_sz == SCRATCH_SIZE, "C08.blk.compare_pre");
	VERIF_ASSERT(VERIF_W_OK(scratch, scratch_sz), "C08.blk.compare_pre");
	VERIF_ASSERT(!HASH_ONLY, "C08.blk.compare_pre");
	/* what the comparer contract (cmp_sound.c) requires */
	VERIF_ASSERT(loc_a <= UINT64_MAX - size && loc_b <= UINT64_MAX - size,
		     "C08.blk.compare_pre");
	/* the candidate is an earlier run with the same (size|checksum) words;
	 * both ranges lie inside the file */
	{
		size_t m = block_at(loc_b);
		sqfs_u64 end_a, end_b;

		VERIF_CUT(m < g_fs && run_hashes_match(m),
			  "C08.blk.candidate_is_hash_match");
		VERIF_CUT(g_count > 0 && loc_a == g_blocks[g_fs].offset &&
			  size == g_total, "C08.blk.candidate_is_hash_match");
		end_a = g_own_end;	/* own start + total, <= file size (harness) */
		end_b = run_extent_lemma(m);
		VERIF_ASSERT(end_a == loc_a + size && end_b == loc_b + size,
			     "C08.blk.candidate_is_hash_match");
		VERIF_ASSERT(end_a <= g_fsize && end_b <= g_fsize,
			     "C08.blk.compare_in_file");
	}
	/* after an "equal" (or an error) nothing else is tried */
	VERIF_ASSERT(g_cmp_calls == 0 || g_cmp_ret == 1,
		     "C08.blk.identical_share");
	VERIF_ASSERT(g_trunc_calls == 0, "C08.blk.truncate_safe");

	if (g_cmp_calls == 0)
		g_cmp_first_b = loc_b;
	g_cmp_calls += 1;
	g_cmp_a = loc_a;
	g_cmp_b = loc_b;
	g_cmp_sz = size;

	switch (verif_nd_u8("cmp_outcome") % 3) {
	case 0: r = 0; break;
	case 1: r = 1; break;
	default:
		r = verif_nd_int("cmp_err");
		VERIF_ASSUME(r < 0);
		break;
	}
	g_cmp_ret = r;
	return r;
}

static int stub_truncate(sqfs_file_t *file, sqfs_u64 size)
{
	VERIF_ASSERT(file == &g_file, "C08.blk.truncate_safe");
	VERIF_ASSERT(g_trunc_calls == 0, "C08.blk.truncate_safe");
	VERIF_ASSERT(HASH_ONLY || (g_cmp_calls > 0 && g_cmp_ret == 0),
		     "C08.blk.truncate_safe");
	VERIF_ASSERT(size <= g_fsize, "C08.blk.truncate_safe");

	g_trunc_calls += 1;
	g_trunc_sz = size;
	g_trunc_ret = 0;
	if (verif_nd_bool("truncate_fails")) {
		g_trunc_ret = verif_nd_int("truncate_err");
		VERIF_ASSUME(g_trunc_ret < 0);
		return g_trunc_ret;
	}
	g_fsize = size;
	return 0;
}

/* never reached from deduplicate_blocks; targets for the other
 * function-pointer call sites of the translation unit */
void stub_unreachable_destroy(sqfs_object_t *obj)
{
	(void)obj;
	VERIF_ASSERT(0, "C08.blk.frame");
}

sqfs_u64 stub_unreachable_get_size(const sqfs_file_t *file)
{
	(void)file;
	VERIF_ASSERT(0, "C08.blk.frame");
	return 0;
}

int stub_unreachable_write_at(sqfs_file_t *file, sqfs_u64 offset,
				     const void *buffer, size_t size)
{
	(void)file; (void)offset; (void)buffer; (void)size;
	VERIF_ASSERT(0, "C08.blk.frame");
	return 0;
}

void harness(void)
{
	size_t used, fs, count, i, j, k, first_cand;
	sqfs_u64 own, total, out, out0, fsize0;
	blk_info_t wit0;
	sqfs_u32 flags;
	int ret;

	/* arbitrary well-formed writer state */
#ifdef USED
	/* shape concrete (history length, where the file starts), values
	 * symbolic: the driver enumerates every (USED, FS) with FS <= USED <= NB */
	used = USED;
	fs = FS;
#else
	used = verif_nd_size("used");
	fs = verif_nd_size("file_start");
	VERIF_ASSUME(used <= NB && fs <= used);
#endif
	g_fsize = verif_nd_u64("file_size");
	VERIF_ASSUME(g_fsize <= (sqfs_u64)INT64_MAX);
	fsize0 = g_fsize;

	for (i = 0; i < NB; ++i) {
		g_blocks[i].offset = verif_nd_u64("blk_offset");
		g_blocks[i].hash = verif_nd_u64("blk_hash");
	}
	for (i = 0; i < NB; ++i) {
		if (i < used) {
			VERIF_ASSUME(SZ(g_blocks[i].hash) > 0);
			VERIF_ASSUME(g_blocks[i].offset <= g_fsize);
			VERIF_ASSUME(g_blocks[i].offset + SZ(g_blocks[i].hash) <=
				     g_fsize);
		}
		if (i + 1 < NB && i + 1 < used)
			VERIF_ASSUME(g_blocks[i].offset + SZ(g_blocks[i].hash) <=
				     g_blocks[i + 1].offset);
	}

	g_w.wr.file = &g_file;
	g_w.wr.blocks.size = sizeof(blk_info_t);
	g_w.wr.blocks.count = NB;
	g_w.wr.blocks.used = used;
	g_w.wr.blocks.data = g_blocks;
	g_w.wr.file_start = fs;
	g_w.wr.flags = HASH_ONLY ? SQFS_BLOCK_WRITER_HASH_COMPARE_ONLY : 0;
	g_file.truncate = stub_truncate;

	flags = verif_nd_u32("flags");
	out0 = verif_nd_u64("out0");
	out = out0;

	/* specification values, computed independently of the code */
	count = used - fs;
	g_used0 = used;
	g_fs = fs;
	g_count = count;
	own = count > 0 ? g_blocks[fs].offset : 0;
	total = 0;
	for (j = 0; j < NB; ++j) {
		if (j < count)
			total += SZ(g_blocks[fs + j].hash);
	}
	first_cand = fs;
	for (i = NB; i-- > 0; ) {
		if (i < fs) {
			bool all = true;
			for (j = 0; j < NB; ++j) {
				if (j < count &&
				    g_blocks[i + j].hash != g_blocks[fs + j].hash)
					all = false;
			}
			if (all)
				first_cand = i;
		}
	}
	g_total = total;
	g_own_end = 0;
	if (count > 0) {
		g_own_end = run_extent_lemma(fs);
		VERIF_CUT(g_own_end == own + total && g_own_end <= g_fsize,
			  "C08.blk.lemma.run_extent");
	}
	k = verif_nd_size("witness_k");
	VERIF_ASSUME(k < NB);
	wit0 = g_blocks[k];

	ret = deduplicate_blocks(&g_w.wr, flags, &out);

	/* ---------------------------------------------------------------- */
	VERIF_ASSERT(g_blocks[k].offset == wit0.offset &&
		     g_blocks[k].hash == wit0.hash, "C08.blk.frame");
	VERIF_ASSERT(g_w.wr.file_start == fs && g_w.wr.blocks.data == g_blocks &&
		     g_w.wr.blocks.count == NB && g_w.wr.file == &g_file,
		     "C08.blk.frame");
	VERIF_ASSERT(g_w.wr.blocks.used <= used, "C08.blk.frame");

	if (count == 0) {
		VERIF_ASSERT(ret == 0 && out == 0 && g_cmp_calls == 0 &&
			     g_trunc_calls == 0 && g_w.wr.blocks.used == used,
			     "C08.blk.empty_file");
	} else if (flags & SQFS_BLK_DONT_DEDUPLICATE) {
		VERIF_ASSERT(ret == 0 && out == own && g_cmp_calls == 0 &&
			     g_trunc_calls == 0 && g_w.wr.blocks.used == used,
			     "C08.blk.dont_dedup_own");
	} else {
#if !HASH_ONLY
		if (ret == 0 && out != own) {
			VERIF_ASSERT(g_cmp_calls > 0 && g_cmp_ret == 0,
				     "C08.blk.match_needs_compare");
			VERIF_ASSERT(g_cmp_a == own && g_cmp_b == out &&
				     g_cmp_sz == total,
				     "C08.blk.match_needs_compare");
			ALSO_C01(g_cmp_calls > 0 && g_cmp_ret == 0 && g_cmp_a == own &&
				 g_cmp_b == out && g_cmp_sz == total,
				 "C01.blocks.start_after_dedup");
		}
		if (ret == 0 && out == own)
			ALSO_C01(g_trunc_calls == 0 && g_w.wr.blocks.used == used &&
				 g_fsize == fsize0, "C01.blocks.start_after_dedup");

		if (first_cand < fs) {
			VERIF_ASSERT(g_cmp_calls > 0 &&
				     g_cmp_first_b == g_blocks[first_cand].offset,
				     "C08.blk.first_candidate");
		} else {
			VERIF_ASSERT(g_cmp_calls == 0, "C08.blk.first_candidate");
		}
		if (g_cmp_calls > 0)
			VERIF_ASSERT(g_cmp_a == own && g_cmp_sz == total,
				     "C08.blk.first_candidate");

		if (g_cmp_calls > 0 && g_cmp_ret == 0) {
			VERIF_ASSERT(g_trunc_calls == 1 && ret == g_trunc_ret,
				     "C08.blk.identical_share");
			VERIF_ASSERT(out == g_cmp_b && out != own,
				     "C08.blk.identical_share");
		}

		if (g_cmp_calls == 0 || g_cmp_ret == 1) {
			VERIF_ASSERT(ret == 0 && out == own && g_trunc_calls == 0 &&
				     g_w.wr.blocks.used == used && g_fsize == fsize0,
				     "C08.blk.no_match_own");
		}

		if (g_cmp_calls > 0 && g_cmp_ret < 0) {
			VERIF_ASSERT(ret == g_cmp_ret && g_trunc_calls == 0 &&
				     g_w.wr.blocks.used == used && out == out0,
				     "C08.blk.compare_error_propagates");
		}
#else
		/* hash-only writer (API option, not used by the tools): the
		 * comparer is never called; only memory safety and the truncate
		 * bounds are claimed */
		VERIF_ASSERT(g_cmp_calls == 0, "C08.blk.compare_pre");
#endif
		if (g_trunc_calls > 0) {
			size_t nu = g_w.wr.blocks.used;
			size_t m = block_at(out);
			sqfs_u64 end;

			/* the returned location starts an earlier, hash-matching
			 * run; that run and every earlier file's blocks stay in
			 * the history; the file is cut exactly at the end of the
			 * last retained block */
			VERIF_CUT(m < fs && run_hashes_match(m),
				  "C08.blk.truncate_safe");
			VERIF_CUT(nu >= fs && nu <= used && nu >= m + count,
				  "C08.blk.truncate_safe");
			VERIF_CUT(g_trunc_sz == END(nu - 1), "C08.blk.truncate_safe");
			/* hence the shared bytes survive ... */
			end = run_extent_lemma(m);
			for (i = 0; i + 1 < NB; ++i) {
				if (i >= m + count - 1 && i + 1 < nu)
					VERIF_CUT(END(m + count - 1) <= END(i + 1),
						  "C08.blk.lemma.ends_monotone");
			}
			VERIF_ASSERT(end == out + total && end <= g_trunc_sz,
				     "C08.blk.truncate_safe");
			/* C01: the run the inode now points at is still in the
			 * history and inside the (shortened) file */
			ALSO_C01(m < fs && nu >= m + count && out == g_blocks[m].offset &&
				 end == out + total && end <= g_trunc_sz &&
				 g_trunc_sz == END(nu - 1),
				 "C01.blocks.dedup_keeps_data");
			/* ... and so does every retained block (witness k) */
			if (k < nu)
				VERIF_ASSERT(END(k) <= g_trunc_sz,
					     "C08.blk.truncate_safe");
			VERIF_ASSERT(g_trunc_sz <= fsize0, "C08.blk.truncate_safe");
		}
	}

#ifdef USED
#define CV_COUNT (USED - FS)
#define CV_FS FS
#else
#define CV_COUNT 2	/* symbolic shape: everything below is reachable for NB >= 4 */
#define CV_FS 2
	VERIF_COVER(count == 0);
#endif
#if CV_COUNT == 0
	VERIF_COVER(ret == 0);
#else
	VERIF_COVER(flags & SQFS_BLK_DONT_DEDUPLICATE);
	VERIF_COVER(ret == 0 && out == own && !(flags & SQFS_BLK_DONT_DEDUPLICATE));
#if CV_FS >= 1
	VERIF_COVER(ret == 0 && out != own);
	VERIF_COVER(ret < 0 && g_trunc_calls == 1);
#if !HASH_ONLY
	VERIF_COVER(ret < 0 && g_trunc_calls == 0);
#endif
#endif
#if CV_FS >= 2 && !HASH_ONLY
	VERIF_COVER(g_cmp_calls == 2 && g_cmp_ret == 0);
	VERIF_COVER(g_cmp_calls == 2 && g_cmp_ret == 1 && ret == 0);
#endif
#if CV_FS >= 1 && CV_COUNT >= 2
	/* match overlapping the file's own blocks */
	VERIF_COVER(ret == 0 && out != own && g_w.wr.blocks.used > fs);
#endif
#endif
}
