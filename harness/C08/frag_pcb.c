/* C08: process_completed_block (lib/sqfs/src/block_processor/backend.c) for
 * fragment blocks: hand-over from "bytes live in the in-flight copy" to
 * "bytes are found through the fragment table on disk".
 *
 * Shape: NFL = length of the in-flight list (0..3), POS = position of the
 * entry carrying the block's index (POS == NFL: none). Other entries carry
 * arbitrary other indices. blk->inode is NULL (fragment blocks and manual
 * submissions; the inode bookkeeping of data blocks is C01/C03/C17).
 *
 *  ensures  C08.frag.inflight_removed   FRAGMENT_BLOCK: exactly the first
 *              in-flight entry with the block's index is unlinked and freed,
 *              every other entry stays, in order; any other block leaves the
 *              list untouched
 *           C08.frag.table_set_after_write  FRAGMENT_BLOCK, non-empty, write
 *              succeeded ==> sqfs_frag_table_set(tbl, blk->index, location
 *              reported by the writer, size | uncompressed bit) was called
 *              after the write - from then on load_frag_block finds the bytes
 *           C08.frag.write_args         the writer receives the block's size,
 *              checksum, data and its flags without the internal bit
 *           C08.frag.write_error_propagates  writer / table error is returned
 */
#include "bp_env.h"

#ifndef NFL
#define NFL 2
#endif
#ifndef POS
#define POS 1
#endif

static void c08_free(void *p);
#define free c08_free
#include "lib/sqfs/src/block_processor/backend.c"
#undef free

static blk_t g_blk;
static blk_t *g_fl[3];
static sqfs_block_writer_t g_wr;

static unsigned g_free_calls, g_write_calls, g_set_calls;
static void *g_freed;
static sqfs_u64 g_location;
static int g_write_ret, g_set_ret;
static sqfs_u32 g_w_size, g_w_checksum, g_w_flags;
static const sqfs_u8 *g_w_data;
static sqfs_u32 g_set_index, g_set_size;
static sqfs_u64 g_set_location;

static void c08_free(void *p)
{
	VERIF_ASSERT(p != NULL && g_write_calls == 0, "C08.frag.inflight_removed");
	g_free_calls += 1;
	g_freed = p;
	free(p);
}

int stub_write_data_block(sqfs_block_writer_t *wr, void *user, sqfs_u32 size,
			  sqfs_u32 checksum, sqfs_u32 flags,
			  const sqfs_u8 *data, sqfs_u64 *location)
{
	(void)user;
	VERIF_ASSERT(wr == &g_wr && VERIF_W_OK(location, sizeof(*location)) &&
		     VERIF_R_OK(data, size), "C08.frag.write_args");
	g_write_calls += 1;
	g_w_size = size;
	g_w_checksum = checksum;
	g_w_flags = flags;
	g_w_data = data;
	g_write_ret = 0;
	if (verif_nd_bool("write_fails")) {
		g_write_ret = verif_nd_int("write_err");
		VERIF_ASSUME(g_write_ret < 0);
		return g_write_ret;
	}
	g_location = verif_nd_u64("location");
	*location = g_location;
	return 0;
}

int sqfs_frag_table_set(sqfs_frag_table_t *tbl, sqfs_u32 index,
			sqfs_u64 location, sqfs_u32 size)
{
	VERIF_ASSERT(tbl == G_FRAG_TBL, "C08.frag.table_set_after_write");
	VERIF_ASSERT(g_write_calls == 1 && g_write_ret == 0,
		     "C08.frag.table_set_after_write");
	g_set_calls += 1;
	g_set_index = index;
	g_set_location = location;
	g_set_size = size;
	g_set_ret = 0;
	if (verif_nd_bool("table_set_fails")) {
		g_set_ret = verif_nd_int("table_set_err");
		VERIF_ASSUME(g_set_ret < 0);
	}
	return g_set_ret;
}

/* not reached with blk->inode == NULL / from this entry point */
int sqfs_inode_make_extended(sqfs_inode_generic_t *inode)
{
	(void)inode;
	VERIF_ASSERT(0, "C08.env.unreachable");
	return 0;
}

int sqfs_inode_set_file_block_start(sqfs_inode_generic_t *inode, sqfs_u64 loc)
{
	(void)inode; (void)loc;
	VERIF_ASSERT(0, "C08.env.unreachable");
	return 0;
}

int sqfs_inode_set_frag_location(sqfs_inode_generic_t *inode, sqfs_u32 index,
				 sqfs_u32 offset)
{
	(void)inode; (void)index; (void)offset;
	VERIF_ASSERT(0, "C08.env.unreachable");
	return 0;
}

int sqfs_frag_table_append(sqfs_frag_table_t *tbl, sqfs_u64 location,
			   sqfs_u32 size, sqfs_u32 *index)
{
	(void)tbl; (void)location; (void)size; (void)index;
	VERIF_ASSERT(0, "C08.env.unreachable");
	return 0;
}

struct hash_entry *hash_table_search_pre_hashed(struct hash_table *ht,
						sqfs_u32 hash, const void *key)
{
	(void)ht; (void)hash; (void)key;
	VERIF_ASSERT(0, "C08.env.unreachable");
	return NULL;
}

struct hash_entry *hash_table_insert_pre_hashed(struct hash_table *ht,
						sqfs_u32 hash, const void *key,
						void *data)
{
	(void)ht; (void)hash; (void)key; (void)data;
	VERIF_ASSERT(0, "C08.env.unreachable");
	return NULL;
}

int enqueue_block(sqfs_block_processor_t *proc, sqfs_block_t *blk)
{
	(void)proc; (void)blk;
	VERIF_ASSERT(0, "C08.env.unreachable");
	return 0;
}

void *stub_pool_dequeue(thread_pool_t *pool)
{
	(void)pool;
	VERIF_ASSERT(0, "C08.env.unreachable");
	return NULL;
}

int stub_pool_get_status(thread_pool_t *pool)
{
	(void)pool;
	VERIF_ASSERT(0, "C08.env.unreachable");
	return 0;
}

bool stub_chunk_equals(void *user, const void *k, const void *c)
{
	(void)user; (void)k; (void)c;
	VERIF_ASSERT(0, "C08.env.unreachable");
	return false;
}

void harness(void)
{
	sqfs_u32 flags, size, index, checksum;
	size_t backlog0;
	sqfs_block_t *exp[3];
	int i, n, ret;

	g_free_calls = g_write_calls = g_set_calls = 0;
	g_freed = NULL;
	g_write_ret = g_set_ret = 0;

	g_p.proc.max_block_size = BS;
	g_p.proc.file = &g_file;
	g_p.proc.uncmp = &g_uncmp;
	g_p.proc.frag_tbl = G_FRAG_TBL;
	g_p.proc.wr = &g_wr;
	g_wr.write_data_block = stub_write_data_block;
	g_p.proc.free_list = NULL;
	g_p.proc.backlog = verif_nd_size("backlog");
	VERIF_ASSUME(g_p.proc.backlog >= 1 && g_p.proc.backlog < 1000);
	backlog0 = g_p.proc.backlog;
	g_p.proc.stats.output_bytes_generated = 0;
	g_p.proc.stats.frag_block_count = 0;
	g_p.proc.stats.data_block_count = 0;
	g_p.proc.stats.sparse_block_count = 0;

	blk_nd_header(&g_blk, "blk");
	VERIF_ASSUME(g_blk.b.size <= BS);
	flags = g_blk.b.flags;
	size = g_blk.b.size;
	index = g_blk.b.index;
	checksum = g_blk.b.checksum;

	/* in-flight list: heap nodes (they get freed) */
	g_p.proc.fblk_in_flight = NULL;
	for (i = NFL; i-- > 0; ) {
		g_fl[i] = malloc(sizeof(blk_t));
		VERIF_ASSUME(g_fl[i] != NULL);
		blk_nd_header(g_fl[i], "in_flight");
		if (i == POS)
			g_fl[i]->b.index = index;
		else if (i < POS)
			VERIF_ASSUME(g_fl[i]->b.index != index);
		g_fl[i]->b.next = g_p.proc.fblk_in_flight;
		g_p.proc.fblk_in_flight = &g_fl[i]->b;
	}

	ret = process_completed_block(&g_p.proc, &g_blk.b);

	/* ---------------------------------------------------------------- */
	/* expected list */
	n = 0;
	for (i = 0; i < NFL; ++i) {
		if ((flags & SQFS_BLK_FRAGMENT_BLOCK) && i == POS)
			continue;
		exp[n++] = &g_fl[i]->b;
	}
	if ((flags & SQFS_BLK_FRAGMENT_BLOCK) && POS < NFL)
		VERIF_ASSERT(g_free_calls == 1 && g_freed == (void *)g_fl[POS],
			     "C08.frag.inflight_removed");
	else
		VERIF_ASSERT(g_free_calls == 0, "C08.frag.inflight_removed");
	{
		sqfs_block_t *it = g_p.proc.fblk_in_flight;

		for (i = 0; i < 3; ++i) {
			if (i < n) {
				VERIF_ASSERT(it == exp[i], "C08.frag.inflight_removed");
				it = it->next;
			}
		}
		VERIF_ASSERT(it == NULL, "C08.frag.inflight_removed");
	}

	VERIF_ASSERT(g_write_calls == 1, "C08.frag.write_args");
	VERIF_ASSERT(g_w_size == size && g_w_checksum == checksum &&
		     g_w_data == g_blk.b.data &&
		     g_w_flags == (flags & ~(sqfs_u32)BLK_FLAG_INTERNAL),
		     "C08.frag.write_args");

	if (g_write_ret != 0)
		VERIF_ASSERT(ret == g_write_ret && g_set_calls == 0,
			     "C08.frag.write_error_propagates");

	if ((flags & SQFS_BLK_FRAGMENT_BLOCK) && !(flags & SQFS_BLK_IS_SPARSE) &&
	    size != 0 && g_write_ret == 0) {
		sqfs_u32 sz = size;

		if (!(flags & SQFS_BLK_IS_COMPRESSED))
			sz |= 1 << 24;
		VERIF_ASSERT(g_set_calls == 1 && g_set_index == index &&
			     g_set_location == g_location && g_set_size == sz,
			     "C08.frag.table_set_after_write");
		VERIF_ASSERT(ret == g_set_ret, "C08.frag.write_error_propagates");
	} else {
		VERIF_ASSERT(g_set_calls == 0, "C08.frag.table_set_after_write");
	}
	if (g_write_ret == 0 && g_set_ret == 0)
		VERIF_ASSERT(ret == 0, "C08.frag.write_error_propagates");

	VERIF_ASSERT(g_p.proc.free_list == &g_blk.b &&
		     g_p.proc.backlog == backlog0 - 1, "C08.frag.frame");

	VERIF_COVER(ret == 0 && (flags & SQFS_BLK_FRAGMENT_BLOCK) && g_set_calls == 1);
	VERIF_COVER(ret == 0 && !(flags & SQFS_BLK_FRAGMENT_BLOCK));
	VERIF_COVER(ret != 0 && g_write_ret != 0);
	VERIF_COVER(ret != 0 && g_set_ret != 0);
#if POS < NFL
	VERIF_COVER(g_free_calls == 1);
#endif
}
