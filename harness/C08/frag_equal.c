/* C08: chunk_info_equals (lib/sqfs/src/block_processor/block_processor.c),
 * the equality callback of the fragment hash table, together with its
 * loop-free helper load_frag_block. Checksums are uninterpreted: key and
 * candidate are free symbolic (index, offset, size, hash) records, so "same
 * size and hash, different bytes" is just one of the explored cases.
 *
 * Shape (driver case split): NFL = length of the in-flight list (0..3),
 * HAVE_FB = a fragment block is currently being filled, CACHE = 0 no cached
 * block yet / 1 a block is cached. Values (indices, sizes, offsets, flags,
 * table answers, every environment failure) are symbolic.
 * MODE = 0: byte comparison enabled (file, uncompressor, table, current
 * fragment present - what the tools configure, see init.c harness);
 * MODE = 1: one of them is missing (API option "hash only").
 *
 *  ensures  C08.frag.equal_needs_memcmp   result true ==> memcmp was called
 *              exactly once, returned 0, and was called with
 *              (it->data + cmp->offset, current_frag->data, cmp->size) where
 *              `it` is the block with index cmp->index taken from the
 *              in-flight list (first hit), else the current fragment block,
 *              else the cache after a successful load of that index;
 *              and cmp->size == key->size == current_frag->size
 *           C08.frag.compare_in_bounds    proved before the call:
 *              cmp->offset + cmp->size <= it->size <= capacity of it->data
 *           C08.frag.lookup_error_propagates  a failing environment call
 *              (allocation, table lookup, read, uncompress) or an
 *              inconsistent candidate ==> result false and fblk_lookup_error
 *              holds the error; a pending error ==> false without comparing
 *           C08.frag.false_only_if_differ  result false with no error ==>
 *              size/hash differ or memcmp returned != 0 (identical fragments
 *              are still shared)
 *           C08.frag.hash_only_mode       without file/uncompressor/table
 *              the answer is size+hash equality and nothing is read
 *           C08.frag.frame                lists, blocks and key/candidate are
 *              not modified
 */
#include "bp_env.h"

#ifndef NFL
#define NFL 2
#endif
#ifndef HAVE_FB
#define HAVE_FB 1
#endif
#ifndef CACHE
#define CACHE 1
#endif
#ifndef MODE
#define MODE 0
#endif

#define memcmp c08_memcmp
#include "lib/sqfs/src/block_processor/block_processor.c"
#undef memcmp

static blk_t g_fl[3], g_fb, g_cache, g_cur;

void harness(void)
{
	chunk_info_t key, cmp, key0, cmp0;
	sqfs_block_t *exp_it = NULL, *it;
	int err0, i;
	bool res;

	/* ---- arbitrary processor state of the given shape ---- */
	g_p.proc.max_block_size = BS;
	g_p.proc.file = &g_file;
	g_p.proc.uncmp = &g_uncmp;
	g_p.proc.frag_tbl = G_FRAG_TBL;
	g_file.read_at = stub_read_at;
	g_uncmp.do_block = stub_do_block;

	blk_nd_header(&g_cur, "cur");
	VERIF_ASSUME(g_cur.b.size <= BS);
	g_p.proc.current_frag = &g_cur.b;

#if MODE == 1
	switch (verif_nd_u8("missing") % 4) {
	case 0: g_p.proc.file = NULL; break;
	case 1: g_p.proc.uncmp = NULL; break;
	case 2: g_p.proc.frag_tbl = NULL; break;
	default: g_p.proc.current_frag = NULL; break;
	}
#endif

	for (i = 0; i < 3; ++i) {
		blk_nd_header(&g_fl[i], "in_flight");
		/* enqueue_block allocates exactly `size` payload bytes */
		VERIF_ASSUME(g_fl[i].b.size <= BS);
	}
	g_p.proc.fblk_in_flight = NULL;
#if NFL >= 1
	g_p.proc.fblk_in_flight = &g_fl[0].b;
#endif
#if NFL >= 2
	g_fl[0].b.next = &g_fl[1].b;
#endif
#if NFL >= 3
	g_fl[1].b.next = &g_fl[2].b;
#endif

	blk_nd_header(&g_fb, "frag_block");
	VERIF_ASSUME(g_fb.b.size <= BS);
	g_p.proc.frag_block = HAVE_FB ? &g_fb.b : NULL;

	blk_nd_header(&g_cache, "cache");
	VERIF_ASSUME(g_cache.b.size <= BS);
	g_p.proc.cached_frag_blk = CACHE ? &g_cache.b : NULL;

	g_p.proc.fblk_lookup_error = verif_nd_bool("pending_error") ?
		verif_nd_int("pending") : 0;
	err0 = g_p.proc.fblk_lookup_error;

	key.index = verif_nd_u32("key");
	key.offset = verif_nd_u32("key");
	key.size = verif_nd_u32("key");
	key.hash = verif_nd_u32("key");
	cmp.index = verif_nd_u32("cmp");
	cmp.offset = verif_nd_u32("cmp");
	cmp.size = verif_nd_u32("cmp");
	cmp.hash = verif_nd_u32("cmp");
	key0 = key;
	cmp0 = cmp;

	/* ---- specification: where do the candidate's bytes live? ---- */
	for (i = NFL; i-- > 0; ) {
		if (g_fl[i].b.index == cmp.index)
			exp_it = &g_fl[i].b;
	}
	if (exp_it == NULL && HAVE_FB && g_fb.b.index == cmp.index)
		exp_it = &g_fb.b;
	/* exp_it == NULL: must come from the cache / disk */

	res = chunk_info_equals(&g_p.proc, &key, &cmp);

	/* ---------------------------------------------------------------- */
	VERIF_ASSERT(key.index == key0.index && key.offset == key0.offset &&
		     key.size == key0.size && key.hash == key0.hash &&
		     cmp.index == cmp0.index && cmp.offset == cmp0.offset &&
		     cmp.size == cmp0.size && cmp.hash == cmp0.hash,
		     "C08.frag.frame");
	VERIF_ASSERT(g_p.proc.fblk_in_flight == (NFL ? &g_fl[0].b : NULL) &&
		     g_p.proc.frag_block == (HAVE_FB ? &g_fb.b : NULL) &&
		     g_fl[0].b.next == (NFL >= 2 ? &g_fl[1].b : NULL) &&
		     g_fl[1].b.next == (NFL >= 3 ? &g_fl[2].b : NULL) &&
		     g_fl[2].b.next == NULL, "C08.frag.frame");

	if (res)
		VERIF_ASSERT(key0.size == cmp0.size && key0.hash == cmp0.hash,
			     "C08.frag.equal_needs_hash_size");

#if MODE == 1
	VERIF_ASSERT(res == (key0.size == cmp0.size && key0.hash == cmp0.hash),
		     "C08.frag.hash_only_mode");
	VERIF_ASSERT(g_memcmp_calls == 0 && g_read_calls == 0 &&
		     g_lookup_calls == 0 && g_alloc_calls == 0 &&
		     g_p.proc.fblk_lookup_error == err0,
		     "C08.frag.hash_only_mode");
	VERIF_COVER(res);
	VERIF_COVER(!res);
#else
	it = exp_it != NULL ? exp_it : g_p.proc.cached_frag_blk;

	if (res) {
		VERIF_ASSERT(g_memcmp_calls == 1 && g_memcmp_ret == 0,
			     "C08.frag.equal_needs_memcmp");
		VERIF_ASSERT(it != NULL && it->index == cmp0.index,
			     "C08.frag.equal_needs_memcmp");
		VERIF_ASSERT(g_memcmp_a == (const void *)(it->data + cmp0.offset) &&
			     g_memcmp_b == (const void *)g_cur.b.data &&
			     g_memcmp_n == cmp0.size,
			     "C08.frag.equal_needs_memcmp");
		VERIF_ASSERT(cmp0.size == g_cur.b.size,
			     "C08.frag.equal_needs_memcmp");
		VERIF_ASSERT(err0 == 0 && g_p.proc.fblk_lookup_error == 0 &&
			     g_fault_count == 0,
			     "C08.frag.lookup_error_propagates");
	}

	if (g_memcmp_calls > 0) {
		VERIF_ASSERT(g_memcmp_calls == 1 && it != NULL &&
			     g_memcmp_a == (const void *)(it->data + cmp0.offset) &&
			     g_memcmp_n == cmp0.size,
			     "C08.frag.equal_needs_memcmp");
		VERIF_ASSERT((sqfs_u64)cmp0.offset + cmp0.size <= it->size &&
			     it->size <= BS && cmp0.size <= g_cur.b.size,
			     "C08.frag.compare_in_bounds");
		VERIF_ASSERT(res == (g_memcmp_ret == 0),
			     "C08.frag.equal_needs_memcmp");
	}

	/* the cache is consulted only when no in-memory copy exists */
	if (exp_it != NULL)
		VERIF_ASSERT(g_lookup_calls == 0 && g_read_calls == 0 &&
			     g_alloc_calls == 0 && g_unc_calls == 0,
			     "C08.frag.memory_copy_first");

	if (err0 != 0) {
		VERIF_ASSERT((!res || key0.size != cmp0.size ||
			      key0.hash != cmp0.hash) && g_memcmp_calls == 0 &&
			     g_p.proc.fblk_lookup_error == err0,
			     "C08.frag.lookup_error_propagates");
		VERIF_ASSERT(!res, "C08.frag.lookup_error_propagates");
	}
	if (g_fault_count > 0) {
		VERIF_ASSERT(!res && g_memcmp_calls == 0 && g_fault_count == 1 &&
			     g_p.proc.fblk_lookup_error != 0 &&
			     (g_fault == 0 || g_p.proc.fblk_lookup_error == g_fault),
			     "C08.frag.lookup_error_propagates");
	}
	if (!res && g_p.proc.fblk_lookup_error == 0) {
		VERIF_ASSERT(key0.size != cmp0.size || key0.hash != cmp0.hash ||
			     (g_memcmp_calls == 1 && g_memcmp_ret != 0),
			     "C08.frag.false_only_if_differ");
	}
	if (!res && err0 == 0 && g_p.proc.fblk_lookup_error != 0) {
		/* a new error: environment fault or inconsistent candidate */
		VERIF_ASSERT(g_fault_count == 1 ||
			     g_p.proc.fblk_lookup_error == SQFS_ERROR_CORRUPTED,
			     "C08.frag.lookup_error_propagates");
		if (g_fault_count == 0)
			VERIF_ASSERT((g_lookup_calls == 1 &&
				      SQFS_ON_DISK_BLOCK_SIZE(g_lookup_info.size) > BS) ||
				     (it != NULL &&
				      ((sqfs_u64)cmp0.offset + cmp0.size > it->size ||
				       cmp0.offset >= it->size ||
				       cmp0.size != g_cur.b.size)),
				     "C08.frag.lookup_error_propagates");
	}

	VERIF_COVER(res);
	VERIF_COVER(!res && g_memcmp_calls == 1);
	VERIF_COVER(!res && g_p.proc.fblk_lookup_error == SQFS_ERROR_CORRUPTED &&
		    err0 == 0);
	VERIF_COVER(res && exp_it == NULL);
	VERIF_COVER(g_fault_count == 1);
#if NFL >= 2
	VERIF_COVER(res && exp_it == &g_fl[1].b);
#endif
#if HAVE_FB
	VERIF_COVER(res && exp_it == &g_fb.b);
#endif
#if CACHE
	VERIF_COVER(res && exp_it == NULL && g_lookup_calls == 0);
	VERIF_COVER(res && exp_it == NULL && g_unc_calls == 1);
#else
	VERIF_COVER(res && g_alloc_calls == 1);
#endif
#endif
}
