PROPERTY = "C08"
LEVEL = "proof"
FUNCTIONS = ["check_file_range_equal"]
TRUSTED = []
ASSUMPTIONS = []
EXPLANATION = ""

HARNESSES = [
    dict(name="cmp_sound", file="cmp_sound.c", loops=["check_file_range_equal"],
         label="proved", timeout=600, fp={"read_at": "stub_read_at"},
         cases=[dict(id="scr8192", defines={"SCR": 8192}, tier="quick")]),
]
