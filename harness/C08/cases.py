PROPERTY = "C08"
LEVEL = "proof"
FUNCTIONS = ["check_file_range_equal"]
TRUSTED = []
ASSUMPTIONS = []
EXPLANATION = ""

HARNESSES = [
    dict(name="cmp_sound", file="cmp_sound.c", loops=["check_file_range_equal"],
         label="proved", timeout=20, fp={"read_at": "stub_read_at"},
         cases=[dict(id="scr8192", defines={"SCR": 8192}, tier="quick")]),
    dict(name="blk_dedup", file="blk_dedup.c", label="bounded(blocks<=4)", timeout=15,
         fp={"truncate": "stub_truncate", "destroy": "stub_unreachable_destroy",
             "get_size": "stub_unreachable_get_size", "write_at": "stub_unreachable_write_at"},
         cases=[dict(id="u%df%d" % (u, f), defines={"NB": 6, "USED": u, "FS": f}, unwind=7, tier="quick") for u,f in ((6,3),(6,2),(5,1),(4,2))]),
]
