PROPERTY = "C08"
LEVEL = "proof"
FUNCTIONS = ["check_file_range_equal"]
TRUSTED = []
ASSUMPTIONS = []
EXPLANATION = ""

_BW_FP = {"truncate": "stub_truncate", "destroy": "stub_unreachable_destroy",
          "get_size": "stub_unreachable_get_size", "write_at": "stub_unreachable_write_at"}


_BP_FP = {"read_at": "stub_read_at", "do_block": "stub_do_block",
          "*": "stub_unreachable_destroy"}


def _shapes(nb, tier, label):
    """every (history length, file start) with FS <= USED <= nb"""
    return [dict(id="u%df%d" % (u, f), defines={"NB": nb, "USED": u, "FS": f},
                 unwind=nb + 1, tier=tier, label=label, weight=(u - f) * f + 1)
            for u in range(0, nb + 1) for f in range(0, u + 1)]


HARNESSES = [
    dict(name="cmp_sound", file="cmp_sound.c", loops=["check_file_range_equal"],
         label="proved", timeout=300, fp={"read_at": "stub_read_at"},
         cases=[dict(id="scr8192", defines={"SCR": 8192}, tier="quick")]),
    dict(name="cmp_bounded", file="cmp_sound.c", label="bounded(chunks<=3)", timeout=300,
         fp={"read_at": "stub_read_at"},
         cases=[dict(id="chunks3", defines={"SCR": 8, "BOUNDED_CHUNKS": 3}, unwind=4, tier="quick")]),
    dict(name="blk_dedup", file="blk_dedup.c", label="bounded(blocks<=4)", timeout=900,
         fp=_BW_FP, cases=_shapes(4, "quick", "bounded(blocks<=4)") +
                         [c for c in _shapes(6, "thorough", "bounded(blocks<=6)")
                          if c["defines"]["USED"] > 4]),
    dict(name="frag_equal", file="frag_equal.c", label="bounded(in-flight list<=3)", timeout=120,
         fp=_BP_FP,
         cases=[dict(id="fl2_fb1_c1", defines={"NFL": 2, "HAVE_FB": 1, "CACHE": 1, "MODE": 0, "BS": 4096}, tier="quick")]),
    dict(name="ht_search", file="ht_search.c", label="bounded(table size<=7)", timeout=150, object_bits=10,
         mode="dfcc", replace=["util_fast_urem32"], cover=False,
         fp={"key_equals_function": "stub_equals", "key_hash_function": "stub_hash",
             "delete_function": "stub_delete"},
         cases=[dict(id="si%d_%s" % (si, "search" if op == 0 else "insert"),
                     defines={"SI": si, "OP": op}, unwind=(6 if si == 0 else 8), tier="quick")
                for si in (0, 1) for op in (0, 1)]),
]
