PROPERTY = "C08"
# The comparer (unbounded loop contract), the configuration lemma and the
# loop-free cache/in-flight functions are proved; the decision logic that walks
# the block history / the in-flight list / the hash table is bounded symbolic
# execution over every shape up to the stated length. The core is therefore
# reported as model checking, not as a proof.
LEVEL = "model_checking"
FUNCTIONS = [
    "check_file_range_equal",
    "deduplicate_blocks", "store_block_location", "write_data_block",
    "chunk_info_equals", "load_frag_block",
    "process_completed_fragment (lookup/insert part)",
    "process_completed_block (fragment block hand-over)",
    "enqueue_block (in-flight copy)",
    "hash_table_search_pre_hashed", "hash_table_insert_pre_hashed",
    "sqfs_writer_init (block writer / block processor configuration)",
    "sqfs_block_processor_create_ex", "sqfs_block_writer_create",
]
TRUSTED = [
    "checksums are uninterpreted: every (size|checksum) word, chunk hash and xxh32 result is a free symbolic value, so equal words for different bytes occur in every harness",
    "sqfs_file_t.read_at (cmp_sound): requires a writable buffer, returns 0 and delivers the file's bytes (witness offset/value pair: the same byte for the same offset) or a negative error; get_size/write_at/truncate (blk_*): ghost file size, write_at extends it, truncate sets it, each may fail",
    "memcmp returns 0 only if the buffers agree (stated on the witness position); payload memcpy/memcmp are checking stubs (r_ok/w_ok, arguments recorded), the bytes themselves are not interpreted",
    "check_file_range_equal as seen by deduplicate_blocks = its contract C08.cmp.* (answers 0, 1 or a negative error; proved in cmp_sound)",
    "array_append (blk_wdb): stores the element at position `used` or fails",
    "fragment hash table as seen by process_completed_fragment = the contract C08.ht.* (an existing entry is handed back only after the equality callback answered true for it; proved on the real hash_table.c for table sizes 5 and 7 in ht_search)",
    "chunk_info_equals as seen by the hash table contract in frag_pcf: answers true/false or records a lookup error and answers false (its obligations are frag_equal's)",
    "util_fast_urem32(n, d, REMAINDER_MAGIC(d)) == n % d (ht_search, --replace-call-with-contract; the function asserts this itself)",
    "sqfs_frag_table_lookup/append/set, compressor do_block (uncompress: any r <= outsize, <= 0 on failure), alloc_flex (zeroed block header or NULL), thread pool submit/get_status, the constructors called by sqfs_writer_init: arbitrary result within their documented domain, every call may fail",
    "CBMC models of malloc/calloc/free (calloc may fail in frag_pcf)",
]
ASSUMPTIONS = [
    "block history well-formed (sizes > 0, blocks ordered and non-overlapping, inside the file, file_start <= used): established for one more block by C08.wdb.wf_preserved and kept by deduplicate_blocks (C08.blk.frame/truncate_safe); nobody but the block writer appends to the output file between a file's first and last block (C14/C02)",
    "history length <= 4 (quick) / <= 6 (thorough), in-flight list <= 3, <= 2 stored chunks colliding with the searched hash, hash table sizes 5 and 7: all shapes up to the bound are enumerated by the driver, values are symbolic; longer structures are not covered",
    "max_block_size is fixed per run (4096; frag_load additionally 1 MiB in the thorough tier): the code only compares sizes against it, but other block sizes are not separately run",
    "deduplicate_blocks with SQFS_BLOCK_WRITER_HASH_COMPARE_ONLY and chunk_info_equals without file/uncompressor/table deduplicate on (size, checksum) alone by design (library option). C08.init.* proves that the packers never configure this; the option itself is outside the property",
    "sparse fragments (set_block_size path of process_completed_fragment) and the inode bookkeeping of data blocks are C01/C03/C13 matters, excluded by requires in frag_pcf / frag_pcb",
    "ht_search runs under --dfcc (for the urem contract; cover points are checked by the driver's separate cover build). Hash table resize (rehash) is not exercised: insert is verified for tables with room",
    "sqfs_writer_init: block size legal, num_jobs/max_backlog fit 32 bit (option parsers; narrowing is C03)",
    "VERIF_CUT in blk_dedup.c (assert, then assume the same fact) only feeds the SAT solver the induction steps of an addition chain about the harness's own well-formed history; every cut is an obligation first",
    "the uncompressor really inverts the compressor and xxh32 is a function of the bytes (neither is needed for soundness: equality is decided on bytes)",
    "byte-exact read-back of a whole image (C01) is the composition of these lemmas with the reader proofs; the composition itself is an argument, not a machine-checked theorem",
]
EXPLANATION = (
    "A file's block start is redirected only by deduplicate_blocks, and only after check_file_range_equal "
    "answered 0 for (own start, candidate, sum of own on-disk sizes) (blk_dedup, blk_wdb); that answer implies "
    "byte equality of the two ranges for every length (cmp_sound, loop contract + witness byte); truncation keeps "
    "the shared range and every earlier block. A fragment is pointed at a stored chunk only if the hash table "
    "handed back that chunk's entry (frag_pcf), which it does only after chunk_info_equals answered true "
    "(ht_search), which happens only after memcmp == 0 on (block holding that chunk + offset, the fragment's "
    "bytes, size) with bounds proved (frag_equal); the block is the in-flight copy made before submission "
    "(frag_enqueue), the fragment block being filled, or the cache loaded from exactly the location the table "
    "records after the write (frag_load, frag_pcb). The packers enable all of this (init_compare). Identical "
    "data is still shared: the first matching candidate is offered to the comparer and a positive answer is "
    "always used (first_candidate, identical_share, equal_is_returned, false_only_if_differ).")

_BW_FP = {"truncate": "stub_truncate", "destroy": "stub_unreachable_destroy",
          "get_size": "stub_unreachable_get_size", "write_at": "stub_unreachable_write_at"}
_BP_FP = {"read_at": "stub_read_at", "do_block": "stub_do_block",
          "*": "stub_unreachable_destroy"}
_BE_FP = {"key_equals_function": "stub_chunk_equals", "dequeue": "stub_pool_dequeue",
          "get_status": "stub_pool_get_status", "write_data_block": "stub_write_data_block"}

_L_FL = "bounded(in-flight list<=3, block size 4096)"
_FE_QUICK = {(0, 0, 0), (1, 1, 0), (2, 1, 1), (3, 0, 1), (3, 1, 1)}
_FE_CASES = [dict(id="fl%d_fb%d_c%d" % (n, fb, c),
                  defines={"NFL": n, "HAVE_FB": fb, "CACHE": c, "MODE": 0, "BS": 4096},
                  tier="quick" if (n, fb, c) in _FE_QUICK else "thorough")
             for n in range(4) for fb in (0, 1) for c in (0, 1)] + [
    dict(id="hash_only", defines={"NFL": 1, "HAVE_FB": 1, "CACHE": 1, "MODE": 1, "BS": 4096},
         tier="quick"),
    dict(id="fl2_fb1_c1_bs8192", defines={"NFL": 2, "HAVE_FB": 1, "CACHE": 1, "MODE": 0, "BS": 8192},
         tier="thorough", label="bounded(in-flight list<=3, block size 8192)")]


def _shapes(nb, tier, label):
    """every (history length, file start) with FS <= USED <= nb"""
    return [dict(id="u%df%d" % (u, f), defines={"NB": nb, "USED": u, "FS": f},
                 unwind=nb + 1, tier=tier, label=label, weight=(u - f) * f + 1)
            for u in range(0, nb + 1) for f in range(0, u + 1)]


HARNESSES = [
    # ---- byte comparer ---------------------------------------------------
    dict(name="cmp_sound", file="cmp_sound.c", loops=["check_file_range_equal"],
         label="proved", timeout=600, weight=5, fp={"read_at": "stub_read_at"},
         cases=[dict(id="scr8192", defines={"SCR": 8192}, tier="quick")]),
    dict(name="cmp_bounded", file="cmp_sound.c", label="bounded(chunks<=3)", timeout=300,
         fp={"read_at": "stub_read_at"},
         cases=[dict(id="chunks3", defines={"SCR": 8, "BOUNDED_CHUNKS": 3}, unwind=4, tier="quick")]),
    # ---- block writer --------------------------------------------------------
    dict(name="blk_dedup", file="blk_dedup.c", label="bounded(blocks<=4)", timeout=1500,
         fp=_BW_FP, cases=_shapes(4, "quick", "bounded(blocks<=4)") +
                         [c for c in _shapes(6, "thorough", "bounded(blocks<=6)")
                          if c["defines"]["USED"] > 4]),
    dict(name="blk_dedup_hashonly", file="blk_dedup.c", label="bounded(blocks<=4)", timeout=600,
         fp=_BW_FP, defines={"HASH_ONLY": 1},
         cases=[dict(id="u4f2", defines={"NB": 4, "USED": 4, "FS": 2}, unwind=5, tier="quick")]),
    dict(name="blk_wdb", file="blk_wdb.c", label="bounded(blocks<=3)", timeout=300,
         fp={"truncate": "stub_truncate", "destroy": "stub_unreachable_destroy",
             "get_size": "stub_get_size", "write_at": "stub_write_at"},
         cases=[dict(id="u%df%d" % (u, f), defines={"NB": 3, "USED": u, "FS": f}, unwind=4, tier="quick")
                for u in range(3) for f in range(u + 1)]),
    # ---- fragments -----------------------------------------------------------
    dict(name="frag_equal", file="frag_equal.c", label=_L_FL, timeout=600,
         fp=_BP_FP, cases=_FE_CASES),
    dict(name="frag_load", file="frag_load.c", label="bounded(block size 4096)", timeout=900, fp=_BP_FP,
         cases=[dict(id="c%d" % c, defines={"CACHE": c, "BS": 4096}, tier="quick") for c in (0, 1)] +
               [dict(id="c1_1M", defines={"CACHE": 1, "BS": 1048576}, tier="thorough",
                     label="bounded(block size 1048576)")]),
    dict(name="frag_enqueue", file="frag_enqueue.c", label="bounded(block size 4096)", timeout=300,
         fp={"submit": "stub_submit", "get_status": "stub_get_status"},
         cases=[dict(id="fl%d_m%d" % (n, m), defines={"NFL": n, "MODE": m, "BS": 4096}, tier="quick")
                for n, m in ((0, 0), (2, 0), (1, 1))]),
    dict(name="frag_pcb", file="frag_pcb.c", label=_L_FL, timeout=300, fp=_BE_FP, unwind=4,
         # `blk->flags & ~BLK_FLAG_INTERNAL`: the int -> unsigned conversion of a
         # negative enum complement is well defined (modular) and intended
         nochecks=["--conversion-check"],
         cases=[dict(id="fl%d_pos%d" % (n, p), defines={"NFL": n, "POS": p, "BS": 4096}, tier="quick")
                for n in range(4) for p in range(n + 1)]),
    dict(name="frag_pcf", file="frag_pcf.c",
         label="bounded(colliding stored chunks<=2, block size 4096)", timeout=300,
         fp=_BE_FP, malloc_fail=True, unwind=3,
         cases=[dict(id="fb%d_ino%d" % (fb, ino), defines={"HAVE_FB": fb, "HAVE_INODE": ino, "BS": 4096},
                     tier="quick")
                for fb in (0, 1) for ino in (0, 1)]),
    dict(name="ht_search", file="ht_search.c", label="bounded(table size<=7)", timeout=600, object_bits=10,
         mode="dfcc", replace=["util_fast_urem32"],
         must_have=["C08.ht.hit_needs_equal", "C08.ht.equal_is_returned"],
         fp={"key_equals_function": "stub_equals", "key_hash_function": "stub_hash",
             "delete_function": "stub_delete"},
         cases=[dict(id="si%d_%s" % (si, "search" if op == 0 else "insert"),
                     defines={"SI": si, "OP": op}, unwind=(6 if si == 0 else 8),
                     tier="thorough" if (si, op) == (1, 1) else "quick",
                     weight=4 if op else 1)
                for si in (0, 1) for op in (0, 1)]),
    # ---- configuration -------------------------------------------------------
    dict(name="create_bp", file="create_bp.c", label="bounded(workers<=2, block size 4096)", timeout=60,
         fp={"block_processor_destroy:destroy": "stub_pool_destroy", "destroy": "stub_obj_destroy",
             "copy": "stub_cmp_copy", "get_worker_count": "stub_get_worker_count",
             "set_worker_ptr": "stub_set_worker_ptr", "do_block": "stub_do_block",
             "read_at": "stub_read_at"},
         unwind=4,
         cases=[dict(id="file%d_uncmp%d_w%d_fail%d" % (f, u, w, k),
                     defines={"HAVE_FILE": f, "HAVE_UNCMP": u, "WORKERS": w, "FAIL_AT": k, "BS": 4096},
                     tier="quick" if (f, u) == (1, 1) or k == 0 else "thorough")
                for f in (0, 1) for u in (0, 1) for w in (1, 2) for k in range(0, 9)
                if w == 2 or k == 0]),
    dict(name="create_bw", file="create_bw.c", label="proved", timeout=60,
         nochecks=["--conversion-check"],   # `flags & ~ENUM`: intended int -> unsigned conversion
         fp={"destroy": "stub_file_destroy", "get_size": "stub_get_size", "write_at": "stub_write_at",
             "truncate": "stub_truncate"},
         cases=[dict(id="fail%d" % k, defines={"FAIL_AT": k}, tier="quick") for k in (0, 1, 2)]),
    dict(name="init_compare", file="init_compare.c", label="proved", timeout=300,
         fp={"write_options": "stub_write_options", "destroy": "stub_destroy"},
         cases=[dict(id="all", tier="quick")]),
]
