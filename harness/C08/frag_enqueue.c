/* C08: enqueue_block (lib/sqfs/src/block_processor/frontend.c) - the
 * in-flight copy that chunk_info_equals compares against while a fragment
 * block is on its way through the pool and not yet readable from disk.
 *
 * Shape: NFL = length of the in-flight list at entry (0..2).
 * MODE 0: byte comparison enabled (file and uncompressor present), MODE 1: not.
 *
 *  ensures  C08.frag.inflight_copy  FRAGMENT_BLOCK (MODE 0): before the block
 *              is handed to the pool, a fresh block with the same index and
 *              size, payload capacity == size, filled by
 *              memcpy(copy->data, blk->data, blk->size), is the new head of
 *              the in-flight list, the old list follows unchanged
 *           C08.frag.inflight_alloc_failure  if the copy cannot be allocated
 *              the block is not submitted and an error is returned
 *           C08.frag.inflight_only_fragment_blocks  any other block (or
 *              MODE 1) leaves the list untouched and allocates nothing
 *           C08.frag.submit_failure  a failing submit returns non-zero and
 *              recycles the block
 */
#include "bp_env.h"

#ifndef NFL
#define NFL 1
#endif
#ifndef MODE
#define MODE 0
#endif

static void *c08_memcpy(void *dst, const void *src, size_t n);
#define memcpy c08_memcpy
#include "lib/sqfs/src/block_processor/frontend.c"
#undef memcpy

static blk_t g_blk, g_fl[2];
static thread_pool_t g_pool;

static unsigned g_memcpy_calls, g_submit_calls;
static void *g_memcpy_dst;
static const void *g_memcpy_src;
static size_t g_memcpy_n;
static sqfs_block_t *g_head_at_submit;
static int g_submit_ret, g_status;

static void *c08_memcpy(void *dst, const void *src, size_t n)
{
	VERIF_ASSERT(VERIF_W_OK(dst, n) && VERIF_R_OK(src, n),
		     "C08.frag.inflight_copy");
	/* the copy has exactly alloc_flex(.., nmemb) payload bytes */
	if (dst == (void *)g_alloc_blk.b.data)
		VERIF_ASSERT(n <= g_alloc_nmemb, "C08.frag.inflight_copy");
	g_memcpy_calls += 1;
	g_memcpy_dst = dst;
	g_memcpy_src = src;
	g_memcpy_n = n;
	return dst;
}

int stub_submit(thread_pool_t *pool, void *item)
{
	VERIF_ASSERT(pool == &g_pool && item == (void *)&g_blk.b,
		     "C08.frag.submit_pre");
	g_submit_calls += 1;
	g_head_at_submit = g_p.proc.fblk_in_flight;
	g_submit_ret = verif_nd_bool("submit_fails") ? -1 : 0;
	return g_submit_ret;
}

int stub_get_status(thread_pool_t *pool)
{
	VERIF_ASSERT(pool == &g_pool, "C08.frag.submit_pre");
	g_status = verif_nd_int("pool_status");
	VERIF_ASSUME(g_status <= 0);
	return g_status;
}

int dequeue_block(sqfs_block_processor_t *proc)
{
	(void)proc;
	VERIF_ASSERT(0, "C08.env.unreachable");
	return 0;
}

int sqfs_inode_get_file_size(const sqfs_inode_generic_t *inode, sqfs_u64 *size)
{
	(void)inode; (void)size;
	VERIF_ASSERT(0, "C08.env.unreachable");
	return 0;
}

int sqfs_inode_set_file_size(sqfs_inode_generic_t *inode, sqfs_u64 size)
{
	(void)inode; (void)size;
	VERIF_ASSERT(0, "C08.env.unreachable");
	return 0;
}

int sqfs_inode_set_frag_location(sqfs_inode_generic_t *inode, sqfs_u32 index,
				 sqfs_u32 offset)
{
	(void)inode; (void)index; (void)offset;
	VERIF_ASSERT(0, "C08.env.unreachable");
	return 0;
}

void harness(void)
{
	sqfs_block_t *head0, *free0;
	sqfs_u32 flags, size, index;
	bool wants_copy;
	int ret;

	g_alloc_calls = 0;
	g_memcpy_calls = g_submit_calls = 0;
	g_head_at_submit = NULL;

	g_p.proc.max_block_size = BS;
	g_p.proc.file = MODE == 0 ? &g_file : NULL;
	g_p.proc.uncmp = &g_uncmp;
#if MODE == 1
	if (verif_nd_bool("uncmp_missing")) {
		g_p.proc.file = &g_file;
		g_p.proc.uncmp = NULL;
	}
#endif
	g_p.proc.pool = &g_pool;
	g_pool.submit = stub_submit;
	g_pool.get_status = stub_get_status;
	g_p.proc.free_list = NULL;
	free0 = g_p.proc.free_list;

	blk_nd_header(&g_fl[0], "in_flight");
	blk_nd_header(&g_fl[1], "in_flight");
	g_p.proc.fblk_in_flight = NFL >= 1 ? &g_fl[0].b : NULL;
	g_fl[0].b.next = NFL >= 2 ? &g_fl[1].b : NULL;
	head0 = g_p.proc.fblk_in_flight;

	blk_nd_header(&g_blk, "blk");
	VERIF_ASSUME(g_blk.b.size <= BS);
	flags = g_blk.b.flags;
	size = g_blk.b.size;
	index = g_blk.b.index;

	ret = enqueue_block(&g_p.proc, &g_blk.b);

	/* ---------------------------------------------------------------- */
	wants_copy = (flags & SQFS_BLK_FRAGMENT_BLOCK) && MODE == 0;

	VERIF_ASSERT(g_blk.b.flags == flags && g_blk.b.size == size &&
		     g_blk.b.index == index, "C08.frag.frame");
	VERIF_ASSERT(g_fl[0].b.next == (NFL >= 2 ? &g_fl[1].b : NULL) &&
		     g_fl[1].b.next == NULL, "C08.frag.frame");

	if (!wants_copy) {
		VERIF_ASSERT(g_p.proc.fblk_in_flight == head0 &&
			     g_alloc_calls == 0 && g_memcpy_calls == 0,
			     "C08.frag.inflight_only_fragment_blocks");
		VERIF_ASSERT(g_submit_calls == 1, "C08.frag.submit_pre");
	} else if (g_fault_count > 0) {
		/* allocation failed */
		VERIF_ASSERT(ret != 0 && g_submit_calls == 0 &&
			     g_p.proc.fblk_in_flight == head0,
			     "C08.frag.inflight_alloc_failure");
	} else {
		sqfs_block_t *copy = g_p.proc.fblk_in_flight;

		VERIF_ASSERT(g_alloc_calls == 1 && copy == &g_alloc_blk.b &&
			     g_alloc_nmemb == size, "C08.frag.inflight_copy");
		VERIF_ASSERT(copy->index == index && copy->size == size &&
			     copy->next == head0, "C08.frag.inflight_copy");
		VERIF_ASSERT(g_memcpy_calls == 1 &&
			     g_memcpy_dst == (void *)copy->data &&
			     g_memcpy_src == (const void *)g_blk.b.data &&
			     g_memcpy_n == size, "C08.frag.inflight_copy");
		/* in place before the pool (hence any worker, any completion)
		 * sees the block */
		VERIF_ASSERT(g_submit_calls == 1 && g_head_at_submit == copy,
			     "C08.frag.inflight_copy");
	}

	if (g_submit_calls == 1 && g_submit_ret != 0) {
		VERIF_ASSERT(ret != 0 && g_p.proc.free_list == &g_blk.b &&
			     g_blk.b.next == free0, "C08.frag.submit_failure");
	}
	if (g_submit_calls == 1 && g_submit_ret == 0)
		VERIF_ASSERT(ret == 0, "C08.frag.submit_failure");

	VERIF_COVER(ret == 0 && (flags & SQFS_BLK_FRAGMENT_BLOCK));
	VERIF_COVER(ret == 0 && !(flags & SQFS_BLK_FRAGMENT_BLOCK));
	VERIF_COVER(ret != 0 && g_submit_calls == 1);
#if MODE == 0
	VERIF_COVER(ret != 0 && g_submit_calls == 0);
#endif
}
