/* C08 (w14): xxh32 is a function of (bytes, len) only - the property the
 * block processor relies on when it looks a block up by (size | checksum):
 * the same bytes give the same word wherever they lie in memory and whatever
 * lies behind them. Bounded: every len <= 20 (thorough: <= 48; one driver case per length:
 * with a symbolic length the SAT problem - two multiplier chains merged over
 * 21 path shapes - did not finish in 5 min), bytes fully symbolic, loops
 * unwound (unwinding assertions). Back end z3 (see cases_extra_w14.py).
 *
 *   C08.xxh32.function_of_bytes  two buffers at different addresses that
 *              agree on [0, len) and are unrelated behind len hash to the
 *              same value
 */
#include <stdlib.h>
#include <string.h>
#include "verif.h"
#include "lib/util/src/xxhash.c"

#ifndef XXH_N
#define XXH_N 20
#endif
#ifndef XXH_LEN
#define XXH_LEN XXH_N
#endif

void harness(void)
{
	static sqfs_u8 a[XXH_N + 4], pad[3], b[XXH_N + 4];
	const size_t len = XXH_LEN;
	size_t i;
	sqfs_u32 ha, hb;

	for (i = 0; i < XXH_N + 4; ++i) {
		a[i] = verif_nd_u8("a");
		b[i] = i < len ? a[i] : verif_nd_u8("b");
	}
	(void)pad;

	ha = xxh32(a, len);
	hb = xxh32(b, len);

	VERIF_ASSERT(ha == hb, "C08.xxh32.function_of_bytes");

	VERIF_COVER(a[len] != b[len] && a[len + 3] != b[len + 3]);
	VERIF_COVER(a[0] == 0x55 && b[XXH_N + 3] == 0xAA);
}
