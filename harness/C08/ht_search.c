/* C08: the fragment hash table (lib/util/src/hash_table.c) as used by the
 * block processor: hash_table_search_pre_hashed / hash_table_insert_pre_hashed
 * with a user equality callback. The table is an arbitrary well-formed table
 * of the smallest sizes (size index SI: 0 -> 5 slots, 1 -> 7 slots); every
 * slot is free, deleted or present with an arbitrary 32-bit hash - so any
 * number of stored keys may share the searched hash (collisions at will).
 * The equality callback is a recording stub that answers arbitrarily.
 *
 *  ensures  C08.ht.hit_needs_equal   search/insert hands back an existing
 *              entry only if the callback was called with (user, key,
 *              that entry's key), answered true, and that was the last call
 *           C08.ht.equal_is_returned a "true" answer is never ignored
 *              (identical fragments are found)
 *           C08.ht.compares_same_hash_only  the callback only sees present
 *              entries whose stored hash equals the searched hash
 *           C08.ht.search_frame      search does not modify the table
 *           C08.ht.insert_no_clobber (OP=1, no resize pending) a new key goes
 *              into a slot that was not present; no other slot changes
 *           terminates: probing ends within `size` steps (unwinding assertion)
 */
#include <stdlib.h>
#include <string.h>
#include "verif.h"
#include "sqfs/predef.h"

/* Trusted: util_fast_urem32(n, d, REMAINDER_MAGIC(d)) == n % d (Lemire's
 * direct remainder; the function itself asserts it). Proving the 128-bit
 * multiplication identity is a SAT-hard arithmetic fact unrelated to C08, so
 * calls are replaced by this contract (--replace-call-with-contract). */
#ifndef VERIF_REPLAY
static inline sqfs_u32 util_fast_urem32(sqfs_u32 n, sqfs_u32 d, sqfs_u64 magic)
__CPROVER_requires(d != 0)
__CPROVER_ensures(__CPROVER_return_value == n % d)
__CPROVER_assigns();
#endif

#include "lib/util/src/hash_table.c"

#ifndef SI
#define SI 0
#endif
#ifndef OP
#define OP 0		/* 0 search, 1 insert */
#endif
#if SI == 0
#define TSIZE 5
#else
#define TSIZE 7
#endif

static struct hash_entry g_tab[TSIZE], g_tab0[TSIZE];
static struct hash_table g_ht;
static int g_user_obj;
static int g_keys[TSIZE], g_newkey, g_newdata;

static unsigned g_eq_calls;
static const void *g_eq_a, *g_eq_b;
static bool g_eq_ret;
static sqfs_u32 g_hash;

bool stub_equals(void *user, const void *a, const void *b)
{
	size_t i;
	bool found = false;

	VERIF_ASSERT(user == &g_user_obj && a == &g_newkey, "C08.ht.callback_args");
	/* nothing is compared after a positive answer */
	VERIF_ASSERT(g_eq_calls == 0 || !g_eq_ret, "C08.ht.equal_is_returned");
	for (i = 0; i < TSIZE; ++i) {
		if (g_tab0[i].key == b && b == &g_keys[i] &&
		    g_tab0[i].hash == g_hash)
			found = true;
	}
	VERIF_ASSERT(found, "C08.ht.compares_same_hash_only");

	g_eq_calls += 1;
	g_eq_a = a;
	g_eq_b = b;
	g_eq_ret = verif_nd_bool("equals");
	return g_eq_ret;
}

sqfs_u32 stub_hash(void *user, const void *key)
{
	(void)user; (void)key;
	VERIF_ASSERT(0, "C08.env.unreachable");
	return 0;
}

void stub_delete(struct hash_entry *e)
{
	(void)e;
	VERIF_ASSERT(0, "C08.env.unreachable");
}

void harness(void)
{
	struct hash_entry *res;
	size_t i, w, npresent = 0, ndeleted = 0;

	/* (statics are not zero-initialised under --dfcc) */
	g_eq_calls = 0;
	g_eq_a = g_eq_b = NULL;
	g_eq_ret = false;

	g_ht.table = g_tab;
	g_ht.key_hash_function = NULL;
	g_ht.key_equals_function = stub_equals;
	g_ht.deleted_key = &deleted_key_value;
	g_ht.user = &g_user_obj;
	g_ht.size_index = SI;
	g_ht.size = hash_sizes[SI].size;
	g_ht.rehash = hash_sizes[SI].rehash;
	g_ht.size_magic = hash_sizes[SI].size_magic;
	g_ht.rehash_magic = hash_sizes[SI].rehash_magic;
	g_ht.max_entries = hash_sizes[SI].max_entries;

	for (i = 0; i < TSIZE; ++i) {
		switch (verif_nd_u8("slot_kind") % 3) {
		case 0: g_tab[i].key = NULL; break;
		case 1: g_tab[i].key = &deleted_key_value; ndeleted++; break;
		default: g_tab[i].key = &g_keys[i]; npresent++; break;
		}
		g_tab[i].hash = verif_nd_u32("slot_hash");
		g_tab[i].data = &g_keys[i];
		g_tab0[i] = g_tab[i];
	}
	g_ht.entries = (sqfs_u32)npresent;
	g_ht.deleted_entries = (sqfs_u32)ndeleted;
	/* open addressing needs a free slot to stop at: guaranteed by the
	 * resize policy (entries + deleted < max_entries < size) */
	VERIF_ASSUME(npresent + ndeleted <= g_ht.max_entries);
#if OP == 1
	VERIF_ASSUME(npresent < g_ht.max_entries &&
		     npresent + ndeleted < g_ht.max_entries);
#endif

	g_hash = verif_nd_u32("hash");
	w = verif_nd_size("witness_slot");
	VERIF_ASSUME(w < TSIZE);

#if OP == 0
	res = hash_table_search_pre_hashed(&g_ht, g_hash, &g_newkey);
#else
	res = hash_table_insert_pre_hashed(&g_ht, g_hash, &g_newkey, &g_newdata);
#endif

	if (g_eq_calls > 0 && g_eq_ret) {
		VERIF_ASSERT(res != NULL && g_eq_b == g_tab0[res - g_tab].key,
			     "C08.ht.equal_is_returned");
	}
#if OP == 0
	if (res != NULL) {
		VERIF_ASSERT(res >= g_tab && res < g_tab + TSIZE,
			     "C08.ht.hit_needs_equal");
		VERIF_ASSERT(g_eq_calls > 0 && g_eq_ret && g_eq_b == res->key &&
			     res->key == &g_keys[res - g_tab] &&
			     res->hash == g_hash, "C08.ht.hit_needs_equal");
	}
	VERIF_ASSERT(g_tab[w].key == g_tab0[w].key && g_tab[w].hash == g_tab0[w].hash &&
		     g_tab[w].data == g_tab0[w].data, "C08.ht.search_frame");
	VERIF_COVER(res != NULL && g_eq_calls == 2);
	VERIF_COVER(res == NULL && g_eq_calls == 2);
	VERIF_COVER(res == NULL && g_eq_calls == 0);
#else
	VERIF_ASSERT(res != NULL && res >= g_tab && res < g_tab + TSIZE,
		     "C08.ht.insert_no_clobber");
	VERIF_ASSERT(res->key == &g_newkey && res->data == &g_newdata &&
		     res->hash == g_hash, "C08.ht.insert_no_clobber");
	if (g_tab0[res - g_tab].key == &g_keys[res - g_tab]) {
		/* an existing entry was replaced: only on a positive answer */
		VERIF_ASSERT(g_eq_calls > 0 && g_eq_ret &&
			     g_eq_b == g_tab0[res - g_tab].key,
			     "C08.ht.hit_needs_equal");
	}
	if (&g_tab[w] != res)
		VERIF_ASSERT(g_tab[w].key == g_tab0[w].key &&
			     g_tab[w].hash == g_tab0[w].hash &&
			     g_tab[w].data == g_tab0[w].data,
			     "C08.ht.insert_no_clobber");
	VERIF_COVER(g_eq_calls == 1 && g_eq_ret);
	VERIF_COVER(g_eq_calls == 1 && !g_eq_ret);
	VERIF_COVER(g_eq_calls == 0);
#endif
}
