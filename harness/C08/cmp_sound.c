/* C08: check_file_range_equal (lib/util/src/file_cmp.c), the byte comparer
 * behind block deduplication. Unbounded: the loop is closed by the loop
 * contract of contracts/loops/C08.tbl, `size` is any 64-bit value, the
 * scratch size is symbolic in [2, SCR], the file contents are arbitrary.
 *
 * Environment contract of sqfs_file_t.read_at (DESIGN section 3): requires
 * w_ok(buf, n); returns 0 and fills buf with file bytes, or a negative error.
 * The file content is represented by ONE arbitrary witness index K < size:
 * the byte at loc_a+K is VA, the byte at loc_b+K is VB (equal when the two
 * offsets coincide). Every read covering one of those offsets delivers that
 * byte. memcmp is replaced by its contract on the witness: it cannot return 0
 * when the two buffers differ at the witness position. K is universally
 * quantified by the solver, so "VA == VB" is "every byte pair is equal".
 *
 *  requires  scratch has scratch_sz bytes, scratch_sz >= 2,
 *            loc_a + size and loc_b + size do not wrap
 *  ensures   C08.cmp.sound           ret == 0  ==>  VA == VB  (and the whole
 *                                    range was compared: done == size)
 *            C08.cmp.differ_reported ret == 1  ==>  the last memcmp said
 *                                    "different"
 *            C08.cmp.error_propagates ret < 0  <==> a read failed, ret is its
 *                                    code
 *            C08.cmp.chunking        (asserted in the stubs) both ranges are
 *                                    read with identical chunking: the a-read
 *                                    at loc_a+done, the b-read at loc_b+done
 *                                    with the same length, into disjoint
 *                                    halves of scratch, never beyond `size`
 *            C08.cmp.read_pre        every read_at gets a writable buffer
 *            C08.cmp.status_domain   ret is 0, 1 or a negative error code
 *            terminates              (decreases clause)
 */
#include <stdlib.h>
#include <string.h>
#include "verif.h"
#include "sqfs/predef.h"

#ifndef SCR
#define SCR 8192
#endif

/* ghost state of the environment */
sqfs_u64 g_loc_a0, g_loc_b0, g_size0;	/* arguments at entry */
sqfs_u64 g_done;			/* bytes compared equal so far */
sqfs_u64 g_K;				/* witness index, < size0 */
sqfs_u8 g_VA, g_VB;			/* file bytes at loc_a0+K, loc_b0+K */
int g_phase;				/* 0: a-read next, 1: b-read, 2: memcmp, 3: done */
size_t g_n;				/* length of the chunk in progress */
size_t g_half;				/* scratch_sz / 2 */
int g_read_err;				/* error code returned by a read, or 0 */
int g_last_memcmp;			/* last memcmp result */
sqfs_u8 *g_scratch;			/* scratch_sz bytes, allocated by the harness */

static int c08_memcmp(const void *a, const void *b, size_t n);
#define memcmp c08_memcmp

#include "lib/util/src/file_cmp.c"

#undef memcmp

static int stub_read_at(sqfs_file_t *file, sqfs_u64 offset, void *buffer,
			size_t size)
{
	sqfs_u8 *buf = buffer;
	int ret;
	(void)file;

	VERIF_ASSERT(VERIF_W_OK(buffer, size), "C08.cmp.read_pre");
	VERIF_ASSERT(g_phase == 0 || g_phase == 1, "C08.cmp.chunking");

	if (g_phase == 0) {
		VERIF_ASSERT(offset == g_loc_a0 + g_done, "C08.cmp.chunking");
		VERIF_ASSERT(buf == g_scratch, "C08.cmp.chunking");
		VERIF_ASSERT(size > 0 && size <= g_half &&
			     (sqfs_u64)size <= g_size0 - g_done,
			     "C08.cmp.chunking");
		g_n = size;
	} else {
		VERIF_ASSERT(offset == g_loc_b0 + g_done, "C08.cmp.chunking");
		VERIF_ASSERT(buf == g_scratch + g_half, "C08.cmp.chunking");
		VERIF_ASSERT(size == g_n, "C08.cmp.chunking");
	}

	if (verif_nd_bool("read_fails")) {
		ret = verif_nd_int("read_err");
		VERIF_ASSUME(ret < 0);
		g_read_err = ret;
		g_phase = 3;
		return ret;
	}

	/* deliver the witness byte if this chunk covers it */
	if (g_K >= g_done && g_K - g_done < (sqfs_u64)size)
		buf[g_K - g_done] = (g_phase == 0) ? g_VA : g_VB;

	g_phase += 1;
	return 0;
}

static int c08_memcmp(const void *a, const void *b, size_t n)
{
	const sqfs_u8 *pa = a, *pb = b;
	int r = verif_nd_int("memcmp");

	VERIF_ASSERT(VERIF_R_OK(a, n) && VERIF_R_OK(b, n), "C08.cmp.read_pre");
	VERIF_ASSERT(g_phase == 2, "C08.cmp.chunking");
	VERIF_ASSERT(pa == g_scratch && pb == g_scratch + g_half && n == g_n,
		     "C08.cmp.chunking");

	/* contract of memcmp on the witness position */
	if (g_K >= g_done && g_K - g_done < (sqfs_u64)n) {
		if (pa[g_K - g_done] != pb[g_K - g_done] && r == 0)
			r = 1;
	}

	g_last_memcmp = r;
	if (r == 0) {
		g_done += n;
		g_phase = 0;
	} else {
		g_phase = 3;
	}
	return r;
}

static sqfs_file_t g_file;

void harness(void)
{
	size_t scratch_sz = verif_nd_size("scratch_sz");
	int ret;

	VERIF_ASSUME(scratch_sz >= 2 && scratch_sz <= SCR);
	g_half = scratch_sz / 2;
	g_scratch = malloc(scratch_sz);
	VERIF_ASSUME(g_scratch != NULL);

	g_loc_a0 = verif_nd_u64("loc_a");
	g_loc_b0 = verif_nd_u64("loc_b");
	g_size0 = verif_nd_u64("size");
#ifdef BOUNDED_CHUNKS
	/* bounded companion (no loop contract, plain unwinding): at most
	 * BOUNDED_CHUNKS chunks; gives directly replayable counterexamples for
	 * the named obligations */
	VERIF_ASSUME(g_size0 <= (sqfs_u64)BOUNDED_CHUNKS * g_half);
#endif
	VERIF_ASSUME(g_loc_a0 <= UINT64_MAX - g_size0);
	VERIF_ASSUME(g_loc_b0 <= UINT64_MAX - g_size0);

	g_K = verif_nd_u64("K");
	g_VA = verif_nd_u8("VA");
	g_VB = verif_nd_u8("VB");
	VERIF_ASSUME(g_size0 == 0 || g_K < g_size0);
	VERIF_ASSUME(g_loc_a0 != g_loc_b0 || g_VA == g_VB);

	g_done = 0;
	g_phase = 0;
	g_n = 0;
	g_read_err = 0;
	g_last_memcmp = 0;
	g_file.read_at = stub_read_at;

	ret = check_file_range_equal(&g_file, g_scratch, scratch_sz,
				     g_loc_a0, g_loc_b0, g_size0);

	if (ret == 0) {
		VERIF_ASSERT(g_done == g_size0 && g_phase == 0, "C08.cmp.sound");
		VERIF_ASSERT(g_size0 == 0 || g_VA == g_VB, "C08.cmp.sound");
	}
	VERIF_ASSERT(ret != 1 || (g_phase == 3 && g_read_err == 0 &&
				  g_last_memcmp != 0),
		     "C08.cmp.differ_reported");
	VERIF_ASSERT((ret < 0) == (g_read_err != 0), "C08.cmp.error_propagates");
	VERIF_ASSERT(ret >= 0 || ret == g_read_err, "C08.cmp.error_propagates");
	VERIF_ASSERT(ret <= 1, "C08.cmp.status_domain");
	/* an unequal witness byte can never end in "equal" */
	VERIF_ASSERT(!(g_size0 > 0 && g_VA != g_VB && ret == 0), "C08.cmp.sound");

#ifdef BOUNDED_CHUNKS
	VERIF_COVER(ret == 0 && g_size0 > (BOUNDED_CHUNKS - 1) * g_half);
#else
	VERIF_COVER(ret == 0 && g_size0 > 3 * (sqfs_u64)SCR);
#endif
	VERIF_COVER(ret == 0 && g_size0 == 0);
	VERIF_COVER(ret == 1);
	VERIF_COVER(ret < 0);
}
