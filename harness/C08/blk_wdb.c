/* C08 (+ C17.bp.dont_dedup): write_data_block (lib/sqfs/src/block_writer.c)
 * with its helpers store_block_location and deduplicate_blocks in place
 * (both static, loop bounds <= NB), on an arbitrary well-formed history of
 * USED < NB blocks of which the file under construction owns those from FS on.
 * array_append, the byte comparer and the output file are contracts.
 *
 *  ensures  C08.wdb.first_block_start   FIRST_BLOCK ==> the file's own start
 *              is the history position at entry (so deduplication compares
 *              exactly this file's blocks)
 *           C08.wdb.records_location    a non-sparse, non-empty block is
 *              recorded as (file size at entry, size | uncompressed bit,
 *              checksum) and written with write_at(file size at entry, data,
 *              size), exactly once; sparse/empty blocks leave no trace
 *           C08.wdb.location            without LAST_BLOCK the reported
 *              location is the file size at entry; nothing is compared or
 *              truncated
 *           C08.wdb.match_needs_compare LAST_BLOCK: a location other than the
 *              file's own start is reported only after the comparer answered
 *              0 for (own start, that location, sum of the own on-disk sizes)
 *              - C08.blk.match_needs_compare through the real call chain,
 *              with the flags of this call
 *           C17.bp.dont_dedup           LAST_BLOCK|DONT_DEDUPLICATE: own
 *              start, no comparer call, no truncate
 *           C08.wdb.wf_preserved        the history stays ordered,
 *              non-overlapping and inside the file
 *           C08.wdb.error_propagates    array_append / write_at failure is
 *              returned and nothing is compared afterwards
 */
#include <stdlib.h>
#include <string.h>
#include "verif.h"

#ifndef NB
#define NB 3
#endif
#ifndef USED
#define USED 2
#endif
#ifndef FS
#define FS 1
#endif

#include "lib/sqfs/src/block_writer.c"

static struct {
	block_writer_default_t wr;
	sqfs_u8 scratch[SCRATCH_SIZE];
} g_w;

static blk_info_t g_blocks[NB];
static sqfs_file_t g_file;
static sqfs_u64 g_fsize;
static sqfs_u8 *g_data;		/* `size` bytes: the caller's obligation */

static unsigned g_cmp_calls, g_trunc_calls, g_write_calls, g_append_calls;
static sqfs_u64 g_cmp_a, g_cmp_b, g_cmp_sz, g_trunc_sz;
static int g_cmp_ret, g_trunc_ret, g_write_ret, g_append_ret;
static sqfs_u64 g_write_off;
static const void *g_write_buf;
static size_t g_write_size;

#define SZ(h) (((h) >> 32) & 0xFFFFFFu)
#define END(i) (g_blocks[i].offset + SZ(g_blocks[i].hash))

int array_append(array_t *array, const void *data)
{
	const blk_info_t *e = data;

	VERIF_ASSERT(array == &g_w.wr.blocks && array->size == sizeof(blk_info_t) &&
		     VERIF_R_OK(data, sizeof(blk_info_t)), "C08.wdb.append_pre");
	VERIF_ASSERT(g_write_calls == 0 && g_cmp_calls == 0, "C08.wdb.append_pre");
	g_append_calls += 1;
	g_append_ret = 0;
	if (array->used >= NB || verif_nd_bool("append_fails")) {
		g_append_ret = verif_nd_int("append_err");
		VERIF_ASSUME(g_append_ret < 0);
		return g_append_ret;
	}
	g_blocks[array->used].offset = e->offset;
	g_blocks[array->used].hash = e->hash;
	array->used += 1;
	return 0;
}

int check_file_range_equal(sqfs_file_t *file, void *scratch, size_t scratch_sz,
			   sqfs_u64 loc_a, sqfs_u64 loc_b, sqfs_u64 size)
{
	VERIF_ASSERT(file == &g_file && scratch == (void *)g_w.wr.scratch &&
		     scratch_sz == SCRATCH_SIZE, "C08.blk.compare_pre");
	VERIF_ASSERT(g_append_ret == 0 && g_write_ret == 0 && g_trunc_calls == 0,
		     "C08.wdb.error_propagates");
	g_cmp_calls += 1;
	g_cmp_a = loc_a;
	g_cmp_b = loc_b;
	g_cmp_sz = size;
	switch (verif_nd_u8("cmp_outcome") % 3) {
	case 0: g_cmp_ret = 0; break;
	case 1: g_cmp_ret = 1; break;
	default:
		g_cmp_ret = verif_nd_int("cmp_err");
		VERIF_ASSUME(g_cmp_ret < 0);
		break;
	}
	return g_cmp_ret;
}

sqfs_u64 stub_get_size(const sqfs_file_t *file)
{
	VERIF_ASSERT(file == &g_file, "C08.wdb.file_pre");
	return g_fsize;
}

int stub_write_at(sqfs_file_t *file, sqfs_u64 offset, const void *buffer,
		  size_t size)
{
	VERIF_ASSERT(file == &g_file && VERIF_R_OK(buffer, size),
		     "C08.wdb.file_pre");
	VERIF_ASSERT(g_write_calls == 0, "C08.wdb.records_location");
	g_write_calls += 1;
	g_write_off = offset;
	g_write_buf = buffer;
	g_write_size = size;
	g_write_ret = 0;
	if (verif_nd_bool("write_fails")) {
		g_write_ret = verif_nd_int("write_err");
		VERIF_ASSUME(g_write_ret < 0);
		return g_write_ret;
	}
	if (offset + size > g_fsize)
		g_fsize = offset + size;
	return 0;
}

int stub_truncate(sqfs_file_t *file, sqfs_u64 size)
{
	VERIF_ASSERT(file == &g_file && size <= g_fsize, "C08.blk.truncate_safe");
	VERIF_ASSERT(g_trunc_calls == 0 && g_cmp_calls > 0 && g_cmp_ret == 0,
		     "C08.blk.truncate_safe");
	g_trunc_calls += 1;
	g_trunc_sz = size;
	g_trunc_ret = 0;
	if (verif_nd_bool("truncate_fails")) {
		g_trunc_ret = verif_nd_int("truncate_err");
		VERIF_ASSUME(g_trunc_ret < 0);
		return g_trunc_ret;
	}
	g_fsize = size;
	return 0;
}

void stub_unreachable_destroy(sqfs_object_t *obj)
{
	(void)obj;
	VERIF_ASSERT(0, "C08.env.unreachable");
}

void harness(void)
{
	sqfs_u32 size, checksum, flags;
	sqfs_u64 location, fsize0, own, total;
	size_t i, fs1, used1;
	bool stores;
	int ret;

	g_cmp_calls = g_trunc_calls = g_write_calls = g_append_calls = 0;
	g_cmp_ret = g_trunc_ret = g_write_ret = g_append_ret = 0;

	g_fsize = verif_nd_u64("file_size");
	VERIF_ASSUME(g_fsize <= (sqfs_u64)INT64_MAX);
	fsize0 = g_fsize;
	for (i = 0; i < NB; ++i) {
		g_blocks[i].offset = verif_nd_u64("blk_offset");
		g_blocks[i].hash = verif_nd_u64("blk_hash");
	}
	for (i = 0; i < USED; ++i) {
		VERIF_ASSUME(SZ(g_blocks[i].hash) > 0);
		VERIF_ASSUME(g_blocks[i].offset <= g_fsize && END(i) <= g_fsize);
		if (i + 1 < USED)
			VERIF_ASSUME(END(i) <= g_blocks[i + 1].offset);
	}

	g_w.wr.file = &g_file;
	g_w.wr.blocks.size = sizeof(blk_info_t);
	g_w.wr.blocks.count = NB;
	g_w.wr.blocks.used = USED;
	g_w.wr.blocks.data = g_blocks;
	g_w.wr.file_start = FS;
	g_w.wr.flags = 0;
	g_file.get_size = stub_get_size;
	g_file.write_at = stub_write_at;
	g_file.truncate = stub_truncate;

	size = verif_nd_u32("size");
	VERIF_ASSUME(size <= 1048576);		/* <= SQFS_MAX_BLOCK_SIZE */
	g_data = malloc(size ? size : 1);
	VERIF_ASSUME(g_data != NULL);
	checksum = verif_nd_u32("checksum");
	flags = verif_nd_u32("flags");
	location = verif_nd_u64("location0");

	ret = write_data_block(&g_w.wr.base, NULL, size, checksum, flags,
			       g_data, &location);

	/* ---------------------------------------------------------------- */
	fs1 = (flags & SQFS_BLK_FIRST_BLOCK) ? (size_t)USED : (size_t)FS;
	VERIF_ASSERT(g_w.wr.file_start == fs1, "C08.wdb.first_block_start");

	stores = size != 0 && !(flags & SQFS_BLK_IS_SPARSE);
	if (!stores) {
		VERIF_ASSERT(g_append_calls == 0 && g_write_calls == 0,
			     "C08.wdb.records_location");
		used1 = USED;
	} else {
		VERIF_ASSERT(g_append_calls == 1, "C08.wdb.records_location");
		used1 = USED + (g_append_ret == 0 ? 1 : 0);
		if (g_append_ret == 0) {
			sqfs_u32 out = size;

			if (!(flags & SQFS_BLK_IS_COMPRESSED))
				out |= 1 << 24;
			VERIF_ASSERT(g_blocks[USED].offset == fsize0 &&
				     g_blocks[USED].hash ==
				     (((sqfs_u64)out << 32) | checksum),
				     "C08.wdb.records_location");
			VERIF_ASSERT(g_write_calls == 1 && g_write_off == fsize0 &&
				     g_write_buf == (const void *)g_data &&
				     g_write_size == size,
				     "C08.wdb.records_location");
		} else {
			VERIF_ASSERT(ret == g_append_ret && g_write_calls == 0 &&
				     g_cmp_calls == 0,
				     "C08.wdb.error_propagates");
		}
		if (g_write_calls == 1 && g_write_ret != 0)
			VERIF_ASSERT(ret == g_write_ret && g_cmp_calls == 0,
				     "C08.wdb.error_propagates");
	}

	if (!(flags & SQFS_BLK_LAST_BLOCK)) {
		VERIF_ASSERT(g_cmp_calls == 0 && g_trunc_calls == 0,
			     "C08.wdb.location");
		if (ret == 0)
			VERIF_ASSERT(location == fsize0 &&
				     g_w.wr.blocks.used == used1,
				     "C08.wdb.location");
	} else if (ret == 0 && used1 > fs1) {
		own = g_blocks[fs1].offset;
		total = 0;
		for (i = 0; i < NB; ++i) {
			if (i >= fs1 && i < used1)
				total += SZ(g_blocks[i].hash);
		}
		if (flags & SQFS_BLK_DONT_DEDUPLICATE) {
			VERIF_ASSERT(location == own && g_cmp_calls == 0 &&
				     g_trunc_calls == 0, "C17.bp.dont_dedup");
		} else if (location != own) {
			VERIF_ASSERT(g_cmp_calls > 0 && g_cmp_ret == 0 &&
				     g_cmp_a == own && g_cmp_b == location &&
				     g_cmp_sz == total,
				     "C08.wdb.match_needs_compare");
		}
	} else if (ret == 0) {
		/* a file without stored blocks */
		VERIF_ASSERT(location == 0 && g_cmp_calls == 0,
			     "C08.wdb.location");
	}

	/* representation invariant of the history */
	if (ret == 0) {
		size_t nu = g_w.wr.blocks.used;

		VERIF_ASSERT(nu <= NB && nu >= (fs1 < used1 ? fs1 : used1) &&
			     nu <= used1, "C08.wdb.wf_preserved");
		for (i = 0; i < NB; ++i) {
			if (i < nu) {
				VERIF_ASSERT(SZ(g_blocks[i].hash) > 0 &&
					     END(i) <= g_fsize,
					     "C08.wdb.wf_preserved");
				if (i + 1 < nu)
					VERIF_ASSERT(END(i) <= g_blocks[i + 1].offset,
						     "C08.wdb.wf_preserved");
			}
		}
	}

	VERIF_COVER(ret == 0 && !stores);
	VERIF_COVER(ret == 0 && stores && !(flags & SQFS_BLK_LAST_BLOCK));
	VERIF_COVER(ret < 0 && g_append_ret < 0);
	VERIF_COVER(ret < 0 && g_write_ret < 0);
	VERIF_COVER(ret == 0 && (flags & SQFS_BLK_LAST_BLOCK) &&
		    (flags & SQFS_BLK_DONT_DEDUPLICATE) && stores);
#if USED >= 1
	VERIF_COVER(ret == 0 && (flags & SQFS_BLK_LAST_BLOCK) && g_cmp_calls > 0 &&
		    location != g_blocks[fs1].offset);
	VERIF_COVER(ret == 0 && (flags & SQFS_BLK_LAST_BLOCK) && g_cmp_calls > 0 &&
		    location == g_blocks[fs1].offset);
#endif
}
