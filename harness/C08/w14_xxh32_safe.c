/* C08 (w14): lib/util/src/xxhash.c xxh32 - the checksum the block processor
 * computes over every block and fragment (C08 itself treats the *value* as
 * uninterpreted; this harness is about the walk over the bytes).
 * Unbounded in the number of iterations: all three loops are closed by loop
 * contracts (contracts/loops/C08_w14.tbl); len is any value <= XXH_MAX, the
 * buffer is an object of exactly len bytes, contents arbitrary.
 *
 *   C08.xxh32.reads_in_range  every 4-byte read is [q, q + 4) inside
 *              [input, input + len); single-byte reads are covered by cbmc's
 *              pointer checks on the exact-size object (XXH_SLACK == 0)
 *   C08.xxh32.tail_short      when the stripe loop is done fewer than 16
 *              bytes are left, after the word loop fewer than 4 (invariants)
 *   terminates                (decreases clauses on all three loops)
 *   no pointer overflow       XXH_SLACK == 3: the same walk over an object
 *              with 3 spare bytes behind the input, --pointer-overflow-check
 *              on. "while (p + 4 <= b_end)" forms p + 4 up to 3 bytes behind
 *              one-past-the-end of [input, input + len) when fewer than 4
 *              bytes are left; cbmc 6.11 reports that as "pointer outside
 *              object bounds" on an exact-size object (C11 6.5.6p8: undefined,
 *              never dereferenced, no wrap-around). The exact-size case runs
 *              without that check, this case proves the cursor never leaves
 *              [input, input + len + 3] and never wraps.
 */
#include <stdlib.h>
#include <string.h>
#include "verif.h"

#ifndef XXH_MAX
#define XXH_MAX 4096
#endif
#ifndef XXH_SLACK
#define XXH_SLACK 0
#endif

static const unsigned char *g_buf;
static size_t g_len;
static unsigned g_reads;

/* XXH_readLE32: memcpy(&value, ptr, 4) */
static void *c08_memcpy(void *dst, const void *src, size_t n)
{
	const unsigned char *s = src;
	unsigned char *d = dst;

	VERIF_ASSERT(n == 4 && VERIF_W_OK(dst, 4), "C08.xxh32.reads_in_range");
	VERIF_ASSERT(VERIF_SAME_OBJECT(s, g_buf) &&
		     VERIF_POINTER_OFFSET(s) >= VERIF_POINTER_OFFSET(g_buf) &&
		     VERIF_POINTER_OFFSET(s) + 4 <= VERIF_POINTER_OFFSET(g_buf) + g_len,
		     "C08.xxh32.reads_in_range");
	d[0] = s[0];
	d[1] = s[1];
	d[2] = s[2];
	d[3] = s[3];
	if (g_reads < 0xFFFFFFFFu)
		g_reads += 1;
	return dst;
}
#define memcpy c08_memcpy
#include "lib/util/src/xxhash.c"
#undef memcpy

void harness(void)
{
	unsigned char *buf;
	sqfs_u32 h;

	g_reads = 0;
	g_len = verif_nd_size("len");
	VERIF_ASSUME(g_len <= XXH_MAX);
	buf = malloc(g_len + XXH_SLACK);
	VERIF_ASSUME(buf != NULL);
	g_buf = buf;

	h = xxh32(buf, g_len);
	(void)h;

	VERIF_COVER(g_len == 0);
	VERIF_COVER(g_len == 15 && g_reads == 3);
	VERIF_COVER(g_len == 16);
	VERIF_COVER(g_len == XXH_MAX);
	VERIF_COVER(g_len == XXH_MAX - 1 && g_reads >= 7);
}
