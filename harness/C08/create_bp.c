/* C08: sqfs_block_processor_create_ex (lib/sqfs/src/block_processor/
 * block_processor.c) - the link between what the packers configure
 * (init_compare.c: desc.file = output file, desc.uncmp = uncompressor) and
 * what chunk_info_equals / enqueue_block / load_frag_block later find in the
 * processor (frag_equal.c MODE 0 requires file, uncmp and table present).
 *
 * Every allocation / constructor may fail (FAIL_AT: the k-th fallible call
 * fails, enumerated by the driver over every position); WORKERS <= 2 (loop over
 * the pool's worker count, unwound). Shape: HAVE_FILE, HAVE_UNCMP (what the
 * caller supplied).
 *
 *  ensures  C08.create.compare_enabled  success ==> byte comparison is enabled
 *              exactly when the caller supplied both objects:
 *              proc->file == desc->file; proc->uncmp is desc->uncmp or a
 *              successfully made copy of it, NULL only if desc->uncmp is NULL;
 *              proc->frag_tbl == desc->tbl, proc->wr == desc->wr,
 *              proc->max_block_size == desc->max_block_size
 *           C08.create.scratch         the processor's scratch area has
 *              max_block_size bytes whenever file and uncmp are present
 *              (load_frag_block reads compressed fragment blocks into it)
 *           C08.create.equality_callback  the fragment hash table is created
 *              with chunk_info_equals as equality callback, no hash callback,
 *              and the processor as user pointer
 *           C08.create.fail_stop       any failing step ==> error, *out
 *              untouched
 */
#include <stdlib.h>
#include <string.h>
#include "verif.h"

#ifndef HAVE_FILE
#define HAVE_FILE 1
#endif
#ifndef HAVE_UNCMP
#define HAVE_UNCMP 1
#endif
#ifndef BS
#define BS 4096
#endif
#ifndef FAIL_AT
#define FAIL_AT 0
#endif
#ifndef WORKERS
#define WORKERS 2
#endif

static void c08_free(void *p);
#define free c08_free
#include "lib/sqfs/src/block_processor/block_processor.c"
#undef free

/* header-only objects: nothing here touches the scratch areas behind them
 * (their requested sizes are recorded by the alloc_flex contract), and a
 * byte-wise zeroing of an object with a 4 KiB payload is very expensive */
static struct { sqfs_block_processor_t proc; } g_p;
static struct { worker_data_t w; } g_w0, g_w1;

static sqfs_file_t g_file;
static sqfs_compressor_t g_cmp, g_uncmp, g_cmp_copy0, g_cmp_copy1, g_uncmp_copy;
static sqfs_block_writer_t g_wr;
static struct { sqfs_object_t base; int opaque; } g_tbl;
static thread_pool_t g_pool;
static struct hash_table g_ht;

static unsigned g_faults, g_proc_allocs, g_worker_allocs, g_cmp_copies;
static size_t g_proc_nmemb, g_worker_nmemb[2], g_worker_count;
static bool g_ht_created, g_ht_destroyed, g_pool_created, g_pool_destroyed;
static bool g_uncmp_copied;
static void *g_worker_ptr[2];

/* Fault injection is a driver case split (FAIL_AT = which fallible call fails,
 * 0 = none): a symbolic early exit in a stub makes the returned pointer an
 * if-then-else term, after which no list walk of the destroy path is decided
 * concretely any more (measured: no result in 5 min). */
static unsigned g_fallible_calls;

static bool nd_fail(const char *tag)
{
	(void)tag;
	g_fallible_calls += 1;
	if (g_fallible_calls == FAIL_AT) {
		g_faults += 1;
		return true;
	}
	return false;
}

void stub_obj_destroy(sqfs_object_t *obj) { (void)obj; }

sqfs_object_t *stub_cmp_copy(const sqfs_object_t *orig)
{
	sqfs_compressor_t *c;

	if (nd_fail("compressor_copy_fails"))
		return NULL;
	if (orig == (const sqfs_object_t *)&g_uncmp) {
		g_uncmp_copied = true;
		c = &g_uncmp_copy;
	} else {
		VERIF_ASSERT(orig == (const sqfs_object_t *)&g_cmp && g_cmp_copies < 2,
			     "C08.create.env_pre");
		c = g_cmp_copies == 0 ? &g_cmp_copy0 : &g_cmp_copy1;
		g_cmp_copies += 1;
	}
	((sqfs_object_t *)c)->destroy = stub_obj_destroy;
	((sqfs_object_t *)c)->copy = stub_cmp_copy;
	return (sqfs_object_t *)c;
}

/* calloc semantics, field by field (a byte-wise memset leaves the pointer
 * fields opaque to constant propagation: every list walk of the destroy path
 * would be unwound to the bound on every failure path) */
static void zero_proc(sqfs_block_processor_t *p)
{
	p->obj.refcount = 0;
	p->obj.destroy = NULL;
	p->obj.copy = NULL;
	p->frag_tbl = NULL;
	p->frag_block = NULL;
	p->wr = NULL;
	p->stats.size = 0;
	p->stats.input_bytes_read = 0;
	p->stats.output_bytes_generated = 0;
	p->stats.data_block_count = 0;
	p->stats.frag_block_count = 0;
	p->stats.sparse_block_count = 0;
	p->stats.total_frag_count = 0;
	p->stats.actual_frag_count = 0;
	p->inode = NULL;
	p->blk_current = NULL;
	p->blk_flags = 0;
	p->blk_index = 0;
	p->user = NULL;
	p->frag_ht = NULL;
	p->free_list = NULL;
	p->max_block_size = 0;
	p->max_backlog = 0;
	p->backlog = 0;
	p->begin_called = false;
	p->file = NULL;
	p->uncmp = NULL;
	p->pool = NULL;
	p->workers = NULL;
	p->io_queue = NULL;
	p->io_seq_num = 0;
	p->io_deq_seq_num = 0;
	p->current_frag = NULL;
	p->cached_frag_blk = NULL;
	p->fblk_in_flight = NULL;
	p->fblk_lookup_error = 0;
}

void *alloc_flex(size_t base_size, size_t item_size, size_t nmemb)
{
	VERIF_ASSERT(item_size == 1 && nmemb <= BS, "C08.create.env_pre");
	if (nd_fail("alloc_fails"))
		return NULL;
	if (base_size == sizeof(sqfs_block_processor_t)) {
		VERIF_ASSERT(g_proc_allocs == 0, "C08.create.env_pre");
		g_proc_allocs += 1;
		g_proc_nmemb = nmemb;
		zero_proc(&g_p.proc);	/* calloc */
		return &g_p.proc;
	}
	VERIF_ASSERT(base_size == sizeof(worker_data_t) && g_worker_allocs < 2,
		     "C08.create.env_pre");
	g_worker_nmemb[g_worker_allocs] = nmemb;
	if (g_worker_allocs++ == 0) {
		g_w0.w.next = NULL;
		g_w0.w.cmp = NULL;
		g_w0.w.scratch_size = 0;
		return &g_w0.w;
	}
	g_w1.w.next = NULL;
	g_w1.w.cmp = NULL;
	g_w1.w.scratch_size = 0;
	return &g_w1.w;
}

static void c08_free(void *p)
{
	if (p == NULL || p == (void *)&g_p.proc || p == (void *)&g_w0.w ||
	    p == (void *)&g_w1.w)
		return;
	VERIF_ASSERT(0, "C08.create.env_pre");
}

size_t stub_get_worker_count(thread_pool_t *pool)
{
	VERIF_ASSERT(pool == &g_pool, "C08.create.env_pre");
	return g_worker_count;
}

void stub_set_worker_ptr(thread_pool_t *pool, size_t idx, void *ptr)
{
	VERIF_ASSERT(pool == &g_pool && idx < g_worker_count, "C08.create.env_pre");
	g_worker_ptr[idx] = ptr;
}

void stub_pool_destroy(thread_pool_t *pool)
{
	VERIF_ASSERT(pool == &g_pool && !g_pool_destroyed, "C08.create.env_pre");
	g_pool_destroyed = true;
}

thread_pool_t *thread_pool_create(size_t num_jobs, thread_pool_worker_t worker)
{
	(void)num_jobs;
	VERIF_ASSERT(worker == process_block, "C08.create.env_pre");
	if (nd_fail("pool_create_fails"))
		return NULL;
	g_pool_created = true;
	g_pool.destroy = stub_pool_destroy;
	g_pool.get_worker_count = stub_get_worker_count;
	g_pool.set_worker_ptr = stub_set_worker_ptr;
	return &g_pool;
}

struct hash_table *
hash_table_create(sqfs_u32 (*key_hash_function)(void *user, const void *key),
		  bool (*key_equals_function)(void *user, const void *a,
					      const void *b))
{
	VERIF_ASSERT(key_hash_function == NULL &&
		     key_equals_function == chunk_info_equals,
		     "C08.create.equality_callback");
	if (nd_fail("hash_table_create_fails"))
		return NULL;
	g_ht_created = true;
	g_ht.key_hash_function = key_hash_function;
	g_ht.key_equals_function = key_equals_function;
	g_ht.user = NULL;
	return &g_ht;
}

void hash_table_destroy(struct hash_table *ht,
			void (*delete_function)(struct hash_entry *entry))
{
	(void)delete_function;
	VERIF_ASSERT(ht == &g_ht && !g_ht_destroyed, "C08.create.env_pre");
	g_ht_destroyed = true;
}

/* reached only through other entry points of the translation unit */
bool is_memory_zero(const void *blob, size_t size) { (void)blob; (void)size; return false; }
sqfs_u32 xxh32(const void *input, const size_t len) { (void)input; (void)len; return 0; }
int sqfs_frag_table_lookup(sqfs_frag_table_t *tbl, sqfs_u32 index,
			   sqfs_fragment_t *out)
{
	(void)tbl; (void)index; (void)out;
	return SQFS_ERROR_OUT_OF_BOUNDS;
}
int dequeue_block(sqfs_block_processor_t *proc) { (void)proc; return 0; }
int enqueue_block(sqfs_block_processor_t *proc, sqfs_block_t *blk)
{
	(void)proc; (void)blk;
	return 0;
}
int stub_read_at(sqfs_file_t *f, sqfs_u64 o, void *b, size_t n)
{
	(void)f; (void)o; (void)b; (void)n;
	return 0;
}
sqfs_s32 stub_do_block(sqfs_compressor_t *c, const sqfs_u8 *in, sqfs_u32 size,
		       sqfs_u8 *out, sqfs_u32 outsize)
{
	(void)c; (void)in; (void)size; (void)out; (void)outsize;
	return 0;
}

static void mk(void *obj, sqfs_object_t *(*copy)(const sqfs_object_t *))
{
	((sqfs_object_t *)obj)->refcount = 1;
	((sqfs_object_t *)obj)->destroy = stub_obj_destroy;
	((sqfs_object_t *)obj)->copy = copy;
}

void harness(void)
{
	sqfs_block_processor_desc_t desc;
	sqfs_block_processor_t *out, *const out0 = (sqfs_block_processor_t *)&g_ht;
	int ret;

	g_faults = g_proc_allocs = g_worker_allocs = g_cmp_copies = 0;
	g_ht_created = g_ht_destroyed = g_pool_created = g_pool_destroyed = false;
	g_uncmp_copied = false;
	g_worker_ptr[0] = g_worker_ptr[1] = NULL;
	g_worker_count = WORKERS;
	g_fallible_calls = 0;

	mk(&g_file, NULL);
	mk(&g_cmp, stub_cmp_copy);
	mk(&g_uncmp, stub_cmp_copy);
	mk(&g_wr, NULL);
	mk(&g_tbl, NULL);

	desc.size = sizeof(desc);
	desc.max_block_size = BS;
	desc.num_workers = verif_nd_u32("num_workers");
	desc.max_backlog = verif_nd_u32("max_backlog");
	desc.cmp = &g_cmp;
	desc.wr = &g_wr;
	desc.tbl = (sqfs_frag_table_t *)&g_tbl;
	desc.file = HAVE_FILE ? &g_file : NULL;
	desc.uncmp = HAVE_UNCMP ? &g_uncmp : NULL;
	out = out0;

	ret = sqfs_block_processor_create_ex(&desc, &out);

	/* ---------------------------------------------------------------- */
	if (ret != 0) {
		VERIF_ASSERT(out == out0, "C08.create.fail_stop");
		VERIF_ASSERT(g_faults > 0, "C08.create.fail_stop");
	} else {
		sqfs_block_processor_t *p = out;

		VERIF_ASSERT(g_faults == 0, "C08.create.fail_stop");
		VERIF_ASSERT(p == &g_p.proc && g_proc_allocs == 1,
			     "C08.create.compare_enabled");
		VERIF_ASSERT(p->file == desc.file, "C08.create.compare_enabled");
		VERIF_ASSERT(HAVE_UNCMP ? (p->uncmp == &g_uncmp ||
					   (g_uncmp_copied && p->uncmp == &g_uncmp_copy))
					: p->uncmp == NULL,
			     "C08.create.compare_enabled");
		VERIF_ASSERT((p->file != NULL && p->uncmp != NULL) ==
			     (HAVE_FILE && HAVE_UNCMP), "C08.create.compare_enabled");
		VERIF_ASSERT(p->frag_tbl == desc.tbl && p->wr == desc.wr &&
			     p->max_block_size == BS,
			     "C08.create.compare_enabled");
		VERIF_ASSERT(p->current_frag == NULL && p->cached_frag_blk == NULL &&
			     p->fblk_in_flight == NULL && p->fblk_lookup_error == 0 &&
			     p->frag_block == NULL, "C08.create.compare_enabled");
		if (HAVE_FILE && HAVE_UNCMP)
			VERIF_ASSERT(g_proc_nmemb == BS, "C08.create.scratch");
		VERIF_ASSERT(g_ht_created && !g_ht_destroyed && p->frag_ht == &g_ht &&
			     g_ht.key_equals_function == chunk_info_equals &&
			     g_ht.key_hash_function == NULL && g_ht.user == (void *)p,
			     "C08.create.equality_callback");
		VERIF_ASSERT(g_pool_created && !g_pool_destroyed && p->pool == &g_pool &&
			     g_worker_allocs == g_worker_count &&
			     g_worker_nmemb[0] == BS, "C08.create.workers");
		VERIF_ASSERT(p->max_backlog >= 3, "C08.create.workers");
	}

#if FAIL_AT == 0
	VERIF_COVER(ret == 0);
#else
	/* either this position exists and fails, or the run has fewer fallible
	 * calls than FAIL_AT and succeeds */
	VERIF_COVER(ret != 0 || g_fallible_calls < FAIL_AT);
#endif
}
