/* C16 (bounded strings): the real split_line (lib/util/src/split_line.c) on
 * the line the printer is specified to emit, built with the spec function Q
 * (spec/quote_spec.h) from a fully symbolic text of LEN bytes (full byte
 * alphabet except newline; an embedded NUL gives the shorter texts, the
 * empty one included), separators " \t" as in fstree_from_file_stream.
 *
 *   FIELD 0 (path):   line = "dir " Q(text) " 0644 0 0"
 *     C16.split.inverts_spec   result OK, exactly 5 tokens, token 1 == text,
 *                              the other tokens are untouched
 *   FIELD 1 (symlink target / file location):
 *                     line = "slink x 0777 0 0 " Q(text)
 *     C16.extra.inverts_spec   result OK, exactly 6 tokens, token 5 == text
 *                              (so add_generic sees exactly one extra
 *                              argument), the other tokens are untouched
 *     C16.line.crlf_safe       the line does not end in a carriage return
 *                              (istream_get_line would eat it)
 */
#include <string.h>
#include <stdlib.h>
#include "verif.h"
#include "quote_spec.h"
#include "util/parse.h"

#ifndef LEN
#define LEN 3
#endif
#ifndef FIELD
#define FIELD 0
#endif

/* Allocation contract for the token list: a typed object with room for
 * MAXTOK pointers (DESIGN 2.4: never a symbolic-size allocation). The stub
 * requires that split_line asks for no more than that and for at least the
 * list it is about to fill; the list bounds themselves are C07's obligation
 * (C07.split.in_place). Any call may fail. */
#define MAXTOK 12
struct spl {
	split_line_t s;
	char *args[MAXTOK];
};
static struct spl *g_spl;

#ifdef VERIF_REPLAY
#define calloc c16_calloc
#define realloc c16_realloc
#define free c16_free
#endif

void *calloc(size_t n, size_t sz)
{
	static struct spl the_list;

	VERIF_ASSERT(n == 1 && sz == sizeof(split_line_t) && g_spl == NULL,
		     "C16.env.alloc_pre");
	if (verif_nd_bool("calloc_fail"))
		return NULL;
	the_list.s.count = 0;
	g_spl = &the_list;
	return g_spl;
}

void *realloc(void *p, size_t sz)
{
	VERIF_ASSERT(p == g_spl && g_spl != NULL &&
		     sz == sizeof(split_line_t) +
		     (g_spl->s.count + 1) * sizeof(char *) &&
		     g_spl->s.count + 1 <= MAXTOK, "C16.env.alloc_pre");
	if (verif_nd_bool("realloc_fail"))
		return NULL;
	return p;
}

void free(void *p)
{
	VERIF_ASSERT(p == NULL || p == g_spl, "C16.env.alloc_pre");
	if (p != NULL)
		g_spl = NULL;
}

#include "lib/util/src/split_line.c"

#define LINEMAX (2 * LEN + 3 + 24)

static bool tok_eq(const char *tok, const char *want)
{
	size_t i;

	for (i = 0; i < LINEMAX; ++i) {
		if (tok[i] != want[i])
			return false;
		if (want[i] == '\0')
			return true;
	}
	return false;
}

void harness(void)
{
	char text[LEN + 1], q[2 * LEN + 3], line[LINEMAX];
	split_line_t *sp = NULL;
	size_t o = 0, i, n;
	int ret;

	verif_nd_bytes(text, LEN, "text");
	text[LEN] = '\0';
	for (i = 0; i < LEN; ++i)
		VERIF_ASSUME(text[i] != '\n');
#if FIELD == 0
	/* a path is never empty */
	VERIF_ASSUME(text[0] != '\0');
#endif
	spec_Q(text, q);

#if FIELD == 0
	{
		const char *pre = "dir ", *post = " 0644 0 0";

		for (i = 0; pre[i] != '\0'; ++i)
			line[o++] = pre[i];
		for (i = 0; q[i] != '\0'; ++i)
			line[o++] = q[i];
		for (i = 0; post[i] != '\0'; ++i)
			line[o++] = post[i];
	}
#else
	{
		const char *pre = "slink x 0777 0 0 ";

		for (i = 0; pre[i] != '\0'; ++i)
			line[o++] = pre[i];
		for (i = 0; q[i] != '\0'; ++i)
			line[o++] = q[i];
	}
#endif
	line[o] = '\0';
	n = o;

#if FIELD == 1
	VERIF_ASSERT(n > 0 && line[n - 1] != '\r', "C16.line.crlf_safe");
#endif

	ret = split_line(line, n, " \t", &sp);

	VERIF_COVER(ret == SPLIT_LINE_OK);
	VERIF_COVER(ret == SPLIT_LINE_OK && spec_must_quote(text));
	VERIF_COVER(ret == SPLIT_LINE_OK && !spec_must_quote(text));
	if (ret == SPLIT_LINE_ALLOC)
		return; /* out of memory: gensquashfs fails, nothing is mis-read */

#if FIELD == 0
	VERIF_ASSERT(ret == SPLIT_LINE_OK, "C16.split.inverts_spec");
	if (ret != SPLIT_LINE_OK)
		return;
	VERIF_ASSERT(sp != NULL && sp->count == 5, "C16.split.inverts_spec");
	if (sp->count != 5)
		return;
	VERIF_ASSERT(tok_eq(sp->args[1], text), "C16.split.inverts_spec");
	VERIF_ASSERT(tok_eq(sp->args[0], "dir") && tok_eq(sp->args[2], "0644") &&
		     tok_eq(sp->args[3], "0") && tok_eq(sp->args[4], "0"),
		     "C16.split.inverts_spec");
#else
	VERIF_ASSERT(ret == SPLIT_LINE_OK, "C16.extra.inverts_spec");
	if (ret != SPLIT_LINE_OK)
		return;
	VERIF_ASSERT(sp != NULL && sp->count == 6, "C16.extra.inverts_spec");
	if (sp->count != 6)
		return;
	VERIF_ASSERT(tok_eq(sp->args[5], text), "C16.extra.inverts_spec");
	VERIF_ASSERT(tok_eq(sp->args[0], "slink") && tok_eq(sp->args[1], "x") &&
		     tok_eq(sp->args[2], "0777") && tok_eq(sp->args[3], "0") &&
		     tok_eq(sp->args[4], "0"), "C16.extra.inverts_spec");
#endif
	free(sp);
}
