/* C16 (w16), UNBOUNDED: needs_quotes of bin/rdsquashfs/src/describe.c on
 * every C string shorter than W16_MAX bytes (object size, length and contents
 * symbolic; the one loop is closed by the loop contract of
 * contracts/loops/C16_w16.tbl, nothing is unwound).
 *
 *  requires  p is a string object of n <= W16_MAX bytes, L = strlen(p)
 *            (p[L] == 0 and no NUL below L)
 *  C16.needs_quotes.true_if_special   some position w < L holds space, tab,
 *                                     CR or '"'  =>  the result is true
 *  C16.needs_quotes.false_if_clean    no position below L holds one of them
 *                                     =>  the result is false
 *            (together: the result is true IFF the string contains one)
 *  C16.needs_quotes.scanned_clean     (loop invariant + its consequence) a
 *                                     false result means the arbitrary
 *                                     witness position holds none
 *  in bounds / terminates             pointer checks, decreases clause
 */
#include <stdlib.h>
#include "C16/w16_out.h"
#include "bin/rdsquashfs/src/describe.c"

void harness(void)
{
	size_t L, w;
	char *p;
	bool clean, ret;
	int c;

	w16_out_reset();
	p = w16_string(&L, "s");
	g_sA = g_sB = p;
	g_LA = g_LB = L;
	w = verif_nd_size("w");
	VERIF_ASSUME(w < L || L == 0);
	g_nq_wA = g_nq_wB = w;
	clean = verif_nd_bool("clean");
	if (clean)
		VERIF_ASSUME(W16_ALL_CLEAN(p, L));
	VERIF_COVER(clean && L > 3);
	VERIF_COVER(!clean && L > 3);

	ret = needs_quotes(p);

	c = p[L == 0 ? 0 : w];
	if (clean)
		VERIF_ASSERT(!ret, "C16.needs_quotes.false_if_clean");
	if (L > 0 && W16_QCH(c))
		VERIF_ASSERT(ret, "C16.needs_quotes.true_if_special");
	if (!ret)
		VERIF_ASSERT(L == 0 || !W16_QCH(c), "C16.needs_quotes.scanned_clean");
	VERIF_COVER(ret && L > 3 && !W16_QCH(p[0]) && !W16_QCH(p[1]));
	VERIF_COVER(!ret && L > 3);
	VERIF_COVER(!ret && L == 0);
}
