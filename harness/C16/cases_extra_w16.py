# Round-2 extension (worker w16): unbounded loop-contract proofs of the string
# walkers C16 stands on (describe.c printer, split_line's quoted-token decoder).
FUNCTIONS = ["needs_quotes", "print_part", "print_field",
             "split_line (quoted-token decoder, as inverse of the printer)"]
TRUSTED = [
    "stdout = counting/witness capture + field-decoder monitor of harness/C16/w16_out.h (fputc only; the monitor is the "
    "documented pack-file field syntax as an O(1)-state automaton)",
]
ASSUMPTIONS = [
    "w16 unbounded proofs: strings shorter than W16_MAX bytes (256 in the quick tier, 4096 in the thorough tier); object "
    "size, length and contents symbolic below that cap; 'L is the length of the string' is a constant-range quantified "
    "precondition that cbmc expands (no quantifier reaches the solver)",
    "w16: function contracts are enforced by the harness (assume/assert), loop contracts by goto-instrument --apply-loop-contracts (plain mode)",
]

def _caps(quick=256, thorough=4096):
    return [dict(id="max%d" % quick, defines={"W16_MAX": quick}, tier="quick"),
            dict(id="max%d" % thorough, defines={"W16_MAX": thorough}, tier="thorough")]

_INC = ["bin/rdsquashfs/src"]

HARNESSES = [
    dict(name="w16_needs_quotes", file="w16_needs_quotes.c", include_dirs=_INC,
         loops=["needs_quotes"], loop_tables=["C16_w16"], label="proved",
         pre_instrument_flags=["--drop-unused-functions"],
         native=False, timeout=1500, cases=_caps()),
    dict(name="w16_print_part", file="w16_print_part.c", include_dirs=_INC,
         loops=["print_part"], loop_tables=["C16_w16"], label="proved",
         pre_instrument_flags=["--drop-unused-functions"],
         native=False, timeout=1500,
         cases=[dict(c, id="q%d_%s" % (q, c["id"]), defines=dict(c["defines"], QUOTED=q))
                for q in (0, 1) for c in _caps()]),
    dict(name="w16_print_field", file="w16_print_field.c", include_dirs=_INC,
         loops=["needs_quotes", "print_part"], loop_tables=["C16_w16"], label="proved",
         pre_instrument_flags=["--drop-unused-functions"],
         native=False, timeout=2400,
         cases=[dict(c, id="pre%d_%s" % (q, c["id"]), defines=dict(c["defines"], PREFIX=q))
                for q, caps in ((0, _caps(256, 1024)),) for c in caps] +
               # two string objects: ~170 s already at cap 64, thorough tier only
               [dict(id="pre1_max%d" % m, defines={"W16_MAX": m, "PREFIX": 1}, tier="thorough") for m in (64, 256)]),
]
