/* C16 (bounded strings): the real fstree_from_file_stream
 * (bin/gensquashfs/src/fstree_from_file.c) reading one line of describe's
 * shape whose last field is Q(text) (spec/quote_spec.h), text = LEN fully
 * symbolic bytes (no NUL, no newline), line ending "\n" or "\r\n" (EOL).
 * istream_get_line is replaced by its contract = the line specification of
 * C12 (spec/getline_spec.h, obligation C12.get_line.text) evaluated with the
 * flags the caller really passes; split_line is replaced by a probe that
 * records what it is given.
 *
 *   C16.line.survives_reader   the text handed to the tokenizer is the line
 *       as printed, byte for byte (no trimming or comment handling eats a
 *       part of the last field), with its exact length, and " \t" as the
 *       separator set the other C16 harnesses assume
 */
#include <string.h>
#include <stdlib.h>
#ifndef LEN
#define LEN 2
#endif
#ifndef EOL
#define EOL 0
#endif
#include "C16/capture.h"
#include "quote_spec.h"
#include "getline_spec.h"
#include "mkfs.h"

#define PRE "l x 7 0 0 "  /* five short leading fields; only the last field matters here */
#define LINEMAX (sizeof(PRE) + 2 * LEN + 3 + 2)

static unsigned char g_text[LINEMAX];
static size_t g_text_n, g_cons;
static char g_line[LINEMAX];
static bool g_line_live;
static unsigned g_splits;
static char g_seen[LINEMAX];
static size_t g_seen_len;
static bool g_sep_ok;
static int g_flags_seen;

#ifdef VERIF_REPLAY
#define free c16_free
void free(void *p);
#endif

/* contract of istream_get_line (C12) */
int istream_get_line(sqfs_istream_t *strm, char **out, size_t *line_num,
		     int flags)
{
	size_t start = 0, len = 0, consumed = 0, skipped = 0, i;
	int r;

	(void)strm;
	g_flags_seen = flags;
	*out = NULL;
	r = spec_get_line(g_text + g_cons, g_text_n - g_cons, flags, &start,
			  &len, &consumed, &skipped);
	*line_num += skipped;
	if (r != 0) {
		g_cons = g_text_n;
		return 1;
	}
	VERIF_ASSERT(len < LINEMAX && !g_line_live, "C16.env.get_line_fits");
	for (i = 0; i < len; ++i)
		*(unsigned char *)&g_line[i] = g_text[g_cons + start + i];
	g_line[len] = '\0';
	g_line_live = true;
	g_cons += consumed;
	*out = g_line;
	return 0;
}

void free(void *p)
{
	VERIF_ASSERT(p == NULL || (p == (void *)g_line && g_line_live),
		     "C16.env.alloc_pre");
	if (p != NULL)
		g_line_live = false;
}

/* probe in place of split_line: record, then report "out of memory" so that
 * the caller stops without looking at tokens */
int split_line(char *line, size_t len, const char *sep, split_line_t **out)
{
	size_t i;

	(void)out;
	++g_splits;
	g_seen_len = len;
	for (i = 0; i < LINEMAX; ++i) {
		g_seen[i] = line[i];
		if (line[i] == '\0')
			break;
	}
	g_sep_ok = sep[0] == ' ' && sep[1] == '\t' && sep[2] == '\0';
	return SPLIT_LINE_ALLOC;
}

static const char *stub_filename(sqfs_istream_t *strm)
{
	(void)strm;
	return "describe.txt";
}

#ifdef VERIF_REPLAY
/* native replay only: handle_line() and fstree_from_file() are never reached
 * (the probe stops the reader) but their callees must exist for the link */
int canonicalize_name(char *f) { (void)f; return -1; }
int parse_uint_oct(const char *in, size_t len, size_t *diff, sqfs_u64 vmin, sqfs_u64 vmax, sqfs_u64 *out) { (void)in; (void)len; (void)diff; (void)vmin; (void)vmax; (void)out; return -1; }
int parse_uint(const char *in, size_t len, size_t *diff, sqfs_u64 vmin, sqfs_u64 vmax, sqfs_u64 *out) { (void)in; (void)len; (void)diff; (void)vmin; (void)vmax; (void)out; return -1; }
void split_line_remove_front(split_line_t *sep, size_t count) { (void)sep; (void)count; }
void *alloc_flex(size_t a, size_t b, size_t c) { (void)a; (void)b; (void)c; return NULL; }
tree_node_t *fstree_add_generic(fstree_t *fs, const sqfs_dir_entry_t *ent, const char *extra) { (void)fs; (void)ent; (void)extra; return NULL; }
int glob_files(fstree_t *fs, const char *filename, size_t line_num, const sqfs_dir_entry_t *ent, const char *basepath, unsigned int glob_flags, split_line_t *extra) { (void)fs; (void)filename; (void)line_num; (void)ent; (void)basepath; (void)glob_flags; (void)extra; return -1; }
int sqfs_istream_open_file(sqfs_istream_t **out, const char *path, sqfs_u32 flags) { (void)out; (void)path; (void)flags; return -1; }
void sqfs_perror(const char *file, const char *action, int error_code) { (void)file; (void)action; (void)error_code; }
#endif

#include "bin/gensquashfs/src/fstree_from_file.c"

void harness(void)
{
#ifndef VERIF_REPLAY
	static FILE f_out, f_err;
#endif
	static sqfs_istream_t in;
	static fstree_t fs;
	static options_t opt;
	char text[LEN + 1], q[2 * LEN + 3], want[LINEMAX];
	size_t o = 0, i;
	int ret;

#ifndef VERIF_REPLAY
	stdout = &f_out;
	stderr = &f_err;
#endif
	verif_nd_bytes(text, LEN, "text");
	text[LEN] = '\0';
	for (i = 0; i < LEN; ++i)
		VERIF_ASSUME(text[i] != '\n' && text[i] != '\0');
	spec_Q(text, q);
	o = exp_s(want, 0, PRE);
	o = exp_s(want, o, q);
	for (i = 0; i < o; ++i)
		g_text[i] = *(unsigned char *)&want[i];
#if EOL == 1
	g_text[o++] = '\r';
#endif
	g_text[o++] = '\n';
	g_text_n = o;

	in.get_filename = stub_filename;

	ret = fstree_from_file_stream(&fs, &in, &opt);

	VERIF_ASSERT(ret == -1 && g_splits == 1, "C16.line.survives_reader");
	VERIF_ASSERT(g_seen_len == strlen(want) && strcmp(g_seen, want) == 0,
		     "C16.line.survives_reader");
	VERIF_ASSERT(g_sep_ok, "C16.line.survives_reader");
	VERIF_ASSERT(!g_line_live, "C16.env.alloc_pre");
	VERIF_COVER(spec_must_quote(text));
	VERIF_COVER(!spec_must_quote(text));
}
