/* C16 (bounded strings): the real handle_line / add_generic / add_file /
 * add_device of fstree_from_file.c on the token list that split_line
 * delivers for a line of describe's shape (C16.line.shape), KIND as in
 * describe.c. Path and extra text are symbolic (LEN bytes, any byte but NUL
 * and newline, path a clean relative path), the numeric fields are the
 * concrete digit strings "0644" "1000" "7" (number formatting is libc's on
 * the printing side), real parse_uint / parse_uint_oct / canonicalize_name,
 * default options (--keep uid/gid as in the file), fstree_add_generic is the
 * contract that records what it is given.
 *
 *   C16.line.accepted   the line is accepted (unless the tree refuses the
 *       entry or memory runs out), exactly one entry is added, with the
 *       printed path, the type bits of the printed kind, the printed
 *       permission bits / uid / gid, and the extra argument is: the symlink
 *       target for slink, the location for file (the path itself when
 *       describe printed none), nothing for dir / pipe / sock / nod; for nod
 *       the device type and numbers are the printed ones
 */
#include <string.h>
#include <stdlib.h>
#include <sys/sysmacros.h>
#ifndef LEN
#define LEN 2
#endif
#ifndef KIND
#define KIND 0
#endif
#include "C16/capture.h"
#include "canon_spec.h"
#include "mkfs.h"

size_t g_canon_L;

#ifndef VERIF_REPLAY
unsigned int gnu_dev_major(dev_t dev)
{
	return (unsigned int)(((dev & 0x00000000000fff00ULL) >> 8) |
			      ((dev & 0xfffff00000000000ULL) >> 32));
}

unsigned int gnu_dev_minor(dev_t dev)
{
	return (unsigned int)((dev & 0x00000000000000ffULL) |
			      ((dev & 0x00000ffffff00000ULL) >> 12));
}

dev_t gnu_dev_makedev(unsigned int maj, unsigned int min)
{
	dev_t d;

	d = ((dev_t)(maj & 0x00000fffu)) << 8;
	d |= ((dev_t)(maj & 0xfffff000u)) << 32;
	d |= ((dev_t)(min & 0x000000ffu)) << 0;
	d |= ((dev_t)(min & 0xffffff00u)) << 12;
	return d;
}
#endif

/* C locale classification table behind glibc's isdigit() macro */
#ifndef VERIF_REPLAY
#define DG 0x0800 /* _ISdigit */
static const unsigned short c16_ctype[384] = {
	[128 + '0'] = DG, [128 + '1'] = DG, [128 + '2'] = DG, [128 + '3'] = DG,
	[128 + '4'] = DG, [128 + '5'] = DG, [128 + '6'] = DG, [128 + '7'] = DG,
	[128 + '8'] = DG, [128 + '9'] = DG,
};
const unsigned short **__ctype_b_loc(void)
{
	static const unsigned short *p = c16_ctype + 128;
	return &p;
}
#endif

/* ---- contracts ---------------------------------------------------------- */
struct dent {
	sqfs_dir_entry_t e;
	char name[LEN + 2];
};

#ifdef VERIF_REPLAY
#define free c16_free
#endif

static struct dent g_ent;
static bool g_ent_live, g_alloc_failed, g_add_refused;

void *alloc_flex(size_t base_size, size_t item_size, size_t nmemb)
{
	VERIF_ASSERT(base_size == sizeof(sqfs_dir_entry_t) && item_size == 1 &&
		     nmemb <= sizeof(g_ent.name) && !g_ent_live,
		     "C16.env.alloc_pre");
	if (verif_nd_bool("alloc_fail")) {
		g_alloc_failed = true;
		return NULL;
	}
	memset(&g_ent, 0, sizeof(g_ent));
	g_ent_live = true;
	return &g_ent;
}

void free(void *p)
{
	VERIF_ASSERT(p == NULL || (p == (void *)&g_ent && g_ent_live),
		     "C16.env.alloc_pre");
	if (p != NULL)
		g_ent_live = false;
}

static unsigned g_added;
static char g_add_name[LEN + 2];
static char g_add_extra[LEN + 2];
static bool g_add_has_extra;
static sqfs_u16 g_add_mode, g_add_flags;
static sqfs_u64 g_add_uid, g_add_gid, g_add_rdev;
static tree_node_t g_node;

tree_node_t *fstree_add_generic(fstree_t *fs, const sqfs_dir_entry_t *ent,
				const char *extra)
{
	size_t i;

	(void)fs;
	++g_added;
	for (i = 0; i < sizeof(g_add_name); ++i) {
		g_add_name[i] = ent->name[i];
		if (ent->name[i] == '\0')
			break;
	}
	g_add_has_extra = extra != NULL;
	if (extra != NULL) {
		for (i = 0; i < sizeof(g_add_extra); ++i) {
			g_add_extra[i] = extra[i];
			if (extra[i] == '\0')
				break;
		}
	}
	g_add_mode = ent->mode;
	g_add_flags = ent->flags;
	g_add_uid = ent->uid;
	g_add_gid = ent->gid;
	g_add_rdev = ent->rdev;
	if (verif_nd_bool("add_fail")) {
		g_add_refused = true;
		errno = verif_nd_int("errno");
		return NULL;
	}
	return &g_node;
}

int glob_files(fstree_t *fs, const char *filename, size_t line_num,
	       const sqfs_dir_entry_t *ent, const char *basepath,
	       unsigned int glob_flags, split_line_t *extra)
{
	(void)fs; (void)filename; (void)line_num; (void)ent; (void)basepath;
	(void)glob_flags; (void)extra;
	VERIF_ASSERT(0, "C16.line.accepted");
	return -1;
}

#include "lib/util/src/canonicalize_name.c"
#include "lib/util/src/parse_int.c"
#include "lib/util/src/split_line.c"
#include "bin/gensquashfs/src/fstree_from_file.c"

struct spl {
	split_line_t s;
	char *args[8];
};

static const char *const kind_kw[7] = {
	"sock", "slink", "pipe", "file", "file", "nod", "dir"
};
static const sqfs_u16 kind_mode[7] = {
	S_IFSOCK, S_IFLNK, S_IFIFO, S_IFREG, S_IFREG, S_IFCHR, S_IFDIR
};

static bool str_eq(const char *a, const char *b)
{
	size_t i;

	for (i = 0; i < LEN + 2; ++i) {
		if (a[i] != b[i])
			return false;
		if (a[i] == '\0')
			return true;
	}
	return false;
}

void harness(void)
{
#ifndef VERIF_REPLAY
	static FILE f_out, f_err;
#endif
	static struct spl line;
	static fstree_t fs;
	static options_t opt;
	static char kw[8], path[LEN + 1], extra[LEN + 1];
	static char f_mode[5] = "0644", f_uid[5] = "1000", f_gid[2] = "7";
	static char f_dev[2] = "c", f_maj[3] = "12", f_min[4] = "345";
	bool is_blk = false;
	size_t i, n = 0;
	int ret;

#ifndef VERIF_REPLAY
	stdout = &f_out;
	stderr = &f_err;
#endif
	strcpy(kw, kind_kw[KIND]);
	verif_nd_bytes(path, LEN, "path");
	path[LEN] = '\0';
	verif_nd_bytes(extra, LEN, "extra");
	extra[LEN] = '\0';
	for (i = 0; i < LEN; ++i)
		VERIF_ASSUME(path[i] != '\n' && extra[i] != '\n');
	/* describe prints canonical, non-empty paths (C06/C18) */
	VERIF_ASSUME(path[0] != '\0' && spec_is_clean(path));
	{
		char tmp[LEN + 1];

		VERIF_ASSUME(spec_canon(path, tmp) == 0);
	}

	line.args[n++] = kw;
	line.args[n++] = path;
	line.args[n++] = f_mode;
	line.args[n++] = f_uid;
	line.args[n++] = f_gid;
#if KIND == 1 || KIND == 4
	/* split_line never delivers... it may: an empty quoted token */
	line.args[n++] = extra;
#elif KIND == 5
	is_blk = verif_nd_bool("blk");
	f_dev[0] = is_blk ? 'b' : 'c';
	line.args[n++] = f_dev;
	line.args[n++] = f_maj;
	line.args[n++] = f_min;
#endif
	line.s.count = n;

	opt.dirscan_flags = DIR_SCAN_KEEP_UID | DIR_SCAN_KEEP_GID;
	fs.defaults.mtime = verif_nd_u32("mtime");

	ret = handle_line(&fs, "describe.txt", 1, &line.s, &opt);

	VERIF_COVER(ret == 0);
	VERIF_COVER(ret != 0);
	VERIF_ASSERT(!g_ent_live, "C16.env.alloc_pre");
	VERIF_ASSERT(g_added <= 1, "C16.line.accepted");
	if (ret != 0) {
		/* only for reasons outside the format: allocation, or the
		 * tree refusing the entry */
		VERIF_ASSERT(g_alloc_failed || g_add_refused,
			     "C16.line.accepted");
		VERIF_ASSERT(g_err_msgs > 0, "C16.line.failure_reported");
		return;
	}
	VERIF_ASSERT(g_added == 1, "C16.line.accepted");
	VERIF_ASSERT(str_eq(g_add_name, path), "C16.line.accepted");
	VERIF_ASSERT((g_add_mode & 07777) == 0644 && g_add_uid == 1000 &&
		     g_add_gid == 7, "C16.line.accepted");
#if KIND == 5
	VERIF_ASSERT((g_add_mode & S_IFMT) == (is_blk ? S_IFBLK : S_IFCHR),
		     "C16.line.accepted");
	VERIF_ASSERT(major(g_add_rdev) == 12 && minor(g_add_rdev) == 345,
		     "C16.line.accepted");
	VERIF_ASSERT(!g_add_has_extra, "C16.line.accepted");
#else
	VERIF_ASSERT((g_add_mode & S_IFMT) == kind_mode[KIND],
		     "C16.line.accepted");
#endif
	VERIF_ASSERT(g_add_flags == 0, "C16.line.accepted");
#if KIND == 1 || KIND == 4
	VERIF_ASSERT(g_add_has_extra && str_eq(g_add_extra, extra),
		     "C16.line.accepted");
#elif KIND == 3
	VERIF_ASSERT(g_add_has_extra && str_eq(g_add_extra, path),
		     "C16.line.accepted");
#elif KIND != 5
	VERIF_ASSERT(!g_add_has_extra, "C16.line.accepted");
#endif
	(void)is_blk;
}
