# C16 (lead, round 2): the pack-file reader sees the listing through
# istream_get_line over the file istream. The C16 harness `stream` replaces
# istream_get_line by its contract (the line specification of C12), so the
# real line reader and the real buffer refill are checked here as well, by the
# harnesses of harness/C12 (seeds C16-4: CR dropped per buffer fill instead of
# per line; C16-5: a short read(2) taken for end of file, so a listing that
# arrives through a pipe is cut off).
import os as _os, sys as _sys
_sys.path.insert(0, _os.path.join(_os.path.dirname(_os.path.abspath(__file__)), "..", "..", "tools"))
from borrow import borrow as _borrow

HARNESSES = _borrow(__file__, "C12", ["get_line", "precache", "get_buffered", "advance"])
# the line reader cases that matter for the pack file: flags LTRIM|SKIP_EMPTY (5)
# and the plain reader (0); keep the quick tier short
for _h in HARNESSES:
    if _h["name"] == "c12_get_line":
        _h["cases"] = [c for c in _h["cases"]
                       if c["defines"]["FLAGS"] in (0, 5) or c.get("tier") == "thorough"]
FUNCTIONS = ["istream_get_line, file istream precache / get_buffered_data / advance_buffer (via harness/C12)"]
TRUSTED = []
ASSUMPTIONS = []
