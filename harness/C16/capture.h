/* C16 environment: stdout is a capture buffer (<= 64 bytes, DESIGN 2.4),
 * stderr a counter. The printf family is a contract that interprets exactly
 * the conversions describe.c uses; %o / %u produce the one-character
 * placeholder '7' and the converted values are recorded in g_nums (numeric
 * formatting is libc's, DESIGN section 3 - no claim depends on digits).
 */
#ifndef C16_CAPTURE_H
#define C16_CAPTURE_H
#include <stdio.h>
#include <stdarg.h>
#include <string.h>
#include "verif.h"

#define CAP_MAX 64
static char g_cap[CAP_MAX];
static size_t g_cap_n;
static bool g_cap_ovf, g_fmt_bad;
static unsigned g_nums[8];
static unsigned g_nnums;
static unsigned g_err_msgs;
static char *g_sp; /* sprintf destination, NULL = stdout capture */
static size_t g_sp_left;

#ifdef VERIF_REPLAY
#define fputs c16_fputs
#define fputc c16_fputc
#define fwrite c16_fwrite
#define printf c16_printf
#define fprintf c16_fprintf
#define sprintf c16_sprintf
#define perror c16_perror
#define strerror c16_strerror
#endif

static void out_c(char c)
{
	if (g_sp != NULL) {
		if (g_sp_left > 1) {
			*g_sp++ = c;
			--g_sp_left;
		} else {
			g_cap_ovf = true;
		}
		return;
	}
	if (g_cap_n + 1 < CAP_MAX)
		g_cap[g_cap_n++] = c;
	else
		g_cap_ovf = true;
}

static void vfmt(const char *fmt, va_list ap)
{
	for (; *fmt != '\0'; ++fmt) {
		if (*fmt != '%') {
			out_c(*fmt);
			continue;
		}
		++fmt;
		switch (*fmt) {
		case 's': {
			const char *s = va_arg(ap, const char *);

			for (; *s != '\0'; ++s)
				out_c(*s);
			break;
		}
		case 'c':
			out_c((char)va_arg(ap, int));
			break;
		case 'o':
		case 'u':
			if (g_nnums < 8)
				g_nums[g_nnums++] = va_arg(ap, unsigned int);
			else
				g_fmt_bad = true;
			out_c('7');
			break;
		default:
			g_fmt_bad = true;
			return;
		}
	}
}

static bool is_out(FILE *fp)
{
	return fp == stdout;
}

int fputs(const char *s, FILE *fp)
{
	if (!is_out(fp)) {
		++g_err_msgs;
		return 0;
	}
	for (; *s != '\0'; ++s)
		out_c(*s);
	return 0;
}

int fputc(int c, FILE *fp)
{
	if (is_out(fp))
		out_c((char)c);
	else
		++g_err_msgs;
	return c;
}

size_t fwrite(const void *p, size_t sz, size_t n, FILE *fp)
{
	size_t i;

	VERIF_ASSERT(sz == 1 && VERIF_R_OK(p, n), "C16.env.fwrite_pre");
	if (!is_out(fp)) {
		++g_err_msgs;
		return n;
	}
	for (i = 0; i < n; ++i)
		out_c(((const char *)p)[i]);
	return n;
}

int printf(const char *fmt, ...)
{
	va_list ap;

	va_start(ap, fmt);
	vfmt(fmt, ap);
	va_end(ap);
	return 0;
}

int sprintf(char *buf, const char *fmt, ...)
{
	va_list ap;

	/* describe.c formats the device triple into a char[32] */
	g_sp = buf;
	g_sp_left = 32;
	va_start(ap, fmt);
	vfmt(fmt, ap);
	va_end(ap);
	*g_sp = '\0';
	g_sp = NULL;
	return 0;
}

int fprintf(FILE *fp, const char *fmt, ...)
{
	(void)fmt;
	VERIF_ASSERT(!is_out(fp), "C16.env.diagnostics_to_stderr");
	++g_err_msgs;
	return 0;
}

void perror(const char *s)
{
	(void)s;
	++g_err_msgs;
}

char *strerror(int e)
{
	static char m[2] = "E";
	(void)e;
	return m;
}

#ifndef VERIF_REPLAY
/* libc model (cbmc 6.11 ships none): first byte of s that is in accept */
char *strpbrk(const char *s, const char *accept)
{
	size_t i, j;

	for (i = 0; s[i] != '\0'; ++i) {
		for (j = 0; accept[j] != '\0'; ++j) {
			if (s[i] == accept[j])
				return (char *)s + i;
		}
	}
	return NULL;
}
#endif

/* append to an expectation buffer */
static size_t exp_s(char *dst, size_t o, const char *s)
{
	size_t i;

	for (i = 0; s[i] != '\0'; ++i)
		dst[o++] = s[i];
	dst[o] = '\0';
	return o;
}
#endif
