/* C16 (w16), UNBOUNDED: print_part of bin/rdsquashfs/src/describe.c on every
 * C string shorter than W16_MAX bytes (object size, length, contents
 * symbolic), both values of `quoted` (driver case split QUOTED = 0 / 1), the
 * loop closed by the loop contract of contracts/loops/C16_w16.tbl. stdout is
 * the counting / witness capture + field-decoder monitor of w16_out.h; the
 * stream position and the decoder counters at the call are symbolic (the
 * function is called in the middle of a line).
 *
 *  requires  L = strlen(p); quoted => the reader is inside a quoted field
 *            with no escape pending (the caller has written the opening '"')
 *  QUOTED == 0
 *   C16.print_part.count        exactly L bytes are written
 *   C16.print_part.in_order     the byte written at (arbitrary) position
 *                               n0 + k, k < L, is p[k]
 *  QUOTED == 1
 *   C16.print_part.count        exactly L + E bytes are written, E = number
 *                               of escape backslashes the reader consumes,
 *                               E <= L
 *   C16.print_part.decodes      the reader is still inside the quotes, no
 *                               escape pending, no syntax error, and has
 *                               decoded exactly L more bytes
 *   C16.print_part.in_order     the (arbitrary) k-th decoded byte is p[k]:
 *                               every input byte once, in order
 *   C16.print_part.escape_iff   ... and it was written behind a backslash
 *                               iff it is '"' or '\\' (so E = the number of
 *                               '"' and '\\' in p, and the output never
 *                               holds a bare '"')
 *  both  C16.print_part.stdout_only  nothing goes to another stream; an
 *                               earlier witness is not disturbed
 *  in bounds / terminates       pointer checks, decreases clause
 */
#include <stdlib.h>
#include "C16/w16_out.h"
#include "bin/rdsquashfs/src/describe.c"

#ifndef QUOTED
#define QUOTED 1
#endif

void harness(void)
{
#ifndef VERIF_REPLAY
	static FILE f_out;
#endif
	size_t L, n0, d0, e0, k;
	char *p;

#ifndef VERIF_REPLAY
	stdout = &f_out;
#endif
	w16_out_reset();
	p = w16_string(&L, "s");
	g_sA = g_sB = p;
	g_LA = g_LB = L;
	g_nq_wA = g_nq_wB = 0;
	n0 = verif_nd_size("n0");
	d0 = verif_nd_size("d0");
	e0 = verif_nd_size("e0");
	VERIF_ASSUME(n0 <= 65536 && d0 <= 65536 && e0 <= 65536);
	g_out_n = n0;
	g_dq_n = d0;
	g_dq_nesc = e0;
	g_dq_mode = QUOTED ? 2 : verif_nd_int("mode") & 3;
	g_out_w = verif_nd_size("ow");
	g_dq_w = verif_nd_size("dw");
	VERIF_COVER(L > 3);

	print_part(p, QUOTED);

	VERIF_ASSERT(g_err_n == 0, "C16.print_part.stdout_only");
	if (g_out_w < n0)
		VERIF_ASSERT(g_out_wv == -1000, "C16.print_part.stdout_only");
#if QUOTED == 0
	VERIF_ASSERT(g_out_n == n0 + L, "C16.print_part.count");
	if (g_out_w >= n0 && g_out_w < n0 + L) {
		k = g_out_w - n0;
		VERIF_ASSERT(g_out_wv == p[k], "C16.print_part.in_order");
		VERIF_COVER(k > 2);
	}
#else
	VERIF_ASSERT(g_dq_nesc >= e0 && g_dq_nesc - e0 <= L &&
		     g_out_n == n0 + L + (g_dq_nesc - e0), "C16.print_part.count");
	VERIF_ASSERT(g_dq_mode == 2 && !g_dq_pend && !g_dq_bad &&
		     g_dq_n == d0 + L, "C16.print_part.decodes");
	if (g_dq_w >= d0 && g_dq_w < d0 + L) {
		k = g_dq_w - d0;
		VERIF_ASSERT(g_dq_wv == p[k], "C16.print_part.in_order");
		VERIF_ASSERT(g_dq_wesc == W16_ESC(p[k]), "C16.print_part.escape_iff");
		VERIF_COVER(k > 2 && g_dq_wesc);
		VERIF_COVER(k > 2 && !g_dq_wesc);
	}
	if (g_dq_w < d0)
		VERIF_ASSERT(g_dq_wv == -1000, "C16.print_part.stdout_only");
	VERIF_COVER(g_dq_nesc - e0 == L && L > 2);
	VERIF_COVER(g_dq_nesc == e0 && L > 2);
#endif
}
