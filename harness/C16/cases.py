PROPERTY = "C16"
LEVEL = "model_checking"
FUNCTIONS = ["fstree_from_file_stream", "describe_tree", "print_simple", "print_name", "print_perm",
             "split_line", "append_arg", "is_sep",
             "handle_line", "add_generic", "add_file", "add_device",
             "parse_uint / parse_uint_oct (real, on the concrete numeric fields)",
             "canonicalize_name (real, on the path token in handle_line)",
             "is_filename_sane (real, in describe_tree)"]
TRUSTED = [
    "stdout = capture buffer: fputs/fputc/fwrite append their bytes in call order; printf/sprintf interpret "
    "%s %c %o %u only, %o/%u emit a one-character placeholder and record the value (libc number formatting is outside every claim)",
    "sqfs_tree_node_get_path contract from C06 (success => '/' + acceptable components; failure => NULL)",
    "canonicalize_name contract on get_path results in the describe harness (drop the leading slash; C18 + C06.get_path.canon_is_shift)",
    "calloc/realloc/free of the token list and alloc_flex of the directory entry: typed fixed-capacity objects, every call may fail; "
    "the bounds of the token list itself are C07's obligation",
    "fstree_add_generic: records its arguments, may refuse (errno arbitrary)",
    "glibc major()/minor()/makedev() bit layout, isdigit() C-locale table, strpbrk (only if a patched printer uses it)",
    "CBMC library models of strcmp/strlen/strchr/strcpy/memcpy/memset",
]
ASSUMPTIONS = [
    "bounded: path components / targets / locations of up to LEN bytes over the full byte alphabet without NUL and newline (quick: describe LEN<=2, split LEN<=3, handle_line LEN<=2)",
    "the two halves meet in the spec function Q (spec/quote_spec.h); printer output == Q(text) and split_line(Q(text)) == text are checked separately, never chained",
    "numeric fields are digit strings on both sides (printf %o/%u on one side, parse_uint on the other); their agreement is libc's",
    "file contents and the unpacked files (C01/C06), hard links (describe prints every name as an independent file), xattrs are outside C16",
    "istream_get_line is represented by its C12 specification (spec/getline_spec.h) in the stream harness, evaluated with the flags fstree_from_file_stream really passes",
    "entries whose names the unpacker refuses ('.', '..', with '/') make describe fail with a diagnostic (obligation C16.describe.failure_reported); an unnamed non-root directory prints no line",
]
EXPLANATION = ("the printer's captured output is compared with Q(text) for every short text, the real tokenizer is run on Q(text) "
               "embedded in a line of describe's shape, and handle_line is run on the resulting token shapes; "
               "bounded symbolic execution, no loop contracts")


def _dl(kind, length, shape=1):
    pm = (length + 1) * shape + 2
    return dict(id="kind%d_len%d_s%d" % (kind, length, shape),
                defines={"KIND": kind, "LEN": length, "SHAPE": shape},
                unwind=max(12, 2 * pm + 4),
                unwindset=["strchr.0:%d" % (pm + 1), "fwrite.0:%d" % (pm + 1),
                           "fputs.0:%d" % max(8, pm + 1),
                           "print_name.0:%d" % (pm + 1)])


def _sp(field, length):
    # one bound for every loop of split_line (loop numbers change when the
    # function is refactored; a tighter per-loop bound would turn a harmless
    # refactoring into an unwinding-assertion failure)
    b = max(8, 2 * length + 3) + 1
    return dict(id="field%d_len%d" % (field, length),
                defines={"FIELD": field, "LEN": length},
                unwind=2 * length + 3 + 24 + 2,
                unwindset=["split_line.%d:%d" % (i, b) for i in range(0, 7)] +
                          ["strchr.0:4"])


HARNESSES = [
    dict(name="describe", file="describe.c",
         include_dirs=["bin/rdsquashfs/src"],
         nochecks=["--conversion-check"],   # print_perm: (unsigned)mode & ~S_IFMT, int -> unsigned of a negative constant (well defined)
         label="bounded(len<=2)", timeout=1800,
         cases=[dict(_dl(k, 2), tier="quick") for k in range(0, 7)] +
               [dict(_dl(k, 1), tier="quick") for k in (0, 1, 4)] +
               [dict(_dl(k, 3), tier="thorough", label="bounded(len<=3)") for k in (0, 1, 4)] +
               [dict(_dl(k, 2, 2), tier="thorough", label="bounded(len<=2,components<=2)") for k in (0, 1)]),
    dict(name="split", file="split.c", label="bounded(len<=3)", timeout=2400,
         cases=[dict(_sp(f, n), tier="quick", label="bounded(len<=3)")
                for f in (0, 1) for n in range(1, 4)] +
               [dict(_sp(f, n), tier="thorough", label="bounded(len<=8)")
                for f in (0, 1) for n in range(4, 9)]),
    dict(name="stream", file="stream.c", include_dirs=["bin/gensquashfs/src"],
         fp={"get_filename": "stub_filename", "destroy": "stub_filename"},
         label="bounded(len<=1)", timeout=2400,
         unwindset=["fstree_from_file_stream.0:3"],
         cases=[dict(id="eol%d_len%d" % (e, n), defines={"EOL": e, "LEN": n},
                     unwind=2 * n + 18, tier="quick" if n <= 1 else "thorough",
                     label="bounded(len<=%d)" % (1 if n <= 1 else 3))
                for e in (0, 1) for n in (1, 2, 3)]),
    dict(name="handle_line", file="handle_line.c",
         include_dirs=["bin/gensquashfs/src"],
         nochecks=["--conversion-check"],
         label="bounded(len<=2)", timeout=1800, unwind=12,
         cases=[dict(id="kind%d_len2" % k, defines={"KIND": k, "LEN": 2},
                     tier="quick") for k in range(0, 7)] +
               [dict(id="kind%d_len3" % k, defines={"KIND": k, "LEN": 3},
                     tier="thorough", label="bounded(len<=3)") for k in (1, 4)]),
]
