/* C16 (w16) environment for the UNBOUNDED printer proofs: stdout is a
 * counting / witness capture contract - nothing is stored but
 *
 *   g_out_n              number of bytes written to stdout so far
 *   g_out_w, g_out_wv    one arbitrary (harness-chosen, symbolic) output
 *                        position and the byte written there
 *
 * plus a MONITOR: the reader's side of one pack-file field, written from the
 * documented syntax (gensquashfs.1: a field may be enclosed in double quotes,
 * inside quotes \" and \\ stand for " and \), as an O(1)-state automaton run
 * over the bytes in the order they are written:
 *
 *   g_dq_mode   0 START (nothing seen), 1 RAW (unquoted field), 2 INQ (inside
 *               the quotes), 3 CLOSED (closing quote seen)
 *   g_dq_pend   INQ: the previous byte was an escaping backslash
 *   g_dq_n      number of DECODED bytes of the field so far
 *   g_dq_nesc   number of escape backslashes consumed so far
 *   g_dq_bad    the stream is not a well-formed field: backslash in front of
 *               something other than '"' / '\\', anything after the closing
 *               quote, a blank inside an unquoted field
 *   g_dq_w, g_dq_wv, g_dq_wesc   one arbitrary decoded index, the decoded
 *               byte at that index, whether it was written escaped
 *
 * Bytes are compared as the int handed to fputc (the promoted char), which is
 * finer than byte equality.
 */
#ifndef W16_OUT_H
#define W16_OUT_H
#include <stdio.h>
#include "verif.h"

size_t g_out_n, g_out_w;
int g_out_wv;
int g_dq_mode;
bool g_dq_pend, g_dq_bad, g_dq_wesc;
size_t g_dq_n, g_dq_nesc, g_dq_w;
int g_dq_wv;
unsigned g_err_n;

/* ghost description of the (at most two) strings a printer function walks:
 * start pointer (offset 0 of its object) and length = index of the first NUL */
const char *g_sA, *g_sB;
size_t g_LA, g_LB;
size_t g_nq_wA, g_nq_wB; /* needs_quotes: witness index per string */

/* shorthands used by the clause text of contracts/loops/C16_w16.tbl */
#define W16_OFF(p) __CPROVER_POINTER_OFFSET(p)
#define W16_SAME(p, q) __CPROVER_same_object((p), (q))
#define W16_LE(x) __CPROVER_loop_entry(x)
#define W16_L(p) (W16_SAME((p), g_sA) ? g_LA : g_LB)
#define W16_S(p) (W16_SAME((p), g_sA) ? g_sA : g_sB)
#define W16_NQW(p) (W16_SAME((p), g_sA) ? g_nq_wA : g_nq_wB)
#define W16_QCH(c) ((c) == ' ' || (c) == '\t' || (c) == '\r' || (c) == '"')
#define W16_ESC(c) ((c) == '"' || (c) == '\\')

#ifdef VERIF_REPLAY
#define fputc w16_fputc
#endif

static void w16_decoded(int c, bool esc)
{
	if (g_dq_n == g_dq_w) {
		g_dq_wv = c;
		g_dq_wesc = esc;
	}
	g_dq_n += 1;
}

int fputc(int c, FILE *fp)
{
	if (fp != stdout) {
		g_err_n += 1;
		return c;
	}
	if (g_out_n == g_out_w)
		g_out_wv = c;
	g_out_n += 1;

	switch (g_dq_mode) {
	case 0:
		if (c == '"') {
			g_dq_mode = 2;
			break;
		}
		g_dq_mode = 1;
		/* fall through */
	case 1:
		if (c == ' ' || c == '\t')
			g_dq_bad = true;
		w16_decoded(c, false);
		break;
	case 2:
		if (g_dq_pend) {
			if (c != '"' && c != '\\')
				g_dq_bad = true;
			g_dq_pend = false;
			w16_decoded(c, true);
		} else if (c == '\\') {
			g_dq_pend = true;
			g_dq_nesc += 1;
		} else if (c == '"') {
			g_dq_mode = 3;
		} else {
			w16_decoded(c, false);
		}
		break;
	default:
		g_dq_bad = true;
		break;
	}
	return c;
}

static void w16_out_reset(void)
{
	g_out_n = 0;
	g_out_wv = -1000;
	g_dq_mode = 0;
	g_dq_pend = g_dq_bad = g_dq_wesc = false;
	g_dq_n = g_dq_nesc = 0;
	g_dq_wv = -1000;
	g_err_n = 0;
}

#ifndef W16_MAX
#define W16_MAX 256
#endif

/* a symbolic C string: object of symbolic size n <= W16_MAX, symbolic
 * contents, *len = index of its FIRST NUL (pinned by a constant-range
 * quantifier that cbmc expands: the precondition "len == strlen(p)") */
static char *w16_string(size_t *len, const char *tag)
{
	size_t n = verif_nd_size(tag), l = verif_nd_size(tag);
	char *p;

	VERIF_ASSUME(n >= 1 && n <= W16_MAX && l < n);
	p = malloc(n);
	VERIF_ASSUME(p != NULL);
	VERIF_ASSUME(p[l] == '\0');
#ifndef VERIF_REPLAY
	VERIF_ASSUME(__CPROVER_forall { size_t i; (i < W16_MAX) ==> (i < l ==> p[i] != '\0') });
#endif
	*len = l;
	return p;
}

#ifndef VERIF_REPLAY
#define W16_ALL_CLEAN(p, l) \
	__CPROVER_forall { size_t i; (i < W16_MAX) ==> (i < (l) ==> !W16_QCH((p)[i])) }
#endif
#endif
