/* C16 (w16), UNBOUNDED: print_field of bin/rdsquashfs/src/describe.c together
 * with the real needs_quotes and print_part it calls (their three loop
 * instances closed by the loop contracts of contracts/loops/C16_w16.tbl,
 * nothing unwound), for every prefix / str shorter than W16_MAX bytes each
 * (object sizes, lengths, contents symbolic). PREFIX = 0: prefix == NULL
 * (path field, symlink target), PREFIX = 1: prefix given (file location
 * "<unpack root>/<path>"). stdout is the capture + field-decoder monitor of
 * w16_out.h, started in front of the field.
 *
 * text  := str                      (PREFIX 0)
 *          prefix '/' str           (PREFIX 1),  T := its length
 * mustq := (PREFIX 0 and str empty) or prefix contains space/tab/CR/'"' or
 *          str contains one          [= spec_must_quote(text), quote_spec.h]
 * Each string is either assumed clean at every position (constant-range
 * quantifier) or to hold one of the four characters at an arbitrary position.
 *
 *  C16.print_field.quote_iff      the first byte written is '"' iff mustq
 *  C16.print_field.closed         mustq => the last byte written is '"' and
 *                                 the reader sees it as the closing quote,
 *                                 nothing follows it
 *  C16.print_field.count          bytes written = T (not mustq) or
 *                                 T + 2 + E, E = escapes consumed by the reader
 *  C16.print_field.decodes        mustq => the reader decodes exactly T
 *                                 bytes without syntax error, and the
 *                                 (arbitrary) k-th decoded byte is text[k],
 *                                 written escaped iff it is '"' or '\\'
 *                                 (= Q(text) of spec/quote_spec.h, read back)
 *  C16.print_field.raw_is_text    not mustq => T > 0 and the (arbitrary)
 *                                 k-th byte written is text[k] (which is
 *                                 none of space, tab, CR, '"' by the case
 *                                 assumption): the field is text verbatim
 *  C16.print_field.stdout_only    nothing goes to another stream
 */
#include <stdlib.h>
#include "C16/w16_out.h"
#include "bin/rdsquashfs/src/describe.c"

#ifndef PREFIX
#define PREFIX 1
#endif

static char *g_a, *g_b;
static size_t g_la, g_lb;

static int text_at(size_t k)
{
#if PREFIX
	if (k < g_la)
		return g_a[k];
	if (k == g_la)
		return '/';
	return g_b[k - g_la - 1];
#else
	return g_b[k];
#endif
}

void harness(void)
{
#ifndef VERIF_REPLAY
	static FILE f_out;
#endif
	size_t T, wa = 0, wb = 0, k;
	bool clean_a = true, clean_b, mustq;

#ifndef VERIF_REPLAY
	stdout = &f_out;
#endif
	w16_out_reset();
	g_b = w16_string(&g_lb, "str");
	clean_b = verif_nd_bool("clean_b");
	if (clean_b) {
		VERIF_ASSUME(W16_ALL_CLEAN(g_b, g_lb));
	} else {
		wb = verif_nd_size("wb");
		VERIF_ASSUME(wb < g_lb && W16_QCH(g_b[wb]));
	}
#if PREFIX
	g_a = w16_string(&g_la, "prefix");
	clean_a = verif_nd_bool("clean_a");
	if (clean_a) {
		VERIF_ASSUME(W16_ALL_CLEAN(g_a, g_la));
	} else {
		wa = verif_nd_size("wa");
		VERIF_ASSUME(wa < g_la && W16_QCH(g_a[wa]));
	}
	T = g_la + 1 + g_lb;
	mustq = !clean_a || !clean_b;
#else
	g_a = g_b;
	g_la = g_lb;
	T = g_lb;
	mustq = g_lb == 0 || !clean_b;
	(void)wa;
#endif
	g_sA = g_a;
	g_LA = g_la;
	g_sB = g_b;
	g_LB = g_lb;
	/* needs_quotes witness: the position assumed to hold a special byte */
	g_nq_wA = clean_a ? 0 : wa;
	g_nq_wB = clean_b ? 0 : wb;
#if !PREFIX
	g_nq_wA = g_nq_wB;
#endif
	g_out_w = verif_nd_size("ow");
	g_dq_w = verif_nd_size("dw");
	VERIF_COVER(mustq && g_lb > 2);
	VERIF_COVER(!mustq && g_lb > 2);

	print_field(PREFIX ? g_a : NULL, g_b);

	VERIF_ASSERT(g_err_n == 0, "C16.print_field.stdout_only");
	VERIF_ASSERT(g_out_n > 0, "C16.print_field.count");
	if (g_out_w == 0)
		VERIF_ASSERT((g_out_wv == '"') == mustq, "C16.print_field.quote_iff");
	if (mustq) {
		VERIF_ASSERT(g_dq_mode == 3 && !g_dq_bad && !g_dq_pend, "C16.print_field.closed");
		if (g_out_w == g_out_n - 1)
			VERIF_ASSERT(g_out_wv == '"', "C16.print_field.closed");
		VERIF_ASSERT(g_dq_nesc <= T && g_out_n == T + 2 + g_dq_nesc, "C16.print_field.count");
		VERIF_ASSERT(g_dq_n == T && !g_dq_bad, "C16.print_field.decodes");
		if (g_dq_w < T) {
			k = g_dq_w;
			VERIF_ASSERT(g_dq_wv == text_at(k) &&
				     g_dq_wesc == W16_ESC(text_at(k)), "C16.print_field.decodes");
#if PREFIX
			VERIF_COVER(k < g_la);
			VERIF_COVER(k == g_la);
#endif
			VERIF_COVER(k > g_la + 1 || (!PREFIX && k > 1));
			VERIF_COVER(g_dq_wesc);
		}
	} else {
		VERIF_ASSERT(g_out_n == T, "C16.print_field.count");
		VERIF_ASSERT(T > 0, "C16.print_field.raw_is_text");
		if (g_out_w < T) {
			k = g_out_w;
			VERIF_ASSERT(g_out_wv == text_at(k), "C16.print_field.raw_is_text");
			VERIF_ASSERT(!W16_QCH(g_out_wv), "C16.print_field.raw_is_text");
#if PREFIX
			VERIF_COVER(k < g_la);
			VERIF_COVER(k == g_la);
#endif
			VERIF_COVER(k > g_la + 1 || (!PREFIX && k > 1));
		}
	}
}
