/* C16 (bounded strings): the real describe_tree / print_simple / print_name /
 * print_perm of describe.c for one entry of the concrete kind KIND, its path
 * made of SHAPE (1 or 2) components of up to LEN fully symbolic bytes each
 * (no NUL, no newline - the property excludes it), symlink target up to 3
 * symbolic bytes, unpack root up to 2; stdout is the capture contract of
 * capture.h; sqfs_tree_node_get_path and canonicalize_name under their
 * C06 / C18 contracts, the real is_filename_sane.
 *
 *   KIND 0 sock  1 slink  2 pipe  3 file  4 file + --unpack-root
 *        5 char/block device  6 dir
 *
 *   C16.line.shape        the captured line is  <keyword> ' ' <path field>
 *                         ' 0'<perm>' '<uid>' '<gid> [' ' <extra>] '\n' with
 *                         the keyword gensquashfs uses for that kind, the
 *                         permission bits / uid / gid of the node handed to
 *                         the formatter in that order, for devices the extra
 *                         is <c|b> <major> <minor>; nothing else is printed
 *   C16.describe.succeeds     an entry whose path components are all legal
 *                             file names is listed (failure only for names
 *                             the unpacker refuses too, or out of memory -
 *                             the path allocation may fail; allocations a
 *                             repaired printer adds are not failed here)
 *   C16.print_name.eq_spec    the path field is exactly Q(path)
 *                             (spec/quote_spec.h) - for paths without tab,
 *                             CR and backslash
 *   C16.print_name.eq_spec.tab_cr_backslash   ... and for paths with them
 *   C16.extra.printed_eq_spec                 the symlink target / the file
 *                             location is printed as Q(text) - for texts
 *                             that need no quoting
 *   C16.extra.printed_eq_spec.needs_quote     ... and for those that do
 *                             (space, tab, CR, '"', empty)
 */
#include <string.h>
#include <stdlib.h>
#include <sys/sysmacros.h>
#ifndef LEN
#define LEN 2
#endif
#define NAMELEN LEN
#ifndef SHAPE
#define SHAPE 1
#endif
#ifndef KIND
#define KIND 0
#endif
#include "C06/tree.h"
#include "C16/capture.h"
#include "confined_spec.h"
#include "quote_spec.h"

size_t g_canon_L;
size_t g_sane_L, g_sane_w;
const char *g_sane_base;

#define PATHMAX ((LEN + 1) * SHAPE + 2)

static char *g_last_path;
static bool g_oom;

/* sqfs_tree_node_get_path under the contract established by C06
 * (C06.get_path.components / fail_null / complete) */
int sqfs_tree_node_get_path(const sqfs_tree_node_t *node, char **out)
{
	int k = node_index(node), j;
	size_t o = 0, i;
	char *str;

	VERIF_ASSERT(k == SHAPE, "C16.get_path.pre");
	*out = NULL;
	for (j = 1; j <= SHAPE; ++j) {
		if (!spec_component_ok((const char *)TN(j)->name))
			return SQFS_ERROR_CORRUPTED;
	}
	if (TN(0)->name[0] != '\0')
		return SQFS_ERROR_ARG_INVALID;
	str = verif_nd_bool("gp_oom") ? NULL : malloc(PATHMAX);
	if (str == NULL) {
		g_oom = true;
		return SQFS_ERROR_ALLOC;
	}
	for (j = 1; j <= SHAPE; ++j) {
		str[o++] = '/';
		for (i = 0; TN(j)->name[i] != '\0'; ++i)
			*(sqfs_u8 *)&str[o++] = TN(j)->name[i];
	}
	str[o] = '\0';
	*out = str;
	g_last_path = str;
	return 0;
}

#ifndef VERIF_REPLAY
/* glibc's device number split (sys/sysmacros.h), which goto-cc sees only as
 * declarations */
unsigned int gnu_dev_major(dev_t dev)
{
	return (unsigned int)(((dev & 0x00000000000fff00ULL) >> 8) |
			      ((dev & 0xfffff00000000000ULL) >> 32));
}

unsigned int gnu_dev_minor(dev_t dev)
{
	return (unsigned int)((dev & 0x00000000000000ffULL) |
			      ((dev & 0x00000ffffff00000ULL) >> 12));
}
#endif

void sqfs_perror(const char *file, const char *action, int error_code)
{
	(void)file; (void)action; (void)error_code;
	++g_err_msgs;
}

void sqfs_free(void *p)
{
	free(p);
}

/* canonicalize_name under its C18 contract, specialised to what get_path
 * delivers (C06.get_path.canon_is_shift): "/" c1 "/" c2 ... with acceptable
 * components is accepted and loses exactly its leading slash */
int canonicalize_name(char *filename)
{
	size_t i;

	VERIF_ASSERT(filename != NULL && filename == g_last_path,
		     "C16.canon.pre");
	for (i = 0; i + 1 < PATHMAX; ++i) {
		filename[i] = filename[i + 1];
		if (filename[i] == '\0')
			break;
	}
	return 0;
}

#include "lib/util/src/filename_sane.c"
#include "bin/rdsquashfs/src/describe.c"

static const sqfs_u16 kind_mode[7] = {
	S_IFSOCK, S_IFLNK, S_IFIFO, S_IFREG, S_IFREG, S_IFCHR, S_IFDIR
};

static bool field_eq(const char *cap, size_t at, const char *want, size_t n)
{
	size_t i;

	for (i = 0; i < n; ++i) {
		if (at + i >= CAP_MAX || cap[at + i] != want[i])
			return false;
	}
	return true;
}

void harness(void)
{
#ifndef VERIF_REPLAY
	static FILE f_out, f_err;
#endif
	char path[PATHMAX], qpath[2 * PATHMAX + 3];
	char extra[PATHMAX + 8], qextra[2 * (PATHMAX + 8) + 3];
	char uroot[3];
	const char *kw = "";
	size_t o = 0, i, at = 0, qn, en = 0;
	bool name_ok, no_nl = true, is_blk = false;
	sqfs_u16 perm;
	unsigned nb;
	int j, ret;

#ifndef VERIF_REPLAY
	stdout = &f_out;
	stderr = &f_err;
#endif
	build_tree();
	perm = TI(SHAPE)->i.base.mode & 07777;
#if KIND == 5
	is_blk = verif_nd_bool("blk");
	TI(SHAPE)->i.base.mode = (is_blk ? S_IFBLK : S_IFCHR) | perm;
	TI(SHAPE)->i.base.type = verif_nd_bool("ext") ?
		(is_blk ? SQFS_INODE_EXT_BDEV : SQFS_INODE_EXT_CDEV) :
		(is_blk ? SQFS_INODE_BDEV : SQFS_INODE_CDEV);
#else
	TI(SHAPE)->i.base.mode = kind_mode[KIND] | perm;
#endif
	verif_nd_bytes(uroot, 2, "uroot");
	uroot[2] = '\0';

	/* the property quantifies over names, targets and roots without
	 * newline; the pieces must be what C06/C18 let through */
	for (j = 1; j <= SHAPE; ++j) {
		for (i = 0; TN(j)->name[i] != '\0'; ++i) {
			if (TN(j)->name[i] == '\n')
				no_nl = false;
		}
	}
	for (i = 0; i < 4; ++i) {
		if (((const char *)TI(SHAPE)->extra)[i] == '\n')
			no_nl = false;
	}
	if (uroot[0] == '\n' || uroot[1] == '\n')
		no_nl = false;
	VERIF_ASSUME(no_nl);

	/* canonical path of the entry */
	for (j = 1; j <= SHAPE; ++j) {
		if (j > 1)
			path[o++] = '/';
		for (i = 0; TN(j)->name[i] != '\0'; ++i)
			*(sqfs_u8 *)&path[o++] = TN(j)->name[i];
	}
	path[o] = '\0';
	qn = spec_Q(path, qpath);

	ret = describe_tree(NODE(SHAPE), KIND == 4 ? uroot : NULL);

	VERIF_ASSERT(!g_cap_ovf && !g_fmt_bad, "C16.env.capture_fits");
	VERIF_COVER(ret == 0);
	VERIF_COVER(ret != 0);
	if (ret != 0) {
		/* only names the unpacker refuses as well (or no memory) make
		 * the listing fail; diagnosed, and nothing half-printed
		 * matters to the parser because the tool fails */
		bool legal = TN(0)->name[0] == '\0';

		for (j = 1; j <= SHAPE; ++j) {
			if (!spec_component_ok((const char *)TN(j)->name))
				legal = false;
		}
		VERIF_ASSERT(!legal || g_oom, "C16.describe.succeeds");
		VERIF_ASSERT(g_err_msgs > 0, "C16.describe.failure_reported");
		return;
	}
	g_cap[g_cap_n] = '\0';

#if KIND == 6
	/* a directory without a name is the image root: it has no line */
	if (TN(SHAPE)->name[0] == '\0') {
		VERIF_ASSERT(g_cap_n == 0, "C16.line.shape");
		return;
	}
#endif

	switch (KIND) {
	case 0: kw = "sock "; break;
	case 1: kw = "slink "; break;
	case 2: kw = "pipe "; break;
	case 3: case 4: kw = "file "; break;
	case 5: kw = "nod "; break;
	default: kw = "dir "; break;
	}
	VERIF_ASSERT(field_eq(g_cap, 0, kw, strlen(kw)), "C16.line.shape");
	at = strlen(kw);

	name_ok = field_eq(g_cap, at, qpath, qn) && at + qn < CAP_MAX &&
		g_cap[at + qn] == ' ';
	if (!spec_has_tab_cr_backslash(path)) {
		VERIF_ASSERT(name_ok, "C16.print_name.eq_spec");
	} else {
		VERIF_ASSERT(name_ok,
			     "C16.print_name.eq_spec.tab_cr_backslash");
	}
	VERIF_COVER(name_ok && spec_must_quote(path));
	VERIF_COVER(name_ok && !spec_must_quote(path));
	if (!name_ok)
		return;
	at += qn;

	VERIF_ASSERT(field_eq(g_cap, at, " 07 7 7", 7), "C16.line.shape");
	/* devices: the triple is formatted first (sprintf), then the line */
	nb = KIND == 5 ? 2 : 0;
	VERIF_ASSERT(g_nnums == nb + 3 && g_nums[nb] == perm &&
		     g_nums[nb + 1] == NODE(SHAPE)->uid &&
		     g_nums[nb + 2] == NODE(SHAPE)->gid, "C16.line.shape");
	at += 7;

#if KIND == 1 || KIND == 4
#if KIND == 1
	en = exp_s(extra, 0, (const char *)TI(SHAPE)->extra);
#else
	en = exp_s(extra, 0, uroot);
	en = exp_s(extra, en, "/");
	en = exp_s(extra, en, path);
#endif
	qn = spec_Q(extra, qextra);
	{
		bool extra_ok = at < CAP_MAX && g_cap[at] == ' ' &&
			field_eq(g_cap, at + 1, qextra, qn) &&
			field_eq(g_cap, at + 1 + qn, "\n", 2);

		if (!spec_must_quote(extra)) {
			VERIF_ASSERT(extra_ok, "C16.extra.printed_eq_spec");
		} else {
			VERIF_ASSERT(extra_ok,
				     "C16.extra.printed_eq_spec.needs_quote");
		}
		VERIF_COVER(extra_ok);
	}
#elif KIND == 5
	{
		sqfs_u32 devno = (TI(SHAPE)->i.base.type == SQFS_INODE_EXT_BDEV ||
				  TI(SHAPE)->i.base.type == SQFS_INODE_EXT_CDEV) ?
			TI(SHAPE)->i.data.dev_ext.devno :
			TI(SHAPE)->i.data.dev.devno;

		VERIF_ASSERT(field_eq(g_cap, at, is_blk ? " b 7 7\n" : " c 7 7\n", 8),
			     "C16.line.shape");
		VERIF_ASSERT(g_nums[0] == major(devno) &&
			     g_nums[1] == minor(devno), "C16.line.shape");
	}
#else
	VERIF_ASSERT(field_eq(g_cap, at, "\n", 2), "C16.line.shape");
#endif
	(void)en;
}
