/* NOT REGISTERED in cases_extra_w16.py - work in progress, see the w16 report:
 * with static ghost arrays symex finishes (cap 16: 40 s) but the base case of the
 * outer-loop invariant and the bounds checks cbmc generates for the quantified
 * clauses still fail; loop rows are in w16_split_inv_loops.wip.
 *
 * C16 (w16), UNBOUNDED: the real split_line (lib/util/src/split_line.c) as the
 * INVERSE of the describe printer on a quoted field of any length:
 * line = '"' u_0 u_1 ... u_{T-1} '"' NUL, every unit u_k either one byte that
 * is not NUL, '"' or '\\', or a backslash followed by '"' or '\\' - exactly
 * the streams the field-decoder monitor of w16_out.h accepts as a quoted
 * field, i.e. what print_field is proved to write (harness w16_print_field).
 * The line is not generated: it is an object of symbolic size C + 2 <=
 * W16_MAX with symbolic contents, and "is Q-shaped" is a precondition over
 * two ghost arrays indexed by line position (the decoder's run):
 *     g_st[i]  position i is the first byte of a unit (or the closing quote)
 *     g_ix[i]  number of units in front of position i (= decoded index)
 * stated as a constant-range quantifier that cbmc expands (W16_UNIT below).
 * All five loops of split_line are closed by the loop contracts of
 * contracts/loops/C16_w16.tbl; only strchr over the 2-byte separator literal
 * is unwound (complete). Token list = one typed object (calloc / realloc /
 * free contract; every call may fail), as in harness split.c.
 *
 *  C16.split_inv.accepts     the result is OK (or ALLOC when the allocator
 *                            failed) - never ESCAPE / UNMATCHED_QUOTE
 *  C16.split_inv.one_token   OK => exactly one token, starting at line[0]
 *  C16.split_inv.length      OK => the token is NUL-terminated at index
 *                            T = g_ix[C] = the number of units: its length
 *                            is the length of the original text
 *  C16.split_inv.bytes       OK => for an arbitrary unit (witness position
 *                            g_uw, decoded index g_kw): token[g_kw] is the
 *                            byte that unit stands for (and is not NUL)
 *  C16.split_inv.in_place    (loop invariant) inside the quoted token the
 *                            write cursor is at the decoded index, strictly
 *                            below the read cursor: dst < src
 *  in bounds / terminates    pointer checks (the object ends right behind the
 *                            terminator), decreases clauses
 * Left bounded (harness split, len <= 3 / 8): the field embedded in a full
 * describe line (keyword in front, mode/uid/gid behind), the unquoted form.
 */
#include <string.h>
#include <stdlib.h>
#include "verif.h"
#include "util/parse.h"

#ifndef W16_MAX
#define W16_MAX 256
#endif

#define W16_OFF(p) __CPROVER_POINTER_OFFSET(p)
#define W16_SAME(p, q) __CPROVER_same_object((p), (q))
#define W16_LE(x) __CPROVER_loop_entry(x)
#define W16_ESC(c) ((c) == '"' || (c) == '\\')

/* static arrays, named directly in the quantified clauses (a pointer
 * dereference under a quantifier inside a loop invariant stalls symex) */
char g_line[W16_MAX];
bool g_st[W16_MAX + 2];
size_t g_ix[W16_MAX + 2];
size_t g_C;    /* index of the closing quote */
size_t g_len0; /* len handed to split_line = C + 1 */
size_t g_uw, g_kw;
bool g_has_w;
char g_ow;

/* position i starts a well-formed unit and the ghost run continues behind it */
#define W16_UNIT(i) (g_line[i] != '\0' && g_line[i] != '"' && \
	(g_line[i] == '\\' ? ((i) + 2 <= g_C && W16_ESC(g_line[(i) + 1]) && !g_st[(i) + 1] && \
			    g_st[(i) + 2] && g_ix[(i) + 2] == g_ix[i] + 1) \
			 : (g_st[(i) + 1] && g_ix[(i) + 1] == g_ix[i] + 1)))
/* every unit at or behind position u is intact, so are the closing quote and
 * the terminator */
#define W16_TAIL_OK(u) (g_line[g_C] == '"' && g_line[g_C + 1] == '\0' && \
	__CPROVER_forall { size_t i_; (i_ < W16_MAX) ==> \
		(((u) <= i_ && i_ < g_C && g_st[i_]) ==> W16_UNIT(i_)) })
/* the byte the witness unit stands for, while it is still unread */
#define W16_WIT_SRC (!g_has_w || (g_line[g_uw] == '\\' ? g_line[g_uw + 1] : g_line[g_uw]) == g_ow)
/* ... and once it has been decoded */
#define W16_WIT_DST (!g_has_w || g_line[g_kw] == g_ow)

#define MAXTOK 4
struct w16_spl { split_line_t s; char *args[MAXTOK]; };
struct w16_spl g_spl;
int g_spl_live;

static void *w16_calloc(size_t n, size_t sz)
{
	VERIF_ASSERT(n == 1 && sz == sizeof(split_line_t) && g_spl_live == 0,
		     "C16.env.alloc_pre");
	if (verif_nd_bool("calloc_fail"))
		return NULL;
	g_spl.s.count = 0;
	g_spl_live = 1;
	return &g_spl.s;
}

static void *w16_realloc(void *p, size_t sz)
{
	VERIF_ASSERT(p == (void *)&g_spl.s && g_spl_live == 1 &&
		     g_spl.s.count + 1 <= MAXTOK &&
		     sz == sizeof(split_line_t) + (g_spl.s.count + 1) * sizeof(char *),
		     "C16.env.alloc_pre");
	if (verif_nd_bool("realloc_fail"))
		return NULL;
	return p;
}

static void w16_free(void *p)
{
	if (p == NULL)
		return;
	VERIF_ASSERT(p == (void *)&g_spl.s && g_spl_live == 1, "C16.env.alloc_pre");
	g_spl_live = 0;
}

#define calloc(n, s) w16_calloc(n, s)
#define realloc(p, s) w16_realloc(p, s)
#define free(p) w16_free(p)
#include "lib/util/src/split_line.c"
#undef calloc
#undef realloc
#undef free

void harness(void)
{
	split_line_t *out = NULL;
	size_t T;
	char *line;
	int ret;

	g_spl_live = 0;
	g_spl.s.count = 0;
	g_C = verif_nd_size("C");
	VERIF_ASSUME(g_C >= 1 && g_C + 2 <= W16_MAX);
	g_len0 = g_C + 1;
	line = g_line;
#ifndef VERIF_REPLAY
	__CPROVER_havoc_object(g_line);
	__CPROVER_havoc_object(g_st);
	__CPROVER_havoc_object(g_ix);
#endif

	/* the line is a quoted field: '"' units '"' NUL */
	VERIF_ASSUME(line[0] == '"' && g_st[1] && g_ix[1] == 0 && g_st[g_C]);
	VERIF_ASSUME(W16_TAIL_OK(1));
	/* consequence of the recurrence (ix grows by one per unit of >= 1
	 * byte, from ix[1] == 0), stated for the solver */
	VERIF_ASSUME(__CPROVER_forall { size_t i; (i < W16_MAX) ==>
			((1 <= i && i <= g_C && g_st[i]) ==> g_ix[i] < i) });
	T = g_ix[g_C];

	/* witness unit */
	g_has_w = g_C > 1;
	g_uw = verif_nd_size("uw");
	if (g_has_w) {
		VERIF_ASSUME(1 <= g_uw && g_uw < g_C && g_st[g_uw]);
		g_kw = g_ix[g_uw];
		g_ow = line[g_uw] == '\\' ? line[g_uw + 1] : line[g_uw];
	} else {
		g_uw = g_kw = 0;
		g_ow = 0;
	}
	VERIF_COVER(g_C > 6 && T < g_C - 2 && T > 2);

	ret = split_line(line, g_len0, " \t", &out);

	VERIF_ASSERT(ret == SPLIT_LINE_OK || ret == SPLIT_LINE_ALLOC,
		     "C16.split_inv.accepts");
	VERIF_COVER(ret == SPLIT_LINE_ALLOC);
	if (ret != SPLIT_LINE_OK)
		return;
	VERIF_ASSERT(out == &g_spl.s && g_spl_live == 1 && out->count == 1 &&
		     g_spl.args[0] == line, "C16.split_inv.one_token");
	VERIF_ASSERT(T < g_C && line[T] == '\0', "C16.split_inv.length");
	if (g_has_w) {
		VERIF_ASSERT(g_kw < T, "C16.split_inv.length");
		VERIF_ASSERT(line[g_kw] == g_ow && g_ow != '\0', "C16.split_inv.bytes");
		VERIF_COVER(g_kw > 1 && g_uw > g_kw + 1 && g_ow == '\\');
		VERIF_COVER(g_kw > 1 && g_ow == 'a');
	}
	VERIF_COVER(T == 0);
	VERIF_COVER(T > 3);
}
