/* C04.sparse_old: read_gnu_old_sparse (lib/tar/src/read_sparse_map_old.c)
 * on a well-formed old GNU sparse member whose map needs EXT extension
 * headers (EXT concrete per case). From the GNU tar manual ("Old GNU
 * Format"): the header holds 4 (offset, numbytes) pairs and the flag
 * isextended; if it is set, the header is followed by 512-byte extension
 * headers of 21 pairs each, the last one having isextended == 0. The file
 * data starts right behind the last extension header.
 *
 *  C04.sparse_old.one_record_per_ext  exactly EXT reads of exactly 512
 *        bytes are made, i.e. the chain ends where isextended says so and
 *        the stream is left at the first data byte
 *  C04.sparse_old.list_eq_spec        the list holds the 4 + 21 * EXT pairs
 *        in archive order, each number being the one its field decodes to
 *        (read_number through its contract, value per call)
 */
#include "verif.h"
#include "lib/tar/src/read_sparse_map_old.c"

#ifndef EXT
#define EXT 1
#endif
#define NPAIR (4 + 21 * EXT)

static sqfs_istream_t g_strm;
static unsigned int g_reads, g_numbers;
static int g_failed;
static sqfs_u64 g_num[2 * NPAIR];

static const char *env_get_filename(sqfs_istream_t *strm)
{
	(void)strm;
	return "stdin";
}

void sqfs_perror(const char *file, const char *action, int error_code)
{
	(void)file; (void)action; (void)error_code;
}

static void fill_slots(gnu_old_sparse_t *s, int n)
{
	int i;

	for (i = 0; i < n; ++i) {
		/* a used slot starts with a digit */
		s[i].offset[0] = '1';
		s[i].numbytes[0] = '2';
	}
}

sqfs_s32 sqfs_istream_read(sqfs_istream_t *strm, void *data, size_t size)
{
	gnu_old_sparse_record_t *r = data;

	VERIF_ASSERT(strm == &g_strm && VERIF_W_OK(data, size),
		     "C04.sparse_old.env.stream");
	VERIF_ASSERT(size == 512 && g_reads < EXT,
		     "C04.sparse_old.one_record_per_ext");
	if (size != 512 || g_reads >= EXT) {
		g_failed = 1;
		return -1;
	}
	++g_reads;
	fill_slots(r->sparse, 21);
	r->isextended = (g_reads < EXT) ? 1 : 0;
	if (verif_nd_bool("read.fail")) {
		g_failed = 1;
		return verif_nd_bool("read.short") ? 100 : -1;
	}
	return 512;
}

/* read_number's contract (C04.num.*): the value of the field; the harness
 * chooses the value per field in archive order */
int read_number(const char *str, int digits, sqfs_u64 *out)
{
	VERIF_ASSERT(digits == 12 && VERIF_R_OK(str, 12),
		     "C04.sparse_old.env.number");
	VERIF_ASSERT(g_numbers < 2 * NPAIR, "C04.sparse_old.list_eq_spec");
	if (g_numbers >= 2 * NPAIR)
		return -1;
	*out = g_num[g_numbers];
	++g_numbers;
	return 0;
}

#ifndef VERIF_REPLAY
void *calloc(size_t n, size_t size)
{
	void *p;

	if (verif_nd_bool("calloc.fail")) {
		g_failed = 1;
		return NULL;
	}
	p = malloc(sizeof(sparse_map_t));
	VERIF_ASSUME(p != NULL && n == 1 && size == sizeof(sparse_map_t));
	memset(p, 0, sizeof(sparse_map_t));
	return p;
}
#endif

void free_sparse_list(sparse_map_t *sparse)
{
	unsigned int n = 0;

	while (sparse != NULL && n <= NPAIR) {
		sparse_map_t *old = sparse;

		sparse = sparse->next;
		free(old);
		++n;
	}
}

void harness(void)
{
	sparse_map_t *list, *it;
	tar_header_t hdr;
	unsigned int n;

	g_strm.get_filename = env_get_filename;
	for (n = 0; n < 2 * NPAIR; ++n)
		g_num[n] = verif_nd_u64("number");
	fill_slots(hdr.tail.gnu.sparse, 4);
	hdr.tail.gnu.isextended = (EXT > 0) ? 1 : 0;

	list = read_gnu_old_sparse(&g_strm, &hdr);

	if (list == NULL) {
		VERIF_ASSERT(g_failed, "C04.sparse_old.accepts_wellformed");
		VERIF_COVER(g_failed);
		return;
	}
	VERIF_ASSERT(!g_failed && g_reads == EXT,
		     "C04.sparse_old.one_record_per_ext");
	n = 0;
	for (it = list; it != NULL && n < NPAIR; it = it->next) {
		VERIF_ASSERT(it->offset == g_num[2 * n] &&
			     it->count == g_num[2 * n + 1],
			     "C04.sparse_old.list_eq_spec");
		++n;
	}
	VERIF_ASSERT(n == NPAIR && it == NULL, "C04.sparse_old.list_eq_spec");
	VERIF_COVER(1);
	free_sparse_list(list);
}
