/* C04: the number codec of the tar writer/reader - write_binary,
 * write_number, write_number_signed (lib/tar/src/write_header.c) against
 * read_number / read_octal / read_binary (lib/tar/src/number.c). Field width
 * D in {8, 12} (all widths of tar_header_t; the driver runs both), the field
 * object is exactly D bytes + a sentinel; loops unwound to the width.
 *
 * PART 0  C04.num.binary_roundtrip   read_number(write_binary(v, D)) == v for
 *            every v that fits (D = 12: all 64-bit values, D = 8:
 *            v < 2^63 - 2^56, i.e. the marker byte is not 0xff);
 *            write_number_signed(s, 12) for s < 0 reads back as the two's
 *            complement of s (what decode_header turns into s again)
 * PART 1  C04.num.encoding_choice    write_number picks: v < 8^(D-1) ->
 *            "%0*lo " with width D-1 (octal + terminator), v < 8^D ->
 *            "%0*lo" width D (octal, no terminator), else base-256; the
 *            field gets exactly the first D characters sprintf produced
 *         C04.num.in_field           nothing outside dst[0..D) is written
 * PART 2  C04.num.octal_value        read_number of a field whose first byte
 *            is < 0x80 = value of the longest octal digit string after
 *            leading white space (an independent spec loop), never fails for
 *            these widths
 * PART 3  C04.num.binary_value       read_number of a base-256 field: 0 =>
 *            the value is the field read as a big-endian two's-complement
 *            number (marker bit cleared / 0xff = negative) and that number
 *            fits 64 bit; -1 => it does not fit
 */
#include <stdio.h>
#include <ctype.h>
#include "verif.h"
#include "lib/tar/src/write_header.c"
#include "lib/tar/src/number.c"
#include "sprintf_model.h"
#include "C07/sysmacros_model.h"

#ifndef D
#define D 12
#endif
#ifndef PART
#define PART 0
#endif

unsigned int tar_compute_checksum(const tar_header_t *hdr)
{
	(void)hdr;
	return verif_nd_u32("chksum");
}
int padd_file(sqfs_ostream_t *fp, sqfs_u64 size)
{
	(void)fp; (void)size;
	return 0;
}

void harness(void)
{
	char field[D + 1];
	sqfs_u64 v = verif_nd_u64("v"), out = 0, lim1 = 1, limD = 1, spec;
	sqfs_s64 sv;
	int ret, i;

	field[D] = 0x5a;
	for (i = 0; i < D - 1; ++i)
		lim1 <<= 3;			/* 8^(D-1) */
	limD = lim1 << 3;			/* 8^D */

#if PART == 0
	if (verif_nd_bool("negative")) {
#if D == 12
		sv = verif_nd_i64("sv");
		VERIF_ASSUME(sv < 0);
		write_number_signed(field, sv, D);
		ret = read_number(field, D, &out);
		VERIF_ASSERT(ret == 0 && out == (sqfs_u64)sv,
			     "C04.num.binary_roundtrip");
		VERIF_COVER(sv == -1);
		VERIF_COVER(sv < -0x100000000LL);
#endif
	} else {
#if D == 8
		/* 8 bytes hold 63 bits, and the marker byte 0x80 | (v >> 56)
		 * must not read as the negative marker 0xff */
		VERIF_ASSUME(v < 0x7F00000000000000ULL);
#endif
		write_binary(field, v, D);
		ret = read_number(field, D, &out);
		VERIF_ASSERT(ret == 0 && out == v, "C04.num.binary_roundtrip");
		VERIF_ASSERT((field[0] & 0x80) != 0, "C04.num.binary_roundtrip");
		VERIF_COVER(v > 0xffffffffffULL);
		VERIF_COVER(v == 0);
	}
	VERIF_ASSERT(field[D] == 0x5a, "C04.num.in_field");
#elif PART == 1
	write_number(field, v, D);
	VERIF_ASSERT(field[D] == 0x5a, "C04.num.in_field");
	if (v < lim1) {
		VERIF_ASSERT(g_sp_n == 1 && g_sp_kind[0] == SP_OCT_SP &&
			     g_sp_width[0] == D - 1 && g_sp_val[0] == v &&
			     g_sp_len[0] == D, "C04.num.encoding_choice");
	} else if (v < limD) {
		VERIF_ASSERT(g_sp_n == 1 && g_sp_kind[0] == SP_OCT &&
			     g_sp_width[0] == D && g_sp_val[0] == v &&
			     g_sp_len[0] == D, "C04.num.encoding_choice");
	} else {
		VERIF_ASSERT(g_sp_n == 0 && (field[0] & 0x80) != 0,
			     "C04.num.encoding_choice");
	}
	if (g_sp_n == 1) {
		for (i = 0; i < D; ++i)
			VERIF_ASSERT(field[i] == g_sp_out0[i],
				     "C04.num.encoding_choice");
	}
	VERIF_COVER(v < lim1);
	VERIF_COVER(v >= lim1 && v < limD);
	VERIF_COVER(v >= limD);
#elif PART == 2
	verif_nd_bytes(field, D, "field");
	VERIF_ASSUME((field[0] & 0x80) == 0);
	spec = 0;
	for (i = 0; i < D && isspace(field[i]); ++i)
		;
	for (; i < D && field[i] >= '0' && field[i] <= '7'; ++i)
		spec = spec * 8 + (sqfs_u64)(field[i] - '0');
	ret = read_number(field, D, &out);
	VERIF_ASSERT(ret == 0 && out == spec, "C04.num.octal_value");
	VERIF_COVER(out > 0777777 && field[0] == ' ');
	VERIF_COVER(out == 0 && field[0] == '8');
	(void)sv; (void)v;
#else
	{
		/* big-endian two's complement over D bytes, spec: the low 64
		 * bits and whether the rest is pure sign extension */
		sqfs_u64 lo = 0;
		bool neg, fits = true;
		unsigned char b;

		verif_nd_bytes(field, D, "field");
		VERIF_ASSUME((field[0] & 0x80) != 0);
		neg = ((unsigned char)field[0] == 0xFF);
		for (i = 0; i < D; ++i) {
			b = (unsigned char)field[i];
			if (i == 0 && !neg)
				b &= 0x7F;
			if (i < D - 8) {
				if (b != (neg ? 0xFF : 0x00))
					fits = false;
			} else {
				lo = (lo << 8) | b;
			}
		}
#if D == 12
		/* a negative number must also be negative as int64 */
		if (neg && !(lo & 0x8000000000000000ULL))
			fits = false;
#endif
		ret = read_number(field, D, &out);
		VERIF_ASSERT(ret == 0 || ret == -1, "C04.num.binary_value");
		if (ret == 0)
			VERIF_ASSERT(fits && out == lo, "C04.num.binary_value");
		else
			VERIF_ASSERT(!fits, "C04.num.binary_value");
		VERIF_COVER(ret == 0 && neg);
		VERIF_COVER(ret == 0 && !neg && lo > 0xffffffffffULL);
#if D == 12
		VERIF_COVER(ret == -1);
#endif
		(void)sv; (void)v; (void)spec;
	}
#endif
}
