/* C04.write.long: write_tar_header (lib/tar/src/write_header.c) with
 * write_header, write_ext_header, write_number* and padd_file for an entry
 * whose name has NLEN bytes and, for symbolic links, whose target has TLEN
 * bytes (shape parameters around the 100-byte limit of the ustar fields);
 * uid, gid, mtime, mode bits, counter symbolic. The output stream is a
 * contract that logs every append; sprintf is the shape-only contract of
 * sprintf_model.h (digits arbitrary), tar_compute_checksum its contract.
 *
 *  C04.write.long   a name of >= 100 bytes goes out as a GNU 'L' record: a
 *     512-byte header with type 'L' whose size field was formatted from
 *     NLEN, then the NLEN name bytes, then zero padding that completes the
 *     512-byte record; the real header follows with a "gnu/data<n>"
 *     placeholder name. A link target of >= 100 bytes likewise as a 'K'
 *     record in front, and the real header's linkname stays empty. Shorter
 *     names / targets are stored in the header fields themselves.
 *  C04.write.records   every append is a whole header, a payload, or the
 *     padding; the bytes written are a multiple of 512
 *  C04.write.type   the type flag of the real header follows the file type
 */
#include "verif.h"
#include "lib/tar/src/write_header.c"
#include "lib/tar/src/padd_file.c"
#include "sprintf_model.h"
#include "C07/sysmacros_model.h"

#ifndef NLEN
#define NLEN 100
#endif
#ifndef TLEN
#define TLEN 0		/* 0: regular file, > 0: symlink with that target */
#endif
#define LONGN (NLEN >= 100)
#define LONGT (TLEN >= 100)

typedef struct {
	sqfs_dir_entry_t e;
	char name[NLEN + 1];
} ent_box_t;

#define MAXAPP 8
static int g_app_n;
static const void *g_app_ptr[MAXAPP];
static size_t g_app_size[MAXAPP];
static char g_app_type[MAXAPP], g_app_name0[MAXAPP][9], g_app_link0[MAXAPP];
static sqfs_u64 g_total;

static int env_append(sqfs_ostream_t *strm, const void *data, size_t size)
{
	(void)strm;
	VERIF_ASSERT(data == NULL || VERIF_R_OK(data, size),
		     "C04.write.append_pre");
	if (g_app_n < MAXAPP) {
		g_app_ptr[g_app_n] = data;
		g_app_size[g_app_n] = size;
		if (size == 512 && data != NULL) {
			const tar_header_t *h = data;
			int i;

			g_app_type[g_app_n] = h->typeflag;
			for (i = 0; i < 8; ++i)
				g_app_name0[g_app_n][i] = h->name[i];
			g_app_link0[g_app_n] = h->linkname[0];
		}
	}
	++g_app_n;
	g_total += size;
	return verif_nd_bool("append.fail") ? SQFS_ERROR_IO : 0;
}

unsigned int tar_compute_checksum(const tar_header_t *hdr)
{
	(void)hdr;
	return verif_nd_u32("chksum") & 0777777;
}

static int is_prefix(const char *field, const char *lit)
{
	int i;

	for (i = 0; lit[i] != '\0'; ++i) {
		if (field[i] != lit[i])
			return 0;
	}
	return 1;
}

void harness(void)
{
	static ent_box_t ent;
	static char target[TLEN + 1];
	sqfs_ostream_t out;
	unsigned int counter = verif_nd_u32("counter");
	int ret, k = 0, i;

	memset(&out, 0, sizeof(out));
	out.append = env_append;
	for (i = 0; i < NLEN; ++i)
		ent.e.name[i] = 'n';
	ent.e.name[NLEN] = '\0';
	for (i = 0; i < TLEN; ++i)
		target[i] = 't';
	target[TLEN] = '\0';
	ent.e.uid = verif_nd_u32("uid") & 0xfffff;
	ent.e.gid = verif_nd_u32("gid") & 0xfffff;
	ent.e.mtime = verif_nd_u32("mtime");
	ent.e.mode = (TLEN > 0 ? S_IFLNK : S_IFREG) |
		(verif_nd_u16("perm") & 07777);
	ent.e.size = TLEN > 0 ? TLEN : verif_nd_u32("size");

	ret = write_tar_header(&out, &ent.e, TLEN > 0 ? target : NULL, NULL,
			       counter);

	VERIF_ASSERT(ret == 0 || ret == SQFS_ERROR_IO, "C04.write.status");
	if (ret != 0)
		return;

	VERIF_ASSERT(g_app_n == 1 + (LONGN ? (NLEN % 512 ? 3 : 2) : 0) +
		     (LONGT ? (TLEN % 512 ? 3 : 2) : 0), "C04.write.records");
	VERIF_ASSERT(g_total % 512 == 0, "C04.write.records");

	if (LONGT) {
		VERIF_ASSERT(g_app_size[k] == 512 &&
			     g_app_type[k] == TAR_TYPE_GNU_SLINK &&
			     is_prefix(g_app_name0[k], "gnu/targ"),
			     "C04.write.long");
		VERIF_ASSERT(g_app_ptr[k + 1] == target &&
			     g_app_size[k + 1] == TLEN, "C04.write.long");
		if (TLEN % 512)
			VERIF_ASSERT(g_app_ptr[k + 2] == NULL &&
				     g_app_size[k + 2] == 512 - TLEN % 512,
				     "C04.write.long");
		/* sprintf log: 0 record name, 1 mode, 2 uid, 3 gid, 4 size */
		VERIF_ASSERT(g_sp_kind[4] == SP_OCT_SP && g_sp_width[4] == 11 &&
			     g_sp_val[4] == TLEN, "C04.write.long");
		k += (TLEN % 512) ? 3 : 2;
	}
	if (LONGN) {
		int base = LONGT ? 11 : 0;

		VERIF_ASSERT(g_app_size[k] == 512 &&
			     g_app_type[k] == TAR_TYPE_GNU_PATH &&
			     is_prefix(g_app_name0[k], "gnu/name"),
			     "C04.write.long");
		VERIF_ASSERT(g_app_ptr[k + 1] == ent.e.name &&
			     g_app_size[k + 1] == NLEN, "C04.write.long");
		if (NLEN % 512)
			VERIF_ASSERT(g_app_ptr[k + 2] == NULL &&
				     g_app_size[k + 2] == 512 - NLEN % 512,
				     "C04.write.long");
		VERIF_ASSERT(g_sp_kind[base + 4] == SP_OCT_SP &&
			     g_sp_width[base + 4] == 11 &&
			     g_sp_val[base + 4] == NLEN, "C04.write.long");
		k += (NLEN % 512) ? 3 : 2;
	}
	/* the real header */
	VERIF_ASSERT(g_app_size[k] == 512 && g_app_ptr[k] != NULL,
		     "C04.write.records");
	VERIF_ASSERT(g_app_type[k] == (TLEN > 0 ? TAR_TYPE_SLINK :
				       TAR_TYPE_FILE), "C04.write.type");
	if (LONGN)
		VERIF_ASSERT(is_prefix(g_app_name0[k], "gnu/data"),
			     "C04.write.long");
	else
		VERIF_ASSERT(g_app_name0[k][0] == 'n' &&
			     (NLEN < 8 || g_app_name0[k][7] == 'n'),
			     "C04.write.long");
	if (TLEN > 0)
		VERIF_ASSERT(g_app_link0[k] == (LONGT ? '\0' : 't'),
			     "C04.write.long");
	VERIF_COVER(ret == 0);
}
