/* sprintf contract for the lib/tar writer harnesses (CBMC has no body for
 * sprintf). Only the SHAPE of the output is modelled - its length as the C
 * standard defines it for the conversions used in write_header.c, and the
 * literal characters of the format; every digit produced by a conversion is
 * an arbitrary character of its digit alphabet. No obligation of C04 depends
 * on digit values. Every call is logged (format, width, value) so that a
 * harness can state WHICH number was formatted into WHICH field.
 */
#ifndef C04_SPRINTF_MODEL_H
#define C04_SPRINTF_MODEL_H
#include <stdarg.h>
#include <string.h>
#include "verif.h"

#define SP_LOG 24
enum { SP_OCT_SP = 1, SP_OCT, SP_CHK, SP_LU, SP_NAME_U, SP_PAX, SP_OTHER };
static int g_sp_n;
static int g_sp_kind[SP_LOG], g_sp_width[SP_LOG];
static unsigned long g_sp_val[SP_LOG];
static char g_sp_out0[16];	/* first 16 characters of the first call */
static size_t g_sp_len[SP_LOG];

static size_t sp_ndigits(unsigned long v, unsigned int base)
{
	size_t n = 1;

	while (v >= base) {
		v /= base;
		++n;
	}
	return n;
}

static size_t sp_digits(char *s, size_t pos, size_t n, unsigned int base)
{
	size_t i;

	for (i = 0; i < n; ++i) {
		uint8_t d = verif_nd_u8("sprintf.digit");

		VERIF_ASSUME(d < base);
		s[pos + i] = (char)('0' + d);
	}
	return pos + n;
}

int sprintf(char *s, const char *fmt, ...)
{
	size_t pos = 0, n, flen;
	int kind = SP_OTHER, width = 0;
	unsigned long v = 0;
	va_list ap;

	va_start(ap, fmt);
	if (strcmp(fmt, "%0*lo ") == 0 || strcmp(fmt, "%0*lo") == 0) {
		kind = fmt[5] == ' ' ? SP_OCT_SP : SP_OCT;
		width = va_arg(ap, int);
		v = va_arg(ap, unsigned long);
		VERIF_ASSERT(width >= 1 && width <= 62, "C04.sprintf.width");
		VERIF_ASSUME(width >= 1 && width <= 62);
		n = sp_ndigits(v, 8);
		if (n < (size_t)width)
			n = (size_t)width;
		pos = sp_digits(s, 0, n, 8);
		if (kind == SP_OCT_SP)
			s[pos++] = ' ';
	} else if (strcmp(fmt, "%06o") == 0) {
		kind = SP_CHK;
		v = va_arg(ap, unsigned int);
		n = sp_ndigits(v, 8);
		if (n < 6)
			n = 6;
		pos = sp_digits(s, 0, n, 8);
	} else if (strcmp(fmt, "%lu") == 0) {
		kind = SP_LU;
		v = va_arg(ap, unsigned long);
		pos = sp_digits(s, 0, sp_ndigits(v, 10), 10);
	} else {
		/* "<literal>%u": gnu/target%u, gnu/name%u, gnu/data%u,
		 * pax/xattr%u, hardlink_%u */
		flen = strlen(fmt);
		VERIF_ASSERT(flen >= 2 && flen <= 16 && fmt[flen - 2] == '%' &&
			     fmt[flen - 1] == 'u', "C04.sprintf.known_format");
		VERIF_ASSUME(flen >= 2 && flen <= 16);
		kind = SP_NAME_U;
		v = va_arg(ap, unsigned int);
		for (pos = 0; pos + 2 < flen; ++pos)
			s[pos] = fmt[pos];
		pos = sp_digits(s, pos, sp_ndigits(v, 10), 10);
	}
	va_end(ap);
	s[pos] = '\0';
	if (g_sp_n < SP_LOG) {
		g_sp_kind[g_sp_n] = kind;
		g_sp_width[g_sp_n] = width;
		g_sp_val[g_sp_n] = v;
		g_sp_len[g_sp_n] = pos;
	}
	if (g_sp_n == 0) {
		size_t i;

		for (i = 0; i < 16 && i <= pos; ++i)
			g_sp_out0[i] = s[i];
	}
	++g_sp_n;
	return (int)pos;
}
#endif
