# C04 (lead, round 2): tar extension records (PAX 'x'/'g', GNU 'L'/'K') are
# read by record_to_memory, which must consume exactly the payload plus its
# padding to the next 512 byte boundary - one byte more and the header the
# record belongs to is swallowed (seed C04-4: payload and padding fetched in
# one read of (size | 511) + 1 bytes, wrong for exact multiples of 512). The
# obligation is C12.record.padding / read_args of harness/C12/record.c.
import os as _os, sys as _sys
_sys.path.insert(0, _os.path.join(_os.path.dirname(_os.path.abspath(__file__)), "..", "..", "tools"))
from borrow import borrow as _borrow

HARNESSES = _borrow(__file__, "C12", ["record"])
FUNCTIONS = ["record_to_memory (via harness/C12/record.c)"]
TRUSTED = []
ASSUMPTIONS = []
