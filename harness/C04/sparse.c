/* C04: the sparse-file logic of the tar reader (lib/tar/src/iterator.c) for
 * a sparse map of NSPARSE entries (list shape concrete; every offset, count,
 * file size, position symbolic).
 *
 *  C04.sparse.region      is_sparse_region(offset) against an independent
 *     specification written from the property text: data, with n bytes left,
 *     iff the offset lies in a map entry (the first such entry in list
 *     order, n = what is left of it); otherwise a hole that ends at the next
 *     entry start after the offset or at the end of the file. Arbitrary maps
 *     (unsorted, overlapping, wrapping) - offset < file_size as the caller
 *     guarantees.
 *  C04.sparse.accounting  for a well-formed map (sorted, non-overlapping,
 *     inside the file - what tar writes) the invariant
 *         record_size == number of data bytes of the map at or after offset
 *     is preserved by every get_buffered_data / advance_buffer step with any
 *     window the archive stream offers and any amount consumed: record_size
 *     never wraps, holes take nothing from the archive, and at the end of
 *     the file nothing of the record is left over.
 */
#include "verif.h"
#include "lib/tar/src/iterator.c"
#define ITER_MAXHDR 1
#include "C07/iter_env.h"

#ifndef NSPARSE
#define NSPARSE 2
#endif
#ifndef PART
#define PART 0
#endif

static sparse_map_t map[NSPARSE + 1];
static sqfs_u8 g_srcwin[1];
static size_t g_src_size;

static int env_get_buffered_data(sqfs_istream_t *strm, const sqfs_u8 **out,
				 size_t *size, size_t want)
{
	int r = verif_nd_int("src.ret");

	(void)strm; (void)want;
	if (r != 0)
		return r;
	g_src_size = verif_nd_size("src.size");
	VERIF_ASSUME(g_src_size >= 1);
	*out = g_srcwin;
	*size = g_src_size;
	return 0;
}

static void env_advance_buffer(sqfs_istream_t *strm, size_t count)
{
	(void)strm; (void)count;
}

/* data bytes of the (well-formed) map at or after `off` */
static sqfs_u64 remaining(sqfs_u64 off)
{
	sqfs_u64 sum = 0, end;
	int i;

	for (i = 0; i < NSPARSE; ++i) {
		end = map[i].offset + map[i].count;
		if (end > off)
			sum += end - (off > map[i].offset ? off :
				      map[i].offset);
	}
	return sum;
}

void harness(void)
{
	static tar_iterator_t par;
	static tar_istream_t strm;
	const sqfs_u8 *out = NULL;
	sqfs_u64 count = 0, spec_n, d, off0, rs0;
	size_t size = 0, want, n;
	bool sparse, spec_sparse, found = false;
	int i, ret;

	g_src.get_buffered_data = env_get_buffered_data;
	g_src.advance_buffer = env_advance_buffer;
	for (i = 0; i < NSPARSE; ++i) {
		map[i].offset = verif_nd_u64("map.offset");
		map[i].count = verif_nd_u64("map.count");
		map[i].next = (i + 1 < NSPARSE) ? &map[i + 1] : NULL;
	}
	memset(&par, 0, sizeof(par));
	((sqfs_object_t *)&par)->refcount = 2;
	((sqfs_object_t *)&par)->destroy = it_destroy;
	par.stream = &g_src;
	par.locked = true;
	par.current.sparse = NSPARSE > 0 ? &map[0] : NULL;
	par.file_size = verif_nd_u64("file_size");
	par.offset = verif_nd_u64("offset");
	VERIF_ASSUME(par.offset < par.file_size);

#if PART == 0
	sparse = is_sparse_region(&par, &count);

	/* ---- specification ---- */
	spec_sparse = NSPARSE > 0;
	spec_n = par.file_size - par.offset;
	for (i = 0; i < NSPARSE && !found; ++i) {
		if (par.offset >= map[i].offset &&
		    par.offset - map[i].offset < map[i].count) {
			found = true;
			spec_sparse = false;
			spec_n = map[i].count - (par.offset - map[i].offset);
		}
	}
	if (!found) {
		for (i = 0; i < NSPARSE; ++i) {
			if (map[i].offset > par.offset) {
				d = map[i].offset - par.offset;
				if (d < spec_n)
					spec_n = d;
			}
		}
	}
	VERIF_ASSERT(sparse == spec_sparse, "C04.sparse.region");
	VERIF_ASSERT(count == spec_n && count >= 1, "C04.sparse.region");
#if NSPARSE > 0
	VERIF_COVER(sparse && count < 100);
#endif
	VERIF_COVER(!sparse);
#if NSPARSE > 1
	VERIF_COVER(!sparse && par.offset > map[1].offset &&
		    map[1].offset > map[0].offset);
	VERIF_COVER(sparse && par.offset > map[0].offset &&
		    count == map[1].offset - par.offset);
#endif
	(void)strm; (void)out; (void)size; (void)want; (void)n; (void)ret;
	(void)off0; (void)rs0;
#else
	/* well-formed map: sorted, disjoint, inside the file, no wrap */
	for (i = 0; i < NSPARSE; ++i) {
		VERIF_ASSUME(map[i].count >= 1 &&
			     map[i].offset <= par.file_size &&
			     map[i].count <= par.file_size - map[i].offset);
		if (i > 0)
			VERIF_ASSUME(map[i].offset >= map[i - 1].offset +
				     map[i - 1].count);
	}
#if NSPARSE == 0
	par.record_size = par.file_size - par.offset;
#else
	par.record_size = remaining(par.offset);
#endif
	memset(&strm, 0, sizeof(strm));
	strm.parent = &par;
	want = verif_nd_size("want");
	VERIF_ASSUME(want >= 1);
	off0 = par.offset;
	rs0 = par.record_size;

	ret = strm_get_buffered_data((sqfs_istream_t *)&strm, &out, &size,
				     want);
	if (ret == 0) {
		n = verif_nd_size("consume");
		VERIF_ASSUME(n <= size);
		strm_advance_buffer((sqfs_istream_t *)&strm, n);
		VERIF_ASSERT(par.offset == off0 + n &&
			     par.offset <= par.file_size,
			     "C04.sparse.accounting");
		VERIF_ASSERT(par.record_size <= rs0, "C04.sparse.accounting");
#if NSPARSE == 0
		VERIF_ASSERT(par.record_size == par.file_size - par.offset,
			     "C04.sparse.accounting");
#else
		VERIF_ASSERT(par.record_size == remaining(par.offset),
			     "C04.sparse.accounting");
#endif
		VERIF_ASSERT(par.offset < par.file_size ||
			     par.record_size == 0, "C04.sparse.accounting");
#if NSPARSE > 0
		VERIF_COVER(par.last_sparse && n > 0);
#endif
		VERIF_COVER(!par.last_sparse && n > 0 && par.record_size > 0);
		VERIF_COVER(par.offset == par.file_size);
	}
	(void)sparse; (void)spec_sparse; (void)spec_n; (void)d; (void)found;
	(void)count;
#endif
}
