/* C04.mtime.clamp (tool side): process_tarball
 * (bin/tar2sqfs/src/process_tarball.c) hands every entry on with
 * clamp(mtime, 0, 2^32-1) (keep_time) or the configured default time, for
 * EVERY 64-bit mtime the tar iterator may deliver. One entry, then end of
 * archive (bounded: entries <= 1); --root-becomes not set. The two static
 * consumers are redirected to stubs that check what they are given.
 */
#include "verif.h"
#include "bin/tar2sqfs/src/process_tarball.c"

bool dont_skip, keep_time, no_tail_pack, no_symlink_retarget;
sqfs_writer_cfg_t cfg;
char *root_becomes;
strlist_t excludedirs;

typedef struct {
	sqfs_dir_entry_t e;
	char name[4];
} ent_box_t;

static sqfs_s64 g_mtime0;
static sqfs_u32 g_default;
static int g_next_calls, g_consumed;
static sqfs_writer_t g_sqfs;

static void check_ent(const sqfs_dir_entry_t *ent)
{
	sqfs_s64 want;

	if (keep_time)
		want = g_mtime0 < 0 ? 0 : (g_mtime0 > 0xFFFFFFFFLL ?
					   0xFFFFFFFFLL : g_mtime0);
	else
		want = g_default;
	VERIF_ASSERT(ent->mtime == want, "C04.mtime.clamp");
	VERIF_ASSERT(ent->mtime >= 0 && ent->mtime <= 0xFFFFFFFFLL,
		     "C04.mtime.clamp");
	++g_consumed;
}

int stub_set_root_attribs(sqfs_writer_t *sqfs, sqfs_dir_iterator_t *it,
			  const sqfs_dir_entry_t *ent)
{
	(void)it;
	VERIF_ASSERT(sqfs == &g_sqfs && ent->name[0] == '\0',
		     "C04.mtime.root_routing");
	check_ent(ent);
	return verif_nd_bool("root.fail") ? -1 : 0;
}

int stub_create_node(sqfs_writer_t *sqfs, sqfs_dir_iterator_t *it,
		     sqfs_dir_entry_t *ent, const char *link)
{
	(void)it; (void)link;
	VERIF_ASSERT(sqfs == &g_sqfs && ent->name[0] != '\0',
		     "C04.mtime.root_routing");
	check_ent(ent);
	return verif_nd_bool("create.fail") ? -1 : 0;
}

static int env_next(sqfs_dir_iterator_t *it, sqfs_dir_entry_t **out)
{
	ent_box_t *b;

	(void)it;
	*out = NULL;
	if (g_next_calls++ > 0)
		return verif_nd_bool("next.err") ? -5 : 1;
	b = calloc(1, sizeof(*b));
	if (b == NULL)
		return -1;
	b->e.name[0] = (char)(verif_nd_bool("is_root") ? '\0' : 'f');
	b->e.mode = S_IFREG | 0644;
	b->e.mtime = g_mtime0;
	*out = &b->e;
	return 0;
}

static int env_read_link(sqfs_dir_iterator_t *it, char **out)
{
	(void)it;
	*out = NULL;
	return -1;
}

void sqfs_perror(const char *file, const char *action, int error_code)
{
	(void)file; (void)action; (void)error_code;
}
int canonicalize_name(char *filename)
{
	(void)filename;
	return 0;
}

void harness(void)
{
	sqfs_dir_iterator_t it;
	int ret;

	memset(&it, 0, sizeof(it));
	it.next = env_next;
	it.read_link = env_read_link;
	keep_time = verif_nd_bool("keep_time");
	g_mtime0 = verif_nd_i64("mtime");
	g_default = verif_nd_u32("default_mtime");
	g_sqfs.fs.defaults.mtime = g_default;
	root_becomes = NULL;

	ret = process_tarball(&it, &g_sqfs);

	VERIF_ASSERT(ret == 0 || ret == -1, "C04.mtime.status_domain");
	VERIF_ASSERT(ret != 0 || g_consumed == 1, "C04.mtime.clamp");
	VERIF_COVER(ret == 0 && keep_time && g_mtime0 < 0);
	VERIF_COVER(ret == 0 && keep_time && g_mtime0 > 0x100000000LL);
	VERIF_COVER(ret == 0 && !keep_time);
	VERIF_COVER(ret == -1);
}
