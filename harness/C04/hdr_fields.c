/* C04.hdr.fields: decode_header (lib/tar/src/read_header.c) on a fully
 * symbolic header against the field rules of the property statement.
 * read_number is its contract with a value *per field* (g_val / g_fail:
 * arbitrary, but the harness knows which field produced which number);
 * memcpy / strndup transfer one witness position g_w of the destination so
 * that "for all positions" is checked at the price of one.
 *
 *  C04.hdr.name     POSIX header with a prefix: name = prefix '/' name
 *                   (prefix and name cut at their field width or first NUL);
 *                   otherwise name = the name field; a PAX name is kept
 *  C04.hdr.numbers  size/uid/gid/devmajor/devminor/mtime come from their
 *                   own field, unless the PAX mask says they were set
 *                   before, in which case they are untouched; devno =
 *                   makedev(major field, minor field)
 *  C04.hdr.mtime    mtime is the two's complement reading of the field
 *                   (negative base-256 values become negative)
 *  C04.hdr.type     type flag -> mode bits / hard link / unknown table;
 *                   symlinks are S_IFLNK|0777, mode = field & 07777 else
 *  C04.hdr.link     link and symlink records get the linkname field (cut
 *                   at 100 bytes) unless PAX set the target
 *  C04.hdr.fail     -1 iff a needed number did not parse or an allocation
 *                   failed
 */
#include "verif.h"
#include "lib/tar/src/read_header.c"
#include "C07/sysmacros_model.h"

enum { F_SIZE, F_UID, F_GID, F_MAJ, F_MIN, F_MTIME, F_MODE, F_N };
static const tar_header_t *g_hdr;
static sqfs_u64 g_val[F_N];
static bool g_fail[F_N], g_asked[F_N], g_alloc_failed;
static size_t g_w;		/* witness position in the destination */

int read_number(const char *str, int digits, sqfs_u64 *out)
{
	int f = -1;

	if (str == g_hdr->size && digits == 12) f = F_SIZE;
	if (str == g_hdr->uid && digits == 8) f = F_UID;
	if (str == g_hdr->gid && digits == 8) f = F_GID;
	if (str == g_hdr->devmajor && digits == 8) f = F_MAJ;
	if (str == g_hdr->devminor && digits == 8) f = F_MIN;
	if (str == g_hdr->mtime && digits == 12) f = F_MTIME;
	if (str == g_hdr->mode && digits == 8) f = F_MODE;
	VERIF_ASSERT(f >= 0, "C04.hdr.numbers");
	if (f < 0)
		return -1;
	g_asked[f] = true;
	if (g_fail[f])
		return -1;
	*out = g_val[f];
	return 0;
}

#ifndef VERIF_REPLAY
size_t strnlen(const char *s, size_t n)
{
	size_t i = 0;

	while (i < n && s[i] != '\0')
		++i;
	return i;
}

void *memcpy(void *dst, const void *src, size_t n)
{
	size_t off = VERIF_POINTER_OFFSET(dst);

	VERIF_ASSERT(VERIF_R_OK(src, n) && VERIF_W_OK(dst, n),
		     "C04.hdr.memcpy_bounds");
	if (g_w >= off && g_w - off < n)
		((char *)dst)[g_w - off] = ((const char *)src)[g_w - off];
	return dst;
}

char *strndup(const char *s, size_t n)
{
	size_t l = strnlen(s, n);
	char *p = malloc(l + 1);

	if (p == NULL) {
		g_alloc_failed = true;
		return NULL;
	}
	memcpy(p, s, l);
	p[l] = '\0';
	return p;
}
#endif

unsigned int tar_compute_checksum(const tar_header_t *hdr)
{ (void)hdr; return 0; }
sqfs_s32 sqfs_istream_read(sqfs_istream_t *s, void *d, size_t n)
{ (void)s; (void)d; (void)n; return -1; }
int sqfs_istream_skip(sqfs_istream_t *s, sqfs_u64 n)
{ (void)s; (void)n; return -1; }
bool is_memory_zero(const void *b, size_t n) { (void)b; (void)n; return false; }
char *record_to_memory(sqfs_istream_t *fp, size_t size)
{ (void)fp; (void)size; return NULL; }
int read_pax_header(sqfs_istream_t *fp, sqfs_u64 entsize,
		    unsigned int *set_by_pax, tar_header_decoded_t *out)
{ (void)fp; (void)entsize; (void)set_by_pax; (void)out; return -1; }
sparse_map_t *read_gnu_old_sparse(sqfs_istream_t *fp, tar_header_t *hdr)
{ (void)fp; (void)hdr; return NULL; }
sparse_map_t *read_gnu_new_sparse(sqfs_istream_t *fp,
				  tar_header_decoded_t *out)
{ (void)fp; (void)out; return NULL; }
void clear_header(tar_header_decoded_t *hdr) { (void)hdr; }
void free_sparse_list(sparse_map_t *sparse) { (void)sparse; }
void sqfs_perror(const char *file, const char *action, int error_code)
{ (void)file; (void)action; (void)error_code; }

void harness(void)
{
	static char pax_name[2] = "n", pax_link[2] = "l";
	tar_header_decoded_t out, pre;
	unsigned int pax = verif_nd_u32("set_by_pax");
	int version = verif_nd_int("version");
	size_t len1, len2, nlen, i;
	tar_header_t hdr;
	bool needed_fail = false, has_prefix, is_link;
	unsigned int want_fmt;
	char expect;
	int ret;

	verif_nd_bytes(&hdr, sizeof(hdr), "hdr");
	g_hdr = &hdr;
	for (i = 0; i < F_N; ++i) {
		g_val[i] = verif_nd_u64("field.value");
		g_fail[i] = verif_nd_bool("field.fail");
	}
	g_w = verif_nd_size("witness");
	VERIF_ASSUME(g_w < 300);

	memset(&out, 0, sizeof(out));
	out.record_size = verif_nd_u64("pre.size");
	out.uid = verif_nd_u64("pre.uid");
	out.gid = verif_nd_u64("pre.gid");
	out.devno = verif_nd_u64("pre.devno");
	out.mtime = verif_nd_i64("pre.mtime");
	if (pax & PAX_NAME)
		out.name = pax_name;
	if (pax & PAX_SLINK_TARGET)
		out.link_target = pax_link;
	pre = out;

	ret = decode_header(&hdr, pax, &out, version);

	/* which numbers are needed */
	if (!(pax & PAX_SIZE) && g_fail[F_SIZE]) needed_fail = true;
	if (!(pax & PAX_UID) && g_fail[F_UID]) needed_fail = true;
	if (!(pax & PAX_GID) && g_fail[F_GID]) needed_fail = true;
	if (!(pax & PAX_DEV_MAJ) && g_fail[F_MAJ]) needed_fail = true;
	if (!(pax & PAX_DEV_MIN) && g_fail[F_MIN]) needed_fail = true;
	if (!(pax & PAX_MTIME) && g_fail[F_MTIME]) needed_fail = true;
	if (g_fail[F_MODE]) needed_fail = true;

	VERIF_ASSERT(ret == 0 || ret == -1, "C04.hdr.fail");
	VERIF_ASSERT((ret == -1) == (needed_fail || g_alloc_failed ||
				     (ret == -1 && out.name == NULL)),
		     "C04.hdr.fail");
	if (ret != 0)
		return;
	VERIF_ASSERT(!needed_fail, "C04.hdr.fail");

	/* ---- name ---- */
	has_prefix = hdr.tail.posix.prefix[0] != '\0' && version == ETV_POSIX;
	len1 = strnlen(hdr.name, sizeof(hdr.name));
	len2 = strnlen(hdr.tail.posix.prefix, sizeof(hdr.tail.posix.prefix));
	if (pax & PAX_NAME) {
		VERIF_ASSERT(out.name == pax_name, "C04.hdr.name");
	} else {
		nlen = has_prefix ? len2 + 1 + len1 : len1;
		VERIF_ASSERT(out.name != NULL && out.name != pax_name &&
			     out.name[nlen] == '\0', "C04.hdr.name");
		if (g_w < nlen) {
			if (!has_prefix)
				expect = hdr.name[g_w];
			else if (g_w < len2)
				expect = hdr.tail.posix.prefix[g_w];
			else if (g_w == len2)
				expect = '/';
			else
				expect = hdr.name[g_w - len2 - 1];
			VERIF_ASSERT(out.name[g_w] == expect, "C04.hdr.name");
		}
		VERIF_COVER(has_prefix && g_w > len2 && g_w < nlen);
		VERIF_COVER(has_prefix && len1 == 100 && len2 == 155);
		VERIF_COVER(!has_prefix && len1 == 100 && g_w == 99);
	}

	/* ---- numbers ---- */
	VERIF_ASSERT(out.record_size == ((pax & PAX_SIZE) ? pre.record_size :
					 g_val[F_SIZE]), "C04.hdr.numbers");
	VERIF_ASSERT(out.uid == ((pax & PAX_UID) ? pre.uid : g_val[F_UID]),
		     "C04.hdr.numbers");
	VERIF_ASSERT(out.gid == ((pax & PAX_GID) ? pre.gid : g_val[F_GID]),
		     "C04.hdr.numbers");
	VERIF_ASSERT(major(out.devno) ==
		     ((pax & PAX_DEV_MAJ) ? major(pre.devno) :
		      (unsigned int)g_val[F_MAJ]), "C04.hdr.numbers");
	VERIF_ASSERT(minor(out.devno) ==
		     ((pax & PAX_DEV_MIN) ? minor(pre.devno) :
		      (unsigned int)g_val[F_MIN]), "C04.hdr.numbers");
	VERIF_ASSERT(g_asked[F_SIZE] == !(pax & PAX_SIZE) &&
		     g_asked[F_MTIME] == !(pax & PAX_MTIME) && g_asked[F_MODE],
		     "C04.hdr.numbers");
	if (pax & PAX_MTIME)
		VERIF_ASSERT(out.mtime == pre.mtime, "C04.hdr.mtime");
	else
		VERIF_ASSERT((sqfs_u64)out.mtime == g_val[F_MTIME],
			     "C04.hdr.mtime");
	VERIF_COVER(!(pax & PAX_MTIME) && out.mtime < 0);

	/* ---- type ---- */
	is_link = hdr.typeflag == TAR_TYPE_LINK ||
		hdr.typeflag == TAR_TYPE_SLINK;
	switch (hdr.typeflag) {
	case '\0': case TAR_TYPE_FILE: case TAR_TYPE_GNU_SPARSE:
		want_fmt = S_IFREG; break;
	case TAR_TYPE_SLINK: want_fmt = S_IFLNK; break;
	case TAR_TYPE_CHARDEV: want_fmt = S_IFCHR; break;
	case TAR_TYPE_BLOCKDEV: want_fmt = S_IFBLK; break;
	case TAR_TYPE_DIR: want_fmt = S_IFDIR; break;
	case TAR_TYPE_FIFO: want_fmt = S_IFIFO; break;
	default: want_fmt = 0; break;
	}
	VERIF_ASSERT((out.mode & S_IFMT) == want_fmt, "C04.hdr.type");
	if (hdr.typeflag == TAR_TYPE_SLINK)
		VERIF_ASSERT(out.mode == (S_IFLNK | 0777), "C04.hdr.type");
	else
		VERIF_ASSERT((out.mode & 07777) == (g_val[F_MODE] & 07777),
			     "C04.hdr.type");
	VERIF_ASSERT(out.is_hard_link == (hdr.typeflag == TAR_TYPE_LINK),
		     "C04.hdr.type");
	VERIF_ASSERT(out.unknown_record ==
		     (want_fmt == 0 && hdr.typeflag != TAR_TYPE_LINK),
		     "C04.hdr.type");

	/* ---- link target ---- */
	if (is_link && !(pax & PAX_SLINK_TARGET)) {
		nlen = strnlen(hdr.linkname, sizeof(hdr.linkname));
		VERIF_ASSERT(out.link_target != NULL &&
			     out.link_target[nlen] == '\0', "C04.hdr.link");
		if (g_w < nlen)
			VERIF_ASSERT(out.link_target[g_w] == hdr.linkname[g_w],
				     "C04.hdr.link");
		VERIF_COVER(nlen == 100 && g_w == 99);
	} else {
		VERIF_ASSERT(out.link_target == pre.link_target,
			     "C04.hdr.link");
	}
}
