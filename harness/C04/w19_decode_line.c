/* C04.sparse_new.decode_value: decode() of lib/tar/src/read_sparse_map_new.c
 * on one whole line of a GNU 1.0 sparse map - ND decimal digits (symbolic,
 * leading zeros allowed) followed by a newline - against the decimal value
 * computed by the spec function, and on a line that is cut by the end of
 * the range (the caller then fetches the next block). This is the instance
 * of decode's contract that harness w19_new_sparse relies on (stub_decode).
 *
 *  C04.sparse_new.decode_value   whole line inside the range: *out = decimal
 *        value of the digits, result = ND + 1 (digits and the newline
 *        consumed); the line reaches the end of the range: result 0
 *        ("need more data"); never an error for a well-formed line whose
 *        value fits 64 bit
 */
#include "verif.h"
#include "lib/tar/src/read_sparse_map_new.c"

#ifndef ND
#define ND 19
#endif

sqfs_s32 sqfs_istream_read(sqfs_istream_t *strm, void *data, size_t size)
{ (void)strm; (void)data; (void)size; return -1; }
void sqfs_perror(const char *file, const char *action, int error_code)
{ (void)file; (void)action; (void)error_code; }
void free_sparse_list(sparse_map_t *sparse) { (void)sparse; }

void harness(void)
{
	char line[ND + 2];
	sqfs_u64 want = 0;
	size_t got, len;
	int i, ret;

	for (i = 0; i < ND; ++i) {
		line[i] = (char)verif_nd_u8("digit");
		VERIF_ASSUME(line[i] >= '0' && line[i] <= '9');
		want = want * 10 + (sqfs_u64)(line[i] - '0');
	}
	line[ND] = '\n';
	line[ND + 1] = (char)verif_nd_u8("next");

	len = verif_nd_size("len");
	VERIF_ASSUME(len <= ND + 2);
	got = verif_nd_size("stale");

	ret = decode(line, len, &got);

	if (len > ND) {
		VERIF_ASSERT(ret == ND + 1 && got == want,
			     "C04.sparse_new.decode_value");
		VERIF_COVER(want > 0 && line[0] == '0' || ND == 1);
	} else {
		VERIF_ASSERT(ret == 0, "C04.sparse_new.decode_value");
		VERIF_COVER(len == ND);
		VERIF_COVER(len == 0);
	}
}
