/* C04 / C05 (w13): the tar-compat iterator of sqfs2tar (bin/sqfs2tar/src/
 * iterator.c): the real next() / keep_entry() / create_root_entry() /
 * read_xattr() / read_link() / open_file_ro() on top of a CONTRACT of the
 * recursive source iterator: each call of src->next delivers the next of up
 * to NSRC entries (a heap block of exactly sizeof(entry) + strlen(name) + 1
 * bytes; name = a canonical relative path of L0 / L1 bytes over {a, b, /},
 * every other field symbolic), or any negative error, or end-of-list.
 * Options (-D): NSUB = number of --subdir arguments (0..2; the strings are
 * symbolic canonical paths of SL0 / 1 bytes), KEEP = --keep-as-dir, RB =
 * --root-becomes given (a symbolic 1 byte name, or "."). As process_args does,
 * NSUB > 1 implies KEEP.
 *
 * Specification, from sqfs2tar(1) - independent of the code:
 *   sel(e)   NSUB == 0, or e lies inside a selected sub directory (e == s or
 *            e starts with s + "/"); with a kept prefix (KEEP) the leading
 *            directories of s are listed as well, otherwise ("it becomes the
 *            new root") s itself is not an entry of the archive
 *   name(e)  e, minus the prefix "s/" if the single sub directory becomes the
 *            root, prefixed with "<root-becomes>/" if given; a directory may
 *            carry the customary trailing '/'
 *
 *   C04.s2t.next.selected   the entry returned is the FIRST delivered entry
 *                           with sel(e) (order kept, none lost, none invented);
 *                           if there is none the source's error / end-of-list
 *                           is the result
 *   C04.s2t.next.name       its name is name(e), NUL terminated inside the
 *                           (re)allocated block
 *   C04.s2t.next.fields     mode, uid, gid, mtime, size, dev, rdev, inode,
 *                           flags are those of e, unchanged
 *   C04.s2t.keep_entry.component_filter  (PART 2, keep_entry alone, names and
 *                           sub directory strings ARBITRARY byte strings <= 4
 *                           bytes) an entry passes the filter iff no --subdir
 *                           was given, or for some given S: name == S, or
 *                           name starts with S + "/", or S starts with
 *                           name + "/" - a match only at a path component
 *                           boundary
 *   C04.s2t.next.no_prune   ignore_subdir is never applied to an entry with
 *                           sel(e) or to a leading directory of a selected
 *                           sub directory (its contents would be lost)
 *   C04.s2t.root_entry      with --root-becomes the very first entry is the
 *                           directory "<root-becomes>/" with mode, uid, gid,
 *                           mtime of the ROOT INODE, and its xattrs are a copy
 *                           of the root inode's (read_xattr in that state)
 *   C05.s2t.next.fail_stop  a source error or an allocation failure is
 *                           returned, nothing is handed out, the error is
 *                           sticky (the next call returns it again without
 *                           asking the source); end-of-list is sticky too;
 *                           every skipped entry is released (leak check)
 *   C05.s2t.dispatch        read_link / open_file_ro / read_xattr reach the
 *                           source only while an entry of the source is
 *                           current, else NO_ENTRY / the sticky error
 *   (all CBMC memory checks: prefix strip memmove, realloc growth, the
 *    sub directory comparisons)
 */
#include <stdlib.h>
#include <string.h>
#define ENV_PROP "C04"
#define W13_NO_SQFS_FREE
#include "C05/w13_env.h"
#include "bin/sqfs2tar/src/sqfs2tar.h"

#ifndef NSRC
#define NSRC 2
#endif
#ifndef L0
#define L0 3
#endif
#ifndef L1
#define L1 3
#endif
#ifndef NSUB
#define NSUB 0
#endif
#ifndef SL0
#define SL0 1
#endif
#ifndef KEEP
#define KEEP 0
#endif
#ifndef RB
#define RB 0
#endif
#ifndef PART
#define PART 0	/* 0 next from STATE_ENTRY, 1 root entry + dispatch */
#endif
#define NMAX 4	/* longest source name / sub directory string */

/* options.c globals */
bool dont_skip, keep_as_dir, no_xattr, no_links;
char *root_becomes;
strlist_t subdirs;
int compressor;
const char *filename;

static unsigned g_frees;
void sqfs_free(void *p)
{
	if (p != NULL)
		++g_frees;
	free(p);
}

/* ---- source iterator contract ---------------------------------------------- */
static const size_t g_len[2] = { L0, L1 };
static struct {
	unsigned calls, delivered, prunes, links, files, xattrs;
	int terminal;			/* what the source said at the end */
	sqfs_dir_entry_t log[2];	/* fields of the delivered entries */
	bool pruned[2];
} g_src;
/* one object per name, reached through a constant pointer table (HOWTO) */
static char g_name0[NMAX + 1], g_name1[NMAX + 1];
static char *const g_srcname[2] = { g_name0, g_name1 };
static sqfs_dir_iterator_t g_src_it;

/* a canonical relative path of exactly n bytes over {a, b, /} */
static void nd_path(char *dst, size_t n, const char *tag)
{
	size_t i;

	for (i = 0; i < NMAX + 1; ++i) {
		uint8_t c = verif_nd_u8(tag);

		if (i >= n) {
			dst[i] = '\0';
			continue;
		}
		VERIF_ASSUME(c == 'a' || c == 'b' || c == '/');
		VERIF_ASSUME(c != '/' || (i > 0 && i + 1 < n && dst[i - 1] != '/'));
		dst[i] = (char)c;
	}
}

static int env_src_next(sqfs_dir_iterator_t *it, sqfs_dir_entry_t **out)
{
	sqfs_dir_entry_t *e;
	unsigned k = g_src.delivered;

	VERIF_ASSERT(it == &g_src_it && out != NULL, "C04.env.src_next.args");
	VERIF_ASSERT(g_src.terminal == 0, "C05.s2t.next.fail_stop");
	++g_src.calls;
	if (k >= NSRC || verif_nd_bool("src.end")) {
		g_src.terminal = verif_nd_int("src.err");
		if (verif_nd_bool("src.eof") || g_src.terminal >= 0)
			g_src.terminal = 1;
		return g_src.terminal;
	}
	e = malloc(sizeof(*e) + g_len[k] + 1);
	if (e == NULL) {
		g_src.terminal = SQFS_ERROR_ALLOC;
		return g_src.terminal;
	}
	e->size = verif_nd_u64("e.size");
	e->mtime = verif_nd_i64("e.mtime");
	e->dev = verif_nd_u64("e.dev");
	e->rdev = verif_nd_u64("e.rdev");
	e->inode = verif_nd_u64("e.inode");
	e->uid = verif_nd_u64("e.uid");
	e->gid = verif_nd_u64("e.gid");
	e->mode = verif_nd_u16("e.mode");
	e->flags = verif_nd_u16("e.flags");
	nd_path(g_srcname[k], g_len[k], "e.name");
	(memcpy)(e->name, g_srcname[k], g_len[k] + 1);
	g_src.log[k] = *e;
	++g_src.delivered;
	*out = e;
	return 0;
}

static void env_src_ignore_subdir(sqfs_dir_iterator_t *it)
{
	VERIF_ASSERT(it == &g_src_it && g_src.delivered > 0,
		     "C04.env.src_ignore.args");
	++g_src.prunes;
	g_src.pruned[g_src.delivered - 1] = true;
}

static int env_src_read_link(sqfs_dir_iterator_t *it, char **out)
{
	(void)it; (void)out;
	++g_src.links;
	return verif_nd_int("src.link");
}

static int env_src_open_file_ro(sqfs_dir_iterator_t *it, sqfs_istream_t **out)
{
	(void)it; (void)out;
	++g_src.files;
	return verif_nd_int("src.file");
}

static int env_src_read_xattr(sqfs_dir_iterator_t *it, sqfs_xattr_t **out)
{
	(void)it; (void)out;
	++g_src.xattrs;
	return verif_nd_int("src.xattr");
}

static void env_never_destroy(sqfs_object_t *o) { (void)o; }

/* xattr list helpers (lib/sqfs/src/xattr/xattr.c) by contract */
static unsigned g_xcopies;
static const sqfs_xattr_t *g_xcopy_src;
static sqfs_xattr_t *g_xcopy_result;
sqfs_xattr_t *sqfs_xattr_list_copy(const sqfs_xattr_t *list)
{
	++g_xcopies;
	g_xcopy_src = list;
	g_xcopy_result = malloc(sizeof(sqfs_xattr_t));
	return g_xcopy_result;
}

void sqfs_xattr_list_free(sqfs_xattr_t *list)
{
	free(list);
}

#include "bin/sqfs2tar/src/iterator.c"

/* ---- specification ----------------------------------------------------------- */
/* one object per string (cbmc 6.11 mis-reads rows of a static 2-D char array
 * handed to a string walker, HOWTO) */
static char g_sub0[NMAX + 1], g_sub1[NMAX + 1];
static char *const g_sub[2] = { g_sub0, g_sub1 };
static char *g_subp[2];
static char g_rb[2];

static size_t sp_len(const char *s)
{
	size_t n = 0;

	while (n < NMAX && s[n] != '\0')
		++n;
	return n;
}

/* e == s or e starts with s + "/" */
static bool sp_inside(const char *e, const char *s)
{
	size_t i, ls = sp_len(s);

	for (i = 0; i < NMAX; ++i) {
		if (i >= ls)
			break;
		if (e[i] != s[i])
			return false;
	}
	return e[ls] == '\0' || e[ls] == '/';
}

static bool sp_selected(const char *e)
{
	unsigned i;

	if (NSUB == 0)
		return true;
	for (i = 0; i < NSUB; ++i) {
		if (sp_inside(e, g_sub[i])) {
			/* the new root itself is not an entry */
			if (!KEEP && sp_len(e) == sp_len(g_sub[i]))
				continue;
			return true;
		}
		/* kept prefix: leading directories of s */
		if (KEEP && sp_inside(g_sub[i], e) && sp_len(e) < sp_len(g_sub[i]))
			return true;
	}
	return false;
}

static bool sp_leads_to_selected(const char *e)
{
	unsigned i;

	for (i = 0; i < NSUB; ++i) {
		if (sp_inside(g_sub[i], e))
			return true;
	}
	return false;
}

/* expected name into dst (<= 2 + NMAX + 2 bytes) */
static size_t sp_name(char *dst, const char *e, bool is_dir, bool *slash_optional)
{
	size_t o = 0, i, skip = 0;

	if (RB) {
		dst[o++] = g_rb[0];
		dst[o++] = '/';
	}
	if (NSUB == 1 && !KEEP)
		skip = sp_len(g_sub[0]) + 1;
	for (i = skip; i < NMAX && e[i] != '\0'; ++i)
		dst[o++] = e[i];
	*slash_optional = is_dir;
	dst[o] = '\0';
	return o;
}

static iterator_t g_it;
static sqfs_inode_generic_t g_root_inode;

static void setup(int state)
{
	unsigned i;

	pr_init();
	g_frees = 0;
	g_src.calls = g_src.delivered = g_src.prunes = 0;
	g_src.links = g_src.files = g_src.xattrs = 0;
	g_src.terminal = 0;
	g_src.pruned[0] = g_src.pruned[1] = false;
	g_xcopies = 0;
	g_src_it.obj.refcount = 1;
	g_src_it.obj.destroy = env_never_destroy;
	g_src_it.next = env_src_next;
	g_src_it.ignore_subdir = env_src_ignore_subdir;
	g_src_it.read_link = env_src_read_link;
	g_src_it.open_file_ro = env_src_open_file_ro;
	g_src_it.read_xattr = env_src_read_xattr;

	dont_skip = no_xattr = no_links = false;
	keep_as_dir = KEEP;
	nd_path(g_sub[0], SL0, "subdir0");
	nd_path(g_sub[1], 1, "subdir1");
	g_subp[0] = g_sub0;
	g_subp[1] = g_sub1;
	subdirs.strings = g_subp;
	subdirs.count = NSUB;
	for (i = NSUB; i < 2; ++i)
		g_sub[i][0] = '\0';
	if (RB) {
		g_rb[0] = verif_nd_bool("rb.dot") ? '.' : 'r';
		g_rb[1] = '\0';
		root_becomes = g_rb;
	} else {
		root_becomes = NULL;
	}

	g_it.src = &g_src_it;
	g_it.state = state;
	g_it.root = NULL;
	g_it.root_xattr = NULL;
	g_it.super.root_inode_ref = verif_nd_u64("super.root_ref");
}

void harness(void)
{
	sqfs_dir_iterator_t *base = (sqfs_dir_iterator_t *)&g_it;
	sqfs_dir_entry_t *out = (sqfs_dir_entry_t *)(size_t)verif_nd_size("out.before");
	int ret, ret2;
	unsigned k, j = NSRC;

#if PART == 0
	setup(STATE_ENTRY);
	ret = next(base, &out);

	/* first delivered entry the manual selects */
	for (k = 0; k < NSRC; ++k) {
		if (k < g_src.delivered && j == NSRC && sp_selected(g_srcname[k]))
			j = k;
	}
	for (k = 0; k < NSRC; ++k) {
		if (g_src.pruned[k])
			VERIF_ASSERT(!sp_selected(g_srcname[k]) &&
				     !sp_leads_to_selected(g_srcname[k]),
				     "C04.s2t.next.no_prune");
	}
	if (ret == 0) {
		char want[NMAX + 6];
		bool opt;
		size_t n, i;
		bool same = true;

		VERIF_ASSERT(j < NSRC && g_src.delivered == j + 1 &&
			     g_src.calls == j + 1 && out != NULL,
			     "C04.s2t.next.selected");
		VERIF_ASSUME(j < NSRC && out != NULL);
		n = sp_name(want, g_srcname[j], S_ISDIR(g_src.log[j].mode), &opt);
		for (i = 0; i < NMAX + 4; ++i) {
			if (i < n && out->name[i] != want[i])
				same = false;
		}
		VERIF_ASSERT(same && VERIF_R_OK(out->name, n + 1) &&
			     (out->name[n] == '\0' ||
			      (opt && out->name[n] == '/' &&
			       VERIF_R_OK(out->name, n + 2) && out->name[n + 1] == '\0')),
			     "C04.s2t.next.name");
		VERIF_ASSERT(out->mode == g_src.log[j].mode &&
			     out->uid == g_src.log[j].uid &&
			     out->gid == g_src.log[j].gid &&
			     out->mtime == g_src.log[j].mtime &&
			     out->size == g_src.log[j].size &&
			     out->dev == g_src.log[j].dev &&
			     out->rdev == g_src.log[j].rdev &&
			     out->inode == g_src.log[j].inode &&
			     out->flags == g_src.log[j].flags,
			     "C04.s2t.next.fields");
		/* everything delivered before it was released */
		VERIF_ASSERT(g_frees == j, "C05.s2t.next.fail_stop");
		VERIF_ASSERT(g_it.state == STATE_ENTRY, "C05.s2t.dispatch");
		free(out);
	} else {
		VERIF_ASSERT(out == NULL, "C05.s2t.next.fail_stop");
		if (g_src.terminal != 0 && g_src.terminal != SQFS_ERROR_ALLOC) {
			/* the source ended: nothing selectable may be lost */
			VERIF_ASSERT(j == NSRC && ret == g_src.terminal &&
				     g_frees == g_src.delivered,
				     "C04.s2t.next.selected");
		} else {
			VERIF_ASSERT(ret == SQFS_ERROR_ALLOC &&
				     g_frees == g_src.delivered,
				     "C05.s2t.next.fail_stop");
		}
		/* sticky */
		k = g_src.calls;
		out = (sqfs_dir_entry_t *)(size_t)verif_nd_size("out.before2");
		ret2 = next(base, &out);
		VERIF_ASSERT(ret2 == ret && out == NULL && g_src.calls == k,
			     "C05.s2t.next.fail_stop");
		{
			char *l = NULL;
			sqfs_istream_t *f = NULL;
			sqfs_xattr_t *x = NULL;
			int want_e = ret < 0 ? ret : SQFS_ERROR_NO_ENTRY;

			VERIF_ASSERT(read_link(base, &l) == want_e &&
				     open_file_ro(base, &f) == want_e &&
				     read_xattr(base, &x) == want_e &&
				     g_src.links == 0 && g_src.files == 0 &&
				     g_src.xattrs == 0, "C05.s2t.dispatch");
		}
	}
	VERIF_COVER(ret == 0 && j == 0);
	VERIF_COVER(ret == 0 && S_ISDIR(g_src.log[0].mode));
	VERIF_COVER(ret == 1);
	VERIF_COVER(ret < 0 && ret != SQFS_ERROR_ALLOC);
	VERIF_COVER(ret == SQFS_ERROR_ALLOC);
#if NSUB > 0
	VERIF_COVER(ret == 0 && j == 1);
	VERIF_COVER(ret == 1 && g_src.delivered == NSRC);
	VERIF_COVER(g_src.prunes > 0);
	VERIF_COVER(ret == 1 && g_src.delivered == NSRC && g_src.prunes == 0);
#endif
#elif PART == 2
	/* keep_entry() alone against the path-component specification, names and
	 * sub directory strings arbitrary byte strings of up to NMAX bytes */
	{
		static struct {
			sqfs_dir_entry_t e;
			char name[NMAX + 1 + 8];
		} ent;
		bool keep, want = NSUB == 0;
		size_t i;

		(void)ret; (void)ret2; (void)j; (void)base; (void)out;
		setup(STATE_ENTRY);
		for (k = 0; k < 2; ++k) {
			for (i = 0; i < NMAX; ++i)
				*(uint8_t *)&g_sub[k][i] = verif_nd_u8("subdir.byte");
			g_sub[k][NMAX] = '\0';
		}
		for (i = 0; i < NMAX; ++i)
			*(uint8_t *)&ent.e.name[i] = verif_nd_u8("name.byte");
		/* (the flexible array member starts inside the tail padding
		   of the entry structure, not at ent.name) */
		ent.e.name[NMAX] = '\0';
		ent.e.mode = verif_nd_u16("mode");

		keep = keep_entry(&ent.e);

		for (k = 0; k < NSUB; ++k) {
			if (sp_inside(ent.e.name, g_sub[k]) ||
			    sp_inside(g_sub[k], ent.e.name))
				want = true;
		}
		VERIF_ASSERT(keep == want, "C04.s2t.keep_entry.component_filter");
#if NSUB > 0
		VERIF_COVER(keep && sp_len(ent.e.name) > sp_len(g_sub0) &&
			    sp_len(g_sub0) > 1);
		VERIF_COVER(keep && sp_len(ent.e.name) < sp_len(g_sub0));
		VERIF_COVER(!keep && sp_len(ent.e.name) > sp_len(g_sub0) &&
			    ent.e.name[0] == g_sub0[0] && sp_len(g_sub0) == 1);
#else
		VERIF_COVER(keep);
#endif
	}
#else /* PART 1: --root-becomes: the root entry */
	{
		sqfs_xattr_t *x = NULL, *rootx = malloc(sizeof(*rootx));
		sqfs_istream_t *f = NULL;
		char *l = NULL;
		bool ext = verif_nd_bool("root.ext");

		VERIF_ASSUME(rootx != NULL);
		setup(STATE_INITIALIZED);
		g_root_inode.base.type = ext ? SQFS_INODE_EXT_DIR : SQFS_INODE_DIR;
		g_root_inode.base.mode = (sqfs_u16)(S_IFDIR | (verif_nd_u16("root.mode") & 07777));
		g_root_inode.base.mod_time = verif_nd_u32("root.mtime");
		if (ext)
			g_root_inode.data.dir_ext.size = verif_nd_u32("root.size");
		else
			g_root_inode.data.dir.size = verif_nd_u16("root.size");
		g_it.root = &g_root_inode;
		g_it.root_uid = verif_nd_u32("root.uid");
		g_it.root_gid = verif_nd_u32("root.gid");
		g_it.root_xattr = verif_nd_bool("root.has_xattr") ? rootx : NULL;

		ret = next(base, &out);

		if (ret == 0) {
			VERIF_ASSERT(out != NULL && g_src.calls == 0 &&
				     out->name[0] == g_rb[0] && out->name[1] == '/' &&
				     out->name[2] == '\0' &&
				     out->mode == g_root_inode.base.mode &&
				     out->uid == g_it.root_uid &&
				     out->gid == g_it.root_gid &&
				     out->mtime == g_root_inode.base.mod_time &&
				     out->inode == g_it.super.root_inode_ref &&
				     out->flags == 0, "C04.s2t.root_entry");
			/* in this state: no link, no data, the root's xattrs */
			VERIF_ASSERT(read_link(base, &l) == SQFS_ERROR_NO_ENTRY &&
				     open_file_ro(base, &f) == SQFS_ERROR_NO_ENTRY &&
				     g_src.links == 0 && g_src.files == 0,
				     "C05.s2t.dispatch");
			ret2 = read_xattr(base, &x);
			if (g_it.root_xattr == NULL)
				VERIF_ASSERT(ret2 == 0 && x == NULL && g_xcopies == 0,
					     "C04.s2t.root_entry");
			else
				VERIF_ASSERT(g_xcopies == 1 && g_xcopy_src == rootx &&
					     g_src.xattrs == 0 &&
					     ((ret2 == 0 && x == g_xcopy_result && x != NULL) ||
					      (ret2 == SQFS_ERROR_ALLOC && g_xcopy_result == NULL)),
					     "C04.s2t.root_entry");
			free(x);
			free(out);
			/* the entries of the source follow */
			out = NULL;
			ret2 = next(base, &out);
			VERIF_ASSERT(g_src.calls >= 1, "C04.s2t.root_entry");
			if (ret2 == 0)
				free(out);
		} else {
			VERIF_ASSERT(ret == SQFS_ERROR_ALLOC && out == NULL &&
				     g_src.calls == 0, "C05.s2t.next.fail_stop");
			ret2 = next(base, &out);
			VERIF_ASSERT(ret2 == SQFS_ERROR_ALLOC && g_src.calls == 0,
				     "C05.s2t.next.fail_stop");
		}
		VERIF_COVER(ret == 0 && g_it.root_xattr != NULL);
		VERIF_COVER(ret != 0);
		free(rootx);
	}
#endif
}
